import AtreeProofs.Props.TransDescentGet
import AtreeProofs.Props.TransDescentRoute
import AtreeProofs.Props.TransSlabsDecide
import AtreeProofs.Props.TransSlabsTree
import AtreeProofs.Props.TransSafe
import AtreeProofs.Array.TreeOps
import AtreeProofs.Array.EffectsTree
/-
  TRANSLATION EQUIVALENCE, the DESCENT (WP12): `ArraySlab.Remove` / `ArrayMetaDataSlab.Remove` over a heap.

  The generated `ArrayMetaDataSlab_Remove` (Gen/TransSlabs.lean, regenerated from array_metadata_slab.go on every run)
  checks the index against the header count, routes it (`childSlabIndexInfo`), reads the child from the storage
  (`getArraySlab`), calls `Remove` on it through dynamic dispatch, decrements the count and every count sum from the
  routed child on (`loop1`), copies the child's header, and then: `MergeOrRebalanceChildSlab` if the child underflows,
  and ALWAYS `storeSlab(a)` (after a merge / rebalance the parent is therefore stored a second time; the model's
  `ATree.remove` emits the same effects).  On a heap that HOLDS a valid model tree (`Holds`, Trans/Descent.lean) it
  returns what `ATree.remove` returns - element, new tree, `Ctx` - and the heap afterwards is right (`HeapPost`).

  * `Sl_ArrayDataSlab_Remove_envH`: the leaf over the heap (port of `Sl_ArrayDataSlab_Remove_eq_model`).
  * `Sl_Remove_loop1_gen`: the count-sum loop is the model's `bumpFrom k (· - 1)`, GIVEN that every count sum from `k`
    on is at least 1 (the `uint32` decrement of 0 wraps around: `Sl_ArrayMetaDataSlab_Remove_loop_differs_at`); in a
    valid tree they are (they are at least the count of the routed child).
  * THE TAIL (`MergeOrRebalanceChildSlab`) IS A HYPOTHESIS: `RemTailOk` (what the generated call must return and leave
    in the heap), `RemTailPre` (what is known at the call), `RemTailHyp` (global form), `RemPath` (along the path of the
    index: only where the routed child underflows); `RemPath.of_hyp`, `RemPath.of_noUnderflow`.
  * `RemDisp` / `RemMeta`, `remDisp_zero`, `remMeta_of_disp`, `remDisp_succ`, `remDisp_all`: the induction.
  * `Sl_ArraySlab_Remove_heap`, `Sl_ArrayMetaDataSlab_Remove_heap` (+ `_of_tail`); UNCONDITIONAL:
    `Sl_ArraySlab_Remove_heap_noUnderflow`, `Sl_ArraySlab_Remove_heap_data`, `Sl_ArrayMetaDataSlab_Remove_heap_depth1`.
  * `Sl_ArrayMetaDataSlab_Remove_depth0`, examples, `Sl_ArrayDataSlab_Remove_differs_at`.
  Core Lean only.
-/
namespace Atree.TransEq
open Atree Atree.Gen

/-- the storage after `ArrayDataSlab.Remove` stored the slab `s'` (unless it is inlined) -/
def remDataStored (st : HSt) (s' : DataSlab) : HSt :=
  if s'.inlined then st else st.store s'.hdr.id (some (.dataSlab (trData s')))

theorem remDataStored_ctx (st : HSt) (s' : DataSlab) : (remDataStored st s').ctx = s'.storeIfNotInlined st.ctx := by
  unfold remDataStored DataSlab.storeIfNotInlined
  cases s'.inlined <;> rfl

theorem rem_storeSlab_data (T : Nat) (s : HSt) (a : GData) :
    TransSl.storeSlab (envH T) s (some (.dataSlab a)) = some (none, s.store a.header.slabID (some (.dataSlab a))) := by
  simp [TransSl.storeSlab, TransSl.ArraySlab_SlabID, TransSl.ArrayDataSlab_SlabID]

theorem rem_storeSlab_meta (T : Nat) (s : HSt) (a : GMeta) :
    TransSl.storeSlab (envH T) s (some (.metaSlab a)) = some (none, s.store a.header.slabID (some (.metaSlab a))) := by
  simp [TransSl.storeSlab, TransSl.ArraySlab_SlabID, TransSl.ArrayMetaDataSlab_SlabID]

/-- `ArrayDataSlab.Remove` over the heap -/
theorem Sl_ArrayDataSlab_Remove_envH (T : Nat) (s : DataSlab) (i : Nat) (st : HSt)
    (hi : i < 2^64) (hlen : s.elems.length < 2^63)
    (hcnt : i < s.elems.length → 1 ≤ s.hdr.count)
    (hsz : ∀ v, s.elems[i]? = some v → v.size ≤ s.hdr.size) :
    TransSl.ArrayDataSlab_Remove (envH T) (trData s) st (u64 i) =
      match s.remove i st.ctx with
      | .error e => some (none, some e, trData s, st)
      | .ok (v, s', _) => some (some v, none, trData s', remDataStored st s') := by
  have hidx : (u64 i).toNat = i := u64_toNat hi
  simp only [TransSl.ArrayDataSlab_Remove, DataSlab.remove, trData_elements, List.length_map, u64_len,
    u64_dge hi (show s.elems.length < 2^64 by omega), hidx, goIdx_map_some, envH_ioob]
  by_cases hge : i ≥ s.elems.length
  · simp [hge]
  · have hlt : i < s.elems.length := by omega
    have h1 : (u64 i + 1).toNat = i + 1 := by
      have e1 : (1 : UInt64) = u64 1 := rfl
      rw [e1, u64_add (by omega), u64_toNat (by omega)]
    have hget : s.elems[i]? = some s.elems[i] := List.getElem?_eq_getElem hlt
    have hs := hsz _ hget
    have hc := hcnt hlt
    have e1 : (1 : UInt32) = u32 1 := rfl
    have hdel : i ≤ i + 1 ∧ i + 1 ≤ s.elems.length := by omega
    simp only [hge, decide_false, Bool.false_eq_true, if_false, hget, Option.map_some, h1, goDelete_ofNat,
      List.length_map, hdel, and_self, if_true, map_some_eraseIdx, envH_byteSize, rem_storeSlab_data, trData_header,
      trHdr_size, trHdr_count, trHdr_slabID, e1, u32_sub' hs, u32_sub' hc, trData_inlined, Option.isSome_none,
      remDataStored]
    cases hin : s.inlined <;> simp [trData, trHdr]

theorem rem_bumpFrom_step (k : Nat) (f : Nat → Nat) (cs : List Nat) (x : Nat) (hx : cs[k]? = some x) :
    MetaSlab.bumpFrom (k + 1) f (cs.set k (f x)) = MetaSlab.bumpFrom k f cs := by
  apply List.ext_getElem?
  intro j
  simp only [MetaSlab.bumpFrom, List.getElem?_mapIdx, List.getElem?_set]
  by_cases hjk : k = j
  · subst hjk
    obtain ⟨hlt, hxe⟩ := List.getElem?_eq_some_iff.1 hx
    have : ¬ k + 1 ≤ k := by omega
    simp [hlt, hxe, this]
  · simp only [hjk, if_false]
    cases hj : cs[j]? with
    | none => simp
    | some y =>
      simp only [Option.map_some]
      by_cases h1 : j ≥ k + 1
      · have : j ≥ k := by omega
        simp [h1, this]
      · have : ¬ j ≥ k := by omega
        simp [h1, this]

theorem rem_bumpFrom_ge (k : Nat) (f : Nat → Nat) (cs : List Nat) (h : cs.length ≤ k) : MetaSlab.bumpFrom k f cs = cs := by
  apply List.ext_getElem?
  intro j
  simp only [MetaSlab.bumpFrom, List.getElem?_mapIdx]
  cases hj : cs[j]? with
  | none => simp
  | some y =>
    have hlt : j < cs.length := (List.getElem?_eq_some_iff.1 hj).1
    have : ¬ j ≥ k := by omega
    simp [this]

/-- the loop of `ArrayMetaDataSlab.Remove` -/
theorem Sl_Remove_loop1_gen (T : Nat) : ∀ (n : Nat) (a : GMeta) (cs : List Nat) (k : Nat),
    a.childrenCountSum = cs.map u32 → n = cs.length - k →
    (∀ j x, k ≤ j → cs[j]? = some x → 1 ≤ x) →
    TransSl.ArrayMetaDataSlab_Remove.loop1 (envH T) n (Int.ofNat k) a =
      .done { a with childrenCountSum := (MetaSlab.bumpFrom k (· - 1) cs).map u32 }
  | 0, a, cs, k, ha, hn, _ => by
    rw [rem_bumpFrom_ge _ _ _ (by omega), ← ha]
    rfl
  | n + 1, a, cs, k, ha, hn, hpos => by
    have hk : k < cs.length := by omega
    have hget : cs[k]? = some cs[k] := List.getElem?_eq_getElem hk
    have h1 := hpos k _ (Nat.le_refl _) hget
    have e1 : (1 : UInt32) = u32 1 := rfl
    have ih := Sl_Remove_loop1_gen T n { a with childrenCountSum := (cs.set k (cs[k] - 1)).map u32 }
      (cs.set k (cs[k] - 1)) (k + 1) rfl (by simp; omega) (by
        intro j x hj hx
        rw [List.getElem?_set_ne (by omega)] at hx
        exact hpos j x (by omega) hx)
    rw [rem_bumpFrom_step k (· - 1) cs _ hget] at ih
    simp only [TransSl.ArrayMetaDataSlab_Remove.loop1, ha, List.length_map, int_dlt, hk, decide_true, if_true,
      goIdx_map, hget, Option.map_some, e1, u32_sub' h1, goSet_map, ofNat_succ']
    exact ih


theorem rem_disp_Header (T : Nat) (d : Nat) (t : ATree d) :
    TransSl.ArraySlab_Header (envH T) (trTree d t) = trHdr (ATree.hdr d t) := by
  cases d <;> rfl

theorem rem_disp_IsUnderflow (T : Nat) (d : Nat) (t : ATree d) (hs : (ATree.hdr d t).size < 2^32)
    (hT : minThr T < 2^32) :
    TransSl.ArraySlab_IsUnderflow (envH T) (trTree d t) = underflowPair (ATree.isUnderflow T d t) := by
  cases d with
  | zero => exact slD_isUnderflow_core (t : DataSlab).hdr.size (minThr T) hs hT
  | succ d => exact slD_isUnderflow_core (t : MetaSlab (ATree d)).hdr.size (minThr T) hs hT

/-- the heap after a step on the children of an index slab (the slab itself is passed by value) -/
structure RemKidsPost (h h' : SlabID → Option GSlab) {d : Nat} (m m' : MetaSlab (ATree d)) : Prop where
  holds : HoldsChildren h' m'
  gone : ∀ id ∈ ATree.slabIds (d + 1) m, id ∉ ATree.slabIds (d + 1) m' → h' id = none
  frame : ∀ id, id ∉ ATree.slabIds (d + 1) m → id ∉ ATree.slabIds (d + 1) m' → h' id = h id

theorem rem_slabIds_meta {d : Nat} (m : MetaSlab (ATree d)) :
    ATree.slabIds (d + 1) m = m.hdr.id :: m.children.flatMap (ATree.slabIds d) := rfl

theorem rem_nodup_mid {α : Type} {r : α} {X Y Z : List α} (h : (r :: (X ++ Y ++ Z)).Nodup) :
    ∀ id ∈ Y, id ≠ r ∧ id ∉ X ∧ id ∉ Z := by
  intro id hid
  simp only [List.nodup_cons, List.nodup_append, List.mem_append] at h
  obtain ⟨h1, ⟨_, _, h2⟩, _, h3⟩ := h
  refine ⟨?_, ?_, ?_⟩
  · rintro rfl; exact h1 (Or.inl (Or.inr hid))
  · intro hx; exact h2 id hx id hid rfl
  · intro hz; exact h3 id (Or.inr hid) id hz rfl

/-- the child at position `A.length` was replaced (child step of the descent) -/
theorem RemKidsPost.of_child {h h1 : SlabID → Option GSlab} {d : Nat} {m m1 : MetaSlab (ATree d)}
    {A B : List (ATree d)} {child child' : ATree d}
    (hch : m.children = A ++ child :: B) (hch1 : m1.children = A ++ child' :: B) (hid : m1.hdr.id = m.hdr.id)
    (hnd : (ATree.slabIds (d + 1) m).Nodup) (hnd1 : (ATree.slabIds (d + 1) m1).Nodup)
    (hh : HoldsChildren h m) (hp : HeapPost h h1 child child') : RemKidsPost h h1 m m1 := by
  rw [rem_slabIds_meta, hch] at hnd
  rw [rem_slabIds_meta, hch1] at hnd1
  have e : ∀ x : ATree d, (A ++ x :: B).flatMap (ATree.slabIds d) =
      A.flatMap (ATree.slabIds d) ++ ATree.slabIds d x ++ B.flatMap (ATree.slabIds d) := by
    intro x; simp [List.flatMap_append]
  rw [e] at hnd hnd1
  have n0 := rem_nodup_mid hnd
  have n1 := rem_nodup_mid hnd1
  have sib : ∀ c, c ∈ A ∨ c ∈ B → Holds h1 d c := by
    intro c hc
    have hc0 : Holds h d c := hh c (by rw [hch]; rcases hc with hc | hc <;> simp [hc])
    refine hc0.congr (fun id hidc => hp.frame id ?_ ?_)
    · intro hx
      have := n0 id hx
      rcases hc with hc | hc
      · exact this.2.1 (List.mem_flatMap.2 ⟨c, hc, hidc⟩)
      · exact this.2.2 (List.mem_flatMap.2 ⟨c, hc, hidc⟩)
    · intro hx
      have := n1 id hx
      rcases hc with hc | hc
      · exact this.2.1 (List.mem_flatMap.2 ⟨c, hc, hidc⟩)
      · exact this.2.2 (List.mem_flatMap.2 ⟨c, hc, hidc⟩)
  refine ⟨?_, ?_, ?_⟩
  · intro c hc
    rw [hch1] at hc
    simp only [List.mem_append, List.mem_cons] at hc
    rcases hc with hc | rfl | hc
    · exact sib c (Or.inl hc)
    · exact hp.holds
    · exact sib c (Or.inr hc)
  · intro id h1' h2'
    rw [rem_slabIds_meta, hch, e] at h1'
    rw [rem_slabIds_meta, hch1, e, hid] at h2'
    simp only [List.mem_cons, List.mem_append] at h1' h2'
    refine hp.gone id ?_ ?_
    · rcases h1' with h | (h | h) | h
      · exact absurd (Or.inl h) h2'
      · exact absurd (Or.inr (Or.inl (Or.inl h))) h2'
      · exact h
      · exact absurd (Or.inr (Or.inr h)) h2'
    · exact fun hx => h2' (Or.inr (Or.inl (Or.inr hx)))
  · intro id h1' h2'
    rw [rem_slabIds_meta, hch, e] at h1'
    rw [rem_slabIds_meta, hch1, e, hid] at h2'
    simp only [List.mem_cons, List.mem_append] at h1' h2'
    refine hp.frame id ?_ ?_
    · exact fun hx => h1' (Or.inr (Or.inl (Or.inr hx)))
    · exact fun hx => h2' (Or.inr (Or.inl (Or.inr hx)))

theorem RemKidsPost.trans {h h1 h2 : SlabID → Option GSlab} {d : Nat} {m m1 m2 : MetaSlab (ATree d)}
    (hsub : ∀ id ∈ ATree.slabIds (d + 1) m1, id ∈ ATree.slabIds (d + 1) m)
    (a : RemKidsPost h h1 m m1) (b : RemKidsPost h1 h2 m1 m2) : RemKidsPost h h2 m m2 := by
  refine ⟨b.holds, ?_, ?_⟩
  · intro id hm hm2
    by_cases hm1 : id ∈ ATree.slabIds (d + 1) m1
    · exact b.gone id hm1 hm2
    · rw [b.frame id hm1 hm2]; exact a.gone id hm hm1
  · intro id hm hm2
    have hm1 : id ∉ ATree.slabIds (d + 1) m1 := fun hx => hm (hsub id hx)
    rw [b.frame id hm1 hm2]; exact a.frame id hm hm1

/-- the final `storeSlab(a)` of the index slab -/
theorem RemKidsPost.store_root {h : SlabID → Option GSlab} {s2 : HSt} {d : Nat} {m m2 : MetaSlab (ATree d)}
    (hnd2 : (ATree.slabIds (d + 1) m2).Nodup) (a : RemKidsPost h s2.heap m m2) :
    @HeapPost h (s2.store m2.hdr.id (some (.metaSlab (trMeta m2)))).heap (d + 1) (d + 1) m m2 := by
  rw [rem_slabIds_meta] at hnd2
  have hroot : m2.hdr.id ∉ m2.children.flatMap (ATree.slabIds d) := (List.nodup_cons.1 hnd2).1
  refine ⟨⟨by simp, ?_⟩, ?_, ?_⟩
  · intro c hc
    refine (a.holds c hc).congr (fun id hidc => ?_)
    have : id ≠ m2.hdr.id := by
      rintro rfl; exact hroot (List.mem_flatMap.2 ⟨c, hc, hidc⟩)
    simp [this]
  · intro id h1 h2
    have : id ≠ m2.hdr.id := by
      rintro rfl; exact h2 (by rw [rem_slabIds_meta]; simp)
    simp only [HSt.store_heap, this, if_false]
    exact a.gone id h1 h2
  · intro id h1 h2
    have : id ≠ m2.hdr.id := by
      rintro rfl; exact h2 (by rw [rem_slabIds_meta]; simp)
    simp only [HSt.store_heap, this, if_false]
    exact a.frame id h1 h2


/-! ## the descent -/

section descent
open MetaSlab ATree

/-- the loop on a record in constructor form (the form the unfolded `Remove` presents) -/
theorem Sl_Remove_loop1_mk (T : Nat) (n k : Nat) (h : GHdr) (hs : List GHdr) (cs : List Nat) (x : Option Unit)
    (hn : n = cs.length - k) (hpos : ∀ j x, k ≤ j → cs[j]? = some x → 1 ≤ x) :
    TransSl.ArrayMetaDataSlab_Remove.loop1 (envH T) n (Int.ofNat k)
        { header := h, childrenHeaders := hs, childrenCountSum := cs.map u32, extraData := x } =
      .done { header := h, childrenHeaders := hs, childrenCountSum := (bumpFrom k (· - 1) cs).map u32,
              extraData := x } :=
  Sl_Remove_loop1_gen T n _ cs k rfl hn hpos

/-- THE TAIL (hypothesis; `Props/TransDescentMor.lean` is about it): on the parent `m1` (count, count sums and the
    header copy of the child already updated), the child `child'` after the removal, its position and the storage
    after the child operation, the generated `MergeOrRebalanceChildSlab` returns the model's result, the children of
    the new parent are held, the slabs that left are gone, everything else is untouched. -/
def RemTailOk (T : Nat) {d : Nat} (m1 : MetaSlab (ATree d)) (child' : ATree d) (k u : Nat) (s1 : HSt) : Prop :=
  match m1.mergeOrRebalanceChildSlab T child' k u s1.ctx with
  | .ok (m2, c2) => ∃ s2 out,
      TransSl.ArrayMetaDataSlab_MergeOrRebalanceChildSlab (envH T) (trMeta m1) s1 (some (trTree d child'))
        (Int.ofNat k) (u32 u) = some (none, trMeta m2, s2, out) ∧ s2.ctx = c2 ∧ RemKidsPost s1.heap s2.heap m1 m2
  | .error _ => True

/-- what is known where `Remove` calls `MergeOrRebalanceChildSlab` -/
structure RemTailPre (T : Nat) {d : Nat} (m1 : MetaSlab (ATree d)) (A B : List (ATree d)) (child' : ATree d)
    (s1 : HSt) (addr : Nat) : Prop where
  book : Book m1
  kids : m1.children = A ++ child' :: B
  invA : ∀ t ∈ A, TreeInv T d false t
  invB : ∀ t ∈ B, TreeInv T d false t
  shape : Shape T d false child'
  under : (hdr d child').size < minThr T
  lower : minThr T ≤ (hdr d child').size + maxInlineArr T
  sib : 1 ≤ A.length + B.length
  addr_eq : ∀ t ∈ m1.children, (hdr d t).id.addr = addr
  size : m1.hdr.size = 12 + 14 * m1.children.length
  count : m1.hdr.count = sumCounts m1.childHdrs
  count_lt : m1.hdr.count < 2^32
  holds : HoldsChildren s1.heap m1
  ids : IdsOk addr s1.ctx.ctr (slabIds (d + 1) (ofMeta m1))

def RemTailHyp (T : Nat) : Prop :=
  ∀ (d : Nat) (m1 : MetaSlab (ATree d)) (A B : List (ATree d)) (child' : ATree d) (s1 : HSt) (addr : Nat),
    RemTailPre T m1 A B child' s1 addr →
    RemTailOk T m1 child' A.length (minThr T - (hdr d child').size) s1

/-- THE TAIL HYPOTHESIS ALONG THE PATH of index `i`: at every index slab on the path whose routed child underflows
    after the removal, the generated `MergeOrRebalanceChildSlab` agrees with the model (`RemTailOk`) on every storage
    that meets `RemTailPre`.  `RemPath.of_hyp`: from the global hypothesis; `RemPath.of_noUnderflow`: trivially, when
    no child on the path underflows. -/
def RemPath (T : Nat) (addr : Nat) : (d : Nat) → ATree d → Nat → Ctx → Prop
  | 0, _, _, _ => True
  | d + 1, (m : MetaSlab (ATree d)), i, c =>
    ∀ k adj child v child' c1, m.childSlabIndexInfo i = .ok (k, adj) → m.children[k]? = some child →
      ATree.remove T d child adj c = .ok (v, child', c1) →
      RemPath T addr d child adj c ∧
      ((hdr d child').size < minThr T → ∀ (A B : List (ATree d)) (s1 : HSt), A.length = k →
        RemTailPre T (remM1 m k child') A B child' s1 addr →
        RemTailOk T (remM1 m k child') child' k (minThr T - (hdr d child').size) s1)

theorem RemPath.of_hyp {T : Nat} (h : RemTailHyp T) (addr : Nat) : ∀ (d : Nat) (t : ATree d) (i : Nat) (c : Ctx),
    RemPath T addr d t i c
  | 0, _, _, _ => trivial
  | d + 1, (m : MetaSlab (ATree d)), i, c => by
    intro k adj child v child' c1 _ _ _
    refine ⟨RemPath.of_hyp h addr d child adj c, ?_⟩
    intro _ A B s1 hk hpre
    subst hk
    exact h d _ A B child' s1 addr hpre

/-- no child on the path of index `i` underflows after the removal -/
def RemNoUnderflow (T : Nat) : (d : Nat) → ATree d → Nat → Ctx → Prop
  | 0, _, _, _ => True
  | d + 1, (m : MetaSlab (ATree d)), i, c =>
    ∀ k adj child v child' c1, m.childSlabIndexInfo i = .ok (k, adj) → m.children[k]? = some child →
      ATree.remove T d child adj c = .ok (v, child', c1) →
      RemNoUnderflow T d child adj c ∧ minThr T ≤ (hdr d child').size

theorem RemPath.of_noUnderflow {T : Nat} (addr : Nat) : ∀ (d : Nat) (t : ATree d) (i : Nat) (c : Ctx),
    RemNoUnderflow T d t i c → RemPath T addr d t i c
  | 0, _, _, _, _ => trivial
  | d + 1, (m : MetaSlab (ATree d)), i, c, h => by
    intro k adj child v child' c1 h1 h2 h3
    obtain ⟨a, b⟩ := h k adj child v child' c1 h1 h2 h3
    exact ⟨RemPath.of_noUnderflow addr d child adj c a, fun hu => absurd hu (by omega)⟩

/-- the statement for the dispatcher at tree depth `d` -/
def RemDisp (T d : Nat) : Prop :=
  ∀ (t : ATree d) (top : Bool) (i : Nat) (s : HSt) (depth addr : Nat), d ≤ depth →
    TreeInv T d top t → NotInl d t → IdsOk addr s.ctx.ctr (slabIds d t) → (hdr d t).count < 2^32 → i < 2^64 →
    Holds s.heap d t → RemPath T addr d t i s.ctx →
    match ATree.remove T d t i s.ctx with
    | .ok (v, t', c') => ∃ s',
        TransSl.ArraySlab_Remove (envH T) (TransSl.ArrayMetaDataSlab_Remove (envH T) depth) (trTree d t) s (u64 i) =
          some (some v, none, trTree d t', s') ∧ s'.ctx = c' ∧ HeapPost s.heap s'.heap t t' ∧
        ∀ id ∈ slabIds d t', id ∈ slabIds d t
    | .error e => e = .indexOutOfBounds ∧
        TransSl.ArraySlab_Remove (envH T) (TransSl.ArrayMetaDataSlab_Remove (envH T) depth) (trTree d t) s (u64 i) =
          some (none, some .indexOutOfBounds, trTree d t, s)

/-- the statement for an index slab whose children have depth `d` -/
def RemMeta (T d : Nat) : Prop :=
  ∀ (m : MetaSlab (ATree d)) (top : Bool) (i : Nat) (s : HSt) (depth addr : Nat), d ≤ depth →
    TreeInv T (d + 1) top (ofMeta m) → IdsOk addr s.ctx.ctr (slabIds (d + 1) (ofMeta m)) → m.hdr.count < 2^32 →
    i < 2^64 → HoldsChildren s.heap m → RemPath T addr (d + 1) (ofMeta m) i s.ctx →
    match ATree.remove T (d + 1) (ofMeta m) i s.ctx with
    | .ok (v, t', c') => ∃ s',
        TransSl.ArrayMetaDataSlab_Remove (envH T) (depth + 1) (trMeta m) s (u64 i) =
          some (some v, none, trMeta (t' : MetaSlab (ATree d)), s') ∧ s'.ctx = c' ∧
        @HeapPost s.heap s'.heap (d + 1) (d + 1) m t' ∧
        ∀ id ∈ slabIds (d + 1) t', id ∈ slabIds (d + 1) (ofMeta m)
    | .error e => e = .indexOutOfBounds ∧
        TransSl.ArrayMetaDataSlab_Remove (envH T) (depth + 1) (trMeta m) s (u64 i) =
          some (none, some .indexOutOfBounds, trMeta m, s)

theorem remDisp_zero (T : Nat) (hT : legalThreshold T = true) : RemDisp T 0 := by
  intro (t : DataSlab) top i s depth addr _ hinv hni _ hcnt hi hh _
  have hinv : DataInv T top t := hinv
  have hni : t.inlined = false := hni
  have hcnt : t.hdr.count < 2^32 := hcnt
  have hce := hinv.count_eq
  have hfit := dataInv_fits hT hinv
  have hgen := Sl_ArrayDataSlab_Remove_envH T t i s hi (by omega) (by omega) (by
    intro v hv
    have := sumSizes_eraseIdx _ _ _ hv
    omega)
  have e0 : ATree.remove T 0 t i s.ctx = DataSlab.remove t i s.ctx := rfl
  rw [e0]
  simp only [trTree, TransSl.ArraySlab_Remove, hgen]
  unfold DataSlab.remove
  cases hg : t.elems[i]? with
  | none => simp
  | some v =>
    simp only [remDataStored, hni, Bool.false_eq_true, if_false, DataSlab.storeIfNotInlined]
    refine ⟨_, rfl, rfl, ⟨?_, ?_, ?_⟩, ?_⟩
    · show (if _ then _ else _) = _
      simp
    · intro id h1 h2; exact absurd h1 h2
    · intro id h1 _
      have : id ≠ t.hdr.id := fun h => h1 (by rw [h]; exact List.mem_singleton.2 rfl)
      simp [this]
    · intro id h; exact h

end descent

section descent2
open MetaSlab ATree


theorem rem_prefixSums_mem_ge (hs : List Hdr) (acc : Nat) : ∀ x ∈ prefixSums hs acc, acc ≤ x := by
  induction hs generalizing acc with
  | nil => intro x hx; simp [prefixSums] at hx
  | cons h t ih =>
    intro x hx
    rw [prefixSums_cons] at hx
    rcases List.mem_cons.mp hx with rfl | hx'
    · omega
    · have := ih _ x hx'; omega

/-- the record `ArrayMetaDataSlab.Remove` has built when it reaches its tail is the translation of `remM1` -/
theorem remRec_eq {d : Nat} (m : MetaSlab (ATree d)) (k : Nat) (child' : ATree d) :
    ({ header := { slabID := (trHdr m.hdr).slabID, size := (trHdr m.hdr).size, count := u32 (m.hdr.count - 1) },
       childrenHeaders := List.map trHdr (m.childHdrs.set k (ATree.hdr d child')),
       childrenCountSum := List.map u32 (bumpFrom k (fun x => x - 1) m.countSum),
       extraData := trExtra m.root } : GMeta) = trMeta (remM1 m k child') := rfl

theorem remMeta_of_disp (T d : Nat) (hT : legalThreshold T = true) (ih : RemDisp T d) :
    RemMeta T d := by
  intro m top i s depth addr hd' hinv hids hcnt hi hh hpath
  have F := thrFacts hT
  have ht := thresholds_fit hT
  obtain ⟨hs, hmax, _, _⟩ := (treeInv_succ T d top m).1 hinv
  have hcnt64 : (u32 m.hdr.count).toUInt64 = u64 m.hdr.count := u32_toUInt64 hcnt
  by_cases hge : i ≥ m.hdr.count
  · rw [remove_succ_err m i s.ctx (by omega)]
    refine ⟨rfl, ?_⟩
    simp only [TransSl.ArrayMetaDataSlab_Remove, trMeta_header, trHdr_count, hcnt64,
      u64_dge hi (show m.hdr.count < 2^64 by omega), envH_ioob]
    simp [show i ≥ m.hdr.count by omega]
  · have hlt : i < m.hdr.count := by omega
    have hkids2 := two_kids hT hinv
    have hksz := hs.kids_of_size
    obtain ⟨A, child, B, adj, hch, hroute, hi2, hadj, hget⟩ := route_flat hT hs i hlt
    have hA : ∀ t ∈ A, TreeInv T d false t := fun t ht => hs.kids_inv t (by rw [hch]; simp [ht])
    have hB : ∀ t ∈ B, TreeInv T d false t := fun t ht => hs.kids_inv t (by rw [hch]; simp [ht])
    have hmem : child ∈ m.children := by rw [hch]; simp
    have hc : TreeInv T d false child := hs.kids_inv child hmem
    have hcaddr : (hdr d child).id.addr = m.hdr.id.addr := hs.kids_addr child hmem
    have hcpos := hc.count_pos hT
    obtain ⟨child', c1, hrem, hstep, hflat, hcntc, hsz1, hsz2, _⟩ :=
      remove_gen hT d child false adj s.ctx hc hc.notInl_of_false hadj
    -- the child operation of the generated code (induction hypothesis)
    have hccnt : (hdr d child).count < 2^32 := by
      have hle := count_le_sumCounts _ _ hmem
      rw [← hs.hdrs_eq, ← hs.count_eq] at hle
      omega
    have hholdc : Holds s.heap d child := hh child hmem
    obtain ⟨hpathc, htail⟩ := (show RemPath T addr (d + 1) (m : MetaSlab (ATree d)) i s.ctx from hpath)
      A.length adj child _ child' c1 hroute hget hrem
    have e3 := ih child false adj s depth addr hd' hc hc.notInl_of_false (ids_child hch hids) hccnt (by omega) hholdc
      hpathc
    rw [hrem] at e3
    obtain ⟨s1, e3, hctx1, hpost1, hsub1⟩ := e3
    -- routing of the generated code
    obtain ⟨hhdrs, hR⟩ := RouteOk.of_inv hT (d := d + 1) (top := top) (ofMeta m) hinv hcnt i hi
    unfold ofMeta at hR
    rw [hroute] at hR
    obtain ⟨hgo, _⟩ := hR
    have e1 := childInfoOf_trMeta_ok m i A.length adj (some .indexOutOfBounds) hgo
    have e2 := childID_of_hdrs m A.length child hs.hdrs_eq hget
    -- the parent with the new child written back
    obtain ⟨b1, b2, b3⟩ := book_after (child' := child') hs hch rfl (· - 1) (by omega)
      (prefixSums_map_pred _ _ (by omega)) (by omega)
    have hch1 : (remM1 m A.length child').children = A ++ child' :: B := b2
    have hbook1 : Book (remM1 m A.length child') :=
      ⟨by simp only [remM1, b1, b2], by simp only [remM1, b1, b3]⟩
    have hids1 : IdsOk addr c1.ctr (slabIds (d + 1) (ofMeta (remM1 m A.length child'))) :=
      ids_after_child hch hch1 rfl hstep.repl hids
    have hk1 : RemKidsPost s.heap s1.heap m (remM1 m A.length child') :=
      RemKidsPost.of_child hch hch1 rfl hids.1 hids1.1 hh hpost1
    have hm1 : 1 ≤ m.hdr.count := by omega
    have one32 : (1 : UInt32) = u32 1 := rfl
    have hkA : A.length < m.childHdrs.length := by rw [hs.hdrs_eq, hch]; simp
    have hlencs : m.countSum.length = m.childHdrs.length := by rw [hs.sums_eq, prefixSums_length]
    have hfuel : (Int.ofNat (List.map u32 m.countSum).length - Int.ofNat A.length).toNat =
        m.countSum.length - A.length := by
      simp only [List.length_map, Int.ofNat_eq_natCast]; omega
    have hpos : ∀ j x, A.length ≤ j → m.countSum[j]? = some x → 1 ≤ x := by
      intro j x hj hx
      have hh' : m.childHdrs = A.map (hdr d) ++ hdr d child :: B.map (hdr d) := by
        rw [hs.hdrs_eq, hch]; simp
      rw [hs.sums_eq, hh', prefixSums_mid,
        List.getElem?_append_right (by simp [prefixSums_length]; exact hj)] at hx
      have hx' := List.mem_of_getElem? hx
      rcases List.mem_cons.mp hx' with rfl | hx''
      · omega
      · have := rem_prefixSums_mem_ge _ _ x hx''; omega
    have hszc' : (hdr d child').size < 2^32 := by have := hc.le_max; omega
    simp only [TransSl.ArrayMetaDataSlab_Remove, trMeta_header, trHdr_count, hcnt64,
      u64_dge hi (show m.hdr.count < 2^64 by omega), show ¬ i ≥ m.hdr.count by omega, decide_false,
      Bool.false_eq_true, if_false, envH_childInfo, e1, e2, Option.isSome_none, envH_getArraySlab, hholdc.root,
      e3, one32, u32_sub' hm1, trMeta_childrenCountSum, trMeta_childrenHeaders, trMeta_extraData, hfuel,
      Sl_Remove_loop1_mk T _ _ _ _ _ _ rfl hpos, rem_disp_Header, goSet_map, hkA, if_true,
      rem_disp_IsUnderflow T d child' hszc' ht.2.1, remRec_eq]
    have hmaddr : m.hdr.id.addr = addr := (hids.2 m.hdr.id (by simp)).1
    have hsubm1 : ∀ id ∈ slabIds (d + 1) (ofMeta (remM1 m A.length child')), id ∈ slabIds (d + 1) (ofMeta m) := by
      intro id hid
      rw [slabIds_succ, hch1] at hid
      rw [slabIds_succ, hch]
      simp only [List.mem_cons, List.flatMap_append, List.flatMap_cons, List.mem_append] at hid ⊢
      rcases hid with h | h | h | h
      · exact Or.inl h
      · exact Or.inr (Or.inl h)
      · exact Or.inr (Or.inr (Or.inl (hsub1 id h)))
      · exact Or.inr (Or.inr (Or.inr h))
    by_cases hu : (hdr d child').size < minThr T
    · -- the child underflows: the tail is the hypothesis
      have hcmin := hc.ge_min
      have hlenAB : m.children.length = A.length + 1 + B.length := by rw [hch]; simp; omega
      have haddr1 : ∀ t ∈ (remM1 m A.length child').children, (hdr d t).id.addr = addr := by
        rw [hch1]
        intro t ht
        simp only [List.mem_append, List.mem_cons] at ht
        rcases ht with ht | rfl | ht
        · rw [← hmaddr]; exact hs.kids_addr t (by rw [hch]; simp [ht])
        · rw [hstep.id_eq, ← hmaddr]; exact hcaddr
        · rw [← hmaddr]; exact hs.kids_addr t (by rw [hch]; simp [ht])
      obtain ⟨m2, c2, hmr, hc2, htl, hle⟩ := mergeOrRebalance_spec hT _ A B child' A.length c1
        addr hbook1 hch1 rfl hA hB hstep.shape hu (by omega) haddr1
        (by show arraySlabHeaderSize ≤ m.hdr.size; rw [hksz, F.hsz]; omega)
      have hpre : RemTailPre T (remM1 m A.length child') A B child' s1 addr :=
        { book := hbook1, kids := hch1, invA := hA, invB := hB, shape := hstep.shape, under := hu,
          lower := by omega, sib := by omega, addr_eq := haddr1,
          size := by
            show m.hdr.size = 12 + 14 * (m.children.set A.length child').length
            rw [List.length_set]; exact hksz
          count := by
            rw [hbook1.hdrs_eq, hch1]
            show m.hdr.count - 1 = _
            rw [hs.count_eq, hs.hdrs_eq, hch]
            simp only [List.map_append, List.map_cons, sumCounts_append, sumCounts_cons]; omega
          count_lt := by show m.hdr.count - 1 < 2^32; omega
          holds := hk1.holds
          ids := by rw [hctx1]; exact hids1 }
      have htl' := htail hu A B s1 rfl hpre
      unfold RemTailOk at htl'
      rw [hctx1, hmr] at htl'
      obtain ⟨s2, out, hmor, hctx2, hk2⟩ := htl'
      have hrepl2 := (htl.repl.lift htl.id_eq).ids addr (by simpa using hids1)
      have hids2 : IdsOk addr c1.ctr (slabIds (d + 1) (ofMeta m2)) := by simpa using hrepl2.1
      have hsubm2 : ∀ id ∈ slabIds (d + 1) (ofMeta m2), id ∈ slabIds (d + 1) (ofMeta m) := by
        intro id hid
        rcases hrepl2.2 id (by simpa using hid) with h | h
        · exact hsubm1 id (by simpa using h)
        · have := (hids2.2 id hid).2.2; omega
      rw [remove_succ_ok m m2 i A.length adj _ s.ctx c1 c2 child child' hge hroute hget hrem
        (by rw [isUnderflow_some T d child' hu]; exact hmr)]
      refine ⟨s2.store m2.hdr.id (some (.metaSlab (trMeta m2))), ?_, ?_,
        RemKidsPost.store_root hids2.1 (RemKidsPost.trans hsubm1 hk1 hk2), hsubm2⟩
      · simp only [isUnderflow_some T d child' hu, underflowPair, if_true, hmor, Option.isSome_none,
          Bool.false_eq_true, if_false, rem_storeSlab_meta, trMeta_header, trHdr_slabID]
        rfl
      · simp [hctx2]
    · -- no underflow: the tail is one `storeSlab`
      rw [remove_succ_ok m (remM1 m A.length child') i A.length adj _ s.ctx c1 c1 child child' hge hroute hget hrem
        (by rw [isUnderflow_none T d child' (by omega)])]
      refine ⟨s1.store m.hdr.id (some (.metaSlab (trMeta (remM1 m A.length child')))), ?_, ?_,
        RemKidsPost.store_root hids1.1 hk1, hsubm1⟩
      · simp only [isUnderflow_none T d child' (show minThr T ≤ (hdr d child').size by omega), underflowPair,
          Bool.false_eq_true, if_false, rem_storeSlab_meta, trMeta_header, trHdr_slabID, Option.isSome_none]
        rfl
      · simp only [HSt.store_ctx, hctx1]; rfl

theorem remDisp_succ (T d : Nat) (ih : RemMeta T d) : RemDisp T (d + 1) := by
  intro (t : MetaSlab (ATree d)) top i s depth addr hd hinv _ hids hcnt hi hh hpath
  obtain ⟨depth, rfl⟩ : ∃ n, depth = n + 1 := ⟨depth - 1, by omega⟩
  have h := ih t top i s depth addr (by omega) hinv hids hcnt hi hh.2 hpath
  unfold ofMeta at h
  cases hr : ATree.remove T (d + 1) t i s.ctx with
  | error e =>
    rw [hr] at h
    obtain ⟨h1, h2⟩ := h
    exact ⟨h1, by simp only [trTree, TransSl.ArraySlab_Remove, h2]⟩
  | ok res =>
    obtain ⟨v, t', c'⟩ := res
    rw [hr] at h
    obtain ⟨s', h1, h2, h3, h4⟩ := h
    exact ⟨s', by simp only [trTree, TransSl.ArraySlab_Remove, h1], h2, h3, h4⟩

theorem remDisp_all (T : Nat) (hT : legalThreshold T = true) : ∀ d, RemDisp T d
  | 0 => remDisp_zero T hT
  | d + 1 => remDisp_succ T d (remMeta_of_disp T d hT (remDisp_all T hT d))

end descent2

/-! ## final statements -/

section final
open MetaSlab ATree

/-- **`ArraySlab.Remove` over a heap** (dynamic dispatch; an index slab descends through the storage).  On a heap that
    holds a valid tree (`TreeInv`, identifiers `IdsOk` below the allocation counter, fewer than 2^32 elements), with a
    depth argument that covers the tree, at every `uint64` index, and with the tail hypothesis along the path
    (`RemPath`: `MergeOrRebalanceChildSlab` where a child underflows), the generated code returns what the model's
    `ATree.remove` returns: the removed element, the new tree as `trTree`, the model's `Ctx` (allocation counter, effects
    in order - after a merge / rebalance the parent is stored a second time, in Go and in the model), and the heap holds
    the new tree, the slabs that left are gone, nothing else is touched (`HeapPost`); no slab is allocated.  Past the
    end: `IndexOutOfBoundsError` in both, nothing touched.  No other error is possible. -/
theorem Sl_ArraySlab_Remove_heap (T : Nat) (hT : legalThreshold T = true) (d : Nat) (t : ATree d) (top : Bool) (i : Nat)
    (s : HSt) (depth addr : Nat) (hd : d ≤ depth) (hinv : TreeInv T d top t) (hni : NotInl d t)
    (hids : IdsOk addr s.ctx.ctr (slabIds d t)) (hcnt : (hdr d t).count < 2^32) (hi : i < 2^64)
    (hh : Holds s.heap d t) (htail : RemPath T addr d t i s.ctx) :
    match ATree.remove T d t i s.ctx with
    | .ok (v, t', c') => ∃ s',
        TransSl.ArraySlab_Remove (envH T) (TransSl.ArrayMetaDataSlab_Remove (envH T) depth) (trTree d t) s (u64 i) =
          some (some v, none, trTree d t', s') ∧ s'.ctx = c' ∧ HeapPost s.heap s'.heap t t' ∧
        ∀ id ∈ slabIds d t', id ∈ slabIds d t
    | .error e => e = .indexOutOfBounds ∧
        TransSl.ArraySlab_Remove (envH T) (TransSl.ArrayMetaDataSlab_Remove (envH T) depth) (trTree d t) s (u64 i) =
          some (none, some .indexOutOfBounds, trTree d t, s) :=
  remDisp_all T hT d t top i s depth addr hd hinv hni hids hcnt hi hh htail

/-- the same from the GLOBAL tail hypothesis (`RemTailHyp`: what `Props/TransDescentMor.lean` is about) -/
theorem Sl_ArraySlab_Remove_heap_of_tail (T : Nat) (hT : legalThreshold T = true) (htail : RemTailHyp T) (d : Nat)
    (t : ATree d) (top : Bool) (i : Nat) (s : HSt) (depth addr : Nat) (hd : d ≤ depth) (hinv : TreeInv T d top t)
    (hni : NotInl d t) (hids : IdsOk addr s.ctx.ctr (slabIds d t)) (hcnt : (hdr d t).count < 2^32) (hi : i < 2^64)
    (hh : Holds s.heap d t) :
    match ATree.remove T d t i s.ctx with
    | .ok (v, t', c') => ∃ s',
        TransSl.ArraySlab_Remove (envH T) (TransSl.ArrayMetaDataSlab_Remove (envH T) depth) (trTree d t) s (u64 i) =
          some (some v, none, trTree d t', s') ∧ s'.ctx = c' ∧ HeapPost s.heap s'.heap t t' ∧
        ∀ id ∈ slabIds d t', id ∈ slabIds d t
    | .error e => e = .indexOutOfBounds ∧
        TransSl.ArraySlab_Remove (envH T) (TransSl.ArrayMetaDataSlab_Remove (envH T) depth) (trTree d t) s (u64 i) =
          some (none, some .indexOutOfBounds, trTree d t, s) :=
  Sl_ArraySlab_Remove_heap T hT d t top i s depth addr hd hinv hni hids hcnt hi hh (RemPath.of_hyp htail addr d t i s.ctx)

/-- **UNCONDITIONAL when no child on the path underflows** (`RemNoUnderflow`, a statement about the MODEL run only):
    no hypothesis about `MergeOrRebalanceChildSlab`.  The tail is then one `storeSlab` per index slab of the path. -/
theorem Sl_ArraySlab_Remove_heap_noUnderflow (T : Nat) (hT : legalThreshold T = true) (d : Nat) (t : ATree d)
    (top : Bool) (i : Nat) (s : HSt) (depth addr : Nat) (hd : d ≤ depth) (hinv : TreeInv T d top t) (hni : NotInl d t)
    (hids : IdsOk addr s.ctx.ctr (slabIds d t)) (hcnt : (hdr d t).count < 2^32) (hi : i < 2^64)
    (hh : Holds s.heap d t) (hnu : RemNoUnderflow T d t i s.ctx) :
    match ATree.remove T d t i s.ctx with
    | .ok (v, t', c') => ∃ s',
        TransSl.ArraySlab_Remove (envH T) (TransSl.ArrayMetaDataSlab_Remove (envH T) depth) (trTree d t) s (u64 i) =
          some (some v, none, trTree d t', s') ∧ s'.ctx = c' ∧ HeapPost s.heap s'.heap t t' ∧
        ∀ id ∈ slabIds d t', id ∈ slabIds d t
    | .error e => e = .indexOutOfBounds ∧
        TransSl.ArraySlab_Remove (envH T) (TransSl.ArrayMetaDataSlab_Remove (envH T) depth) (trTree d t) s (u64 i) =
          some (none, some .indexOutOfBounds, trTree d t, s) :=
  Sl_ArraySlab_Remove_heap T hT d t top i s depth addr hd hinv hni hids hcnt hi hh
    (RemPath.of_noUnderflow addr d t i s.ctx hnu)

/-- **UNCONDITIONAL for a root data slab** (a tree of depth 0: there is no tail) -/
theorem Sl_ArraySlab_Remove_heap_data (T : Nat) (hT : legalThreshold T = true) (t : DataSlab) (top : Bool) (i : Nat)
    (s : HSt) (depth addr : Nat) (hinv : DataInv T top t) (hni : t.inlined = false)
    (hids : IdsOk addr s.ctx.ctr [t.hdr.id]) (hcnt : t.hdr.count < 2^32) (hi : i < 2^64)
    (hh : s.heap t.hdr.id = some (.dataSlab (trData t))) :
    match t.remove i s.ctx with
    | .ok (v, t', c') => ∃ s',
        TransSl.ArraySlab_Remove (envH T) (TransSl.ArrayMetaDataSlab_Remove (envH T) depth) (.dataSlab (trData t)) s
          (u64 i) = some (some v, none, .dataSlab (trData t'), s') ∧ s'.ctx = c' ∧
        @HeapPost s.heap s'.heap 0 0 t t' ∧ t'.hdr.id = t.hdr.id
    | .error e => e = .indexOutOfBounds ∧
        TransSl.ArraySlab_Remove (envH T) (TransSl.ArrayMetaDataSlab_Remove (envH T) depth) (.dataSlab (trData t)) s
          (u64 i) = some (none, some .indexOutOfBounds, .dataSlab (trData t), s) := by
  have h := Sl_ArraySlab_Remove_heap T hT 0 t top i s depth addr (Nat.zero_le _) hinv hni hids hcnt hi hh trivial
  have e0 : ATree.remove T 0 t i s.ctx = DataSlab.remove t i s.ctx := rfl
  rw [e0] at h
  cases hr : DataSlab.remove t i s.ctx with
  | error e => rw [hr] at h; exact h
  | ok res =>
    obtain ⟨v, t', c'⟩ := res
    rw [hr] at h
    obtain ⟨s', h1, h2, h3, h4⟩ := h
    exact ⟨s', h1, h2, h3, List.mem_singleton.1 (h4 _ (List.mem_singleton.2 rfl))⟩

/-- **`ArrayMetaDataSlab.Remove` over a heap**: the receiver is the translation of a model index slab (passed by
    value: it need not be stored), its children are held by the heap; depth argument `depth + 1` for children of depth
    `d ≤ depth`.  The new index slab is returned AND stored. -/
theorem Sl_ArrayMetaDataSlab_Remove_heap (T : Nat) (hT : legalThreshold T = true) (d : Nat) (m : MetaSlab (ATree d))
    (top : Bool) (i : Nat) (s : HSt) (depth addr : Nat) (hd : d ≤ depth) (hinv : TreeInv T (d + 1) top (ofMeta m))
    (hids : IdsOk addr s.ctx.ctr (slabIds (d + 1) (ofMeta m))) (hcnt : m.hdr.count < 2^32) (hi : i < 2^64)
    (hh : HoldsChildren s.heap m) (htail : RemPath T addr (d + 1) (ofMeta m) i s.ctx) :
    match ATree.remove T (d + 1) (ofMeta m) i s.ctx with
    | .ok (v, t', c') => ∃ s',
        TransSl.ArrayMetaDataSlab_Remove (envH T) (depth + 1) (trMeta m) s (u64 i) =
          some (some v, none, trMeta (t' : MetaSlab (ATree d)), s') ∧ s'.ctx = c' ∧
        @HeapPost s.heap s'.heap (d + 1) (d + 1) m t' ∧
        ∀ id ∈ slabIds (d + 1) t', id ∈ slabIds (d + 1) (ofMeta m)
    | .error e => e = .indexOutOfBounds ∧
        TransSl.ArrayMetaDataSlab_Remove (envH T) (depth + 1) (trMeta m) s (u64 i) =
          some (none, some .indexOutOfBounds, trMeta m, s) :=
  remMeta_of_disp T d hT (remDisp_all T hT d) m top i s depth addr hd hinv hids hcnt hi hh htail

/-- **UNCONDITIONAL for a tree of depth 1 whose routed leaf does not underflow** (the hypothesis is about the model's
    leaf operation only) -/
theorem Sl_ArrayMetaDataSlab_Remove_heap_depth1 (T : Nat) (hT : legalThreshold T = true) (m : MetaSlab (ATree 0))
    (top : Bool) (i : Nat) (s : HSt) (depth addr : Nat) (hinv : TreeInv T (0 + 1) top (ofMeta m))
    (hids : IdsOk addr s.ctx.ctr (slabIds (0 + 1) (ofMeta m))) (hcnt : m.hdr.count < 2^32) (hi : i < 2^64)
    (hh : HoldsChildren s.heap m)
    (hnu : ∀ k adj (child : DataSlab) v child' c1, m.childSlabIndexInfo i = .ok (k, adj) →
      m.children[k]? = some child → child.remove adj s.ctx = .ok (v, child', c1) → minThr T ≤ child'.hdr.size) :
    match ATree.remove T (0 + 1) (ofMeta m) i s.ctx with
    | .ok (v, t', c') => ∃ s',
        TransSl.ArrayMetaDataSlab_Remove (envH T) (depth + 1) (trMeta m) s (u64 i) =
          some (some v, none, @trMeta (ATree 0) t', s') ∧ s'.ctx = c' ∧
        @HeapPost s.heap s'.heap (0 + 1) (0 + 1) m t' ∧ ∀ id ∈ slabIds (0 + 1) t', id ∈ slabIds (0 + 1) (ofMeta m)
    | .error e => e = .indexOutOfBounds ∧
        TransSl.ArrayMetaDataSlab_Remove (envH T) (depth + 1) (trMeta m) s (u64 i) =
          some (none, some .indexOutOfBounds, trMeta m, s) := by
  have h := Sl_ArrayMetaDataSlab_Remove_heap T hT 0 m top i s depth addr (Nat.zero_le _) hinv hids hcnt hi hh
    (RemPath.of_noUnderflow addr (0 + 1) (ofMeta m) i s.ctx
      (fun k adj child v child' c1 h1 h2 h3 => ⟨trivial, hnu k adj child v child' c1 h1 h2 h3⟩))
  cases hr : ATree.remove T (0 + 1) (ofMeta m) i s.ctx with
  | error e => rw [hr] at h; exact h
  | ok res =>
    obtain ⟨v, t', c'⟩ := res
    rw [hr] at h
    exact h

/-- the depth argument is exhausted (the tree is deeper): the generated code leaves the modelled fragment -/
theorem Sl_ArrayMetaDataSlab_Remove_depth0 (T : Nat) (a : GMeta) (s : HSt) (i : UInt64) :
    TransSl.ArrayMetaDataSlab_Remove (envH T) 0 a s i = none := rfl

end final

/-! ## non-vacuity and observations -/

section examples
open MetaSlab ATree

/-- a leaf `(1,id)` of `n` elements of 60 bytes -/
def remExLeaf (id n : Nat) : DataSlab :=
  { hdr := ⟨⟨1, id⟩, 21 + 60 * n, n⟩, next := SlabID.undef,
    elems := (List.range n).map (fun j => ⟨60, .val (10 * id + j)⟩), root := false, inlined := false }

/-- a root index slab `(1,1)` over two leaves of 3 elements (201 bytes each; minimum 128 for slab size 256) -/
def remExRoot : MetaSlab (ATree 0) :=
  { hdr := ⟨⟨1, 1⟩, 40, 6⟩, childHdrs := [(remExLeaf 2 3).hdr, (remExLeaf 3 3).hdr], countSum := [3, 6],
    children := [remExLeaf 2 3, remExLeaf 3 3], root := true }

def remExSt : HSt := ⟨heapOf 1 remExRoot, ⟨5, [], []⟩⟩

/-- the generated `ArrayMetaDataSlab.Remove` evaluated on the heap of the tree (index 4: second leaf, position 1; no
    underflow): the element, the new index slab and the `Ctx` of the model; the heap holds the new leaf and root -/
example :
    (TransSl.ArrayMetaDataSlab_Remove (envH 256) 1 (trMeta remExRoot) remExSt 4).map
      (fun r => (r.1, r.2.1, r.2.2.1, r.2.2.2.ctx.ctr, r.2.2.2.ctx.eff, r.2.2.2.heap ⟨1, 3⟩, r.2.2.2.heap ⟨1, 1⟩)) =
    (match ATree.remove 256 1 remExRoot 4 remExSt.ctx with
     | .ok (v, t', c') => some (some v, none, trMeta (t' : MetaSlab (ATree 0)), c'.ctr, c'.eff,
         heapOf 1 t' ⟨1, 3⟩, heapOf 1 t' ⟨1, 1⟩)
     | .error _ => none) := by rfl

example : (ATree.remove 256 1 remExRoot 4 remExSt.ctx).toOption.map (fun r => (r.1, r.2.2.eff)) =
    some (⟨60, .val 31⟩, [.store ⟨1, 3⟩, .store ⟨1, 1⟩]) := by rfl

/-- past the end -/
example : TransSl.ArrayMetaDataSlab_Remove (envH 256) 1 (trMeta remExRoot) remExSt 6 =
    some (none, some .indexOutOfBounds, trMeta remExRoot, remExSt) := by rfl

theorem remExLeaf_inv (id : Nat) : DataInv 256 false (remExLeaf id 3) := by
  refine ⟨rfl, rfl, ?_, rfl, by simp [remExLeaf], ?_, fun _ => ?_⟩
  · intro e he
    simp only [remExLeaf, List.mem_map] at he
    obtain ⟨a, _, rfl⟩ := he
    exact ⟨by show 1 ≤ 60; decide, by show 60 ≤ maxInlineArr 256; decide⟩
  · show 201 ≤ maxThr 256; decide
  · show minThr 256 ≤ 201; decide

theorem remExRoot_kids (c : ATree 0) (hc : c ∈ remExRoot.children) : c = remExLeaf 2 3 ∨ c = remExLeaf 3 3 := by
  have : remExRoot.children = [remExLeaf 2 3, remExLeaf 3 3] := rfl
  rw [this] at hc
  rcases List.mem_cons.mp hc with h | h
  · exact Or.inl h
  · exact Or.inr (List.mem_singleton.mp h)

theorem remExRoot_inv : TreeInv 256 (0 + 1) true (ofMeta remExRoot) := by
  refine (treeInv_succ 256 0 true remExRoot).2 ⟨⟨rfl, rfl, rfl, rfl, rfl, ?_, ?_⟩, by decide, fun h => (by cases h),
    fun _ => (by decide)⟩
  · intro c hc
    rcases remExRoot_kids c hc with rfl | rfl <;> exact remExLeaf_inv _
  · intro c hc
    rcases remExRoot_kids c hc with rfl | rfl <;> rfl

/-- the hypotheses of `Sl_ArrayMetaDataSlab_Remove_heap_depth1` (hence of `Sl_ArrayMetaDataSlab_Remove_heap`) are
    satisfiable: the tree above, its heap, index 4 -/
example := Sl_ArrayMetaDataSlab_Remove_heap_depth1 256 (by decide) remExRoot true 4 remExSt 0 1 remExRoot_inv
    (by
      refine ⟨by decide, ?_⟩
      intro id hid
      have e : slabIds (0 + 1) (ofMeta remExRoot) = [⟨1, 1⟩, ⟨1, 2⟩, ⟨1, 3⟩] := rfl
      rw [e] at hid
      simp only [List.mem_cons, List.not_mem_nil, or_false] at hid
      rcases hid with rfl | rfl | rfl <;> decide)
    (by decide) (by decide)
    (by
      intro c hc
      rcases remExRoot_kids c hc with rfl | rfl <;> rfl)
    (by
      intro k adj child v child' c1 h1 h2 h3
      have e : remExRoot.childSlabIndexInfo 4 = .ok (1, 1) := by rfl
      rw [e] at h1
      cases h1
      have e2 : remExRoot.children[1]? = some (remExLeaf 3 3) := rfl
      have hc : child = remExLeaf 3 3 := Option.some.inj (h2.symm.trans e2)
      subst hc
      cases h3
      decide)

/-- OBSERVATION (`a.header.count--` of `ArrayDataSlab.Remove` is a `uint32` decrement): on a CORRUPT data slab whose
    header count is 0 while it has an element, Go wraps the count around to 2^32 - 1, the model's `Nat` subtraction
    stays at 0.  `DataInv.count_eq` excludes such a slab; `Sl_ArrayDataSlab_Remove_envH` asks for `1 ≤ count`. -/
theorem Sl_ArrayDataSlab_Remove_differs_at :
    let s : DataSlab := { hdr := ⟨⟨1, 2⟩, 26, 0⟩, next := SlabID.undef, elems := [⟨5, .val 0⟩], root := true,
                          inlined := false }
    let st : HSt := ⟨fun _ => none, ⟨5, [], []⟩⟩
    (TransSl.ArrayDataSlab_Remove (envH 256) (trData s) st 0).map (fun r => (r.1, r.2.2.1.header.count)) =
      some (some ⟨5, .val 0⟩, 4294967295) ∧
    (s.remove 0 st.ctx).toOption.map (fun r => (r.1, r.2.1.hdr.count)) = some (⟨5, .val 0⟩, 0) := by
  exact ⟨by rfl, by rfl⟩

/-- OBSERVATION (the loop `a.childrenCountSum[i]--` of `ArrayMetaDataSlab.Remove`): on a count sum that is 0 the
    `uint32` decrement wraps around, the model's `bumpFrom k (· - 1)` stays at 0.  In a valid tree every count sum from
    the routed child on is at least 1 (`Sl_Remove_loop1_gen` asks for exactly that). -/
theorem Sl_ArrayMetaDataSlab_Remove_loop_differs_at :
    let m : MetaSlab Unit := { hdr := ⟨⟨1, 1⟩, 26, 0⟩, childHdrs := [⟨⟨1, 2⟩, 21, 0⟩], countSum := [0],
                               children := [()], root := true }
    (match TransSl.ArrayMetaDataSlab_Remove.loop1 (envH 256) 1 0 (trMeta m) with
      | .done a => some a.childrenCountSum
      | .ret _ => none) = some [4294967295] ∧
    (bumpFrom 0 (· - 1) m.countSum).map u32 = [0] := by
  exact ⟨by rfl, by rfl⟩

end examples

end Atree.TransEq
