import AtreeProofs.Trans.MapSlabs
/-
  `singleElements` (map_elements_nokey.go: the insertion-ordered key/value list used when the digest levels are
  exhausted): the GENERATED translation of `get` / `Get` / `Set` / `Remove` (`AtreeModel/Gen/TransMapSlabs.lean`)
  equals the hand-written model `SingleElems.get / set / remove` (`AtreeModel/Map/Elems.lean`).
  What is assumed of the parameters of the generated code is `EnvSingle`; range hypotheses are explicit.
  Core Lean only.
-/
namespace Atree.TransEq
open Atree Atree.Gen.TransMap

/-! ## model values as generated records -/

/-- Go `Storable` (`MapKey` = `MapValue` = `Storable`): what an element holds -/
inductive SV where
  | key (k : MKey)
  | val (v : Elem)
deriving DecidableEq, Repr

/-- Go `Value`: the not-yet-stored key / value arguments of a map operation -/
inductive SW where
  | key (k : MKey)
  | val (v : Elem)
deriving DecidableEq, Repr

/-- `singleElement` of the model as the generated record -/
def cE (x : SElem) : singleElement SV :=
  { key := some (.key x.key), value := some (.val x.val), size := u32 x.size }

/-- `singleElements` of the model as the generated record -/
def cS (e : SingleElems) : singleElements SV :=
  { elems := e.elems.map cE, size := u32 e.size, level := u64 e.level }

/-- what the theorems assume of the parameters of the generated code (storage state = the model's `Ctx`) -/
structure EnvSingle {E X : Type} (cfg : MCfg) (env : Env E SV SW X Ctx GE) : Prop where
  /-- `digester.Levels()` -/
  levels : env.Digester_Levels = u64 cfg.L
  /-- the caller's comparator on (key argument, stored key): the model's `MKey.same`, no error, storage unchanged -/
  cmp : ∀ c k k', env.ValueComparator c (.key k) (some (.key k')) = (k'.same k, none, c)
  keySize : ∀ k, env.Storable_ByteSize (.key k) = u32 k.size
  valSize : ∀ v, env.Storable_ByteSize (.val v) = u32 v.size
  /-- `maxInlineMapValueSize` on key sizes that are `uint32` values (stated for `n < 2^32` only: for all `n` it would be
      unsatisfiable, `u32` is not injective) -/
  maxInline : ∀ n, n < 2^32 → env.maxInlineMapValueSize (u32 n) = u32 (maxInlineMapValue cfg.T n)
  /-- `value.Storable(storage, address, limit)` at the owner address -/
  storable : ∀ v c lim, env.Value_Storable (.val v) c cfg.addr lim =
    (some (.val (toStorableLim lim.toNat cfg.addr v c).1), none, (toStorableLim lim.toNat cfg.addr v c).2)
  /-- `newSingleElement(storage, address, key, value)` at the owner address -/
  newElem : ∀ c k v, env.newSingleElement c cfg.addr (.key k) (.val v) =
    (cE (newSingleElement cfg.T cfg.addr k v c).1, none, (newSingleElement cfg.T cfg.addr k v c).2)
  eHashLevel : env.NewHashLevelErrorf = some .hashLevel
  eKeyNotFound : env.NewKeyNotFoundError = some .keyNotFound
  wrapNone : env.wrapErrorfAsExternalErrorIfNeeded none = none

/-! ## results of the model as results of the generated code -/

/-- result of `singleElements.Get` -/
def msl_rGet (c : Ctx) : Except MErr (MKey × Elem) → Option SV × Option SV × Option GE × Ctx
  | .ok (k, v) => (some (.key k), some (.val v), none, c)
  | .error err => (none, none, some err, c)

/-- result of `singleElements.Remove` on `e` in state `c` (the model's `.goPanic` = a run-time panic = `none`) -/
def msl_rRemove (e : SingleElems) (c : Ctx) :
    Except MErr (MKey × Elem × SingleElems × Ctx) → Option (Option SV × Option SV × Option GE × singleElements SV × Ctx)
  | .ok (rk, rv, e', c') => some (some (.key rk), some (.val rv), none, cS e', c')
  | .error .goPanic => none
  | .error err => some (none, none, some err, cS e, c)

/-- result of `singleElements.Set` on `e` in state `c` -/
def msl_rSet (e : SingleElems) (c : Ctx) :
    Except MErr (MKey × Option Elem × SingleElems × Ctx) → Option (Option SV × Option SV × Option GE × singleElements SV × Ctx)
  | .ok (ks, old, e', c') => some (some (.key ks), old.map .val, none, cS e', c')
  | .error .goPanic => none
  | .error err => some (none, none, some err, cS e, c)

/-! ## helpers -/

theorem msl_u64_inj {a b : Nat} (ha : a < 2^64) (hb : b < 2^64) : (u64 a = u64 b) = (a = b) := by
  rw [← UInt64.toNat_inj, u64_toNat ha, u64_toNat hb]

theorem msl_u32_add' (a b : Nat) : u32 a + u32 b = u32 (a + b) := (UInt32.ofNat_add a b).symm

theorem msl_u32_sub' {a b : Nat} (h : b ≤ a) : u32 a - u32 b = u32 (a - b) := (UInt32.ofNat_sub h).symm

theorem msl_maxInlineMapValue_le (T n : Nat) : maxInlineMapValue T n ≤ T := by
  unfold maxInlineMapValue maxInlineMapElem
  have := Nat.div_le_self (T - Gen.mapDataSlabPrefixSize - Gen.hkeyElementsPrefixSize) Gen.minElementCountInSlab
  omega

theorem msl_map_cE_eraseIdx (l : List SElem) (i : Nat) : (l.map cE).eraseIdx i = (l.eraseIdx i).map cE := by
  induction l generalizing i with
  | nil => rfl
  | cons x t ih => cases i with
    | zero => rfl
    | succ i => simp only [List.map_cons, List.eraseIdx_cons_succ, ih]

theorem msl_same_size {a b : MKey} (h : a.same b = true) : a.size = b.size := by
  simp only [MKey.same, Bool.and_eq_true, beq_iff_eq] at h
  exact h.1

theorem msl_int_succ (n : Nat) : Int.ofNat n + 1 = Int.ofNat (n + 1) := rfl
theorem msl_int_toNat (n : Nat) : (Int.ofNat n).toNat = n := rfl

section single
variable {E X : Type} (cfg : MCfg) (env : Env E SV SW X Ctx GE)

/-! ## get / Get -/

theorem singleElements_get_loop (hE : EnvSingle cfg env) (k : MKey) (l : List SElem) (n : Nat) (c : Ctx) :
    singleElements_get.loop1 env (.key k) (l.map cE) (Int.ofNat n) c =
      match l.find? (fun x => x.key.same k) with
      | some x => .ret (some (.key x.key), some (.val x.val),
          Int.ofNat (n + l.findIdx (fun x => x.key.same k)), none, c)
      | none => .done c := by
  induction l generalizing n with
  | nil => rfl
  | cons x t ih =>
    simp only [List.map_cons, singleElements_get.loop1, cE, hE.cmp, Option.isNone_none, Bool.not_true,
      Bool.false_eq_true, if_false, List.find?_cons, List.findIdx_cons]
    by_cases h : x.key.same k = true
    · simp only [h, if_true, cond_true, Nat.add_zero]
    · simp only [Bool.not_eq_true] at h
      simp only [h, Bool.false_eq_true, if_false, cond_false, msl_int_succ]
      rw [ih (n + 1)]
      have : n + 1 + List.findIdx (fun x => x.key.same k) t = n + (List.findIdx (fun x => x.key.same k) t + 1) := by
        omega
      rw [this]

/-- result of the unexported `singleElements.get` (it also returns the index of the element) -/
def msl_rGetIdx (e : SingleElems) (k : MKey) (c : Ctx) :
    Except MErr (MKey × Elem) → Option SV × Option SV × Int × Option GE × Ctx
  | .ok (k', v) => (some (.key k'), some (.val v), Int.ofNat (e.elems.findIdx (fun x => x.key.same k)), none, c)
  | .error err => (none, none, 0, some err, c)

/-- `singleElements.get` (with the index of the found element) = `SingleElems.get` -/
theorem singleElements_get_eq_model (hE : EnvSingle cfg env) (e : SingleElems) (level : Nat) (hkey : UInt64)
    (k : MKey) (c : Ctx) (hl : level < 2^64) (hL : cfg.L < 2^64) :
    singleElements_get env (cS e) c (u64 level) hkey (.key k) = msl_rGetIdx e k c (SingleElems.get cfg e level k) := by
  have h0 := singleElements_get_loop cfg env hE k e.elems 0 c
  simp only [singleElements_get, SingleElems.get, hE.levels, hE.eHashLevel, hE.eKeyNotFound, ne_eq, msl_u64_inj hl hL,
    decide_not, cS]
  by_cases h : level = cfg.L
  · simp only [h, decide_true, Bool.not_true, Bool.false_eq_true, if_false, not_true_eq_false]
    have z : (0 : Int) = Int.ofNat 0 := rfl
    rw [z, h0]
    cases List.find? (fun x => x.key.same k) e.elems with
    | none => rfl
    | some x => simp only [msl_rGetIdx, Nat.zero_add]
  · simp only [h, decide_false, Bool.not_false, if_true, not_false_eq_true, msl_rGetIdx]

/-- 1. `singleElements.Get` = `SingleElems.get`: the stored key and value of the first element whose key the comparator
    accepts; `HashLevelError` at a wrong level, `KeyNotFoundError` if there is none; the storage is unchanged. -/
theorem singleElements_Get_eq_model (hE : EnvSingle cfg env) (e : SingleElems) (level : Nat) (hkey : UInt64)
    (k : MKey) (c : Ctx) (hl : level < 2^64) (hL : cfg.L < 2^64) :
    singleElements_Get env (cS e) c (u64 level) hkey (.key k) = msl_rGet c (SingleElems.get cfg e level k) := by
  simp only [singleElements_Get, singleElements_get_eq_model cfg env hE e level hkey k c hl hL]
  cases SingleElems.get cfg e level k with
  | error err => rfl
  | ok r => rfl

/-! ## Remove -/

theorem singleElements_Remove_loop (hE : EnvSingle cfg env) (k : MKey) (rest : List SElem) (n : Nat)
    (G : singleElements SV) (c : Ctx) (hlen : n + rest.length ≤ G.elems.length) :
    singleElements_Remove.loop1 env (.key k) (rest.map cE) (Int.ofNat n) G c =
      match rest.findIdx? (fun x => x.key.same k) with
      | none => .done (G, c)
      | some j =>
        match rest[j]? with
        | none => .ret none
        | some x => .ret (some (some (.key x.key), some (.val x.val), none,
            { G with elems := G.elems.eraseIdx (n + j), size := G.size - u32 x.size }, c)) := by
  induction rest generalizing n with
  | nil => rfl
  | cons x t ih =>
    simp only [List.map_cons, singleElements_Remove.loop1, cE, hE.cmp, Option.isNone_none, Bool.not_true,
      Bool.false_eq_true, if_false, List.findIdx?_cons, singleElement_Size]
    by_cases h : x.key.same k = true
    · simp only [h, if_true, List.getElem?_cons_zero, Nat.add_zero, msl_int_succ, goSlicesDelete]
      simp only [List.length_cons] at hlen
      have hc : (0 : Int) ≤ Int.ofNat n ∧ Int.ofNat n ≤ Int.ofNat (n + 1) ∧
          Int.ofNat (n + 1) ≤ Int.ofNat G.elems.length := by
        simp only [Int.ofNat_eq_natCast]; omega
      rw [if_pos hc]
      simp only [msl_int_toNat, ← List.eraseIdx_eq_take_drop_succ]
    · simp only [Bool.not_eq_true] at h
      simp only [h, Bool.false_eq_true, if_false, msl_int_succ]
      simp only [List.length_cons] at hlen
      rw [ih (n + 1) (by omega)]
      cases List.findIdx? (fun x => x.key.same k) t with
      | none => rfl
      | some j =>
        simp only [Option.map_some, List.getElem?_cons_succ]
        have : n + 1 + j = n + (j + 1) := by omega
        rw [this]

/-- the index found by `findIdx?` is in range: the model's `.goPanic` branch of `remove` / `set` is dead -/
theorem msl_findIdx?_getElem? {α : Type} (p : α → Bool) (l : List α) (j : Nat) (h : l.findIdx? p = some j) :
    ∃ x, l[j]? = some x ∧ p x = true := by
  rw [List.findIdx?_eq_some_iff_getElem] at h
  obtain ⟨hj, hp, _⟩ := h
  exact ⟨l[j], List.getElem?_eq_getElem hj, hp⟩

/-- 2. `singleElements.Remove` = `SingleElems.remove`: the first element whose key the comparator accepts is deleted,
    the group size decremented by its size, its key and value returned; errors leave the group unchanged.
    `hsz`: an element is not larger than the size field that includes it (otherwise `e.size -= elem.Size()` wraps
    around in Go and is truncated at 0 in the model). -/
theorem singleElements_Remove_eq_model (hE : EnvSingle cfg env) (e : SingleElems) (level : Nat) (hkey : UInt64)
    (k : MKey) (c : Ctx) (hl : level < 2^64) (hL : cfg.L < 2^64)
    (hsz : ∀ x ∈ e.elems, x.key.same k = true → x.size ≤ e.size) :
    singleElements_Remove env (cS e) c (u64 level) hkey (.key k) = msl_rRemove e c (SingleElems.remove cfg e level k c) := by
  have h0 := singleElements_Remove_loop cfg env hE k e.elems 0 (cS e) c (by simp [cS])
  simp only [singleElements_Remove, SingleElems.remove, hE.levels, hE.eHashLevel, hE.eKeyNotFound, ne_eq,
    msl_u64_inj hl hL, decide_not]
  by_cases h : level = cfg.L
  · simp only [h, decide_true, Bool.not_true, Bool.false_eq_true, if_false, not_true_eq_false]
    have z : (0 : Int) = Int.ofNat 0 := rfl
    have hcs : (cS e).elems = e.elems.map cE := rfl
    rw [hcs, z, h0]
    cases hf : List.findIdx? (fun x => x.key.same k) e.elems with
    | none => rfl
    | some j =>
      obtain ⟨x, hx, hp⟩ := msl_findIdx?_getElem? _ _ _ hf
      have hle := hsz x (List.mem_of_getElem? hx) hp
      simp only [hx, msl_rRemove, cS, Nat.zero_add, msl_map_cE_eraseIdx, msl_u32_sub' hle]
  · simp only [h, decide_false, Bool.not_false, if_true, not_false_eq_true, msl_rRemove]

/-- `singleElements.Remove` never panics (`slices.Delete(e.elems, i, i+1)` is in range) -/
theorem singleElements_Remove_no_panic (hE : EnvSingle cfg env) (e : SingleElems) (level : Nat) (hkey : UInt64)
    (k : MKey) (c : Ctx) (hl : level < 2^64) (hL : cfg.L < 2^64)
    (hsz : ∀ x ∈ e.elems, x.key.same k = true → x.size ≤ e.size) :
    (singleElements_Remove env (cS e) c (u64 level) hkey (.key k)).isSome = true := by
  rw [singleElements_Remove_eq_model cfg env hE e level hkey k c hl hL hsz]
  simp only [SingleElems.remove]
  by_cases h : level = cfg.L
  · simp only [h, ne_eq, not_true_eq_false, if_false]
    cases hf : List.findIdx? (fun x => x.key.same k) e.elems with
    | none => rfl
    | some j =>
      obtain ⟨x, hx, _⟩ := msl_findIdx?_getElem? _ _ _ hf
      simp only [hx, msl_rRemove, Option.isSome_some]
  · simp only [ne_eq, h, not_false_eq_true, if_true, msl_rRemove, Option.isSome_some]

/-! ## Set -/

theorem singleElements_Set_loop2 (l : List (singleElement SV)) (i : Int) (s : UInt32) :
    singleElements_Set.loop2 env l i s = .done (l.foldl (fun a x => a + x.size) s) := by
  induction l generalizing i s with
  | nil => rfl
  | cons x t ih =>
    simp only [singleElements_Set.loop2, singleElement_Size, List.foldl_cons]
    exact ih _ _

theorem msl_foldl_sizes (l : List SElem) (a : Nat) :
    (l.map cE).foldl (fun a x => a + x.size) (u32 a) = u32 (a + (l.map (·.size)).sum) := by
  induction l generalizing a with
  | nil => rfl
  | cons x t ih =>
    simp only [List.map_cons, List.foldl_cons, List.sum_cons]
    have : (cE x).size = u32 x.size := rfl
    rw [this, msl_u32_add', ih, Nat.add_assoc]

/-- the model's replacement of the value of element `x` (at index `i` of `e`) by `v` -/
def msl_setAt (cfg : MCfg) (e : SingleElems) (i : Nat) (x : SElem) (v : Elem) (c : Ctx) : SingleElems × Ctx :=
  let r := toStorableLim (maxInlineMapValue cfg.T x.key.size) cfg.addr v c
  let x' : SElem := { x with val := r.1, size := Gen.singleElementPrefixSize + x.key.size + r.1.size }
  let elems := e.elems.set i x'
  ({ e with elems := elems, size := Gen.singleElementsPrefixSize + (elems.map (·.size)).sum }, r.2)

theorem singleElements_Set_loop (hE : EnvSingle cfg env) (hT : cfg.T < 2^32) (k : MKey) (v : Elem) (e : SingleElems)
    (hk : k.size < 2^32) (rest : List SElem) (n : Nat) (c : Ctx) (hd : e.elems.drop n = rest) :
    singleElements_Set.loop1 env cfg.addr (.key k) (.val v) (rest.map cE) (Int.ofNat n) (cS e) c =
      match rest.findIdx? (fun x => x.key.same k) with
      | none => .done (cS e, c)
      | some j =>
        match rest[j]? with
        | none => .ret none
        | some x => .ret (some (some (.key x.key), some (.val x.val), none,
            cS (msl_setAt cfg e (n + j) x v c).1, (msl_setAt cfg e (n + j) x v c).2)) := by
  induction rest generalizing n with
  | nil => rfl
  | cons x t ih =>
    have hn : e.elems[n]? = some x := by
      have := List.getElem?_drop (xs := e.elems) (i := n) (j := 0)
      rw [hd] at this
      simpa using this.symm
    have hd' : e.elems.drop (n + 1) = t := by
      have : e.elems.drop (n + 1) = (e.elems.drop n).drop 1 := by rw [List.drop_drop]
      rw [this, hd]; rfl
    have hg : goIdx (cS e).elems (Int.ofNat n) = some (cE x) := by
      have : ¬ (Int.ofNat n < 0) := by simp
      simp only [goIdx, if_neg this, msl_int_toNat, cS, List.getElem?_map, hn, Option.map_some]
    simp only [List.map_cons, singleElements_Set.loop1, hg, List.findIdx?_cons]
    have hkey : (cE x).key = some (.key x.key) := rfl
    simp only [hkey, hE.cmp, Option.isNone_none, Bool.not_true, Bool.false_eq_true, if_false]
    by_cases h : x.key.same k = true
    · have hks : x.key.size < 2^32 := by rw [msl_same_size h]; exact hk
      have hlim : (u32 (maxInlineMapValue cfg.T x.key.size)).toNat = maxInlineMapValue cfg.T x.key.size :=
        u32_toNat (Nat.lt_of_le_of_lt (msl_maxInlineMapValue_le _ _) hT)
      simp only [h, if_true, List.getElem?_cons_zero, Nat.add_zero, hE.keySize, hE.maxInline _ hks, hE.storable, hlim,
        Option.isNone_none, Bool.not_true, Bool.false_eq_true, if_false, hE.valSize, msl_int_toNat, List.set_set,
        singleElements_Set_loop2]
      simp only [msl_setAt, cS]
      have e1 : UInt32.ofNat Gen.singleElementPrefixSize = u32 Gen.singleElementPrefixSize := rfl
      have e2 : UInt32.ofNat Gen.singleElementsPrefixSize = u32 Gen.singleElementsPrefixSize := rfl
      rw [e1, e2, msl_u32_add', msl_u32_add']
      have hx' : ∀ (vs : Elem) (sz : Nat),
          ({ key := some (SV.key x.key), value := some (SV.val vs), size := u32 sz } : singleElement SV) =
            cE { key := x.key, val := vs, size := sz } := fun _ _ => rfl
      have hval : (cE x).value = some (.val x.val) := rfl
      simp only [hx', hval, ← List.map_set, msl_foldl_sizes]
    · simp only [Bool.not_eq_true] at h
      simp only [h, Bool.false_eq_true, if_false, msl_int_succ]
      rw [ih (n + 1) hd']
      cases List.findIdx? (fun x => x.key.same k) t with
      | none => rfl
      | some j =>
        simp only [Option.map_some, List.getElem?_cons_succ]
        have : n + 1 + j = n + (j + 1) := by omega
        rw [this]

/-- 3. `singleElements.Set` = `SingleElems.set`.  Existing key: the value is replaced by `value.Storable(..)` under the
    inline limit of the STORED key, the element size and the group size (prefix + Σ element sizes) are recomputed, the
    old key and value returned.  New key: `newSingleElement` appended, the group size incremented.
    `hT`, `hk`: the threshold and the size of the key are `uint32` values (the limit handed to `Storable` is one). -/
theorem singleElements_Set_eq_model (hE : EnvSingle cfg env) (e : SingleElems) (level : Nat) (hkey : UInt64)
    (k : MKey) (v : Elem) (c : Ctx) (hl : level < 2^64) (hL : cfg.L < 2^64) (hT : cfg.T < 2^32) (hk : k.size < 2^32) :
    singleElements_Set env (cS e) c cfg.addr (u64 level) hkey (.key k) (.val v) =
      msl_rSet e c (SingleElems.set cfg e level k v c) := by
  have h0 := singleElements_Set_loop cfg env hE hT k v e hk e.elems 0 c rfl
  simp only [singleElements_Set, SingleElems.set, hE.levels, hE.eHashLevel, ne_eq, msl_u64_inj hl hL, decide_not]
  by_cases h : level = cfg.L
  · simp only [h, decide_true, Bool.not_true, Bool.false_eq_true, if_false, not_true_eq_false]
    have z : (0 : Int) = Int.ofNat 0 := rfl
    have hcs : (cS e).elems = e.elems.map cE := rfl
    rw [hcs, z, h0]
    cases hf : List.findIdx? (fun x => x.key.same k) e.elems with
    | none =>
      simp only [hE.newElem, Option.isNone_none, Bool.not_true, Bool.false_eq_true, if_false, msl_rSet, Option.map_none]
      simp only [cS, cE, msl_u32_add', List.map_append, List.map_cons, List.map_nil]
    | some j =>
      obtain ⟨x, hx, _⟩ := msl_findIdx?_getElem? _ _ _ hf
      simp only [hx, msl_rSet, msl_setAt, Nat.zero_add, Option.map_some]
  · simp only [h, decide_false, Bool.not_false, if_true, not_false_eq_true, msl_rSet]

/-- `singleElements.Set` never panics (`e.elems[i]` is in range, stored keys and values are non-nil) -/
theorem singleElements_Set_no_panic (hE : EnvSingle cfg env) (e : SingleElems) (level : Nat) (hkey : UInt64)
    (k : MKey) (v : Elem) (c : Ctx) (hl : level < 2^64) (hL : cfg.L < 2^64) (hT : cfg.T < 2^32) (hk : k.size < 2^32) :
    (singleElements_Set env (cS e) c cfg.addr (u64 level) hkey (.key k) (.val v)).isSome = true := by
  rw [singleElements_Set_eq_model cfg env hE e level hkey k v c hl hL hT hk]
  simp only [SingleElems.set]
  by_cases h : level = cfg.L
  · simp only [h, ne_eq, not_true_eq_false, if_false]
    cases hf : List.findIdx? (fun x => x.key.same k) e.elems with
    | none => rfl
    | some j =>
      obtain ⟨x, hx, _⟩ := msl_findIdx?_getElem? _ _ _ hf
      simp only [hx, msl_rSet, Option.isSome_some]
  · simp only [ne_eq, h, not_false_eq_true, if_true, msl_rSet, Option.isSome_some]

end single

/-! ## non-vacuity: an environment satisfying `EnvSingle`, for every configuration -/

/-- a concrete instance of the parameters (irrelevant fields are constants) -/
def msl_envSingle0 (cfg : MCfg) : Env Unit SV SW Unit Ctx GE where
  Digester_Levels := u64 cfg.L
  MapSlab_CanLendToLeft := fun _ _ => false
  MapSlab_CanLendToRight := fun _ _ => false
  NewHashLevelErrorf := some .hashLevel
  NewKeyNotFoundError := some .keyNotFound
  NewNotApplicableError := some .notApplicable
  NewSlabDataErrorf := some .modelMismatch
  NewSlabMergeError := some .slabMerge
  NewSlabNotFoundErrorf := some .slabNotFound
  NewSlabRebalanceError := some .slabRebalance
  NewSlabRebalanceErrorf := some .slabRebalance
  NewSlabSplitErrorf := some .slabSplit
  SlabStorage_GenerateSlabID := fun c a => ((c.alloc a).1, none, (c.alloc a).2)
  SlabStorage_Remove := fun c id => (none, c.emit (.remove id))
  SlabStorage_Retrieve := fun c _ => (.nil, false, none, c)
  SlabStorage_Store := fun c id _ => (none, c.emit (.store id))
  Storable_ByteSize := fun s => match s with
    | .key k => u32 k.size
    | .val v => u32 v.size
  ValueComparator := fun c w s => match w, s with
    | .key k, some (.key k') => (k'.same k, none, c)
    | _, _ => (false, none, c)
  Value_Storable := fun w c addr lim => match w with
    | .val v => (some (.val (toStorableLim lim.toNat addr v c).1), none, (toStorableLim lim.toNat addr v c).2)
    | .key k => (some (.key k), none, c)
  element_Size := fun _ => 0
  maxInlineMapValueSize := fun x => u32 (maxInlineMapValue cfg.T x.toNat)
  minThreshold := u32 (minThr cfg.T)
  newSingleElement := fun c addr kw vw => match kw, vw with
    | .key k, .val v => (cE (newSingleElement cfg.T addr k v c).1, none, (newSingleElement cfg.T addr k v c).2)
    | _, _ => ({}, some .goPanic, c)
  wrapErrorfAsExternalErrorIfNeeded := id

theorem msl_envSingle0_ok (cfg : MCfg) : EnvSingle cfg (msl_envSingle0 cfg) where
  levels := rfl
  cmp := fun _ _ _ => rfl
  keySize := fun _ => rfl
  valSize := fun _ => rfl
  maxInline := fun n hn => by
    show u32 (maxInlineMapValue cfg.T (u32 n).toNat) = _
    rw [u32_toNat hn]
  storable := fun _ _ _ => rfl
  newElem := fun _ _ _ => rfl
  eHashLevel := rfl
  eKeyNotFound := rfl
  wrapNone := rfl

/-! ### a concrete two-element group under that environment -/

def msl_cfgEx : MCfg := { T := 1024, L := 2, climit := 255, addr := 7 }
def msl_k1Ex : MKey := { size := 9, pay := 1, digs := [5, 6] }
def msl_k2Ex : MKey := { size := 9, pay := 2, digs := [5, 6] }
def msl_k3Ex : MKey := { size := 9, pay := 3, digs := [5, 6] }
def msl_v1Ex : Elem := { size := 3, pay := .val 10 }
def msl_v2Ex : Elem := { size := 4, pay := .val 20 }
def msl_bigEx : Elem := { size := 1000, pay := .val 30 }
def msl_eEx : SingleElems :=
  { elems := [{ key := msl_k1Ex, val := msl_v1Ex, size := 13 }, { key := msl_k2Ex, val := msl_v2Ex, size := 14 }], size := 33, level := 2 }
def msl_cEx : Ctx := { ctr := 0, eff := [] }

/-- Get of the second key: found, storage unchanged -/
example : singleElements_Get (msl_envSingle0 msl_cfgEx) (cS msl_eEx) msl_cEx (u64 2) 0 (.key msl_k2Ex) =
    (some (.key msl_k2Ex), some (.val msl_v2Ex), none, msl_cEx) := by
  rw [singleElements_Get_eq_model msl_cfgEx _ (msl_envSingle0_ok msl_cfgEx) msl_eEx 2 0 msl_k2Ex msl_cEx (by decide) (by decide)]; rfl

/-- Get of an absent key / at the wrong level -/
example : singleElements_Get (msl_envSingle0 msl_cfgEx) (cS msl_eEx) msl_cEx (u64 2) 0 (.key msl_k3Ex) =
    (none, none, some .keyNotFound, msl_cEx) := by
  rw [singleElements_Get_eq_model msl_cfgEx _ (msl_envSingle0_ok msl_cfgEx) msl_eEx 2 0 msl_k3Ex msl_cEx (by decide) (by decide)]; rfl
example : singleElements_Get (msl_envSingle0 msl_cfgEx) (cS msl_eEx) msl_cEx (u64 1) 0 (.key msl_k2Ex) =
    (none, none, some .hashLevel, msl_cEx) := by
  rw [singleElements_Get_eq_model msl_cfgEx _ (msl_envSingle0_ok msl_cfgEx) msl_eEx 1 0 msl_k2Ex msl_cEx (by decide) (by decide)]; rfl

/-- Remove of the first key -/
example : singleElements_Remove (msl_envSingle0 msl_cfgEx) (cS msl_eEx) msl_cEx (u64 2) 0 (.key msl_k1Ex) =
    some (some (.key msl_k1Ex), some (.val msl_v1Ex), none,
      cS { elems := [{ key := msl_k2Ex, val := msl_v2Ex, size := 14 }], size := 20, level := 2 }, msl_cEx) := by
  rw [singleElements_Remove_eq_model msl_cfgEx _ (msl_envSingle0_ok msl_cfgEx) msl_eEx 2 0 msl_k1Ex msl_cEx (by decide) (by decide)
    (by decide)]; rfl

/-- Set of an existing key with a value over the inline limit: the value moves to a new slab (allocation + store),
    element and group size are recomputed -/
example : singleElements_Set (msl_envSingle0 msl_cfgEx) (cS msl_eEx) msl_cEx 7 (u64 2) 0 (.key msl_k2Ex) (.val msl_bigEx) =
    some (some (.key msl_k2Ex), some (.val msl_v2Ex), none,
      cS { elems := [{ key := msl_k1Ex, val := msl_v1Ex, size := 13 },
                     { key := msl_k2Ex, val := { size := slabIDStorableSize, pay := .ref ⟨7, 1⟩ },
                       size := 10 + slabIDStorableSize }],
           size := 29 + slabIDStorableSize, level := 2 },
      { ctr := 1, eff := [.alloc 7 ⟨7, 1⟩, .store ⟨7, 1⟩], created := [(⟨7, 1⟩, msl_bigEx)] }) := by
  rw [show (7 : Nat) = msl_cfgEx.addr from rfl,
    singleElements_Set_eq_model msl_cfgEx _ (msl_envSingle0_ok msl_cfgEx) msl_eEx 2 0 msl_k2Ex msl_bigEx msl_cEx (by decide) (by decide)
      (by decide) (by decide)]; rfl

/-- Set of a new key: appended -/
example : singleElements_Set (msl_envSingle0 msl_cfgEx) (cS msl_eEx) msl_cEx 7 (u64 2) 0 (.key msl_k3Ex) (.val msl_v1Ex) =
    some (some (.key msl_k3Ex), none, none,
      cS { elems := [{ key := msl_k1Ex, val := msl_v1Ex, size := 13 }, { key := msl_k2Ex, val := msl_v2Ex, size := 14 },
                     { key := msl_k3Ex, val := msl_v1Ex, size := 13 }], size := 46, level := 2 }, msl_cEx) := by
  rw [show (7 : Nat) = msl_cfgEx.addr from rfl,
    singleElements_Set_eq_model msl_cfgEx _ (msl_envSingle0_ok msl_cfgEx) msl_eEx 2 0 msl_k3Ex msl_v1Ex msl_cEx (by decide) (by decide)
      (by decide) (by decide)]; rfl

/-! ### outside the hypothesis `hsz` of `singleElements_Remove_eq_model` the code and the model DIFFER

  A group whose size field is smaller than the size of the removed element (an inconsistent group; the size field
  always includes the prefix and every element): Go computes `e.size -= elem.Size()` in `uint32` and wraps around,
  the `Nat` model truncates at 0. -/

def msl_eBadEx : SingleElems := { elems := [{ key := msl_k1Ex, val := msl_v1Ex, size := 13 }], size := 3, level := 2 }

example : (singleElements_Remove (msl_envSingle0 msl_cfgEx) (cS msl_eBadEx) msl_cEx (u64 2) 0 (.key msl_k1Ex)).map (·.2.2.2.1.size) =
    some (u32 4294967286) := by decide
example : (msl_rRemove msl_eBadEx msl_cEx (SingleElems.remove msl_cfgEx msl_eBadEx 2 msl_k1Ex msl_cEx)).map (·.2.2.2.1.size) = some (u32 0) := by
  decide

end Atree.TransEq
