import AtreeModel.Gen.TransCoverage
/-
  COVERAGE of the slab engine (Gen/TransSlabs.lean) (FX14, audit a6 F1 / F3): what the engine does NOT read of the Go text of its
  targets is regenerated on every run (Gen/TransCoverage.lean, harness/cmd/gotrans/coverage.go) and proved EQUAL to the
  reviewed literals below.  A change of a skipped statement, of the arguments / the use of the results of a call that is
  an environment parameter or a table view, or of the body of a helper behind such a parameter breaks the theorem
  (also a harmless one: the reviewer re-reads the piece and re-pins).
  Written by `gotrans -repo <atree> -out <Gen> -pin <this directory>`; do not edit by hand, review the diff.
-/
namespace Atree.TransCov
open Atree

namespace Reviewed

def skipped_TransSl : List (String × String) := [
  ("storeSlab", "dropped argument: fmt.Sprintf(\"failed to store slab %s\", id)"),
  ("ArrayDataSlab_Set", "dropped argument: \"failed to get value's storable\""),
  ("ArrayDataSlab_Insert", "dropped argument: \"failed to get value's storable\""),
  ("ArrayDataSlab_Split", "dropped argument: \"ArrayDataSlab (%s) has less than 2 elements\""),
  ("ArrayDataSlab_Split", "dropped argument: a.header.slabID"),
  ("ArrayDataSlab_Split", "dropped argument: fmt.Sprintf( \"failed to generate slab ID for address 0x%x\", a.header.slabID.address, )"),
  ("ArrayMetaDataSlab_Split", "dropped argument: \"ArrayMetaDataSlab (%s) has less than 2 child headers\""),
  ("ArrayMetaDataSlab_Split", "dropped argument: a.header.slabID"),
  ("ArrayMetaDataSlab_Split", "dropped argument: fmt.Sprintf(\"failed to generate slab ID for address 0x%x\", a.header.slabID.address)"),
  ("ArrayMetaDataSlab_mergeChildren", "dropped argument: fmt.Sprintf(\"failed to remove slab %s\", obseleteSlab.SlabID())"),
  ("Array_splitRoot", "dropped argument: fmt.Sprintf(\"failed to generate slab ID for address 0x%x\", a.Address())"),
  ("Array_promoteChildAsNewRoot", "dropped argument: fmt.Sprintf(\"failed to remove slab %s\", childID)"),
  ("ArrayMetaDataSlab_PopIterate", "dropped argument: fmt.Sprintf(\"failed to remove slab %s\", childID)"),
  ("Array_Get", "dropped argument: \"failed to get storable's stored value\""),
  ("Array_PopIterate", "assignment to a field of a dropped type: a.mutableElementIndex = nil")]

def envCalls_TransSl : List (String × String) := [
  ("storeSlab", "slab.SlabID() IN id := slab.SlabID()"),
  ("storeSlab", "storage.Store(id, slab) IN err := storage.Store(id, slab)"),
  ("storeSlab", "wrapErrorfAsExternalErrorIfNeeded(err, fmt.Sprintf(\"failed to store slab %s\", id)) IN return wrapErrorfAsExternalErrorIfNeeded(err, fmt.Sprintf(\"failed to store slab %s\", id))"),
  ("ArrayDataSlab_Get", "NewIndexOutOfBoundsError(index, 0, uint64(len(a.elements))) IN return nil, NewIndexOutOfBoundsError(index, 0, uint64(len(a.elements)))"),
  ("ArrayDataSlab_Set", "NewIndexOutOfBoundsError(index, 0, uint64(len(a.elements))) IN return nil, NewIndexOutOfBoundsError(index, 0, uint64(len(a.elements)))"),
  ("ArrayDataSlab_Set", "value.Storable(storage, address, maxInlineArrayElementSize) IN storable, err := value.Storable(storage, address, maxInlineArrayElementSize)"),
  ("ArrayDataSlab_Set", "wrapErrorfAsExternalErrorIfNeeded(err, \"failed to get value's storable\") IN return nil, wrapErrorfAsExternalErrorIfNeeded(err, \"failed to get value's storable\")"),
  ("ArrayDataSlab_Insert", "NewIndexOutOfBoundsError(index, 0, uint64(len(a.elements))) IN return NewIndexOutOfBoundsError(index, 0, uint64(len(a.elements)))"),
  ("ArrayDataSlab_Insert", "value.Storable(storage, address, maxInlineArrayElementSize) IN storable, err := value.Storable(storage, address, maxInlineArrayElementSize)"),
  ("ArrayDataSlab_Insert", "wrapErrorfAsExternalErrorIfNeeded(err, \"failed to get value's storable\") IN return wrapErrorfAsExternalErrorIfNeeded(err, \"failed to get value's storable\")"),
  ("ArrayDataSlab_Remove", "NewIndexOutOfBoundsError(index, 0, uint64(len(a.elements))) IN return nil, NewIndexOutOfBoundsError(index, 0, uint64(len(a.elements)))"),
  ("ArrayDataSlab_PopIterate", "fn(a.elements[i])"),
  ("ArrayDataSlab_Split", "NewSlabSplitErrorf(\"ArrayDataSlab (%s) has less than 2 elements\", a.header.slabID) IN return nil, nil, NewSlabSplitErrorf(\"ArrayDataSlab (%s) has less than 2 elements\", a.header.slabID)"),
  ("ArrayDataSlab_Split", "storage.GenerateSlabID(a.header.slabID.address) IN sID, err := storage.GenerateSlabID(a.header.slabID.address)"),
  ("ArrayDataSlab_Split", "wrapErrorfAsExternalErrorIfNeeded( err, fmt.Sprintf( \"failed to generate slab ID for address 0x%x\", a.header.slabID.address, ), ) IN return nil, nil, wrapErrorfAsExternalErrorIfNeeded( err, fmt.Sprintf( \"failed to generate slab ID for address 0x%x\", a.header.slabID.address, ), )"),
  ("ArrayMetaDataSlab_Split", "NewSlabSplitErrorf(\"ArrayMetaDataSlab (%s) has less than 2 child headers\", a.header.slabID) IN return nil, nil, NewSlabSplitErrorf(\"ArrayMetaDataSlab (%s) has less than 2 child headers\", a.header.slabID)"),
  ("ArrayMetaDataSlab_Split", "storage.GenerateSlabID(a.header.slabID.address) IN sID, err := storage.GenerateSlabID(a.header.slabID.address)"),
  ("ArrayMetaDataSlab_Split", "wrapErrorfAsExternalErrorIfNeeded( err, fmt.Sprintf(\"failed to generate slab ID for address 0x%x\", a.header.slabID.address)) IN return nil, nil, wrapErrorfAsExternalErrorIfNeeded( err, fmt.Sprintf(\"failed to generate slab ID for address 0x%x\", a.header.slabID.address))"),
  ("ArrayMetaDataSlab_mergeChildren", "storage.Remove(obseleteSlab.SlabID()) IN err = storage.Remove(obseleteSlab.SlabID())"),
  ("ArrayMetaDataSlab_mergeChildren", "obseleteSlab.SlabID() IN err = storage.Remove(obseleteSlab.SlabID())"),
  ("ArrayMetaDataSlab_mergeChildren", "wrapErrorfAsExternalErrorIfNeeded(err, fmt.Sprintf(\"failed to remove slab %s\", obseleteSlab.SlabID())) IN return wrapErrorfAsExternalErrorIfNeeded(err, fmt.Sprintf(\"failed to remove slab %s\", obseleteSlab.SlabID()))"),
  ("ArrayMetaDataSlab_mergeChildren", "obseleteSlab.SlabID() IN return wrapErrorfAsExternalErrorIfNeeded(err, fmt.Sprintf(\"failed to remove slab %s\", obseleteSlab.SlabID()))"),
  ("ArrayMetaDataSlab_MergeOrRebalanceChildSlab", "getArraySlab(storage, leftSibID) IN leftSib, err = getArraySlab(storage, leftSibID)"),
  ("ArrayMetaDataSlab_MergeOrRebalanceChildSlab", "getArraySlab(storage, rightSibID) IN rightSib, err = getArraySlab(storage, rightSibID)"),
  ("Array_Address", "a.root.SlabID() IN return a.root.SlabID().address"),
  ("Array_splitRoot", "a.root.SlabID() IN rootID := a.root.SlabID()"),
  ("Array_splitRoot", "a.Storage.GenerateSlabID(a.Address()) IN sID, err := a.Storage.GenerateSlabID(a.Address())"),
  ("Array_splitRoot", "a.Address() IN sID, err := a.Storage.GenerateSlabID(a.Address())"),
  ("Array_splitRoot", "wrapErrorfAsExternalErrorIfNeeded( err, fmt.Sprintf(\"failed to generate slab ID for address 0x%x\", a.Address())) IN return wrapErrorfAsExternalErrorIfNeeded( err, fmt.Sprintf(\"failed to generate slab ID for address 0x%x\", a.Address()))"),
  ("Array_splitRoot", "a.Address() IN return wrapErrorfAsExternalErrorIfNeeded( err, fmt.Sprintf(\"failed to generate slab ID for address 0x%x\", a.Address()))"),
  ("Array_promoteChildAsNewRoot", "getArraySlab(a.Storage, childID) IN child, err := getArraySlab(a.Storage, childID)"),
  ("Array_promoteChildAsNewRoot", "a.root.SlabID() IN rootID := a.root.SlabID()"),
  ("Array_promoteChildAsNewRoot", "a.Storage.Remove(childID) IN err = a.Storage.Remove(childID)"),
  ("Array_promoteChildAsNewRoot", "wrapErrorfAsExternalErrorIfNeeded(err, fmt.Sprintf(\"failed to remove slab %s\", childID)) IN return wrapErrorfAsExternalErrorIfNeeded(err, fmt.Sprintf(\"failed to remove slab %s\", childID))"),
  ("ArrayMetaDataSlab_Get", "a.childSlabIndexInfo(index) IN _, adjustedIndex, childID, err := a.childSlabIndexInfo(index)"),
  ("ArrayMetaDataSlab_Get", "getArraySlab(storage, childID) IN child, err := getArraySlab(storage, childID)"),
  ("ArrayMetaDataSlab_Set", "a.childSlabIndexInfo(index) IN childHeaderIndex, adjustedIndex, childID, err := a.childSlabIndexInfo(index)"),
  ("ArrayMetaDataSlab_Set", "getArraySlab(storage, childID) IN child, err := getArraySlab(storage, childID)"),
  ("ArrayMetaDataSlab_Set", "child.Set(storage, address, adjustedIndex, value) IN existingElem, err := child.Set(storage, address, adjustedIndex, value)"),
  ("ArrayMetaDataSlab_Insert", "NewIndexOutOfBoundsError(index, 0, uint64(a.header.count)) IN return NewIndexOutOfBoundsError(index, 0, uint64(a.header.count))"),
  ("ArrayMetaDataSlab_Insert", "a.childSlabIndexInfo(index) IN childHeaderIndex, adjustedIndex, childID, err = a.childSlabIndexInfo(index)"),
  ("ArrayMetaDataSlab_Insert", "getArraySlab(storage, childID) IN child, err := getArraySlab(storage, childID)"),
  ("ArrayMetaDataSlab_Remove", "NewIndexOutOfBoundsError(index, 0, uint64(a.header.count)) IN return nil, NewIndexOutOfBoundsError(index, 0, uint64(a.header.count))"),
  ("ArrayMetaDataSlab_Remove", "a.childSlabIndexInfo(index) IN childHeaderIndex, adjustedIndex, childID, err := a.childSlabIndexInfo(index)"),
  ("ArrayMetaDataSlab_Remove", "getArraySlab(storage, childID) IN child, err := getArraySlab(storage, childID)"),
  ("ArrayMetaDataSlab_Remove", "child.Remove(storage, adjustedIndex) IN v, err := child.Remove(storage, adjustedIndex)"),
  ("ArrayMetaDataSlab_PopIterate", "getArraySlab(storage, childID) IN child, err := getArraySlab(storage, childID)"),
  ("ArrayMetaDataSlab_PopIterate", "storage.Remove(childID) IN err = storage.Remove(childID)"),
  ("ArrayMetaDataSlab_PopIterate", "wrapErrorfAsExternalErrorIfNeeded(err, fmt.Sprintf(\"failed to remove slab %s\", childID)) IN return wrapErrorfAsExternalErrorIfNeeded(err, fmt.Sprintf(\"failed to remove slab %s\", childID))"),
  ("Array_Get", "storable.StoredValue(a.Storage) IN v, err := storable.StoredValue(a.Storage)"),
  ("Array_Get", "wrapErrorfAsExternalErrorIfNeeded(err, \"failed to get storable's stored value\") IN return nil, wrapErrorfAsExternalErrorIfNeeded(err, \"failed to get storable's stored value\")"),
  ("Array_Get", "a.setCallbackWithChild(i, v, maxInlineArrayElementSize)"),
  ("Array_set", "a.root.Set(a.Storage, a.Address(), index, value) IN existingStorable, err := a.root.Set(a.Storage, a.Address(), index, value)"),
  ("Array_set", "a.Address() IN existingStorable, err := a.root.Set(a.Storage, a.Address(), index, value)"),
  ("Array_set", "a.notifyParentIfNeeded() IN err = a.notifyParentIfNeeded()"),
  ("Array_set", "a.setCallbackWithChild(index, value, maxInlineArrayElementSize)"),
  ("Array_Insert", "NewArrayElementCannotExceedMaxElementCountError(maxArrayElementCount) IN return NewArrayElementCannotExceedMaxElementCountError(maxArrayElementCount)"),
  ("Array_Insert", "a.Address() IN err := a.root.Insert(a.Storage, a.Address(), index, value)"),
  ("Array_Insert", "a.incrementIndexFrom(index) IN err = a.incrementIndexFrom(index)"),
  ("Array_Insert", "a.notifyParentIfNeeded() IN err = a.notifyParentIfNeeded()"),
  ("Array_Insert", "a.setCallbackWithChild(index, value, maxInlineArrayElementSize)"),
  ("Array_remove", "a.root.Remove(a.Storage, index) IN storable, err := a.root.Remove(a.Storage, index)"),
  ("Array_remove", "a.decrementIndexFrom(index) IN err = a.decrementIndexFrom(index)"),
  ("Array_remove", "a.notifyParentIfNeeded() IN err = a.notifyParentIfNeeded()"),
  ("Array_PopIterate", "a.root.SlabID() IN rootID := a.root.SlabID()"),
  ("Array_PopIterate", "a.notifyParentIfNeeded() IN return a.notifyParentIfNeeded()")]

def opaqueBodies_TransSl : List (String × String) := [
  ("Array.Remove", "06e9048c66d5bd41"),
  ("Array.Set", "832265c59e9a5128"),
  ("Array.SlabID", "67c7cb3676cc362b"),
  ("Array.Storable", "038d0dac213c2aad"),
  ("Array.decrementIndexFrom", "a741223bd686c6f8"),
  ("Array.incrementIndexFrom", "a7f9f7978d94a1ce"),
  ("Array.notifyParentIfNeeded", "2cfba280b8ee6d04"),
  ("Array.setCallbackWithChild", "d69daceb36f6941c"),
  ("ArrayDataSlab.StoredValue", "02879d178871b795"),
  ("ArrayMetaDataSlab.StoredValue", "cae8ad8064539394"),
  ("NewArrayElementCannotExceedMaxElementCountError", "cf2a00b911bc21a2"),
  ("NewExternalError", "b800c9615af12c00"),
  ("NewFatalError", "2304e66b7040c8ae"),
  ("NewIndexOutOfBoundsError", "1eb66faeadee17ee"),
  ("NewNotValueError", "ebd2f50c5db7447b"),
  ("NewSlabDataError", "d09a101e99a81968"),
  ("NewSlabDataErrorf", "3471e1503f0680c3"),
  ("NewSlabNotFoundError", "ad00951d31754926"),
  ("NewSlabNotFoundErrorf", "db9a50172ccbc92a"),
  ("NewSlabSplitError", "469112f9467efad1"),
  ("NewSlabSplitErrorf", "2a7d1848d5d9682a"),
  ("NewUnreachableError", "712a63d1d05965bd"),
  ("NewUserError", "3aa89e265828c171"),
  ("SlabID.Address", "cd5e0e584a1a359a"),
  ("getArraySlab", "a330d2aae3ef6e47"),
  ("slabIDToValueID", "bac6ebd0891386e9"),
  ("uninlineStorableIfNeeded", "769f70f33e1ef625"),
  ("unwrapStorable", "6b1b552dbc0a396f"),
  ("unwrapValue", "e46548237698346c"),
  ("wrapErrorAsExternalErrorIfNeeded", "f3ab17fa4cca267b"),
  ("wrapErrorfAsExternalErrorIfNeeded", "dc4d3b43fdff404f")]

end Reviewed

/-- TransSl: (target, why: normalised Go text) of every statement / expression the engine left out or replaced by a table entry - as reviewed -/
theorem skipped_TransSl_pinned : Gen.TransCov.skipped_TransSl = Reviewed.skipped_TransSl := rfl

/-- TransSl: (target, call IN enclosing statement) of every call in a target that is not certainly a call of a translated target of the same unit, a builtin, a conversion or a library function translated by its specification - as reviewed -/
theorem envCalls_TransSl_pinned : Gen.TransCov.envCalls_TransSl = Reviewed.envCalls_TransSl := rfl

/-- TransSl: (function, AST hash as in SourceMap.json) of every function of package atree the unit relies on without translating it - as reviewed -/
theorem opaqueBodies_TransSl_pinned : Gen.TransCov.opaqueBodies_TransSl = Reviewed.opaqueBodies_TransSl := rfl

end Atree.TransCov
