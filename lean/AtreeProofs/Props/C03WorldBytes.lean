import AtreeProofs.WorldCodec.BytesHist
import AtreeProofs.Props.C07World
/-
  C03 / C10 FOR NESTED CONTAINERS AT BYTE LEVEL.  PROPERTY THEOREMS.

  "After any successful commit, a brand-new storage reconstructs every live container with exactly
  the content it had at commit time, using nothing but those registers" — for a World of nested
  containers, with the real byte codec:

  * the requests of a history (`WC.Req`: the World operations through current handles, with their
    whole parent-callback chains) are run against the storage state machine (`WC.HistB`: write set,
    cache, ledger; commits of either kind with any fault plan anywhere), every stored slab being
    `EncodeSlab` of its codec-level form `World.toCodec` (inlined children embedded);
  * `world_bytes_commit_reopen`: after any such history, a fault-free commit succeeds, and a
    BRAND-NEW storage over the same ledger (empty write set, empty cache) shows, by `DecodeSlab` on
    the registers alone, exactly `World.toCodec` of the reopened world for every slab ID: the deep
    content of every live container (every inlined child at every depth is part of the decoded slab
    of its host), and no register for anything else.

  Hypotheses: the side conditions of `Props/C07World.lean` on the FINAL world (`LeafOk`, `SideAt`) — they make every pending slab encodable (`NoEncodeFailure` is DERIVED, not
  assumed) — and `DeepSteps D`: the deep account of every request ("a slab whose embedded child changed
  was stored"), which is `Props/C10Deep.lean` (`C03WBF.world_bytes_commit_reopen` has no such hypothesis).
-/
namespace Atree.C03WB
open Atree Atree.Codec Gen World St C10Persist WC C07W

/-- every pending slab encodes: derived from the invariant and the side conditions of the world -/
theorem no_encode_failure {D : SlabID → DigestFn 4} (hdeep : DeepSteps D) {w : World} {cx : Ctx}
    {s : St Slab (SlabID × Bytes)} (h : HistB D w cx s)
    (L : LeafOk w cx.ctr) (hside : ∀ id, SideAt w id) :
    NoEncodeFailure worldCodec s := by
  obtain ⟨hrep, _, hund, _⟩ := histB_rep hdeep h
  obtain ⟨H, Hh, _⟩ := C09W.world_heap_exact D w cx h.hist
  intro id v hv
  have hne : id ≠ SlabID.undef := by
    intro e; rw [e, hund] at hv; cases hv
  have hview : s.view worldCodec id = some v := view_of_deltas worldCodec s id (some v) hv
  rw [hrep id hne] at hview
  obtain ⟨ok, _⟩ := worldOk_codec_ok D w cx.ctr H Hh L id v hview (hside id)
  rw [worldCodec_enc_of_ok v ok]
  rfl

/-- THE BYTE-LEVEL COMMIT / REOPEN THEOREM FOR NESTED CONTAINERS. -/
theorem world_bytes_commit_reopen {D : SlabID → DigestFn 4} (hdeep : DeepSteps D) {w : World} {cx : Ctx}
    {s : St Slab (SlabID × Bytes)} (h : HistB D w cx s)
    (L : LeafOk w cx.ctr) (hside : ∀ id, SideAt w id)
    (kind : CommitKind) (mo dlo : List SlabID) :
    (St.step worldCodec s (.commit kind [] mo dlo)).2 = .unit ∧
    let reopened := St.run worldCodec s [.commit kind [] mo dlo, .recreate]
    reopened.deltas = [] ∧ reopened.cache = [] ∧
    (∀ id, id.isTemp = false → reopened.view worldCodec id = w.reopen.toCodec id) ∧
    -- the registers themselves: `DecodeSlab(id, register)` is the codec-level slab of the world, and
    -- there is a register exactly for the slabs of the heap
    (∀ id, id.isTemp = false →
      (AList.find? reopened.base id).bind (fun p =>
        match decodeSlab p.1 p.2 0 with
        | .ok sl _ => some sl
        | _ => none) = w.toCodec id) ∧
    (∀ id, id.isTemp = false → ((AList.find? reopened.base id).isSome ↔ (w.slabAt id).isSome)) ∧
    -- … spelled out: the register of a heap slab is filed under its ID and `DecodeSlab(id, bytes)` is the slab
    (∀ id sl, id.isTemp = false → w.toCodec id = some sl →
      ∃ bytes k, AList.find? reopened.base id = some (id, bytes) ∧ decodeSlab id bytes 0 = .ok sl k) := by
  obtain ⟨hrep, hI, _, _⟩ := histB_rep hdeep h
  have hkeyed := (histB_rep hdeep (HistB.commit kind [] mo dlo h)).2.2.2
  have hne := no_encode_failure hdeep h L hside
  obtain ⟨k1, k2⟩ := rep_commit_reopen worldCodec worldCodec_roundTrip s _ hrep hI hne kind mo dlo
  refine ⟨k1, ?_⟩
  intro reopened
  obtain ⟨k3, k4, k5, k6⟩ := k2
  have hreg : ∀ id, id.isTemp = false →
      (AList.find? reopened.base id).bind (fun p =>
        match decodeSlab p.1 p.2 0 with
        | .ok sl _ => some sl
        | _ => none) = w.toCodec id := by
    intro id ht
    have := k6 id ht
    unfold St.view at this
    rw [k3, k4] at this
    exact this
  have hbase : reopened.base = (St.step worldCodec s (.commit kind [] mo dlo)).1.base := by
    show (St.run worldCodec s [.commit kind [] mo dlo, .recreate]).base = _
    simp only [St.run, List.foldl_cons, List.foldl_nil]
    rfl
  refine ⟨k3, k4, fun id ht => by rw [k6 id ht]; exact (congrFun (toCodec_of_conts (w := w) (w' := w.reopen) rfl) id).symm,
    hreg, ?_, ?_⟩
  rotate_left
  · intro id sl ht hsl
    have h1 := hreg id ht
    rw [hsl] at h1
    cases hb : AList.find? reopened.base id with
    | none => rw [hb] at h1; cases h1
    | some p =>
      rw [hb] at h1
      simp only [Option.bind_some] at h1
      have hp1 : p.1 = id := hkeyed id p (by rw [← hbase]; exact hb)
      obtain ⟨pid, bytes⟩ := p
      simp only at hp1
      subst hp1
      simp only at h1
      cases hd : decodeSlab pid bytes 0 with
      | ok sl' k =>
        rw [hd] at h1
        simp only [Option.some.injEq] at h1
        subst h1
        exact ⟨bytes, k, rfl, hd⟩
      | error e k => rw [hd] at h1; cases h1
      | panic => rw [hd] at h1; cases h1
  intro id ht
  have h1 := hreg id ht
  constructor
  · intro hb
    obtain ⟨b, hb'⟩ := Option.isSome_iff_exists.1 hb
    have hdec := k5.baseDecodes id b hb'
    rw [hb'] at h1
    simp only [Option.bind_some] at h1
    have : (w.toCodec id).isSome := by
      rw [← h1]
      exact hdec
    rwa [toCodec_isSome] at this
  · intro hs
    rw [← toCodec_isSome] at hs
    rw [← h1] at hs
    cases hb : AList.find? reopened.base id with
    | none => rw [hb] at hs; cases hs
    | some b => rfl

end Atree.C03WB
