import AtreeModel.Gen.TransCoverage
/-
  Reviewed literals of Props/TransCoverage.lean (FX14): the units, the closed interfaces with the implementers the engines
  assume and the ones the source has.  Written by `gotrans -pin`; do not edit by hand, review the diff.
-/
namespace Atree.TransCov.Reviewed

def unitLabels : List String := ["Trans", "TransSt", "TransSl", "TransMap", "TransMapD", "TransElems", "TransElem"]

def closedInterfaces : List (String × List String × List String) := [
  ("TransSl/ArraySlab", ["ArrayDataSlab", "ArrayMetaDataSlab"], ["ArrayDataSlab", "ArrayMetaDataSlab"]),
  ("TransSl/Slab", ["ArrayDataSlab", "ArrayMetaDataSlab"], ["ArrayDataSlab", "ArrayMetaDataSlab", "MapDataSlab", "MapMetaDataSlab", "StorableSlab"]),
  ("TransMap/MapSlab", ["MapDataSlab", "MapMetaDataSlab"], ["MapDataSlab", "MapMetaDataSlab"]),
  ("TransMap/Slab", ["MapDataSlab", "MapMetaDataSlab"], ["ArrayDataSlab", "ArrayMetaDataSlab", "MapDataSlab", "MapMetaDataSlab", "StorableSlab"]),
  ("TransMap/elements", ["hkeyElements", "singleElements"], ["hkeyElements", "singleElements"]),
  ("TransMapD/MapSlab", ["MapDataSlab", "MapMetaDataSlab"], ["MapDataSlab", "MapMetaDataSlab"]),
  ("TransMapD/Slab", ["MapDataSlab", "MapMetaDataSlab"], ["ArrayDataSlab", "ArrayMetaDataSlab", "MapDataSlab", "MapMetaDataSlab", "StorableSlab"]),
  ("TransElem/MapSlab", ["MapDataSlab", "MapMetaDataSlab"], ["MapDataSlab", "MapMetaDataSlab"]),
  ("TransElem/Slab", ["MapDataSlab", "MapMetaDataSlab"], ["ArrayDataSlab", "ArrayMetaDataSlab", "MapDataSlab", "MapMetaDataSlab", "StorableSlab"]),
  ("TransElem/element", ["externalCollisionGroup", "inlineCollisionGroup", "singleElement"], ["externalCollisionGroup", "inlineCollisionGroup", "singleElement"]),
  ("TransElem/elementGroup", ["externalCollisionGroup", "inlineCollisionGroup"], ["externalCollisionGroup", "inlineCollisionGroup"])]

end Atree.TransCov.Reviewed
