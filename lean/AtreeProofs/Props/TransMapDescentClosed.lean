import AtreeProofs.Props.TransMapDescentFull
import AtreeProofs.Props.TransElemClosedInvS
/-
  WP13, THE BRIDGE from the closed element layer to the map descent: the closed unit-B environment `clEnvB cfg retr (r+1)`
  satisfies `ElemsSpec` (`Trans/MapDescent.lean`) on the elements of data slabs that satisfy the map element invariant and
  the range conditions of the closed theorems (`clEnvB_elemsSpec`), and - WITHOUT any `ElemsSpec` / environment
  hypothesis - the generated `OrderedMap.get / Has` over a heap that holds the map's tree, with the CLOSED element layer,
  equal the model's `OMap.get / has` under `MapInv` (`Ob_OrderedMap_Get_heap_full_closed`, `Ob_OrderedMap_Has_heap_full_closed`).
  The reads only use `elements.Get`: `Ob_MapSlab_Get_heap_g`, `Ob_OrderedMap_get_heap_g`, `Ob_OrderedMap_Has_heap_g` are the
  proofs of `Props/TransMapDescentGet.lean` with the `ElemsSpec` hypothesis weakened to its `get` field (same scripts), so
  that the closed read theorems need no hypothesis about `Set` / `Remove` results.
-/
namespace Atree.TransEq
open Atree Atree.Gen.TransMapD

section getOnly
variable {r : Nat} (T : Nat) (eb : DEnvB r) (rs : DRestruct r)

theorem Ob_MapSlab_Get_heap_g (cfg : MCfg) (k : MKey) (P : DG r → Prop)
    (hG : ∀ g c, P g → eb.elements_Get g c k (u64 0) (u64 (k.dig 0)) (.key k) =
      mei_rGet c (HkeyElems.get (MElems.ops r) cfg g 0 k))
    (hk : k.dig 0 < 2^64) :
    ∀ (d depth : Nat) (t : MTree r d) (x : Option DX) (s : MHSt r), d ≤ depth → MHolds s.heap d t x → MRouteOk d t →
      (∀ sl ∈ MTree.leaves d t, P sl.elems) →
      MapSlab_Get (envD T eb rs) (MapMetaDataSlab_Get (envD T eb rs) depth) (md_tree d t x) s k (u64 0) (u64 (k.dig 0)) (.key k) =
        some (md_rGet s (MTree.get cfg d t k)) := by
  intro d
  induction d with
  | zero =>
    intro depth t x s _ _ _ hP
    have hp : P (t : MDataSlab r).elems := hP t (by
      show (t : MDataSlab r) ∈ [(t : MDataSlab r)]
      exact List.mem_singleton.2 rfl)
    show some _ = _
    simp only [MapDataSlab_Get, md_data, envD_elemGet, hG _ s.ctx hp, MTree.get, MDataSlab.get, MDataSlab.eops]
    rcases HkeyElems.get (MElems.ops r) cfg (t : MDataSlab r).elems 0 k with e | ⟨k', v'⟩ <;> simp [mei_rGet, md_rGet]
  | succ d ih =>
    intro depth (m : MMetaSlab (MTree r d)) x s hd hh hr hP
    obtain ⟨depth, rfl⟩ : ∃ n, depth = n + 1 := ⟨depth - 1, by omega⟩
    obtain ⟨hch, hok, hrc⟩ := hr
    rw [md_tree_succ, MapSlab_Get_meta]
    simp only [MapMetaDataSlab_Get]
    rw [Ob_getChildSlabByDigest_heap T eb rs m x s hok (k.dig 0) hk (.key k) hch hh.2]
    simp only [MTree.get]
    rcases hf : MMetaSlab.findChild m.childHdrs (k.dig 0) 0 m.childHdrs.length none (m.childHdrs.length + 1) with _ | i
    · simp [md_rGet]
    · rcases hc : m.children[i]? with _ | child
      · -- `findChild` stays below the number of headers = number of children
        exfalso
        have hb : ∀ (fuel i0 j : Nat) (a : Option Nat), j ≤ m.childHdrs.length → (∀ n, a = some n → n < m.childHdrs.length) →
            ∀ n, MMetaSlab.findChild m.childHdrs (k.dig 0) i0 j a fuel = some n → n < m.childHdrs.length := by
          intro fuel
          induction fuel with
          | zero => intro i0 j a _ ha n hn; exact ha n (by simpa [MMetaSlab.findChild] using hn)
          | succ fuel ihf =>
            intro i0 j a hj ha n hn
            simp only [MMetaSlab.findChild] at hn
            by_cases c : i0 < j
            · simp only [c, if_true] at hn
              by_cases c1 : (m.childHdrs.getD ((i0 + j) / 2) default).firstKey > k.dig 0
              · simp only [c1, if_true] at hn
                exact ihf i0 _ a (by omega) ha n hn
              · simp only [c1, if_false] at hn
                exact ihf _ j _ hj (by intro n' hn'; cases hn'; omega) n hn
            · simp only [c, if_false] at hn
              exact ha n hn
        have := hb _ 0 _ none (Nat.le_refl _) (by intro n hn; cases hn) i hf
        rw [hch, List.length_map] at this
        rw [List.getElem?_eq_none_iff] at hc
        omega
      · have hmem : child ∈ m.children := List.mem_of_getElem? hc
        simp only [hc, Option.isNone_none, Bool.not_true, Bool.false_eq_true, if_false]
        rw [ih depth child none s (by omega) (hh.2 child hmem) (hrc child hmem)
          (fun sl hsl => hP sl (by
            show sl ∈ m.children.flatMap (MTree.leaves d)
            exact List.mem_flatMap.2 ⟨child, hmem, hsl⟩))]


theorem Ob_OrderedMap_get_heap_g (cfg : MCfg) (k : MKey) (P : DG r → Prop)
    (hG : ∀ g c, P g → eb.elements_Get g c k (u64 0) (u64 (k.dig 0)) (.key k) =
      mei_rGet c (HkeyElems.get (MElems.ops r) cfg g 0 k))
    (hk : k.dig 0 < 2^64) (m : OMap r) (s : MHSt r) (depth : Nat) (hd : m.d ≤ depth)
    (hh : MHolds s.heap m.d m.root (some (md_extra m))) (hr : MRouteOk m.d m.root)
    (hP : ∀ sl ∈ MTree.leaves m.d m.root, P sl.elems) :
    OrderedMap_get (envD T eb rs) depth (md_map m s) (.key k) = some (md_rMapGet m s (m.get cfg k)) := by
  unfold OrderedMap_get
  simp only [md_map, envD_builder, envD_dig, Option.isNone_none, Bool.not_true, Bool.false_eq_true, if_false]
  have e0 : (0 : UInt64).toNat = 0 := rfl
  rw [e0]
  have := Ob_MapSlab_Get_heap_g T eb rs cfg k P hG hk m.d depth m.root (some (md_extra m)) s hd hh hr hP
  have e1 : (0 : UInt64) = u64 0 := rfl
  rw [e1, this]
  simp only [OMap.get]
  rcases MTree.get cfg m.d m.root k with e | ⟨k', v'⟩ <;> rfl

theorem Ob_OrderedMap_Has_heap_g (cfg : MCfg) (k : MKey) (P : DG r → Prop)
    (hG : ∀ g c, P g → eb.elements_Get g c k (u64 0) (u64 (k.dig 0)) (.key k) =
      mei_rGet c (HkeyElems.get (MElems.ops r) cfg g 0 k))
    (hk : k.dig 0 < 2^64) (m : OMap r) (s : MHSt r) (depth : Nat) (hd : m.d ≤ depth)
    (hh : MHolds s.heap m.d m.root (some (md_extra m))) (hr : MRouteOk m.d m.root)
    (hP : ∀ sl ∈ MTree.leaves m.d m.root, P sl.elems) :
    OrderedMap_Has (envD T eb rs) depth (md_map m s) (.key k) =
      some (match m.has cfg k with
        | .ok b => (b, none, md_map m s)
        | .error e => (false, some e, md_map m s)) := by
  unfold OrderedMap_Has
  rw [Ob_OrderedMap_get_heap_g T eb rs cfg k P hG hk m s depth hd hh hr hP]
  simp only [OMap.has]
  rcases hg : m.get cfg k with e | ⟨k', v'⟩
  · cases e <;> simp [md_rMapGet]
  · simp [md_rMapGet]


end getOnly

section bridge
variable {r : Nat} (cfg : MCfg) (k : MKey) (v : Elem) (retr : mcl_Retrs DX) (D : DigestFn (r + 1))

/-- what the closed READS need of the elements of a data slab: the map element invariant, digests in `uint64` range and
    fewer than 2^62 entries per (nested) table, and a storage that returns the slabs of its external groups -/
structure mcl_PLeafG (T : Nat) (g : DG r) : Prop where
  inv : ElemsInv T (r + 1) D (r + 1) 0 [] g
  fitG : mcl_FitG (r + 1) g
  ret : ∀ c, mcl_RetrOk retr c (r + 1) g

/-- what ALL closed operations need: additionally the range conditions of `Set` and `Remove` (argument and model results)
    in every storage state -/
structure mcl_PLeaf (g : DG r) : Prop extends mcl_PLeafG retr D cfg.T g where
  fitS : ∀ c, mcl_FitS cfg k v (r + 1) g 0 c
  fitR : ∀ c, mcl_FitR cfg k (r + 1) g 0 c

variable (hr : cfg.L = r + 1) (hL : cfg.L < 2^64) (hT : cfg.T < 2^32) (hTe : maxInlineMapElem cfg.T < 2^32)
  (hcl : cfg.climit < 2^32) (hkd : ∀ lvl, k.dig lvl < 2^64)
include hr hL hT hTe hcl hkd

/-- the `get` field of `ElemsSpec` for the closed element layer, under the read hypotheses only -/
theorem clEnvB_elemsSpec_get (T : Nat) (g : DG r) (c : Ctx) (hP : mcl_PLeafG retr D T g) :
    (clEnvB cfg retr (r + 1)).elements_Get g c k (u64 0) (u64 (k.dig 0)) (.key k) =
      mei_rGet c (HkeyElems.get (MElems.ops r) cfg g 0 k) :=
  (clEnvB_ok cfg k default retr hL hT hTe hcl (r + 1)).gGet g c 0 (by decide)
    (mcl_QG_of_inv k retr T (r + 1) D hkd (hr ▸ hL) c (r + 1) 0 [] g hP.inv hP.fitG (fun _ => hP.ret c))

/-- THE BRIDGE: the closed unit-B environment satisfies the element-layer specification of the map descent -/
theorem clEnvB_elemsSpec (hLT : legalThreshold cfg.T = true) :
    ElemsSpec cfg k v (mcl_PLeaf cfg k v retr D) (clEnvB cfg retr (r + 1)) where
  size := fun g => (clEnvB_ok cfg k v retr hL hT hTe hcl (r + 1)).gSize g
  first := fun g => (clEnvB_ok cfg k v retr hL hT hTe hcl (r + 1)).gFirst g
  get := fun g c hP => clEnvB_elemsSpec_get cfg k retr D hr hL hT hTe hcl hkd cfg.T g c hP.tomcl_PLeafG
  set := fun g c hP =>
    (clEnvB_ok cfg k v retr hL hT hTe hcl (r + 1)).gSet g c 0 () (by decide)
      (mcl_QS_of_inv cfg k v retr cfg.T (r + 1) D hLT ⟨rfl, hr⟩ hkd (hr ▸ hL) c (r + 1) 0 [] g hP.inv (hP.fitS c) hP.fitG
        (fun _ => hP.ret c))
  remove := fun g c hP =>
    (clEnvB_ok cfg k v retr hL hT hTe hcl (r + 1)).gRemove g c 0 (by decide)
      (mcl_QR_of_inv cfg k retr cfg.T (r + 1) D hkd (hr ▸ hL) c (r + 1) 0 [] g hP.inv (hP.fitR c) (fun _ => hP.ret c))

omit hr hL hT hTe hcl hkd in
/-- every leaf of a tree that satisfies the tree invariant satisfies the map element invariant -/
theorem mcl_leaves_inv (T : Nat) : ∀ (d : Nat) (top : Bool) (t : MTree r d), MTreeInv T D d top t →
    ∀ sl ∈ MTree.leaves d t, ElemsInv T (r + 1) D (r + 1) 0 [] sl.elems := by
  intro d
  induction d with
  | zero =>
    intro top (s : MDataSlab r) (hinv : MDataInv T D top s) sl hsl
    have : sl = s := List.mem_singleton.1 hsl
    subst this
    exact hinv.elems_inv
  | succ d ih =>
    intro top (m : MMetaSlab (MTree r d)) hinv sl hsl
    obtain ⟨_, _, _, _, hc, _⟩ := hinv
    obtain ⟨child, hmem, hsl'⟩ := List.mem_flatMap.1 (show sl ∈ m.children.flatMap (MTree.leaves d) from hsl)
    exact ih false child (hc child hmem) sl hsl'

/-- **`OrderedMap.get` with the CLOSED element layer** under the map invariant, every depth: no `ElemsSpec`, no environment
    hypothesis.  Hypotheses: `MapInv`, the two range facts about index slabs (`MHdrsFit`), "the heap holds the tree",
    digests in `uint64` range / fewer than 2^62 entries per table in every leaf (`mcl_FitG`), the storage returns the slabs
    of the external collision groups (`mcl_RetrOk`), `uint` ranges of the configuration and of the key's digests. -/
theorem Ob_OrderedMap_Get_heap_full_closed (T : Nat) (rs : DRestruct r) (m : OMap r) (s : MHSt r) (depth : Nat)
    (hd : m.d ≤ depth) (hinv : MapInv T D m) (hfit : MHdrsFit m.d m.root)
    (hh : MHolds s.heap m.d m.root (some (md_extra m)))
    (hfitG : ∀ sl ∈ MTree.leaves m.d m.root, mcl_FitG (r + 1) sl.elems)
    (hret : ∀ sl ∈ MTree.leaves m.d m.root, ∀ c, mcl_RetrOk retr c (r + 1) sl.elems) :
    OrderedMap_get (envD T (clEnvB cfg retr (r + 1)) rs) depth (md_map m s) (.key k) =
      some (md_rMapGet m s (m.get cfg k)) :=
  Ob_OrderedMap_get_heap_g T (clEnvB cfg retr (r + 1)) rs cfg k (mcl_PLeafG retr D T)
    (fun g c hP => clEnvB_elemsSpec_get cfg k retr D hr hL hT hTe hcl hkd T g c hP) (hkd 0) m s depth hd hh
    (MRouteOk.of_inv T D m.d true m.root hinv.tree hfit)
    (fun sl hsl => ⟨mcl_leaves_inv D T m.d true m.root hinv.tree sl hsl, hfitG sl hsl, hret sl hsl⟩)

/-- **`OrderedMap.Has` with the CLOSED element layer** under the map invariant -/
theorem Ob_OrderedMap_Has_heap_full_closed (T : Nat) (rs : DRestruct r) (m : OMap r) (s : MHSt r) (depth : Nat)
    (hd : m.d ≤ depth) (hinv : MapInv T D m) (hfit : MHdrsFit m.d m.root)
    (hh : MHolds s.heap m.d m.root (some (md_extra m)))
    (hfitG : ∀ sl ∈ MTree.leaves m.d m.root, mcl_FitG (r + 1) sl.elems)
    (hret : ∀ sl ∈ MTree.leaves m.d m.root, ∀ c, mcl_RetrOk retr c (r + 1) sl.elems) :
    OrderedMap_Has (envD T (clEnvB cfg retr (r + 1)) rs) depth (md_map m s) (.key k) =
      some (match m.has cfg k with
        | .ok b => (b, none, md_map m s)
        | .error e => (false, some e, md_map m s)) :=
  Ob_OrderedMap_Has_heap_g T (clEnvB cfg retr (r + 1)) rs cfg k (mcl_PLeafG retr D T)
    (fun g c hP => clEnvB_elemsSpec_get cfg k retr D hr hL hT hTe hcl hkd T g c hP) (hkd 0) m s depth hd hh
    (MRouteOk.of_inv T D m.d true m.root hinv.tree hfit)
    (fun sl hsl => ⟨mcl_leaves_inv D T m.d true m.root hinv.tree sl hsl, hfitG sl hsl, hret sl hsl⟩)

end bridge
end Atree.TransEq
