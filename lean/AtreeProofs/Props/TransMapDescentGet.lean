import AtreeProofs.Trans.MapDescent
import AtreeProofs.Props.TransElemsGet
/-
  MAP DESCENT, reads (WP13): the generated `MapMetaDataSlab.getChildSlabByDigest / Get`, `MapSlab.Get` (dispatch),
  `OrderedMap.get / Has` of `AtreeModel/Gen/TransMapDescent.lean`, run over a HEAP of slabs (`envD`: `getMapSlab`
  reads what `Store` wrote), equal the model's `MTree.get` / `OMap.get / has` on EMBEDDED trees, for every depth.
  No hypothesis about generated code except `ElemsSpec` (the element layer `eb` is the model's on the elements of the
  data slabs that satisfy `P`), which WP11's `EnvB` witnesses and the closed element layer discharge.
-/
namespace Atree.TransEq
open Atree Atree.Gen.TransMapD

section
variable {r : Nat} (T : Nat) (eb : DEnvB r) (rs : DRestruct r)

/-- `Ans`: Go's `ans` (-1 = no child) for the model's `Option Nat` -/
def mdg_ans : Option Nat → Int
  | none => -1
  | some n => Int.ofNat n

/-- well-formedness of the header table of an index slab: first keys are `uint64` values, fewer than 2^62 children -/
structure mdg_HdrsOk (hdrs : List MHdr) : Prop where
  key : ∀ h ∈ hdrs, h.firstKey < 2^64
  short : hdrs.length < 2^62

theorem mdg_goIdx_hdrs {α : Type} (m : MMetaSlab α) (x : Option DX) (n : Nat) (h : n < m.childHdrs.length) :
    goIdx (md_meta m x).childrenHeaders (Int.ofNat n) = some (md_hdr (m.childHdrs.getD n default)) := by
  show (if Int.ofNat n < 0 then none else ((m.childHdrs.map md_hdr))[(Int.ofNat n).toNat]?) = _
  have h0 : ¬ (Int.ofNat n < 0) := Int.not_lt.mpr (Int.natCast_nonneg n)
  rw [if_neg h0]
  simp [List.getD, h]

theorem mdg_getD_key {hdrs : List MHdr} (hok : mdg_HdrsOk hdrs) (n : Nat) : (hdrs.getD n default).firstKey < 2^64 := by
  by_cases h : n < hdrs.length
  · have : hdrs.getD n default = hdrs[n] := by simp [List.getD, h]
    rw [this]; exact hok.key _ (List.getElem_mem h)
  · have : hdrs.getD n default = default := by simp [List.getD, Nat.not_lt.mp h]
    rw [this]; decide

/-- the binary search of `getChildSlabByDigest` computes the model's `findChild` and never runs out of fuel -/
theorem mdg_loop {α : Type} (m : MMetaSlab α) (x : Option DX) (hok : mdg_HdrsOk m.childHdrs) (hk : Nat) (hhk : hk < 2^64) :
    ∀ (fuel i j : Nat) (a : Option Nat), i ≤ j → j ≤ m.childHdrs.length → j - i < fuel →
      ∃ i' j' : Int, MapMetaDataSlab_getChildSlabByDigest.loop1 (envD T eb rs) (md_meta m x) (u64 hk) fuel (mdg_ans a)
          (Int.ofNat i) (Int.ofNat j) =
        .done (mdg_ans (MMetaSlab.findChild m.childHdrs hk i j a fuel), i', j') := by
  intro fuel
  induction fuel with
  | zero => intro i j a _ _ h; omega
  | succ fuel ih =>
    intro i j a hij hj hf
    have hshort := hok.short
    simp only [MapMetaDataSlab_getChildSlabByDigest.loop1, MMetaSlab.findChild, int_dlt]
    by_cases c : i < j
    · simp only [c, decide_true, if_true]
      rw [mid_eq i j (by omega)]
      have hlt : (i + j) / 2 < m.childHdrs.length := by omega
      simp only [mdg_goIdx_hdrs m x _ hlt]
      have hm := mdg_getD_key hok ((i + j) / 2)
      generalize m.childHdrs.getD ((i + j) / 2) default = mv at *
      have hdec : decide ((md_hdr mv).firstKey > u64 hk) = decide (mv.firstKey > hk) := u64_dgt hm hhk
      by_cases c1 : mv.firstKey > hk
      · simp only [hdec, c1, decide_true, if_true]
        exact ih i ((i + j) / 2) a (by omega) (by omega) (by omega)
      · simp only [hdec, c1, decide_false, if_false, Bool.false_eq_true]
        have e1 : Int.ofNat ((i + j) / 2) + 1 = Int.ofNat ((i + j) / 2 + 1) := rfl
        rw [e1]
        exact ih ((i + j) / 2 + 1) j (some ((i + j) / 2)) (by omega) hj (by omega)
    · simp only [c, decide_false, if_false, Bool.false_eq_true]
      exact ⟨_, _, rfl⟩

/-- `getMapSlab` over the heap: a stored (non-nil) slab is found, the storage is unchanged -/
theorem mdg_getMapSlab_some (s : MHSt r) (id : SlabID) (v : DSlab r) (h : s.heap id = some v) (hv : v.isNil = false) :
    getMapSlab (envD T eb rs) s id = (v, none, s) := by
  simp [getMapSlab, h, hv]

/-- `getMapSlab` of an identifier the heap does not hold: `SlabNotFoundError` -/
theorem mdg_getMapSlab_none (s : MHSt r) (id : SlabID) (h : s.heap id = none) :
    getMapSlab (envD T eb rs) s id = (.nil, some .slabNotFound, s) := by
  simp [getMapSlab, h]

theorem md_tree_isNil (d : Nat) (t : MTree r d) (x : Option DX) : (md_tree d t x).isNil = false := by
  cases d <;> rfl

/-- the result of `getChildSlabByDigest` on an index slab whose children the heap holds -/
theorem Ob_getChildSlabByDigest_heap {d : Nat} (m : MMetaSlab (MTree r d)) (x : Option DX) (s : MHSt r)
    (hok : mdg_HdrsOk m.childHdrs) (hk : Nat) (hhk : hk < 2^64) (w : SW)
    (hch : m.childHdrs = m.children.map (MTree.hdr d)) (hh : MHoldsChildren s.heap m) :
    MapMetaDataSlab_getChildSlabByDigest (envD T eb rs) (md_meta m x) s (u64 hk) w =
      match MMetaSlab.findChild m.childHdrs hk 0 m.childHdrs.length none (m.childHdrs.length + 1) with
      | none => some (.nil, 0, some .keyNotFound, s)
      | some i =>
        match m.children[i]? with
        | none => none
        | some child => some (md_tree d child none, Int.ofNat i, none, s) := by
  unfold MapMetaDataSlab_getChildSlabByDigest
  have hlen : (md_meta m x).childrenHeaders.length = m.childHdrs.length := by simp [md_meta]
  have e1 : ((Int.ofNat m.childHdrs.length) - (0 : Int) + 1).toNat = m.childHdrs.length + 1 := by
    simp only [Int.ofNat_eq_natCast]; omega
  obtain ⟨i', j', hl⟩ := mdg_loop T eb rs m x hok hk hhk (m.childHdrs.length + 1) 0 m.childHdrs.length none
    (by omega) (by omega) (by omega)
  simp only [hlen, e1]
  have hl' : MapMetaDataSlab_getChildSlabByDigest.loop1 (envD T eb rs) (md_meta m x) (u64 hk) (m.childHdrs.length + 1)
      (-1 : Int) (0 : Int) (Int.ofNat m.childHdrs.length) = _ := hl
  rw [hl']
  rcases hf : MMetaSlab.findChild m.childHdrs hk 0 m.childHdrs.length none (m.childHdrs.length + 1) with _ | i
  · simp [mdg_ans]
  · have hne : ¬ (Int.ofNat i = (-1 : Int)) := by
      simp only [Int.ofNat_eq_natCast]; omega
    simp only [mdg_ans, hne, decide_false, Bool.false_eq_true, if_false]
    by_cases hi : i < m.children.length
    · have hi' : i < m.childHdrs.length := by rw [hch]; simpa using hi
      have hget : m.children[i]? = some m.children[i] := List.getElem?_eq_getElem hi
      rw [mdg_goIdx_hdrs m x i hi', hget]
      have hhd : m.childHdrs.getD i default = MTree.hdr d m.children[i] := by
        simp [hch, List.getD, hi]
      have hheld := (hh _ (List.getElem_mem hi)).root
      simp only [hhd, md_hdr]
      rw [mdg_getMapSlab_some T eb rs s _ _ hheld (md_tree_isNil _ _ _)]
      simp
    · have hi' : ¬ i < m.childHdrs.length := by rw [hch]; simpa using hi
      have hget : m.children[i]? = none := List.getElem?_eq_none (by omega)
      rw [hget]
      have : goIdx (md_meta m x).childrenHeaders (Int.ofNat i) = none := by
        show (if Int.ofNat i < 0 then none else ((m.childHdrs.map md_hdr))[(Int.ofNat i).toNat]?) = none
        have h0 : ¬ (Int.ofNat i < 0) := Int.not_lt.mpr (Int.natCast_nonneg i)
        rw [if_neg h0]
        simp only [Int.toNat_natCast, Int.ofNat_eq_natCast]
        exact List.getElem?_eq_none (by simp; omega)
      rw [this]

theorem md_tree_succ {d : Nat} (m : MMetaSlab (MTree r d)) (x : Option DX) :
    md_tree (d + 1) (m : MTree r (d + 1)) x = .metaSlab (md_meta m x) := rfl

theorem md_tree_zero (sl : MDataSlab r) (x : Option DX) : md_tree 0 (sl : MTree r 0) x = .dataSlab (md_data sl x) := rfl

/-- the dispatcher on an index slab calls the recursive implementation it was handed -/
theorem MapSlab_Get_meta {G V W X D B S ε : Type} (env : Env G V W X D B S ε)
    (rec_ : MapMetaDataSlab X → S → D → UInt64 → UInt64 → W → Option (Option V × Option V × Option ε × S))
    (o : MapMetaDataSlab X) (a1 : S) (a2 : D) (a3 a4 : UInt64) (a6 : W) :
    MapSlab_Get env rec_ (.metaSlab o) a1 a2 a3 a4 a6 =
      match rec_ o a1 a2 a3 a4 a6 with
      | none => none
      | some r_ => some (r_.1, r_.2.1, r_.2.2.1, r_.2.2.2) := rfl

/-- routing invariant the reads need below an index slab (part of `MTreeInv`): header table = headers of the children,
    well-formed header tables, at every level -/
def MRouteOk : (d : Nat) → MTree r d → Prop
  | 0, _ => True
  | d + 1, (m : MMetaSlab (MTree r d)) =>
    m.childHdrs = m.children.map (MTree.hdr d) ∧ mdg_HdrsOk m.childHdrs ∧ ∀ c ∈ m.children, MRouteOk d c

/-- result of a `Get` over the heap: the Go results of the model's result, the storage unchanged -/
def md_rGet (s : MHSt r) : Except MErr (MKey × Elem) → Option SV × Option SV × Option GE × MHSt r
  | .ok (k, v) => (some (.key k), some (.val v), none, s)
  | .error err => (none, none, some err, s)

/-- `MapSlab.Get` (dispatch; `MapMetaDataSlab.Get` by recursion on the depth) over a heap that holds the tree = the
    model's `MTree.get` on the embedded tree, for EVERY depth `d ≤ depth`; the storage is unchanged. -/
theorem Ob_MapSlab_Get_heap (cfg : MCfg) (k : MKey) (v : Elem) (P : DG r → Prop) (hE : ElemsSpec cfg k v P eb)
    (hk : k.dig 0 < 2^64) :
    ∀ (d depth : Nat) (t : MTree r d) (x : Option DX) (s : MHSt r), d ≤ depth → MHolds s.heap d t x → MRouteOk d t →
      (∀ sl ∈ MTree.leaves d t, P sl.elems) →
      MapSlab_Get (envD T eb rs) (MapMetaDataSlab_Get (envD T eb rs) depth) (md_tree d t x) s k (u64 0) (u64 (k.dig 0)) (.key k) =
        some (md_rGet s (MTree.get cfg d t k)) := by
  intro d
  induction d with
  | zero =>
    intro depth t x s _ _ _ hP
    have hp : P (t : MDataSlab r).elems := hP t (by
      show (t : MDataSlab r) ∈ [(t : MDataSlab r)]
      exact List.mem_singleton.2 rfl)
    show some _ = _
    simp only [MapDataSlab_Get, md_data, envD_elemGet, hE.get _ s.ctx hp, MTree.get, MDataSlab.get, MDataSlab.eops]
    rcases HkeyElems.get (MElems.ops r) cfg (t : MDataSlab r).elems 0 k with e | ⟨k', v'⟩ <;> simp [mei_rGet, md_rGet]
  | succ d ih =>
    intro depth (m : MMetaSlab (MTree r d)) x s hd hh hr hP
    obtain ⟨depth, rfl⟩ : ∃ n, depth = n + 1 := ⟨depth - 1, by omega⟩
    obtain ⟨hch, hok, hrc⟩ := hr
    rw [md_tree_succ, MapSlab_Get_meta]
    simp only [MapMetaDataSlab_Get]
    rw [Ob_getChildSlabByDigest_heap T eb rs m x s hok (k.dig 0) hk (.key k) hch hh.2]
    simp only [MTree.get]
    rcases hf : MMetaSlab.findChild m.childHdrs (k.dig 0) 0 m.childHdrs.length none (m.childHdrs.length + 1) with _ | i
    · simp [md_rGet]
    · rcases hc : m.children[i]? with _ | child
      · -- `findChild` stays below the number of headers = number of children
        exfalso
        have hb : ∀ (fuel i0 j : Nat) (a : Option Nat), j ≤ m.childHdrs.length → (∀ n, a = some n → n < m.childHdrs.length) →
            ∀ n, MMetaSlab.findChild m.childHdrs (k.dig 0) i0 j a fuel = some n → n < m.childHdrs.length := by
          intro fuel
          induction fuel with
          | zero => intro i0 j a _ ha n hn; exact ha n (by simpa [MMetaSlab.findChild] using hn)
          | succ fuel ihf =>
            intro i0 j a hj ha n hn
            simp only [MMetaSlab.findChild] at hn
            by_cases c : i0 < j
            · simp only [c, if_true] at hn
              by_cases c1 : (m.childHdrs.getD ((i0 + j) / 2) default).firstKey > k.dig 0
              · simp only [c1, if_true] at hn
                exact ihf i0 _ a (by omega) ha n hn
              · simp only [c1, if_false] at hn
                exact ihf _ j _ hj (by intro n' hn'; cases hn'; omega) n hn
            · simp only [c, if_false] at hn
              exact ha n hn
        have := hb _ 0 _ none (Nat.le_refl _) (by intro n hn; cases hn) i hf
        rw [hch, List.length_map] at this
        rw [List.getElem?_eq_none_iff] at hc
        omega
      · have hmem : child ∈ m.children := List.mem_of_getElem? hc
        simp only [hc, Option.isNone_none, Bool.not_true, Bool.false_eq_true, if_false]
        rw [ih depth child none s (by omega) (hh.2 child hmem) (hrc child hmem)
          (fun sl hsl => hP sl (by
            show sl ∈ m.children.flatMap (MTree.leaves d)
            exact List.mem_flatMap.2 ⟨child, hmem, hsl⟩))]

/-- result of `OrderedMap.get` over the heap -/
def md_rMapGet (m : OMap r) (s : MHSt r) : Except MErr (MKey × Elem) → Option SV × Option SV × Option GE × DMap r
  | .ok (k, v) => (some (.key k), some (.val v), none, md_map m s)
  | .error err => (none, none, some err, md_map m s)

/-- `OrderedMap.get` (digester from the builder, digest of level 0, `root.Get`) over a heap that holds the map's tree
    = the model's `OMap.get`; handle and storage unchanged.  Every depth. -/
theorem Ob_OrderedMap_get_heap (cfg : MCfg) (k : MKey) (v : Elem) (P : DG r → Prop) (hE : ElemsSpec cfg k v P eb)
    (hk : k.dig 0 < 2^64) (m : OMap r) (s : MHSt r) (depth : Nat) (hd : m.d ≤ depth)
    (hh : MHolds s.heap m.d m.root (some (md_extra m))) (hr : MRouteOk m.d m.root)
    (hP : ∀ sl ∈ MTree.leaves m.d m.root, P sl.elems) :
    OrderedMap_get (envD T eb rs) depth (md_map m s) (.key k) = some (md_rMapGet m s (m.get cfg k)) := by
  unfold OrderedMap_get
  simp only [md_map, envD_builder, envD_dig, Option.isNone_none, Bool.not_true, Bool.false_eq_true, if_false]
  have e0 : (0 : UInt64).toNat = 0 := rfl
  rw [e0]
  have := Ob_MapSlab_Get_heap T eb rs cfg k v P hE hk m.d depth m.root (some (md_extra m)) s hd hh hr hP
  have e1 : (0 : UInt64) = u64 0 := rfl
  rw [e1, this]
  simp only [OMap.get]
  rcases MTree.get cfg m.d m.root k with e | ⟨k', v'⟩ <;> rfl

/-- `OrderedMap.Has` over the heap = the model's `OMap.has` (`KeyNotFoundError` is turned into `false`, every other error
    is passed on) -/
theorem Ob_OrderedMap_Has_heap (cfg : MCfg) (k : MKey) (v : Elem) (P : DG r → Prop) (hE : ElemsSpec cfg k v P eb)
    (hk : k.dig 0 < 2^64) (m : OMap r) (s : MHSt r) (depth : Nat) (hd : m.d ≤ depth)
    (hh : MHolds s.heap m.d m.root (some (md_extra m))) (hr : MRouteOk m.d m.root)
    (hP : ∀ sl ∈ MTree.leaves m.d m.root, P sl.elems) :
    OrderedMap_Has (envD T eb rs) depth (md_map m s) (.key k) =
      some (match m.has cfg k with
        | .ok b => (b, none, md_map m s)
        | .error e => (false, some e, md_map m s)) := by
  unfold OrderedMap_Has
  rw [Ob_OrderedMap_get_heap T eb rs cfg k v P hE hk m s depth hd hh hr hP]
  simp only [OMap.has]
  rcases hg : m.get cfg k with e | ⟨k', v'⟩
  · cases e <;> simp [md_rMapGet]
  · simp [md_rMapGet]

end
end Atree.TransEq
