import AtreeProofs.Props.TransDescentGet
import AtreeProofs.Props.TransSafe
import AtreeProofs.ArrayInv
import AtreeProofs.Array.TreeDefs
/-
  TRANSLATION EQUIVALENCE, the DESCENT (WP12), part 2: the routing hypothesis `RouteOk` of the `Get` descent
  (Props/TransDescentGet.lean) follows from the tree invariant, and `Array.Get` at the top level.

  * `RouteOk.of_inv`: for a valid tree (`TreeInv`, a legal slab size, fewer than 2^32 elements) Go's routing agrees with
    the model's at every index slab on the path of EVERY index below 2^64 (inside the array or past its end).
  * `Sl_ArraySlab_Get_heap_inv`: `ArraySlab.Get` over a heap with no hypothesis about the routing.
  * `Sl_Array_Get_heap`, `Sl_Array_Get_heap_inv`: `Array.Get` of the generated code on the handle of a model array.
  * a concrete two-level tree, its heap, `Array.Get` evaluated on it.
  * `heapOf_eq_slabs`, `Holds_heapOf`: the heap of a tree is the slab list of HeapSpec.lean, and it holds the tree.
-/
namespace Atree.TransEq
open Atree Atree.Gen

/-! ## the routing hypothesis from the invariant -/

section
open MetaSlab ATree

/-- Go's `childSlabIndexInfo` on an index past the end: `IndexOutOfBoundsError`, for every `uint64` index (the theorem
    of Props/TransLoops.lean asks for an index below 2^63, which this branch does not need) -/
theorem childSlabIndexInfo_past_end {α : Type} (m : MetaSlab α) (i : Nat) (hi : i < 2^64) (hcnt : m.hdr.count < 2^32)
    (hge : m.hdr.count ≤ i) :
    Trans.ArrayMetaDataSlab_childSlabIndexInfo (u32 m.hdr.count) (u32s m.countSum) (u32s (countsOf m.childHdrs))
      (u64 i) = none := by
  simp only [Trans.ArrayMetaDataSlab_childSlabIndexInfo]
  rw [u32_toUInt64 hcnt, u64_dge hi (by omega)]
  simp [hge]

theorem count_le_sumCounts {d : Nat} (cs : List (ATree d)) (c : ATree d) (hc : c ∈ cs) :
    (hdr d c).count ≤ sumCounts (cs.map (hdr d)) :=
  count_mem_le _ _ (by simp only [countsOf, List.map_map]; exact List.mem_map.2 ⟨c, hc, rfl⟩)

/-- **the routing hypothesis of the `Get` descent holds in every valid tree**, at every `uint64` index: inside the
    array Go's `childSlabIndexInfo` returns the model's child position and adjusted index at every index slab of the
    path (`safe_childSlabIndexInfo`), past the end both report `IndexOutOfBoundsError`. -/
theorem RouteOk.of_inv {T : Nat} (hT : legalThreshold T = true) : ∀ {d : Nat} {top : Bool} (t : ATree d),
    TreeInv T d top t → (ATree.hdr d t).count < 2^32 → ∀ (i : Nat), i < 2^64 → RouteOk d t i
  | 0, top, (t : DataSlab), hinv, hcnt, i, hi => by
    have hinv : DataInv T top t := hinv
    have hcnt : t.hdr.count < 2^32 := hcnt
    have := hinv.count_eq
    exact ⟨hi, by omega⟩
  | d + 1, top, (t : MetaSlab (ATree d)), hinv, hcnt, i, hi => by
    have hcnt : t.hdr.count < 2^32 := hcnt
    obtain ⟨_, hhdrs, hsums, hcount, _, hkids, _⟩ := (hinv : _ ∧ _)
    refine ⟨hhdrs, ?_⟩
    have hpos : ∀ c ∈ t.children, 1 ≤ (hdr d c).count :=
      fun c hc => TreeInv.count_pos hT (hkids c hc)
    rcases Nat.lt_or_ge i t.hdr.count with hlt | hge
    · obtain ⟨A, child, B, hch, h1, h2, hres⟩ := route_spec t ⟨hhdrs, hsums⟩ hcount hpos i hlt
      obtain ⟨k, adj, hres', htr⟩ := safe_childSlabIndexInfo t ⟨hhdrs, hsums⟩ hcount hpos hcnt i hlt
      rw [hres] at hres'
      simp only [Except.ok.injEq, Prod.mk.injEq] at hres'
      obtain ⟨rfl, rfl⟩ := hres'
      rw [hres]
      refine ⟨htr, fun c hc => ?_⟩
      have hck : t.children[A.length]? = some child := by
        rw [hch]; simp
      rw [hck] at hc
      cases hc
      have hmem : child ∈ t.children := by rw [hch]; simp
      have hle := count_le_sumCounts _ _ hmem
      rw [← hhdrs, ← hcount] at hle
      exact RouteOk.of_inv hT child (hkids child hmem) (by omega) _ (by omega)
    · rw [route_err t i hge]
      exact childSlabIndexInfo_past_end t i hi hcnt hge

end

/-- **`ArraySlab.Get` over a heap, no routing hypothesis**: on a heap that holds a valid tree, with a depth argument
    that covers the tree, the generated code returns the model's `ATree.get` - the element or the error - at every
    `uint64` index, and the storage is untouched. -/
theorem Sl_ArraySlab_Get_heap_inv (T : Nat) (hT : legalThreshold T = true) (d : Nat) (top : Bool) (t : ATree d)
    (hinv : TreeInv T d top t) (hcnt : (ATree.hdr d t).count < 2^32) (i : Nat) (hi : i < 2^64) (s : HSt) (depth : Nat)
    (hd : d ≤ depth) (hh : Holds s.heap d t) :
    TransSl.ArraySlab_Get (envH T) (TransSl.ArrayMetaDataSlab_Get (envH T) depth) (trTree d t) s (u64 i) =
      some (match ATree.get d t i with
        | .ok e => (some e, none, s)
        | .error e => (none, some e, s)) :=
  Sl_ArraySlab_Get_heap T d t i s depth hd hh (RouteOk.of_inv hT t hinv hcnt i hi)

/-! ## `Array.Get` -/


/-- **`Array.Get` over a heap**: on the handle of a model array whose tree the heap holds, with a depth argument that
    covers the tree, the generated `Array.Get` returns the model's `Arr.get` - the stored element (`StoredValue` of
    `envH` is the identity, `setCallbackWithChild` does nothing for a stand-alone array) or the error - and the
    handle, storage included, is unchanged. -/
theorem Sl_Array_Get_heap (T : Nat) (a : Arr) (i : Nat) (s : HSt) (depth : Nat) (hd : a.d ≤ depth)
    (hh : Holds s.heap a.d a.root) (hr : RouteOk a.d a.root i) :
    TransSl.Array_Get (envH T) depth (trArrH a s) (u64 i) =
      some (match a.get i with
        | .ok e => (some e, none, trArrH a s)
        | .error e => (none, some e, trArrH a s)) := by
  have h := Sl_ArraySlab_Get_heap T a.d a.root i s depth hd hh hr
  simp only [TransSl.Array_Get, trArrH_root, trArrH_Storage, h, Arr.get]
  cases ATree.get a.d a.root i <;> rfl

/-- `Array.Get` on every valid array (`ArrInv`: `TreeInv` of the root, fewer than 2^32 elements), every `uint64` index -/
theorem Sl_Array_Get_heap_inv (T : Nat) (hT : legalThreshold T = true) (a : Arr) (ctr : Nat) (hinv : ArrInv T a ctr)
    (i : Nat) (hi : i < 2^64) (s : HSt) (depth : Nat) (hd : a.d ≤ depth) (hh : Holds s.heap a.d a.root) :
    TransSl.Array_Get (envH T) depth (trArrH a s) (u64 i) =
      some (match a.get i with
        | .ok e => (some e, none, trArrH a s)
        | .error e => (none, some e, trArrH a s)) := by
  refine Sl_Array_Get_heap T a i s depth hd hh (RouteOk.of_inv hT a.root hinv.tree ?_ i hi)
  have := hinv.count_lt
  simp only [Arr.count, Arr.rootHdr, maxArrayElementCount] at this
  omega

/-- `Array.Count` and `Array.Address` of the handle (they read the root header) -/
theorem Sl_Array_Count_heap (T : Nat) (a : Arr) (s : HSt) :
    TransSl.Array_Count (envH T) (trArrH a s) = some (u32 a.count).toUInt64 := by
  obtain ⟨d, root, ty⟩ := a
  cases d <;> rfl

/-- `Array.Count` as a `uint64` when the count fits `uint32` (`ArrInv.count_lt`) -/
theorem Sl_Array_Count_heap_u64 (T : Nat) (a : Arr) (s : HSt) (hcnt : a.count < 2^32) :
    TransSl.Array_Count (envH T) (trArrH a s) = some (u64 a.count) := by
  rw [Sl_Array_Count_heap, u32_toUInt64 hcnt]

theorem Sl_Array_Address_heap (T : Nat) (a : Arr) (s : HSt) :
    TransSl.Array_Address (envH T) (trArrH a s) = some a.addr := by
  obtain ⟨d, root, ty⟩ := a
  cases d <;> rfl


/-! ## the heap of a tree: `heapOf` is the slab list of HeapSpec.lean, and it holds the tree -/

private theorem alist_find?_append {κ α : Type} [DecidableEq κ] (l1 l2 : AList κ α) (k : κ) :
    AList.find? (l1 ++ l2) k = (AList.find? l1 k).or (AList.find? l2 k) := by
  induction l1 with
  | nil => simp [AList.find?]
  | cons p l ih =>
    obtain ⟨k', v⟩ := p
    simp only [List.cons_append, AList.find?]
    split
    · rfl
    · exact ih

private theorem alist_find?_flatMap {κ α β : Type} [DecidableEq κ] (l : List β) (f : β → AList κ α) (k : κ) :
    AList.find? (l.flatMap f) k = l.findSome? (fun c => AList.find? (f c) k) := by
  induction l with
  | nil => rfl
  | cons x xs ih =>
    rw [List.flatMap_cons, alist_find?_append, ih, List.findSome?_cons]
    cases AList.find? (f x) k <;> rfl

private theorem option_map_findSome? {α β γ : Type} (l : List α) (g : α → Option β) (h : β → γ) :
    (l.findSome? g).map h = l.findSome? (fun c => (g c).map h) := by
  induction l with
  | nil => rfl
  | cons x xs ih =>
    simp only [List.findSome?_cons]
    cases g x with
    | none => simpa using ih
    | some b => rfl

/-- the heap of a model tree is its slab list (HeapSpec.lean), slab by slab as the generated record -/
theorem heapOf_eq_slabs : ∀ (d : Nat) (t : ATree d) (id : SlabID),
    heapOf d t id = (AList.find? (ATree.slabs d t) id).map trASlab
  | 0, (s : DataSlab), id => by
    simp only [heapOf, ATree.slabs, AList.find?]
    by_cases h : id = s.hdr.id
    · subst h; simp [trASlab]
    · have h' : ¬ s.hdr.id = id := fun e => h e.symm
      simp [h, h']
  | d + 1, (m : MetaSlab (ATree d)), id => by
    simp only [heapOf, ATree.slabs, AList.find?]
    by_cases h : id = m.hdr.id
    · subst h; simp [trASlab, trMeta]
    · have h' : ¬ m.hdr.id = id := fun e => h e.symm
      simp only [h, h', if_false]
      rw [alist_find?_flatMap, option_map_findSome?]
      congr 1
      funext c
      exact heapOf_eq_slabs d c id

theorem heapOf_none : ∀ (d : Nat) (t : ATree d) (id : SlabID), id ∉ ATree.slabIds d t → heapOf d t id = none
  | 0, (s : DataSlab), id, h => by
    have : id ≠ s.hdr.id := fun e => h (by rw [e]; exact List.mem_singleton.2 rfl)
    simp [heapOf, this]
  | d + 1, (m : MetaSlab (ATree d)), id, h => by
    have h : id ∉ m.hdr.id :: m.children.flatMap (ATree.slabIds d) := h
    simp only [List.mem_cons, List.mem_flatMap, not_or, not_exists, not_and] at h
    simp only [heapOf, h.1, if_false]
    rw [List.findSome?_eq_none_iff]
    intro c hc
    exact heapOf_none d c id (h.2 c hc)

theorem findSome?_heapOf {d : Nat} (cs : List (ATree d)) (hnd : (cs.flatMap (ATree.slabIds d)).Nodup)
    (c : ATree d) (hc : c ∈ cs) (id : SlabID) (hid : id ∈ ATree.slabIds d c) :
    cs.findSome? (fun c' => heapOf d c' id) = heapOf d c id := by
  induction cs with
  | nil => cases hc
  | cons x xs ih =>
    rw [List.flatMap_cons, List.nodup_append] at hnd
    obtain ⟨_, hxs, hdis⟩ := hnd
    rw [List.findSome?_cons]
    by_cases hx : id ∈ ATree.slabIds d x
    · have hnot : ∀ c' ∈ xs, id ∉ ATree.slabIds d c' := fun c' hc' hin =>
        hdis id hx id (List.mem_flatMap.2 ⟨c', hc', hin⟩) rfl
      have hcx : c = x := by
        rcases List.mem_cons.1 hc with e | e
        · exact e
        · exact absurd hid (hnot c e)
      subst hcx
      cases hh : heapOf d c id with
      | some v => rfl
      | none =>
        simp only
        rw [List.findSome?_eq_none_iff]
        intro c' hc'
        exact heapOf_none d c' id (hnot c' hc')
    · rw [heapOf_none d x id hx]
      have hcx : c ∈ xs := by
        rcases List.mem_cons.1 hc with e | e
        · subst e; exact absurd hid hx
        · exact e
      exact ih hxs hcx

/-- the heap of a tree without repeated identifiers holds the tree -/
theorem Holds_heapOf : ∀ (d : Nat) (t : ATree d), (ATree.slabIds d t).Nodup → Holds (heapOf d t) d t
  | 0, (s : DataSlab), _ => by simp [Holds, heapOf]
  | d + 1, (m : MetaSlab (ATree d)), hnd => by
    have hnd : (m.hdr.id :: m.children.flatMap (ATree.slabIds d)).Nodup := hnd
    rw [List.nodup_cons] at hnd
    obtain ⟨hroot, hkids⟩ := hnd
    refine ⟨by simp [heapOf], fun c hc => ?_⟩
    have hcn : (ATree.slabIds d c).Nodup := by
      obtain ⟨A, B, hAB⟩ := List.append_of_mem hc
      rw [hAB, List.flatMap_append, List.flatMap_cons] at hkids
      exact (List.nodup_append.1 (List.nodup_append.1 hkids).2.1).1
    refine (Holds_heapOf d c hcn).congr (fun id hid => ?_)
    have hne : id ≠ m.hdr.id := fun e => hroot (by rw [← e]; exact List.mem_flatMap.2 ⟨c, hc, hid⟩)
    simp only [heapOf, hne, if_false]
    exact findSome?_heapOf m.children hkids c hc id hid

/-- **`Array.Get` on the heap of a valid array** (no hypothesis left about the storage): the heap is `heapOf` of the
    array's tree, any `Ctx`; `ArrInv` gives the tree invariant, distinct identifiers and the element count. -/
theorem Sl_Array_Get_heapOf (T : Nat) (hT : legalThreshold T = true) (a : Arr) (ctr : Nat) (hinv : ArrInv T a ctr)
    (i : Nat) (hi : i < 2^64) (c : Ctx) (depth : Nat) (hd : a.d ≤ depth) :
    TransSl.Array_Get (envH T) depth (trArrH a ⟨heapOf a.d a.root, c⟩) (u64 i) =
      some (match a.get i with
        | .ok e => (some e, none, trArrH a ⟨heapOf a.d a.root, c⟩)
        | .error e => (none, some e, trArrH a ⟨heapOf a.d a.root, c⟩)) :=
  Sl_Array_Get_heap_inv T hT a ctr hinv i hi ⟨heapOf a.d a.root, c⟩ depth hd (Holds_heapOf a.d a.root hinv.ids.1)

/-! ## non-vacuity: a two-level tree, its heap, `Array.Get` evaluated -/

section
/-- the array whose root is `exMeta` (Props/TransSafe.lean): an index slab over two data slabs of four elements -/
def exRouteArr : Arr := ⟨1, exMeta, 7⟩
/-- its heap: three slabs -/
def exRouteSt (c : Ctx) : HSt := ⟨heapOf 1 exMeta, c⟩

private theorem exMeta_children (c : ATree 0) (hc : c ∈ exMeta.children) : c = exSlab 2 ∨ c = exSlab 3 := by
  have hcs : exMeta.children = [exSlab 2, exSlab 3] := rfl
  rw [hcs] at hc
  rcases List.mem_cons.mp hc with h | h
  · exact Or.inl h
  · exact Or.inr (List.mem_singleton.mp h)

theorem exMeta_holds : Holds (heapOf 1 exMeta) 1 exMeta := by
  refine ⟨by simp [heapOf], fun c hc => ?_⟩
  rcases exMeta_children c hc with rfl | rfl <;> rfl

/-- the same from `Holds_heapOf` -/
example : Holds (heapOf 1 exMeta) 1 exMeta := Holds_heapOf 1 exMeta (by decide)

theorem exMeta_treeInv : TreeInv 256 1 true exMeta := by
  refine ⟨rfl, rfl, rfl, rfl, rfl, ?_, ?_, by decide, by simp, fun _ => by decide⟩
  · intro c hc
    rcases exMeta_children c hc with rfl | rfl
    · exact exSlab_inv 2
    · exact exSlab_inv 3
  · intro c hc
    rcases exMeta_children c hc with rfl | rfl <;> rfl

/-- the generated `Array.Get` EVALUATED on that heap: index 5 is the second element of the second data slab (read
    from the heap through the identifier in the root's header copy); index 8 is past the end -/
example (c : Ctx) : TransSl.Array_Get (envH 256) 1 (trArrH exRouteArr (exRouteSt c)) (u64 5) =
    some (some ⟨50, .val 2⟩, none, trArrH exRouteArr (exRouteSt c)) := by rfl

example (c : Ctx) : TransSl.Array_Get (envH 256) 1 (trArrH exRouteArr (exRouteSt c)) (u64 8) =
    some (none, some .indexOutOfBounds, trArrH exRouteArr (exRouteSt c)) := by rfl

/-- a slab missing from the heap: `SlabNotFoundError` from `getArraySlab` (the model has no such case: `Holds` excludes it) -/
example (c : Ctx) : TransSl.Array_Get (envH 256) 1 (trArrH exRouteArr ⟨fun _ => none, c⟩) (u64 5) =
    some (none, some .slabNotFound, trArrH exRouteArr ⟨fun _ => none, c⟩) := by rfl

/-- the hypotheses of `RouteOk.of_inv` / `Sl_Array_Get_heap` are satisfiable: every `uint64` index on this array -/
example (c : Ctx) (i : Nat) (hi : i < 2^64) :
    TransSl.Array_Get (envH 256) 1 (trArrH exRouteArr (exRouteSt c)) (u64 i) =
      some (match exRouteArr.get i with
        | .ok e => (some e, none, trArrH exRouteArr (exRouteSt c))
        | .error e => (none, some e, trArrH exRouteArr (exRouteSt c))) :=
  Sl_Array_Get_heap 256 exRouteArr i (exRouteSt c) 1 (Nat.le_refl _) exMeta_holds
    (RouteOk.of_inv (T := 256) (d := 1) (top := true) (by decide) exMeta exMeta_treeInv (by decide) i hi)

example : exRouteArr.get 5 = .ok ⟨50, .val 2⟩ := by rfl
end

end Atree.TransEq
