import AtreeProofs.Codec.SlabAll
/-
  C06 / C07 — the error exits of `EncodeSlab` (audit item A2).

  `encodeSlab` (AtreeModel/Codec/Encode.lean) is total: where the Go encoder returns an error its
  bytes are unspecified.  `encodeSlabE` (AtreeModel/Codec/Limits.lean) is `EncodeSlab` with its
  three error exits — an extra-data index above `maxInlinedExtraDataIndex`, a digest level above
  `maxDigestLevel`, a large-value slab whose storable contains an inlined slab.  The trace replayer
  requires `encodeSlabE` to succeed with the implementation's bytes on every `ENC` line and to fail
  with the implementation's error kind on every `ENCERR` line, so "Go errors ⇔ model errors" is tied
  on every slab of the `codec` stream, including the directed programs with 257+ inlined children
  in one slab (T = 8192 / 32768) and with a 9-level digester.
-/
namespace Atree.C07
open Atree Atree.Codec Atree.Gen

/-- When the model's encoder succeeds its bytes are those of `encodeSlab` (the function all the
    round-trip and length theorems are about). -/
theorem encodeSlabE_eq (s : Slab) (b : Bytes) (h : encodeSlabE s = .ok b) : b = encodeSlab s := by
  unfold encodeSlabE at h
  split at h
  · cases h
  · split at h
    · cases h
    · split at h
      · split at h
        · cases h
        · cases h; rfl
      · cases h; rfl

/-- The encoder succeeds exactly when every digest level it looks at is within `maxDigestLevel`, the
    shared inlined-extra-data section has at most 256 entries (indexes 0..255 fit one byte) and a
    large-value slab has none. -/
theorem encodeSlabE_ok_iff (s : Slab) :
    (∃ b, encodeSlabE s = .ok b) ↔
      (s.levelsOK = true ∧ s.xdCount ≤ maxInlinedExtraDataIndex + 1 ∧
        (∀ id x, s = .storableG id x → s.xdCount = 0)) := by
  unfold encodeSlabE
  constructor
  · rintro ⟨b, h⟩
    split at h
    · cases h
    · rename_i hl
      split at h
      · cases h
      · rename_i hx
        refine ⟨by simpa using hl, by omega, ?_⟩
        intro id x hs
        subst hs
        simp only at h
        split at h
        · cases h
        · omega
  · rintro ⟨hl, hx, hs⟩
    rw [if_neg (by simp [hl]), if_neg (by omega)]
    cases s with
    | storableG id x =>
      have := hs id x rfl
      simp only
      rw [if_neg (by omega)]
      exact ⟨_, rfl⟩
    | data _ _ => exact ⟨_, rfl⟩
    | index _ _ => exact ⟨_, rfl⟩
    | storable _ _ => exact ⟨_, rfl⟩
    | adata _ => exact ⟨_, rfl⟩
    | mdata _ => exact ⟨_, rfl⟩
    | mindex _ => exact ⟨_, rfl⟩

/-- More than 256 entries: the encoder refuses (it never writes a truncated index). -/
theorem encodeSlabE_refuses_257 (s : Slab) (h : maxInlinedExtraDataIndex + 1 < s.xdCount) :
    ∀ b, encodeSlabE s ≠ .ok b := by
  intro b hb
  have := (encodeSlabE_ok_iff s).1 ⟨b, hb⟩
  omega

/-- Under the hypotheses of the general theorems (`SlabOKG`) the only error exit left is the digest
    level: `SlabOKG` bounds levels by 24 (what the one-byte head can hold), the Go encoder by
    `maxDigestLevel = 8`. -/
theorem encodeSlabE_of_slabOKG (s : Slab) (ok : SlabOKG s) (hl : s.levelsOK = true) :
    encodeSlabE s = .ok (encodeSlab s) := by
  have hex : ∃ b, encodeSlabE s = .ok b := by
    rw [encodeSlabE_ok_iff]
    refine ⟨hl, ?_, ?_⟩
    · cases s with
      | data _ _ => simp [Slab.xdCount]
      | index _ _ => simp [Slab.xdCount]
      | storable _ _ => simp [Slab.xdCount]
      | mindex _ => simp [Slab.xdCount]
      | mdata m =>
        have h : MapDataOKX m := ok
        simpa [Slab.xdCount, maxInlinedExtraDataIndex] using h.entries
      | adata a =>
        have h : ArrDataOKX a ∨ ArrDataOKWX a := ok
        rcases h with h | h
        · simpa [Slab.xdCount, maxInlinedExtraDataIndex] using h.entries
        · simp [Slab.xdCount, encSts_noInl a.elems [] h.noInl]
      | storableG id x =>
        have h : x.RT ∧ x.noInl ∧ x.isFlat = false ∧ x.vneed ≤ maxNestedLevels := ok
        simp [Slab.xdCount, encSt_noInl x [] h.2.1]
    · intro id x hs
      subst hs
      have h : x.RT ∧ x.noInl ∧ x.isFlat = false ∧ x.vneed ≤ maxNestedLevels := ok
      simp [Slab.xdCount, encSt_noInl x [] h.2.1]
  obtain ⟨b, hb⟩ := hex
  rw [hb, encodeSlabE_eq s b hb]

end Atree.C07
