import AtreeModel.Digester
import AtreeModel.Gen.DigesterConsts
/-
  The digester model's number of levels is the literal the CURRENT source returns from
  `basicDigester.Levels()` (regenerated into `Gen/DigesterConsts.lean` on every check run by the
  extractor patch of INTEGRATION-digester.md).  If the source changes the literal, this stops
  compiling — and with it the claim that `AtreeModel/Digester.lean` (whose `Digest` switch has the
  cases 0 and 1, 2, 3) transcribes the code.
-/
namespace Atree.Dig

theorem levels_eq_extracted : levels = Gen.basicDigester_Levels := by decide

end Atree.Dig
