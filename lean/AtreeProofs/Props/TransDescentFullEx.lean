import AtreeProofs.Props.TransDescentFull
/-
  NON-VACUITY of the FINAL statements of the descent (`Props/TransDescentFull.lean`): a concrete VALID array `exV`
  (slab size 256: min 128, max 384, elements up to 117 bytes inline) that satisfies the whole array invariant `ArrInv`
  (tree, leaf chain ending in `SlabID.undef`, identifiers, standalone, count), and an instance of EVERY final theorem on
  it over its own heap `heapOf exV.d exV.root` with the allocation counter 5: every hypothesis is discharged, the
  statement of `exV_*` is the instantiated conclusion.  (The arrays `exA`..`exC` of `TransDescentExDefs.lean` end their leaf
  chain in `⟨1,0⟩`, which is not `SlabID.undef`: they satisfy `TreeInv` but not `ArrInv`.)
-/
set_option linter.unusedSimpArgs false
set_option linter.unusedVariables false
namespace Atree.TransEq
open Atree Atree.Gen

/-- a leaf `(1,id)` of elements with the given sizes (payloads `base, base+1, ..`) and the given `next` link -/
def exVLeaf (id : Nat) (next : SlabID) (base : Nat) (sizes : List Nat) : DataSlab :=
  { hdr := ⟨⟨1, id⟩, 21 + sizes.sum, sizes.length⟩, next := next,
    elems := sizes.mapIdx (fun i sz => ⟨sz, .val (base + i)⟩), root := false, inlined := false }

/-- a root index slab `(1,1)` over three leaves: `(1,2)` 4 x 60 bytes -> `(1,3)` 2 x 60 -> `(1,4)` 2 x 60 -> undef -/
def exV : Arr :=
  ⟨1, exRoot [exVLeaf 2 ⟨1, 3⟩ 0 [60, 60, 60, 60], exVLeaf 3 ⟨1, 4⟩ 10 [60, 60], exVLeaf 4 SlabID.undef 20 [60, 60]], 7⟩

/-- the storage that holds exactly `exV`, allocation counter 5, no effects yet -/
def exVSt : HSt := ⟨heapOf exV.d exV.root, ⟨5, [], []⟩⟩

theorem exV_leafInv (id : Nat) (next : SlabID) (base : Nat) (sizes : List Nat)
    (h1 : (exVLeaf id next base sizes).elems.all
      (fun e => decide (1 ≤ e.size) && decide (e.size ≤ maxInlineArr 256)) = true)
    (h2 : (exVLeaf id next base sizes).hdr.size = 21 + sumSizes (exVLeaf id next base sizes).elems)
    (h3 : (exVLeaf id next base sizes).hdr.size ≤ maxThr 256)
    (h4 : minThr 256 ≤ (exVLeaf id next base sizes).hdr.size) :
    DataInv 256 false (exVLeaf id next base sizes) :=
  ⟨by simp [exVLeaf], h2, exTopIns_elemsOk _ h1, rfl, (fun h => by cases h), h3, fun _ => h4⟩

theorem exV_kids (c : ATree 0) (hc : c ∈ (exV.root : MetaSlab (ATree 0)).children) :
    c = exVLeaf 2 ⟨1, 3⟩ 0 [60, 60, 60, 60] ∨ c = exVLeaf 3 ⟨1, 4⟩ 10 [60, 60] ∨
      c = exVLeaf 4 SlabID.undef 20 [60, 60] := by
  have h : (exV.root : MetaSlab (ATree 0)).children =
      [exVLeaf 2 ⟨1, 3⟩ 0 [60, 60, 60, 60], exVLeaf 3 ⟨1, 4⟩ 10 [60, 60], exVLeaf 4 SlabID.undef 20 [60, 60]] := rfl
  rw [h] at hc
  rcases List.mem_cons.mp hc with h | hc
  · exact Or.inl h
  · rcases List.mem_cons.mp hc with h | hc
    · exact Or.inr (Or.inl h)
    · exact Or.inr (Or.inr (List.mem_singleton.mp hc))

theorem exV_tree : TreeInv 256 1 true exV.root := by
  refine ⟨rfl, rfl, rfl, rfl, rfl, ?_, ?_, by decide, by simp, fun _ => by decide⟩
  · intro c hc
    rcases exV_kids c hc with rfl | rfl | rfl
    · exact exV_leafInv _ _ _ _ rfl rfl (by decide) (by decide)
    · exact exV_leafInv _ _ _ _ rfl rfl (by decide) (by decide)
    · exact exV_leafInv _ _ _ _ rfl rfl (by decide) (by decide)
  · intro c hc
    rcases exV_kids c hc with rfl | rfl | rfl <;> rfl

theorem exV_slabIds : ATree.slabIds exV.d exV.root = [⟨1, 1⟩, ⟨1, 2⟩, ⟨1, 3⟩, ⟨1, 4⟩] := rfl

theorem exV_ids : IdsOk exV.addr 5 (ATree.slabIds exV.d exV.root) := by
  refine ⟨by decide, ?_⟩
  intro id hid
  rw [exV_slabIds] at hid
  simp only [List.mem_cons, List.not_mem_nil, or_false] at hid
  rcases hid with rfl | rfl | rfl | rfl <;> decide

/-- the leaf chain: `(1,2) -> (1,3) -> (1,4) -> undef` -/
theorem exV_chain : LeafChain (Arr.leaves exV.d exV.root) := by
  show LeafChain [exVLeaf 2 ⟨1, 3⟩ 0 [60, 60, 60, 60], exVLeaf 3 ⟨1, 4⟩ 10 [60, 60], exVLeaf 4 SlabID.undef 20 [60, 60]]
  exact ⟨rfl, rfl, rfl⟩

/-- **`exV` is a valid array** (all five fields of the array invariant), allocation counter 5 -/
theorem exV_inv : ArrInv 256 exV 5 :=
  ⟨exV_tree, exV_chain, exV_ids, rfl, by decide⟩

theorem exV_holds : Holds exVSt.heap exV.d exV.root := Holds_heapOf exV.d exV.root exV_inv.ids.1
theorem exV_freshFree : FreshFree exV.addr exVSt := FreshFree_heapOf 256 exV ⟨5, [], []⟩ exV_inv
theorem exV_toList : exV.toList = [⟨60, .val 0⟩, ⟨60, .val 1⟩, ⟨60, .val 2⟩, ⟨60, .val 3⟩, ⟨60, .val 10⟩,
    ⟨60, .val 11⟩, ⟨60, .val 20⟩, ⟨60, .val 21⟩] := rfl

/-! ## `Array.remove` -/

/-- **instance of `Sl_Array_remove_heap_full`** (every hypothesis discharged): remove index 4, the first element of the
    middle leaf `(1,3)`; it underflows (81 < 128) and the left sibling `(1,2)` lends -/
theorem exV_remove_full : ∃ a' s',
    TransSl.Array_remove (envH 256) 1 (trArrH exV exVSt) (u64 4) =
      some (some (exV.toList.getD 4 default), none, trArrH a' s') ∧
    exV.remove 256 4 exVSt.ctx = .ok (exV.toList.getD 4 default, a', s'.ctx) ∧
    HeapPost exVSt.heap s'.heap exV.root a'.root ∧
    (∀ id ∈ ATree.slabIds a'.d a'.root, id ∈ ATree.slabIds exV.d exV.root) ∧
    a'.d ≤ exV.d ∧ ArrInv 256 a' s'.ctx.ctr ∧ a'.toList = exV.toList.eraseIdx 4 ∧ a'.rootID = exV.rootID ∧
    a'.ty = exV.ty :=
  (Sl_Array_remove_heap_full 256 (by decide) exV 4 exVSt 1 (Nat.le_refl _) exV_inv (by decide) exV_holds).1
    (by rw [exV_toList]; decide)

/-- … past the end: `IndexOutOfBoundsError`, nothing touched -/
theorem exV_remove_full_oob :
    TransSl.Array_remove (envH 256) 1 (trArrH exV exVSt) (u64 8) =
      some (none, some .indexOutOfBounds, trArrH exV exVSt) :=
  (Sl_Array_remove_heap_full 256 (by decide) exV 8 exVSt 1 (Nat.le_refl _) exV_inv (by decide) exV_holds).2
    (by rw [exV_toList]; decide)

/-- … what the model does there: the element `val 10` is removed, the depth stays 1, the effects are: store the
    underflowing leaf, the lender, the borrower, the parent (rebalance), the parent again (`remove`) -/
example : (exV.remove 256 4 exVSt.ctx).toOption.map (fun r => (r.1, r.2.1.d, r.2.2.eff)) =
    some (⟨60, .val 10⟩, 1, [.store ⟨1, 3⟩, .store ⟨1, 2⟩, .store ⟨1, 3⟩, .store ⟨1, 1⟩, .store ⟨1, 1⟩]) := by rfl

/-! ## `Array.set` -/

/-- **instance of `Sl_Array_set_heap_full`**: overwrite index 5 (leaf `(1,3)`) with a 70-byte value: plain store -/
theorem exV_set_full :
    match exV.set 256 5 ⟨70, .val 99⟩ exVSt.ctx with
    | .ok (old, a', c') => ∃ s', TransSl.Array_set (envH 256) 1 (trArrH exV exVSt) (u64 5) (some ⟨70, .val 99⟩) =
          some (some old, none, trArrH a' s') ∧ s'.ctx = c' ∧ HeapPost exVSt.heap s'.heap exV.root a'.root
    | .error e => e = .indexOutOfBounds ∧
        TransSl.Array_set (envH 256) 1 (trArrH exV exVSt) (u64 5) (some ⟨70, .val 99⟩) =
          some (none, some .indexOutOfBounds, trArrH exV exVSt) :=
  Sl_Array_set_heap_full 256 (by decide) exV 5 ⟨70, .val 99⟩ exVSt 1 (Nat.le_refl _) exV_inv exV_freshFree
    ⟨by decide, 99, rfl⟩ exV_holds (by decide)

/-- **instance of `Sl_Array_set_heap_full_ok`** (the chaining form: the `.ok` branch is taken, the result
    re-establishes every hypothesis) -/
theorem exV_set_full_ok : ∃ a' c' s',
    exV.set 256 5 ⟨70, .val 99⟩ exVSt.ctx = .ok (exV.toList.getD 5 default, a', c') ∧
    TransSl.Array_set (envH 256) 1 (trArrH exV exVSt) (u64 5) (some ⟨70, .val 99⟩) =
      some (some (exV.toList.getD 5 default), none, trArrH a' s') ∧ s'.ctx = c' ∧
    HeapPost exVSt.heap s'.heap exV.root a'.root ∧
    ArrInv 256 a' s'.ctx.ctr ∧ a'.addr = exV.addr ∧ FreshFree a'.addr s' ∧ Holds s'.heap a'.d a'.root ∧
    a'.toList = exV.toList.set 5 (toStorable 256 exV.addr ⟨70, .val 99⟩ exVSt.ctx).1 :=
  Sl_Array_set_heap_full_ok 256 (by decide) exV 5 ⟨70, .val 99⟩ exVSt 1 (Nat.le_refl _) exV_inv exV_freshFree
    ⟨by decide, 99, rfl⟩ exV_holds (by decide)

example : (exV.set 256 5 ⟨70, .val 99⟩ exVSt.ctx).toOption.map (fun r => (r.1, r.2.1.d, r.2.1.toList, r.2.2.eff)) =
    some (⟨60, .val 11⟩, 1, [⟨60, .val 0⟩, ⟨60, .val 1⟩, ⟨60, .val 2⟩, ⟨60, .val 3⟩, ⟨60, .val 10⟩,
      ⟨70, .val 99⟩, ⟨60, .val 20⟩, ⟨60, .val 21⟩], [.store ⟨1, 3⟩, .store ⟨1, 1⟩]) := by rfl

/-- … past the end: the `.error` branch of the same theorem -/
theorem exV_set_full_oob :
    TransSl.Array_set (envH 256) 1 (trArrH exV exVSt) (u64 8) (some ⟨70, .val 99⟩) =
      some (none, some .indexOutOfBounds, trArrH exV exVSt) := by
  have h := Sl_Array_set_heap_full 256 (by decide) exV 8 ⟨70, .val 99⟩ exVSt 1 (Nat.le_refl _) exV_inv exV_freshFree
    ⟨by decide, 99, rfl⟩ exV_holds (by decide)
  have he : exV.set 256 8 ⟨70, .val 99⟩ exVSt.ctx = .error .indexOutOfBounds := rfl
  rw [he] at h
  exact h.2

/-! ## `Array.Insert`, `Array.Append` -/

/-- **instance of `Sl_Array_Insert_heapOf`**: insert a 100-byte value at index 1 (leaf `(1,2)`: 261 -> 361 bytes) on
    the array's own heap -/
theorem exV_insert_heapOf : ∃ a' c' s',
    exV.insert 256 1 ⟨100, .val 99⟩ ⟨5, [], []⟩ = .ok (a', c') ∧
    TransSl.Array_Insert (envH 256) 1 (trArrH exV ⟨heapOf exV.d exV.root, ⟨5, [], []⟩⟩) (u64 1)
      (some ⟨100, .val 99⟩) = some (none, trArrH a' s') ∧ s'.ctx = c' ∧
    ∀ id, s'.heap id = heapOf a'.d a'.root id :=
  Sl_Array_Insert_heapOf 256 (by decide) exV 1 ⟨100, .val 99⟩ ⟨5, [], []⟩ 1 (Nat.le_refl _) exV_inv
    ⟨by decide, 99, rfl⟩ (by rw [exV_toList]; decide) (by decide)

/-- **instance of `Sl_Array_Insert_heap_full`** -/
theorem exV_insert_full :
    match exV.insert 256 1 ⟨100, .val 99⟩ exVSt.ctx with
    | .ok (a', c') => ∃ s', TransSl.Array_Insert (envH 256) 1 (trArrH exV exVSt) (u64 1) (some ⟨100, .val 99⟩) =
          some (none, trArrH a' s') ∧ s'.ctx = c' ∧ HeapPost exVSt.heap s'.heap exV.root a'.root
    | .error .indexOutOfBounds =>
        TransSl.Array_Insert (envH 256) 1 (trArrH exV exVSt) (u64 1) (some ⟨100, .val 99⟩) =
          some (some .indexOutOfBounds, trArrH exV exVSt)
    | .error .maxElementCount =>
        TransSl.Array_Insert (envH 256) 1 (trArrH exV exVSt) (u64 1) (some ⟨100, .val 99⟩) =
          some (some .maxElementCount, trArrH exV exVSt)
    | .error _ => True :=
  Sl_Array_Insert_heap_full 256 (by decide) exV 1 ⟨100, .val 99⟩ exVSt 1 (Nat.le_refl _) exV_inv
    ⟨by decide, 99, rfl⟩ exV_holds (by decide)

example : (exV.insert 256 1 ⟨100, .val 99⟩ exVSt.ctx).toOption.map (fun r => (r.1.d, r.1.count, r.2.eff)) =
    some (1, 9, [.store ⟨1, 2⟩, .store ⟨1, 1⟩]) := by rfl

/-- **instance of `Sl_Array_Append_heap_full`**: append a 70-byte value (last leaf `(1,4)`) -/
theorem exV_append_full : ∃ a' c' s',
    exV.append 256 ⟨70, .val 99⟩ exVSt.ctx = .ok (a', c') ∧
    TransSl.Array_Append (envH 256) 1 (trArrH exV exVSt) (some ⟨70, .val 99⟩) = some (none, trArrH a' s') ∧
    s'.ctx = c' ∧ HeapPost exVSt.heap s'.heap exV.root a'.root :=
  Sl_Array_Append_heap_full 256 (by decide) exV ⟨70, .val 99⟩ exVSt 1 (Nat.le_refl _) exV_inv (by decide)
    ⟨by decide, 99, rfl⟩ exV_holds

example : (exV.append 256 ⟨70, .val 99⟩ exVSt.ctx).toOption.map (fun r => (r.1.d, r.1.count, r.2.eff)) =
    some (1, 9, [.store ⟨1, 4⟩, .store ⟨1, 1⟩]) := by rfl

/-! ## restructuring instances: a leaf split (`exW`), a merge with promotion of the single child to root (`exX`) -/

/-- a root index slab over valid leaves of address 1 is a valid tree of depth 1 -/
theorem exV_rootInv (kids : List DataSlab) (hk : ∀ c ∈ kids, DataInv 256 false c ∧ c.hdr.id.addr = 1)
    (hlen : 2 ≤ kids.length) (hsz : kids.length ≤ 26) : TreeInv 256 1 true (exRoot kids) := by
  refine ⟨rfl, rfl, rfl, rfl, rfl, fun c hc => (hk c hc).1, fun c hc => (hk c hc).2, ?_, by simp, fun _ => hlen⟩
  show 12 + 14 * kids.length ≤ maxThr 256
  have : maxThr 256 = 384 := rfl
  omega

/-- two leaves `(1,2)` 100 + 100 + 100 + 60 (381 bytes: one step from full) -> `(1,3)` 2 x 60 -> undef -/
def exW : Arr := ⟨1, exRoot [exVLeaf 2 ⟨1, 3⟩ 0 [100, 100, 100, 60], exVLeaf 3 SlabID.undef 10 [60, 60]], 7⟩
/-- two minimal leaves `(1,2)` 2 x 60 -> `(1,3)` 2 x 60 -> undef (neither can lend) -/
def exX : Arr := ⟨1, exRoot [exVLeaf 2 ⟨1, 3⟩ 0 [60, 60], exVLeaf 3 SlabID.undef 10 [60, 60]], 7⟩
def exWSt : HSt := ⟨heapOf exW.d exW.root, ⟨5, [], []⟩⟩
def exXSt : HSt := ⟨heapOf exX.d exX.root, ⟨5, [], []⟩⟩

theorem exW_inv : ArrInv 256 exW 5 := by
  refine ⟨exV_rootInv _ ?_ (by decide) (by decide), ?_, ⟨by decide, ?_⟩, rfl, by decide⟩
  · intro c hc
    simp only [List.mem_cons, List.not_mem_nil, or_false] at hc
    rcases hc with rfl | rfl
    · exact ⟨exV_leafInv _ _ _ _ rfl rfl (by decide) (by decide), rfl⟩
    · exact ⟨exV_leafInv _ _ _ _ rfl rfl (by decide) (by decide), rfl⟩
  · show LeafChain [exVLeaf 2 ⟨1, 3⟩ 0 [100, 100, 100, 60], exVLeaf 3 SlabID.undef 10 [60, 60]]
    exact ⟨rfl, rfl⟩
  · intro id hid
    have h : ATree.slabIds exW.d exW.root = [⟨1, 1⟩, ⟨1, 2⟩, ⟨1, 3⟩] := rfl
    rw [h] at hid
    simp only [List.mem_cons, List.not_mem_nil, or_false] at hid
    rcases hid with rfl | rfl | rfl <;> decide

theorem exX_inv : ArrInv 256 exX 5 := by
  refine ⟨exV_rootInv _ ?_ (by decide) (by decide), ?_, ⟨by decide, ?_⟩, rfl, by decide⟩
  · intro c hc
    simp only [List.mem_cons, List.not_mem_nil, or_false] at hc
    rcases hc with rfl | rfl
    · exact ⟨exV_leafInv _ _ _ _ rfl rfl (by decide) (by decide), rfl⟩
    · exact ⟨exV_leafInv _ _ _ _ rfl rfl (by decide) (by decide), rfl⟩
  · show LeafChain [exVLeaf 2 ⟨1, 3⟩ 0 [60, 60], exVLeaf 3 SlabID.undef 10 [60, 60]]
    exact ⟨rfl, rfl⟩
  · intro id hid
    have h : ATree.slabIds exX.d exX.root = [⟨1, 1⟩, ⟨1, 2⟩, ⟨1, 3⟩] := rfl
    rw [h] at hid
    simp only [List.mem_cons, List.not_mem_nil, or_false] at hid
    rcases hid with rfl | rfl | rfl <;> decide

theorem exW_holds : Holds exWSt.heap exW.d exW.root := Holds_heapOf exW.d exW.root exW_inv.ids.1
theorem exX_holds : Holds exXSt.heap exX.d exX.root := Holds_heapOf exX.d exX.root exX_inv.ids.1

/-- **instance of `Sl_Array_set_heap_full_ok` with a LEAF SPLIT**: overwriting the 60-byte element at index 3 of `exW`
    by a 117-byte value makes the leaf `(1,2)` full (438 > 384): it is split, the new leaf gets the identifier `(1,6)` -/
theorem exW_set_full_split : ∃ a' c' s',
    exW.set 256 3 ⟨117, .val 99⟩ exWSt.ctx = .ok (exW.toList.getD 3 default, a', c') ∧
    TransSl.Array_set (envH 256) 1 (trArrH exW exWSt) (u64 3) (some ⟨117, .val 99⟩) =
      some (some (exW.toList.getD 3 default), none, trArrH a' s') ∧ s'.ctx = c' ∧
    HeapPost exWSt.heap s'.heap exW.root a'.root ∧
    ArrInv 256 a' s'.ctx.ctr ∧ a'.addr = exW.addr ∧ FreshFree a'.addr s' ∧ Holds s'.heap a'.d a'.root ∧
    a'.toList = exW.toList.set 3 (toStorable 256 exW.addr ⟨117, .val 99⟩ exWSt.ctx).1 :=
  Sl_Array_set_heap_full_ok 256 (by decide) exW 3 ⟨117, .val 99⟩ exWSt 1 (Nat.le_refl _) exW_inv
    (FreshFree_heapOf 256 exW ⟨5, [], []⟩ exW_inv) ⟨by decide, 99, rfl⟩ exW_holds (by decide)

example : (exW.set 256 3 ⟨117, .val 99⟩ exWSt.ctx).toOption.map (fun r => (r.1, r.2.1.d, r.2.2.ctr, r.2.2.eff)) =
    some (⟨60, .val 3⟩, 1, 6,
      [.store ⟨1, 2⟩, .alloc 1 ⟨1, 6⟩, .store ⟨1, 2⟩, .store ⟨1, 6⟩, .store ⟨1, 1⟩]) := by rfl

/-- **instance of `Sl_Array_Insert_heapOf` with a LEAF SPLIT** (100 bytes into the 381-byte leaf) -/
theorem exW_insert_heapOf_split : ∃ a' c' s',
    exW.insert 256 1 ⟨100, .val 99⟩ ⟨5, [], []⟩ = .ok (a', c') ∧
    TransSl.Array_Insert (envH 256) 1 (trArrH exW ⟨heapOf exW.d exW.root, ⟨5, [], []⟩⟩) (u64 1)
      (some ⟨100, .val 99⟩) = some (none, trArrH a' s') ∧ s'.ctx = c' ∧
    ∀ id, s'.heap id = heapOf a'.d a'.root id :=
  Sl_Array_Insert_heapOf 256 (by decide) exW 1 ⟨100, .val 99⟩ ⟨5, [], []⟩ 1 (Nat.le_refl _) exW_inv
    ⟨by decide, 99, rfl⟩ (by decide) (by decide)

example : (exW.insert 256 1 ⟨100, .val 99⟩ exWSt.ctx).toOption.map (fun r => (r.1.d, r.1.count, r.2.ctr, r.2.eff)) =
    some (1, 7, 6, [.store ⟨1, 2⟩, .alloc 1 ⟨1, 6⟩, .store ⟨1, 2⟩, .store ⟨1, 6⟩, .store ⟨1, 1⟩]) := by rfl

/-- **instance of `Sl_Array_remove_heap_full` with a MERGE and the PROMOTION of the single child**: removing index 0 of
    `exX` makes `(1,2)` underflow, `(1,3)` cannot lend: they merge, the root is left with one child, which becomes the
    root data slab `(1,1)` (depth 1 -> 0) -/
theorem exX_remove_full_promote : ∃ a' s',
    TransSl.Array_remove (envH 256) 1 (trArrH exX exXSt) (u64 0) =
      some (some (exX.toList.getD 0 default), none, trArrH a' s') ∧
    exX.remove 256 0 exXSt.ctx = .ok (exX.toList.getD 0 default, a', s'.ctx) ∧
    HeapPost exXSt.heap s'.heap exX.root a'.root ∧
    (∀ id ∈ ATree.slabIds a'.d a'.root, id ∈ ATree.slabIds exX.d exX.root) ∧
    a'.d ≤ exX.d ∧ ArrInv 256 a' s'.ctx.ctr ∧ a'.toList = exX.toList.eraseIdx 0 ∧ a'.rootID = exX.rootID ∧
    a'.ty = exX.ty :=
  (Sl_Array_remove_heap_full 256 (by decide) exX 0 exXSt 1 (Nat.le_refl _) exX_inv (by decide) exX_holds).1
    (by decide)

example : (exX.remove 256 0 exXSt.ctx).toOption.map (fun r => (r.1, r.2.1.d, r.2.1.count, r.2.2.eff)) =
    some (⟨60, .val 0⟩, 0, 3, [.store ⟨1, 2⟩, .store ⟨1, 2⟩, .store ⟨1, 1⟩, .remove ⟨1, 3⟩, .store ⟨1, 1⟩,
      .store ⟨1, 1⟩, .remove ⟨1, 2⟩]) := by rfl

/-- **instance of `Sl_Array_set_heap_full_ok` with a MERGE and PROMOTION** (a 1-byte value makes `(1,2)` underflow) -/
theorem exX_set_full_promote : ∃ a' c' s',
    exX.set 256 0 ⟨1, .val 99⟩ exXSt.ctx = .ok (exX.toList.getD 0 default, a', c') ∧
    TransSl.Array_set (envH 256) 1 (trArrH exX exXSt) (u64 0) (some ⟨1, .val 99⟩) =
      some (some (exX.toList.getD 0 default), none, trArrH a' s') ∧ s'.ctx = c' ∧
    HeapPost exXSt.heap s'.heap exX.root a'.root ∧
    ArrInv 256 a' s'.ctx.ctr ∧ a'.addr = exX.addr ∧ FreshFree a'.addr s' ∧ Holds s'.heap a'.d a'.root ∧
    a'.toList = exX.toList.set 0 (toStorable 256 exX.addr ⟨1, .val 99⟩ exXSt.ctx).1 :=
  Sl_Array_set_heap_full_ok 256 (by decide) exX 0 ⟨1, .val 99⟩ exXSt 1 (Nat.le_refl _) exX_inv
    (FreshFree_heapOf 256 exX ⟨5, [], []⟩ exX_inv) ⟨by decide, 99, rfl⟩ exX_holds (by decide)

example : (exX.set 256 0 ⟨1, .val 99⟩ exXSt.ctx).toOption.map (fun r => (r.1, r.2.1.d, r.2.1.count, r.2.2.eff)) =
    some (⟨60, .val 0⟩, 0, 4, [.store ⟨1, 2⟩, .store ⟨1, 2⟩, .store ⟨1, 1⟩, .remove ⟨1, 3⟩, .store ⟨1, 1⟩,
      .remove ⟨1, 2⟩]) := by rfl

end Atree.TransEq
