import AtreeProofs.Props.C09W
import AtreeProofs.Props.C10WPopOps
/-
  C09 AT WORLD LEVEL, HISTORIES: along ANY history of World operations from the empty world, issued
  through current handles (`HandleOk`, the `HandlesCurrent` hypothesis of C10) with valid values
  (`WValOk`, `KeyOk`), the set of slab IDs in storage — the IDs whose last event in the whole effect
  log is a store — is exactly the heap of the world (plus the large-value slabs created, of which
  the World operations create none under `WValOk`; the model keeps the list `created` anyway).
  PROPERTY THEOREMS.
-/
namespace Atree.C09W
open Atree Gen World
open Atree.C09 (newEffects newCreated)

/-- a history of World operations from the empty world (`ctx` = the context threaded through:
    allocation counter, the WHOLE effect log, the large-value slabs created) -/
inductive Hist (D : SlabID → DigestFn 4) : World → Ctx → Prop
  | new (T addr : Nat) (hT : legalThreshold T = true) : Hist D { T := T, addr := addr } ⟨0, [], []⟩
  | newArr {w cx} (ty : Nat) : Hist D w cx → Hist D (w.newArr ty cx).2.1 (w.newArr ty cx).2.2
  | newMap {w cx} (ty seed : Nat) : Hist D w cx → Hist D (w.newMap ty seed cx).2.1 (w.newMap ty seed cx).2.2
  | arrInsert {w cx p i v w' cx'} : Hist D w cx → HandleOk w p → WValOk w p (maxInlineArr w.T) v →
      w.arrInsert p i v cx = .ok (w', cx') → Hist D w' cx'
  | arrSet {w cx p i v old w' cx'} : Hist D w cx → HandleOk w p → WValOk w p (maxInlineArr w.T) v →
      w.arrSet p i v cx = .ok (old, w', cx') → Hist D w' cx'
  | arrRemove {w cx p i old w' cx'} : Hist D w cx → HandleOk w p →
      w.arrRemove p i cx = .ok (old, w', cx') → Hist D w' cx'
  | mapSet {w cx p k v old w' cx'} : Hist D w cx → HandleOk w p → KeyOk w.T 4 (D p) k →
      WValOk w p (maxInlineMapValue w.T k.size) v → w.mapSet p k v cx = .ok (old, w', cx') → Hist D w' cx'
  | mapRemove {w cx p k rk rv w' cx'} : Hist D w cx → HandleOk w p → KeyOk w.T 4 (D p) k →
      w.mapRemove p k cx = .ok (rk, rv, w', cx') → Hist D w' cx'
  | setType {w cx p ty w' cx'} : Hist D w cx → HandleOk w p → w.setType p ty cx = .ok (w', cx') → Hist D w' cx'
  | arrGet {w cx p i el w'} : Hist D w cx → HandleOk w p → w.arrGet p i = .ok (el, w') → Hist D w' cx
  | mapGet {w cx p k el w'} : Hist D w cx → HandleOk w p → KeyOk w.T 4 (D p) k →
      w.mapGet p k = .ok (el, w') → Hist D w' cx
  | reopen {w cx} : Hist D w cx → Hist D w.reopen cx

/-- the slab IDs in storage after the log `E` was run from an empty storage -/
def Stored (E : List Eff) (id : SlabID) : Prop := lastAction E id = some true

/-- storage = heap (+ large-value slabs) -/
def HeapExact (w : World) (cx : Ctx) : Prop :=
  (∀ id, id ∈ w.heapIds → Stored cx.eff id) ∧
  (∀ id, Stored cx.eff id → id ∈ w.heapIds ∨ id ∈ cx.created.map (·.1))

theorem heapExact_step {w w' : World} {cx cx' : Ctx} (hp : Post w cx w' cx') (h : HeapExact w cx) :
    HeapExact w' cx' := by
  obtain ⟨E, C, hlog, hacct, _, _⟩ := hp
  obtain ⟨h1, h2⟩ := h
  unfold HeapExact Stored at *
  rw [hlog.eff, hlog.created]
  constructor
  · intro id hid
    rw [mem_heapIds_iff, inHeap_iff] at hid
    obtain ⟨s, hs⟩ := hid
    rcases hacct.kept id s hs with h3 | h3
    · have h4 := h1 id ((mem_heapIds_iff w id).2 h3.inHeap)
      cases hl : lastAction E id with
      | none => rw [lastAction_append_none hl]; exact h4
      | some b =>
        cases b with
        | true => exact lastAction_append_some hl
        | false => exact absurd hs.inHeap (hacct.removed id hl)
    · exact lastAction_append_some h3
  · intro id hid
    cases hl : lastAction E id with
    | none =>
      rw [lastAction_append_none hl] at hid
      rcases h2 id hid with h3 | h3
      · by_cases h4 : w'.InHeap id
        · exact Or.inl ((mem_heapIds_iff w' id).2 h4)
        · have := hacct.gone id ((mem_heapIds_iff w id).1 h3) h4
          rw [hl] at this; cases this
      · right; rw [List.map_append]; exact List.mem_append.2 (Or.inl h3)
    | some b =>
      rw [lastAction_append_some hl] at hid
      cases hid
      rcases hacct.stored id hl with h3 | h3
      · exact Or.inl ((mem_heapIds_iff w' id).2 h3)
      · right; rw [List.map_append]; exact List.mem_append.2 (Or.inr h3)

theorem heapExact_congr {w w' : World} {cx : Ctx} (hc : ∀ z, w'.cont? z = w.cont? z) (h : HeapExact w cx) :
    HeapExact w' cx := by
  unfold HeapExact at *
  simp only [mem_heapIds_iff, inHeap_congr hc]
  simpa only [mem_heapIds_iff] using h

/-- WORLD HEAP EXACT.  Along any history from the empty world: the global invariant `WorldOk'`, the
    ownership invariant `HeapOk`, and storage = heap. -/
theorem world_heap_exact (D : SlabID → DigestFn 4) (w : World) (cx : Ctx) (h : Hist D w cx) :
    WorldOk' D w cx.ctr ∧ HeapOk w cx.ctr ∧ HeapExact w cx := by
  induction h with
  | new T addr hT =>
    refine ⟨C10W.worldOk'_new D T addr 0 hT, heapOk_new T addr 0, ?_, ?_⟩
    · intro id hid
      rw [mem_heapIds_iff] at hid
      obtain ⟨x, c, hx, _⟩ := hid
      cases hx
    · intro id hid; cases hid
  | newArr ty _ ih =>
    obtain ⟨H, Hh, He⟩ := ih
    obtain ⟨rank, H0⟩ := H
    have hp := newArr_heap (ty := ty) (HInv.of_pk H0) Hh
    exact ⟨(C10W.worldOk'_newArr D _ ty _ ⟨rank, H0⟩).1, hp.heapOk, heapExact_step hp He⟩
  | newMap ty seed _ ih =>
    obtain ⟨H, Hh, He⟩ := ih
    obtain ⟨rank, H0⟩ := H
    have hp := newMap_heap (ty := ty) (seed := seed) (HInv.of_pk H0) Hh
    exact ⟨(C10W.worldOk'_newMap D _ ty seed _ ⟨rank, H0⟩).1, hp.heapOk, heapExact_step hp He⟩
  | arrInsert _ hh hv hr ih =>
    obtain ⟨H, Hh, He⟩ := ih
    have H' := (C10W.worldOk'_arrInsert D _ _ _ _ _ _ _ H hh hv hr).1
    obtain ⟨rank, H0⟩ := H
    obtain ⟨rank', hrk, hv'⟩ := wvalH_of_ok H0 hv
    have hp := arrInsert_heap ((HInv.of_pk H0).with_rank hrk) Hh hv' hr
    exact ⟨H', hp.heapOk, heapExact_step hp He⟩
  | arrSet _ hh hv hr ih =>
    obtain ⟨H, Hh, He⟩ := ih
    have H' := (C10W.worldOk'_arrSet D _ _ _ _ _ _ _ _ H hh hv hr).1
    obtain ⟨rank, H0⟩ := H
    obtain ⟨rank', hrk, hv'⟩ := wvalH_of_ok H0 hv
    have hp := arrSet_heap ((HInv.of_pk H0).with_rank hrk) Hh hv' hr
    exact ⟨H', hp.heapOk, heapExact_step hp He⟩
  | arrRemove _ hh hr ih =>
    obtain ⟨H, Hh, He⟩ := ih
    have H' := (C10W.worldOk'_arrRemove D _ _ _ _ _ _ _ H hh hr).1
    obtain ⟨rank, H0⟩ := H
    have hp := arrRemove_heap (HInv.of_pk H0) Hh hr
    exact ⟨H', hp.heapOk, heapExact_step hp He⟩
  | mapSet _ hh hk hv hr ih =>
    obtain ⟨H, Hh, He⟩ := ih
    have H' := (C10W.worldOk'_mapSet D _ _ _ _ _ _ _ _ H hh hk hv hr).1
    obtain ⟨rank, H0⟩ := H
    obtain ⟨rank', hrk, hv'⟩ := wvalH_of_ok H0 hv
    have hp := mapSet_heap ((HInv.of_pk H0).with_rank hrk) Hh hk hv' hr
    exact ⟨H', hp.heapOk, heapExact_step hp He⟩
  | mapRemove _ hh hk hr ih =>
    obtain ⟨H, Hh, He⟩ := ih
    have H' := (C10W.worldOk'_mapRemove D _ _ _ _ _ _ _ _ H hh hk hr).1
    obtain ⟨rank, H0⟩ := H
    have hp := mapRemove_heap (HInv.of_pk H0) Hh hk hr
    exact ⟨H', hp.heapOk, heapExact_step hp He⟩
  | setType _ hh hr ih =>
    obtain ⟨H, Hh, He⟩ := ih
    have H' := (C10W.worldOk'_setType D _ _ _ _ _ _ H hh hr).1
    obtain ⟨rank, H0⟩ := H
    have hp := setType_heap (HInv.of_pk H0) Hh hr
    exact ⟨H', hp.heapOk, heapExact_step hp He⟩
  | arrGet _ hh hr ih =>
    obtain ⟨H, Hh, He⟩ := ih
    obtain ⟨H', hc, _⟩ := C10W.worldOk'_arrGet D _ _ _ _ _ _ H hh hr
    have ha : ∀ {w p i el w'}, World.arrGet w p i = .ok (el, w') → w'.addr = w.addr := by
      intro w p i el w' h
      unfold World.arrGet at h
      split at h
      · split at h
        · cases h
        · split at h
          · split at h
            · cases h; rfl
            · cases h; exact addr_setCallbackArr _ _ _ _
          · cases h; rfl
      · cases h
    exact ⟨H', Hh.congr hc (ha hr), heapExact_congr hc He⟩
  | mapGet _ hh hk hr ih =>
    obtain ⟨H, Hh, He⟩ := ih
    obtain ⟨H', hc, _⟩ := C10W.worldOk'_mapGet D _ _ _ _ _ _ H hh hk hr
    have ha : ∀ {w p k el w'}, World.mapGet w p k = .ok (el, w') → w'.addr = w.addr := by
      intro w p k el w' h
      unfold World.mapGet at h
      split at h
      · split at h
        · cases h
        · split at h
          · split at h
            · cases h; rfl
            · cases h; exact addr_setCallbackMap _ _ _ _
          · cases h; rfl
      · cases h
    exact ⟨H', Hh.congr hc (ha hr), heapExact_congr hc He⟩
  | reopen _ ih =>
    obtain ⟨H, Hh, He⟩ := ih
    obtain ⟨H', hc, _⟩ := C10W.worldOk'_reopen D _ _ H
    exact ⟨C10W.worldOk'_of_worldOk H', Hh.congr hc rfl, heapExact_congr hc He⟩

end Atree.C09W
