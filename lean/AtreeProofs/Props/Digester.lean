import AtreeProofs.DigesterLemmas
/-
  Digester objects (hash.go): caching, `Reset`, and the process-wide pool are INVISIBLE.

  PROPERTY-LEVEL THEOREMS about `AtreeModel/Digester.lean` (a line-by-line transcription of
  `basicDigesterBuilder`, `basicDigester`, `getBasicDigester`, `putDigester`).  The two hash
  functions are uninterpreted (`H : Hashes`), so every statement holds for CircleHash64f / BLAKE3
  and for any replacement.  They carry the logic behind

    * C04 "…does not depend on … object-pool reuse",
    * C16 "…despite the library's process-wide … digester pools",
    * C02 / C12 "a digest is a function of the key" (the hypothesis `DigestFn` of the map theorems;
      the instance is in `Props/DigesterMap.lean`).

  Hypotheses that the proofs forced (both are contracts on CALLER code, see the negative theorems):
    * `ScratchIndep hip` — the hash-input provider's result does not depend on what the 32-byte
      buffer it is handed contains (`Reset` does NOT clear `scratch`: `scratch_survives_reset`,
      `scratch_reading_hip_sees_previous_user`);
    * one holder per object (value-level model); the object-identity version with use-after-put
      and double put is `Props/DigesterHeap.lean`.
-/
namespace Atree.Dig

/-! ### (a) caching never changes a result -/

/-- a call a holder can make on a digester -/
inductive Call where
  | digest (level : Nat)
  | pref (level : Nat)
deriving DecidableEq, Repr

/-- the calls, in the given order, on the caching object (each call sees the object the previous
    one left behind) -/
def runCalls (H : Hashes) : BasicDigester → List Call → List Obs
  | _, [] => []
  | d, .digest l :: cs => .digest (d.digest H l).1 :: runCalls H (d.digest H l).2 cs
  | d, .pref l :: cs => .pref (d.digestPrefix H l).1 :: runCalls H (d.digestPrefix H l).2 cs

/-- the answer to one call by the cache-free definition -/
def specCall (H : Hashes) (k0 : UInt64) (m : Bytes) : Call → Obs
  | .digest l => .digest (spec H k0 m l)
  | .pref l => .pref (specPrefix H k0 m l)

theorem runCalls_rep (H : Hashes) (s : SpecDigester) (cs : List Call) :
    ∀ d, Rep H d s → runCalls H d cs = cs.map (fun c => match c with
      | .digest l => Obs.digest (s.digest H l)
      | .pref l => Obs.pref (s.digestPrefix H l)) := by
  induction cs with
  | nil => intro d _; rfl
  | cons c cs ih =>
    intro d h
    cases c with
    | digest l =>
      obtain ⟨r1, r2⟩ := h.digest l
      simp only [runCalls, List.map_cons, r1, ih _ r2]
    | pref l =>
      obtain ⟨r1, r2⟩ := h.digestPrefix l
      simp only [runCalls, List.map_cons, r1, ih _ r2]

/-- **digest is a function of the input.**  Take any pool whose parked objects are reset (the
    invariant of (b)), any choice of the pool, a non-zero seed and a hash-input provider that
    returns message `m`.  Then `DigesterBuilder.Digest` succeeds, and EVERY sequence of
    `Digest(l)` / `DigestPrefix(l)` calls on the object — any levels, any order, any repetition,
    in and out of range — returns, call by call, what the cache-free definition `spec k0 m` says.
    `k1` does not occur on the right-hand side: it is never used. -/
theorem digest_is_function_of_input {V : Type} (H : Hashes) (hip : HIP V) (k0 k1 : UInt64) (hk : k0 ≠ 0)
    (v : V) (p : Pool) (hp : PoolReset p) (c : Option Nat) (m : Bytes)
    (hm : (hip v (p.get c).1.scratch).1 = .ok m) (calls : List Call) :
    ∃ d p', (Builder.new.setSeed k0 k1).digest H hip v p c = (.ok d, p') ∧ PoolReset p' ∧
      runCalls H d calls = calls.map (specCall H k0 m) := by
  obtain ⟨hr, hp'⟩ := poolReset_get hp c
  refine ⟨_, _, build_ok H hip k0 k1 hk v p c m hm, hp', ?_⟩
  rw [runCalls_rep H (specOf H k0 m) calls _ (rep_of_build H _ hr _ m k0)]
  apply List.map_congr_left
  intro c _
  cases c <;> rfl

/-- Two objects for the same (seed, message) — whatever pool slot they came from, whatever calls
    were made on them before — answer every further call sequence alike. -/
theorem same_input_same_digests (H : Hashes) (s : SpecDigester) (d1 d2 : BasicDigester)
    (h1 : Rep H d1 s) (h2 : Rep H d2 s) (calls : List Call) :
    runCalls H d1 calls = runCalls H d2 calls := by
  rw [runCalls_rep H s calls d1 h1, runCalls_rep H s calls d2 h2]

/-! ### (b) `Reset` restores the fresh state; the pool invariant -/

/-- **`Reset` restores the fresh object** — every field except the scratch buffer, which keeps
    the previous user's bytes. -/
theorem reset_restores_fresh (d : BasicDigester) :
    d.reset = { BasicDigester.fresh with scratch := d.scratch } ∧ IsReset d.reset :=
  ⟨rfl, isReset_reset d⟩

theorem scratch_survives_reset (d : BasicDigester) : d.reset.scratch = d.scratch := rfl

/-- **The pool invariant** "every parked digester is in reset state": true of the empty pool,
    preserved by `Get` (ANY choice), by `putDigester` of ANY digester in ANY state (whatever its
    previous holder did with it), and by the pool discarding objects; and under it `Get` returns
    an object in reset state. -/
theorem pool_invariant :
    PoolReset {} ∧
    (∀ p c, PoolReset p → IsReset (p.get c).1 ∧ PoolReset (p.get c).2) ∧
    (∀ p x, PoolReset p → PoolReset (p.put x)) ∧
    (∀ p i, PoolReset p → PoolReset (p.drop i)) :=
  ⟨poolReset_empty, fun _ c h => poolReset_get h c, fun _ x h => poolReset_put h x,
   fun _ i h => poolReset_drop h i⟩

/-- A recycled object cannot be told from a new one: building on `d.reset` (for ANY `d`, i.e. any
    history of the previous holder) and building on `&basicDigester{}` give the same success /
    failure and the same answers to every call sequence — provided the hash-input provider does
    not read the buffer it is given. -/
theorem reset_indistinguishable {V : Type} (H : Hashes) (hip : HIP V) (hsi : ScratchIndep hip)
    (d : BasicDigester) (k0 k1 : UInt64) (v : V) (calls : List Call) :
    let b := Builder.new.setSeed k0 k1
    let r1 := b.digest H hip v { free := [d.reset] } (some 0)
    let r2 := b.digest H hip v {} none
    match r1.1, r2.1 with
    | .ok d1, .ok d2 => runCalls H d1 calls = runCalls H d2 calls
    | .error e1, .error e2 => e1 = e2
    | _, _ => False := by
  intro b r1 r2
  by_cases hk : k0 = 0
  · subst hk
    simp only [r1, r2, b, build_seed0]
  · have hg1 : (Pool.get { free := [d.reset] } (some 0)).1 = d.reset := rfl
    have hg2 : (Pool.get {} none).1 = BasicDigester.fresh := rfl
    have hi := hsi v d.reset.scratch BasicDigester.fresh.scratch
    cases hm : (hip v d.reset.scratch).1 with
    | ok m =>
      have hm2 : (hip v BasicDigester.fresh.scratch).1 = .ok m := by rw [← hi, hm]
      have e1 := build_ok H hip k0 k1 hk v { free := [d.reset] } (some 0) m (by rw [hg1]; exact hm)
      have e2 := build_ok H hip k0 k1 hk v {} none m (by rw [hg2]; exact hm2)
      simp only [r1, r2, b, e1, e2]
      exact same_input_same_digests H (specOf H k0 m) _ _
        (rep_of_build H _ (by rw [hg1]; exact isReset_reset d) _ m k0)
        (rep_of_build H _ (by rw [hg2]; exact isReset_fresh) _ m k0) calls
    | error e =>
      have hm2 : (hip v BasicDigester.fresh.scratch).1 = .error e := by rw [← hi, hm]
      have e1 := build_err H hip k0 k1 hk v { free := [d.reset] } (some 0) e (by rw [hg1]; exact hm)
      have e2 := build_err H hip k0 k1 hk v {} none e (by rw [hg2]; exact hm2)
      simp only [r1, r2, b, e1, e2]

/-- **Pooled histories refine the cache-free, pool-free definition.**  For EVERY finite history of
    events of any number of users — `SetSeed`+`Digest(hip, v)` with any seeds and values, `Digest`
    and `DigestPrefix` at any levels in any order, `Reset` called by a holder, `putDigester`,
    the pool handing out ANY parked object or a new one, the pool dropping objects — every
    observation (success / error of each build, every digest, every prefix) equals the observation
    in the world without pool and without caches, where each build starts from an all-zero object;
    and the pool invariant holds afterwards. -/
theorem pooled_history_refines_spec {V : Type} (H : Hashes) (hip : HIP V) (hsi : ScratchIndep hip)
    (evs : List (Ev V)) :
    (DWorld.run H hip {} evs).1 = specRun H hip [] evs ∧
    PoolReset (DWorld.run H hip {} evs).2.pool :=
  run_sim H hip hsi evs {} [] (winv_init H)

/-- After ANY history, whatever the pool hands out next is a fresh object up to its scratch bytes. -/
theorem every_pooled_object_is_fresh {V : Type} (H : Hashes) (hip : HIP V) (hsi : ScratchIndep hip)
    (evs : List (Ev V)) (c : Option Nat) :
    let d := ((DWorld.run H hip {} evs).2.pool.get c).1
    d = { BasicDigester.fresh with scratch := d.scratch } := by
  intro d
  exact (isReset_iff d).mp (poolReset_get (pooled_history_refines_spec H hip hsi evs).2 c).1

/-! ### (c) what the invariant protects against -/

/-- **A `Reset` that forgets the BLAKE3 cache hands the previous user's digest to the next user.**
    User 1 digests `v1` (message `m1`) and asks for level 1 (which fills the cache); the object is
    returned through the defective `putDigester`; user 2 is handed the same object for `v2`
    (message `m2`): level 0 is right, but levels 1..3 are the words of `m1`. -/
theorem bad_reset_leaks_previous_digest {V : Type} (H : Hashes) (hip : HIP V) (k0 k1 : UInt64) (hk : k0 ≠ 0)
    (v1 v2 : V) (m1 m2 : Bytes) (h1 : ∀ s, (hip v1 s).1 = .ok m1) (h2 : ∀ s, (hip v2 s).1 = .ok m2)
    (hne : blakeWords (H.sum256 m1) ≠ emptyBlake3Hash) (l : Nat) (hl : 1 ≤ l ∧ l ≤ 3) :
    let b := Builder.new.setSeed k0 k1
    ∃ d1 p1, b.digest H hip v1 {} none = (.ok d1, p1) ∧
      ∃ d2 p2, b.digest H hip v2 (p1.badPut (.basic (d1.digest H 1).2)) (some 0) = (.ok d2, p2) ∧
        (d2.digest H 0).1 = spec H k0 m2 0 ∧
        (d2.digest H l).1 = .ok ((blakeWords (H.sum256 m1)).get (l - 1)) := by
  intro b
  obtain ⟨s1, e1⟩ := build_ok_ex H hip k0 k1 hk v1 {} none m1 (h1 _)
  refine ⟨_, _, e1, ?_⟩
  -- user 1's `Digest(1)` fills the cache
  have hfill : (BasicDigester.digest H ⟨H.circle m1 k0, (Pool.get {} none).1.blake3Hash, s1, m1⟩ 1).2.blake3Hash
      = blakeWords (H.sum256 m1) := by
    rw [digest_lt H _ 1 (by omega)]
    simp [eff, Pool.get, BasicDigester.fresh]
  generalize (BasicDigester.digest H ⟨H.circle m1 k0, (Pool.get {} none).1.blake3Hash, s1, m1⟩ 1).2 = x at hfill
  have hg : (Pool.get (Pool.badPut (Pool.get {} none).2 (.basic x)) (some 0)).1 = x.badReset := rfl
  obtain ⟨s2, e2⟩ := build_ok_ex H hip k0 k1 hk v2 (Pool.badPut (Pool.get {} none).2 (.basic x)) (some 0) m2 (h2 _)
  refine ⟨_, _, e2, ?_, ?_⟩
  · rw [digest_fst]; rfl
  · rw [digest_fst, if_pos (by omega)]
    have hl0 : l ≠ 0 := by omega
    simp only [val, hl0, if_false]
    congr 2
    -- the object user 2 got still carries user 1's cache
    rw [hg]
    simp only [eff, BasicDigester.badReset, hfill, hne, if_false]

/-- …and that IS a wrong digest whenever the two messages differ in that BLAKE3 word. -/
theorem bad_reset_wrong_digest {V : Type} (H : Hashes) (hip : HIP V) (k0 k1 : UInt64) (hk : k0 ≠ 0)
    (v1 v2 : V) (m1 m2 : Bytes) (h1 : ∀ s, (hip v1 s).1 = .ok m1) (h2 : ∀ s, (hip v2 s).1 = .ok m2)
    (hne : blakeWords (H.sum256 m1) ≠ emptyBlake3Hash) (l : Nat) (hl : 1 ≤ l ∧ l ≤ 3)
    (hdiff : (blakeWords (H.sum256 m1)).get (l - 1) ≠ (blakeWords (H.sum256 m2)).get (l - 1)) :
    let b := Builder.new.setSeed k0 k1
    ∃ d1 p1, b.digest H hip v1 {} none = (.ok d1, p1) ∧
      ∃ d2 p2, b.digest H hip v2 (p1.badPut (.basic (d1.digest H 1).2)) (some 0) = (.ok d2, p2) ∧
        (d2.digest H l).1 ≠ spec H k0 m2 l := by
  intro b
  obtain ⟨d1, p1, e1, d2, p2, e2, _, e4⟩ := bad_reset_leaks_previous_digest H hip k0 k1 hk v1 v2 m1 m2 h1 h2 hne l hl
  refine ⟨d1, p1, e1, d2, p2, e2, ?_⟩
  rw [e4]
  have hl0 : l ≠ 0 := by omega
  have h4 : ¬ (l ≥ levels) := by simp [levels]; omega
  simp only [spec, SpecDigester.digest, h4, if_false, SpecDigester.value, hl0, specOf]
  intro h
  injection h with h
  exact hdiff h

/-- With the real `putDigester` the same two-user history gives user 2 the right digests. -/
theorem good_reset_right_digest {V : Type} (H : Hashes) (hip : HIP V) (k0 k1 : UInt64) (hk : k0 ≠ 0)
    (v1 v2 : V) (m1 m2 : Bytes) (h1 : ∀ s, (hip v1 s).1 = .ok m1) (h2 : ∀ s, (hip v2 s).1 = .ok m2) (l : Nat) :
    let b := Builder.new.setSeed k0 k1
    ∃ d1 p1, b.digest H hip v1 {} none = (.ok d1, p1) ∧
      ∃ d2 p2, b.digest H hip v2 (p1.put (.basic (d1.digest H 1).2)) (some 0) = (.ok d2, p2) ∧
        (d2.digest H l).1 = spec H k0 m2 l := by
  intro b
  have e1 := build_ok H hip k0 k1 hk v1 {} none m1 (h1 _)
  refine ⟨_, _, e1, ?_⟩
  have hp : PoolReset ((Pool.get {} none).2.put (.basic (BasicDigester.digest H
      { (Pool.get {} none).1 with scratch := (hip v1 (Pool.get {} none).1.scratch).2, msg := m1,
                                   circleHash64 := H.circle m1 k0 } 1).2)) :=
    poolReset_put (poolReset_get poolReset_empty none).2 _
  obtain ⟨d2, p2, e2, _, e3⟩ := digest_is_function_of_input H hip k0 k1 hk v2 _ hp (some 0) m2 (h2 _) [.digest l]
  refine ⟨d2, p2, e2, ?_⟩
  simp only [runCalls, List.map_cons, List.map_nil, specCall, List.cons.injEq, Obs.digest.injEq, and_true] at e3
  exact e3

/-! ### (d) small facts -/

theorem levels_eq_4 : levels = 4 := rfl

/-- **`Digest(level)` fails exactly for `level ≥ Levels()`**, with the hash-level error, and then
    leaves the object untouched. -/
theorem digest_level_out_of_range_error (H : Hashes) (d : BasicDigester) (level : Nat) :
    ((d.digest H level).1 = .error .hashLevel ↔ level ≥ levels) ∧
    (level ≥ levels → (d.digest H level).2 = d) ∧
    (level < levels → ∃ x, (d.digest H level).1 = .ok x) := by
  refine ⟨?_, ?_, ?_⟩
  · rw [digest_fst]
    by_cases h : level < 4
    · simp [h, levels]
    · simp [h, levels]; omega
  · intro h; rw [digest_ge H d level (by simpa [levels] using h)]
  · intro h; rw [digest_fst, if_pos (by simpa [levels] using h)]; exact ⟨_, rfl⟩

/-- `DigestPrefix(level)` fails exactly for `level > Levels()` (so `Levels()` itself is allowed). -/
theorem digestPrefix_level_out_of_range_error (H : Hashes) (d : BasicDigester) (level : Nat) :
    ((d.digestPrefix H level).1 = .error .hashLevel ↔ level > levels) ∧
    (level > levels → (d.digestPrefix H level).2 = d) := by
  refine ⟨?_, ?_⟩
  · by_cases h : level ≤ 4
    · rw [(digestPrefix_le H d level h).1]; simp [levels]; omega
    · rw [digestPrefix_gt H d level (by omega)]; simp [levels]; omega
  · intro h; rw [digestPrefix_gt H d level (by simpa [levels] using h)]

/-- **`DigestPrefix(level)` is the list of `Digest(0)`, …, `Digest(level-1)`** — for EVERY object
    state (no invariant needed), whether the calls are made before or after the prefix call. -/
theorem digestPrefix_eq_map_digest (H : Hashes) (d : BasicDigester) (level : Nat) (h : level ≤ levels) :
    ∃ ws, (d.digestPrefix H level).1 = .ok ws ∧ ws.length = level ∧
      ∀ l (hl : l < ws.length),
        (d.digest H l).1 = .ok ws[l] ∧ ((d.digestPrefix H level).2.digest H l).1 = .ok ws[l] := by
  have h4 : level ≤ 4 := by simpa [levels] using h
  obtain ⟨r1, r2⟩ := digestPrefix_le H d level h4
  refine ⟨_, r1, by simp, ?_⟩
  intro l hl
  have hl' : l < level := by simpa using hl
  have hl4 : l < 4 := by omega
  constructor
  · rw [digest_fst, if_pos hl4]; simp
  · rw [digest_fst, if_pos hl4, r2.val]; simp

/-! ### Non-vacuity: toy hash functions, concrete histories -/
section NonVacuity

/-- toy hashes: level 0 = seed + a polynomial of the message; the 32-byte sum is `s, s+1, …, s+31`
    for `s` the byte sum of the message -/
def toyH : Hashes where
  circle m k := k + m.foldl (fun a x => a * 31 + x.toUInt64) 7
  sum256 m := (List.range 32).map (fun i => m.foldl (· + ·) 0 + i.toUInt8)
  circle2 a b s := a * 3 + b * 5 + s + 1

/-- keys are bytes; the provider ignores the buffer, writes the key into it and returns `[v, v+1]` -/
def toyHip : HIP UInt8 := fun v buf => (.ok [v, v + 1], v :: buf.drop 1)

/-- fails for key 0 (after scribbling into the buffer) -/
def toyHipFail : HIP UInt8 := fun v buf =>
  if v = 0 then (.error (), 99 :: buf.drop 1) else (.ok [v, v + 1], v :: buf.drop 1)

theorem toyHip_indep : ScratchIndep toyHip := fun _ _ _ => rfl
theorem toyHipFail_indep : ScratchIndep toyHipFail := by
  intro v s1 s2; unfold toyHipFail; split <;> rfl

/-- A three-user history on one pool: user A digests key 5 at levels 2, 0, 1, 4 (error) and a
    prefix, returns the object; user B gets THE SAME object for key 9 (choice `some 0`), reads
    levels 3, 1; user C meanwhile takes a new object for key 5; a failing build; a build with
    seed 0; a holder calling `Reset` itself; the pool drops an object. -/
def toyHistory : List (Ev UInt8) :=
  [.build 77 1 5 none, .digest 0 2, .digest 0 0, .digest 0 1, .digest 0 4, .pref 0 4, .put 0,
   .build 77 1 9 (some 0), .digest 1 3, .build 77 1 5 none, .digest 1 1, .digest 2 2, .pref 2 5,
   .build 77 1 0 (some 0), .build 0 1 5 none, .reset 1, .digest 1 0, .digest 1 2, .put 1, .put 2,
   .drop 0, .digest 0 0, .build 78 1 5 (some 0), .pref 5 2]

/-- what that history shows: the recycled object answers for key 9, not for key 5; the two
    objects for key 5 agree; errors where expected -/
example :
    (DWorld.run toyH toyHipFail {} toyHistory).1 = specRun toyH toyHipFail [] toyHistory :=
  (pooled_history_refines_spec toyH toyHipFail toyHipFail_indep toyHistory).1

example : (DWorld.run toyH toyHipFail {} toyHistory).1.length = 24 := by decide

example :
    ((DWorld.run toyH toyHipFail {} toyHistory).1.take 9) =
      [.built none, .digest (spec toyH 77 [5, 6] 2), .digest (spec toyH 77 [5, 6] 0),
       .digest (spec toyH 77 [5, 6] 1), .digest (.error .hashLevel), .pref (specPrefix toyH 77 [5, 6] 4),
       .none, .built none, .digest (spec toyH 77 [9, 10] 3)] := by decide

/-- levels really differ from one another and between keys in the toy instance -/
example : spec toyH 77 [5, 6] 1 ≠ spec toyH 77 [9, 10] 1 ∧ spec toyH 77 [5, 6] 1 ≠ spec toyH 77 [5, 6] 2 ∧
    spec toyH 77 [5, 6] 0 ≠ spec toyH 78 [5, 6] 0 := by decide

/-- `digest_is_function_of_input` on a pool that holds two reset objects with dirty scratch. -/
example := digest_is_function_of_input toyH toyHip 77 1 (by decide) 5
  { free := [{ BasicDigester.fresh with scratch := [1, 2, 3] }, BasicDigester.fresh] }
  (by intro d hd
      simp only [List.mem_cons, List.not_mem_nil, or_false] at hd
      rcases hd with rfl | rfl
      · exact ⟨rfl, rfl, rfl⟩
      · exact isReset_fresh)
  (some 0) [5, 6] rfl [.digest 3, .pref 2, .digest 0, .digest 9, .digest 3]

/-- the defective `Reset`, concretely: user 2 (key 9) reads user 1's (key 5) level-1 digest -/
def toyBadSecond : Except DErr BasicDigester :=
  let b := Builder.new.setSeed 77 1
  match b.digest toyH toyHip 5 {} none with
  | (.ok d1, p1) => (b.digest toyH toyHip 9 (p1.badPut (.basic (d1.digest toyH 1).2)) (some 0)).1
  | (.error e, _) => .error e

example :
    (match toyBadSecond with
     | .ok d2 => decide ((d2.digest toyH 1).1 = spec toyH 77 [5, 6] 1 ∧ (d2.digest toyH 1).1 ≠ spec toyH 77 [9, 10] 1)
     | .error _ => false) = true := by decide

example := bad_reset_wrong_digest toyH toyHip 77 1 (by decide) 5 9 [5, 6] [9, 10] (fun _ => rfl) (fun _ => rfl)
  (by decide) 1 (by decide) (by decide)

/-- **`Reset` does not clear the scratch buffer, and a provider that reads it sees the previous
    user.**  `leakyHip` writes the key into `buf[0]`, writes `buf[1]` only for keys ≥ 128, and
    returns `buf[:2]` — correct on a new (all-zero) object.  After key 200 was digested and the
    object recycled, key 5 hashes the message `[5, 200]` instead of `[5, 0]`: the pooled history
    and the pool-free one DISAGREE.  (`ScratchIndep` is a necessary hypothesis.) -/
def leakyHip : HIP UInt8 := fun v buf =>
  if v < 128 then (.ok [v, buf.getD 1 0], v :: buf.drop 1)
  else (.ok [v, v], v :: v :: buf.drop 2)

theorem scratch_reading_hip_sees_previous_user :
    let evs : List (Ev UInt8) := [.build 77 1 200 none, .put 0, .build 77 1 5 (some 0), .digest 1 0]
    (DWorld.run toyH leakyHip {} evs).1 ≠ specRun toyH leakyHip [] evs ∧
    (DWorld.run toyH leakyHip {} evs).1.getLast? = some (.digest (spec toyH 77 [5, 200] 0)) ∧
    (specRun toyH leakyHip [] evs).getLast? = some (.digest (spec toyH 77 [5, 0] 0)) := by decide

end NonVacuity

end Atree.Dig
