import AtreeProofs.Props.TransMapDescentSetFull3
/-
  MAP DESCENT, round 3 (WP13): the final assembly for `Set` with the ROOT invariant `MQR1` (= `mts_MQtop` of
  TransMapDescentTailSplit.lean on the handle's root): as `MQR` but the size bound with `slack1` (what `MTree.set_spec`
  gives; `OrderedMap.splitRoot`'s `deroot` adds 16 bytes, so the root tail needs the sharper bound).
-/
namespace Atree.TransEq
open Atree Atree.Gen.TransMapD

section
variable {r : Nat}

/-- the loose root invariant with the one-update slack `slack1` -/
abbrev MQR1 (T : Nat) (D : DigestFn (r + 1)) : OMap r → Prop := fun m => mts_MQtop T D m.d m.root

section
variable {T : Nat} {D : DigestFn (r + 1)} {cfg : MCfg}

/-- `hQRhdrs`: projection of `MetaLoose` -/
theorem mfi_QRhdrs1 (d : Nat) (xr : MMetaSlab (MTree r d)) (ty cnt seed : Nat)
    (h : MQR1 T D (⟨d + 1, xr, ty, cnt, seed⟩ : OMap r)) : xr.childHdrs = xr.children.map (MTree.hdr d) := by
  have hs : SInv T D (d + 1) true xr := h.1
  exact hs.1.2.1


/-- `hQRset`: the handle after the tree-level `set` satisfies the loose root invariant -/
theorem mfi_QRset1 (hT : legalThreshold T = true) (hc : CfgFor cfg T (r + 1)) {k : MKey} (hk : KeyOk T (r + 1) D k)
    {v : Elem} (hv : ValueOkM v) (hhk : k.dig 0 < 2^64) (m : OMap r) (hinv : MapInv T D m)
    (hdig : ∀ x ∈ MTree.digests0 m.d m.root, x < 2^64) (c : Ctx) (ks : MKey) (old : Option Elem) (root' : MTree r m.d)
    (c1 : Ctx) (hq : MTree.set cfg m.d m.root k v c = .ok (ks, old, root', c1)) :
    MQR1 T D ({ m with root := root', count := if old.isNone then m.count + 1 else m.count } : OMap r) := by
  obtain ⟨d, root, ty, cnt, seed⟩ := m
  obtain ⟨h1, h2⟩ := MTree.set_spec hT hc hk hv d true root c hinv.tree
  by_cases hl : TLimited cfg d root k
  · have hq' : MTree.set cfg d root k v c = .ok (ks, old, root', c1) := hq
    rw [h1 hl] at hq'; cases hq'
  · obtain ⟨old', t'', c'', heq, hp⟩ := h2 hl
    have hq' : MTree.set cfg d root k v c = .ok (ks, old, root', c1) := hq
    rw [heq] at hq'
    cases hq'
    refine ⟨hp.sinv, ?_, ?_, fun x hx => ?_⟩
    · show treeInl d root' = false
      rw [hp.inl, ← isInlined_eq d root ty cnt seed]; exact hinv.standalone
    · show (MTree.hdr d root').size ≤ maxThr T + slack1 T d
      have := hp.size_le; have := MTreeInv.le_max d true root hinv.tree; omega
    · rcases hp.digs x hx with h' | h'
      · exact hdig x h'
      · rw [h']; exact hhk


/-- `hszR`: the size of the (possibly promoted) root fits `uint32` -/
theorem mfi_promote_size_lt1 (hT : legalThreshold T = true) (m1 : OMap r) (c : Ctx) (h : MQR1 T D m1) :
    (MTree.hdr _ (m1.promoteIfSingleChild c).1.root).size < 2^32 := by
  obtain ⟨d, root, ty, cnt, seed⟩ := m1
  cases d with
  | zero => exact Nat.lt_of_le_of_lt (Nat.le_trans h.2.2.1 (Nat.add_le_add_left (slack1_le T 0) _)) (mfi_bound hT 0)
  | succ d =>
    have hs : SInv T D (d + 1) true root := h.1
    obtain ⟨hml, hlen⟩ := hs
    have hh : MMetaSlab.childHdrs root = (MMetaSlab.children root).map (MTree.hdr d) := hml.2.1
    rcases hc : MMetaSlab.children root with _ | ⟨a, _ | ⟨b, rest⟩⟩
    · rw [hc] at hlen; simp at hlen
    · have hh1 : MMetaSlab.childHdrs root = [MTree.hdr d a] := by rw [hh, hc]; rfl
      rw [promote_eq d root ty cnt seed c hh1 hc]
      have ha : MTreeInv T D d false a := hml.2.2.2.2.1 a (by rw [hc]; exact List.mem_cons_self)
      have hle := MTreeInv.le_max d false a ha
      have hb := mfi_bound hT d
      cases d with
      | zero =>
        show (MDataSlab.hdr a).size - Gen.mapDataSlabPrefixSize + Gen.mapRootDataSlabPrefixSize < 2^32
        have hle' : (MDataSlab.hdr a).size ≤ maxThr T := hle
        simp only [Gen.mapDataSlabPrefixSize, Gen.mapRootDataSlabPrefixSize]
        omega
      | succ d =>
        show (MMetaSlab.hdr a).size < 2^32
        have hle' : (MMetaSlab.hdr a).size ≤ maxThr T := hle
        omega
    · rw [promote_id d root ty cnt seed c hh (by rw [hc]; simp)]
      exact Nat.lt_of_le_of_lt (Nat.le_trans h.2.2.1 (Nat.add_le_add_left (slack1_le T (d + 1)) _)) (mfi_bound hT (d + 1))

end

/-- **`OrderedMap.Set` OVER THE HEAP, WITH THE GENERATED RESTRUCTURING CODE (`rsOf cfg.T`)**: given ONLY the ROOT tail
    fact about `rsOf` (`hR`; `MSplitTail_rsOf`, `MMorTail_rsOf_partial` are plugged in), for a map satisfying `MapInv` whose tree the heap holds, the generated
    `OrderedMap.set` returns `(old value, nil, md_map m' s')` for the model's `OMap.set cfg m k v s.ctx = .ok (old, m', c')`
    with `s'.ctx = c'`, the handle invariant over the heap re-established (`mds_RootPreR (MQR ..)`) and the heap changed as
    `mds_Delta` says; a model error comes back as that error value.
    Remaining hypotheses: the element layer (`ElemsSpec`, `P` of the leaves), the `uint64` range of the digests
    (the model's digests are unbounded naturals), and the heap / identifier facts (`MHolds`, `Nodup`, owner address,
    `mds_FreshFree`). -/
theorem Ob_OrderedMap_Set_heap_full_of_root1 (cfg : MCfg) (D : DigestFn (r + 1)) (k : MKey) (v : Elem)
    (P : DG r → Prop) (eb : DEnvB r)
    (hLT : legalThreshold cfg.T = true) (hL : cfg.L = r + 1) (hk : KeyOk cfg.T (r + 1) D k) (hv : ValueOkM v)
    (hhk : k.dig 0 < 2^64) (hE : ElemsSpec cfg k v P eb)
    (hR : MRootTailR cfg.T (rsOf (r := r) cfg.T) (MQR1 cfg.T D))
    (m : OMap r) (hinv : MapInv cfg.T D m) (hdig : ∀ x ∈ MTree.digests0 m.d m.root, x < 2^64)
    (hPl : ∀ sl ∈ MTree.leaves m.d m.root, P sl.elems)
    (s : MHSt r) (x0 : Option DX) (depth : Nat) (hd : m.d ≤ depth)
    (hheld : MHolds s.heap m.d m.root x0) (hnd : (md_ids m.d m.root).Nodup)
    (haddr : ∀ id ∈ md_ids m.d m.root, id.addr = cfg.addr) (hff : mds_FreshFree cfg.addr s) :
    match OMap.set cfg m k v s.ctx with
    | .ok (old, m', c') =>
      ∃ s' x', OrderedMap_set (envD cfg.T eb (rsOf cfg.T)) depth (md_map m s) (.key k) (.val v) =
          some (old.map .val, none, md_map m' s') ∧
        s'.ctx = c' ∧ s'.popped = s.popped ∧ mds_RootPreR (MQR1 cfg.T D) cfg.addr s' m' x' ∧
        mds_Delta s.heap s'.heap (md_ids m.d m.root) (md_ids m'.d m'.root)
    | .error e =>
      ∃ M', OrderedMap_set (envD cfg.T eb (rsOf cfg.T)) depth (md_map m s) (.key k) (.val v) = some (none, some e, M') := by
  have hc : CfgFor cfg cfg.T (r + 1) := ⟨rfl, hL⟩
  have hb := map_legal_bounds hLT
  have hT1 : maxThr cfg.T < 2^32 := by rw [map_maxThr_eq]; omega
  have hT2 : minThr cfg.T < 2^32 := by simp only [minThr]; omega
  exact Ob_OrderedMap_set_heap_of_tailsH eb (rsOf cfg.T) (MQ cfg.T D) (MQR1 cfg.T D) (mfi_Qin cfg.T D) cfg k v P
    (mfi_L cfg.T D) hE (MSplitTail_rsOf D hLT) (MMorTail_rsOf_partial hLT) hR (mfi_Qin_MQ hLT) (mfi_set_MQ hLT hc hk hv hhk) mfi_QRhdrs1
    (fun sl c ks old sl' c' hl hq => mfi_mono hLT hc hk hv sl c ks old sl' c' hl hq) hT1 hT2 hhk m s x0 depth hd hheld
    hnd haddr hff (mfi_rootFlag_true m.d m.root hinv.tree)
    (mfi_pathH hLT hc hk hv hhk P m.d true m.root s.ctx hinv.tree hdig
      (haddr _ (mfi_root_id_mem m.d m.root)) (mfi_inl_root m hinv.standalone) hPl)
    (fun ks old root' c1 hq => mfi_QRset1 hLT hc hk hv hhk m hinv hdig s.ctx ks old root' c1 hq)
    (fun ks old root' c1 hq => mfi_promote_size_lt1 hLT _ c1 (mfi_QRset1 hLT hc hk hv hhk m hinv hdig s.ctx ks old root' c1 hq))

/-- the same with the CLOSED element layer `clEnvB cfg retr (r + 1)` (`clEnvB_elemsSpec`): no `ElemsSpec` hypothesis; the
    leaves satisfy `mcl_PLeaf` (element invariant - which `MapInv` gives -, `uint` ranges of the closed theorems, the
    storage returns the slabs of the external groups) -/
theorem Ob_OrderedMap_Set_heap_full_of_root1_closed (cfg : MCfg) (D : DigestFn (r + 1)) (k : MKey) (v : Elem)
    (retr : mcl_Retrs DX)
    (hLT : legalThreshold cfg.T = true) (hL : cfg.L = r + 1) (hL64 : cfg.L < 2^64) (hT32 : cfg.T < 2^32)
    (hTe : maxInlineMapElem cfg.T < 2^32) (hcl : cfg.climit < 2^32) (hkd : ∀ lvl, k.dig lvl < 2^64)
    (hk : KeyOk cfg.T (r + 1) D k) (hv : ValueOkM v)
    (hR : MRootTailR cfg.T (rsOf (r := r) cfg.T) (MQR1 cfg.T D))
    (m : OMap r) (hinv : MapInv cfg.T D m) (hdig : ∀ x ∈ MTree.digests0 m.d m.root, x < 2^64)
    (hPl : ∀ sl ∈ MTree.leaves m.d m.root, mcl_PLeaf cfg k v retr D sl.elems)
    (s : MHSt r) (x0 : Option DX) (depth : Nat) (hd : m.d ≤ depth)
    (hheld : MHolds s.heap m.d m.root x0) (hnd : (md_ids m.d m.root).Nodup)
    (haddr : ∀ id ∈ md_ids m.d m.root, id.addr = cfg.addr) (hff : mds_FreshFree cfg.addr s) :
    match OMap.set cfg m k v s.ctx with
    | .ok (old, m', c') =>
      ∃ s' x', OrderedMap_set (envD cfg.T (clEnvB cfg retr (r + 1)) (rsOf cfg.T)) depth (md_map m s) (.key k) (.val v) =
          some (old.map .val, none, md_map m' s') ∧
        s'.ctx = c' ∧ s'.popped = s.popped ∧ mds_RootPreR (MQR1 cfg.T D) cfg.addr s' m' x' ∧
        mds_Delta s.heap s'.heap (md_ids m.d m.root) (md_ids m'.d m'.root)
    | .error e =>
      ∃ M', OrderedMap_set (envD cfg.T (clEnvB cfg retr (r + 1)) (rsOf cfg.T)) depth (md_map m s) (.key k) (.val v) =
        some (none, some e, M') :=
  Ob_OrderedMap_Set_heap_full_of_root1 cfg D k v (mcl_PLeaf cfg k v retr D) (clEnvB cfg retr (r + 1)) hLT hL hk hv (hkd 0)
    (clEnvB_elemsSpec cfg k v retr D hL hL64 hT32 hTe hcl hkd hLT) hR m hinv hdig hPl s x0 depth hd hheld hnd haddr hff


end

end Atree.TransEq
