import AtreeProofs.Codec.Accessors
/-
  C19 — "the size and child-reference accessors of any slab that decoding does return are
  panic-free" (audit item B3; replaces the trivial `C19.accessors_total`).

  The accessors (`ByteSize()`, `ChildStorables()` of the five Go slab types, `elementsStorables`,
  `elementStorables`) are transcribed in the panic-tracking monad over a raw representation of Go
  values in `AtreeProofs/Codec/Accessors.lean`; read its header comment for the exact scope:

  * PROVED: on the image `s.toRaw` of every slab `s` the decoder model returns, the transcribed
    accessors do not panic, `ByteSize()` is the model's `Slab.byteSize`, `ChildStorables()` is the
    model's `Slab.childStorables` with every entry a non-nil storable whose own `ByteSize()` does not
    panic either; and, for ARBITRARY raw slabs, exactly when the transcribed accessors panic
    (`accessors_panic_exactly`) — a nil / foreign / typed-nil `element` slot, a typed-nil `elements`,
    a nil slab pointer, a nil storable under `StorableSlab.ByteSize()`.
  * CARRIED BY THE SHAPE OF THE MODEL, NOT PROVED: that the Go decoders return only fully populated
    slabs (every `make`d slot assigned before the struct is built, non-nil pointer iff nil error,
    non-nil storables from the callback).  The Go lines are cited in the header of Accessors.lean;
    `Codec.makeFillM_eq` / `Codec.goElementLoop_eq_decodeElems` prove the loop PATTERN
    (make + indexed assignment = the model's list, every slot filled, no index out of range), not
    that each Go loop is an instance of it.  A stronger statement needs a pointer/slice-level model
    of the decoders.
-/
namespace Atree.C19
open Atree Atree.Codec Atree.Gen

/-- an embedded storable is never the nil interface -/
theorem toRaw_ne_nil (s : Stor) : s.toRaw ≠ RStor.nil := by
  cases s <;> simp [Stor.toRaw]

/-- `ByteSize()` of an embedded storable does not panic (no nil under a wrapper, no nil pointer) -/
theorem toRaw_sizeSafe : (s : Stor) → s.toRaw.sizeSafe = true
  | .val _ _ => rfl
  | .ref _ => rfl
  | .some s => by
    have ih := toRaw_sizeSafe s
    simpa [Stor.toRaw, RStor.sizeSafe] using ih
  | .arr _ _ _ => rfl
  | .map _ _ _ => rfl

/-- C19, accessors.  For every byte string, if `DecodeSlab` (the model) returns a slab `s`, then the
    Go accessors as transcribed, run on the Go value `s.toRaw` from any allocation counter `k'`:
    neither panics; `ByteSize()` returns the model's `s.byteSize`; `ChildStorables()` returns the
    model's `s.childStorables` (allocating `len(childrenHeaders)` slice elements with `make` for an
    index slab, none otherwise); every returned child is a non-nil storable whose `ByteSize()` does
    not panic. -/
theorem accessors_never_panic (bytes : Bytes) (id : SlabID) (n : Nat) (s : Slab) (k : Nat)
    (h : decodeSlab id bytes n = .ok s k) (k' : Nat) :
    byteSizeM s.toRaw k' ≠ .panic ∧ childStorablesM s.toRaw k' ≠ .panic ∧
    byteSizeM s.toRaw k' = .ok s.byteSize k' ∧
    childStorablesM s.toRaw k' = .ok (s.childStorables.map Stor.toRaw) (k' + s.childMakeAllocs) ∧
    (∀ c ∈ s.childStorables.map Stor.toRaw, c ≠ RStor.nil ∧ ∀ k'', c.byteSizeM k'' ≠ .panic) := by
  obtain ⟨h1, h2⟩ := accessors_of_decoded h k'
  refine ⟨by rw [h1]; simp, by rw [h2]; simp, h1, h2, ?_⟩
  intro c hc
  obtain ⟨x, _, rfl⟩ := List.mem_map.1 hc
  refine ⟨toRaw_ne_nil x, fun k'' hp => ?_⟩
  rw [Stor.byteSizeM_toRaw] at hp
  cases hp

/-- The hypothesis "decoded" is used: `ByteSize()` of the Go value of an arbitrary model slab need
    not be the model's `byteSize` — the flat model's `Elem` carries a size even for a slab reference,
    Go's `SlabIDStorable.ByteSize()` is the constant 19. -/
theorem byteSize_needs_decoded :
    byteSizeM (Slab.storable ⟨1, 1⟩ ⟨40, .ref ⟨1, 2⟩⟩).toRaw 0 = .ok 21 0 ∧
    (Slab.storable ⟨1, 1⟩ ⟨40, .ref ⟨1, 2⟩⟩).byteSize = 42 := ⟨rfl, rfl⟩

/-- Exactly when the transcribed accessors panic, on ARBITRARY raw slabs (`RawSlab.sizeSafe`,
    `RawSlab.childSafe` are the decidable conditions spelled out in Accessors.lean). -/
theorem accessors_panic_exactly (r : RawSlab) (k : Nat) :
    (byteSizeM r k = .panic ↔ r.sizeSafe = false) ∧ (childStorablesM r k = .panic ↔ r.childSafe = false) :=
  ⟨byteSizeM_panic_iff r k, childStorablesM_panic_iff r k⟩

/-! ### non-vacuity -/

/-- a root map data slab: three digests; a single element whose value is wrapped, an inline
    collision group of two single elements (one value a slab reference), an external collision group -/
def mapSlab : Slab :=
  Slab.mdata
    { id := ⟨1, 2⟩, next := SlabID.undef, extra := Option.some { ty := TyInfo.plain 3, count := 4, seed := 9 },
      els := MEls.hkey 0 [5, 6, 7]
        [MEl.single (SEl.mk (Stor.val 2 1) (Stor.some (Stor.val 2 2))),
         MEl.inl (MEls.single 1 [SEl.mk (Stor.val 2 3) (Stor.val 2 4), SEl.mk (Stor.val 2 5) (Stor.ref ⟨1, 9⟩)]),
         MEl.ext ⟨1, 7⟩],
      anySize := false, group := false }

/-- its 101-byte register -/
def mapReg : Bytes :=
  [16, 200, 131, 3, 4, 9, 131, 0, 89, 0, 24, 0, 0, 0, 0, 0, 0, 0, 5, 0, 0, 0, 0, 0, 0, 0, 6, 0, 0, 0, 0, 0, 0, 0, 7,
   153, 0, 3, 130, 65, 1, 216, 165, 65, 2, 216, 253, 131, 1, 64, 153, 0, 2, 130, 65, 3, 65, 4, 130, 65, 5, 216, 255,
   80, 0, 0, 0, 0, 0, 0, 0, 1, 0, 0, 0, 0, 0, 0, 0, 9, 216, 254, 216, 255, 80, 0, 0, 0, 0, 0, 0, 0, 1, 0, 0, 0, 0, 0,
   0, 0, 7]

theorem mapReg_decodes : decodeSlab ⟨1, 2⟩ mapReg 0 = .ok mapSlab 8 := by with_unfolding_all rfl

/-- the theorem applied: seven child storables, in element order, none nil -/
theorem mapSlab_children :
    childStorablesM mapSlab.toRaw 0 =
      .ok [.val 2 1, .some (.val 2 2), .val 2 3, .val 2 4, .val 2 5, .ref ⟨1, 9⟩, .ref ⟨1, 7⟩] 0 :=
  (accessors_never_panic mapReg ⟨1, 2⟩ 0 mapSlab 8 mapReg_decodes 0).2.2.2.1

theorem mapSlab_byteSize : byteSizeM mapSlab.toRaw 0 = .ok mapSlab.byteSize 0 :=
  (accessors_never_panic mapReg ⟨1, 2⟩ 0 mapSlab 8 mapReg_decodes 0).2.2.1

/-- a map index slab with two children: `ChildStorables()` allocates two slots and fills both -/
def idxSlab : Slab :=
  Slab.mindex { id := ⟨1, 3⟩, extra := Option.none, childHdrs := [⟨⟨1, 4⟩, 100, 5⟩, ⟨⟨1, 5⟩, 120, 9⟩] }

def idxReg : Bytes :=
  [16, 9, 0, 0, 0, 0, 0, 0, 0, 1, 0, 2, 0, 0, 0, 0, 0, 0, 0, 4, 0, 0, 0, 0, 0, 0, 0, 5, 0, 100, 0, 0, 0, 0, 0, 0, 0,
   5, 0, 0, 0, 0, 0, 0, 0, 9, 0, 120]

theorem idxReg_decodes : decodeSlab ⟨1, 3⟩ idxReg 0 = .ok idxSlab 2 := by with_unfolding_all rfl

theorem idxSlab_children : childStorablesM idxSlab.toRaw 0 = .ok [.ref ⟨1, 4⟩, .ref ⟨1, 5⟩] 2 :=
  (accessors_never_panic idxReg ⟨1, 3⟩ 0 idxSlab 2 idxReg_decodes 0).2.2.2.1

/-- the raw model does express the failure the property excludes: the same map slab with the second
    `elems` slot still nil (as after `make`) makes `ChildStorables()` panic -/
theorem nil_slot_panics (k : Nat) : childStorablesM halfFilledMapSlab k = .panic :=
  childStorables_nil_slot_panics k

end Atree.C19
