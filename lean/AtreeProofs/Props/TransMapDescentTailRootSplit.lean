import AtreeProofs.Props.TransMapDescentTailSplit
import AtreeProofs.Props.TransMapDescentInvR
/-
  MAP DESCENT, round 3 (WP13): the `splitRoot` field of `MRootTailR T (rsOf T) QR` (Props/TransMapDescentInvR.lean), a
  re-wrapping of `MRootTail_splitRoot_rsOf_top` (Props/TransMapDescentTailSplit.lean, invariant `mts_MQtop`: `SInv .. true`,
  not inlined, root size `≤ maxThr + slack1`, `uint64` digests).
  * `MRootTailR_splitRoot_rsOf_of`: the field for ANY handle-level `QR` that implies `mts_MQtop` of the root and follows from it.
  * `MRootTailR_splitRoot_rsOf_partial`: the field for `QR := MQR T D`, with ONE hypothesis about model values, `hS1`: the
    root is at most `slack1` over the band.  It is FORCED: `MQR` bounds the root size by `maxThr + slack T d`, which for a data
    root (`d = 0`) is `maxThr + maxEntry + 16`, but the model's `splitRoot` first gives the root the non-root prefix
    (`+ 16`) and the split theorem of the model proofs (`MTree.split_spec`, through `deroot_facts`) needs the DE-ROOTED
    slab within `maxThr + slack T 0`, i.e. the root within `maxThr + slack1 T 0 = maxThr + maxEntry` - which is what
    `MTree.set_spec` provides for the root (`TSetPost.size_le` is stated with `slack1`).  With `slack1` in `MQR` the
    hypothesis disappears (`MRootTailR_splitRoot_rsOf_of` with `Iff.rfl`-like arguments).
  Helper names carry the prefix `mts_`.
-/
namespace Atree.TransEq
open Atree

section
variable {r : Nat} {T : Nat}

/-- the `splitRoot` field of `MRootTailR T (rsOf T) QR` for any `QR` between `mts_MQtop` of the root and itself -/
theorem MRootTailR_splitRoot_rsOf_of (D : DigestFn (r + 1)) (hT : legalThreshold T = true) (QR : OMap r → Prop)
    (hto : ∀ m : OMap r, QR m → mts_MQtop T D m.d m.root)
    (hfrom : ∀ m : OMap r, mts_MQtop T D m.d m.root → QR m) :
    ∀ (addr : Nat) (m2 : OMap r) (s2 : MHSt r) (x0 : Option DX),
      mds_RootPreR QR addr s2 m2 x0 → MTree.isFull T m2.d m2.root = true →
      match m2.splitRoot s2.ctx with
      | .ok (m3, c3) =>
        ∃ s3, (rsOf T).splitRoot (md_map m2 s2) = (none, md_map m3 s3) ∧ s3.ctx = c3 ∧ s3.popped = s2.popped ∧
          mds_RootPreR QR addr s3 m3 (some (md_extra m3)) ∧
          mds_Delta s2.heap s3.heap (md_ids m2.d m2.root) (md_ids m3.d m3.root)
      | .error e => ∃ M', (rsOf T).splitRoot (md_map m2 s2) = (some e, M') := by
  intro addr m2 s2 x0 hpre hfull
  have hpre' : mds_RootPre (mts_MQtop T D) addr s2 m2 x0 :=
    ⟨hpre.held, hpre.nodup, hpre.addrOk, hpre.ff, hto m2 hpre.inv⟩
  have h := MRootTail_splitRoot_rsOf_top D hT addr m2 s2 x0 hpre' hfull
  rcases hsr : m2.splitRoot s2.ctx with e | ⟨m3, c3⟩
  · rw [hsr] at h
    exact h
  · rw [hsr] at h
    obtain ⟨s3, h1, h2, h3, h4, h5⟩ := h
    exact ⟨s3, h1, h2, h3, ⟨h4.held, h4.nodup, h4.addrOk, h4.ff, hfrom m3 h4.inv⟩, h5⟩

/-- **the `splitRoot` field of `MRootTailR T (rsOf T) (MQR T D)`**, with the root-size hypothesis `hS1` (see the header) -/
theorem MRootTailR_splitRoot_rsOf_partial (D : DigestFn (r + 1)) (hT : legalThreshold T = true)
    (hS1 : ∀ m : OMap r, MQR T D m → (MTree.hdr m.d m.root).size ≤ maxThr T + slack1 T m.d) :
    ∀ (addr : Nat) (m2 : OMap r) (s2 : MHSt r) (x0 : Option DX),
      mds_RootPreR (MQR T D) addr s2 m2 x0 → MTree.isFull T m2.d m2.root = true →
      match m2.splitRoot s2.ctx with
      | .ok (m3, c3) =>
        ∃ s3, (rsOf T).splitRoot (md_map m2 s2) = (none, md_map m3 s3) ∧ s3.ctx = c3 ∧ s3.popped = s2.popped ∧
          mds_RootPreR (MQR T D) addr s3 m3 (some (md_extra m3)) ∧
          mds_Delta s2.heap s3.heap (md_ids m2.d m2.root) (md_ids m3.d m3.root)
      | .error e => ∃ M', (rsOf T).splitRoot (md_map m2 s2) = (some e, M') :=
  MRootTailR_splitRoot_rsOf_of D hT (MQR T D)
    (fun m hq => ⟨hq.1, hq.2.1, hS1 m hq, hq.2.2.2⟩)
    (fun m hq => ⟨hq.1, hq.2.1, Nat.le_trans hq.2.2.1 (Nat.add_le_add_left (slack1_le T m.d) _), hq.2.2.2⟩)

/-- for index-slab roots (`d ≥ 1`) `slack1 = slack`: the hypothesis `hS1` is only about data roots -/
theorem mts_hS1_succ (D : DigestFn (r + 1)) (m : OMap r) (hd : 1 ≤ m.d) (hq : MQR T D m) :
    (MTree.hdr m.d m.root).size ≤ maxThr T + slack1 T m.d := by
  obtain ⟨d, root, ty, cnt, seed⟩ := m
  cases d with
  | zero => cases hd
  | succ d => exact hq.2.2.1

end

end Atree.TransEq
