import AtreeProofs.Props.TransMapDescentGet
import AtreeProofs.MapIds
/-
  MAP DESCENT, the FINAL statements for the reads (WP13): under the map invariant `MapInv` (C05 for maps) the generated
  `OrderedMap.get / Has` over a heap that holds the map's tree return what the model's `OMap.get / has` return on the
  embedded tree, for every depth.  Hypotheses: the invariant, "the heap holds the tree", two `uint64` / `int` range facts
  about MODEL values (first keys are 64-bit digests, fewer than 2^62 children per index slab), and `ElemsSpec` for the
  element layer (discharged by WP11's `EnvB` witnesses: `ElemsSpec.of_EnvB`, and by the closed element layer).
-/
namespace Atree.TransEq
open Atree Atree.Gen.TransMapD

section
variable {r : Nat}

/-- the two range facts about model values the reads need at every index slab -/
def MHdrsFit : (d : Nat) → MTree r d → Prop
  | 0, _ => True
  | d + 1, (m : MMetaSlab (MTree r d)) => mdg_HdrsOk m.childHdrs ∧ ∀ c ∈ m.children, MHdrsFit d c

/-- the routing facts follow from the tree invariant -/
theorem MRouteOk.of_inv (T : Nat) (D : DigestFn (r + 1)) :
    ∀ (d : Nat) (top : Bool) (t : MTree r d), MTreeInv T D d top t → MHdrsFit d t → MRouteOk d t := by
  intro d
  induction d with
  | zero => intro _ _ _ _; trivial
  | succ d ih =>
    intro top (m : MMetaSlab (MTree r d)) hinv hfit
    obtain ⟨_, hch, _, _, hc, _⟩ := hinv
    exact ⟨hch, hfit.1, fun c hcm => ih false c (hc c hcm) (hfit.2 c hcm)⟩

/-- `OrderedMap.get` under the map invariant, every depth, no hypothesis about the descent's generated code -/
theorem Ob_OrderedMap_Get_heap_full (T : Nat) (eb : DEnvB r) (rs : DRestruct r) (D : DigestFn (r + 1)) (cfg : MCfg)
    (k : MKey) (v : Elem) (P : DG r → Prop) (hE : ElemsSpec cfg k v P eb) (hk : k.dig 0 < 2^64)
    (m : OMap r) (s : MHSt r) (depth : Nat) (hd : m.d ≤ depth) (hinv : MapInv T D m)
    (hfit : MHdrsFit m.d m.root) (hh : MHolds s.heap m.d m.root (some (md_extra m)))
    (hP : ∀ sl ∈ MTree.leaves m.d m.root, P sl.elems) :
    OrderedMap_get (envD T eb rs) depth (md_map m s) (.key k) = some (md_rMapGet m s (m.get cfg k)) :=
  Ob_OrderedMap_get_heap T eb rs cfg k v P hE hk m s depth hd hh (MRouteOk.of_inv T D m.d true m.root hinv.tree hfit) hP

/-- `OrderedMap.Has` under the map invariant -/
theorem Ob_OrderedMap_Has_heap_full (T : Nat) (eb : DEnvB r) (rs : DRestruct r) (D : DigestFn (r + 1)) (cfg : MCfg)
    (k : MKey) (v : Elem) (P : DG r → Prop) (hE : ElemsSpec cfg k v P eb) (hk : k.dig 0 < 2^64)
    (m : OMap r) (s : MHSt r) (depth : Nat) (hd : m.d ≤ depth) (hinv : MapInv T D m)
    (hfit : MHdrsFit m.d m.root) (hh : MHolds s.heap m.d m.root (some (md_extra m)))
    (hP : ∀ sl ∈ MTree.leaves m.d m.root, P sl.elems) :
    OrderedMap_Has (envD T eb rs) depth (md_map m s) (.key k) =
      some (match m.has cfg k with
        | .ok b => (b, none, md_map m s)
        | .error e => (false, some e, md_map m s)) :=
  Ob_OrderedMap_Has_heap T eb rs cfg k v P hE hk m s depth hd hh (MRouteOk.of_inv T D m.d true m.root hinv.tree hfit) hP

end
end Atree.TransEq
