import AtreeModel.Codec.Encode
/-
  C04 — "inlined extra data / type info deduplicated in first-use order (no map iteration)"
  (extradata.go:161-380).  Two statements about the encoder's `InlinedExtraData` as the codec model
  has it (`AtreeModel/Codec/Encode.lean`: `addArrayXD`, `addMapXD`, `addCompactXD`,
  `findDuplicateTypeInfo`):

    `extra_data_dedup_first_use_order`   the list of extra-data entries after any sequence of
        `add…ExtraData` calls consists of the FIRST USES, in the order in which they were made: a call
        whose deduplication key (encoded type info for arrays; encoded type info + sorted field names for
        compact maps; none for plain maps, which are never deduplicated) has been seen before adds
        nothing, any other call appends at the end; the index a call returns is the position of the
        first use of its key.  Hence a repeated use, wherever it occurs, changes neither the entries nor
        the index of any other call (`repeated_use_changes_nothing`).
    `findDuplicateTypeInfo_perm`          the list of type infos that are written once and referred to by
        index depends only on the MULTISET of the entries' encoded type infos (it sorts), not on their
        order;
    `findDuplicateTypeInfo_spec`          and is: the encoded type infos that occur at least twice, each
        once, in strictly ascending order.

  The Go code keeps the keys seen so far in two Go maps (`arrayExtraDataSet`, `compactMapTypeSet`) and
  `findDuplicateTypeInfo` returns a Go map; the model's lookups are first-match searches in lists.
  That the two agree needs the maps to be looked up only, never ranged over: the extractor fact
  `C04.extra_data_maps_never_ranged` (Props/SourceFactsDet.lean).
-/
namespace Atree.C04
open Atree Atree.Codec

/-! ### Go's string order on encoded type infos is a strict total order -/

theorem bytesLt_irrefl : ∀ a : Bytes, bytesLt a a = false
  | [] => rfl
  | x :: xs => by simp [bytesLt, bytesLt_irrefl xs]

theorem bytesLt_trans : ∀ {a b c : Bytes}, bytesLt a b = true → bytesLt b c = true → bytesLt a c = true
  | [], [], _, h, _ => by simp [bytesLt] at h
  | [], _ :: _, [], _, h => by simp [bytesLt] at h
  | [], _ :: _, _ :: _, _, _ => by simp [bytesLt]
  | _ :: _, [], _, h, _ => by simp [bytesLt] at h
  | _ :: _, _ :: _, [], _, h => by simp [bytesLt] at h
  | x :: xs, y :: ys, z :: zs, h1, h2 => by
    simp only [bytesLt, Bool.or_eq_true, Bool.and_eq_true, decide_eq_true_eq, beq_iff_eq] at h1 h2 ⊢
    rcases h1 with h1 | ⟨rfl, h1⟩ <;> rcases h2 with h2 | ⟨rfl, h2⟩
    · exact .inl (Nat.lt_trans h1 h2)
    · exact .inl h1
    · exact .inl h2
    · exact .inr ⟨rfl, bytesLt_trans h1 h2⟩

theorem bytesLt_total : ∀ {a b : Bytes}, bytesLt a b = false → bytesLt b a = false → a = b
  | [], [], _, _ => rfl
  | [], _ :: _, h, _ => by simp [bytesLt] at h
  | _ :: _, [], _, h => by simp [bytesLt] at h
  | x :: xs, y :: ys, h1, h2 => by
    simp only [bytesLt, Bool.or_eq_false_iff, decide_eq_false_iff_not] at h1 h2
    have hxy : x = y := by
      have a1 := h1.1
      have a2 := h2.1
      omega
    subst hxy
    simp only [beq_self_eq_true, Bool.true_and] at h1 h2
    rw [bytesLt_total h1.2 h2.2]

theorem bytesLt_asymm {a b : Bytes} (h : bytesLt a b = true) : bytesLt b a = false := by
  cases hb : bytesLt b a with
  | false => rfl
  | true => have := bytesLt_trans h hb; rw [bytesLt_irrefl] at this; cases this

/-- "not after": `a ≤ b` in Go's string order -/
def bytesLe (a b : Bytes) : Prop := bytesLt b a = false

theorem bytesLe_trans {a b c : Bytes} (h1 : bytesLe a b) (h2 : bytesLe b c) : bytesLe a c := by
  unfold bytesLe at *
  cases hca : bytesLt c a with
  | false => rfl
  | true =>
    cases hab : bytesLt a b with
    | true => have := bytesLt_trans hca hab; rw [h2] at this; cases this
    | false => have := bytesLt_total hab h1; subst this; rw [h2] at hca; cases hca

theorem mem_insertBytes {k y : Bytes} : ∀ {l : List Bytes}, y ∈ insertBytes k l ↔ y = k ∨ y ∈ l
  | [] => by simp [insertBytes]
  | x :: xs => by
    unfold insertBytes
    split
    · simp
    · simp only [List.mem_cons, mem_insertBytes (l := xs)]
      constructor
      · rintro (h | h | h)
        · exact .inr (.inl h)
        · exact .inl h
        · exact .inr (.inr h)
      · rintro (h | h | h)
        · exact .inr (.inl h)
        · exact .inl h
        · exact .inr (.inr h)

theorem insertBytes_perm (k : Bytes) : ∀ l : List Bytes, (insertBytes k l).Perm (k :: l)
  | [] => by simp [insertBytes]
  | x :: xs => by
    unfold insertBytes
    split
    · exact List.Perm.refl _
    · exact ((insertBytes_perm k xs).cons x).trans (List.Perm.swap k x xs)

theorem insertBytes_sorted (k : Bytes) : ∀ {l : List Bytes}, l.Pairwise bytesLe → (insertBytes k l).Pairwise bytesLe
  | [], _ => by simp [insertBytes]
  | x :: xs, h => by
    have hx : ∀ y ∈ xs, bytesLe x y := (List.pairwise_cons.mp h).1
    have hxs := (List.pairwise_cons.mp h).2
    unfold insertBytes
    split
    · rename_i hk
      have hkx : bytesLe k x := bytesLt_asymm hk
      refine List.Pairwise.cons ?_ h
      intro y hy
      rcases List.mem_cons.mp hy with rfl | hy
      · exact hkx
      · exact bytesLe_trans hkx (hx _ hy)
    · rename_i hk
      refine List.Pairwise.cons ?_ (insertBytes_sorted k hxs)
      intro y hy
      rcases mem_insertBytes.mp hy with rfl | hy
      · exact Bool.eq_false_iff.mpr hk
      · exact hx _ hy

theorem sortBytes_sorted : ∀ l : List Bytes, (sortBytes l).Pairwise bytesLe
  | [] => List.Pairwise.nil
  | x :: xs => by
    show (insertBytes x (sortBytes xs)).Pairwise bytesLe
    exact insertBytes_sorted x (sortBytes_sorted xs)

theorem sortBytes_perm : ∀ l : List Bytes, (sortBytes l).Perm l
  | [] => List.Perm.refl _
  | x :: xs => by
    show (insertBytes x (sortBytes xs)).Perm (x :: xs)
    exact (insertBytes_perm x _).trans ((sortBytes_perm xs).cons x)

/-- `sort.Strings` forgets the order of its input: two enumerations of the same multiset of strings
    sort to the same slice. -/
theorem sortBytes_eq_of_perm {l1 l2 : List Bytes} (h : l1.Perm l2) : sortBytes l1 = sortBytes l2 := by
  refine List.Perm.eq_of_pairwise ?_ (sortBytes_sorted l1) (sortBytes_sorted l2)
    ((sortBytes_perm l1).trans (h.trans (sortBytes_perm l2).symm))
  intro a b _ _ hab hba
  exact bytesLt_total hba hab

/-! ### `findDuplicateTypeInfo` depends only on the multiset -/

/-- **`findDuplicateTypeInfo` depends only on the multiset of encoded type infos**: two lists of
    extra-data entries whose encoded type infos are permutations of each other — in particular the
    same entries collected in a different order — give the same list of duplicated type infos, in the
    same order, hence the same reference indexes (`encodeTyRef`). -/
theorem findDuplicateTypeInfo_perm (xs ys : List XD)
    (h : (xs.map (fun x => encodeTy x.ty)).Perm (ys.map (fun x => encodeTy x.ty))) :
    findDuplicateTypeInfo xs = findDuplicateTypeInfo ys := by
  have hl : xs.length = ys.length := by simpa using h.length_eq
  unfold findDuplicateTypeInfo
  rw [hl, sortBytes_eq_of_perm h]

theorem findDuplicateTypeInfo_perm' (xs ys : List XD) (h : xs.Perm ys) :
    findDuplicateTypeInfo xs = findDuplicateTypeInfo ys :=
  findDuplicateTypeInfo_perm xs ys (h.map _)

/-! ### What `findDuplicateTypeInfo` computes -/

theorem bytesLt_of_le_of_ne {a b : Bytes} (h : bytesLe a b) (hne : a ≠ b) : bytesLt a b = true := by
  cases hab : bytesLt a b with
  | true => rfl
  | false => exact absurd (bytesLt_total hab h) hne

/-- the scan over a sorted list: which strings it records -/
theorem mem_dupScan_sorted (b : Bytes) : ∀ (l : List Bytes) (prev : Bytes) (e : Bool),
    l.Pairwise bytesLe → (∀ y ∈ l, bytesLe prev y) →
    (b ∈ dupScan prev e l ↔ (b = prev ∧ e = false ∧ prev ∈ l) ∨ (b ≠ prev ∧ 2 ≤ l.count b))
  | [], prev, e, _, _ => by simp [dupScan]
  | x :: rest, prev, e, hs, hp => by
    have hx : ∀ y ∈ rest, bytesLe x y := (List.pairwise_cons.mp hs).1
    have hrest := (List.pairwise_cons.mp hs).2
    have hpx : bytesLe prev x := hp x (by simp)
    unfold dupScan
    by_cases hxp : x = prev
    · subst hxp
      have ih := mem_dupScan_sorted b rest x true hrest hx
      simp only [beq_self_eq_true, if_true]
      cases e with
      | true =>
        simp only [if_true, ih]
        constructor
        · rintro (⟨_, h, _⟩ | ⟨hne, hc⟩)
          · cases h
          · exact .inr ⟨hne, by rw [List.count_cons_of_ne (Ne.symm hne)]; exact hc⟩
        · rintro (⟨_, h, _⟩ | ⟨hne, hc⟩)
          · cases h
          · exact .inr ⟨hne, by rw [List.count_cons_of_ne (Ne.symm hne)] at hc; exact hc⟩
      | false =>
        simp only [Bool.false_eq_true, if_false, List.mem_cons, ih]
        constructor
        · rintro (h | ⟨_, h, _⟩ | ⟨hne, hc⟩)
          · exact .inl ⟨h, trivial, .inl trivial⟩
          · cases h
          · exact .inr ⟨hne, by rw [List.count_cons_of_ne (Ne.symm hne)]; exact hc⟩
        · rintro (⟨h, _, _⟩ | ⟨hne, hc⟩)
          · exact .inl h
          · exact .inr (.inr ⟨hne, by rw [List.count_cons_of_ne (Ne.symm hne)] at hc; exact hc⟩)
    · have hne : (x == prev) = false := by simpa using hxp
      have ih := mem_dupScan_sorted b rest x false hrest hx
      have hlt : bytesLt prev x = true := bytesLt_of_le_of_ne hpx (Ne.symm hxp)
      -- `prev` does not occur any more
      have hnot : prev ∉ x :: rest := by
        intro hm
        rcases List.mem_cons.mp hm with h | h
        · exact hxp h.symm
        · have := hx prev h
          unfold bytesLe at this
          rw [this] at hlt
          cases hlt
      have hc0 : (x :: rest).count prev = 0 := List.count_eq_zero.mpr hnot
      simp only [hne, Bool.false_eq_true, if_false, ih]
      constructor
      · rintro (⟨hb, _, hm⟩ | ⟨hb, hc⟩)
        · subst hb
          refine .inr ⟨hxp, ?_⟩
          rw [List.count_cons_self]
          have := List.count_pos_iff.mpr hm
          omega
        · refine .inr ⟨?_, ?_⟩
          · intro hbp
            subst hbp
            rw [List.count_cons_of_ne hxp] at hc0
            omega
          · rw [List.count_cons_of_ne (Ne.symm hb)]; exact hc
      · rintro (⟨hb, _, hm⟩ | ⟨hb, hc⟩)
        · exact absurd hm hnot
        · by_cases hbx : b = x
          · subst hbx
            rw [List.count_cons_self] at hc
            exact .inl ⟨rfl, trivial, List.count_pos_iff.mp (by omega)⟩
          · rw [List.count_cons_of_ne (Ne.symm hbx)] at hc
            exact .inr ⟨hbx, hc⟩

/-- the scan over a sorted list: strictly ascending, nothing before `prev` (nor `prev` again once recorded) -/
theorem dupScan_sorted : ∀ (l : List Bytes) (prev : Bytes) (e : Bool),
    l.Pairwise bytesLe → (∀ y ∈ l, bytesLe prev y) →
    (dupScan prev e l).Pairwise (fun a b => bytesLt a b = true) ∧
    (∀ d ∈ dupScan prev e l, bytesLe prev d ∧ (e = true → bytesLt prev d = true))
  | [], _, _, _, _ => by simp [dupScan]
  | x :: rest, prev, e, hs, hp => by
    have hx : ∀ y ∈ rest, bytesLe x y := (List.pairwise_cons.mp hs).1
    have hrest := (List.pairwise_cons.mp hs).2
    have hpx : bytesLe prev x := hp x (by simp)
    unfold dupScan
    by_cases hxp : x = prev
    · subst hxp
      obtain ⟨i1, i2⟩ := dupScan_sorted rest x true hrest hx
      simp only [beq_self_eq_true, if_true]
      cases e with
      | true => simp only [if_true]; exact ⟨i1, fun d hd => ⟨(i2 d hd).1, fun _ => (i2 d hd).2 rfl⟩⟩
      | false =>
        simp only [Bool.false_eq_true, if_false]
        refine ⟨List.Pairwise.cons (fun d hd => (i2 d hd).2 rfl) i1, ?_⟩
        intro d hd
        rcases List.mem_cons.mp hd with rfl | hd
        · exact ⟨bytesLt_irrefl _, fun h => by cases h⟩
        · exact ⟨(i2 d hd).1, fun h => by cases h⟩
    · have hne : (x == prev) = false := by simpa using hxp
      obtain ⟨i1, i2⟩ := dupScan_sorted rest x false hrest hx
      have hlt : bytesLt prev x = true := bytesLt_of_le_of_ne hpx (Ne.symm hxp)
      simp only [hne, Bool.false_eq_true, if_false]
      refine ⟨i1, fun d hd => ?_⟩
      have hxd : bytesLe x d := (i2 d hd).1
      have hpd : bytesLt prev d = true := by
        cases hdx : bytesLt x d with
        | true => exact bytesLt_trans hlt hdx
        | false => have := bytesLt_total hdx hxd; subst this; exact hlt
      exact ⟨bytesLt_asymm hpd, fun _ => hpd⟩

/-- **What `findDuplicateTypeInfo` is**: the encoded type infos that occur at least twice among the
    entries, each once, in strictly ascending (Go string) order — a function of the multiset alone. -/
theorem findDuplicateTypeInfo_spec (xs : List XD) :
    (findDuplicateTypeInfo xs).Pairwise (fun a b => bytesLt a b = true) ∧
    ∀ b, b ∈ findDuplicateTypeInfo xs ↔ 2 ≤ (xs.map (fun x => encodeTy x.ty)).count b := by
  unfold findDuplicateTypeInfo
  by_cases hl : xs.length < 2
  · simp only [hl, if_true, List.Pairwise.nil, List.not_mem_nil, false_iff, true_and]
    intro b hc
    have := List.count_le_length (a := b) (l := xs.map (fun x => encodeTy x.ty))
    rw [List.length_map] at this
    omega
  · simp only [hl, if_false]
    have hsorted := sortBytes_sorted (xs.map (fun x => encodeTy x.ty))
    have hperm := sortBytes_perm (xs.map (fun x => encodeTy x.ty))
    cases hsb : sortBytes (xs.map (fun x => encodeTy x.ty)) with
    | nil =>
      simp only [List.Pairwise.nil, List.not_mem_nil, false_iff, true_and]
      intro b
      rw [← hperm.count_eq, hsb]
      simp
    | cons a rest =>
      rw [hsb] at hsorted hperm
      have ha : ∀ y ∈ rest, bytesLe a y := (List.pairwise_cons.mp hsorted).1
      have hrest := (List.pairwise_cons.mp hsorted).2
      refine ⟨(dupScan_sorted rest a false hrest ha).1, fun b => ?_⟩
      rw [mem_dupScan_sorted b rest a false hrest ha, ← hperm.count_eq b]
      by_cases hba : b = a
      · subst hba
        rw [List.count_cons_self]
        constructor
        · rintro (⟨_, _, hm⟩ | ⟨h, _⟩)
          · have := List.count_pos_iff.mpr hm; omega
          · exact absurd rfl h
        · intro hc
          exact .inl ⟨rfl, rfl, List.count_pos_iff.mp (by omega)⟩
      · rw [List.count_cons_of_ne (Ne.symm hba)]
        constructor
        · rintro (⟨h, _, _⟩ | ⟨_, hc⟩)
          · exact absurd h hba
          · exact hc
        · intro hc; exact .inr ⟨hba, hc⟩

/-! ### The `add…ExtraData` calls: entries are the first uses, in order -/

/-- A call of `addArrayExtraData` / `addMapExtraData` / `addCompactMapExtraData` by an inlined child
    that is being encoded. -/
inductive Req where
  | arr (ty : TyInfo)
  | map (x : MapExtra)
  | cmap (x : MapExtra) (hkeys : List Nat) (keys : List (Nat × Nat))
deriving Repr, DecidableEq

/-- The deduplication key: `(compact?, encoded type info, sorted field names)` — the string key of the
    Go map `arrayExtraDataSet` resp. `compactMapTypeSet` (`makeCompactMapTypeID`); plain map extra data
    has none ("not deduplicated because it also contains count and seed"). -/
abbrev Key := Bool × Bytes × List (Nat × Nat)

def Req.key : Req → Option Key
  | .arr ty => some (false, encodeTy ty, [])
  | .map _ => none
  | .cmap x _ keys => some (true, encodeTy x.ty, sortKeys keys)

def xdKey : XD → Option Key
  | .arr ty => some (false, encodeTy ty, [])
  | .map _ => none
  | .cmap x _ keys => some (true, encodeTy x.ty, sortKeys keys)

/-- the entry a first use appends -/
def Req.toXD : Req → XD
  | .arr ty => .arr ty
  | .map x => .map x
  | .cmap x hkeys keys => .cmap x hkeys keys

theorem xdKey_toXD (r : Req) : xdKey r.toXD = r.key := by cases r <;> rfl

/-- the call on the model: `(index returned, entries afterwards)` -/
def addReq (xs : List XD) : Req → Nat × List XD
  | .arr ty => addArrayXD xs ty
  | .map x => addMapXD xs x
  | .cmap x hkeys keys => ((addCompactXD xs x hkeys keys).1, (addCompactXD xs x hkeys keys).2.2)

/-- a sequence of calls: the indexes returned, in order, and the entries afterwards -/
def addReqs : List XD → List Req → List Nat × List XD
  | xs, [] => ([], xs)
  | xs, r :: rs =>
    let a := addReq xs r
    let b := addReqs a.2 rs
    (a.1 :: b.1, b.2)

/-- position of the first entry with deduplication key `k` -/
def firstWithKey (k : Key) (xs : List XD) : Option Nat := findIdxFrom (fun x => xdKey x == some k) xs 0

theorem findIdxFrom_congr {α : Type} {p q : α → Bool} (h : ∀ x, p x = q x) :
    ∀ (l : List α) (j : Nat), findIdxFrom p l j = findIdxFrom q l j
  | [], _ => rfl
  | x :: xs, j => by simp only [findIdxFrom, h x, findIdxFrom_congr h xs]

/-- Every `add…` call is "look the key up; if it is there return its index, otherwise append". -/
theorem addReq_eq (xs : List XD) (r : Req) :
    addReq xs r =
      match r.key with
      | none => (xs.length, xs ++ [r.toXD])
      | some k =>
        match firstWithKey k xs with
        | some i => (i, xs)
        | none => (xs.length, xs ++ [r.toXD]) := by
  cases r with
  | map x => rfl
  | arr ty =>
    have hq : ∀ x : XD, (match x with | .arr t => encodeTy t == encodeTy ty | _ => false)
        = (xdKey x == some ((false, encodeTy ty, []) : Key)) := by
      intro x
      cases x with
      | arr t =>
        show (encodeTy t == encodeTy ty) = (some ((false, encodeTy t, []) : Key) == some (false, encodeTy ty, []))
        rw [Bool.eq_iff_iff]
        simp
      | map m => rfl
      | cmap a b c => rfl
    show addArrayXD xs ty = _
    unfold addArrayXD
    simp only [Req.key, firstWithKey, Req.toXD]
    generalize hA : findIdxFrom _ xs 0 = A
    have e : A = findIdxFrom (fun x => xdKey x == some ((false, encodeTy ty, []) : Key)) xs 0 := by
      rw [← hA]; exact findIdxFrom_congr hq xs 0
    rw [e]
    cases findIdxFrom (fun x => xdKey x == some ((false, encodeTy ty, []) : Key)) xs 0 <;> rfl
  | cmap x hkeys keys =>
    have hq : ∀ y : XD, sameCompactType x.ty keys y
        = (xdKey y == some ((true, encodeTy x.ty, sortKeys keys) : Key)) := by
      intro y
      cases y with
      | arr t => rfl
      | map m => rfl
      | cmap a b c =>
        show (encodeTy a.ty == encodeTy x.ty && sortKeys c == sortKeys keys)
          = (some ((true, encodeTy a.ty, sortKeys c) : Key) == some (true, encodeTy x.ty, sortKeys keys))
        rw [Bool.eq_iff_iff]
        simp
    show ((addCompactXD xs x hkeys keys).1, (addCompactXD xs x hkeys keys).2.2) = _
    unfold addCompactXD
    simp only [Req.key, firstWithKey, Req.toXD]
    generalize hA : findIdxFrom _ xs 0 = A
    have e : A = findIdxFrom (fun y => xdKey y == some ((true, encodeTy x.ty, sortKeys keys) : Key)) xs 0 := by
      rw [← hA]; exact findIdxFrom_congr hq xs 0
    rw [e]
    cases hf : findIdxFrom (fun y => xdKey y == some ((true, encodeTy x.ty, sortKeys keys) : Key)) xs 0 with
    | none => rfl
    | some i =>
      simp only
      cases xs[i]? with
      | none => rfl
      | some y => cases y <;> rfl

/-! #### the lookup -/

theorem findIdxFrom_none {α : Type} {p : α → Bool} :
    ∀ {l : List α} {j : Nat}, findIdxFrom p l j = none ↔ ∀ x ∈ l, p x = false
  | [], _ => by simp [findIdxFrom]
  | x :: xs, j => by
    simp only [findIdxFrom]
    by_cases hp : p x = true
    · simp [hp]
    · have hp' : p x = false := by simpa using hp
      simp [hp', findIdxFrom_none (l := xs) (j := j + 1)]

/-- a successful lookup returns the position of the FIRST match -/
theorem findIdxFrom_first {α : Type} {p : α → Bool} :
    ∀ {l : List α} {j i : Nat}, findIdxFrom p l j = some i →
      j ≤ i ∧ (∃ x, l[i - j]? = some x ∧ p x = true) ∧ ∀ m, m < i - j → ∀ y, l[m]? = some y → p y = false
  | [], _, _, h => by simp [findIdxFrom] at h
  | x :: xs, j, i, h => by
    simp only [findIdxFrom] at h
    by_cases hp : p x = true
    · simp only [hp, if_true, Option.some.injEq] at h
      subst h
      exact ⟨Nat.le_refl _, ⟨x, by simp, hp⟩, fun m hm => by omega⟩
    · simp only [hp] at h
      obtain ⟨h1, ⟨y, hy, hpy⟩, h3⟩ := findIdxFrom_first (l := xs) h
      have hij : i - j = (i - (j + 1)) + 1 := by omega
      refine ⟨by omega, ⟨y, by rw [hij]; simpa using hy, hpy⟩, ?_⟩
      intro m hm z hz
      cases m with
      | zero =>
        simp only [List.getElem?_cons_zero, Option.some.injEq] at hz
        subst hz
        simpa using hp
      | succ m =>
        simp only [List.getElem?_cons_succ] at hz
        exact h3 m (by omega) z hz

/-! #### the keys seen so far -/

/-- the deduplication keys among the entries (what the two Go maps hold) -/
def keysOf (xs : List XD) : List Key := xs.filterMap xdKey

theorem firstWithKey_none {k : Key} {xs : List XD} : firstWithKey k xs = none ↔ k ∉ keysOf xs := by
  unfold firstWithKey keysOf
  rw [findIdxFrom_none]
  simp only [List.mem_filterMap, not_exists, not_and]
  constructor
  · intro h x hx hk
    have := h x hx
    simp [hk] at this
  · intro h x hx
    cases hk : xdKey x with
    | none => simp
    | some k' =>
      have : k' ≠ k := fun e => h x hx (by rw [hk, e])
      simp [this]

theorem firstWithKey_isSome {k : Key} {xs : List XD} : (firstWithKey k xs).isSome ↔ k ∈ keysOf xs := by
  constructor
  · intro hs
    apply Classical.byContradiction
    intro hn
    rw [firstWithKey_none.mpr hn] at hs
    cases hs
  · intro hm
    cases hf : firstWithKey k xs with
    | some _ => rfl
    | none => exact absurd hm (firstWithKey_none.mp hf)

/-- The first uses among the calls `rs`, given the keys already `seen`: a call without a key (plain map)
    is always a first use; a call with a key is one iff the key has not been seen. -/
def firstUses (seen : List Key) : List Req → List Req
  | [] => []
  | r :: rs =>
    match r.key with
    | none => r :: firstUses seen rs
    | some k => if k ∈ seen then firstUses seen rs else r :: firstUses (k :: seen) rs

theorem firstUses_cons_none {seen : List Key} {r : Req} {rs : List Req} (h : r.key = none) :
    firstUses seen (r :: rs) = r :: firstUses seen rs := by
  show (match r.key with
    | none => r :: firstUses seen rs
    | some k => if k ∈ seen then firstUses seen rs else r :: firstUses (k :: seen) rs) = _
  rw [h]

theorem firstUses_cons_seen {seen : List Key} {r : Req} {rs : List Req} {k : Key} (h : r.key = some k)
    (hm : k ∈ seen) : firstUses seen (r :: rs) = firstUses seen rs := by
  show (match r.key with
    | none => r :: firstUses seen rs
    | some k => if k ∈ seen then firstUses seen rs else r :: firstUses (k :: seen) rs) = _
  rw [h]
  exact if_pos hm

theorem firstUses_cons_new {seen : List Key} {r : Req} {rs : List Req} {k : Key} (h : r.key = some k)
    (hm : k ∉ seen) : firstUses seen (r :: rs) = r :: firstUses (k :: seen) rs := by
  show (match r.key with
    | none => r :: firstUses seen rs
    | some k => if k ∈ seen then firstUses seen rs else r :: firstUses (k :: seen) rs) = _
  rw [h]
  exact if_neg hm

theorem keysOf_append (xs ys : List XD) : keysOf (xs ++ ys) = keysOf xs ++ keysOf ys := by
  simp [keysOf, List.filterMap_append]

/-- `firstUses` only asks whether a key has been seen: the seen keys matter as a SET. -/
theorem firstUses_congr {s1 s2 : List Key} (h : ∀ k, k ∈ s1 ↔ k ∈ s2) :
    ∀ rs, firstUses s1 rs = firstUses s2 rs
  | [] => rfl
  | r :: rs => by
    cases hk : r.key with
    | none => rw [firstUses_cons_none hk, firstUses_cons_none hk, firstUses_congr h rs]
    | some k =>
      by_cases hm : k ∈ s1
      · rw [firstUses_cons_seen hk hm, firstUses_cons_seen hk ((h k).mp hm)]
        exact firstUses_congr h rs
      · rw [firstUses_cons_new hk hm, firstUses_cons_new hk (fun h2 => hm ((h k).mpr h2))]
        rw [firstUses_congr (s1 := k :: s1) (s2 := k :: s2) (by intro k'; simp [h k']) rs]

/-- **Extra data is deduplicated in first-use order.**  Starting from ANY entries `xs`, after ANY
    sequence of `add…ExtraData` calls the entries are `xs` followed by the first uses among the calls, in
    the order in which they were made — nothing is ever reordered, removed or inserted in the middle. -/
theorem extra_data_dedup_first_use_order (rs : List Req) :
    ∀ xs : List XD, (addReqs xs rs).2 = xs ++ (firstUses (keysOf xs) rs).map Req.toXD := by
  induction rs with
  | nil => intro xs; simp [addReqs, firstUses]
  | cons r rs ih =>
    intro xs
    show (addReqs (addReq xs r).2 rs).2 = _
    rw [ih, addReq_eq]
    have hkeys : keysOf (xs ++ [r.toXD]) = keysOf xs ++ r.key.toList := by
      rw [keysOf_append]
      simp only [keysOf, List.filterMap_cons, xdKey_toXD, List.filterMap_nil]
      cases r.key <;> rfl
    cases hk : r.key with
    | none =>
      rw [firstUses_cons_none hk]
      simp only
      rw [hkeys, hk]
      simp
    | some k =>
      simp only
      cases hf : firstWithKey k xs with
      | some i =>
        have hm : k ∈ keysOf xs := firstWithKey_isSome.mp (by rw [hf]; rfl)
        rw [firstUses_cons_seen hk hm]
      | none =>
        have hm : k ∉ keysOf xs := firstWithKey_none.mp hf
        rw [firstUses_cons_new hk hm]
        simp only [List.map_cons, List.append_assoc, List.singleton_append]
        congr 3
        refine firstUses_congr ?_ rs
        intro k'
        rw [hkeys, hk]
        simp [or_comm]

/-- **The index a call returns is the position of the first use of its key**: if the key has been seen,
    the index of the FIRST entry with that key (no earlier entry has it) and the entries are unchanged;
    otherwise — and always for a plain map — the call is a first use and gets the next free index. -/
theorem add_index_is_first_use_position (xs : List XD) (r : Req) :
    (∀ k, r.key = some k → k ∈ keysOf xs →
      (addReq xs r).2 = xs ∧
      (∃ x, xs[(addReq xs r).1]? = some x ∧ xdKey x = some k) ∧
      ∀ m, m < (addReq xs r).1 → ∀ y, xs[m]? = some y → xdKey y ≠ some k) ∧
    ((r.key = none ∨ ∃ k, r.key = some k ∧ k ∉ keysOf xs) →
      (addReq xs r).1 = xs.length ∧ (addReq xs r).2 = xs ++ [r.toXD]) := by
  rw [addReq_eq]
  constructor
  · intro k hk hm
    rw [hk]
    simp only
    cases hf : firstWithKey k xs with
    | none => exact absurd hm (firstWithKey_none.mp hf)
    | some i =>
      obtain ⟨_, ⟨x, hx, hpx⟩, h3⟩ := findIdxFrom_first hf
      simp only [Nat.sub_zero] at hx h3
      refine ⟨rfl, ⟨x, hx, by simpa using hpx⟩, ?_⟩
      intro m hm y hy
      simpa using h3 m hm y hy
  · rintro (hk | ⟨k, hk, hm⟩)
    · rw [hk]; exact ⟨rfl, rfl⟩
    · rw [hk]
      simp only [firstWithKey_none.mpr hm]
      exact ⟨trivial, trivial⟩

/-- the indexes returned by a sequence of calls split at any point -/
theorem addReqs_append (xs : List XD) (rs1 rs2 : List Req) :
    addReqs xs (rs1 ++ rs2) =
      ((addReqs xs rs1).1 ++ (addReqs (addReqs xs rs1).2 rs2).1, (addReqs (addReqs xs rs1).2 rs2).2) := by
  induction rs1 generalizing xs with
  | nil => rfl
  | cons r rs ih =>
    show ((addReq xs r).1 :: (addReqs (addReq xs r).2 (rs ++ rs2)).1, (addReqs (addReq xs r).2 (rs ++ rs2)).2) = _
    rw [ih]
    rfl

/-- **A repeated use changes nothing**: a call whose key has been seen — by the entries the encoder
    started with or by an earlier call — can be deleted from (or inserted into) the sequence without
    changing the entries afterwards or the index returned to any other call, before or after it. -/
theorem repeated_use_changes_nothing (xs : List XD) (rs1 rs2 : List Req) (r : Req) (k : Key)
    (hk : r.key = some k) (hseen : k ∈ keysOf (addReqs xs rs1).2) :
    (addReqs xs (rs1 ++ r :: rs2)).2 = (addReqs xs (rs1 ++ rs2)).2 ∧
    ∃ i, (addReqs xs (rs1 ++ r :: rs2)).1 =
      (addReqs xs rs1).1 ++ i :: (addReqs (addReqs xs rs1).2 rs2).1 ∧
      (addReqs xs (rs1 ++ rs2)).1 = (addReqs xs rs1).1 ++ (addReqs (addReqs xs rs1).2 rs2).1 := by
  have hst := ((add_index_is_first_use_position (addReqs xs rs1).2 r).1 k hk hseen).1
  rw [addReqs_append, addReqs_append]
  have hr : addReqs (addReqs xs rs1).2 (r :: rs2) =
      ((addReq (addReqs xs rs1).2 r).1 :: (addReqs (addReq (addReqs xs rs1).2 r).2 rs2).1,
       (addReqs (addReq (addReqs xs rs1).2 r).2 rs2).2) := rfl
  rw [hr, hst]
  exact ⟨rfl, _, rfl, rfl⟩

/-- The keys seen after a sequence of calls are the keys seen before plus the keys of the calls: the
    SET of keys does not depend on the order of the calls (their indexes do, see below). -/
theorem keys_after (rs : List Req) : ∀ (xs : List XD) (k : Key),
    k ∈ keysOf (addReqs xs rs).2 ↔ k ∈ keysOf xs ∨ ∃ r ∈ rs, r.key = some k := by
  induction rs with
  | nil => intro xs k; simp [addReqs]
  | cons r rs ih =>
    intro xs k
    show k ∈ keysOf (addReqs (addReq xs r).2 rs).2 ↔ _
    rw [ih, addReq_eq]
    cases hk : r.key with
    | none =>
      simp only [keysOf_append, List.mem_append, List.mem_cons, exists_eq_or_imp, hk]
      simp [keysOf, xdKey_toXD, hk]
    | some k' =>
      simp only
      cases hf : firstWithKey k' xs with
      | some i =>
        have hm : k' ∈ keysOf xs := firstWithKey_isSome.mp (by rw [hf]; rfl)
        simp only [List.mem_cons, exists_eq_or_imp, hk, Option.some.injEq]
        constructor
        · rintro (h | h)
          · exact .inl h
          · exact .inr (.inr h)
        · rintro (h | h | h)
          · exact .inl h
          · exact .inl (h ▸ hm)
          · exact .inr h
      | none =>
        simp only [keysOf_append, List.mem_append, List.mem_cons, exists_eq_or_imp, hk, Option.some.injEq]
        simp only [keysOf, List.filterMap_cons, xdKey_toXD, hk, List.filterMap_nil, List.mem_singleton]
        constructor
        · rintro ((h | h) | h)
          · exact .inl h
          · exact .inr (.inl h.symm)
          · exact .inr (.inr h)
        · rintro (h | h | h)
          · exact .inl (.inl h)
          · exact .inl (.inr h.symm)
          · exact .inr h

/-! ### Non-vacuity -/
section NonVacuity

private def tA : TyInfo := .plain 1
private def tB : TyInfo := .composite 2
private def mx (t : TyInfo) (n : Nat) : MapExtra := { ty := t, count := n, seed := 7 }

/-- a sequence with repeats of all three kinds: array type A, array type B, A again; a compact map of
    type B with fields (1,10),(1,20), the same type with the fields in the other order (same key), a
    plain map of type B twice (never deduplicated) -/
private def calls : List Req :=
  [.arr tA, .arr tB, .arr tA, .cmap (mx tB 2) [5, 6] [(1, 10), (1, 20)],
   .cmap (mx tB 2) [6, 5] [(1, 20), (1, 10)], .map (mx tB 2), .arr tB, .map (mx tB 2)]

/-- indexes returned and entries afterwards: five entries for eight calls, in first-use order -/
example : addReqs [] calls =
    ([0, 1, 0, 2, 2, 3, 1, 4],
     [.arr tA, .arr tB, .cmap (mx tB 2) [5, 6] [(1, 10), (1, 20)], .map (mx tB 2), .map (mx tB 2)]) := by
  decide

example : (firstUses [] calls).map Req.toXD = (addReqs [] calls).2 := by decide
example := extra_data_dedup_first_use_order calls []

/-- the ORDER of first uses matters (the statement is about order, not only about sets): swapping the
    first two calls swaps their indexes -/
example : (addReqs [] [.arr tB, .arr tA, .arr tA]).1 = [0, 1, 1] ∧
    (addReqs [] [.arr tA, .arr tB, .arr tA]).1 = [0, 1, 0] := by decide

/-- `repeated_use_changes_nothing`: deleting the third call (a repeat of A) -/
example :
    (addReqs [] ([.arr tA, .arr tB] ++ .arr tA :: calls.drop 3)).2 =
      (addReqs [] ([.arr tA, .arr tB] ++ calls.drop 3)).2 ∧
    (addReqs [] ([.arr tA, .arr tB] ++ calls.drop 3)).1 = [0, 1, 2, 2, 3, 1, 4] := by decide

/-- `findDuplicateTypeInfo` on the five entries above: A once, B four times — B is the one duplicate;
    the same for the entries in reverse order; a list with two duplicated type infos comes out sorted
    whatever the order of the entries. -/
example : findDuplicateTypeInfo (addReqs [] calls).2 = [encodeTy tB] ∧
    findDuplicateTypeInfo (addReqs [] calls).2.reverse = [encodeTy tB] ∧
    findDuplicateTypeInfo [.arr tB, .arr tA, .map (mx tA 0), .map (mx tB 0)] = [encodeTy tA, encodeTy tB] ∧
    findDuplicateTypeInfo [.map (mx tA 0), .arr tA, .map (mx tB 0), .arr tB] = [encodeTy tA, encodeTy tB] ∧
    encodeTy tA ≠ encodeTy tB := by decide
example := findDuplicateTypeInfo_perm' _ _ (List.reverse_perm (addReqs [] calls).2)

end NonVacuity

end Atree.C04
