import AtreeProofs.Props.TransMapDescentRemove
/-
  WP13 (map descent, Remove): the whole descent when NO slab on the path is restructured (no split, no merge /
  rebalance): by induction on the depth the generated dispatch `MapSlab_Remove` on the root of a tree HELD by the heap is the
  translation of the model's `MTree.remove`: results, new tree, `Ctx`, and the heap afterwards holds the new tree
  (`MHeapPost`).  Built from `Ob_MapDataSlab_Remove_heap` (leaf) and `Ob_MapMetaDataSlab_Remove_step_store` (one level).
-/
namespace Atree.TransEq
open Atree Atree.Gen.TransMapD

section tree
variable {r : Nat}

/-- what the descent relies on: `x` present iff root and not inlined (leaf); the child headers are the headers of the
    children, first keys / number of children in range (index slab) -/
def mdr_WF : (d : Nat) → MTree r d → Option DX → Prop
  | 0, (s : MDataSlab r), x => x.isSome = s.root ∧ s.inlined = false
  | d + 1, (m : MMetaSlab (MTree r d)), _ =>
    m.childHdrs = m.children.map (MTree.hdr d) ∧ (∀ h ∈ m.childHdrs, h.firstKey < 2^64) ∧ m.childHdrs.length < 2^62 ∧
    ∀ c ∈ m.children, mdr_WF d c none

/-- no slab on the path of `k` is restructured: every child that comes back is neither full nor underflowing (and its
    size is a `uint32`) -/
def mdr_NoRestr (cfg : MCfg) (k : MKey) : (d : Nat) → MTree r d → Ctx → Prop
  | 0, _, _ => True
  | d + 1, (m : MMetaSlab (MTree r d)), c =>
    ∀ i child, MMetaSlab.findChild m.childHdrs (k.dig 0) 0 m.childHdrs.length none (m.childHdrs.length + 1) = some i →
      m.children[i]? = some child →
      mdr_NoRestr cfg k d child c ∧
      ∀ rk rv child' c1, MTree.remove cfg d child k c = .ok (rk, rv, child', c1) →
        (MTree.hdr d child').size < 2^32 ∧ MTree.isFull cfg.T d child' = false ∧ MTree.isUnderflow cfg.T d child' = none

theorem mdr_hdrOf_md_tree (d : Nat) (t : MTree r d) (x : Option DX) : mdr_hdrOf (md_tree d t x) = md_hdr (MTree.hdr d t) := by
  cases d <;> rfl

theorem mdr_isFull_data (T : Nat) (eb : DEnvB r) (rs : DRestruct r) (sl : MDataSlab r) (x : Option DX)
    (hs : sl.hdr.size < 2^32) (hmax : maxThr T < 2^32) :
    MapSlab_IsFull (envD T eb rs) (.dataSlab (md_data sl x)) = some (sl.isFull T) := by
  simp only [MapSlab_IsFull, MapDataSlab_IsFull, md_data, md_hdr, envD_maxThr, Bool.false_eq_true, if_false,
    MDataSlab.isFull]
  simp only [gt_iff_lt, u32_lt hmax hs]

theorem mdr_isFull_meta {α : Type} (T : Nat) (eb : DEnvB r) (rs : DRestruct r) (m : MMetaSlab α) (x : Option DX)
    (hs : m.hdr.size < 2^32) (hmax : maxThr T < 2^32) :
    MapSlab_IsFull (envD T eb rs) (.metaSlab (md_meta m x)) = some (m.isFull T) := by
  simp only [MapSlab_IsFull, MapMetaDataSlab_IsFull, md_meta, md_hdr, envD_maxThr, MMetaSlab.isFull]
  simp only [gt_iff_lt, u32_lt hmax hs]

theorem mdr_isFull_md_tree (T : Nat) (eb : DEnvB r) (rs : DRestruct r) (d : Nat) (t : MTree r d) (x : Option DX)
    (hs : (MTree.hdr d t).size < 2^32) (hmax : maxThr T < 2^32) :
    MapSlab_IsFull (envD T eb rs) (md_tree d t x) = some (MTree.isFull T d t) := by
  cases d with
  | zero => exact mdr_isFull_data T eb rs t x hs hmax
  | succ d => exact mdr_isFull_meta T eb rs t x hs hmax

theorem mdr_isUnderflow_data (T : Nat) (eb : DEnvB r) (rs : DRestruct r) (sl : MDataSlab r) (x : Option DX)
    (hs : sl.hdr.size < 2^32) (hmin : minThr T < 2^32) (hu : sl.isUnderflow T = none) :
    MapSlab_IsUnderflow (envD T eb rs) (.dataSlab (md_data sl x)) = some (0, false) := by
  have hn : ¬ (sl.hdr.size < minThr T) := by
    intro h; simp only [MDataSlab.isUnderflow, if_pos h] at hu; cases hu
  simp only [MapSlab_IsUnderflow, MapDataSlab_IsUnderflow, md_data, md_hdr, envD_minThr, Bool.false_eq_true, if_false,
    ]
  simp only [gt_iff_lt, u32_lt hs hmin, hn, decide_false, Bool.false_eq_true, if_false]

theorem mdr_isUnderflow_meta {α : Type} (T : Nat) (eb : DEnvB r) (rs : DRestruct r) (m : MMetaSlab α) (x : Option DX)
    (hs : m.hdr.size < 2^32) (hmin : minThr T < 2^32) (hu : m.isUnderflow T = none) :
    MapSlab_IsUnderflow (envD T eb rs) (.metaSlab (md_meta m x)) = some (0, false) := by
  have hn : ¬ (m.hdr.size < minThr T) := by
    intro h; simp only [MMetaSlab.isUnderflow, if_pos h] at hu; cases hu
  simp only [MapSlab_IsUnderflow, MapMetaDataSlab_IsUnderflow, md_meta, md_hdr, envD_minThr, Bool.false_eq_true, if_false,
    ]
  simp only [gt_iff_lt, u32_lt hs hmin, hn, decide_false, Bool.false_eq_true, if_false]

theorem mdr_isUnderflow_md_tree (T : Nat) (eb : DEnvB r) (rs : DRestruct r) (d : Nat) (t : MTree r d) (x : Option DX)
    (hs : (MTree.hdr d t).size < 2^32) (hmin : minThr T < 2^32) (hu : MTree.isUnderflow T d t = none) :
    MapSlab_IsUnderflow (envD T eb rs) (md_tree d t x) = some (0, false) := by
  cases d with
  | zero => exact mdr_isUnderflow_data T eb rs t x hs hmin hu
  | succ d => exact mdr_isUnderflow_meta T eb rs t x hs hmin hu

/-- the model's receiver after the child came back (`MMetaSlab.afterChild` before the restructuring test) -/
def mdr_model_m1 {d : Nat} (m : MMetaSlab (MTree r d)) (child' : MTree r d) (i : Nat) : MMetaSlab (MTree r d) :=
  { m with childHdrs := m.childHdrs.set i (MTree.hdr d child'), children := m.children.set i child',
           hdr := { m.hdr with firstKey := if i == 0 then (MTree.hdr d child').firstKey else m.hdr.firstKey } }

theorem mdr_m1_md_meta {d : Nat} (m : MMetaSlab (MTree r d)) (child' : MTree r d) (i : Nat) (x : Option DX) :
    mdr_m1 (md_meta m x) i (md_hdr (MTree.hdr d child')) = md_meta (mdr_model_m1 m child' i) x := by
  simp only [mdr_m1, md_meta, mdr_model_m1, List.map_set, md_hdr]
  by_cases h : i = 0
  · subst h; rfl
  · have : (i == 0) = false := by simpa using h
    simp only [h, if_false, this, Bool.false_eq_true]

/-- `MHolds` depends only on the heap at the identifiers of the tree -/
theorem mdr_MHolds_congr {h h' : SlabID → Option (DSlab r)} :
    ∀ (d : Nat) (t : MTree r d) (x : Option DX), (∀ id ∈ md_ids d t, h' id = h id) → MHolds h d t x → MHolds h' d t x := by
  intro d
  induction d with
  | zero =>
    intro t x hag hh
    simp only [MHolds] at hh ⊢
    rw [hag _ (by simp [md_ids])]
    exact hh
  | succ d ih =>
    intro t x hag hh
    obtain ⟨h1, h2⟩ := hh
    refine ⟨?_, ?_⟩
    · rw [hag _ (by simp [md_ids])]; exact h1
    · intro c hc
      refine ih c none (fun id hid => hag id ?_) (h2 c hc)
      simp only [md_ids, List.mem_cons, List.mem_flatMap]
      exact Or.inr ⟨c, hc, hid⟩

theorem mdr_hdr_id_mem_ids (d : Nat) (t : MTree r d) : (MTree.hdr d t).id ∈ md_ids d t := by
  cases d <;> simp [md_ids, MTree.hdr]

/-- the model's leaf removal keeps the identifier and the `inlined` flag -/
theorem mdr_data_remove_inv {cfg : MCfg} {sl sl' : MDataSlab r} {k : MKey} {c c' : Ctx} {rk : MKey} {rv : Elem}
    (h : MDataSlab.remove cfg sl k c = .ok (rk, rv, sl', c')) : sl'.inlined = sl.inlined ∧ sl'.hdr.id = sl.hdr.id := by
  unfold MDataSlab.remove at h
  simp only [bind, Except.bind, pure, Except.pure] at h
  split at h
  · cases h
  · injection h with h
    simp only [Prod.mk.injEq] at h
    obtain ⟨_, _, h3, _⟩ := h
    subst h3
    exact ⟨rfl, rfl⟩

/-- the model's index-slab removal, taken apart -/
theorem mdr_meta_remove_inv {cfg : MCfg} {d : Nat} {m : MMetaSlab (MTree r d)} {t' : MMetaSlab (MTree r d)} {k : MKey}
    {c c' : Ctx} {rk : MKey} {rv : Elem}
    (h : MTree.remove cfg (d + 1) (m : MMetaSlab (MTree r d)) k c = .ok (rk, rv, t', c')) :
    ∃ i child child' c1,
      MMetaSlab.findChild m.childHdrs (k.dig 0) 0 m.childHdrs.length none (m.childHdrs.length + 1) = some i ∧
      m.children[i]? = some child ∧ MTree.remove cfg d child k c = .ok (rk, rv, child', c1) ∧
      m.afterChild cfg.T child' i c1 = .ok (t', c') := by
  simp only [MTree.remove, bind, Except.bind, pure, Except.pure, throw, throwThe, MonadExceptOf.throw] at h
  split at h
  · cases h
  · rename_i i hf
    split at h
    · cases h
    · rename_i child hc
      split at h
      · cases h
      · rename_i q hq
        obtain ⟨rk1, rv1, child', c1⟩ := q
        simp only at h
        split at h
        · cases h
        · rename_i q2 hq2
          obtain ⟨m', c2⟩ := q2
          injection h with h
          simp only [Prod.mk.injEq] at h
          obtain ⟨h1, h2, h3⟩ := h
          injection h3 with h3 h4
          subst h1 h2 h3 h4
          exact ⟨i, child, child', c1, hf, hc, hq, hq2⟩

/-- `afterChild` when the child is neither full nor underflowing: the receiver is stored -/
theorem mdr_afterChild_store {T : Nat} {d : Nat} (m : MMetaSlab (MTree r d)) (child' : MTree r d) (i : Nat) (c1 : Ctx)
    (hf : MTree.isFull T d child' = false) (hu : MTree.isUnderflow T d child' = none) :
    m.afterChild T child' i c1 = .ok (mdr_model_m1 m child' i, c1.emit (.store m.hdr.id)) := by
  simp only [MMetaSlab.afterChild, hf, hu, Bool.false_eq_true, if_false]
  rfl

end tree
end Atree.TransEq
