import AtreeProofs.Props.TransMapDescentRemove
/-
  WP13 (map descent, Remove): the whole descent when NO slab on the path is restructured (no split, no merge /
  rebalance): by induction on the depth the generated dispatch `MapSlab_Remove` on the root of a tree HELD by the heap is the
  translation of the model's `MTree.remove`: results, new tree, `Ctx`, and the heap afterwards holds the new tree
  (`MHeapPost`).  Built from `Ob_MapDataSlab_Remove_heap` (leaf) and `Ob_MapMetaDataSlab_Remove_step_store` (one level).
-/
namespace Atree.TransEq
open Atree Atree.Gen.TransMapD

section tree
variable {r : Nat}

/-- what the descent relies on: `x` present iff root and not inlined (leaf); the child headers are the headers of the
    children, first keys / number of children in range (index slab) -/
def mdr_WF : (d : Nat) → MTree r d → Option DX → Prop
  | 0, (s : MDataSlab r), x => x.isSome = s.root ∧ s.inlined = false
  | d + 1, (m : MMetaSlab (MTree r d)), _ =>
    m.childHdrs = m.children.map (MTree.hdr d) ∧ (∀ h ∈ m.childHdrs, h.firstKey < 2^64) ∧ m.childHdrs.length < 2^62 ∧
    ∀ c ∈ m.children, mdr_WF d c none

/-- no slab on the path of `k` is restructured: every child that comes back is neither full nor underflowing (and its
    size is a `uint32`) -/
def mdr_NoRestr (cfg : MCfg) (k : MKey) : (d : Nat) → MTree r d → Ctx → Prop
  | 0, _, _ => True
  | d + 1, (m : MMetaSlab (MTree r d)), c =>
    ∀ i child, MMetaSlab.findChild m.childHdrs (k.dig 0) 0 m.childHdrs.length none (m.childHdrs.length + 1) = some i →
      m.children[i]? = some child →
      mdr_NoRestr cfg k d child c ∧
      ∀ rk rv child' c1, MTree.remove cfg d child k c = .ok (rk, rv, child', c1) →
        (MTree.hdr d child').size < 2^32 ∧ MTree.isFull cfg.T d child' = false ∧ MTree.isUnderflow cfg.T d child' = none

theorem mdr_hdrOf_md_tree (d : Nat) (t : MTree r d) (x : Option DX) : mdr_hdrOf (md_tree d t x) = md_hdr (MTree.hdr d t) := by
  cases d <;> rfl

theorem mdr_isFull_data (T : Nat) (eb : DEnvB r) (rs : DRestruct r) (sl : MDataSlab r) (x : Option DX)
    (hs : sl.hdr.size < 2^32) (hmax : maxThr T < 2^32) :
    MapSlab_IsFull (envD T eb rs) (.dataSlab (md_data sl x)) = some (sl.isFull T) := by
  simp only [MapSlab_IsFull, MapDataSlab_IsFull, md_data, md_hdr, envD_maxThr, Bool.false_eq_true, if_false,
    MDataSlab.isFull]
  simp only [gt_iff_lt, u32_lt hmax hs]

theorem mdr_isFull_meta {α : Type} (T : Nat) (eb : DEnvB r) (rs : DRestruct r) (m : MMetaSlab α) (x : Option DX)
    (hs : m.hdr.size < 2^32) (hmax : maxThr T < 2^32) :
    MapSlab_IsFull (envD T eb rs) (.metaSlab (md_meta m x)) = some (m.isFull T) := by
  simp only [MapSlab_IsFull, MapMetaDataSlab_IsFull, md_meta, md_hdr, envD_maxThr, MMetaSlab.isFull]
  simp only [gt_iff_lt, u32_lt hmax hs]

theorem mdr_isFull_md_tree (T : Nat) (eb : DEnvB r) (rs : DRestruct r) (d : Nat) (t : MTree r d) (x : Option DX)
    (hs : (MTree.hdr d t).size < 2^32) (hmax : maxThr T < 2^32) :
    MapSlab_IsFull (envD T eb rs) (md_tree d t x) = some (MTree.isFull T d t) := by
  cases d with
  | zero => exact mdr_isFull_data T eb rs t x hs hmax
  | succ d => exact mdr_isFull_meta T eb rs t x hs hmax

theorem mdr_isUnderflow_data (T : Nat) (eb : DEnvB r) (rs : DRestruct r) (sl : MDataSlab r) (x : Option DX)
    (hs : sl.hdr.size < 2^32) (hmin : minThr T < 2^32) (hu : sl.isUnderflow T = none) :
    MapSlab_IsUnderflow (envD T eb rs) (.dataSlab (md_data sl x)) = some (0, false) := by
  have hn : ¬ (sl.hdr.size < minThr T) := by
    intro h; simp only [MDataSlab.isUnderflow, if_pos h] at hu; cases hu
  simp only [MapSlab_IsUnderflow, MapDataSlab_IsUnderflow, md_data, md_hdr, envD_minThr, Bool.false_eq_true, if_false,
    ]
  simp only [gt_iff_lt, u32_lt hs hmin, hn, decide_false, Bool.false_eq_true, if_false]

theorem mdr_isUnderflow_meta {α : Type} (T : Nat) (eb : DEnvB r) (rs : DRestruct r) (m : MMetaSlab α) (x : Option DX)
    (hs : m.hdr.size < 2^32) (hmin : minThr T < 2^32) (hu : m.isUnderflow T = none) :
    MapSlab_IsUnderflow (envD T eb rs) (.metaSlab (md_meta m x)) = some (0, false) := by
  have hn : ¬ (m.hdr.size < minThr T) := by
    intro h; simp only [MMetaSlab.isUnderflow, if_pos h] at hu; cases hu
  simp only [MapSlab_IsUnderflow, MapMetaDataSlab_IsUnderflow, md_meta, md_hdr, envD_minThr, Bool.false_eq_true, if_false,
    ]
  simp only [gt_iff_lt, u32_lt hs hmin, hn, decide_false, Bool.false_eq_true, if_false]

theorem mdr_isUnderflow_md_tree (T : Nat) (eb : DEnvB r) (rs : DRestruct r) (d : Nat) (t : MTree r d) (x : Option DX)
    (hs : (MTree.hdr d t).size < 2^32) (hmin : minThr T < 2^32) (hu : MTree.isUnderflow T d t = none) :
    MapSlab_IsUnderflow (envD T eb rs) (md_tree d t x) = some (0, false) := by
  cases d with
  | zero => exact mdr_isUnderflow_data T eb rs t x hs hmin hu
  | succ d => exact mdr_isUnderflow_meta T eb rs t x hs hmin hu

/-- the model's receiver after the child came back (`MMetaSlab.afterChild` before the restructuring test) -/
def mdr_model_m1 {d : Nat} (m : MMetaSlab (MTree r d)) (child' : MTree r d) (i : Nat) : MMetaSlab (MTree r d) :=
  { m with childHdrs := m.childHdrs.set i (MTree.hdr d child'), children := m.children.set i child',
           hdr := { m.hdr with firstKey := if i == 0 then (MTree.hdr d child').firstKey else m.hdr.firstKey } }

theorem mdr_m1_md_meta {d : Nat} (m : MMetaSlab (MTree r d)) (child' : MTree r d) (i : Nat) (x : Option DX) :
    mdr_m1 (md_meta m x) i (md_hdr (MTree.hdr d child')) = md_meta (mdr_model_m1 m child' i) x := by
  simp only [mdr_m1, md_meta, mdr_model_m1, List.map_set, md_hdr]
  by_cases h : i = 0
  · subst h; rfl
  · have : (i == 0) = false := by simpa using h
    simp only [h, if_false, this, Bool.false_eq_true]

/-- `MHolds` depends only on the heap at the identifiers of the tree -/
theorem mdr_MHolds_congr {h h' : SlabID → Option (DSlab r)} :
    ∀ (d : Nat) (t : MTree r d) (x : Option DX), (∀ id ∈ md_ids d t, h' id = h id) → MHolds h d t x → MHolds h' d t x := by
  intro d
  induction d with
  | zero =>
    intro t x hag hh
    simp only [MHolds] at hh ⊢
    rw [hag _ (by simp [md_ids])]
    exact hh
  | succ d ih =>
    intro t x hag hh
    obtain ⟨h1, h2⟩ := hh
    refine ⟨?_, ?_⟩
    · rw [hag _ (by simp [md_ids])]; exact h1
    · intro c hc
      refine ih c none (fun id hid => hag id ?_) (h2 c hc)
      simp only [md_ids, List.mem_cons, List.mem_flatMap]
      exact Or.inr ⟨c, hc, hid⟩

theorem mdr_hdr_id_mem_ids (d : Nat) (t : MTree r d) : (MTree.hdr d t).id ∈ md_ids d t := by
  cases d <;> simp [md_ids, MTree.hdr]

/-- the model's leaf removal keeps the identifier and the `inlined` flag -/
theorem mdr_data_remove_inv {cfg : MCfg} {sl sl' : MDataSlab r} {k : MKey} {c c' : Ctx} {rk : MKey} {rv : Elem}
    (h : MDataSlab.remove cfg sl k c = .ok (rk, rv, sl', c')) : sl'.inlined = sl.inlined ∧ sl'.hdr.id = sl.hdr.id := by
  unfold MDataSlab.remove at h
  simp only [bind, Except.bind, pure, Except.pure] at h
  split at h
  · cases h
  · injection h with h
    simp only [Prod.mk.injEq] at h
    obtain ⟨_, _, h3, _⟩ := h
    subst h3
    exact ⟨rfl, rfl⟩

/-- the model's index-slab removal, taken apart -/
theorem mdr_meta_remove_inv {cfg : MCfg} {d : Nat} {m : MMetaSlab (MTree r d)} {t' : MMetaSlab (MTree r d)} {k : MKey}
    {c c' : Ctx} {rk : MKey} {rv : Elem}
    (h : MTree.remove cfg (d + 1) (m : MMetaSlab (MTree r d)) k c = .ok (rk, rv, t', c')) :
    ∃ i child child' c1,
      MMetaSlab.findChild m.childHdrs (k.dig 0) 0 m.childHdrs.length none (m.childHdrs.length + 1) = some i ∧
      m.children[i]? = some child ∧ MTree.remove cfg d child k c = .ok (rk, rv, child', c1) ∧
      m.afterChild cfg.T child' i c1 = .ok (t', c') := by
  simp only [MTree.remove, bind, Except.bind, pure, Except.pure, throw, throwThe, MonadExceptOf.throw] at h
  split at h
  · cases h
  · rename_i i hf
    split at h
    · cases h
    · rename_i child hc
      split at h
      · cases h
      · rename_i q hq
        obtain ⟨rk1, rv1, child', c1⟩ := q
        simp only at h
        split at h
        · cases h
        · rename_i q2 hq2
          obtain ⟨m', c2⟩ := q2
          injection h with h
          simp only [Prod.mk.injEq] at h
          obtain ⟨h1, h2, h3⟩ := h
          injection h3 with h3 h4
          subst h1 h2 h3 h4
          exact ⟨i, child, child', c1, hf, hc, hq, hq2⟩

/-- `afterChild` when the child is neither full nor underflowing: the receiver is stored -/
theorem mdr_afterChild_store {T : Nat} {d : Nat} (m : MMetaSlab (MTree r d)) (child' : MTree r d) (i : Nat) (c1 : Ctx)
    (hf : MTree.isFull T d child' = false) (hu : MTree.isUnderflow T d child' = none) :
    m.afterChild T child' i c1 = .ok (mdr_model_m1 m child' i, c1.emit (.store m.hdr.id)) := by
  simp only [MMetaSlab.afterChild, hf, hu, Bool.false_eq_true, if_false]
  rfl

theorem mdr_split_at {α : Type} (l : List α) (i : Nat) (a : α) (h : l[i]? = some a) :
    ∃ A B, l = A ++ a :: B ∧ A.length = i ∧ ∀ a', l.set i a' = A ++ a' :: B := by
  obtain ⟨hil, hget⟩ := List.getElem?_eq_some_iff.mp h
  refine ⟨l.take i, l.drop (i + 1), ?_, ?_, ?_⟩
  · rw [← hget, ← List.drop_eq_getElem_cons hil, List.take_append_drop]
  · rw [List.length_take]; omega
  · intro a'
    rw [List.set_eq_take_append_cons_drop, if_pos hil]

/-- what the identifiers being distinct gives for the child on the path and its siblings -/
theorem mdr_nodup_facts {d : Nat} (m : MMetaSlab (MTree r d)) (A B : List (MTree r d)) (child : MTree r d)
    (hAB : m.children = A ++ child :: B) (hnd : (md_ids (d + 1) (m : MMetaSlab (MTree r d))).Nodup) :
    (md_ids d child).Nodup ∧ (∀ id ∈ md_ids d child, id ≠ m.hdr.id) ∧
    (∀ c, c ∈ A ∨ c ∈ B → ∀ id ∈ md_ids d c, id ≠ m.hdr.id ∧ id ∉ md_ids d child) := by
  have e : md_ids (d + 1) (m : MMetaSlab (MTree r d)) =
      m.hdr.id :: (A.flatMap (md_ids d) ++ (md_ids d child ++ B.flatMap (md_ids d))) := by
    simp only [md_ids, hAB, List.flatMap_append, List.flatMap_cons]
  rw [e] at hnd
  obtain ⟨hroot, hnd⟩ := List.nodup_cons.mp hnd
  obtain ⟨_, hnd2, hdA⟩ := List.nodup_append.mp hnd
  obtain ⟨hndc, _, hdB⟩ := List.nodup_append.mp hnd2
  simp only [List.mem_append, List.mem_flatMap, not_or, not_exists, not_and] at hroot
  refine ⟨hndc, ?_, ?_⟩
  · intro id hid heq
    exact hroot.2.1 (heq ▸ hid)
  · intro c hc id hid
    rcases hc with hc | hc
    · refine ⟨fun heq => hroot.1 c hc (heq ▸ hid), fun hin => ?_⟩
      exact hdA id (List.mem_flatMap.mpr ⟨c, hc, hid⟩) id (List.mem_append.mpr (Or.inl hin)) rfl
    · refine ⟨fun heq => hroot.2.2 c hc (heq ▸ hid), fun hin => ?_⟩
      exact hdB id hin id (List.mem_flatMap.mpr ⟨c, hc, hid⟩) rfl

end tree
section main
variable {r : Nat} (eb : DEnvB r) (rs : DRestruct r) (cfg : MCfg) (k : MKey) (v : Elem) (P : DG r → Prop)

/-- the statement proved by induction on the depth -/
def mdr_RemoveOk (d : Nat) : Prop :=
  ∀ (t : MTree r d) (x : Option DX) (s : MHSt r) (depth : Nat), d ≤ depth → mdr_WF d t x → (md_ids d t).Nodup →
    MHolds s.heap d t x → mdr_NoRestr cfg k d t s.ctx →
    ∀ rk rv t' c', MTree.remove cfg d t k s.ctx = .ok (rk, rv, t', c') →
    ∃ s', MapSlab_Remove (envD cfg.T eb rs) (MapMetaDataSlab_Remove (envD cfg.T eb rs) depth) (md_tree d t x) s k (u64 0)
            (u64 (k.dig 0)) (.key k) = some (some (.key rk), some (.val rv), none, md_tree d t' x, s') ∧
          s'.ctx = c' ∧ s'.popped = s.popped ∧ MHeapPost s.heap s'.heap t t' x ∧ md_ids d t' = md_ids d t

theorem mdr_leaf_ok (hE : ElemsSpec cfg k v P eb) (hP : ∀ g, P g) (sl : MDataSlab r) (x : Option DX) (s : MHSt r)
    (rec_ : MapMetaDataSlab DX → MHSt r → MKey → UInt64 → UInt64 → SW →
      Option (Option SV × Option SV × Option GE × MapMetaDataSlab DX × MHSt r))
    (hx : x.isSome = sl.root) (hinl : sl.inlined = false) (rk : MKey) (rv : Elem) (sl' : MDataSlab r) (c' : Ctx)
    (hrem : MDataSlab.remove cfg sl k s.ctx = .ok (rk, rv, sl', c')) :
    ∃ s', MapSlab_Remove (envD cfg.T eb rs) rec_ (.dataSlab (md_data sl x)) s k (u64 0) (u64 (k.dig 0)) (.key k) =
            some (some (.key rk), some (.val rv), none, .dataSlab (md_data sl' x), s') ∧
          s'.ctx = c' ∧ s'.popped = s.popped ∧
          MHeapPost s.heap s'.heap (d := 0) (d' := 0) (sl : MDataSlab r) (sl' : MDataSlab r) x ∧ sl'.hdr.id = sl.hdr.id := by
  obtain ⟨hinl', hid⟩ := mdr_data_remove_inv hrem
  rw [hinl] at hinl'
  refine ⟨mdr_leafSt s sl' x c', ?_, rfl, rfl, ?_, hid⟩
  · simp only [MapSlab_Remove]
    rw [Ob_MapDataSlab_Remove_heap cfg.T eb rs cfg k v P hE sl x hx (hP _) s, hrem]
  · refine ⟨?_, ?_, ?_⟩
    · show (mdr_leafSt s sl' x c').heap sl'.hdr.id = some (.dataSlab (md_data sl' x))
      simp only [mdr_leafSt, hinl', Bool.false_eq_true, if_false, if_true]
    · intro id h1 h2
      exact absurd (show id ∈ [sl'.hdr.id] by rw [hid]; exact h1) h2
    · intro id h1 _
      have hne : id ≠ sl'.hdr.id := by
        rw [hid]; intro h; exact h1 (by rw [h]; exact List.mem_singleton.mpr rfl)
      simp only [mdr_leafSt, hinl', Bool.false_eq_true, if_false, hne]

theorem mdr_level_ok (hmax : maxThr cfg.T < 2^32) (hmin : minThr cfg.T < 2^32) (hk : k.dig 0 < 2^64) (d : Nat)
    (ih : mdr_RemoveOk eb rs cfg k d) (m : MMetaSlab (MTree r d)) (x : Option DX) (s : MHSt r) (depth : Nat)
    (hd : d + 1 ≤ depth) (hwf : mdr_WF (d + 1) (m : MMetaSlab (MTree r d)) x)
    (hnd : (md_ids (d + 1) (m : MMetaSlab (MTree r d))).Nodup)
    (hh : MHolds s.heap (d + 1) (m : MMetaSlab (MTree r d)) x)
    (hnr : mdr_NoRestr cfg k (d + 1) (m : MMetaSlab (MTree r d)) s.ctx) (rk : MKey) (rv : Elem)
    (t' : MMetaSlab (MTree r d)) (c' : Ctx)
    (hrem : MTree.remove cfg (d + 1) (m : MMetaSlab (MTree r d)) k s.ctx = .ok (rk, rv, t', c')) :
    ∃ s', MapSlab_Remove (envD cfg.T eb rs) (MapMetaDataSlab_Remove (envD cfg.T eb rs) depth) (.metaSlab (md_meta m x)) s k
            (u64 0) (u64 (k.dig 0)) (.key k) = some (some (.key rk), some (.val rv), none, .metaSlab (md_meta t' x), s') ∧
          s'.ctx = c' ∧ s'.popped = s.popped ∧
          MHeapPost s.heap s'.heap (d := d + 1) (d' := d + 1) (m : MMetaSlab (MTree r d)) (t' : MMetaSlab (MTree r d)) x ∧
          md_ids (d + 1) (t' : MMetaSlab (MTree r d)) = md_ids (d + 1) (m : MMetaSlab (MTree r d)) := by
  obtain ⟨i, child, child', c1, hf, hc, hq, hac⟩ := mdr_meta_remove_inv hrem
  obtain ⟨hhdrs, hfk, hlen, hwfc⟩ := hwf
  obtain ⟨hnrc, hnr2⟩ := hnr i child hf hc
  obtain ⟨hsz, hfull, hunder⟩ := hnr2 rk rv child' c1 hq
  rw [mdr_afterChild_store m child' i c1 hfull hunder] at hac
  injection hac with hac
  injection hac with ht' hc'
  subst ht' hc'
  have hil : i < m.children.length := (List.getElem?_eq_some_iff.mp hc).1
  have hi : i < m.childHdrs.length := by rw [hhdrs, List.length_map]; exact hil
  have hmem : child ∈ m.children := List.mem_of_getElem? hc
  obtain ⟨A, B, hAB, _, hset⟩ := mdr_split_at m.children i child hc
  obtain ⟨hndc, hrootc, hsib⟩ := mdr_nodup_facts m A B child hAB hnd
  obtain ⟨depth', rfl⟩ : ∃ depth', depth = depth' + 1 := ⟨depth - 1, by omega⟩
  obtain ⟨s1, hdisp, hctx1, hpop1, hpost1, hids1⟩ :=
    ih child none s depth' (by omega) (hwfc child hmem) hndc (hh.2 child hmem) hnrc rk rv child' c1 hq
  have hhdr : m.childHdrs.getD i default = MTree.hdr d child := by
    rw [hhdrs, List.getD_eq_getElem?_getD, List.getElem?_map, hc]; rfl
  have hheap : s.heap (m.childHdrs.getD i default).id = some (md_tree d child none) := by
    rw [hhdr]; exact (hh.2 child hmem).root
  have hgo := Ob_MapMetaDataSlab_Remove_step_store cfg.T eb rs m x s k (k.dig 0) depth' hk hfk hlen i hf hi
    (md_tree d child none) (md_tree d child' none) s1 _ _ hheap hdisp
    (by rw [mdr_isFull_md_tree cfg.T eb rs d child' none hsz hmax, hfull]) 0
    (mdr_isUnderflow_md_tree cfg.T eb rs d child' none hsz hmin hunder)
  rw [mdr_hdrOf_md_tree, mdr_m1_md_meta] at hgo
  refine ⟨s1.store m.hdr.id (.metaSlab (md_meta (mdr_model_m1 m child' i) x)), ?_, ?_, ?_, ?_, ?_⟩
  · simp only [MapSlab_Remove]
    rw [hgo]
  · rw [MHSt.store_ctx, hctx1]
  · rw [MHSt.store_popped, hpop1]
  · have hids' : md_ids (d + 1) (mdr_model_m1 m child' i : MMetaSlab (MTree r d)) =
        md_ids (d + 1) (m : MMetaSlab (MTree r d)) := by
      show m.hdr.id :: (m.children.set i child').flatMap (md_ids d) = m.hdr.id :: m.children.flatMap (md_ids d)
      rw [hset child', hAB]
      simp only [List.flatMap_append, List.flatMap_cons, hids1]
    refine ⟨⟨?_, ?_⟩, ?_, ?_⟩
    · show (s1.store m.hdr.id _).heap (mdr_model_m1 m child' i).hdr.id = _
      simp only [MHSt.store_heap, mdr_model_m1, if_true]
    · intro c hcm
      have hcm' : c ∈ A ++ child' :: B := by
        have : (mdr_model_m1 m child' i).children = A ++ child' :: B := hset child'
        rw [← this]; exact hcm
      rcases List.mem_append.mp hcm' with hA | hB
      · refine mdr_MHolds_congr d c none (fun id hid => ?_) (hh.2 c (by rw [hAB]; simp [hA]))
        obtain ⟨h1, h2⟩ := hsib c (Or.inl hA) id hid
        rw [MHSt.store_heap, if_neg h1]
        exact hpost1.frame id h2 (by rw [hids1]; exact h2)
      · rcases List.mem_cons.mp hB with rfl | hB
        · refine mdr_MHolds_congr d c none (fun id hid => ?_) hpost1.holds
          rw [MHSt.store_heap, if_neg (hrootc id (by rw [← hids1]; exact hid))]
        · refine mdr_MHolds_congr d c none (fun id hid => ?_) (hh.2 c (by rw [hAB]; simp [hB]))
          obtain ⟨h1, h2⟩ := hsib c (Or.inr hB) id hid
          rw [MHSt.store_heap, if_neg h1]
          exact hpost1.frame id h2 (by rw [hids1]; exact h2)
    · intro id h1 h2
      rw [hids'] at h2
      exact absurd h1 h2
    · intro id h1 _
      have hne : id ≠ m.hdr.id := fun h => h1 (by rw [h]; simp [md_ids])
      have hnc : id ∉ md_ids d child := fun h => h1 (by
        simp only [md_ids, List.mem_cons, List.mem_flatMap]
        exact Or.inr ⟨child, hmem, h⟩)
      rw [MHSt.store_heap, if_neg hne]
      exact hpost1.frame id hnc (by rw [hids1]; exact hnc)
  · show m.hdr.id :: (m.children.set i child').flatMap (md_ids d) = m.hdr.id :: m.children.flatMap (md_ids d)
    rw [hset child', hAB]
    simp only [List.flatMap_append, List.flatMap_cons, hids1]

/-- the whole descent of `Remove` when no slab on the path is restructured: the generated dispatch on the root of a tree
    held by the heap is the translation of the model's `MTree.remove`; the storage carries the model's `Ctx` and holds the
    new tree (`MHeapPost`) -/
theorem Ob_MapSlab_Remove_heap_noRestructure (hE : ElemsSpec cfg k v P eb) (hP : ∀ g, P g)
    (hmax : maxThr cfg.T < 2^32) (hmin : minThr cfg.T < 2^32) (hk : k.dig 0 < 2^64) (d : Nat) (t : MTree r d)
    (x : Option DX) (s : MHSt r) (depth : Nat) (hd : d ≤ depth) (hwf : mdr_WF d t x) (hnd : (md_ids d t).Nodup)
    (hh : MHolds s.heap d t x) (hnr : mdr_NoRestr cfg k d t s.ctx) (rk : MKey) (rv : Elem) (t' : MTree r d) (c' : Ctx)
    (hrem : MTree.remove cfg d t k s.ctx = .ok (rk, rv, t', c')) :
    ∃ s', MapSlab_Remove (envD cfg.T eb rs) (MapMetaDataSlab_Remove (envD cfg.T eb rs) depth) (md_tree d t x) s k (u64 0)
            (u64 (k.dig 0)) (.key k) = some (some (.key rk), some (.val rv), none, md_tree d t' x, s') ∧
          s'.ctx = c' ∧ s'.popped = s.popped ∧ MHeapPost s.heap s'.heap t t' x ∧ md_ids d t' = md_ids d t := by
  have key : ∀ d, mdr_RemoveOk eb rs cfg k d := by
    intro d
    induction d with
    | zero =>
      intro t x s depth _ hwf _ hh _ rk rv t' c' hrem
      obtain ⟨s', h1, h2, h3, h4, h5⟩ := mdr_leaf_ok eb rs cfg k v P hE hP t x s _ hwf.1 hwf.2 rk rv t' c' hrem
      exact ⟨s', h1, h2, h3, h4, by simp only [md_ids]; rw [h5]⟩
    | succ d ih =>
      intro t x s depth hd hwf hnd hh hnr rk rv t' c' hrem
      exact mdr_level_ok eb rs cfg k hmax hmin hk d ih t x s depth hd hwf hnd hh hnr rk rv t' c' hrem
  exact key d t x s depth hd hwf hnd hh hnr rk rv t' c' hrem
end main

/-! ## non-vacuity -/

namespace MdrEx
open MeiEx
/-- threshold 16: min 8, max 24 -/
def cfg16 : MCfg := { cfg with T := 16 }
def ebx16 : DEnvB 0 := mei_envH (MElems.ops 0) cfg16 k1 v3 (fun c _ => (.nil, false, none, c))
theorem ebx16_ok : ElemsSpec cfg16 k1 v3 (fun _ => True) ebx16 :=
  ElemsSpec.of_EnvB (mei_envH_ok (MElems.ops 0) cfg16 k1 v3 _)
/-- a heap holding the whole tree `mm` (root + two data slabs) -/
def s0h : MHSt 0 :=
  { heap := fun id => if id = ⟨1, 1⟩ then some (.metaSlab (md_meta mm xx)) else s0.heap id, ctx := c0 }

theorem mm_holds : MHolds s0h.heap 1 (mm : MMetaSlab (MTree 0 0)) xx := by
  refine ⟨rfl, ?_⟩
  intro c hc
  have hc' : c ∈ [(dA : MTree 0 0), dB] := hc
  rcases List.mem_cons.mp hc' with rfl | h
  · rfl
  · rcases List.mem_cons.mp h with rfl | h
    · rfl
    · cases h

theorem mm_wf : mdr_WF 1 (mm : MMetaSlab (MTree 0 0)) xx := by
  refine ⟨rfl, by decide, by decide, ?_⟩
  intro c hc
  have hc' : c ∈ [(dA : MTree 0 0), dB] := hc
  rcases List.mem_cons.mp hc' with rfl | h
  · exact ⟨rfl, rfl⟩
  · rcases List.mem_cons.mp h with rfl | h
    · exact ⟨rfl, rfl⟩
    · cases h

theorem mm_noRestr : mdr_NoRestr cfg16 k1 1 (mm : MMetaSlab (MTree 0 0)) s0h.ctx := by
  intro i child hf hc
  have h0 : MMetaSlab.findChild mm.childHdrs (k1.dig 0) 0 mm.childHdrs.length none (mm.childHdrs.length + 1) = some 0 := rfl
  rw [h0] at hf
  injection hf with hf
  subst hf
  have hc' : child = dA := by
    have : mm.children[0]? = some dA := rfl
    exact (Option.some.inj (this.symm.trans hc)).symm
  subst hc'
  refine ⟨trivial, ?_⟩
  intro rk rv child' c1 hq
  have h1 : MTree.remove cfg16 0 (dA : MDataSlab 0) k1 s0h.ctx = .ok (k1, v1, dA', cA) := rfl
  rw [h1] at hq
  injection hq with hq
  injection hq with _ hq
  injection hq with _ hq
  injection hq with hq _
  subst hq
  exact ⟨by decide, rfl, rfl⟩

/-- non-vacuity of `Ob_MapSlab_Remove_heap_noRestructure`: the tree `mm` (depth 1) held by `s0h`, `k1` removed -/
example : ∃ s', MapSlab_Remove (envD 16 ebx16 rsx) (MapMetaDataSlab_Remove (envD 16 ebx16 rsx) 1) (.metaSlab (md_meta mm xx)) s0h k1
      (u64 0) (u64 5) (.key k1) =
      some (some (.key k1), some (.val v1), none, .metaSlab (md_meta (mdr_model_m1 mm dA' 0) xx), s') ∧
    s'.ctx = { ctr := 5, eff := [.store ⟨1, 2⟩, .store ⟨1, 1⟩] } ∧ s'.popped = [] ∧
    MHeapPost s0h.heap s'.heap (d := 1) (d' := 1) (mm : MMetaSlab (MTree 0 0)) (mdr_model_m1 mm dA' 0 : MMetaSlab (MTree 0 0)) xx ∧
    md_ids 1 (mdr_model_m1 mm dA' 0 : MMetaSlab (MTree 0 0)) = [⟨1, 1⟩, ⟨1, 2⟩, ⟨1, 3⟩] :=
  Ob_MapSlab_Remove_heap_noRestructure ebx16 rsx cfg16 k1 v3 _ ebx16_ok (fun _ => trivial) (by decide) (by decide) (by decide)
    1 (mm : MMetaSlab (MTree 0 0)) xx s0h 1 (Nat.le_refl _) mm_wf (by decide) mm_holds mm_noRestr k1 v1 _ _ rfl
end MdrEx

end Atree.TransEq
