import AtreeProofs.Codec.Hoisted
/-
  C06 — Reported slab sizes equal the bytes actually written: the EXACT law with compact maps.

  `C06.enc_len_stor_compact` / `enc_len_mdata_compact` / `enc_len_adata_compact` only say
  `written ≤ reported` when an inlined map is written in the compact form: an encoder that drops
  values satisfies them.  Here the saving is an exact term, `hoisted`
  (AtreeModel/Codec/Limits.lean): per compact-encoded map the 8-byte `hkeyElements` head that is
  replaced by a plain array head of the values, and per key its digest (8 bytes), the single-element
  array head (1 byte) and the key itself; recursively for the values.

      written in place + hoisted = computed size

  Hypotheses as in C06.lean: `Stor.OK` / `MEls.OK` (plain values are values of the harness, one
  digest per element of an `hkeyElements`), `nodupKeys` (the keys of a compact-encoded map are
  distinct — the cached key order of the shared extra-data entry is then a permutation of the map's
  own, so every value is written exactly once).  `hroot`: a root has no sibling.
-/
namespace Atree.C06
open Atree Atree.Codec Atree.Gen

/-- A storable of any shape (wrapped, inlined array / map / compact map at any depth, collision
    groups): bytes written in place plus the bytes the compact form hoists = its computed size. -/
theorem enc_len_stor_exact (s : Stor) (xs : List XD) (ok : s.OK) (nd : s.nodupKeys) :
    (encSt s xs).1.length + s.hoisted = s.size :=
  lenSt_exact s xs ok nd

/-- `hkeyElements` / `singleElements` with inline and external collision groups, compact maps inside. -/
theorem enc_len_elements_exact (els : MEls) (xs : List XD) (ok : els.OK) (nd : els.nodupKeys) :
    (encMEls els xs).1.length + els.hoisted = els.size :=
  lenMEls_exact els xs ok nd

/-- Map data slab (root / non-root / external collision group), inlined children in any form: encoded
    length, plus 16 exactly when a non-root slab has no right sibling, plus the bytes hoisted by
    compact maps, equals the computed size plus the root's extra-data section plus the shared
    inlined-extra-data section. -/
theorem enc_len_mdata_exact (s : MapData) (ok : s.els.OK) (nd : s.els.nodupKeys)
    (hroot : s.extra.isSome = true → s.next = SlabID.undef) :
    (encodeMapData s).length + (if s.extra.isNone ∧ s.next = SlabID.undef then 16 else 0) + s.els.hoisted
      = s.size + mapExtraLen s.extra + (encodeIEDSection (encMEls s.els []).2).length :=
  Codec.enc_len_mdata_exact s ok nd hroot

/-- The same for an array data slab whose elements are general storables. -/
theorem enc_len_adata_exact (a : ArrData) (ok : okSts a.elems) (nd : nodupKeysSts a.elems)
    (hroot : a.ty.isSome = true → a.next = SlabID.undef) :
    (encodeArrData a).length + (if a.ty.isNone ∧ a.next = SlabID.undef then 16 else 0) + hoistedSts a.elems
      = a.size + (match a.ty with | some t => (encodeExtraData t).length | none => 0) +
          (encodeIEDSection (encSts a.elems []).2).length :=
  Codec.enc_len_adata_exact a ok nd hroot

/-- … and for a large-value slab (the Go encoder refuses a storable with an inlined slab there, so in
    every register it writes `hoisted = 0`; the byte-level statement holds regardless). -/
theorem enc_len_storableG_exact (s : Stor) (ok : s.OK) (nd : s.nodupKeys) :
    (encodeStorableSlabG s).length + s.hoisted = versionAndFlagSize + s.size :=
  Codec.enc_len_storableG_exact s ok nd

/-- Without compact maps nothing is hoisted (and `nodupKeys` holds), so the exact law contains the
    `noCompact` one (`enc_len_stor`, `enc_len_mdata`, `enc_len_adata`, `enc_len_storableG`). -/
theorem hoisted_zero_of_noCompact :
    (∀ (s : Stor), s.noCompact → s.hoisted = 0 ∧ s.nodupKeys) ∧
    (∀ (els : MEls), els.noCompact → els.hoisted = 0 ∧ els.nodupKeys) ∧
    (∀ (l : List Stor), noCompactSts l → hoistedSts l = 0 ∧ nodupKeysSts l) :=
  ⟨fun s nc => ⟨Stor.hoisted_noCompact s nc, Stor.nodupKeys_of_noCompact s nc⟩,
   fun els nc => ⟨MEls.hoisted_noCompact els nc, MEls.nodupKeys_of_noCompact els nc⟩,
   fun l nc => ⟨hoistedSts_noCompact l nc, nodupKeysSts_of_noCompact l nc⟩⟩

/-- the `noCompact` law as a corollary of the exact one -/
theorem enc_len_stor_of_exact (s : Stor) (xs : List XD) (ok : s.OK) (nc : s.noCompact) :
    (encSt s xs).1.length = s.size := by
  have h := enc_len_stor_exact s xs ok (hoisted_zero_of_noCompact.1 s nc).2
  rw [(hoisted_zero_of_noCompact.1 s nc).1] at h
  exact h

/-- … and the `≤` law: the exact law is the stronger statement. -/
theorem enc_len_stor_le_of_exact (s : Stor) (xs : List XD) (ok : s.OK) (nd : s.nodupKeys) :
    (encSt s xs).1.length ≤ s.size := by
  have h := enc_len_stor_exact s xs ok nd
  omega

/-! ### non-vacuity: two same-typed compact maps, the second with its keys in the other order -/

/-- a composite-typed inlined map with the two plain keys `(2,5)`, `(2,6)`; values: a plain value and
    a wrapped one -/
def exCompact1 : Stor :=
  .map { ty := .composite 7, count := 2, seed := 11 } 3
    (.hkey 0 [100, 200]
      [.single (.mk (.val 2 5) (.val 3 9)), .single (.mk (.val 2 6) (.some (.val 2 1)))])

/-- the same type and key set, keys in the other order (its values are written in the first map's
    cached key order) -/
def exCompact2 : Stor :=
  .map { ty := .composite 7, count := 2, seed := 12 } 4
    (.hkey 0 [300, 400]
      [.single (.mk (.val 2 6) (.val 4 70000)), .single (.mk (.val 2 5) (.val 2 3))])

/-- a root map data slab holding both as values -/
def exCompactSlab : MapData :=
  { id := ⟨1, 2⟩, next := SlabID.undef, extra := some { ty := .plain 1, count := 2, seed := 5 },
    els := .hkey 0 [10, 20] [.single (.mk (.val 2 1) exCompact1), .single (.mk (.val 2 2) exCompact2)],
    anySize := false, group := false }

theorem exCompact1_keys :
    compactKeys { ty := .composite 7, count := 2, seed := 11 }
      [.single (.mk (.val 2 5) (.val 3 9)), .single (.mk (.val 2 6) (.some (.val 2 1)))]
      = some [(2, 5), (2, 6)] := by decide

theorem exCompact2_keys :
    compactKeys { ty := .composite 7, count := 2, seed := 12 }
      [.single (.mk (.val 2 6) (.val 4 70000)), .single (.mk (.val 2 5) (.val 2 3))]
      = some [(2, 6), (2, 5)] := by decide

theorem exCompact1_nodup : exCompact1.nodupKeys := by
  refine ⟨?_, ⟨trivial, trivial⟩, ⟨trivial, trivial⟩, trivial⟩
  intro keys h
  rw [exCompact1_keys] at h
  cases h
  decide

theorem exCompact2_nodup : exCompact2.nodupKeys := by
  refine ⟨?_, ⟨trivial, trivial⟩, ⟨trivial, trivial⟩, trivial⟩
  intro keys h
  rw [exCompact2_keys] at h
  cases h
  decide

theorem exCompact1_ok : exCompact1.OK := by
  refine ⟨rfl, ⟨?_, ?_⟩, ⟨?_, ?_⟩, trivial⟩ <;> (simp only [Stor.OK]; decide)

theorem exCompact2_ok : exCompact2.OK := by
  refine ⟨rfl, ⟨?_, ?_⟩, ⟨?_, ?_⟩, trivial⟩ <;> (simp only [Stor.OK]; decide)

theorem exCompactSlab_ok : exCompactSlab.els.OK :=
  ⟨rfl, ⟨by simp only [Stor.OK]; decide, exCompact1_ok⟩, ⟨by simp only [Stor.OK]; decide, exCompact2_ok⟩, trivial⟩

theorem exCompactSlab_nodup : exCompactSlab.els.nodupKeys :=
  ⟨⟨trivial, exCompact1_nodup⟩, ⟨trivial, exCompact2_nodup⟩, trivial⟩

/-- the hypotheses of `enc_len_mdata_exact` are met by a slab with two compact maps sharing one
    extra-data entry, and the saving is not zero: 29 bytes per map (7 for the replaced head, 2 × 11
    for digests, element heads and keys) -/
theorem enc_len_mdata_exact_nonvacuous :
    exCompactSlab.els.OK ∧ exCompactSlab.els.nodupKeys ∧
    (exCompactSlab.extra.isSome = true → exCompactSlab.next = SlabID.undef) ∧
    exCompactSlab.els.hoisted = 58 ∧ exCompact1.hoisted = 29 ∧
    (encMEls exCompactSlab.els []).2.length = 1 :=
  ⟨exCompactSlab_ok, exCompactSlab_nodup, fun _ => rfl, by decide, by decide, by decide⟩

example : (encSt exCompact1 []).1.length + 29 = exCompact1.size := by
  have := enc_len_stor_exact exCompact1 [] exCompact1_ok exCompact1_nodup
  rw [enc_len_mdata_exact_nonvacuous.2.2.2.2.1] at this
  exact this

end Atree.C06
