import AtreeProofs.Props.TransDescentSet
import AtreeProofs.Props.TransDescentSplit
import AtreeProofs.Props.TransDescentRoute
import AtreeProofs.Props.TransDescentTopInsert
import AtreeProofs.Array.Top
/-
  TRANSLATION EQUIVALENCE, the DESCENT (WP12): `Array.set` at the TOP LEVEL over the heap environment `envH T`
  (Trans/Descent.lean).  `notifyParentIfNeeded` / `setCallbackWithChild` are the identity in `envH`, so the last part of
  the join point `Array_set.k1` returns `some (existingStorable, none, a)`.

  1. the generated code: `topSet_k1_data / _many / _single` (the join point on a data root, on an index root that does
     not have exactly one child, on an index root with one child: `promoteChildAsNewRoot`), `topSet_descent`
     (`Array.set` in terms of the result of `ArraySlab.Set` on the root: error / root full -> `splitRoot`, then the join
     point / the join point).
  2. the model: `topSet_unfold` (`Arr.set` in its parts), `topSet_promote_id`, `topSet_splitRoot_two` (the root built by
     `splitRoot` has two children: the promotion cannot fire right after a root split).
  3. heaps: `topSet_promote_heapPost`: the store + remove of `promoteChildAsNewRoot` after a descent whose heap
     condition is `HeapPost h0 h2 t m` give `HeapPost h0 h3 t newRoot` (the root identifier is re-used by the promoted
     child, the child's identifier is gone, the slabs below the child are untouched).  The FRAME clause at the child's
     identifier needs: if that identifier is not one of the original tree, it was not in the original heap - supplied
     from `FreshFree` + `Repl.ids` of the descent.
  4. `topSet_k1_heap` (the join point after the descent, any depth), `Sl_Array_set_heap` (MAIN; the tails of the descent
     carried as `SetTailsOn`), `Sl_Array_set_heap_of_tails` (`∀ d' < a.d, SplitTailHyp T d' ∧ MorTailHyp T d'`),
     `Sl_Array_set_heap_noRestructure` (unconditional), `Sl_Array_set_heap_inv`, `_inv_noRestructure` (under `ArrInv`),
     `topSet_set_ctr`, `FreshFree.after_arr_set` (the hypotheses are re-established), `Sl_Array_set_heap_ok` (in range,
     existential form with everything needed to chain calls).
  5. non-vacuity: a root split at depth 0 (`exD`), a plain store at depth 1 (`exA`), the promotion branch of the join
     point (`slRSingle`) - instances of the theorems.  (The evaluation of the generated `Array_set` on a merge +
     promotion is `Sl_Array_set_heap_ex_merge_promote` in Props/TransDescentEx.lean.)
  The root split after the descent is `Sl_Array_splitRoot_heap_full` of Props/TransDescentTopInsert.lean (imported).
  With `splitTailHyp_all` (Props/TransDescentSetFull.lean, not imported here) the `SplitTailHyp` half of the tail
  hypothesis is `fun d' _ => splitTailHyp_all T hT d'`.
  Core Lean only.
-/
set_option linter.unusedSimpArgs false
set_option linter.unusedVariables false
namespace Atree.TransEq
open Atree Atree.Gen

/-! ## 1. the generated code: the join point and the descent -/

/-- the join point on a root DATA slab: nothing to promote -/
theorem topSet_k1_data (T : Nat) (t : ATree 0) (ty : Nat) (s : HSt) (i : UInt64) (v ex : Option Elem)
    (err : Option AErr) :
    TransSl.Array_set.k1 (envH T) (trArrH ⟨0, t, ty⟩ s) i v ex err = some (ex, none, trArrH ⟨0, t, ty⟩ s) := rfl

/-- the join point on a root INDEX slab that does not have exactly one child: nothing to promote -/
theorem topSet_k1_many (T d : Nat) (m : MetaSlab (ATree d)) (ty : Nat) (s : HSt) (i : UInt64) (v ex : Option Elem)
    (err : Option AErr) (hlen : m.childHdrs.length ≠ 1) :
    TransSl.Array_set.k1 (envH T) (trArrH ⟨d + 1, m, ty⟩ s) i v ex err =
      some (ex, none, trArrH ⟨d + 1, m, ty⟩ s) := by
  have hd : TransSl.ArraySlab_IsData (envH T) (.metaSlab (trMeta m)) = false := rfl
  have hroot : (trArrH ⟨d + 1, m, ty⟩ s).root = some (.metaSlab (trMeta m)) := rfl
  have hne : decide ((Int.ofNat (trMeta m).childrenHeaders.length) = (1 : Int)) = false := by
    rw [trMeta_childrenHeaders, List.length_map]
    simp only [decide_eq_false_iff_not]
    intro h
    exact hlen (Int.ofNat.inj h)
  simp only [TransSl.Array_set.k1, hroot, hd, hne, Bool.not_false, Bool.false_eq_true, if_true, if_false, envH_notify,
    envH_setCallback, Option.isSome_none]

/-- the join point on a root INDEX slab with exactly one child that the heap returns: `promoteChildAsNewRoot` -/
theorem topSet_k1_single (T d : Nat) (m : MetaSlab (ATree d)) (ty : Nat) (s : HSt) (i : UInt64) (v ex : Option Elem)
    (err : Option AErr) (h : Hdr) (child : ATree d) (hch : m.childHdrs = [h]) (hcs : m.children = [child])
    (hlook : s.heap h.id = some (trTree d child)) (hroot : m.root = true)
    (hsz : d = 0 → arrayDataSlabPrefixSize ≤ (ATree.hdr d child).size) :
    TransSl.Array_set.k1 (envH T) (trArrH ⟨d + 1, m, ty⟩ s) i v ex err =
      some (ex, none, trArrH ((⟨d + 1, m, ty⟩ : Arr).promoteIfSingleChild s.ctx).1
        ((s.store m.hdr.id (some (trTree d (ATree.setRoot d (ATree.setId d (promoteChild1 d child) m.hdr.id)
          true)))).remove h.id)) := by
  have hd : TransSl.ArraySlab_IsData (envH T) (.metaSlab (trMeta m)) = false := rfl
  have hr : (trArrH ⟨d + 1, m, ty⟩ s).root = some (.metaSlab (trMeta m)) := rfl
  have hone : decide ((Int.ofNat (trMeta m).childrenHeaders.length) = (1 : Int)) = true := by
    rw [trMeta_childrenHeaders, hch]; rfl
  have hidx : TransSl.goIdx (trMeta m).childrenHeaders (0 : Int) = some (trHdr h) := by
    rw [trMeta_childrenHeaders, hch]; rfl
  have hp := Sl_Array_promoteChildAsNewRoot_heap T m ty s h child hch hcs hlook hroot hsz
  simp only [TransSl.Array_set.k1, hr, hd, hone, hidx, trHdr_slabID, hp, Bool.not_false, Bool.false_eq_true, if_true,
    if_false, envH_notify, envH_setCallback, Option.isSome_none]

/-- `Array.set` in terms of the result of `ArraySlab.Set` on the root: error / root full -> `splitRoot` then the join
    point / the join point -/
theorem topSet_descent (T : Nat) (a : Arr) (s : HSt) (depth : Nat) (i : UInt64) (v : Option Elem)
    (r : Option Elem × Option AErr × GSlab × HSt)
    (hgen : TransSl.ArraySlab_Set (envH T) (TransSl.ArrayMetaDataSlab_Set (envH T) depth) (trTree a.d a.root) s
      a.addr i v = some r) :
    TransSl.Array_set (envH T) depth (trArrH a s) i v =
      if r.2.1.isSome then some (none, r.2.1, ({ Storage := r.2.2.2, root := some r.2.2.1 } : HArray))
      else if TransSl.ArraySlab_IsFull (envH T) r.2.2.1 then
        match TransSl.Array_splitRoot (envH T) ({ Storage := r.2.2.2, root := some r.2.2.1 } : HArray) with
        | some r5 =>
          if r5.1.isSome then some (none, r5.1, r5.2) else TransSl.Array_set.k1 (envH T) r5.2 i v r.1 r5.1
        | none => none
      else TransSl.Array_set.k1 (envH T) ({ Storage := r.2.2.2, root := some r.2.2.1 } : HArray) i v r.1 r.2.1 := by
  simp only [TransSl.Array_set, trArrH_root, Sl_Array_Address_heap, trArrH_Storage, hgen]
  by_cases h1 : r.2.1.isSome = true
  · simp only [h1, if_true]
  · simp only [h1, Bool.false_eq_true, if_false]
    by_cases h2 : TransSl.ArraySlab_IsFull (envH T) r.2.2.1 = true
    · simp only [h2, if_true]
      cases TransSl.Array_splitRoot (envH T) ({ Storage := r.2.2.2, root := some r.2.2.1 } : HArray) <;> rfl
    · simp only [h2, Bool.false_eq_true, if_false]

/-! ## 2. the model -/

/-- `Arr.set` in terms of its parts -/
theorem topSet_unfold (T : Nat) (a : Arr) (i : Nat) (v : Elem) (c : Ctx) :
    a.set T i v c =
      match ATree.set T a.d a.root i v c with
      | .error e => .error e
      | .ok (old, t', c1) =>
        if ATree.isFull T a.d t' = true then
          match Arr.splitRoot ⟨a.d, t', a.ty⟩ c1 with
          | .error e => .error e
          | .ok (a2, c2) => .ok (old, (a2.promoteIfSingleChild c2).1, (a2.promoteIfSingleChild c2).2)
        else .ok (old, ((⟨a.d, t', a.ty⟩ : Arr).promoteIfSingleChild c1).1,
          ((⟨a.d, t', a.ty⟩ : Arr).promoteIfSingleChild c1).2) := by
  unfold Arr.set
  cases ATree.set T a.d a.root i v c with
  | error e => rfl
  | ok res =>
    obtain ⟨old, t', c1⟩ := res
    by_cases hfull : ATree.isFull T a.d t' = true
    · simp only [bind, Except.bind, hfull, if_true]
      cases Arr.splitRoot ⟨a.d, t', a.ty⟩ c1 with
      | error e => rfl
      | ok p => rfl
    · simp only [bind, Except.bind, hfull, Bool.false_eq_true, if_false]; rfl

/-- `promoteIfSingleChild` on an index root that does not have exactly one child: nothing happens -/
theorem topSet_promote_id (d : Nat) (m : MetaSlab (ATree d)) (ty : Nat) (c : Ctx) (h : m.children.length ≠ 1) :
    Arr.promoteIfSingleChild ⟨d + 1, ofMeta m, ty⟩ c = (⟨d + 1, ofMeta m, ty⟩, c) := by
  unfold Arr.promoteIfSingleChild ofMeta
  simp only
  split
  · rename_i h1 h2; rw [h2] at h; simp at h
  · rfl

/-- the root built by `splitRoot` has two children -/
theorem topSet_splitRoot_two (d : Nat) (t : ATree d) (ty : Nat) (c : Ctx) (new : MetaSlab (ATree d)) (c2 : Ctx)
    (h : Arr.splitRoot ⟨d, t, ty⟩ c = .ok (⟨d + 1, ofMeta new, ty⟩, c2)) :
    new.childHdrs.length = 2 ∧ new.children.length = 2 := by
  rw [splitRoot_eq] at h
  cases hs : ATree.split d (ATree.setId d (ATree.setRoot d (adjSplit d t) false) ⟨(ATree.hdr d t).id.addr, c.ctr + 1⟩)
      (c.alloc (ATree.hdr d t).id.addr).2 with
  | error e => rw [hs] at h; cases h
  | ok p =>
    rw [hs] at h
    simp only [bind, Except.bind, pure, Except.pure, Except.ok.injEq, Prod.mk.injEq, Arr.mk.injEq, heq_eq_eq,
      true_and] at h
    obtain ⟨h1, _⟩ := h
    have h1 : mkRoot (ATree.hdr d t).id p.1 p.2.1 = new := h1.1
    subst h1
    exact ⟨rfl, rfl⟩

/-! ## 3. heaps: the promotion after the descent -/
section heapTop
open ATree MetaSlab

/-- the heap holds every slab strictly below the root of `t` -/
def topSet_Below (h : SlabID → Option GSlab) : (d : Nat) → ATree d → Prop
  | 0, _ => True
  | d + 1, (m : MetaSlab (ATree d)) => ∀ c ∈ m.children, Holds h d c

theorem topSet_holds_iff_below (h : SlabID → Option GSlab) : ∀ (d : Nat) (t : ATree d),
    Holds h d t ↔ h (hdr d t).id = some (trTree d t) ∧ topSet_Below h d t
  | 0, t => ⟨fun h => ⟨h, trivial⟩, fun h => h.1⟩
  | d + 1, t => Iff.rfl

theorem topSet_slabIds_eq_cons : ∀ (d : Nat) (t : ATree d), slabIds d t = (hdr d t).id :: (slabIds d t).tail
  | 0, _ => rfl
  | _ + 1, _ => rfl

theorem topSet_below_congr {h h' : SlabID → Option GSlab} : ∀ {d : Nat} {t : ATree d}, topSet_Below h d t →
    (∀ id ∈ (slabIds d t).tail, h' id = h id) → topSet_Below h' d t
  | 0, _, _, _ => trivial
  | d + 1, t, hb, heq => by
    intro c hc
    refine (hb c hc).congr (fun id hid => heq id ?_)
    show id ∈ (t : MetaSlab (ATree d)).children.flatMap (slabIds d)
    exact List.mem_flatMap.2 ⟨c, hc, hid⟩

/-- the promoted child: identifiers, and the slabs below it are those below the child -/
theorem topSet_newRoot_struct : ∀ (d : Nat) (child : ATree d) (rid : SlabID),
    slabIds d (setRoot d (setId d (promoteChild1 d child) rid) true) = rid :: (slabIds d child).tail ∧
    (hdr d (setRoot d (setId d (promoteChild1 d child) rid) true)).id = rid ∧
    ∀ h, topSet_Below h d child → topSet_Below h d (setRoot d (setId d (promoteChild1 d child) rid) true)
  | 0, _, _ => ⟨rfl, rfl, fun _ _ => trivial⟩
  | _ + 1, _, _ => ⟨rfl, rfl, fun _ hb => hb⟩

/-- the heap condition of `promoteChildAsNewRoot` (the new root stored under the root identifier, the child's
    identifier removed) composed with that of the descent.  `hfresh`: if the child's identifier is not one of the
    original tree, it was not in the original heap (from `FreshFree`). -/
theorem topSet_promote_heapPost {d0 d : Nat} (t : ATree d0) (m : MetaSlab (ATree d)) (child new : ATree d)
    (h0 h2 h3 : SlabID → Option GSlab)
    (hch : m.children = [child]) (hnd : (slabIds (d + 1) (ofMeta m)).Nodup)
    (hnew_ids : slabIds d new = m.hdr.id :: (slabIds d child).tail) (hnew_id : (hdr d new).id = m.hdr.id)
    (hbelow : ∀ h, topSet_Below h d child → topSet_Below h d new)
    (hh3 : ∀ id, h3 id = if id = (hdr d child).id then none else if id = m.hdr.id then some (trTree d new)
      else h2 id)
    (hfresh : (hdr d child).id ∉ slabIds d0 t → h0 (hdr d child).id = none)
    (hP : HeapPost h0 h2 t (ofMeta m)) : HeapPost h0 h3 t new := by
  have hm : slabIds (d + 1) (ofMeta m) = m.hdr.id :: (hdr d child).id :: (slabIds d child).tail := by
    rw [slabIds_succ, hch]
    simp only [List.flatMap_cons, List.flatMap_nil, List.append_nil]
    rw [← topSet_slabIds_eq_cons d child]
  rw [hm] at hnd
  obtain ⟨hroot_nin, hnd2⟩ := List.nodup_cons.1 hnd
  obtain ⟨hchild_nin, _⟩ := List.nodup_cons.1 hnd2
  have hne : m.hdr.id ≠ (hdr d child).id := fun e => hroot_nin (by rw [e]; exact List.mem_cons_self)
  have htl : ∀ id ∈ (slabIds d child).tail, id ≠ (hdr d child).id ∧ id ≠ m.hdr.id := by
    intro id hid
    exact ⟨fun e => hchild_nin (e ▸ hid), fun e => hroot_nin (List.mem_cons_of_mem _ (e ▸ hid))⟩
  have hmem_m : ∀ id, id ∈ slabIds (d + 1) (ofMeta m) ↔ id = (hdr d child).id ∨ id ∈ slabIds d new := by
    intro id
    rw [hm, hnew_ids]
    simp only [List.mem_cons]
    constructor
    · rintro (h | h | h)
      · exact Or.inr (Or.inl h)
      · exact Or.inl h
      · exact Or.inr (Or.inr h)
    · rintro (h | h | h)
      · exact Or.inr (Or.inl h)
      · exact Or.inl h
      · exact Or.inr (Or.inr h)
  have hchild_new : (hdr d child).id ∉ slabIds d new := by
    rw [hnew_ids]
    intro h
    rcases List.mem_cons.1 h with h | h
    · exact hne h.symm
    · exact hchild_nin h
  have hchild : Holds h2 d child := hP.holds.2 child (by show child ∈ m.children; rw [hch]; exact List.mem_cons_self)
  have hb2 : topSet_Below h2 d child := ((topSet_holds_iff_below h2 d child).1 hchild).2
  have hb3 : topSet_Below h3 d child := topSet_below_congr hb2 (fun id hid => by
    obtain ⟨a, b⟩ := htl id hid
    rw [hh3]; simp [a, b])
  refine ⟨(topSet_holds_iff_below h3 d new).2 ⟨?_, hbelow h3 hb3⟩, ?_, ?_⟩
  · rw [hnew_id, hh3]; simp [hne]
  · intro id hid hn
    by_cases hc : id = (hdr d child).id
    · rw [hh3, if_pos hc]
    · have hnm : id ∉ slabIds (d + 1) (ofMeta m) := fun h => by
        rcases (hmem_m id).1 h with h | h
        · exact hc h
        · exact hn h
      have hroot : id ≠ m.hdr.id := fun e => hn (by rw [hnew_ids, e]; exact List.mem_cons_self)
      rw [hh3, if_neg hc, if_neg hroot]
      exact hP.gone id hid hnm
  · intro id hid hn
    by_cases hc : id = (hdr d child).id
    · rw [hh3, if_pos hc, hc, hfresh (hc ▸ hid)]
    · have hnm : id ∉ slabIds (d + 1) (ofMeta m) := fun h => by
        rcases (hmem_m id).1 h with h | h
        · exact hc h
        · exact hn h
      have hroot : id ≠ m.hdr.id := fun e => hn (by rw [hnew_ids, e]; exact List.mem_cons_self)
      rw [hh3, if_neg hc, if_neg hroot]
      exact hP.frame id hid hnm

end heapTop

/-! ## 4. the join point after the descent, `Array.set` -/
section top
open ATree MetaSlab

theorem topSet_child_size {T : Nat} : ∀ (d : Nat) (child : ATree d), TreeInv T d false child → d = 0 →
    arrayDataSlabPrefixSize ≤ (hdr d child).size
  | 0, child, h, _ => by
    revert h; refine forall_ofData ?_ child; intro s h
    obtain ⟨hs, _, _⟩ := (dataInv_false_iff T s).1 ((treeInv_zero T false s).1 h)
    have := hs.size_eq
    rw [hs.prefix_false] at this
    simp only [hdr_zero]; omega
  | _ + 1, _, _, h => by cases h

/-- **the join point of `Array.set` over a heap**: on the handle of a root `t'` of valid shape that the heap holds, the
    generated join point returns the existing element and the model's `promoteIfSingleChild`; the `Ctx` is the
    model's; a heap condition `HeapPost h0 s1.heap t t'` extends to the promoted root, provided the identifiers of `t'`
    that are not in `t` were not in `h0` -/
theorem topSet_k1_heap (T : Nat) (hT : legalThreshold T = true) : ∀ (d : Nat) (t' : ATree d) (ty : Nat) (s1 : HSt)
    (addr : Nat) (i : UInt64) (v ex : Option Elem) (err : Option AErr),
    Shape T d true t' → IdsOk addr s1.ctx.ctr (slabIds d t') → Holds s1.heap d t' →
    ∃ s', TransSl.Array_set.k1 (envH T) (trArrH ⟨d, t', ty⟩ s1) i v ex err =
        some (ex, none, trArrH ((⟨d, t', ty⟩ : Arr).promoteIfSingleChild s1.ctx).1 s') ∧
      s'.ctx = ((⟨d, t', ty⟩ : Arr).promoteIfSingleChild s1.ctx).2 ∧
      ∀ {d0 : Nat} (t : ATree d0) (h0 : SlabID → Option GSlab), HeapPost h0 s1.heap t t' →
        (∀ id ∈ slabIds d t', id ∉ slabIds d0 t → h0 id = none) →
        HeapPost h0 s'.heap t ((⟨d, t', ty⟩ : Arr).promoteIfSingleChild s1.ctx).1.root
  | 0, t', ty, s1, addr, i, v, ex, err => by
    intro _ _ _
    exact ⟨s1, topSet_k1_data T t' ty s1 i v ex err, rfl, fun t h0 hP _ => hP⟩
  | d + 1, t', ty, s1, addr, i, v, ex, err => by
    refine forall_ofMeta ?_ t'; intro m hs hids hh
    have hms := (shape_succ T d true m).1 hs
    by_cases hlen : m.children.length = 1
    · obtain ⟨child, hc⟩ := List.length_eq_one_iff.1 hlen
      have hmem : child ∈ m.children := by rw [hc]; exact List.mem_cons_self
      have hch : m.childHdrs = [hdr d child] := by rw [hms.hdrs_eq, hc]; rfl
      have hci : TreeInv T d false child := hms.kids_inv child hmem
      have hlook : s1.heap (hdr d child).id = some (trTree d child) := (hh.2 child hmem).root
      have hk := topSet_k1_single T d m ty s1 i v ex err (hdr d child) child hch hc hlook hms.root_eq
        (topSet_child_size d child hci)
      have hpu : (⟨d + 1, ofMeta m, ty⟩ : Arr).promoteIfSingleChild s1.ctx = _ :=
        promote_unfold m ty s1.ctx (hdr d child) child hch hc
      obtain ⟨n1, n2, n3⟩ := topSet_newRoot_struct d child m.hdr.id
      refine ⟨_, hk, Sl_Array_promoteChildAsNewRoot_heap_ctx m ty s1 (hdr d child) child hch hc _, ?_⟩
      intro d0 t h0 hP hfr
      rw [hpu]
      exact topSet_promote_heapPost t m child _ h0 s1.heap _ hc hids.1 n1 n2 n3
        (fun id => by simp only [HSt.remove_heap, HSt.store_heap])
        (fun hn => hfr _ (by rw [slabIds_succ, hc]; simp [hdr_id_mem_slabIds d child]) hn) hP
    · rw [topSet_promote_id d m ty s1.ctx hlen]
      exact ⟨s1, topSet_k1_many T d m ty s1 i v ex err (by rw [hms.hdrs_length]; exact hlen), rfl,
        fun t h0 hP _ => hP⟩

/-- **`Array.set` over a heap** (MAIN; the tails of the descent are carried as `SetTailsOn`).  On the handle of a model
    array `a` whose tree the heap holds (`Holds`, `TreeInv`, identifiers below the counter, nothing stored above the
    counter), with a depth argument that covers the tree: the generated `Array.set` returns the old element and the
    handle of the model's `Arr.set` (descent, root split if the new root is full, promotion if the root index slab is
    left with one child), the `Ctx` is the model's and the heap satisfies `HeapPost` w.r.t. the old and the new root.
    Past the end: `IndexOutOfBoundsError`, nothing was touched. -/
theorem Sl_Array_set_heap (T : Nat) (hT : legalThreshold T = true) (a : Arr) (i : Nat) (v : Elem) (s : HSt)
    (depth : Nat) (hd : a.d ≤ depth) (hinv : TreeInv T a.d true a.root) (hni : NotInl a.d a.root)
    (hids : IdsOk a.addr s.ctx.ctr (slabIds a.d a.root)) (hfree : FreshFree a.addr s) (hcnt : a.count < 2^32)
    (hv : ValueOk v) (hh : Holds s.heap a.d a.root) (hi : i < 2^64)
    (htails : SetTailsOn T a.addr a.d a.root i v s.ctx) :
    match a.set T i v s.ctx with
    | .ok (old, a', c') => ∃ s', TransSl.Array_set (envH T) depth (trArrH a s) (u64 i) (some v) =
          some (some old, none, trArrH a' s') ∧ s'.ctx = c' ∧ HeapPost s.heap s'.heap a.root a'.root
    | .error e => e = .indexOutOfBounds ∧
        TransSl.Array_set (envH T) depth (trArrH a s) (u64 i) (some v) =
          some (none, some .indexOutOfBounds, trArrH a s) := by
  have F := thrFacts hT
  have ht := thresholds_fit hT
  have hD := Sl_ArraySlab_Set_heap T hT a.d a.root true i v s depth a.addr hd hh hids hfree hinv hni hv hcnt hi htails
  rw [topSet_unfold]
  by_cases hlt : i < (flatten a.d a.root).length
  · obtain ⟨t', c1, hset, hstep, _, hcnt', hsz1, hsz2, hsz3⟩ :=
      set_gen hT a.d a.root true i v s.ctx hinv hni hv hlt
    rw [hset] at hD ⊢
    obtain ⟨s1, hg, hctx, hP⟩ := hD
    subst hctx
    have hmaxsz := hinv.le_max
    have hszlt : (hdr a.d t').size < 2^32 := by
      have := F.hi; have := F.maxE; have := F.inlE; omega
    have hgen := topSet_descent T a s depth (u64 i) (some v) _ hg
    simp only [Option.isSome_none, Bool.false_eq_true, if_false, setH_IsFull T a.d t' hszlt ht.2.2.1] at hgen
    have hids' : IdsOk a.addr s1.ctx.ctr (slabIds a.d t') := repl_single_ids hstep.repl _ hids
    have hfr : ∀ id ∈ slabIds a.d t', id ∉ slabIds a.d a.root → s.heap id = none := by
      intro id hid' hnid
      have h1 := (hstep.repl.ids a.addr (by simpa using hids)).2 id (by simpa using hid')
      rcases h1 with h1 | h1
      · exact absurd (by simpa using h1) hnid
      · exact hfree id (hids'.2 id hid').1 h1
    by_cases hfull : ATree.isFull T a.d t' = true
    · have hlo := (isFull_iff T a.d t').1 hfull
      obtain ⟨new, s2, hmod, hsr, hpost⟩ := Sl_Array_splitRoot_heap_full T hT a.d t' a.ty s1 a.addr hstep.shape hlo
        (by omega) hids'
      obtain ⟨hl1, hl2⟩ := topSet_splitRoot_two a.d t' a.ty s1.ctx new s2.ctx hmod
      simp only [hfull, if_true]
      rw [hmod]
      simp only []
      rw [topSet_promote_id a.d new a.ty s2.ctx (by omega)]
      refine ⟨s2, ?_, rfl, hpost a.root s.heap hP⟩
      rw [hgen]
      simp only [hfull, if_true]
      have e : ({ Storage := s1, root := some (trTree a.d t') } : HArray) = trArrH ⟨a.d, t', a.ty⟩ s1 := rfl
      rw [e, hsr]
      simp only [Option.isSome_none, Bool.false_eq_true, if_false]
      exact topSet_k1_many T a.d new a.ty s2 (u64 i) (some v) _ _ (by omega)
    · simp only [hfull, Bool.false_eq_true, if_false]
      obtain ⟨s2, hk, hc2, hpost⟩ := topSet_k1_heap T hT a.d t' a.ty s1 a.addr (u64 i) (some v)
        (some ((flatten a.d a.root).getD i default)) none hstep.shape hids' hP.holds
      refine ⟨s2, ?_, hc2, hpost a.root s.heap hP hfr⟩
      rw [hgen]
      simp only [hfull, Bool.false_eq_true, if_false]
      exact hk
  · have hset := set_err_gen (T := T) a.d a.root true i v s.ctx (hinv.shape hni) (by omega)
    rw [hset] at hD ⊢
    obtain ⟨_, hg⟩ := hD
    refine ⟨rfl, ?_⟩
    rw [topSet_descent T a s depth (u64 i) (some v) _ hg]
    rfl

/-- the same with the tails as the two statements about `SplitChildSlab` and `MergeOrRebalanceChildSlab` at every
    depth below the tree's (`SplitTailHyp`: Props/TransDescentSetFull.lean `splitTailHyp_all`; `MorTailHyp`: carried) -/
theorem Sl_Array_set_heap_of_tails (T : Nat) (hT : legalThreshold T = true) (a : Arr) (i : Nat) (v : Elem) (s : HSt)
    (depth : Nat) (hd : a.d ≤ depth) (hinv : TreeInv T a.d true a.root) (hni : NotInl a.d a.root)
    (hids : IdsOk a.addr s.ctx.ctr (slabIds a.d a.root)) (hfree : FreshFree a.addr s) (hcnt : a.count < 2^32)
    (hv : ValueOk v) (hh : Holds s.heap a.d a.root) (hi : i < 2^64)
    (htl : ∀ d', d' < a.d → SplitTailHyp T d' ∧ MorTailHyp T d') :
    match a.set T i v s.ctx with
    | .ok (old, a', c') => ∃ s', TransSl.Array_set (envH T) depth (trArrH a s) (u64 i) (some v) =
          some (some old, none, trArrH a' s') ∧ s'.ctx = c' ∧ HeapPost s.heap s'.heap a.root a'.root
    | .error e => e = .indexOutOfBounds ∧
        TransSl.Array_set (envH T) depth (trArrH a s) (u64 i) (some v) =
          some (none, some .indexOutOfBounds, trArrH a s) :=
  Sl_Array_set_heap T hT a i v s depth hd hinv hni hids hfree hcnt hv hh hi
    (setTailsOn_of_hyps T a.addr hT a.d a.root i v s.ctx htl)

/-- **UNCONDITIONAL, no restructuring below the root**: when no child on the path becomes full or underflows
    (`NoRestructure`, a statement about the model alone; the ROOT may become full and be split) there is no hypothesis
    about the tails -/
theorem Sl_Array_set_heap_noRestructure (T : Nat) (hT : legalThreshold T = true) (a : Arr) (i : Nat) (v : Elem)
    (s : HSt) (depth : Nat) (hd : a.d ≤ depth) (hinv : TreeInv T a.d true a.root) (hni : NotInl a.d a.root)
    (hids : IdsOk a.addr s.ctx.ctr (slabIds a.d a.root)) (hfree : FreshFree a.addr s) (hcnt : a.count < 2^32)
    (hv : ValueOk v) (hh : Holds s.heap a.d a.root) (hi : i < 2^64)
    (hnr : NoRestructure T a.d a.root i v s.ctx) :
    match a.set T i v s.ctx with
    | .ok (old, a', c') => ∃ s', TransSl.Array_set (envH T) depth (trArrH a s) (u64 i) (some v) =
          some (some old, none, trArrH a' s') ∧ s'.ctx = c' ∧ HeapPost s.heap s'.heap a.root a'.root
    | .error e => e = .indexOutOfBounds ∧
        TransSl.Array_set (envH T) depth (trArrH a s) (u64 i) (some v) =
          some (none, some .indexOutOfBounds, trArrH a s) :=
  Sl_Array_set_heap T hT a i v s depth hd hinv hni hids hfree hcnt hv hh hi
    (setTailsOn_of_noRestructure T a.addr a.d a.root i v s.ctx hnr)

theorem topSet_arrInv_facts {T : Nat} {a : Arr} {ctr : Nat} (hinv : ArrInv T a ctr) :
    NotInl a.d a.root ∧ a.count < 2^32 := by
  refine ⟨by obtain ⟨d, t, ty⟩ := a; exact hinv.notInl, ?_⟩
  have := hinv.count_lt
  simp only [maxArrayElementCount] at this
  omega

/-- `Array.set` under the array invariant `ArrInv` (tails carried) -/
theorem Sl_Array_set_heap_inv (T : Nat) (hT : legalThreshold T = true) (a : Arr) (i : Nat) (v : Elem) (s : HSt)
    (depth : Nat) (hd : a.d ≤ depth) (hinv : ArrInv T a s.ctx.ctr) (hfree : FreshFree a.addr s)
    (hv : ValueOk v) (hh : Holds s.heap a.d a.root) (hi : i < 2^64)
    (htl : ∀ d', d' < a.d → SplitTailHyp T d' ∧ MorTailHyp T d') :
    match a.set T i v s.ctx with
    | .ok (old, a', c') => ∃ s', TransSl.Array_set (envH T) depth (trArrH a s) (u64 i) (some v) =
          some (some old, none, trArrH a' s') ∧ s'.ctx = c' ∧ HeapPost s.heap s'.heap a.root a'.root
    | .error e => e = .indexOutOfBounds ∧
        TransSl.Array_set (envH T) depth (trArrH a s) (u64 i) (some v) =
          some (none, some .indexOutOfBounds, trArrH a s) :=
  Sl_Array_set_heap_of_tails T hT a i v s depth hd hinv.tree (topSet_arrInv_facts hinv).1 hinv.ids hfree
    (topSet_arrInv_facts hinv).2 hv hh hi htl

/-- `Array.set` under `ArrInv`, UNCONDITIONAL without restructuring below the root -/
theorem Sl_Array_set_heap_inv_noRestructure (T : Nat) (hT : legalThreshold T = true) (a : Arr) (i : Nat) (v : Elem)
    (s : HSt) (depth : Nat) (hd : a.d ≤ depth) (hinv : ArrInv T a s.ctx.ctr) (hfree : FreshFree a.addr s)
    (hv : ValueOk v) (hh : Holds s.heap a.d a.root) (hi : i < 2^64)
    (hnr : NoRestructure T a.d a.root i v s.ctx) :
    match a.set T i v s.ctx with
    | .ok (old, a', c') => ∃ s', TransSl.Array_set (envH T) depth (trArrH a s) (u64 i) (some v) =
          some (some old, none, trArrH a' s') ∧ s'.ctx = c' ∧ HeapPost s.heap s'.heap a.root a'.root
    | .error e => e = .indexOutOfBounds ∧
        TransSl.Array_set (envH T) depth (trArrH a s) (u64 i) (some v) =
          some (none, some .indexOutOfBounds, trArrH a s) :=
  Sl_Array_set_heap_noRestructure T hT a i v s depth hd hinv.tree (topSet_arrInv_facts hinv).1 hinv.ids hfree
    (topSet_arrInv_facts hinv).2 hv hh hi hnr

/-! ### chaining: the hypotheses are re-established -/

theorem topSet_split_ctr : ∀ (d : Nat) (old l r : ATree d) (c c' : Ctx), ATree.split d old c = .ok (l, r, c') →
    c.ctr ≤ c'.ctr
  | 0, old, l, r, c, c', hsp => by
    have hsp : DataSlab.split (old : DataSlab) c = .ok (l, r, c') := hsp
    unfold DataSlab.split at hsp
    split at hsp
    · cases hsp
    · simp only [Except.ok.injEq, Prod.mk.injEq] at hsp
      obtain ⟨_, _, rfl⟩ := hsp
      exact Nat.le_succ _
  | d + 1, old, l, r, c, c', hsp => by
    have hsp : MetaSlab.split (old : MetaSlab (ATree d)) c = .ok (l, r, c') := hsp
    unfold MetaSlab.split at hsp
    split at hsp
    · cases hsp
    · simp only [Except.ok.injEq, Prod.mk.injEq] at hsp
      obtain ⟨_, _, rfl⟩ := hsp
      exact Nat.le_succ _

theorem topSet_splitRoot_ctr (d : Nat) (t : ATree d) (ty : Nat) (c : Ctx) (a2 : Arr) (c2 : Ctx)
    (h : Arr.splitRoot ⟨d, t, ty⟩ c = .ok (a2, c2)) : c.ctr ≤ c2.ctr := by
  rw [splitRoot_eq] at h
  cases hs : ATree.split d (ATree.setId d (ATree.setRoot d (adjSplit d t) false) ⟨(ATree.hdr d t).id.addr, c.ctr + 1⟩)
      (c.alloc (ATree.hdr d t).id.addr).2 with
  | error e => rw [hs] at h; cases h
  | ok p =>
    rw [hs] at h
    simp only [bind, Except.bind, pure, Except.pure, Except.ok.injEq, Prod.mk.injEq] at h
    obtain ⟨_, rfl⟩ := h
    have := topSet_split_ctr d _ p.1 p.2.1 _ p.2.2 (by rw [hs])
    simp only [Ctx.emit_ctr]
    have h2 : (c.alloc (ATree.hdr d t).id.addr).2.ctr = c.ctr + 1 := rfl
    omega

/-- the allocation counter does not decrease -/
theorem topSet_set_ctr {T : Nat} (hT : legalThreshold T = true) {a a' : Arr} {i : Nat} {v old : Elem} {c c' : Ctx}
    (hinv : TreeInv T a.d true a.root) (hni : NotInl a.d a.root) (hv : ValueOk v)
    (hset : a.set T i v c = .ok (old, a', c')) : c.ctr ≤ c'.ctr := by
  rw [topSet_unfold] at hset
  by_cases hlt : i < (flatten a.d a.root).length
  · obtain ⟨t', c1, hs, hstep, _⟩ := set_gen hT a.d a.root true i v c hinv hni hv hlt
    rw [hs] at hset
    have h1 := hstep.repl.ctr
    by_cases hfull : ATree.isFull T a.d t' = true
    · simp only [hfull, if_true] at hset
      cases hsr : Arr.splitRoot ⟨a.d, t', a.ty⟩ c1 with
      | error e => rw [hsr] at hset; cases hset
      | ok p =>
        obtain ⟨a2, c2⟩ := p
        rw [hsr] at hset
        simp only [Except.ok.injEq, Prod.mk.injEq] at hset
        obtain ⟨_, _, rfl⟩ := hset
        have := topSet_splitRoot_ctr a.d t' a.ty c1 a2 c2 hsr
        rw [promote_ctr]; omega
    · simp only [hfull, Bool.false_eq_true, if_false, Except.ok.injEq, Prod.mk.injEq] at hset
      obtain ⟨_, _, rfl⟩ := hset
      rw [promote_ctr]; exact h1
  · rw [set_err_gen (T := T) a.d a.root true i v c (hinv.shape hni) (by omega)] at hset
    cases hset

/-- the hypotheses of the theorems above are re-established by a successful `Array.set`: the array invariant relative
    to the new counter, nothing stored above the new counter, the same owner address - so they can be chained -/
theorem FreshFree.after_arr_set {T : Nat} (hT : legalThreshold T = true) {a a' : Arr} {i : Nat} {v old : Elem}
    {s s' : HSt} {c' : Ctx} (hinv : ArrInv T a s.ctx.ctr) (hv : ValueOk v) (hfree : FreshFree a.addr s)
    (hset : a.set T i v s.ctx = .ok (old, a', c')) (hctx : s'.ctx = c')
    (hp : HeapPost s.heap s'.heap a.root a'.root) :
    ArrInv T a' s'.ctx.ctr ∧ a'.addr = a.addr ∧ FreshFree a'.addr s' ∧ Holds s'.heap a'.d a'.root := by
  have hi : i < a.toList.length := by
    rcases Nat.lt_or_ge i a.toList.length with h | h
    · exact h
    · rw [arr_set_err a s.ctx i v hinv h] at hset; cases hset
  obtain ⟨a'', c'', hok, hinv', _, hid, _⟩ := arr_set_ok hT a s.ctx i v hv hinv hi
  rw [hset] at hok
  simp only [Except.ok.injEq, Prod.mk.injEq] at hok
  obtain ⟨_, rfl, rfl⟩ := hok
  have haddr : a'.addr = a.addr := by
    show a'.rootID.addr = a.rootID.addr
    rw [hid]
  have hle := topSet_set_ctr hT hinv.tree (topSet_arrInv_facts hinv).1 hv hset
  subst hctx
  refine ⟨hinv', haddr, ?_, hp.holds⟩
  rw [haddr]
  exact FreshFree.post hfree hp hinv.ids (by rw [← haddr]; exact hinv'.ids) hle

/-- **`Array.set` on a valid array at an index inside it** (`ArrInv`, `i < Count()`): the model succeeds, the generated
    code returns the replaced element and the model's handle, and every hypothesis is re-established for the result
    (array invariant, owner address, nothing stored above the counter, the heap holds the new tree), so calls can be
    chained; the sequence represented is the old one with position `i` replaced -/
theorem Sl_Array_set_heap_ok (T : Nat) (hT : legalThreshold T = true) (a : Arr) (i : Nat) (v : Elem) (s : HSt)
    (depth : Nat) (hd : a.d ≤ depth) (hinv : ArrInv T a s.ctx.ctr) (hfree : FreshFree a.addr s)
    (hv : ValueOk v) (hh : Holds s.heap a.d a.root) (hlt : i < a.count)
    (htails : SetTailsOn T a.addr a.d a.root i v s.ctx) :
    ∃ a' c' s', a.set T i v s.ctx = .ok (a.toList.getD i default, a', c') ∧
      TransSl.Array_set (envH T) depth (trArrH a s) (u64 i) (some v) =
        some (some (a.toList.getD i default), none, trArrH a' s') ∧ s'.ctx = c' ∧
      HeapPost s.heap s'.heap a.root a'.root ∧
      ArrInv T a' s'.ctx.ctr ∧ a'.addr = a.addr ∧ FreshFree a'.addr s' ∧ Holds s'.heap a'.d a'.root ∧
      a'.toList = a.toList.set i (toStorable T a.addr v s.ctx).1 := by
  obtain ⟨hni, hcnt⟩ := topSet_arrInv_facts hinv
  have hlen : a.count = a.toList.length := by
    obtain ⟨d, t, ty⟩ := a
    exact Shape.count_eq_length hinv.shape
  obtain ⟨a', c', hok, _, hl, _, _⟩ := arr_set_ok hT a s.ctx i v hv hinv (by omega)
  have h := Sl_Array_set_heap T hT a i v s depth hd hinv.tree hni hinv.ids hfree hcnt hv hh (by omega) htails
  rw [hok] at h
  obtain ⟨s', h1, h2, h3⟩ := h
  obtain ⟨q1, q2, q3, q4⟩ := FreshFree.after_arr_set hT hinv hv hfree hok h2 h3
  exact ⟨a', c', s', hok, h1, h2, h3, q1, q2, q3, q4, hl⟩

end top

/-! ## 5. non-vacuity (the arrays `exD`, `exA` of Props/TransDescentEx.lean, slab size 256) -/
section exTopSet
open ATree MetaSlab

theorem topSet_ex_fresh (a : Arr) (addr : Nat) (h : ∀ id ∈ slabIds a.d a.root, id.idx ≤ 5) :
    FreshFree addr (exSt a) := by
  intro id _ hlt
  have hlt : 5 < id.idx := hlt
  exact heapOf_none a.d a.root id (fun hin => by have := h id hin; omega)

theorem topSet_exD_inv : TreeInv 256 0 true exD.root := by
  refine ⟨rfl, rfl, ?_, rfl, fun h => rfl, by decide, fun h => by cases h⟩
  intro e he
  have h : (exD.root : DataSlab).elems = [⟨100, .val 0⟩, ⟨100, .val 1⟩, ⟨100, .val 2⟩, ⟨60, .val 3⟩] := rfl
  rw [h] at he
  simp only [List.mem_cons, List.not_mem_nil, or_false] at he
  rcases he with rfl | rfl | rfl | rfl <;> exact ⟨by decide, by decide⟩

theorem topSet_exD_ids : ∀ id ∈ slabIds exD.d exD.root, id = ⟨1, 1⟩ := by
  intro id hid
  have h : slabIds exD.d exD.root = [⟨1, 1⟩] := rfl
  rw [h] at hid
  simpa using hid

/-- the hypotheses of `Sl_Array_set_heap` are satisfiable on a ROOT SPLIT: the root data slab `exD` (365 bytes,
    T = 256) becomes full when its last element (60 bytes) is replaced by a 110-byte one, and is split (`splitRoot`,
    depth 0 -> 1; the new index root has two children, nothing is promoted); depth argument 0; at depth 0 the tail
    hypothesis is `True` -/
example :
    match exD.set 256 3 ⟨110, .val 99⟩ (exSt exD).ctx with
    | .ok (old, a', c') => ∃ s', TransSl.Array_set (envH 256) 0 (trArrH exD (exSt exD)) (u64 3) (some ⟨110, .val 99⟩) =
          some (some old, none, trArrH a' s') ∧ s'.ctx = c' ∧ HeapPost (exSt exD).heap s'.heap exD.root a'.root
    | .error e => e = .indexOutOfBounds ∧
        TransSl.Array_set (envH 256) 0 (trArrH exD (exSt exD)) (u64 3) (some ⟨110, .val 99⟩) =
          some (none, some .indexOutOfBounds, trArrH exD (exSt exD)) :=
  Sl_Array_set_heap 256 (by decide) exD 3 ⟨110, .val 99⟩ (exSt exD) 0 (Nat.le_refl _) topSet_exD_inv rfl
    ⟨by decide, fun id hid => by rw [topSet_exD_ids id hid]; decide⟩
    (topSet_ex_fresh exD _ (fun id hid => by rw [topSet_exD_ids id hid]; decide))
    (by decide) ⟨by decide, 99, rfl⟩ (Holds_heapOf 0 exD.root (by decide)) (by decide) trivial

/-- … and the model takes the `.ok` branch with a root split (old element, depth 1, the effects in order) -/
example : (exD.set 256 3 ⟨110, .val 99⟩ (exSt exD).ctx).toOption.map (fun r => (r.1, r.2.1.d, r.2.2.eff)) =
    some (⟨60, .val 3⟩, 1,
      [.store ⟨1, 1⟩, .alloc 1 ⟨1, 6⟩, .alloc 1 ⟨1, 7⟩, .store ⟨1, 6⟩, .store ⟨1, 7⟩, .store ⟨1, 1⟩]) := by rfl

theorem topSet_ex_elemsOk (l : List Elem)
    (h : l.all (fun e => decide (1 ≤ e.size) && decide (e.size ≤ maxInlineArr 256)) = true) :
    ∀ e ∈ l, ElemOk 256 e := by
  intro e he
  have := List.all_eq_true.1 h e he
  simp only [Bool.and_eq_true, decide_eq_true_eq] at this
  exact this

theorem topSet_ex_leafInv (id next base : Nat) (sizes : List Nat)
    (h1 : (exLeaf id next base sizes).elems.all
      (fun e => decide (1 ≤ e.size) && decide (e.size ≤ maxInlineArr 256)) = true)
    (h2 : (exLeaf id next base sizes).hdr.size = 21 + sumSizes (exLeaf id next base sizes).elems)
    (h3 : (exLeaf id next base sizes).hdr.size ≤ maxThr 256) (h4 : minThr 256 ≤ (exLeaf id next base sizes).hdr.size) :
    DataInv 256 false (exLeaf id next base sizes) :=
  ⟨by simp [exLeaf], h2, topSet_ex_elemsOk _ h1, rfl, (fun h => by cases h), h3, fun _ => h4⟩

theorem topSet_exA_kids (c : ATree 0) (hc : c ∈ (exA.root : MetaSlab (ATree 0)).children) :
    c = exLeaf 2 3 0 [60, 60, 60, 60] ∨ c = exLeaf 3 4 10 [60, 60] ∨ c = exLeaf 4 0 20 [60, 60] := by
  have h : (exA.root : MetaSlab (ATree 0)).children =
      [exLeaf 2 3 0 [60, 60, 60, 60], exLeaf 3 4 10 [60, 60], exLeaf 4 0 20 [60, 60]] := rfl
  rw [h] at hc
  rcases List.mem_cons.mp hc with h | hc
  · exact Or.inl h
  · rcases List.mem_cons.mp hc with h | hc
    · exact Or.inr (Or.inl h)
    · exact Or.inr (Or.inr (List.mem_singleton.mp hc))

theorem topSet_exA_inv : TreeInv 256 1 true exA.root := by
  refine ⟨rfl, rfl, rfl, rfl, rfl, ?_, ?_, by decide, by simp, fun _ => by decide⟩
  · intro c hc
    rcases topSet_exA_kids c hc with rfl | rfl | rfl
    · exact topSet_ex_leafInv _ _ _ _ rfl rfl (by decide) (by decide)
    · exact topSet_ex_leafInv _ _ _ _ rfl rfl (by decide) (by decide)
    · exact topSet_ex_leafInv _ _ _ _ rfl rfl (by decide) (by decide)
  · intro c hc
    rcases topSet_exA_kids c hc with rfl | rfl | rfl <;> rfl

theorem topSet_exA_ids : ∀ id ∈ slabIds exA.d exA.root, id = ⟨1, 1⟩ ∨ id = ⟨1, 2⟩ ∨ id = ⟨1, 3⟩ ∨ id = ⟨1, 4⟩ := by
  intro id hid
  have h : slabIds exA.d exA.root = [⟨1, 1⟩, ⟨1, 2⟩, ⟨1, 3⟩, ⟨1, 4⟩] := rfl
  rw [h] at hid
  simpa using hid

theorem topSet_exA_noRestructure : NoRestructure 256 1 exA.root 5 ⟨70, .val 99⟩ (exSt exA).ctx := by
  refine Eq.mpr (noRestructure_succ 256 0 (exRoot [exLeaf 2 3 0 [60, 60, 60, 60], exLeaf 3 4 10 [60, 60],
    exLeaf 4 0 20 [60, 60]]) 5 ⟨70, .val 99⟩ (exSt exA).ctx) ?_
  have hr : (exRoot [exLeaf 2 3 0 [60, 60, 60, 60], exLeaf 3 4 10 [60, 60],
    exLeaf 4 0 20 [60, 60]]).childSlabIndexInfo 5 = .ok (1, 1) := rfl
  rw [hr]
  intro child hc
  have : child = exLeaf 3 4 10 [60, 60] := by
    have h : (some (exLeaf 3 4 10 [60, 60]) : Option (ATree 0)) = some child := hc
    exact (Option.some.inj h).symm
  subst this
  exact ⟨trivial, rfl, rfl⟩

/-- the hypotheses of `Sl_Array_set_heap_noRestructure` are satisfiable at depth 1 with NO tail hypothesis: the second
    leaf of `exA` neither becomes full nor underflows, the root keeps its three children (nothing is promoted) -/
example :
    match exA.set 256 5 ⟨70, .val 99⟩ (exSt exA).ctx with
    | .ok (old, a', c') => ∃ s', TransSl.Array_set (envH 256) 1 (trArrH exA (exSt exA)) (u64 5) (some ⟨70, .val 99⟩) =
          some (some old, none, trArrH a' s') ∧ s'.ctx = c' ∧ HeapPost (exSt exA).heap s'.heap exA.root a'.root
    | .error e => e = .indexOutOfBounds ∧
        TransSl.Array_set (envH 256) 1 (trArrH exA (exSt exA)) (u64 5) (some ⟨70, .val 99⟩) =
          some (none, some .indexOutOfBounds, trArrH exA (exSt exA)) :=
  Sl_Array_set_heap_noRestructure 256 (by decide) exA 5 ⟨70, .val 99⟩ (exSt exA) 1 (Nat.le_refl _) topSet_exA_inv
    trivial
    ⟨by decide, fun id hid => by rcases topSet_exA_ids id hid with rfl | rfl | rfl | rfl <;> decide⟩
    (topSet_ex_fresh exA _ (fun id hid => by rcases topSet_exA_ids id hid with rfl | rfl | rfl | rfl <;> decide))
    (by decide) ⟨by decide, 99, rfl⟩ (Holds_heapOf 1 exA.root (by decide)) (by decide) topSet_exA_noRestructure

example : (exA.set 256 5 ⟨70, .val 99⟩ (exSt exA).ctx).toOption.map (fun r => (r.1, r.2.1.d, r.2.2.eff)) =
    some (⟨60, .val 11⟩, 1, [.store ⟨1, 3⟩, .store ⟨1, 1⟩]) := by rfl

/-- past the end: the `.error` branch -/
example : exA.set 256 8 ⟨70, .val 99⟩ (exSt exA).ctx = .error .indexOutOfBounds := by rfl

/-! the promotion branch of the join point (`topSet_k1_heap`): the root index slab `slRSingle` (Props/TransSlabsRoot.lean)
    with its single child `slRChild` on the heap of that tree -/

theorem topSet_exSingle_shape : Shape 256 1 true (ofMeta slRSingle) := by
  refine (shape_succ 256 0 true slRSingle).2 ⟨rfl, rfl, rfl, rfl, rfl, ?_, ?_⟩
  · intro c hc
    have hc : c ∈ [slRChild] := hc
    rw [List.mem_singleton.1 hc]
    refine (treeInv_zero 256 false slRChild).2 ⟨rfl, rfl, ?_, rfl, (fun h => by cases h), by decide, fun _ => by decide⟩
    intro e he
    have h : slRChild.elems = [⟨50, .val 0⟩, ⟨50, .val 1⟩, ⟨50, .val 2⟩] := rfl
    rw [h] at he
    simp only [List.mem_cons, List.not_mem_nil, or_false] at he
    rcases he with rfl | rfl | rfl <;> exact ⟨by decide, by decide⟩
  · intro c hc
    have hc : c ∈ [slRChild] := hc
    rw [List.mem_singleton.1 hc]; rfl

/-- the hypotheses of `topSet_k1_heap` hold on a root with ONE child; the join point promotes the child (depth 1 -> 0,
    one store under the root identifier, the child's identifier removed) -/
example : ∃ s', TransSl.Array_set.k1 (envH 256) (trArrH ⟨1, ofMeta slRSingle, 7⟩ ⟨heapOf 1 slRSingle, ⟨2, [], []⟩⟩)
      (u64 0) (some ⟨50, .val 9⟩) (some ⟨50, .val 0⟩) none =
        some (some ⟨50, .val 0⟩, none,
          trArrH ((⟨1, ofMeta slRSingle, 7⟩ : Arr).promoteIfSingleChild ⟨2, [], []⟩).1 s') ∧
      s'.ctx = ((⟨1, ofMeta slRSingle, 7⟩ : Arr).promoteIfSingleChild ⟨2, [], []⟩).2 := by
  obtain ⟨s', h1, h2, _⟩ := topSet_k1_heap 256 (by decide) 1 (ofMeta slRSingle) 7 ⟨heapOf 1 slRSingle, ⟨2, [], []⟩⟩ 1
    (u64 0) (some ⟨50, .val 9⟩) (some ⟨50, .val 0⟩) none topSet_exSingle_shape
    ⟨by decide, fun id hid => by
      have h : slabIds 1 (ofMeta slRSingle) = [⟨1, 1⟩, ⟨1, 2⟩] := rfl
      rw [h] at hid
      simp only [List.mem_cons, List.not_mem_nil, or_false] at hid
      rcases hid with rfl | rfl <;> decide⟩
    (Holds_heapOf 1 slRSingle (by decide))
  exact ⟨s', h1, h2⟩

example : (((⟨1, ofMeta slRSingle, 7⟩ : Arr).promoteIfSingleChild ⟨2, [], []⟩).1.d,
    ((⟨1, ofMeta slRSingle, 7⟩ : Arr).promoteIfSingleChild ⟨2, [], []⟩).2.eff) =
    (0, [.store ⟨1, 1⟩, .remove ⟨1, 2⟩]) := by rfl

end exTopSet

end Atree.TransEq
