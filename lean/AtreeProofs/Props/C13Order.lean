import AtreeProofs.Props.C13
import AtreeProofs.Props.C13Ids
import AtreeProofs.Props.C12Shape
import AtreeProofs.Map.InsertionOrderSpec
import AtreeProofs.Map.InsertionOrderLemmas
import AtreeProofs.E2EMap.History
/-
  C13 — "… maps in ascending order of their digest sequence with FULLY COLLIDING KEYS IN INSERTION
  ORDER" (audit a1/F8, theorem half).

  `C13.map_order_canonical` says only that the digest vectors of `toList` ascend (equal vectors
  allowed); it says nothing about the order INSIDE a class of keys with identical digest vectors.
  This file closes that gap, for every history of requests from the empty map, any digest function,
  any number of digest levels, any legal threshold:

  * STEP facts (section a): a `Set` of a new key puts it behind every key with the same digest vector
    (FX5's C12 theorem, re-exported); an overwriting `Set` keeps the key sequence; a `Remove` takes
    exactly that key's pair out and keeps the relative order of all others; `PopIterate` empties;
    `SetType` changes nothing.
  * HISTORY theorem `map_full_collisions_in_insertion_order` (section b): after any history, for
    EVERY digest vector `d`, the keys of `toList` with digest vector `d` are, in this order, the keys
    with digest vector `d` of `insertionOrderObs` – a plain association list kept on the
    SPECIFICATION side (`Map/InsertionOrderSpec.lean`: a new key is appended, an overwrite keeps the
    position, a remove deletes, pop clears; no digests, no tree).
  * `map_enumeration_determined`: together with `map_order_canonical` the enumeration order is
    determined COMPLETELY by the observed history: the key sequence of `toList` is the STABLE SORT of
    the insertion-order list by digest vector (`List.mergeSort` with `digLe`).
  * `toList` is what EVERY iterator flavour yields (`C13.map_mut_iter_eq_toList`,
    `map_ro_iter_eq_toList`, `map_keys_values_projections`, `map_loaded_all_eq_toList`;
    `map_pop_eq_reverse` for the reverse): corollary `map_iterators_in_insertion_order` states the
    result for `iterMutable`, `iterMutableKeys`, `iterReadOnly`, `iterReadOnlyKeys` and the loaded-value
    iterator, with NO hypothesis about slab identifiers (`C13.map_ro_iter_history`, Props/C13Ids.lean).

  The only way a `Set` is refused is the collision limit; the caller sees the refusal as an error, so
  the specification is a function of the OBSERVED history (`observe`: requests with their
  served/refused flags).  When nothing was refused it is a function of the requests alone
  (`insertionOrder`, theorem `map_enumeration_determined_no_refusal`).
-/
namespace Atree.C13
open Atree Gen E2EM MapExample

variable {r : Nat}

/-- the key sequence a map represents -/
abbrev keysOf (m : OMap r) : List MKey := m.toList.map (·.1)

/-! ## a. one request -/

/-- (re-export of `C12.new_colliding_key_is_appended`) `Set` of a NEW key (no previous value): among
    the pairs with the digest vector of the new key, the new pair is APPENDED. -/
theorem map_set_new_key_appended_among_collisions (T : Nat) (hT : legalThreshold T = true) (D : DigestFn (r + 1))
    (cfg : MCfg) (m m' : OMap r) (hcfg : CfgOk cfg T m) (h : MapInv T D m) (k : MKey) (hk : KeyOk T (r + 1) D k)
    (v : Elem) (c c' : Ctx) (hs : m.set cfg k v c = .ok (none, m', c')) :
    ∃ sv, m'.toList.filter (fun p => p.1.digs == k.digs) = m.toList.filter (fun p => p.1.digs == k.digs) ++ [(k, sv)] :=
  C12.new_colliding_key_is_appended T hT D cfg m m' hcfg h k hk v c c' hs

/-- `Set` of a new key, whole enumeration: the list before, with the new pair inserted at a place
    behind which no pair has the digest vector of the new key; every other pair stays where it was. -/
theorem map_set_new_key_position (T : Nat) (hT : legalThreshold T = true) (D : DigestFn (r + 1))
    (cfg : MCfg) (m m' : OMap r) (hcfg : CfgOk cfg T m) (h : MapInv T D m) (k : MKey) (hk : KeyOk T (r + 1) D k)
    (v : Elem) (c c' : Ctx) (hs : m.set cfg k v c = .ok (none, m', c')) :
    ∃ A B sv, m.toList = A ++ B ∧ m'.toList = A ++ (k, sv) :: B ∧ ∀ p ∈ B, p.1.digs ≠ k.digs :=
  C12.full_collisions_keep_insertion_order T hT D cfg m m' hcfg h k hk v c c' hs

/-- An OVERWRITE (`Set` returning a previous value) replaces the value of that key's pair IN PLACE:
    every pair keeps its position, the key sequence is unchanged. -/
theorem map_set_overwrite_keeps_order (T : Nat) (hT : legalThreshold T = true) (D : DigestFn (r + 1))
    (cfg : MCfg) (m m' : OMap r) (hcfg : CfgOk cfg T m) (h : MapInv T D m) (k : MKey) (hk : KeyOk T (r + 1) D k)
    (v : Elem) (hv : ValueOkM v) (c c' : Ctx) (old : Elem) (hs : m.set cfg k v c = .ok (some old, m', c')) :
    (∃ A B, m.toList = A ++ (k, old) :: B ∧ m'.toList = A ++ (k, storedValue cfg k v c) :: B) ∧
    keysOf m' = keysOf m := by
  have hsp := OMap.set_spec hT hcfg h hk hv c
  by_cases hl : TLimited cfg m.d m.root k
  · rw [hsp.1 hl] at hs; cases hs
  · obtain ⟨old', m'', c'', heq, hp⟩ := hsp.2 hl
    rw [heq] at hs
    simp only [Except.ok.injEq, Prod.mk.injEq] at hs
    obtain ⟨ho, hm, _⟩ := hs
    subst ho hm
    rcases hp.eff with ⟨ho, _⟩ | ⟨v0, A, B, ho, h1, h2⟩
    · cases ho
    · cases ho
      refine ⟨⟨A, B, h1, h2⟩, ?_⟩
      simp only [keysOf, h1, h2, List.map_append, List.map_cons]

/-- A `Remove` that is served takes EXACTLY the pair of that key out of the enumeration; all other
    pairs keep their relative order.  (The returned key is the stored key, the returned value its
    value.) -/
theorem map_remove_erases_exactly (T : Nat) (hT : legalThreshold T = true) (D : DigestFn (r + 1))
    (cfg : MCfg) (m m' : OMap r) (hcfg : CfgOk cfg T m) (h : MapInv T D m) (k : MKey) (hk : KeyOk T (r + 1) D k)
    (c c' : Ctx) (hc : CtxOk m c) (rk : MKey) (rv : Elem) (hs : m.remove cfg k c = .ok (rk, rv, m', c')) :
    rk = k ∧ (∃ A B, m.toList = A ++ (k, rv) :: B ∧ m'.toList = A ++ B) ∧
    keysOf m' = (keysOf m).filter (fun k' => !k'.same k) := by
  have hsp := OMap.remove_spec hT hcfg h hk c hc
  by_cases hex : ∃ v, (k, v) ∈ m.toList
  · obtain ⟨v, hv⟩ := hex
    obtain ⟨m'', c'', heq, hp⟩ := hsp.2 v hv
    rw [heq] at hs
    simp only [Except.ok.injEq, Prod.mk.injEq] at hs
    obtain ⟨hk', hv', hm, _⟩ := hs
    subst hk' hv' hm
    obtain ⟨A, B, h1, h2⟩ := hp.eff
    refine ⟨rfl, ⟨A, B, h1, h2⟩, ?_⟩
    have hd : (keysOf m).Pairwise (fun a b => a.same b = false) := by
      have := h.distinct
      unfold KeysDistinct at this
      exact List.pairwise_map.mpr this
    simp only [keysOf, h1, h2, List.map_append, List.map_cons] at hd ⊢
    exact erase_eq_filter_not_same hd
  · have : ∀ p ∈ m.toList, p.1 ≠ k := by
      intro p hp hpk; exact hex ⟨p.2, by rw [← hpk]; exact hp⟩
    rw [hsp.1 this] at hs; cases hs

/-- A `Remove` of a key that is not there is refused (`KeyNotFoundError`): nothing changes. -/
theorem map_remove_absent_refused (T : Nat) (hT : legalThreshold T = true) (D : DigestFn (r + 1))
    (cfg : MCfg) (m : OMap r) (hcfg : CfgOk cfg T m) (h : MapInv T D m) (k : MKey) (hk : KeyOk T (r + 1) D k)
    (c : Ctx) (hc : CtxOk m c) (habs : k ∉ keysOf m) : m.remove cfg k c = .error .keyNotFound := by
  refine (OMap.remove_spec hT hcfg h hk c hc).1 ?_
  intro p hp hpk
  exact habs (List.mem_map.mpr ⟨p, hp, hpk⟩)

/-- `PopIterate` hands out the enumeration backwards and leaves the EMPTY enumeration. -/
theorem map_pop_empties (T : Nat) (hT : legalThreshold T = true) (D : DigestFn (r + 1)) (m : OMap r)
    (h : MapInv T D m) (c : Ctx) (hc : CtxOk m c) :
    (m.popIterate c).1 = m.toList.reverse ∧ (m.popIterate c).2.1.toList = [] := by
  obtain ⟨h1, h2, _⟩ := C02.pop_refines T hT D m h c hc
  exact ⟨h1, h2⟩

/-- `SetType` does not touch the enumeration. -/
theorem map_setType_keeps_order (m : OMap r) (ty : Nat) (c : Ctx) : (m.setType ty c).1.toList = m.toList := rfl

/-! ## b. histories -/

theorem stepM_set_eq (cfg : MCfg) (st : OMap r × Ctx) (k : MKey) (v : Elem) :
    stepM cfg st (.set k v) = stepSet cfg st k v := by
  cases h : st.1.set cfg k v st.2 with
  | ok x => obtain ⟨a, b, c⟩ := x; simp only [stepM, stepSet, h]
  | error e => simp only [stepM, stepSet, h]

theorem stepM_remove_eq (cfg : MCfg) (st : OMap r × Ctx) (k : MKey) :
    stepM cfg st (.remove k) = stepRemove cfg st k := by
  cases h : st.1.remove cfg k st.2 with
  | ok x => obtain ⟨a, b, c, d⟩ := x; simp only [stepM, stepRemove, h]
  | error e => simp only [stepM, stepRemove, h]

/-- the well-formedness that every request keeps (`MapExample.Good`: `MapInv`, `CtxOk`, `CfgOk`) -/
theorem good_stepM (T : Nat) (hT : legalThreshold T = true) (D : DigestFn (r + 1)) (cfg : MCfg)
    (st : OMap r × Ctx) (hg : Good T D cfg st) (op : MOp) (hop : op.Ok T D) : Good T D cfg (stepM cfg st op) := by
  cases op with
  | set k v => rw [stepM_set_eq]; exact Good.set hT hg hop.1 hop.2
  | remove k => rw [stepM_remove_eq]; exact Good.remove hT hg hop
  | popIterate =>
    obtain ⟨m, c⟩ := st
    obtain ⟨_, _, _, hinv', hrid⟩ := C02.pop_refines T hT D m hg.inv c hg.ctx
    obtain ⟨_, hkeys, _⟩ := C09Map.pop_releases_all T hT D m hg.inv c hg.ctx
    obtain ⟨hctr, _⟩ := omap_popKeep m c
    refine ⟨hinv', ?_, hg.cfgok.1, hg.cfgok.2.1, ?_⟩
    · intro id hid _
      have hid' : id ∈ AList.keys (MTree.slabs (m.popIterate c).2.1.d (m.popIterate c).2.1.root) := by
        rw [keys_mslabs]; exact hid
      have hkeys' : AList.keys (MTree.slabs (m.popIterate c).2.1.d (m.popIterate c).2.1.root) = [m.rootID] := hkeys
      rw [hkeys', List.mem_singleton] at hid'
      show id.idx ≤ (m.popIterate c).2.2.ctr
      rw [hctr, hid']
      refine hg.ctx m.rootID ?_ rfl
      have := hdr_id_mem_keys m.d m.root
      rw [keys_mslabs] at this
      exact this
    · show cfg.addr = (m.popIterate c).2.1.addr
      rw [hg.cfgok.2.2]
      simp only [OMap.addr, hrid]
  | setType ty =>
    obtain ⟨m, c⟩ := st
    have hinv' : MapInv T D { m with ty := ty } :=
      ⟨hg.inv.tree, hg.inv.chain, hg.inv.count_eq, hg.inv.distinct, by
        have := hg.inv.standalone
        obtain ⟨d, root, ty0, cnt, seed⟩ := m
        cases d <;> exact this⟩
    refine ⟨hinv', ?_, hg.cfgok⟩
    intro id hid ha
    have := hg.ctx id hid ha
    show id.idx ≤ (m.setType ty c).2.ctr
    unfold OMap.setType
    simp only
    split
    · exact this
    · exact this

theorem good_runM (T : Nat) (hT : legalThreshold T = true) (D : DigestFn (r + 1)) (cfg : MCfg) :
    ∀ (ops : List MOp) (st : OMap r × Ctx), Good T D cfg st → (∀ op ∈ ops, op.Ok T D) → Good T D cfg (runM cfg st ops)
  | [], _, hg, _ => hg
  | op :: ops, st, hg, hok =>
    good_runM T hT D cfg ops (stepM cfg st op) (good_stepM T hT D cfg st hg op (hok op (by simp)))
      (fun o ho => hok o (by simp [ho]))

/-- ONE OBSERVED REQUEST keeps the agreement between the map's key sequence and the specification's
    association list, class by class of fully colliding keys. -/
theorem sameCollisionOrder_step (T : Nat) (hT : legalThreshold T = true) (D : DigestFn (r + 1)) (cfg : MCfg)
    (st : OMap r × Ctx) (hg : Good T D cfg st) (op : MOp) (hop : op.Ok T D) (l : List MKey)
    (hl : SameCollisionOrder (keysOf st.1) l) :
    SameCollisionOrder (keysOf (stepM cfg st op).1) (orderStep l (op, served cfg st op)) := by
  obtain ⟨m, c⟩ := st
  have hKok : ∀ x ∈ keysOf m, KeyOk T (r + 1) D x := by
    intro x hx
    obtain ⟨p, hp, rfl⟩ := List.mem_map.mp hx
    exact hg.inv.allKeyOk p hp
  have hlok : ∀ x ∈ l, KeyOk T (r + 1) D x := fun x hx => hKok x ((hl.mem_iff x).mpr hx)
  cases op with
  | set k v =>
    obtain ⟨hk, hv⟩ := hop
    have hsp := OMap.set_spec hT hg.cfgok hg.inv hk hv c
    by_cases hlim : TLimited cfg m.d m.root k
    · -- refused: nothing changes, and the specification does not append
      have heq : m.set cfg k v c = .error .collisionLimit := hsp.1 hlim
      have e1 : stepM cfg (m, c) (.set k v) = (m, c) := by simp only [stepM, heq]
      have e2 : served cfg (m, c) (.set k v) = false := by simp only [served, heq]
      rw [e1, e2]
      simp only [orderStep, Bool.false_eq_true, if_false, ite_self]
      exact hl
    · obtain ⟨old, m', c', heq, hp⟩ := hsp.2 hlim
      have heq' : m.set cfg k v c = .ok (old, m', c') := heq
      have e1 : stepM cfg (m, c) (.set k v) = (m', c') := by simp only [stepM, heq']
      have e2 : served cfg (m, c) (.set k v) = true := by simp only [served, heq']
      rw [e1, e2]
      simp only [orderStep, if_true]
      rcases hp.eff with ⟨ho, habs, _⟩ | ⟨v0, A, B, ho, h1, h2⟩
      · -- a new key
        subst ho
        have hnot : k ∉ l := by
          intro hkl
          obtain ⟨p, hp', hpk⟩ := List.mem_map.mp ((hl.mem_iff k).mpr hkl)
          exact habs p hp' hpk
        have hany : l.any (fun k' => k'.same k) = false := by
          rw [← Bool.not_eq_true, any_same_iff_mem hlok hk]; exact hnot
        rw [hany]
        simp only [Bool.false_eq_true, if_false]
        obtain ⟨A, B, sv, e1, e2, hB⟩ := OMap.set_newLast hT hg.cfgok hg.inv hk heq
        have hl' : SameCollisionOrder (A.map (·.1) ++ B.map (·.1)) l := by
          have := hl
          simp only [keysOf, e1, List.map_append] at this
          exact this
        have := hl'.insert_last (k := k) (by
          intro b hb
          obtain ⟨p, hp', rfl⟩ := List.mem_map.mp hb
          exact hB p hp')
        simpa only [keysOf, e2, List.map_append, List.map_cons] using this
      · -- an overwrite
        have hin : k ∈ l := by
          refine (hl.mem_iff k).mp ?_
          simp only [keysOf, h1, List.map_append, List.map_cons]
          simp
        have hany : l.any (fun k' => k'.same k) = true := (any_same_iff_mem hlok hk).mpr hin
        rw [hany]
        simp only [if_true]
        have : keysOf m' = keysOf m := by simp only [keysOf, h1, h2, List.map_append, List.map_cons]
        rw [this]; exact hl
  | remove k =>
    have hk : KeyOk T (r + 1) D k := hop
    simp only [orderStep]
    have hsp := OMap.remove_spec hT hg.cfgok hg.inv hk c hg.ctx
    have key : keysOf (stepM cfg (m, c) (.remove k)).1 = (keysOf m).filter (fun k' => !k'.same k) := by
      by_cases hex : ∃ v, (k, v) ∈ m.toList
      · obtain ⟨v, hv⟩ := hex
        obtain ⟨m', c', heq, _⟩ := hsp.2 v hv
        have heq' : m.remove cfg k c = .ok (k, v, m', c') := heq
        have e1 : stepM cfg (m, c) (.remove k) = (m', c') := by simp only [stepM, heq']
        rw [e1]
        exact (map_remove_erases_exactly T hT D cfg m m' hg.cfgok hg.inv k hk c c' hg.ctx k v heq).2.2
      · have habs : ∀ p ∈ m.toList, p.1 ≠ k := by
          intro p hp hpk; exact hex ⟨p.2, by rw [← hpk]; exact hp⟩
        have heq' : m.remove cfg k c = .error .keyNotFound := hsp.1 habs
        have e1 : stepM cfg (m, c) (.remove k) = (m, c) := by simp only [stepM, heq']
        rw [e1]
        refine (filter_not_same_of_absent hKok hk ?_).symm
        intro hmem
        obtain ⟨p, hp, hpk⟩ := List.mem_map.mp hmem
        exact habs p hp hpk
    rw [key]
    exact hl.filter _
  | popIterate =>
    simp only [stepM, orderStep]
    have : keysOf (m.popIterate c).2.1 = [] := by
      simp only [keysOf, (map_pop_empties T hT D m hg.inv c hg.ctx).2, List.map_nil]
    rw [this]
    exact SameCollisionOrder.refl []
  | setType ty => exact hl

/-- what the served/refused flag of the observed history means: a `Set` is refused exactly when the
    library returns `CollisionLimitError` (no other failure exists inside the invariant), and then the
    key was absent; a `Remove` is refused exactly when the key is absent. -/
theorem served_flag_meaning (T : Nat) (hT : legalThreshold T = true) (D : DigestFn (r + 1)) (cfg : MCfg)
    (st : OMap r × Ctx) (hg : Good T D cfg st) (k : MKey) (hk : KeyOk T (r + 1) D k) :
    (∀ v, ValueOkM v → (served cfg st (.set k v) = false ↔ st.1.set cfg k v st.2 = .error .collisionLimit) ∧
      (served cfg st (.set k v) = false → k ∉ keysOf st.1)) ∧
    (served cfg st (.remove k) = false ↔ k ∉ keysOf st.1) := by
  obtain ⟨m, c⟩ := st
  constructor
  · intro v hv
    have hsp := OMap.set_spec hT hg.cfgok hg.inv hk hv c
    by_cases hlim : TLimited cfg m.d m.root k
    · have heq : m.set cfg k v c = .error .collisionLimit := hsp.1 hlim
      refine ⟨⟨fun _ => heq, fun _ => by simp only [served, heq]⟩, ?_⟩
      intro _ hmem
      obtain ⟨p, hp, hpk⟩ := List.mem_map.mp hmem
      exact tlimited_absent hT m.d true m.root hg.inv.sinv hlim p hp hpk
    · obtain ⟨old, m', c', heq, _⟩ := hsp.2 hlim
      have heq' : m.set cfg k v c = .ok (old, m', c') := heq
      have e : served cfg (m, c) (.set k v) = true := by simp only [served, heq']
      have hne : served cfg (m, c) (.set k v) ≠ false := by rw [e]; exact Bool.noConfusion
      have hne' : m.set cfg k v c ≠ .error .collisionLimit := by rw [heq']; intro hcontra; cases hcontra
      exact ⟨⟨fun h => absurd h hne, fun h => absurd h hne'⟩, fun h => absurd h hne⟩
  · have hsp := OMap.remove_spec hT hg.cfgok hg.inv hk c hg.ctx
    by_cases hex : ∃ v, (k, v) ∈ m.toList
    · obtain ⟨v, hv⟩ := hex
      obtain ⟨m', c', heq, _⟩ := hsp.2 v hv
      have heq' : m.remove cfg k c = .ok (k, v, m', c') := heq
      have e : served cfg (m, c) (.remove k) = true := by simp only [served, heq']
      have hne : served cfg (m, c) (.remove k) ≠ false := by rw [e]; exact Bool.noConfusion
      exact ⟨fun h => absurd h hne, fun h => absurd (List.mem_map.mpr ⟨(k, v), hv, rfl⟩) h⟩
    · have habs : ∀ p ∈ m.toList, p.1 ≠ k := by
        intro p hp hpk; exact hex ⟨p.2, by rw [← hpk]; exact hp⟩
      have heq' : m.remove cfg k c = .error .keyNotFound := hsp.1 habs
      refine ⟨fun _ hmem => ?_, fun _ => by simp only [served, heq']⟩
      obtain ⟨p, hp, hpk⟩ := List.mem_map.mp hmem
      exact habs p hp hpk

/-- histories, from any well-formed state and any association list that agrees with it -/
theorem sameCollisionOrder_run (T : Nat) (hT : legalThreshold T = true) (D : DigestFn (r + 1)) (cfg : MCfg) :
    ∀ (ops : List MOp) (st : OMap r × Ctx), Good T D cfg st → (∀ op ∈ ops, op.Ok T D) → ∀ (l : List MKey),
      SameCollisionOrder (keysOf st.1) l →
      SameCollisionOrder (keysOf (runM cfg st ops).1) (insertionOrderFrom l (observe cfg st ops))
  | [], _, _, _, _, hl => hl
  | op :: ops, st, hg, hok, l, hl =>
    sameCollisionOrder_run T hT D cfg ops (stepM cfg st op) (good_stepM T hT D cfg st hg op (hok op (by simp)))
      (fun o ho => hok o (by simp [ho])) _ (sameCollisionOrder_step T hT D cfg st hg op (hok op (by simp)) l hl)

/-- **FULLY COLLIDING KEYS ARE ENUMERATED IN INSERTION ORDER.**  For every history `ops` of
    `Set` / `Remove` / `PopIterate` / `SetType` from the empty map (`OMap.new`), any legal threshold, any
    digest function (any collisions), and EVERY digest vector `d`: the keys with digest vector `d` in the
    final enumeration `toList` are – in this order – the keys with digest vector `d` of the
    specification's insertion-order list (`insertionOrderObs (observe …)`: new key appended, overwrite
    keeps its position, remove deletes – so a removed and re-inserted key moves to the END – pop
    clears, a `Set` refused by the collision limit does nothing). -/
theorem map_full_collisions_in_insertion_order (T : Nat) (hT : legalThreshold T = true) (D : DigestFn (r + 1))
    (cfg : MCfg) (hcT : cfg.T = T) (hcL : cfg.L = r + 1) (ty : Nat) (seedOf : SlabID → Nat) (c0 : Ctx)
    (ops : List MOp) (hok : ∀ op ∈ ops, op.Ok T D) (d : List Nat) :
    let st0 : OMap r × Ctx := OMap.new cfg.addr ty seedOf c0
    ((runM cfg st0 ops).1.toList.filter (fun p => p.1.digs == d)).map (·.1) =
      (insertionOrderObs (observe cfg st0 ops)).filter (fun k => k.digs == d) := by
  intro st0
  have hg0 : Good T D cfg st0 := Good.new hT hcT hcL ty seedOf c0
  have h0 : SameCollisionOrder (keysOf st0.1) [] := by
    have : keysOf st0.1 = [] := rfl
    rw [this]; exact SameCollisionOrder.refl []
  have := sameCollisionOrder_run T hT D cfg ops st0 hg0 hok [] h0 d
  show _ = (insertionOrderFrom [] (observe cfg st0 ops)).filter (fun k => k.digs == d)
  rw [← this]
  simp only [keysOf, List.filter_map]
  rfl

/-- **THE ENUMERATION ORDER IS DETERMINED BY THE OBSERVED HISTORY.**  The key sequence of the final
    enumeration is the STABLE sort (`List.mergeSort`, which keeps equal elements in their original
    order) of the specification's insertion-order list by digest vector: ascending digest vectors
    (`map_order_canonical`), insertion order inside every class of fully colliding keys
    (`map_full_collisions_in_insertion_order`) – and these two facts leave no freedom
    (`digSorted_unique`). -/
theorem map_enumeration_determined (T : Nat) (hT : legalThreshold T = true) (D : DigestFn (r + 1))
    (cfg : MCfg) (hcT : cfg.T = T) (hcL : cfg.L = r + 1) (ty : Nat) (seedOf : SlabID → Nat) (c0 : Ctx)
    (ops : List MOp) (hok : ∀ op ∈ ops, op.Ok T D) :
    let st0 : OMap r × Ctx := OMap.new cfg.addr ty seedOf c0
    (runM cfg st0 ops).1.toList.map (·.1) = (insertionOrderObs (observe cfg st0 ops)).mergeSort digLe := by
  intro st0
  have hg0 : Good T D cfg st0 := Good.new hT hcT hcL ty seedOf c0
  have hg := good_runM T hT D cfg ops st0 hg0 hok
  have h0 : SameCollisionOrder (keysOf st0.1) [] := by
    have : keysOf st0.1 = [] := rfl
    rw [this]; exact SameCollisionOrder.refl []
  have hsame := sameCollisionOrder_run T hT D cfg ops st0 hg0 hok [] h0
  have hsorted : DigSorted (keysOf (runM cfg st0 ops).1) := by
    have := map_order_canonical T D (runM cfg st0 ops).1 hg.inv
    unfold DigSorted keysOf
    rw [List.pairwise_map] at this ⊢
    exact this
  refine digSorted_unique _ _ hsorted (digSorted_mergeSort _) ?_
  intro d
  rw [hsame d]
  exact (sameCollisionOrder_mergeSort _ d).symm

/-- the observed flags of a history in which every request is served -/
theorem observe_all_served (cfg : MCfg) : ∀ (ops : List MOp) (st : OMap r × Ctx),
    (∀ n, n < ops.length → served cfg (runM cfg st (ops.take n)) (ops.getD n .popIterate) = true) →
    observe cfg st ops = ops.map (fun op => (op, true))
  | [], _, _ => rfl
  | op :: ops, st, h => by
    have h0 := h 0 (by simp)
    simp only [List.take_zero, runM, List.foldl_nil, List.getD_cons_zero] at h0
    simp only [observe, List.map_cons, h0]
    congr 1
    refine observe_all_served cfg ops (stepM cfg st op) ?_
    intro n hn
    have := h (n + 1) (by simpa using hn)
    simpa only [List.take_succ_cons, runM, List.foldl_cons, List.getD_cons_succ] using this

/-- When no request of the history is refused (no `Set` hits the collision limit, no `Remove` names
    an absent key) the enumeration order is a function of the REQUESTS alone. -/
theorem map_enumeration_determined_no_refusal (T : Nat) (hT : legalThreshold T = true) (D : DigestFn (r + 1))
    (cfg : MCfg) (hcT : cfg.T = T) (hcL : cfg.L = r + 1) (ty : Nat) (seedOf : SlabID → Nat) (c0 : Ctx)
    (ops : List MOp) (hok : ∀ op ∈ ops, op.Ok T D)
    (hserved : ∀ n, n < ops.length →
      served cfg (runM cfg (OMap.new (r := r) cfg.addr ty seedOf c0) (ops.take n)) (ops.getD n .popIterate) = true) :
    (runM cfg (OMap.new (r := r) cfg.addr ty seedOf c0) ops).1.toList.map (·.1) = (insertionOrder ops).mergeSort digLe := by
  have := map_enumeration_determined T hT D cfg hcT hcL ty seedOf c0 ops hok
  simp only at this
  rw [this, observe_all_served cfg ops _ hserved]
  rfl

/-- The same for what the ITERATORS yield after the history (they all yield `toList`): the mutable
    iterator and its keys-only flavour; the loaded-value iterator with everything loaded; and the
    read-only iterator and its keys-only flavour (no identifier hypothesis: the slab IDs of a map
    reached by a history are distinct and defined, `C13.map_ro_iter_history`). -/
theorem map_iterators_in_insertion_order (T : Nat) (hT : legalThreshold T = true) (D : DigestFn (r + 1))
    (cfg : MCfg) (hcT : cfg.T = T) (hcL : cfg.L = r + 1) (ty : Nat) (seedOf : SlabID → Nat) (c0 : Ctx)
    (ops : List MOp) (hok : ∀ op ∈ ops, op.Ok T D) :
    let st0 : OMap r × Ctx := OMap.new cfg.addr ty seedOf c0
    let m := (runM cfg st0 ops).1
    let order := (insertionOrderObs (observe cfg st0 ops)).mergeSort digLe
    (∃ L, m.iterMutable cfg = .ok L ∧ L.map (·.1) = order) ∧
    m.iterMutableKeys cfg = .ok order ∧
    (∀ loaded : SlabID → Bool, (∀ id, loaded id = true) → (m.iterLoaded loaded).map (·.1) = order) ∧
    (∃ L, m.iterReadOnly = .ok L ∧ L.map (·.1) = order) ∧ m.iterReadOnlyKeys = .ok order := by
  intro st0 m order
  have hg0 : Good T D cfg st0 := Good.new hT hcT hcL ty seedOf c0
  have hg := good_runM T hT D cfg ops st0 hg0 hok
  have hdet : m.toList.map (·.1) = order := map_enumeration_determined T hT D cfg hcT hcL ty seedOf c0 ops hok
  have hkv := map_keys_values_projections T hT D cfg m hg.cfgok hg.inv
  refine ⟨⟨m.toList, map_mut_iter_eq_toList T hT D cfg m hg.cfgok hg.inv, hdet⟩, ?_, ?_, ?_, ?_⟩
  · rw [hkv.1, hdet]
  · intro loaded hall
    rw [map_loaded_all_eq_toList T D m hg.inv loaded hall, hdet]
  · obtain ⟨hro, hrok, _, _⟩ := map_ro_iter_history T hT D cfg hcT hcL ty seedOf c0 ops hok ops.length m
      (by rw [List.take_length])
    exact ⟨m.toList, hro, hdet⟩
  · obtain ⟨_, hrok, _, _⟩ := map_ro_iter_history T hT D cfg hcT hcL ty seedOf c0 ops hok ops.length m
      (by rw [List.take_length])
    rw [hrok, hdet]

/-! ## c. Non-vacuity

`MapExample` (two digest levels, `T = 256`, digests = hundreds and tens digit of the payload, collision
limit 1 at the first level).  The keys 313, 311, 312 collide on BOTH levels and are inserted in that
(non-sorted) order; 311 is overwritten (keeps its place), then removed and inserted again: it is now
the LAST of its class.  Then come a `Set` that is served, a `Set` that is refused by the collision limit
and a `Remove` of an absent key.  Everything is computed by running the model. -/
section NonVacuity

def hist : List MOp :=
  [.set (key 313) (val 1), .set (key 311) (val 2), .set (key 211) (val 3), .set (key 312) (val 4),
   .set (key 311) (val 5), .remove (key 311), .setType 9, .set (key 311) (val 8), .set (key 321) (val 6),
   .set (key 331) (val 7), .remove (key 999)]

theorem hist_ok : ∀ op ∈ hist, op.Ok 256 D2 := by
  intro op hop
  simp only [hist, List.mem_cons, List.not_mem_nil, or_false] at hop
  rcases hop with rfl | rfl | rfl | rfl | rfl | rfl | rfl | rfl | rfl | rfl | rfl
  all_goals first
    | exact ⟨key_ok _, val_ok _⟩
    | exact key_ok _
    | trivial

/-- what the caller observes: the tenth request (a third second-level digest under first-level digest 3,
    collision limit 1) is refused, and so is the removal of the absent key 999 -/
example : (observe cfg2 st0 hist).map (·.2) =
    [true, true, true, true, true, true, true, true, true, false, false] := by decide

/-- the specification's association list: 311 was removed and re-inserted, so it comes last;
    the refused 331 is not in it -/
example : (insertionOrderObs (observe cfg2 st0 hist)).map (·.pay) = [313, 211, 312, 311, 321] := by decide

/-- the digest vectors: 313, 312, 311 collide fully -/
example : (insertionOrderObs (observe cfg2 st0 hist)).map (·.digs) = [[3, 1], [2, 1], [3, 1], [3, 1], [3, 2]] := by
  decide

/-- the enumeration of the model's final tree: ascending digest vectors, and inside the class `[3, 1]`
    the order 313, 312, 311 of (latest) insertion – NOT the order of the payloads -/
example : (runM cfg2 st0 hist).1.toList.map (·.1.pay) = [211, 313, 312, 311, 321] := by decide

/-- the theorems apply to this history (all hypotheses discharged) -/
theorem hist_determined :
    (runM cfg2 st0 hist).1.toList.map (·.1) = (insertionOrderObs (observe cfg2 st0 hist)).mergeSort digLe :=
  map_enumeration_determined 256 legal256 D2 cfg2 rfl rfl 0 (fun id => id.idx) { ctr := 0, eff := [] } hist hist_ok

/-- so that is what the stable sort of the association list by digest vector is -/
example : ((insertionOrderObs (observe cfg2 st0 hist)).mergeSort digLe).map (·.pay) = [211, 313, 312, 311, 321] := by
  rw [← hist_determined, List.map_map]
  decide

example : ((runM cfg2 st0 hist).1.toList.filter (fun p => p.1.digs == [3, 1])).map (·.1) =
    (insertionOrderObs (observe cfg2 st0 hist)).filter (fun k => k.digs == [3, 1]) :=
  map_full_collisions_in_insertion_order 256 legal256 D2 cfg2 rfl rfl 0 (fun id => id.idx) { ctr := 0, eff := [] }
    hist hist_ok [3, 1]

/-- the overwrite step of the history: the key sequence is unchanged -/
example : keysOf (runM cfg2 st0 (hist.take 5)).1 = keysOf (runM cfg2 st0 (hist.take 4)).1 := by decide

/-- the remove step: exactly 311 disappears -/
example : (keysOf (runM cfg2 st0 (hist.take 5)).1).map (·.pay) = [211, 313, 311, 312] ∧
    (keysOf (runM cfg2 st0 (hist.take 6)).1).map (·.pay) = [211, 313, 312] := by decide

/-- a history without refusals: the order is a function of the requests alone -/
example : (insertionOrder (hist.take 9)).map (·.pay) = [313, 211, 312, 311, 321] := by decide

/-- `digSorted_unique` has teeth: two different orders of one collision class are told apart by
    `SameCollisionOrder` (so "ascending digest vectors" alone does not determine the enumeration) -/
example : DigSorted [key 313, key 312] ∧ DigSorted [key 312, key 313] ∧
    ¬ SameCollisionOrder [key 313, key 312] [key 312, key 313] := by
  refine ⟨?_, ?_, ?_⟩
  · simp only [DigSorted, List.pairwise_cons]; simp [key, D2]
  · simp only [DigSorted, List.pairwise_cons]; simp [key, D2]
  · intro h
    have := h [3, 1]
    revert this
    decide

end NonVacuity

end Atree.C13
