import AtreeProofs.Props.C05VerifyMap
import AtreeProofs.Props.C05MapIds
/-
  C05 (MAPS) — the library's own checker `VerifyMap` accepts the map after EVERY history.
  PROPERTY THEOREMS.  `C05V.mapInv_implies_verify_ok` needs, besides `MapInv`, hypotheses about slab
  identifiers and the seed (`Verify.MapIdsOk`: tree identifiers pairwise different, of the
  verifier's address, defined; seed ≠ 0) which were undischarged.  The preserved identifier clause
  `Atree.MapIdsOk` (AtreeProofs/MapIds.lean) implies the identifier part, the seed is the one chosen at
  creation (`C05.map_history_wellformed`), so for histories from `NewMap` only `seed ≠ 0` remains — a
  hypothesis about the caller-supplied seed function (Go: `NewMap` draws random seeds until non-zero
  … the harness recomputes it), not about the tree.
  NOTE on names: `Atree.Verify.MapIdsOk v m` (old; verifier-relative, no counter, no group slabs, with
  the seed) and `Atree.MapIdsOk m ctr` (new; the preserved invariant) are different predicates in
  different namespaces; `verifyIdsOk_of_mapIdsOk` is the bridge.
-/
namespace Atree.C05V
open Atree Gen Verify

variable {r : Nat}

/-- the identifiers `VerifyMap` walks over (data and index slabs) are a sublist of all identifiers
    (which also contain the external collision-group slabs) -/
theorem mapTreeIds_sublist : ∀ (d : Nat) (t : MTree r d), (mapTreeIds d t).Sublist (CtxOk.mapSlabIds d t)
  | 0, t => by
    refine IterM.forall_ofD ?_ t; intro s
    show [s.hdr.id].Sublist (CtxOk.mapSlabIds 0 s)
    rw [mapSlabIds_zero]
    exact List.Sublist.cons_cons _ (List.nil_sublist _)
  | d + 1, t => by
    refine IterM.forall_ofM ?_ t; intro m
    show (m.hdr.id :: m.children.flatMap (mapTreeIds d)).Sublist (CtxOk.mapSlabIds (d + 1) m)
    rw [mapSlabIds_succ]
    exact List.Sublist.cons_cons _ (flatMap_sublist_flatMap _ _ _ (fun c _ => mapTreeIds_sublist d c))

/-- The preserved identifier clause discharges the identifier hypotheses of the checker theorem. -/
theorem verifyIdsOk_of_mapIdsOk (v : MVerifier) (m : OMap r) (ctr : Nat) (h : Atree.MapIdsOk m ctr)
    (hva : v.address = m.addr) (hseed : m.seed ≠ 0) : Verify.MapIdsOk v m := by
  have hsub := mapTreeIds_sublist m.d m.root
  refine ⟨hsub.nodup h.1, ?_, ?_, hseed⟩
  · intro id hid
    rw [hva]
    exact (h.2 id (hsub.subset hid)).1
  · intro id hid
    exact h.ne_undef id (hsub.subset hid)

/-- `VerifyMap` accepts every state satisfying the invariant WITH identifiers (`MapInvI`) and a
    non-zero seed. -/
theorem mapInvI_implies_verify_ok (T : Nat) (hT : legalThreshold T = true) (D : DigestFn (r + 1))
    (m : OMap r) (ctr : Nat) (h : MapInvI T D m ctr) (hseed : m.seed ≠ 0)
    (v : MVerifier) (hvT : v.T = T) (hvL : v.L = r + 1) (hvd : v.dg = D.dg) (hva : v.address = m.addr)
    (typeInfo : Option Nat) (hty : ∀ ty, typeInfo = some ty → m.ty = ty) :
    verifyMap v typeInfo m = .ok () :=
  mapInv_implies_verify_ok T hT D m h.1 v hvT hvL hvd hva (verifyIdsOk_of_mapIdsOk v m ctr h.2 hva hseed)
    typeInfo hty

/-- After EVERY prefix of EVERY history of requests from `NewMap` (any legal threshold, any digest
    function, rejected requests included) the library's checker — set up for the threshold, the
    digester and the owner address in force, asked about no type or the current type — accepts the
    map, provided the seed chosen at creation is non-zero. -/
theorem map_history_verify_ok (T : Nat) (hT : legalThreshold T = true) (D : DigestFn (r + 1)) (cfg : MCfg)
    (hcT : cfg.T = T) (hcL : cfg.L = r + 1) (ty : Nat) (seedOf : SlabID → Nat) (c0 : Ctx)
    (hseed : seedOf ⟨cfg.addr, c0.ctr + 1⟩ ≠ 0)
    (ops : List E2EM.MOp) (hok : ∀ op ∈ ops, op.Ok T D) (n : Nat)
    (v : MVerifier) (hvT : v.T = T) (hvL : v.L = r + 1) (hvd : v.dg = D.dg) (hva : v.address = cfg.addr) :
    ∀ m, m = (E2EM.runM cfg (OMap.new (r := r) cfg.addr ty seedOf c0) (ops.take n)).1 →
      verifyMap v none m = .ok () ∧ verifyMap v (some m.ty) m = .ok () := by
  intro m hm
  obtain ⟨hinv, hids, hrid, _, hsd⟩ := C05.map_history_wellformed T hT D cfg hcT hcL ty seedOf c0 ops hok n
  rw [← hm] at hinv hids hrid hsd
  have haddr : v.address = m.addr := by rw [hva]; unfold OMap.addr; rw [hrid]
  have hs : m.seed ≠ 0 := by rw [hsd]; exact hseed
  exact ⟨mapInvI_implies_verify_ok T hT D m _ ⟨hinv, hids⟩ hs v hvT hvL hvd haddr none (fun _ h => by cases h),
    mapInvI_implies_verify_ok T hT D m _ ⟨hinv, hids⟩ hs v hvT hvL hvd haddr (some m.ty)
      (fun _ h => by cases h; rfl)⟩

/-! ### Non-vacuity: the 25-request history `C05.hist` (seed function `id.idx`, so the seed is 1);
    the theorem applies to every prefix and agrees with plain evaluation of the transcription. -/
section NonVacuity
open MapExample

example (n : Nat) := map_history_verify_ok 256 legal256 D2 cfg2 rfl rfl 0 (fun id => id.idx) ⟨0, [], []⟩ (by decide)
  C05.hist C05.hist_ok n exVerifier rfl rfl rfl rfl _ rfl
example : verifyMap exVerifier none (C05.stN 20).1 = .ok () := rfl
example : verifyMap exVerifier (some 5) (C05.stN 23).1 = .ok () := rfl
/-- the audit's state with duplicated data-slab identifiers is rejected by the checker as well … -/
example : verifyMap exVerifier none C05.dup = .error .duplicateSlabID := rfl
/-- … but the state whose external collision-group slab belongs to a foreign address (`9.2` under the
    root `7.1`) is ACCEPTED by `VerifyMap` (it never looks at the identifier of a group slab):
    `MapIdsOk` is strictly stronger than what the library's checker sees (`C05.x8_excluded`). -/
example : verifyMap exVerifier none C05.x8 = .ok () := rfl

end NonVacuity

end Atree.C05V
