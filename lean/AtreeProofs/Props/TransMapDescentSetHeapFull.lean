import AtreeProofs.Props.TransMapDescentSetFull4
import AtreeProofs.Props.TransMapDescentTailRootSplit
import AtreeProofs.Props.TransMapDescentTailRootPromote1
/-
  MAP DESCENT (WP13, round 3): **`Ob_OrderedMap_Set_heap_full`** - the generated `OrderedMap.set` (digester, descent through
  `MapMetaDataSlab.Set` at every depth, `MapDataSlab.Set`, header / firstKey refresh, `SplitChildSlab` /
  `MergeOrRebalanceChildSlab`, count, promotion, root split) with the restructuring parameters instantiated by the GENERATED code
  of `Gen/TransMapSlabs.lean` over the same heap (`rsOf`), equals the model's `OMap.set` on the embedded tree, under the
  map invariant.  NO hypothesis about generated code of the descent or of the restructuring: the three tail predicates are
  discharged (`MSplitTail_rsOf`, `MMorTail_rsOf_partial` with the receiver-size fact supplied from the tree invariant,
  `MRootTailR_promote_rsOf1`, `MRootTailR_splitRoot_rsOf_of`).  The element layer enters through `ElemsSpec` (first theorem) or is
  the CLOSED generated element layer `clEnvB` (second theorem: no hypothesis about ANY generated code).
  Remaining hypotheses: the map invariant, `uint64` range of the first-level digests (the model's digests are unbounded
  naturals), the heap holds the tree, identifiers pairwise distinct and at the owner's address, nothing stored beyond the
  allocation counter (`mds_FreshFree`), and - closed form - the range / storage-content predicate `mcl_PLeaf` of the leaves.
-/
namespace Atree.TransEq
open Atree Atree.Gen.TransMapD

section
variable {r : Nat}

/-- the root tail of the Set composition for the generated restructuring code, with the `slack1` root invariant -/
theorem MRootTailR_rsOf1 (T : Nat) (D : DigestFn (r + 1)) (hT : legalThreshold T = true) :
    MRootTailR T (rsOf (r := r) T) (MQR1 T D) :=
  ⟨MRootTailR_promote_rsOf1 D hT, MRootTailR_splitRoot_rsOf_of D hT (MQR1 T D) (fun _ h => h) (fun _ h => h)⟩

/-- **`OrderedMap.set` over a heap = `OMap.set`**, every depth, every restructuring, for any element layer `eb` that is the
    model's on the leaves (`ElemsSpec`; WP11's witnesses or the closed element layer) -/
theorem Ob_OrderedMap_Set_heap_full (cfg : MCfg) (D : DigestFn (r + 1)) (k : MKey) (v : Elem)
    (P : DG r → Prop) (eb : DEnvB r)
    (hLT : legalThreshold cfg.T = true) (hL : cfg.L = r + 1) (hk : KeyOk cfg.T (r + 1) D k) (hv : ValueOkM v)
    (hhk : k.dig 0 < 2^64) (hE : ElemsSpec cfg k v P eb)
    (m : OMap r) (hinv : MapInv cfg.T D m) (hdig : ∀ x ∈ MTree.digests0 m.d m.root, x < 2^64)
    (hPl : ∀ sl ∈ MTree.leaves m.d m.root, P sl.elems)
    (s : MHSt r) (x0 : Option DX) (depth : Nat) (hd : m.d ≤ depth)
    (hheld : MHolds s.heap m.d m.root x0) (hnd : (md_ids m.d m.root).Nodup)
    (haddr : ∀ id ∈ md_ids m.d m.root, id.addr = cfg.addr) (hff : mds_FreshFree cfg.addr s) :
    match OMap.set cfg m k v s.ctx with
    | .ok (old, m', c') =>
      ∃ s' x', OrderedMap_set (envD cfg.T eb (rsOf cfg.T)) depth (md_map m s) (.key k) (.val v) =
          some (old.map .val, none, md_map m' s') ∧
        s'.ctx = c' ∧ s'.popped = s.popped ∧ mds_RootPreR (MQR1 cfg.T D) cfg.addr s' m' x' ∧
        mds_Delta s.heap s'.heap (md_ids m.d m.root) (md_ids m'.d m'.root)
    | .error e =>
      ∃ M', OrderedMap_set (envD cfg.T eb (rsOf cfg.T)) depth (md_map m s) (.key k) (.val v) = some (none, some e, M') :=
  Ob_OrderedMap_Set_heap_full_of_root1 cfg D k v P eb hLT hL hk hv hhk hE (MRootTailR_rsOf1 cfg.T D hLT) m hinv hdig hPl
    s x0 depth hd hheld hnd haddr hff

/-- the same with the CLOSED generated element layer: no hypothesis about any generated code -/
theorem Ob_OrderedMap_Set_heap_full_closed (cfg : MCfg) (D : DigestFn (r + 1)) (k : MKey) (v : Elem)
    (retr : mcl_Retrs DX)
    (hLT : legalThreshold cfg.T = true) (hL : cfg.L = r + 1) (hL64 : cfg.L < 2^64) (hT32 : cfg.T < 2^32)
    (hTe : maxInlineMapElem cfg.T < 2^32) (hcl : cfg.climit < 2^32) (hkd : ∀ lvl, k.dig lvl < 2^64)
    (hk : KeyOk cfg.T (r + 1) D k) (hv : ValueOkM v)
    (m : OMap r) (hinv : MapInv cfg.T D m) (hdig : ∀ x ∈ MTree.digests0 m.d m.root, x < 2^64)
    (hPl : ∀ sl ∈ MTree.leaves m.d m.root, mcl_PLeaf cfg k v retr D sl.elems)
    (s : MHSt r) (x0 : Option DX) (depth : Nat) (hd : m.d ≤ depth)
    (hheld : MHolds s.heap m.d m.root x0) (hnd : (md_ids m.d m.root).Nodup)
    (haddr : ∀ id ∈ md_ids m.d m.root, id.addr = cfg.addr) (hff : mds_FreshFree cfg.addr s) :
    match OMap.set cfg m k v s.ctx with
    | .ok (old, m', c') =>
      ∃ s' x', OrderedMap_set (envD cfg.T (clEnvB cfg retr (r + 1)) (rsOf cfg.T)) depth (md_map m s) (.key k) (.val v) =
          some (old.map .val, none, md_map m' s') ∧
        s'.ctx = c' ∧ s'.popped = s.popped ∧ mds_RootPreR (MQR1 cfg.T D) cfg.addr s' m' x' ∧
        mds_Delta s.heap s'.heap (md_ids m.d m.root) (md_ids m'.d m'.root)
    | .error e =>
      ∃ M', OrderedMap_set (envD cfg.T (clEnvB cfg retr (r + 1)) (rsOf cfg.T)) depth (md_map m s) (.key k) (.val v) =
        some (none, some e, M') :=
  Ob_OrderedMap_Set_heap_full_of_root1_closed cfg D k v retr hLT hL hL64 hT32 hTe hcl hkd hk hv
    (MRootTailR_rsOf1 cfg.T D hLT) m hinv hdig hPl s x0 depth hd hheld hnd haddr hff

end
end Atree.TransEq
