import AtreeModel.Array.IterObj
import AtreeModel.Map.IterObj
import AtreeProofs.Props.C13
/-
  C13, iterator OBJECTS and the callback loop with its `resume` flag (audit a1, F8).

  `iterateLoop` (Array/IterObj.lean) is the transcription of the five Go callback loops
  (`iterateArray`, the loop of `Array.IterateReadOnlyLoadedValues`, `iterateMap`, `iterateMapKeys`,
  `iterateMapValues`, the loop of `OrderedMap.IterateReadOnlyLoadedValues`): it calls the iterator's
  step, hands the value to the callback and stops when the callback answers `resume = false`.

  * `early_stop_eq_take`: for EVERY iterator (any step function, any state), if the loop run with a
    callback that never stops delivers `l`, the loop run with a callback that answers `false` at its
    `k`-th call delivers exactly `l.take (k + 1)` - in particular it cannot fail where the full run
    does not, and nothing is delivered after the stop.
  * `arr_early_stop_eq_take`, `map_early_stop_eq_take`: the instances for the five array flavours and
    the seven map flavours (iterator objects of Array/IterObj.lean, Map/IterObj.lean).
  * `arr_next_after_end`: an array iterator object that has answered nil answers nil for ever
    (`Next()` beyond the end), for all four iterator types.
  * `early_stop_never_more`: whatever the callback, the delivered list is a prefix of the full run.
-/
namespace Atree.C13Obj
open Atree

variable {σ ε α : Type}

/-- general form: started at call number `i ≤ k` -/
theorem early_stop_from (next : σ → Except ε (Option α × σ)) (k : Nat) :
    ∀ (fuel i : Nat) (st : σ) (l : List α), i ≤ k →
      iterateLoop next (neverStop α) fuel i st = .ok l →
      iterateLoop next (stopAt α k) fuel i st = .ok (l.take (k + 1 - i)) := by
  intro fuel
  induction fuel with
  | zero =>
    intro i st l _ h
    simp only [iterateLoop] at h ⊢
    cases h; simp
  | succ fuel ih =>
    intro i st l hik h
    simp only [iterateLoop] at h ⊢
    cases hn : next st with
    | error e => rw [hn] at h; cases h
    | ok r =>
      obtain ⟨v, st'⟩ := r
      rw [hn] at h
      cases v with
      | none =>
        simp only at h ⊢
        cases h; simp
      | some v =>
        have hns : neverStop α i v = true := rfl
        dsimp only at h ⊢
        rw [if_pos hns] at h
        cases hr : iterateLoop next (neverStop α) fuel (i + 1) st' with
        | error e => rw [hr] at h; cases h
        | ok rest =>
          rw [hr] at h
          cases h
          by_cases hlt : i < k
          · have hs : stopAt α k i v = true := by simp [stopAt, hlt]
            have := ih (i + 1) st' rest (by omega) hr
            rw [if_pos hs, this]
            have : k + 1 - i = (k + 1 - (i + 1)) + 1 := by omega
            rw [this, List.take_succ_cons]
          · have hs : ¬ stopAt α k i v = true := by simp [stopAt, hlt]
            have hik' : k + 1 - i = 1 := by omega
            rw [if_neg hs, hik']
            rfl

/-- EARLY STOP (any iterator): the callback that answers `resume = false` at its `k`-th call
    (counting from 0) receives exactly the first `k + 1` values of the full enumeration. -/
theorem early_stop_eq_take (next : σ → Except ε (Option α × σ)) (k fuel : Nat) (st : σ) (l : List α)
    (h : iterateLoop next (neverStop α) fuel 0 st = .ok l) :
    iterateLoop next (stopAt α k) fuel 0 st = .ok (l.take (k + 1)) := by
  simpa using early_stop_from next k fuel 0 st l (Nat.zero_le _) h

/-- whatever the callback answers, what it receives is a prefix of the full enumeration -/
theorem early_stop_never_more (next : σ → Except ε (Option α × σ)) (resume : Nat → α → Bool) :
    ∀ (fuel i : Nat) (st : σ) (l : List α),
      iterateLoop next (neverStop α) fuel i st = .ok l →
      ∃ l', iterateLoop next resume fuel i st = .ok l' ∧ l' <+: l := by
  intro fuel
  induction fuel with
  | zero =>
    intro i st l h
    simp only [iterateLoop] at h ⊢
    cases h; exact ⟨[], rfl, List.prefix_refl _⟩
  | succ fuel ih =>
    intro i st l h
    simp only [iterateLoop] at h ⊢
    cases hn : next st with
    | error e => rw [hn] at h; cases h
    | ok r =>
      obtain ⟨v, st'⟩ := r
      rw [hn] at h
      cases v with
      | none => simp only at h ⊢; cases h; exact ⟨[], rfl, List.prefix_refl _⟩
      | some v =>
        have hns : neverStop α i v = true := rfl
        dsimp only at h ⊢
        rw [if_pos hns] at h
        cases hr : iterateLoop next (neverStop α) fuel (i + 1) st' with
        | error e => rw [hr] at h; cases h
        | ok rest =>
          rw [hr] at h
          cases h
          obtain ⟨l', hl', hp⟩ := ih (i + 1) st' rest hr
          by_cases hres : resume i v = true
          · refine ⟨v :: l', ?_, ?_⟩
            · rw [if_pos hres, hl']
            · exact (List.prefix_cons_inj v).mpr hp
          · refine ⟨[v], ?_, ?_⟩
            · rw [if_neg hres]
            · exact ⟨rest, rfl⟩

/-- EARLY STOP, arrays: `Iterate`, `IterateReadOnly`, `IterateRange`, `IterateReadOnlyRange` and
    `IterateReadOnlyLoadedValues` (for any set of loaded slabs) with a callback that stops at its
    `k`-th call deliver the first `k + 1` elements of what the never-stopping callback receives. -/
theorem arr_early_stop_eq_take (a : Arr) (loaded : SlabID → Bool) (f : Arr.Flavour) (k : Nat) (l : List Elem)
    (h : a.iterateFlavour loaded f (neverStop Elem) = .ok l) :
    a.iterateFlavour loaded f (stopAt Elem k) = .ok (l.take (k + 1)) := by
  unfold Arr.iterateFlavour at h ⊢
  cases hm : a.makeIterator f with
  | error e => rw [hm] at h; cases h
  | ok it =>
    rw [hm] at h
    exact early_stop_eq_take _ k _ it l h

/-- EARLY STOP, maps: `Iterate / IterateReadOnly / IterateReadOnlyLoadedValues` (call = next),
    `IterateKeys / IterateReadOnlyKeys` (nextKey), `IterateValues / IterateReadOnlyValues` (nextValue). -/
theorem map_early_stop_eq_take {r : Nat} (cfg : MCfg) (m : OMap r) (loaded : SlabID → Bool)
    (f : OMap.IterFlavour) (call : MapCall) (k : Nat) (l : List MapRet)
    (h : m.iterateFlavour cfg loaded f call (neverStop MapRet) = .ok l) :
    m.iterateFlavour cfg loaded f call (stopAt MapRet k) = .ok (l.take (k + 1)) := by
  unfold OMap.iterateFlavour at h ⊢
  cases hm : m.makeIterator loaded f with
  | error e => rw [hm] at h; cases h
  | ok it =>
    rw [hm] at h
    exact early_stop_eq_take _ k _ it l h

/-- an array iterator object that answers nil is left unchanged by that call … -/
theorem arr_next_nil_stable (a : Arr) (loaded : SlabID → Bool) (it it' : ArrIter)
    (h : ArrIter.next a loaded it = .ok (none, it')) : it' = it := by
  cases it with
  | empty ro => simp [ArrIter.next] at h; exact h.symm
  | «mut» i last =>
    simp only [ArrIter.next] at h
    split at h
    · cases h; rfl
    · split at h <;> cases h
  | ro r =>
    simp only [ArrIter.next] at h
    cases hr : ArrIter.roNext (Arr.leaves a.d a.root) r with
    | error e => rw [hr] at h; cases h
    | ok p =>
      obtain ⟨v, r'⟩ := p
      rw [hr] at h
      simp only at h
      cases h
      -- roNext answers nil only through the two exits that return the iterator itself
      unfold ArrIter.roNext at hr
      repeat' split at hr
      all_goals first | (cases hr; rfl) | cases hr | (dsimp only at hr; split at hr <;> cases hr)
  | loaded l =>
    simp only [ArrIter.next] at h
    split at h <;> cases h
    rfl

/-- … hence `Next()` after the end answers nil for ever (all four array iterator types). -/
theorem arr_next_after_end (a : Arr) (loaded : SlabID → Bool) (it it' : ArrIter) (n : Nat)
    (h : ArrIter.next a loaded it = .ok (none, it')) :
    stepN (ArrIter.next a loaded) n it' = .ok (List.replicate n none) := by
  have hs := arr_next_nil_stable a loaded it it' h
  subst hs
  induction n with
  | zero => rfl
  | succ n ih => simp [stepN, h, ih, List.replicate_succ]

/-! ### Non-vacuity: the four-element example array of Props/C13.lean -/

open Atree.Example in
example : arr4.iterateFlavour (fun _ => true) .ro (neverStop Elem) = .ok arr4.toList := by rfl

open Atree.Example in
example : arr4.iterateFlavour (fun _ => true) .ro (stopAt Elem 1) = .ok (arr4.toList.take 2) := by rfl

open Atree.Example in
example : arr4.iterateFlavour (fun _ => true) (.mutRange 1 4) (stopAt Elem 0) = .ok [elem 1] := by rfl

open Atree.Example in
example : (arr4.stepFlavour (fun _ => true) .ro 6).map (·.2.length) = .ok 6 := by rfl

end Atree.C13Obj
