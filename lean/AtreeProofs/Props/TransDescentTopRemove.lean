import AtreeProofs.Props.TransDescentRemove
import AtreeProofs.Props.TransDescentSplit
import AtreeProofs.Props.TransDescentRoute
import AtreeProofs.Array.Top
import AtreeProofs.Array.EffectsTop
/-
  TRANSLATION EQUIVALENCE, the DESCENT (WP12): `Array.remove` at the TOP LEVEL over a heap.

  The generated `Array_remove` (Gen/TransSlabs.lean) calls `Remove` of the root slab through dynamic dispatch
  (`Sl_ArraySlab_Remove_heap`, Props/TransDescentRemove.lean), and then, if the new root is an index slab whose
  `childrenHeaders` has length 1, `promoteChildAsNewRoot(childrenHeaders[0].slabID)` (`Sl_Array_promoteChildAsNewRoot_heap`,
  Props/TransDescentSplit.lean: the child is READ FROM THE HEAP, re-identified with the root identifier, its size re-based
  when it is a data slab, marked as root, stored under the root identifier; its old identifier is removed), and the join
  point `Array_remove.k1` (`decrementIndexFrom`, `notifyParentIfNeeded`: the identity of `envH`).

  * `gen_remove_err / _data / _many / _single`: the control flow of the generated `Array_remove` GIVEN the result of
    the dispatched `Remove` (and of `promoteChildAsNewRoot`).  NOTE: Go decides on `len(root.childrenHeaders) == 1`
    alone and finds the child through the identifier in the header copy; the model's `promoteIfSingleChild` matches on
    `childHdrs` AND the embedded `children`.  They agree because `childHdrs = children.map hdr` (`MShape.hdrs_eq`, which
    `remove_gen` gives for the new root) and because the heap after the descent holds the child under that identifier.
  * `promoted`, `slabIds_promoted`, `holds_promoted`, `HeapPost.promote`: the heap after `promoteChildAsNewRoot` holds
    the new tree of depth `d` (identifiers: root identifier :: descendants of the child), the child's old identifier is
    gone, nothing else changed - composed with the `HeapPost` of the descent.
  * `promote_d`, `Arr.remove_d`: the depth stays or drops by one.
  * `top_remove_succ`: everything after the descent when the new root is an index slab (both branches).
  * `Sl_Array_remove_heap` (tail hypothesis along the path, `RemPath`), `Sl_Array_remove_heap_ids` (+ no identifier is
    new), `Sl_Array_remove_heap_of_tail` (`RemTailHyp`), UNCONDITIONAL: `Sl_Array_remove_heap_noUnderflow`
    (`RemNoUnderflow`, a statement about the model run only), `Sl_Array_remove_heap_data` (a root data slab);
    `Sl_Array_remove_heap_arrInv` (from `ArrInv`, with `ArrInv` of the result: operations can be chained).
  * non-vacuity: the hypotheses instantiated on a concrete array; the generated code evaluated on the plain path, on
    the merge + promote path (depth 1 -> 0), past the end, and with a depth argument that is too small.
  Core Lean only.
-/
set_option linter.unusedSimpArgs false
set_option linter.unusedVariables false
namespace Atree.TransEq
open Atree Atree.Gen

/-! ## the control flow of the generated `Array_remove` -/

section gen
variable (T : Nat)

/-- the join point over `envH`: nothing happens -/
theorem Sl_Array_remove_k1_envH (a : HArray) (i : UInt64) (st : Option Elem) (err : Option AErr) :
    TransSl.Array_remove.k1 (envH T) a i st err = some (st, none, a) := rfl

/-- `Remove` of the root returned an error: it is passed on -/
theorem gen_remove_err (depth : Nat) (s s' : HSt) (p p' : GSlab) (i : UInt64) (e : AErr)
    (h : TransSl.ArraySlab_Remove (envH T) (TransSl.ArrayMetaDataSlab_Remove (envH T) depth) p s i =
      some (none, some e, p', s')) :
    TransSl.Array_remove (envH T) depth ({ Storage := s, root := some p } : HArray) i =
      some (none, some e, { Storage := s', root := some p' }) := by
  simp only [TransSl.Array_remove, h, Option.isSome_some, if_true]

/-- the new root is a data slab -/
theorem gen_remove_data (depth : Nat) (s s' : HSt) (p : GSlab) (p' : GData) (i : UInt64) (v : Option Elem)
    (h : TransSl.ArraySlab_Remove (envH T) (TransSl.ArrayMetaDataSlab_Remove (envH T) depth) p s i =
      some (v, none, .dataSlab p', s')) :
    TransSl.Array_remove (envH T) depth ({ Storage := s, root := some p } : HArray) i =
      some (v, none, { Storage := s', root := some (.dataSlab p') }) := by
  simp only [TransSl.Array_remove, h, Option.isSome_none, Bool.false_eq_true, if_false, TransSl.ArraySlab_IsData,
    TransSl.ArrayDataSlab_IsData, Bool.not_true, Sl_Array_remove_k1_envH]

/-- the new root is an index slab with no or several children -/
theorem gen_remove_many (depth : Nat) (s s' : HSt) (p : GSlab) (p' : GMeta) (i : UInt64) (v : Option Elem)
    (h : TransSl.ArraySlab_Remove (envH T) (TransSl.ArrayMetaDataSlab_Remove (envH T) depth) p s i =
      some (v, none, .metaSlab p', s'))
    (hlen : p'.childrenHeaders.length ≠ 1) :
    TransSl.Array_remove (envH T) depth ({ Storage := s, root := some p } : HArray) i =
      some (v, none, { Storage := s', root := some (.metaSlab p') }) := by
  have hne : ¬ (Int.ofNat p'.childrenHeaders.length = (1 : Int)) := by
    intro h1
    apply hlen
    have : (Int.ofNat p'.childrenHeaders.length) = Int.ofNat 1 := h1
    exact Int.ofNat.inj this
  simp only [TransSl.Array_remove, h, Option.isSome_none, Bool.false_eq_true, if_false, TransSl.ArraySlab_IsData,
    TransSl.ArrayMetaDataSlab_IsData, Bool.not_false, if_true, hne, decide_false, Sl_Array_remove_k1_envH]

/-- the new root is an index slab with exactly one child: `promoteChildAsNewRoot` -/
theorem gen_remove_single (depth : Nat) (s s' : HSt) (p : GSlab) (p' : GMeta) (i : UInt64) (v : Option Elem)
    (e4 : GHdr) (a2 : HArray)
    (h : TransSl.ArraySlab_Remove (envH T) (TransSl.ArrayMetaDataSlab_Remove (envH T) depth) p s i =
      some (v, none, .metaSlab p', s'))
    (hone : p'.childrenHeaders = [e4])
    (hprom : TransSl.Array_promoteChildAsNewRoot (envH T) ({ Storage := s', root := some (.metaSlab p') } : HArray)
      e4.slabID = some (none, a2)) :
    TransSl.Array_remove (envH T) depth ({ Storage := s, root := some p } : HArray) i = some (v, none, a2) := by
  have hidx : TransSl.goIdx [e4] (0 : Int) = some e4 := rfl
  simp only [TransSl.Array_remove, h, Option.isSome_none, Bool.false_eq_true, if_false, TransSl.ArraySlab_IsData,
    TransSl.ArrayMetaDataSlab_IsData, Bool.not_false, if_true, hone, List.length_cons, List.length_nil, hidx, hprom, Sl_Array_remove_k1_envH]
  rfl

end gen

/-! ## the heap after `promoteChildAsNewRoot` -/

section heap
open MetaSlab ATree

theorem promoteChild1_eq_adjProm : ∀ (d : Nat) (t : ATree d), promoteChild1 d t = adjProm d t
  | 0, _ => rfl
  | _ + 1, _ => rfl

/-- the promoted child -/
def promoted (d : Nat) (child : ATree d) (rid : SlabID) : ATree d :=
  setRoot d (setId d (promoteChild1 d child) rid) true

theorem slabIds_promoted : ∀ (d : Nat) (child : ATree d) (rid : SlabID),
    slabIds d (promoted d child rid) = rid :: (slabIds d child).tail ∧
    slabIds d child = (hdr d child).id :: (slabIds d child).tail
  | 0, _, _ => ⟨rfl, rfl⟩
  | _ + 1, _, _ => ⟨rfl, rfl⟩

/-- a heap that holds `child`, changed outside the descendants of `child`, with the promoted child under the root
    identifier, holds the promoted child -/
theorem holds_promoted : ∀ (d : Nat) (child : ATree d) (rid : SlabID) (h h' : SlabID → Option GSlab),
    Holds h d child → h' rid = some (trTree d (promoted d child rid)) →
    (∀ id ∈ (slabIds d child).tail, h' id = h id) → Holds h' d (promoted d child rid)
  | 0, _, _, _, _, _, hroot, _ => hroot
  | d + 1, (m : MetaSlab (ATree d)), rid, h, h', hh, hroot, heq => by
    refine ⟨hroot, fun c hc => (hh.2 c hc).congr (fun id hid => heq id ?_)⟩
    show id ∈ m.children.flatMap (slabIds d)
    exact List.mem_flatMap.2 ⟨c, hc, hid⟩

/-- **the heap after the descent and `promoteChildAsNewRoot`**: `t` became the index slab `m'` with the single child
    `child` (heap `h1`), the promoted child was stored under the root identifier and the child's identifier removed -/
theorem HeapPost.promote {h h1 : SlabID → Option GSlab} {s1 : HSt} {d0 d : Nat} {t : ATree d0}
    {m' : MetaSlab (ATree d)} {child : ATree d} (hs1 : s1.heap = h1)
    (hpost : @HeapPost h h1 d0 (d + 1) t m') (hsub : ∀ id ∈ slabIds (d + 1) (ofMeta m'), id ∈ slabIds d0 t)
    (hkids : m'.children = [child]) (hnd : (slabIds (d + 1) (ofMeta m')).Nodup) :
    HeapPost h
      ((s1.store m'.hdr.id (some (trTree d (promoted d child m'.hdr.id)))).remove (hdr d child).id).heap
      t (promoted d child m'.hdr.id) := by
  obtain ⟨e1, e2⟩ := slabIds_promoted d child m'.hdr.id
  have eids : slabIds (d + 1) (ofMeta m') = m'.hdr.id :: (hdr d child).id :: (slabIds d child).tail := by
    rw [slabIds_succ, hkids]
    simp only [List.flatMap_cons, List.flatMap_nil, List.append_nil]
    rw [← e2]
  rw [eids] at hnd
  simp only [List.nodup_cons, List.mem_cons, not_or] at hnd
  obtain ⟨⟨hn1, hn2⟩, hn3, _⟩ := hnd
  have hmem : ∀ id, id ∈ slabIds (d + 1) (ofMeta m') ↔
      id = m'.hdr.id ∨ id = (hdr d child).id ∨ id ∈ (slabIds d child).tail := by
    intro id; rw [eids]; simp only [List.mem_cons]
  have hchild : Holds h1 d child := hpost.holds.2 child (by rw [hkids]; simp)
  refine ⟨?_, ?_, ?_⟩
  · refine holds_promoted d child m'.hdr.id h1 _ hchild ?_ ?_
    · simp only [HSt.remove_heap, HSt.store_heap, hn1, if_false, if_true]
    · intro id hid
      have a1 : id ≠ (hdr d child).id := by rintro rfl; exact hn3 hid
      have a2 : id ≠ m'.hdr.id := by rintro rfl; exact hn2 hid
      simp only [HSt.remove_heap, HSt.store_heap, a1, a2, if_false, hs1]
  · intro id hin hout
    rw [e1] at hout
    simp only [List.mem_cons, not_or] at hout
    by_cases hc : id = (hdr d child).id
    · simp only [HSt.remove_heap, hc, if_true]
    · simp only [HSt.remove_heap, HSt.store_heap, hc, hout.1, if_false, hs1]
      refine hpost.gone id hin ?_
      show id ∉ slabIds (d + 1) (ofMeta m')
      rw [hmem]
      rintro (hx | hx | hx)
      · exact hout.1 hx
      · exact hc hx
      · exact hout.2 hx
  · intro id hin hout
    rw [e1] at hout
    simp only [List.mem_cons, not_or] at hout
    have hc : id ≠ (hdr d child).id := by
      rintro rfl
      exact hin (hsub _ ((hmem _).2 (Or.inr (Or.inl rfl))))
    simp only [HSt.remove_heap, HSt.store_heap, hc, hout.1, if_false, hs1]
    refine hpost.frame id hin ?_
    show id ∉ slabIds (d + 1) (ofMeta m')
    rw [hmem]
    rintro (hx | hx | hx)
    · exact hout.1 hx
    · exact hc hx
    · exact hout.2 hx

end heap

/-! ## the top level -/

section top
open MetaSlab ATree

/-- `promoteIfSingleChild` keeps the depth or takes one level off -/
theorem promote_d (a : Arr) (c : Ctx) :
    (a.promoteIfSingleChild c).1.d ≤ a.d ∧ a.d ≤ (a.promoteIfSingleChild c).1.d + 1 := by
  obtain ⟨d, t, ty⟩ := a
  cases d with
  | zero => exact ⟨Nat.le_refl _, Nat.le_succ _⟩
  | succ d =>
    unfold Arr.promoteIfSingleChild
    simp only
    split
    · exact ⟨Nat.le_succ _, Nat.le_refl _⟩
    · exact ⟨Nat.le_refl _, Nat.le_succ _⟩

/-- the depth after `Arr.remove`: the same, or one less (the root was left with one child, which became the root) -/
theorem Arr.remove_d (T : Nat) (a : Arr) (i : Nat) (c : Ctx) (v : Elem) (a' : Arr) (c' : Ctx)
    (h : a.remove T i c = .ok (v, a', c')) : a'.d ≤ a.d ∧ a.d ≤ a'.d + 1 := by
  unfold Arr.remove at h
  cases hr : ATree.remove T a.d a.root i c with
  | error e => rw [hr] at h; cases h
  | ok res =>
    obtain ⟨v1, t1, c1⟩ := res
    rw [hr] at h
    have h : Except.ok (v1, ((⟨a.d, t1, a.ty⟩ : Arr).promoteIfSingleChild c1).1,
        ((⟨a.d, t1, a.ty⟩ : Arr).promoteIfSingleChild c1).2) = Except.ok (v, a', c') := h
    simp only [Except.ok.injEq, Prod.mk.injEq] at h
    rw [← h.2.1]
    exact promote_d ⟨a.d, t1, a.ty⟩ c1

/-- the part of `Array.remove` after the descent when the new root `m'` is an index slab -/
theorem top_remove_succ (T depth : Nat) (s s1 : HSt) (p : GSlab) {d0 d : Nat} (t : ATree d0) (m' : MetaSlab (ATree d))
    (ty : Nat) (i : UInt64) (v : Elem)
    (hgen : TransSl.ArraySlab_Remove (envH T) (TransSl.ArrayMetaDataSlab_Remove (envH T) depth) p s i =
      some (some v, none, .metaSlab (trMeta m'), s1))
    (hpost1 : @HeapPost s.heap s1.heap d0 (d + 1) t m') (hsub1 : ∀ id ∈ slabIds (d + 1) (ofMeta m'), id ∈ slabIds d0 t)
    (hms : MShape T d true m') (hnd : (slabIds (d + 1) (ofMeta m')).Nodup) :
    ∃ s', TransSl.Array_remove (envH T) depth ({ Storage := s, root := some p } : HArray) i =
        some (some v, none, trArrH ((⟨d + 1, m', ty⟩ : Arr).promoteIfSingleChild s1.ctx).1 s') ∧
      s'.ctx = ((⟨d + 1, m', ty⟩ : Arr).promoteIfSingleChild s1.ctx).2 ∧
      HeapPost s.heap s'.heap t ((⟨d + 1, m', ty⟩ : Arr).promoteIfSingleChild s1.ctx).1.root ∧
      ∀ id ∈ slabIds ((⟨d + 1, m', ty⟩ : Arr).promoteIfSingleChild s1.ctx).1.d
        ((⟨d + 1, m', ty⟩ : Arr).promoteIfSingleChild s1.ctx).1.root, id ∈ slabIds d0 t := by
  have hlen := hms.hdrs_length
  by_cases hone : m'.children.length = 1
  · -- one child: promote
    obtain ⟨child, hkids⟩ : ∃ child, m'.children = [child] := by
      match hk : m'.children with
      | [] => rw [hk] at hone; simp at hone
      | [c] => exact ⟨c, rfl⟩
      | _ :: _ :: _ => rw [hk] at hone; simp at hone
    have hhdrs : m'.childHdrs = [hdr d child] := by rw [hms.hdrs_eq, hkids]; rfl
    have hci : TreeInv T d false child := hms.kids_inv child (by rw [hkids]; simp)
    have hchild : Holds s1.heap d child := hpost1.holds.2 child (by rw [hkids]; simp)
    have hsz : d = 0 → arrayDataSlabPrefixSize ≤ (hdr d child).size := by
      intro h0; subst h0; exact hci.shape_false.pfx_le
    have hprom := Sl_Array_promoteChildAsNewRoot_heap T m' ty s1 (hdr d child) child hhdrs
      hkids hchild.root hms.root_eq hsz
    have hpctx := Sl_Array_promoteChildAsNewRoot_heap_ctx m' ty s1 (hdr d child) child hhdrs
      hkids (some (trTree d (setRoot d (setId d (promoteChild1 d child) m'.hdr.id) true)))
    refine ⟨_, gen_remove_single T depth s s1 _ (trMeta m') _ _ (trHdr (hdr d child)) _ hgen ?_ hprom, hpctx, ?_⟩
    · rw [trMeta_childrenHeaders, hhdrs]; rfl
    · rw [promote_unfold m' ty s1.ctx (hdr d child) child hhdrs hkids]
      refine ⟨HeapPost.promote rfl hpost1 hsub1 hkids hnd, fun id hid => hsub1 id ?_⟩
      have hid : id ∈ slabIds d (promoted d child m'.hdr.id) := hid
      obtain ⟨e1, e2⟩ := slabIds_promoted d child m'.hdr.id
      rw [e1] at hid
      rw [slabIds_succ, hkids]
      simp only [List.flatMap_cons, List.flatMap_nil, List.append_nil]
      rw [e2]
      simp only [List.mem_cons] at hid ⊢
      rcases hid with h | h
      · exact Or.inl h
      · exact Or.inr (Or.inr h)
  · -- no or several children
    have hnp := promote_not_single d m' ty s1.ctx hone
    unfold ofMeta at hnp
    rw [hnp]
    refine ⟨s1, ?_, rfl, hpost1, hsub1⟩
    refine gen_remove_many T depth s s1 _ (trMeta m') _ _ hgen ?_
    rw [trMeta_childrenHeaders, List.length_map, hlen]; exact hone

/-- `Sl_Array_remove_heap` below with one more fact: no identifier is new (every slab of the new tree sits under an
    identifier of the old tree) -/
theorem Sl_Array_remove_heap_ids (T : Nat) (hT : legalThreshold T = true) (a : Arr) (i : Nat) (s : HSt) (depth : Nat)
    (hd : a.d ≤ depth) (hinv : TreeInv T a.d true a.root) (hni : NotInl a.d a.root)
    (hids : IdsOk a.addr s.ctx.ctr (slabIds a.d a.root)) (hcnt : a.count < 2^32) (hi : i < 2^64)
    (hh : Holds s.heap a.d a.root) (htail : RemPath T a.addr a.d a.root i s.ctx) :
    match a.remove T i s.ctx with
    | .ok (v, a', c') => ∃ s',
        TransSl.Array_remove (envH T) depth (trArrH a s) (u64 i) = some (some v, none, trArrH a' s') ∧ s'.ctx = c' ∧
        HeapPost s.heap s'.heap a.root a'.root ∧ ∀ id ∈ slabIds a'.d a'.root, id ∈ slabIds a.d a.root
    | .error e => e = .indexOutOfBounds ∧
        TransSl.Array_remove (envH T) depth (trArrH a s) (u64 i) = some (none, some .indexOutOfBounds, trArrH a s) := by
  obtain ⟨d, t, ty⟩ := a
  have hinv : TreeInv T d true t := hinv
  have hni : NotInl d t := hni
  have hd : d ≤ depth := hd
  have hcnt : (hdr d t).count < 2^32 := hcnt
  have hh : Holds s.heap d t := hh
  have hdesc := Sl_ArraySlab_Remove_heap T hT d t true i s depth (hdr d t).id.addr hd hinv hni hids hcnt hi hh htail
  by_cases hlt : i < (flatten d t).length
  · obtain ⟨t', c1, hrem, hstep, hflat, hcnt1, hsz1, hsz2, hsz3⟩ := remove_gen hT d t true i s.ctx hinv hni hlt
    rw [hrem] at hdesc
    obtain ⟨s1, hgen, hctx1, hpost1, hsub1⟩ := hdesc
    subst hctx1
    have hids1 : IdsOk (hdr d t).id.addr s1.ctx.ctr (slabIds d t') := repl_single_ids hstep.repl _ hids
    have hunf : Arr.remove T ⟨d, t, ty⟩ i s.ctx =
        .ok ((flatten d t).getD i default, ((⟨d, t', ty⟩ : Arr).promoteIfSingleChild s1.ctx).1,
            ((⟨d, t', ty⟩ : Arr).promoteIfSingleChild s1.ctx).2) := by
      unfold Arr.remove
      show (ATree.remove T d t i s.ctx >>= _) = _
      rw [hrem]; rfl
    rw [hunf]
    cases d with
    | zero =>
      refine ⟨s1, ?_, rfl, hpost1, hsub1⟩
      exact gen_remove_data T depth s s1 _ _ _ _ hgen
    | succ d =>
      exact top_remove_succ T depth s s1 (trTree (d + 1) t) t t' ty _ _ hgen hpost1 hsub1 hstep.shape hids1.1
  · have herr := remove_err_gen (T := T) d t true i s.ctx (hinv.shape hni) (by omega)
    rw [herr] at hdesc
    have hunf : Arr.remove T ⟨d, t, ty⟩ i s.ctx = .error .indexOutOfBounds := by
      unfold Arr.remove
      show (ATree.remove T d t i s.ctx >>= _) = _
      rw [herr]; rfl
    rw [hunf]
    exact ⟨rfl, gen_remove_err T depth s s _ _ _ _ hdesc.2⟩

/-- **`Array.remove(index)` over a heap** (the tail hypothesis along the path of the index, `RemPath`).  On the handle
    of a model array whose tree the heap holds (`TreeInv` as a root, identifiers `IdsOk` below the allocation counter,
    not inlined, fewer than 2^32 elements, a depth argument that covers the tree), at every `uint64` index, the
    generated `Array_remove` returns what the model's `Arr.remove` returns: the removed element, the handle of the
    model's new array (`trArrH`: after a merge that left the root index slab with ONE child that child has become the
    root - one level less), the model's `Ctx`; the heap holds the new tree, the slabs that left the tree are gone (the
    promoted child's old identifier included), nothing else is touched (`HeapPost`).  Past the end:
    `IndexOutOfBoundsError` in both, nothing touched.  No other error is possible. -/
theorem Sl_Array_remove_heap (T : Nat) (hT : legalThreshold T = true) (a : Arr) (i : Nat) (s : HSt) (depth : Nat)
    (hd : a.d ≤ depth) (hinv : TreeInv T a.d true a.root) (hni : NotInl a.d a.root)
    (hids : IdsOk a.addr s.ctx.ctr (slabIds a.d a.root)) (hcnt : a.count < 2^32) (hi : i < 2^64)
    (hh : Holds s.heap a.d a.root) (htail : RemPath T a.addr a.d a.root i s.ctx) :
    match a.remove T i s.ctx with
    | .ok (v, a', c') => ∃ s',
        TransSl.Array_remove (envH T) depth (trArrH a s) (u64 i) = some (some v, none, trArrH a' s') ∧ s'.ctx = c' ∧
        HeapPost s.heap s'.heap a.root a'.root
    | .error e => e = .indexOutOfBounds ∧
        TransSl.Array_remove (envH T) depth (trArrH a s) (u64 i) = some (none, some .indexOutOfBounds, trArrH a s) := by
  have h := Sl_Array_remove_heap_ids T hT a i s depth hd hinv hni hids hcnt hi hh htail
  cases hr : a.remove T i s.ctx with
  | error e => rw [hr] at h; exact h
  | ok res =>
    obtain ⟨v, a', c'⟩ := res
    rw [hr] at h
    obtain ⟨s', h1, h2, h3, _⟩ := h
    exact ⟨s', h1, h2, h3⟩

/-- the same from the GLOBAL tail hypothesis (`RemTailHyp`: the generated `MergeOrRebalanceChildSlab` agrees with the
    model wherever `ArrayMetaDataSlab.Remove` calls it) -/
theorem Sl_Array_remove_heap_of_tail (T : Nat) (hT : legalThreshold T = true) (htail : RemTailHyp T) (a : Arr) (i : Nat)
    (s : HSt) (depth : Nat) (hd : a.d ≤ depth) (hinv : TreeInv T a.d true a.root) (hni : NotInl a.d a.root)
    (hids : IdsOk a.addr s.ctx.ctr (slabIds a.d a.root)) (hcnt : a.count < 2^32) (hi : i < 2^64)
    (hh : Holds s.heap a.d a.root) :
    match a.remove T i s.ctx with
    | .ok (v, a', c') => ∃ s',
        TransSl.Array_remove (envH T) depth (trArrH a s) (u64 i) = some (some v, none, trArrH a' s') ∧ s'.ctx = c' ∧
        HeapPost s.heap s'.heap a.root a'.root
    | .error e => e = .indexOutOfBounds ∧
        TransSl.Array_remove (envH T) depth (trArrH a s) (u64 i) = some (none, some .indexOutOfBounds, trArrH a s) :=
  Sl_Array_remove_heap T hT a i s depth hd hinv hni hids hcnt hi hh (RemPath.of_hyp htail a.addr a.d a.root i s.ctx)

/-- **UNCONDITIONAL when no child on the path of the index underflows** (`RemNoUnderflow`, a statement about the MODEL
    run only): no hypothesis about generated code.  (Then no merge happens and the root keeps its children: the
    promote branch is not taken.) -/
theorem Sl_Array_remove_heap_noUnderflow (T : Nat) (hT : legalThreshold T = true) (a : Arr) (i : Nat)
    (s : HSt) (depth : Nat) (hd : a.d ≤ depth) (hinv : TreeInv T a.d true a.root) (hni : NotInl a.d a.root)
    (hids : IdsOk a.addr s.ctx.ctr (slabIds a.d a.root)) (hcnt : a.count < 2^32) (hi : i < 2^64)
    (hh : Holds s.heap a.d a.root) (hnu : RemNoUnderflow T a.d a.root i s.ctx) :
    match a.remove T i s.ctx with
    | .ok (v, a', c') => ∃ s',
        TransSl.Array_remove (envH T) depth (trArrH a s) (u64 i) = some (some v, none, trArrH a' s') ∧ s'.ctx = c' ∧
        HeapPost s.heap s'.heap a.root a'.root
    | .error e => e = .indexOutOfBounds ∧
        TransSl.Array_remove (envH T) depth (trArrH a s) (u64 i) = some (none, some .indexOutOfBounds, trArrH a s) :=
  Sl_Array_remove_heap T hT a i s depth hd hinv hni hids hcnt hi hh
    (RemPath.of_noUnderflow a.addr a.d a.root i s.ctx hnu)

/-- **UNCONDITIONAL for an array that is one root data slab** -/
theorem Sl_Array_remove_heap_data (T : Nat) (hT : legalThreshold T = true) (a : Arr) (i : Nat)
    (s : HSt) (depth : Nat) (h0 : a.d = 0) (hinv : TreeInv T a.d true a.root) (hni : NotInl a.d a.root)
    (hids : IdsOk a.addr s.ctx.ctr (slabIds a.d a.root)) (hcnt : a.count < 2^32) (hi : i < 2^64)
    (hh : Holds s.heap a.d a.root) :
    match a.remove T i s.ctx with
    | .ok (v, a', c') => ∃ s',
        TransSl.Array_remove (envH T) depth (trArrH a s) (u64 i) = some (some v, none, trArrH a' s') ∧ s'.ctx = c' ∧
        HeapPost s.heap s'.heap a.root a'.root
    | .error e => e = .indexOutOfBounds ∧
        TransSl.Array_remove (envH T) depth (trArrH a s) (u64 i) = some (none, some .indexOutOfBounds, trArrH a s) := by
  obtain ⟨d, t, ty⟩ := a
  have h0 : d = 0 := h0
  subst h0
  exact Sl_Array_remove_heap T hT ⟨0, t, ty⟩ i s depth (Nat.zero_le _) hinv hni hids hcnt hi hh trivial

/-- **from the array invariant `ArrInv`** (C05; it contains `count ≤ 2^32 - 1`), with what the model theorem
    `arr_remove_ok` says about the result: inside the array the generated code returns element `i` of the sequence, the
    handle of an array that satisfies `ArrInv` again (so the next operation can run on it) and represents the sequence
    without element `i`; past the end `IndexOutOfBoundsError`. -/
theorem Sl_Array_remove_heap_arrInv (T : Nat) (hT : legalThreshold T = true) (a : Arr) (i : Nat)
    (s : HSt) (depth : Nat) (hd : a.d ≤ depth) (hinv : ArrInv T a s.ctx.ctr) (hi : i < 2^64)
    (hh : Holds s.heap a.d a.root) (htail : RemPath T a.addr a.d a.root i s.ctx) :
    (i < a.toList.length → ∃ a' s',
      TransSl.Array_remove (envH T) depth (trArrH a s) (u64 i) =
        some (some (a.toList.getD i default), none, trArrH a' s') ∧
      a.remove T i s.ctx = .ok (a.toList.getD i default, a', s'.ctx) ∧
      HeapPost s.heap s'.heap a.root a'.root ∧ (∀ id ∈ slabIds a'.d a'.root, id ∈ slabIds a.d a.root) ∧
      a'.d ≤ a.d ∧ ArrInv T a' s'.ctx.ctr ∧ a'.toList = a.toList.eraseIdx i ∧ a'.rootID = a.rootID ∧ a'.ty = a.ty) ∧
    (a.toList.length ≤ i →
      TransSl.Array_remove (envH T) depth (trArrH a s) (u64 i) = some (none, some .indexOutOfBounds, trArrH a s)) := by
  have hni : NotInl a.d a.root := by
    obtain ⟨d, t, ty⟩ := a; exact hinv.notInl
  have hcnt : a.count < 2^32 := by
    have := hinv.count_lt
    simp only [maxArrayElementCount] at this
    omega
  have hmain := Sl_Array_remove_heap_ids T hT a i s depth hd hinv.tree hni hinv.ids hcnt hi hh htail
  refine ⟨fun hlt => ?_, fun hge => ?_⟩
  · obtain ⟨a', c', hrem, hinv', hl, hid, hty⟩ := arr_remove_ok hT a s.ctx i hinv hlt
    rw [hrem] at hmain
    obtain ⟨s', h1, h2, h3, h4⟩ := hmain
    subst h2
    exact ⟨a', s', h1, hrem, h3, h4, (Arr.remove_d T a i s.ctx _ a' _ hrem).1, hinv', hl, hid, hty⟩
  · rw [arr_remove_err a s.ctx i hinv hge] at hmain
    exact hmain.2

end top

/-! ## non-vacuity -/

section examples
open MetaSlab ATree

/-- the array of `remExRoot` (Props/TransDescentRemove.lean): a root index slab `(1,1)` over two leaves of 3 elements
    of 60 bytes -/
def topRemEx : Arr := ⟨1, remExRoot, 7⟩

/-- the hypotheses of `Sl_Array_remove_heap_noUnderflow` (hence of `Sl_Array_remove_heap`) are satisfiable: the array
    above, its heap, index 4 (no underflow, the root keeps two children) -/
example := Sl_Array_remove_heap_noUnderflow 256 (by decide) topRemEx 4 remExSt 1 (Nat.le_refl _) remExRoot_inv trivial
    (by
      refine ⟨by decide, ?_⟩
      intro id hid
      have e : slabIds topRemEx.d topRemEx.root = [⟨1, 1⟩, ⟨1, 2⟩, ⟨1, 3⟩] := rfl
      rw [e] at hid
      simp only [List.mem_cons, List.not_mem_nil, or_false] at hid
      rcases hid with rfl | rfl | rfl <;> decide)
    (by decide) (by decide)
    (by
      refine ⟨rfl, ?_⟩
      intro c hc
      rcases remExRoot_kids c hc with rfl | rfl <;> rfl)
    (by
      intro k adj child v child' c1 h1 h2 h3
      have h1 : remExRoot.childSlabIndexInfo 4 = .ok (k, adj) := h1
      have h2 : remExRoot.children[k]? = some child := h2
      have e : remExRoot.childSlabIndexInfo 4 = .ok (1, 1) := by rfl
      rw [e] at h1
      cases h1
      have e2 : remExRoot.children[1]? = some (remExLeaf 3 3) := rfl
      have hc : child = remExLeaf 3 3 := Option.some.inj (h2.symm.trans e2)
      subst hc
      cases h3
      exact ⟨trivial, by decide⟩)

/-- the generated `Array_remove` evaluated on that heap: the model's element, handle, `Ctx`; heap at the three slabs -/
example :
    (TransSl.Array_remove (envH 256) 1 (trArrH topRemEx remExSt) 4).map
      (fun r => (r.1, r.2.1, r.2.2.root, r.2.2.Storage.ctx,
        [r.2.2.Storage.heap ⟨1, 1⟩, r.2.2.Storage.heap ⟨1, 2⟩, r.2.2.Storage.heap ⟨1, 3⟩])) =
    (match topRemEx.remove 256 4 remExSt.ctx with
     | .ok (v, a', c') => some (some v, none, some (trTree a'.d a'.root), c',
         [heapOf a'.d a'.root ⟨1, 1⟩, heapOf a'.d a'.root ⟨1, 2⟩, heapOf a'.d a'.root ⟨1, 3⟩])
     | .error _ => none) := by rfl

/-- two small leaves (100 + 60 and 60 + 60 bytes): removing element 0 makes the first leaf underflow, the sibling
    cannot lend: merge, and the root is left with ONE child, which is promoted (depth 1 -> 0) -/
def topRemLeafA : DataSlab :=
  { hdr := ⟨⟨1, 2⟩, 21 + 160, 2⟩, next := ⟨1, 3⟩, elems := [⟨100, .val 0⟩, ⟨60, .val 1⟩], root := false,
    inlined := false }
def topRemLeafB : DataSlab :=
  { hdr := ⟨⟨1, 3⟩, 21 + 120, 2⟩, next := SlabID.undef, elems := [⟨60, .val 10⟩, ⟨60, .val 11⟩], root := false,
    inlined := false }
def topRemEx2 : Arr :=
  ⟨1, ({ hdr := ⟨⟨1, 1⟩, 40, 4⟩, childHdrs := [topRemLeafA.hdr, topRemLeafB.hdr], countSum := [2, 4],
         children := [topRemLeafA, topRemLeafB], root := true } : MetaSlab (ATree 0)), 7⟩
def topRemSt2 : HSt := ⟨heapOf topRemEx2.d topRemEx2.root, ⟨5, [], []⟩⟩

/-- the promote branch of the generated `Array_remove`, evaluated: the model's element, the handle of the model's new
    array (a root DATA slab under `(1,1)`), the model's `Ctx`; the heap holds the new root under `(1,1)`, the
    identifiers `(1,2)` (the promoted child's old identifier) and `(1,3)` (merged away) are gone -/
example :
    (TransSl.Array_remove (envH 256) 1 (trArrH topRemEx2 topRemSt2) 0).map
      (fun r => (r.1, r.2.1, r.2.2.root, r.2.2.Storage.ctx,
        [r.2.2.Storage.heap ⟨1, 1⟩, r.2.2.Storage.heap ⟨1, 2⟩, r.2.2.Storage.heap ⟨1, 3⟩])) =
    (match topRemEx2.remove 256 0 topRemSt2.ctx with
     | .ok (v, a', c') => some (some v, none, some (trTree a'.d a'.root), c',
         [heapOf a'.d a'.root ⟨1, 1⟩, none, none])
     | .error _ => none) := by rfl

example : (topRemEx2.remove 256 0 topRemSt2.ctx).toOption.map (fun r => (r.1, r.2.1.d, r.2.2.eff)) =
    some (⟨100, .val 0⟩, 0,
      [.store ⟨1, 2⟩, .store ⟨1, 2⟩, .store ⟨1, 1⟩, .remove ⟨1, 3⟩, .store ⟨1, 1⟩, .store ⟨1, 1⟩, .remove ⟨1, 2⟩]) := by
  rfl

/-- past the end -/
example : TransSl.Array_remove (envH 256) 1 (trArrH topRemEx remExSt) 6 =
    some (none, some .indexOutOfBounds, trArrH topRemEx remExSt) := by rfl

/-- the depth argument does not cover the tree: the generated code leaves the modelled fragment (`none`) -/
example : TransSl.Array_remove (envH 256) 0 (trArrH topRemEx remExSt) 4 = none := by rfl

end examples

end Atree.TransEq

