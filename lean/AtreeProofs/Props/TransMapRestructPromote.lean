import AtreeProofs.Props.TransMapRestructMor
import AtreeProofs.Props.TransMapSlabsRoot
/-
  WP13, step 3: `OrderedMap.promoteChildAsNewRoot` of the GENERATED restructuring code (`Gen/TransMapSlabs.lean`) as the
  map descent calls it - the field `promote` of the record `rsOf T` (Trans/MapRestruct.lean), over the HEAP - against the
  model's `OMap.promoteIfSingleChild` (Map/Ops.lean).  Port of WP10's `OrderedMap_promoteChildAsNewRoot_eq_model`
  (Props/TransMapSlabsRoot.lean): the single child is READ from the heap; afterwards the heap holds the new root (the
  child under the root's identifier, with the extra data) and the child's identifier is gone.
-/
namespace Atree.TransEq
open Atree Atree.Gen.TransMap

section promote
variable {r : Nat} (T : Nat)

/-- the storage after `promoteChildAsNewRoot`: `Store` the new root (with the extra data) under the root identifier, then
    `Remove` the child identifier -/
def mrm_promoteHeap (mp' : OMap r) (s : MHSt r) (childID : SlabID) : MHSt r :=
  (s.store (MTree.hdr mp'.d mp'.root).id (md_tree mp'.d mp'.root (some (md_extra mp')))).remove childID

/-- **`promoteChildAsNewRoot` as the descent calls it** (`(rsOf T).promote`) on the handle of a model map whose root is
    an index slab with exactly one child, held by the heap under its identifier: no error, the handle of the model's
    `OMap.promoteIfSingleChild` over the heap `mrm_promoteHeap` (new root stored under the ROOT identifier with the
    extra data, child identifier removed), whose `Ctx` is the model's.
    Needs (data child only): the child's size covers the prefix (else Go's `size - 18` wraps around), and the `uint`
    ranges of the child's element group (`mr_RootFit`, the way back to the descent's record). -/
theorem Ob_promote_heap (d : Nat) (mm : MMetaSlab (MTree r d)) (ty cnt seed : Nat) (s : MHSt r)
    (h : MHdr) (child : MTree r d) (hh : mm.childHdrs = [h]) (hc : mm.children = [child])
    (hheap : s.heap h.id = some (md_tree d child none))
    (hsz : d = 0 → Gen.mapDataSlabPrefixSize ≤ (MTree.hdr d child).size)
    (hfit : mr_RootFit d child) :
    (rsOf T).promote (md_map (⟨d + 1, mm, ty, cnt, seed⟩ : OMap r) s) h.id =
      (none, md_map (OMap.promoteIfSingleChild (⟨d + 1, mm, ty, cnt, seed⟩ : OMap r) s.ctx).1
        (mrm_promoteHeap (OMap.promoteIfSingleChild (⟨d + 1, mm, ty, cnt, seed⟩ : OMap r) s.ctx).1 s h.id)) ∧
    (mrm_promoteHeap (OMap.promoteIfSingleChild (⟨d + 1, mm, ty, cnt, seed⟩ : OMap r) s.ctx).1 s h.id).ctx =
      (OMap.promoteIfSingleChild (⟨d + 1, mm, ty, cnt, seed⟩ : OMap r) s.ctx).2 := by
  have hg := mrm_getMapSlab_heap T s h.id d child hheap
  obtain ⟨mh, mchs, mchildren, mroot⟩ := mm
  simp only at hh hc
  subst hh hc
  cases d with
  | zero =>
    have hsz' := hsz rfl
    simp only [MTree.hdr, Gen.mapDataSlabPrefixSize] at hsz'
    have e : u32 (MDataSlab.hdr child).size - UInt32.ofNat Gen.mapDataSlabPrefixSize +
        UInt32.ofNat Gen.mapRootDataSlabPrefixSize =
        u32 ((MDataSlab.hdr child).size - Gen.mapDataSlabPrefixSize + Gen.mapRootDataSlabPrefixSize) := by
      simp only [Gen.mapDataSlabPrefixSize, Gen.mapRootDataSlabPrefixSize, u32, UInt32.ofNat_add, UInt32.ofNat_sub hsz']
    have hd : mr_dH (cH (MDataSlab.elems child)) = MDataSlab.elems child := mr_dH_cH _ hfit
    simp only [cTree] at hg
    constructor
    · simp only [rsOf, mr_mapM, md_map, md_tree, mr_toM_meta]
      simp only [OrderedMap_promoteChildAsNewRoot, hg, Option.isNone_none,
        Bool.not_true, Bool.false_eq_true, if_false, MapSlab_IsData, MapDataSlab_IsData, if_true, cData, cHdr, e,
        MapSlab_RemoveExtraData, MapMetaDataSlab_RemoveExtraData, MapSlab_SlabID, MapMetaDataSlab_SlabID, cMeta,
        MapSlab_SetSlabID, MapDataSlab_SetSlabID, MapSlab_SetExtraData, MapDataSlab_SetExtraData, storeSlab,
        MapDataSlab_SlabID, envMH_store, envMH_remove, mrm_promoteHeap,
        OMap.promoteIfSingleChild, MTree.setRoot, MTree.setId, MTree.hdr, mr_mapD, mr_fromM, mr_dataD, md_data, md_hdr,
        mr_hdrD, hd, md_extra]
      rfl
    · simp only [mrm_promoteHeap, OMap.promoteIfSingleChild, MTree.setRoot, MTree.setId, MTree.hdr, MHSt.remove_ctx,
        MHSt.store_ctx]
  | succ d =>
    simp only [cTree] at hg
    constructor
    · simp only [rsOf, mr_mapM, md_map, md_tree, mr_toM_meta]
      simp only [OrderedMap_promoteChildAsNewRoot, hg, Option.isNone_none,
        Bool.not_true, Bool.false_eq_true, if_false, MapSlab_IsData, MapMetaDataSlab_IsData, cHdr,
        MapSlab_RemoveExtraData, MapMetaDataSlab_RemoveExtraData, MapSlab_SlabID, MapMetaDataSlab_SlabID, cMeta,
        MapSlab_SetSlabID, MapMetaDataSlab_SetSlabID, MapSlab_SetExtraData, MapMetaDataSlab_SetExtraData, storeSlab,
        envMH_store, envMH_remove, mrm_promoteHeap,
        OMap.promoteIfSingleChild, MTree.setRoot, MTree.setId, MTree.hdr, mr_mapD, mr_fromM, mr_metaD, md_meta, md_hdr,
        mr_hdrD, md_extra, List.map_map, Function.comp_def]
      rfl
    · simp only [mrm_promoteHeap, OMap.promoteIfSingleChild, MTree.setRoot, MTree.setId, MTree.hdr, MHSt.remove_ctx,
        MHSt.store_ctx]

end promote

end Atree.TransEq
