import AtreeProofs.ArrayInv
import AtreeProofs.ArrayLemmas
/-
  C05 — Slab trees stay well-formed and every register stays inside its size band (arrays).
  PROPERTY THEOREMS.  For an ARBITRARY legal threshold `T` (256 … 32768), arbitrary element
  payloads and sizes, arbitrary operation histories.
-/
namespace Atree.C05
open Atree Gen

/-- A freshly created array satisfies the invariant. -/
theorem inv_new (T addr ty : Nat) (c : Ctx) (hT : legalThreshold T = true) :
    ArrInv T (Arr.new addr ty c).1 (Arr.new addr ty c).2.ctr := by
  sorry

theorem inv_insert (T : Nat) (hT : legalThreshold T = true) (a : Arr) (c : Ctx) (i : Nat) (v : Elem)
    (hv : ValueOk v) (h : ArrInv T a c.ctr) (a' : Arr) (c' : Ctx)
    (hr : a.insert T i v c = .ok (a', c')) : ArrInv T a' c'.ctr := by
  sorry

theorem inv_set (T : Nat) (hT : legalThreshold T = true) (a : Arr) (c : Ctx) (i : Nat) (v : Elem)
    (hv : ValueOk v) (h : ArrInv T a c.ctr) (old : Elem) (a' : Arr) (c' : Ctx)
    (hr : a.set T i v c = .ok (old, a', c')) : ArrInv T a' c'.ctr := by
  sorry

theorem inv_remove (T : Nat) (hT : legalThreshold T = true) (a : Arr) (c : Ctx) (i : Nat)
    (h : ArrInv T a c.ctr) (old : Elem) (a' : Arr) (c' : Ctx)
    (hr : a.remove T i c = .ok (old, a', c')) : ArrInv T a' c'.ctr := by
  sorry

theorem inv_popIterate (T : Nat) (hT : legalThreshold T = true) (a : Arr) (c : Ctx)
    (h : ArrInv T a c.ctr) : ArrInv T (a.popIterate c).2.1 (a.popIterate c).2.2.ctr := by
  sorry

theorem inv_setType (T : Nat) (a : Arr) (c : Ctx) (ty : Nat) (h : ArrInv T a c.ctr) :
    ArrInv T (a.setType ty c).1 (a.setType ty c).2.ctr := by
  sorry

/-- Consequences of the invariant that the property names explicitly. -/
theorem full_slab_has_two_elems (T : Nat) (hT : legalThreshold T = true) (s : DataSlab)
    (hs : s.hdr.size = s.prefixSize + sumSizes s.elems) (he : ∀ e ∈ s.elems, ElemOk T e)
    (hfull : T ≤ s.hdr.size) : 2 ≤ s.elems.length := by
  sorry

/-- Two maximal elements always fit into one slab of the target size. -/
theorem two_max_elems_fit (T : Nat) (hT : legalThreshold T = true) :
    arrayDataSlabPrefixSize + 2 * maxInlineArr T ≤ T := by
  sorry

/-- Index data agrees with the data it summarises: positional access through the index slabs
    and sequential traversal along the sibling links enumerate the same elements. -/
theorem access_agree (T : Nat) (hT : legalThreshold T = true) (a : Arr) (ctr : Nat) (h : ArrInv T a ctr) :
    a.iterReadOnly = a.toList ∧ a.iterMutable = .ok a.toList ∧ a.count = a.toList.length ∧
    (∀ i, i < a.count → a.get i = .ok (a.toList.getD i default)) := by
  sorry

end Atree.C05
