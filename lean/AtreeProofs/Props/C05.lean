import AtreeProofs.ArrayInv
import AtreeProofs.ArrayLemmas
/-
  C05 — Slab trees stay well-formed and every register stays inside its size band (arrays).
  PROPERTY THEOREMS.  For an ARBITRARY legal threshold `T` (256 … 32768), arbitrary element
  payloads and sizes, arbitrary operation histories.
-/
namespace Atree.C05
open Atree Gen

/-- A freshly created array satisfies the invariant. -/
theorem inv_new (T addr ty : Nat) (c : Ctx) (hT : legalThreshold T = true) :
    ArrInv T (Arr.new addr ty c).1 (Arr.new addr ty c).2.ctr := by
  have F := thrFacts hT
  refine ⟨(treeInv_zero T true _).2 ⟨rfl, ?_, ?_, rfl, ?_, ?_, ?_⟩, rfl, ?_, rfl, ?_⟩
  · simp [Arr.new, DataSlab.prefixSize, sumSizes_nil]
  · intro e he; simp [Arr.new] at he
  · intro h; simp [Arr.new] at h
  · simp only [Arr.new, F.rpfx, F.maxE]; have := F.lo; omega
  · intro h; simp at h
  · show IdsOk addr (c.ctr + 1) [⟨addr, c.ctr + 1⟩]
    exact ⟨by simp, fun id hid => by simp at hid; subst hid; exact ⟨rfl, by simp, by simp⟩⟩
  · show (0 : Nat) < _
    omega

theorem inv_insert (T : Nat) (hT : legalThreshold T = true) (a : Arr) (c : Ctx) (i : Nat) (v : Elem)
    (hv : ValueOk v) (h : ArrInv T a c.ctr) (a' : Arr) (c' : Ctx)
    (hr : a.insert T i v c = .ok (a', c')) : ArrInv T a' c'.ctr := by
  have hne : a.count ≠ maxArrayElementCount := by
    intro heq
    unfold Arr.insert at hr
    rw [if_pos heq] at hr
    cases hr
  have hlt : a.count < maxArrayElementCount := by have := h.count_lt; omega
  rcases Nat.lt_or_ge a.toList.length i with hi | hi
  · rw [arr_insert_err a c i v h hne hi] at hr; cases hr
  · obtain ⟨a2, c2, heq, hinv, _⟩ := arr_insert_ok hT a c i v hv h hlt hi
    rw [heq] at hr
    cases hr
    exact hinv

theorem inv_set (T : Nat) (hT : legalThreshold T = true) (a : Arr) (c : Ctx) (i : Nat) (v : Elem)
    (hv : ValueOk v) (h : ArrInv T a c.ctr) (old : Elem) (a' : Arr) (c' : Ctx)
    (hr : a.set T i v c = .ok (old, a', c')) : ArrInv T a' c'.ctr := by
  rcases Nat.lt_or_ge i a.toList.length with hi | hi
  · obtain ⟨a2, c2, heq, hinv, _⟩ := arr_set_ok hT a c i v hv h hi
    rw [heq] at hr
    cases hr
    exact hinv
  · rw [arr_set_err a c i v h hi] at hr; cases hr

theorem inv_remove (T : Nat) (hT : legalThreshold T = true) (a : Arr) (c : Ctx) (i : Nat)
    (h : ArrInv T a c.ctr) (old : Elem) (a' : Arr) (c' : Ctx)
    (hr : a.remove T i c = .ok (old, a', c')) : ArrInv T a' c'.ctr := by
  rcases Nat.lt_or_ge i a.toList.length with hi | hi
  · obtain ⟨a2, c2, heq, hinv, _⟩ := arr_remove_ok hT a c i h hi
    rw [heq] at hr
    cases hr
    exact hinv
  · rw [arr_remove_err a c i h hi] at hr; cases hr

theorem inv_popIterate (T : Nat) (hT : legalThreshold T = true) (a : Arr) (c : Ctx)
    (h : ArrInv T a c.ctr) : ArrInv T (a.popIterate c).2.1 (a.popIterate c).2.2.ctr := by
  exact arr_popIterate_inv hT a c h

theorem inv_setType (T : Nat) (a : Arr) (c : Ctx) (ty : Nat) (h : ArrInv T a c.ctr) :
    ArrInv T (a.setType ty c).1 (a.setType ty c).2.ctr := by
  have hc : (a.setType ty c).2.ctr = c.ctr := by
    unfold Arr.setType; simp only; split <;> rfl
  rw [hc]
  obtain ⟨d, t, ty0⟩ := a
  exact ⟨h.tree, h.chain, h.ids, (isInlined_iff d t ty).2 ((isInlined_iff d t ty0).1 h.standalone),
    h.count_lt⟩

/-- Consequences of the invariant that the property names explicitly. -/
theorem full_slab_has_two_elems (T : Nat) (hT : legalThreshold T = true) (s : DataSlab)
    (hs : s.hdr.size = s.prefixSize + sumSizes s.elems) (he : ∀ e ∈ s.elems, ElemOk T e)
    (hfull : T ≤ s.hdr.size) : 2 ≤ s.elems.length := by
  refine DataSlab.two_le_of_full T hT s ?_ he hfull
  rw [hs]
  have : s.prefixSize ≤ arrayDataSlabPrefixSize := by
    unfold DataSlab.prefixSize
    split
    · simp [inlinedArrayDataSlabPrefixSize, arrayDataSlabPrefixSize]
    · split
      · simp [arrayRootDataSlabPrefixSize, arrayDataSlabPrefixSize]
      · exact Nat.le_refl _
  omega

/-- Two maximal elements always fit into one slab of the target size. -/
theorem two_max_elems_fit (T : Nat) (hT : legalThreshold T = true) :
    arrayDataSlabPrefixSize + 2 * maxInlineArr T ≤ T := by
  exact two_max_elems_fit' T hT

/-- Index data agrees with the data it summarises: positional access through the index slabs
    and sequential traversal along the sibling links enumerate the same elements. -/
theorem access_agree (T : Nat) (hT : legalThreshold T = true) (a : Arr) (ctr : Nat) (h : ArrInv T a ctr) :
    a.iterReadOnly = a.toList ∧ a.iterMutable = .ok a.toList ∧ a.count = a.toList.length ∧
    (∀ i, i < a.count → a.get i = .ok (a.toList.getD i default)) := by
  refine ⟨iterReadOnly_eq a ctr h, iterMutable_eq hT a ctr h, ?_, ?_⟩
  · obtain ⟨d, t, ty⟩ := a
    exact h.shape.count_eq_length
  · intro i hi
    obtain ⟨d, t, ty⟩ := a
    have hc : (ATree.hdr d t).count = (ATree.flatten d t).length := h.shape.count_eq_length
    exact (get_gen hT d t true i h.shape).1 (by rw [← hc]; exact hi)

/-! ### Non-vacuity

`Atree.Example.arr4` is the array obtained by running the model for `T = 256`: `NewArray`, then four
appends of 100-byte elements; the fourth append splits the root, so `arr4` has a root index slab
over two data slabs.  `arr4_inv` proves `ArrInv 256 arr4 3` directly from the definitions, so the
hypotheses of the theorems above are satisfiable by a multi-slab tree. -/
section NonVacuity
open Atree.Example

example : run4 = .ok (arr4, 3) := run4_eq
example : arr4.d = 1 := rfl
example : arr4.toList = [elem 0, elem 1, elem 2, elem 3] := rfl
example : legalThreshold T0 = true := legal
example : ArrInv T0 arr4 3 := arr4_inv

/-- `inv_new` applies, and agrees with the first step of the run. -/
example : ArrInv T0 (Arr.new 1 0 ctx0).1 (Arr.new 1 0 ctx0).2.ctr := inv_new T0 1 0 ctx0 legal

/-- The hypotheses of `inv_insert` are met by `arr4`; the insert succeeds and preserves `ArrInv`. -/
example : ∃ a' c', arr4.insert T0 2 (elem 9) ⟨3, [], []⟩ = .ok (a', c') ∧ ArrInv T0 a' c'.ctr := by
  obtain ⟨a', c', h1, _⟩ := arr_insert_ok legal arr4 ⟨3, [], []⟩ 2 (elem 9) (value_ok 9) arr4_inv
    (by decide) (by decide)
  exact ⟨a', c', h1, inv_insert T0 legal arr4 _ 2 (elem 9) (value_ok 9) arr4_inv a' c' h1⟩

/-- Same for `inv_set` (overwriting with a value too large to inline) and `inv_remove`. -/
example : ∃ old a' c', arr4.set T0 3 ⟨5000, .val 7⟩ ⟨3, [], []⟩ = .ok (old, a', c') ∧
    ArrInv T0 a' c'.ctr := by
  obtain ⟨a', c', h1, _⟩ := arr_set_ok legal arr4 ⟨3, [], []⟩ 3 ⟨5000, .val 7⟩
    ⟨by decide, 7, rfl⟩ arr4_inv (by decide)
  exact ⟨_, a', c', h1, inv_set T0 legal arr4 _ 3 _ ⟨by decide, 7, rfl⟩ arr4_inv _ a' c' h1⟩

example : ∃ old a' c', arr4.remove T0 0 ⟨3, [], []⟩ = .ok (old, a', c') ∧ ArrInv T0 a' c'.ctr := by
  obtain ⟨a', c', h1, _⟩ := arr_remove_ok legal arr4 ⟨3, [], []⟩ 0 arr4_inv (by decide)
  exact ⟨_, a', c', h1, inv_remove T0 legal arr4 _ 0 arr4_inv _ a' c' h1⟩

example : arr4.iterReadOnly = arr4.toList := (access_agree T0 legal arr4 3 arr4_inv).1

/-- a data slab of 321 ≥ T bytes with three 100-byte elements -/
example : 2 ≤ (⟨⟨⟨1, 2⟩, 321, 3⟩, SlabID.undef, [elem 0, elem 1, elem 2], false, false⟩ : DataSlab).elems.length :=
  full_slab_has_two_elems T0 legal _ (by decide) (fun e he => by
    simp only [List.mem_cons, List.not_mem_nil, or_false] at he
    rcases he with rfl | rfl | rfl <;> exact elem_ok _) (by decide)

end NonVacuity

end Atree.C05
