import AtreeProofs.Props.TransElemClosedInv
/-
  WP13, part 7: the guard `mcl_QR` of the closed `Remove` follows from the map element invariant `ElemsInv` and RANGE
  conditions on model values (`mcl_FitR`: the argument and - at the digest-table levels - the model's results are in
  `uint` range), giving the FULL statements `elements_Remove_eq_model_closed`, `MapDataSlab_Remove_eq_model_closed`.
  The STRUCTURAL parts of the guard (table well-formedness, `digestSize + size(el) ≤ size`, the storage returns the
  first-level group slabs, `SingleElems.remove` never says `.goPanic`, the last-level result fits) are derived.
  Core Lean only.
-/
namespace Atree.TransEq
open Atree

theorem mcl_le_sum {β : Type} (f : β → Nat) : ∀ (l : List β) (x : β), x ∈ l → f x ≤ (l.map f).sum
  | [], _, h => by cases h
  | a :: t, x, h => by
    rcases List.mem_cons.mp h with rfl | h'
    · simp only [List.map_cons, List.sum_cons]; omega
    · have := mcl_le_sum f t x h'
      simp only [List.map_cons, List.sum_cons]; omega

/-- the model's last-level `remove` never reports a Go panic (the index found is in range) -/
theorem mcl_single_remove_noPanic (cfg : MCfg) (g : SingleElems) (lvl : Nat) (k : MKey) (c : Ctx) :
    SingleElems.remove cfg g lvl k c ≠ .error .goPanic := by
  unfold SingleElems.remove
  split
  · simp
  · cases hf : g.elems.findIdx? (fun x => x.key.same k) with
    | none => simp
    | some j =>
      obtain ⟨x, hx, _⟩ := msl_findIdx?_getElem? _ _ _ hf
      simp [hx]

/-- the result of the model's last-level `remove` is in range when the argument is -/
theorem mcl_single_remove_fit (cfg : MCfg) (g : SingleElems) (lvl : Nat) (k : MKey) (c : Ctx) (hg : mcl_SFit g)
    (rk : MKey) (rv : Elem) (g' : SingleElems) (c' : Ctx) (h : SingleElems.remove cfg g lvl k c = .ok (rk, rv, g', c')) :
    mcl_SFit g' := by
  unfold SingleElems.remove at h
  split at h
  · cases h
  · cases hf : g.elems.findIdx? (fun x => x.key.same k) with
    | none => rw [hf] at h; cases h
    | some j =>
      rw [hf] at h
      simp only at h
      cases hx : g.elems[j]? with
      | none => rw [hx] at h; cases h
      | some x =>
        rw [hx] at h
        simp only [Except.ok.injEq, Prod.mk.injEq] at h
        obtain ⟨_, _, rfl, _⟩ := h
        exact ⟨by have := hg.size; show g.size - x.size < 2^32; omega, hg.level,
          fun y hy => hg.elems y (List.mem_of_mem_eraseIdx hy)⟩

/-- RANGE condition of the closed `Remove` (argument and model results), by recursion on the levels left -/
def mcl_FitR (cfg : MCfg) (k : MKey) : (r : Nat) → MElems r → Nat → Ctx → Prop
  | 0, (g : SingleElems), _, _ => mcl_SFit g
  | r + 1, (g : HkeyElems (MElems r)), lvl, c =>
    mcl_HFit g ∧ g.hkeys.length < 2^62 ∧
    (∀ rk rv g' c', HkeyElems.remove (MElems.ops r) cfg g lvl k c = .ok (rk, rv, g', c') → mcl_HFit g') ∧
    ∀ el ∈ g.elems,
      (∀ g0, mei_nested el = some g0 → mcl_FitR cfg k r g0 (lvl + 1) c ∧
        ∀ rk rv g' c', (MElems.ops r).remove cfg g0 (lvl + 1) k c = .ok (rk, rv, g', c') → (MElems.ops r).count g' < 2^32) ∧
      (∀ rk rv el' c', el.remove (MElems.ops r) cfg lvl k c = .ok (rk, rv, some el', c') → mcl_ElFit el')

section inv
variable {X : Type} (cfg : MCfg) (k : MKey) (retr : mcl_Retrs X) (T L : Nat) (D : DigestFn L)

theorem mcl_QR_of_inv (hkd : ∀ lvl, k.dig lvl < 2^64) (hL : L < 2^64) (c : Ctx) :
    ∀ (r level : Nat) (path : List Nat) (e : MElems r), ElemsInv T L D r level path e → mcl_FitR cfg k r e level c →
      (level = 0 → mcl_RetrOk retr c r e) → mcl_QR cfg k retr r e level c
  | 0, level, _, (e : SingleElems), hinv, hfit, _ => by
    show mcl_QR0 cfg k e level c
    obtain ⟨_, _, hsize, _, _⟩ := hinv
    refine ⟨hfit, ?_, mcl_single_remove_fit cfg e level k c hfit, mcl_single_remove_noPanic cfg e level k c⟩
    intro x hx _
    have := mcl_le_sum (fun x : SElem => x.size) e.elems x hx
    omega
  | r + 1, level, path, (e : HkeyElems (MElems r)), hinv, hfit, hret => by
    obtain ⟨hLr, _, hlen, _, hsize, hel⟩ := hinv
    obtain ⟨hf, hshort, hres, hels⟩ := hfit
    show mcl_QrH (MElems.ops r) cfg k (mcl_Pr (MElems.ops r) cfg k (retr r) (mcl_QR cfg k retr r)) e level c
    refine ⟨⟨hlen.symm, hf.dig, hshort⟩, hf, hkd level, ?_, hres, ?_⟩
    · intro el hmem
      have := mcl_le_sum (fun e : MElemF (MElems r) => e.size (MElems.ops r) + Gen.digestSize) e.elems el hmem
      simp only [HkeyElems.elemSizes] at hsize
      simp only [Gen.hkeyElementsPrefixSize] at hsize
      omega
    · intro i el hi
      have hmem : el ∈ e.elems := List.mem_of_getElem? hi
      have hlt : i < e.hkeys.length := by
        have := (List.getElem?_eq_some_iff.mp hi).1; omega
      have hhk : e.hkeys[i]? = some (e.hkeys[i]) := List.getElem?_eq_getElem hlt
      have h := hel i _ el hhk hi
      obtain ⟨hnest, hresEl⟩ := hels el hmem
      refine ⟨by omega, ?_, ?_, fun g hg => (hnest g hg).2, hresEl⟩
      · intro g hg
        cases el with
        | single x => simp [mei_nested] at hg
        | inl g' =>
          have hg' : g' = g := Option.some.inj hg
          subst hg'
          exact mcl_QR_of_inv hkd hL c r (level + 1) _ g' h.1 (hnest g' rfl).1 (fun h0 => by omega)
        | ext id sz s =>
          have hg' : s.elems = g := Option.some.inj hg
          subst hg'
          exact mcl_QR_of_inv hkd hL c r (level + 1) _ s.elems h.2.2.2.2.2.1 (hnest s.elems rfl).1 (fun h0 => by omega)
      · intro id sz s hs
        subst hs
        exact hret h.1 id sz s hmem

end inv

section final
variable {X : Type} (cfg : MCfg) (k : MKey) (retr : mcl_Retrs X) (T : Nat) (D : DigestFn cfg.L)

/-- **CLOSED `Remove`.**  For every level index `r`: under the map element invariant, the range conditions `mcl_FitR`
    (sizes `< 2^32`, levels / digests `< 2^64`, fewer than 2^62 entries per table - of the argument and, at the digest-table
    levels, of the model's results), digests of the key in `uint64` range, and a storage that returns the slabs of the
    first-level external groups, the closed generated `elements.Remove` applied to `e` equals the model's
    `(MElems.ops r).remove`: Go results, the receiver's new state, the storage state.  No hypothesis about generated code
    or an environment. -/
theorem elements_Remove_eq_model_closed (hL : cfg.L < 2^64) (hT : cfg.T < 2^32) (hTe : maxInlineMapElem cfg.T < 2^32)
    (hcl : cfg.climit < 2^32) (hkd : ∀ lvl, k.dig lvl < 2^64)
    (r level : Nat) (path : List Nat) (e : MElems r) (c : Ctx)
    (hinv : ElemsInv T cfg.L D r level path e) (hfit : mcl_FitR cfg k r e level c)
    (hret : level = 0 → mcl_RetrOk retr c r e) :
    clElements_Remove cfg retr r e c k (u64 level) (u64 (k.dig level)) (.key k) =
      mei_rGRemove e c ((MElems.ops r).remove cfg e level k c) := by
  have hl : level < 2^64 := by
    cases r with
    | zero => have := hinv.1; omega
    | succ r => have := hinv.1; omega
  exact elements_Remove_eq_model_closed_of_guard cfg k retr hL hT hTe hcl r e level c hl
    (mcl_QR_of_inv cfg k retr T cfg.L D hkd hL c r level path e hinv hfit hret)

/-- **CLOSED `MapDataSlab.Remove`** on a data slab of the tree = the model's `MDataSlab.remove` -/
theorem MapDataSlab_Remove_eq_model_closed {r : Nat} (hr : cfg.L = r + 1) (D' : DigestFn (r + 1))
    (hL : cfg.L < 2^64) (hT : cfg.T < 2^32) (hTe : maxInlineMapElem cfg.T < 2^32)
    (hcl : cfg.climit < 2^32) (hkd : ∀ lvl, k.dig lvl < 2^64) (top : Bool)
    (s : MDataSlab r) (x : Option X) (hx : x.isSome = s.root) (c : Ctx) (hinv : MDataInv T D' top s)
    (hfit : mcl_FitR cfg k (r + 1) s.elems 0 c) (hret : mcl_RetrOk retr c (r + 1) s.elems) :
    Gen.TransElem.MapDataSlab_Remove (clEnvB cfg retr (r + 1)) (mei_cData s x) c k (u64 0) (u64 (k.dig 0)) (.key k) =
      match MDataSlab.remove cfg s k c with
      | .ok (rk, rv, s', c') => some (some (.key rk), some (.val rv), none, mei_cData s' x, c')
      | .error err => some (none, none, some err, mei_cData s x, c) :=
  MapDataSlab_Remove_eq_model_closed_of_guard cfg k retr hL hT hTe hcl s x hx c
    (mcl_QR_of_inv cfg k retr T (r + 1) D' hkd (hr ▸ hL) c (r + 1) 0 [] s.elems hinv.elems_inv hfit (fun _ => hret))

end final
end Atree.TransEq
