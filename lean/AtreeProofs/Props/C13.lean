import AtreeProofs.Props.C05
import AtreeProofs.Props.C12
import AtreeProofs.Iter.ArrayIter
import AtreeProofs.Iter.ArrayLoadedSM
import AtreeProofs.Iter.ArrayOverwrite
import AtreeProofs.Iter.MapTop
import AtreeProofs.Iter.MapOverwrite
import AtreeProofs.Iter.MapExample
import AtreeProofs.Map.Ids
/-
  C13 — Every iterator yields exactly the elements once, in canonical order.
  PROPERTY THEOREMS about the iterator models of AtreeModel/Array/Ops.lean (read-only, mutable,
  range), AtreeModel/Array/Iter.lean (loaded values, overwrite during iteration) and
  AtreeModel/Map/Iter.lean (mutable by next-key lookups, read-only along the `next` links,
  keys-only / values-only, loaded values, overwrite during iteration), for ARBITRARY trees
  satisfying the invariants `ArrInv` / `MapInv`, arbitrary legal thresholds, arbitrary digest
  functions (any collisions), arbitrary `loaded` predicates.

  "Exactly once, in order" is expressed by equality with `toList` (the sequence / pair list the
  container represents: C01, C02; its keys are pairwise different by `MapInv.distinct`, and it is in
  canonical digest order by `map_order_canonical`).
-/
namespace Atree.C13
open Atree Gen

/-! ## Arrays -/

/-- (re-export of C05) The read-only iterator (sibling links) and the mutable iterator
    (positional access) both yield `toList`; the count is its length; `Get(i)` is its `i`-th
    element: all flavours agree with each other and with lookups. -/
theorem arr_ro_mut_iter_eq_toList (T : Nat) (hT : legalThreshold T = true) (a : Arr) (ctr : Nat)
    (h : ArrInv T a ctr) :
    a.iterReadOnly = a.toList ∧ a.iterMutable = .ok a.toList ∧ a.count = a.toList.length ∧
    (∀ i, i < a.count → a.get i = .ok (a.toList.getD i default)) :=
  C05.access_agree T hT a ctr h

/-- All slabs loaded: the loaded-value iteration is the full enumeration (the stored elements;
    references resolve through the loaded large-value slabs exactly as for the other iterators). -/
theorem arr_loaded_all_eq_toList (T : Nat) (a : Arr) (ctr : Nat) (h : ArrInv T a ctr)
    (loaded : SlabID → Bool) (hall : ∀ id, loaded id = true) :
    a.iterLoaded loaded = a.toList :=
  IterA.iterLoaded_all hall a.d true a.root h.tree

/-- ANY set of loaded slabs: a partially loaded array yields an in-order sublist of the full
    enumeration (no hypothesis on the tree is needed). -/
theorem arr_loaded_subset_is_sublist (loaded : SlabID → Bool) (a : Arr) :
    (a.iterLoaded loaded).Sublist a.toList :=
  IterA.iterLoaded_sublist loaded a.d a.root

/-- The iterator OBJECT of the Go code (stack of index-slab cursors, data-slab cursor, `Next()`)
    yields exactly the structural traversal the two theorems above talk about: on every array,
    for every `loaded`. -/
theorem arr_loaded_iterator_object_eq (loaded : SlabID → Bool) (a : Arr) :
    a.iterLoadedSM loaded = a.iterLoaded loaded :=
  IterA.iterLoadedSM_eq loaded a

/-- Range iteration over a valid range `[lo, hi)` is that slice of the enumeration, for the
    read-only range iterator (start slab located through the index slabs, then sibling links,
    bounded by the remaining count) and for the mutable one (positional access). -/
theorem arr_range_iter_eq_slice (T : Nat) (hT : legalThreshold T = true) (a : Arr) (ctr : Nat)
    (h : ArrInv T a ctr) (lo hi : Nat) (h1 : lo ≤ hi) (h2 : hi ≤ a.count) :
    a.iterReadOnlyRange lo hi = .ok ((a.toList.drop lo).take (hi - lo)) ∧
    a.iterMutableRange lo hi = .ok ((a.toList.drop lo).take (hi - lo)) :=
  ⟨IterA.iterReadOnlyRange_eq hT a ctr h lo hi h1 h2, IterA.iterMutableRange_eq hT a ctr h lo hi h1 h2⟩

/-- Invalid ranges are rejected, with the exact error kinds, by both range iterators, on any
    array: a bound past the count is `SliceOutOfBoundsError`, an inverted range within the count
    is `InvalidSliceIndexError`. -/
theorem bad_range_rejected (a : Arr) (lo hi : Nat) :
    ((a.count < lo ∨ a.count < hi) →
      a.iterReadOnlyRange lo hi = .error .sliceOutOfBounds ∧
      a.iterMutableRange lo hi = .error .sliceOutOfBounds) ∧
    ((lo ≤ a.count ∧ hi ≤ a.count ∧ hi < lo) →
      a.iterReadOnlyRange lo hi = .error .invalidSliceIndex ∧
      a.iterMutableRange lo hi = .error .invalidSliceIndex) := by
  constructor
  · intro h
    have := IterA.checkRange_oob a lo hi h
    constructor
    · unfold Arr.iterReadOnlyRange; rw [this]; rfl
    · unfold Arr.iterMutableRange; rw [this]; rfl
  · rintro ⟨h1, h2, h3⟩
    have := IterA.checkRange_inverted a lo hi h1 h2 h3
    constructor
    · unfold Arr.iterReadOnlyRange; rw [this]; rfl
    · unfold Arr.iterMutableRange; rw [this]; rfl

/-- Reverse-order bulk pop hands out the enumeration backwards (and empties the array). -/
theorem arr_pop_eq_reverse (a : Arr) (c : Ctx) :
    (a.popIterate c).1 = a.toList.reverse ∧ (a.popIterate c).2.1.toList = [] :=
  ⟨(arr_popIterate_refines a c).1, (arr_popIterate_refines a c).2.1⟩

/-- Overwriting the current element from inside the callback of the mutable iterator neither
    skips nor repeats: the iteration hands out exactly the original sequence in index order and
    leaves a well-formed array of the same length under the same root ID (whatever splits and
    merges the overwrites cause). -/
theorem arr_mut_iter_overwrite_current_no_skip_no_repeat (T : Nat) (hT : legalThreshold T = true)
    (upd : Nat → Elem → Option Elem) (hupd : ∀ i e v, upd i e = some v → ValueOk v)
    (a : Arr) (c : Ctx) (h : ArrInv T a c.ctr) :
    ∃ a' c', a.iterateWith T upd c = .ok (a.toList, a', c') ∧ ArrInv T a' c'.ctr ∧
      a'.toList.length = a.toList.length ∧ a'.rootID = a.rootID :=
  IterA.iterateWith_spec hT upd hupd a c h

/-! ## Maps -/

variable {r : Nat}

/-- (re-export of C12) The enumeration is in canonical order: ascending lexicographic order of
    the digest vectors, pairs with identical digest vectors in their (insertion) order of `toList`. -/
theorem map_order_canonical (T : Nat) (D : DigestFn (r + 1)) (m : OMap r) (h : MapInv T D m) :
    (m.toList.map (fun p => p.1.digs)).Pairwise (fun a b => a = b ∨ List.Lex (· < ·) a b) :=
  C12.order_canonical T D m h

/-- The lookup the mutable iterator is built on: for every pair of the enumeration,
    `getElementAndNextKey` of its key returns that pair and the key of the pair that follows
    (`none` after the last), across elements, collision groups (inline, external, last-level
    lists) and slab boundaries. -/
theorem map_lookup_and_successor (T : Nat) (hT : legalThreshold T = true) (D : DigestFn (r + 1)) (cfg : MCfg)
    (m : OMap r) (hcfg : CfgOk cfg T m) (h : MapInv T D m)
    (A : List (MKey × Elem)) (p : MKey × Elem) (B : List (MKey × Elem)) (hl : m.toList = A ++ p :: B) :
    m.getElementAndNextKey cfg p.1 = .ok (p.1, p.2, B.head?.map (·.1)) :=
  IterM.nextKeyOk hT m hcfg h A p B hl

/-- The mutable iterator (`Iterate`: start at the first key, repeatedly look up the current key
    and its successor from the root) visits exactly `toList`. -/
theorem map_mut_iter_eq_toList (T : Nat) (hT : legalThreshold T = true) (D : DigestFn (r + 1)) (cfg : MCfg)
    (m : OMap r) (hcfg : CfgOk cfg T m) (h : MapInv T D m) :
    m.iterMutable cfg = .ok m.toList :=
  IterM.iterMutable_eq hT m hcfg h

/-- The read-only iterator (element iterator nested through the collision groups, then the
    `next` link to the following data slab) visits exactly `toList`.  Besides `MapInv` this needs
    the identifier clause `MapIdsOk` (AtreeProofs/MapIds.lean: slab identifiers pairwise different,
    of the owner's address, index between 1 and the allocation counter) — the sibling invariant that
    is PRESERVED by every operation (`C05.mapIds_*`, `C05.map_history_wellformed`) and holds after
    every history from `NewMap` (`C13.map_ro_iter_history` in Props/C13Ids.lean has no hypothesis
    about identifiers at all).  [Before FX9B the hypothesis was the raw, undischarged
    `m.leafIdsOk = true`; `MapIdsOk` implies it: `C05.mapIdsOk_implies`.] -/
theorem map_ro_iter_eq_toList (T : Nat) (hT : legalThreshold T = true) (D : DigestFn (r + 1)) (cfg : MCfg)
    (m : OMap r) (hcfg : CfgOk cfg T m) (ctr : Nat) (h : MapInvI T D m ctr) :
    m.iterReadOnly = .ok m.toList :=
  IterM.iterReadOnly_eq hT m hcfg h.1 h.2.leafIdsOk

/-- Keys-only and values-only flavours are the projections of the enumeration, for the mutable
    iterator (`IterateKeys` goes through `getNextKey`, `IterateValues` through
    `getElementAndNextKey`) and for the read-only one (the latter under the preserved identifier
    clause `MapIdsOk`, see `map_ro_iter_eq_toList`). -/
theorem map_keys_values_projections (T : Nat) (hT : legalThreshold T = true) (D : DigestFn (r + 1)) (cfg : MCfg)
    (m : OMap r) (hcfg : CfgOk cfg T m) (h : MapInv T D m) :
    m.iterMutableKeys cfg = .ok (m.toList.map (·.1)) ∧
    m.iterMutableValues cfg = .ok (m.toList.map (·.2)) ∧
    (∀ ctr, MapIdsOk m ctr →
      m.iterReadOnlyKeys = .ok (m.toList.map (·.1)) ∧ m.iterReadOnlyValues = .ok (m.toList.map (·.2))) := by
  refine ⟨IterM.iterMutableKeys_eq hT m hcfg h, IterM.iterMutableValues_eq hT m hcfg h, ?_⟩
  intro ctr hids
  have := IterM.iterReadOnly_eq hT m hcfg h hids.leafIdsOk
  constructor
  · unfold OMap.iterReadOnlyKeys; rw [this]; rfl
  · unfold OMap.iterReadOnlyValues; rw [this]; rfl

/-- All slabs loaded: the loaded-value iteration is the full enumeration. -/
theorem map_loaded_all_eq_toList (T : Nat) (D : DigestFn (r + 1)) (m : OMap r) (h : MapInv T D m)
    (loaded : SlabID → Bool) (hall : ∀ id, loaded id = true) :
    m.iterLoaded loaded = m.toList :=
  IterM.iterLoaded_all hall m.d true m.root h.tree

/-- ANY set of loaded slabs (index slabs, data slabs, external collision groups, large-value
    slabs): a partially loaded map yields an in-order sublist of the full enumeration (no
    hypothesis on the tree is needed). -/
theorem map_loaded_subset_is_sublist (loaded : SlabID → Bool) (m : OMap r) :
    (m.iterLoaded loaded).Sublist m.toList :=
  IterM.iterLoaded_sublist loaded m.d m.root

/-- Reverse-order bulk pop hands out the enumeration backwards (on any tree). -/
theorem map_pop_eq_reverse (m : OMap r) (c : Ctx) : (m.popIterate c).1 = m.toList.reverse :=
  IterM.popIterate_fst m.d m.root c

/-- Overwriting the value of the current key from inside the callback of the mutable iterator
    neither skips nor repeats: the iteration hands out exactly the original pair list (the iterator
    has fetched the next key before the callback runs and looks every key up in the CURRENT tree,
    whatever splits and merges the overwrites cause), the invariant is preserved and the key
    sequence is unchanged.  (Uses `OMap.set_overwrite`, the in-place effect of `Set` on a present key.) -/
theorem map_mut_iter_overwrite_current_no_skip_no_repeat (T : Nat) (hT : legalThreshold T = true)
    (D : DigestFn (r + 1)) (cfg : MCfg)
    (upd : MKey → Elem → Option Elem) (hupd : ∀ k v v', upd k v = some v' → ValueOkM v')
    (m : OMap r) (c : Ctx) (h : MapInv T D m) (hcfg : CfgOk cfg T m) :
    ∃ m' c', m.iterateWith cfg upd c = .ok (m.toList, m', c') ∧ MapInv T D m' ∧
      m'.toList.map (·.1) = m.toList.map (·.1) :=
  IterM.iterateWith_full hT upd hupd m c h hcfg

/-! ## Non-vacuity

`Atree.Example.arr4` (AtreeProofs/Array/Example.lean) is a two-level array produced by the model
(`T = 256`, an index slab over two data slabs) with a direct proof of `ArrInv`;
`Atree.IterExample.map3` (AtreeProofs/Iter/MapExample.lean) is a map produced by the model (`T = 256`,
two digest levels) whose first element is an inline collision group, with a direct proof of
`MapInv`.  The theorems above apply to them, and the iterators compute what the theorems say. -/
section NonVacuity
open Atree.Example Atree.IterExample

example : ArrInv Example.T0 arr4 3 := arr4_inv
example : arr4.toList = [elem 0, elem 1, elem 2, elem 3] := rfl

/-- the right data slab `1.3` not loaded: the loaded-value iterator yields the left half … -/
example : arr4.iterLoaded (fun id => id != ⟨1, 3⟩) = [elem 0, elem 1] := by decide
/-- … the iterator object agrees … -/
example : arr4.iterLoadedSM (fun id => id != ⟨1, 3⟩) = [elem 0, elem 1] :=
  (arr_loaded_iterator_object_eq _ arr4).trans (by decide)
/-- … and that is a sublist of the enumeration, by the theorem. -/
example : (arr4.iterLoaded (fun id => id != ⟨1, 3⟩)).Sublist arr4.toList :=
  arr_loaded_subset_is_sublist _ arr4
example : arr4.iterLoaded (fun _ => true) = arr4.toList :=
  arr_loaded_all_eq_toList Example.T0 arr4 3 arr4_inv _ (fun _ => rfl)

/-- a range that crosses the slab boundary -/
example : arr4.iterReadOnlyRange 1 3 = .ok [elem 1, elem 2] :=
  (arr_range_iter_eq_slice Example.T0 Example.legal arr4 3 arr4_inv 1 3 (by decide) (by decide)).1
example : arr4.iterMutableRange 1 3 = .ok [elem 1, elem 2] :=
  (arr_range_iter_eq_slice Example.T0 Example.legal arr4 3 arr4_inv 1 3 (by decide) (by decide)).2
example : arr4.iterReadOnlyRange 2 5 = .error .sliceOutOfBounds :=
  ((bad_range_rejected arr4 2 5).1 (Or.inr (by decide))).1
example : arr4.iterMutableRange 3 1 = .error .invalidSliceIndex :=
  ((bad_range_rejected arr4 3 1).2 ⟨by decide, by decide, by decide⟩).2

example : MapInv IterExample.T0 IterExample.D map3 := map3_inv
example : run3 = .ok (map3, 1) := run3_eq
example : map3.toList = [(k 11, v 1), (k 12, v 3), (k 25, v 2)] := map3_toList

/-- the mutable iterator walks through the collision group and on to the next element -/
example : map3.iterMutable IterExample.cfg = .ok [(k 11, v 1), (k 12, v 3), (k 25, v 2)] :=
  map_mut_iter_eq_toList IterExample.T0 IterExample.legal IterExample.D IterExample.cfg map3 cfg_ok map3_inv
/-- the successor of the last key of the group is the first key of the next element -/
example : map3.getElementAndNextKey IterExample.cfg (k 12) = .ok (k 12, v 3, some (k 25)) :=
  map_lookup_and_successor IterExample.T0 IterExample.legal IterExample.D IterExample.cfg map3 cfg_ok map3_inv
    [(k 11, v 1)] (k 12, v 3) [(k 25, v 2)] map3_toList
example : map3.iterReadOnly = .ok map3.toList :=
  map_ro_iter_eq_toList IterExample.T0 IterExample.legal IterExample.D IterExample.cfg map3 cfg_ok 1 ⟨map3_inv, by decide⟩
example : map3.iterLoaded (fun _ => true) = map3.toList :=
  map_loaded_all_eq_toList IterExample.T0 IterExample.D map3 map3_inv _ (fun _ => rfl)

end NonVacuity

end Atree.C13
