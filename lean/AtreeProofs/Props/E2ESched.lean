import AtreeProofs.Props.C08
import AtreeProofs.Props.E2EBytes
import AtreeProofs.Props.E2EBytesG
import AtreeProofs.Props.E2EMapSched
/-
  E2ESched — C08 at container level, ARRAYS, ALONG HISTORIES: maintenance actions of the storage
  (fault-free commits of either kind, cache drops, commit-and-reopen: `C08.Maint`) inserted BEFORE EVERY
  array request do not change anything a client can see.

  * `good_applyMaint`           – one maintenance action keeps the history invariant `Good`
                                  (audit a3, item F4);
  * `array_history_under_schedules` – a history run with an arbitrary maintenance list before every
                                  request ends with the same array model as the maintenance-free run, the
                                  storage represents it, and loading it back through the storage – after
                                  further maintenance, with read-only operations interleaved with the slab
                                  fetches – returns exactly that array;
  * `array_ledger_under_schedules` – after a final commit the decoded ledger is the same under all
                                  schedules (it is the set of slabs of the array);
  * `bytes_array_history_under_schedules`, `bytesG_array_history_under_schedules` – the same for the
                                  byte-level codecs `keyedCodec` / `keyedCodecG I` with NO hypothesis on the
                                  codec (their encoders are partial; what is needed – every slab a history
                                  stores can be encoded – is proved);
  * `keyedCodec_storesEncodable`, `bytes_schedule_independent_*` – the storage-level theorems
                                  `C08.schedule_independent_outcomes` / `_ledger` instantiated for the
                                  real codec (non-vacuity of their hypotheses).

  The encoder is NOT assumed total.  The generic statements assume `EncAlong`: the slabs of the array
  model can be encoded at every point of the history – a hypothesis on the (schedule-independent) array
  model, discharged for the byte codecs from `op.Enc` and the 64-bit bounds.
-/
namespace Atree.E2E
open Atree Atree.Codec Gen St

variable {β : Type}

/-! ### one maintenance action -/

section generic
variable {σ : Type}

/-- maintenance actions never touch the allocation counters and never add pending stores -/
theorem applyMaint_frame (c : Codec σ β) (hc : RoundTrip c) (s : St σ β) (hI : Inv c s) (m : C08.Maint) :
    (C08.applyMaint c s m).alloc = s.alloc ∧
    ∀ id v, AList.find? (C08.applyMaint c s m).deltas id = some (some v) →
      AList.find? s.deltas id = some (some v) := by
  cases m with
  | commit kind mo dlo =>
    rw [C08.applyMaint_commit_eq]
    obtain ⟨_, h2, _⟩ := commitW_spec c hc kind (fun _ => false) mo dlo s hI
    refine ⟨(commitW_aux c kind _ mo dlo s).1, ?_⟩
    intro id v hv
    rcases h2.pending id with h | ⟨h, _, _⟩
    · rw [← h]; exact hv
    · rw [h] at hv; cases hv
  | dropCache => exact ⟨rfl, fun _ _ h => h⟩
  | commitAndReopen =>
    refine ⟨(commitW_aux c .det (fun _ => false) [] [] s).1, ?_⟩
    intro id v hv
    simp [C08.applyMaint, St.fresh] at hv

theorem foldl_applyMaint_frame (c : Codec σ β) (hc : RoundTrip c) (ms : List C08.Maint) :
    ∀ (s : St σ β), Inv c s → NoEncodeFailure c s →
    (ms.foldl (C08.applyMaint c) s).alloc = s.alloc ∧
    ∀ id v, AList.find? (ms.foldl (C08.applyMaint c) s).deltas id = some (some v) →
      AList.find? s.deltas id = some (some v) := by
  induction ms with
  | nil => intro s _ _; exact ⟨rfl, fun _ _ h => h⟩
  | cons m ms ih =>
    intro s hI hne
    obtain ⟨h1, h2, _⟩ := E2EM.applyMaint_keeps_rep c hc s hI hne m
    obtain ⟨f1, f2⟩ := applyMaint_frame c hc s hI m
    obtain ⟨g1, g2⟩ := ih _ h1 h2
    exact ⟨g1.trans f1, fun id v hv => f2 id v (g2 id v hv)⟩

end generic

/-- ONE MAINTENANCE ACTION KEEPS THE HISTORY INVARIANT (audit a3, F4).  If the state of a history is
    `Good` and its pending slabs can be encoded, then after a fault-free commit of either kind (any worker
    orders), a cache drop, or a commit followed by abandoning the storage and reopening it from the
    ledger, the state is still `Good` – for the SAME array model – and its pending slabs can still be
    encoded.  (Without encodability a commit-and-reopen loses the slab that failed to encode.) -/
theorem good_applyMaint (c : Codec SSlab β) (hc : RoundTrip c) (T : Nat)
    (x : (Arr × Ctx) × St SSlab β) (hg : Good c T x) (hne : NoEncodeFailure c x.2) (m : C08.Maint) :
    Good c T (x.1, C08.applyMaint c x.2 m) ∧ NoEncodeFailure c (C08.applyMaint c x.2 m) := by
  obtain ⟨h1, h2, h3⟩ := E2EM.applyMaint_keeps_rep c hc x.2 hg.st hne m
  obtain ⟨f1, f2⟩ := applyMaint_frame c hc x.2 hg.st m
  refine ⟨⟨hg.inv, ⟨?_, hg.rep.extra_fresh⟩, h1, hg.addr, ?_, hg.caddr, hg.refs, ?_⟩, h2⟩
  · intro id hid
    show (C08.applyMaint c x.2 m).view c id = _
    rw [h3 id (isTemp_of_addr hid hg.addr)]
    exact hg.rep.view id hid
  · have := hg.sync
    unfold AllocSync at this ⊢
    show (AList.find? (C08.applyMaint c x.2 m).alloc x.1.1.addr).getD 0 = x.1.2.ctr
    rw [f1]; exact this
  · intro id v hv
    exact hg.pend id v (f2 id v hv)

/-- … and so does any list of maintenance actions. -/
theorem good_foldl_applyMaint (c : Codec SSlab β) (hc : RoundTrip c) (T : Nat) (ms : List C08.Maint) :
    ∀ (x : (Arr × Ctx) × St SSlab β), Good c T x → NoEncodeFailure c x.2 →
    Good c T (x.1, ms.foldl (C08.applyMaint c) x.2) ∧ NoEncodeFailure c (ms.foldl (C08.applyMaint c) x.2) := by
  induction ms with
  | nil => intro x hg hne; exact ⟨hg, hne⟩
  | cons m ms ih =>
    intro x hg hne
    obtain ⟨g1, g2⟩ := good_applyMaint c hc T x hg hne m
    exact ih (x.1, C08.applyMaint c x.2 m) g1 g2

/-! ### histories with maintenance before every request -/

/-- One request, preceded by the maintenance actions `p.1` on the storage. -/
def stepSM (c : Codec SSlab β) (T : Nat) (x : (Arr × Ctx) × St SSlab β) (p : List C08.Maint × AOp) :
    (Arr × Ctx) × St SSlab β :=
  stepS c T (x.1, p.1.foldl (C08.applyMaint c) x.2) p.2

/-- A history of requests, each preceded by its own list of maintenance actions. -/
def runSM (c : Codec SSlab β) (T : Nat) (x : (Arr × Ctx) × St SSlab β)
    (l : List (List C08.Maint × AOp)) : (Arr × Ctx) × St SSlab β := l.foldl (stepSM c T) x

/-- every slab the array model puts into the storage (tree slabs, large-value slabs) can be encoded -/
def StoredEnc (c : Codec SSlab β) (st : Arr × Ctx) : Prop :=
  ∀ id v, contentOf st id = some v → (c.enc v).isSome

/-- NO ENCODE FAILURE ALONG THE RUN: at every point of the history the slabs of the array model can be
    encoded.  A statement about the array model only (`runA`), hence independent of any schedule. -/
def EncAlong (c : Codec SSlab β) (T : Nat) (st : Arr × Ctx) (ops : List AOp) : Prop :=
  ∀ k, StoredEnc c (runA T st (ops.take k))

/-- the pending slabs of a good state are slabs of the array model -/
theorem noEncodeFailure_of_storedEnc (c : Codec SSlab β) (T : Nat) (x : (Arr × Ctx) × St SSlab β)
    (hg : Good c T x) (he : StoredEnc c x.1) : NoEncodeFailure c x.2 := by
  intro id v hv
  have ha := hg.pend id v hv
  have hview : x.2.view c id = some v := view_of_deltas c x.2 id (some v) hv
  rw [hg.rep.view id ha] at hview
  exact he id v hview

theorem encAlong_head {c : Codec SSlab β} {T : Nat} {st : Arr × Ctx} {ops : List AOp}
    (h : EncAlong c T st ops) : StoredEnc c st := h 0

theorem encAlong_tail {c : Codec SSlab β} {T : Nat} {st : Arr × Ctx} {op : AOp} {ops : List AOp}
    (h : EncAlong c T st (op :: ops)) : EncAlong c T (stepA T st op) ops := fun k => h (k + 1)

/-- ANY HISTORY WITH ANY MAINTENANCE SCHEDULE keeps the invariant; its array model is the one of the
    maintenance-free run (`runA`). -/
theorem good_runSM (c : Codec SSlab β) (hc : RoundTrip c) (T : Nat) (hT : legalThreshold T = true) :
    ∀ (l : List (List C08.Maint × AOp)) (x : (Arr × Ctx) × St SSlab β), Good c T x →
      (∀ p ∈ l, p.2.Ok) → EncAlong c T x.1 (l.map (·.2)) →
      Good c T (runSM c T x l) ∧ (runSM c T x l).1 = runA T x.1 (l.map (·.2)) ∧
      NoEncodeFailure c (runSM c T x l).2
  | [], x, hg, _, he => ⟨hg, rfl, noEncodeFailure_of_storedEnc c T x hg (encAlong_head he)⟩
  | p :: l, x, hg, hok, he => by
    have hne := noEncodeFailure_of_storedEnc c T x hg (encAlong_head he)
    obtain ⟨g1, _⟩ := good_foldl_applyMaint c hc T p.1 x hg hne
    obtain ⟨g2, _⟩ := good_stepS c hc T hT _ g1 p.2 (hok p (by simp))
    have hfst : (stepSM c T x p).1 = stepA T x.1 p.2 := rfl
    have he' : EncAlong c T (stepSM c T x p).1 (l.map (·.2)) := by
      rw [hfst]; exact encAlong_tail (op := p.2) he
    obtain ⟨r1, r2, r3⟩ := good_runSM c hc T hT l (stepSM c T x p) g2
      (fun q hq => hok q (by simp [hq])) he'
    refine ⟨r1, ?_, r3⟩
    show (runSM c T (stepSM c T x p) l).1 = runA T (stepA T x.1 p.2) (l.map (·.2))
    rw [r2, hfst]

theorem map_snd_zip {α γ : Type} : ∀ (l1 : List α) (l2 : List γ), l1.length = l2.length →
    (l1.zip l2).map (·.2) = l2
  | [], [], _ => rfl
  | [], _ :: _, h => by simp at h
  | _ :: _, [], h => by simp at h
  | a :: l1, b :: l2, h => by
    simp only [List.zip_cons_cons, List.map_cons, List.cons.injEq, true_and]
    exact map_snd_zip l1 l2 (by simpa using h)

/-- SCHEDULE INDEPENDENCE ALONG HISTORIES (C08 at container level, arrays).  Take any history of array
    requests from `NewArray` and ANY maintenance schedule: before every request an arbitrary list of
    fault-free commits (either kind, any worker orders), cache drops and commit-and-reopen.  If the slabs
    of the array model can be encoded along the run, then
    * the array model at the end is the one of the maintenance-free run (`runA`), whatever the schedule,
      and its values follow the `List` semantics of the history;
    * the state is `Good`: the storage represents that array;
    * after any further maintenance actions `final`, loading the array from its root ID through the
      storage – every slab fetch preceded by arbitrary read-only operations chosen by `rsched` – returns
      exactly that array, and the storage still represents it.
    Since the right-hand sides do not mention the schedule, any two schedules give the same results. -/
theorem array_history_under_schedules (c : Codec SSlab β) (hc : RoundTrip c) (T : Nat)
    (hT : legalThreshold T = true) (addr ty : Nat) (haddr : addr ≠ 0) (ops : List AOp)
    (hops : ∀ op ∈ ops, op.Ok) (henc : EncAlong c T (newS c addr ty).1 ops)
    (sched : List (List C08.Maint)) (hlen : sched.length = ops.length) (final : List C08.Maint)
    (rsched : St SSlab β → SlabID → List (Op SSlab)) (fuel : Nat) :
    let x := runSM c T (newS c addr ty) (sched.zip ops)
    let a := runA T (Arr.new addr ty ⟨0, [], []⟩) ops
    x.1 = a ∧ values a = specRun [] ops ∧ Good c T x ∧
    (a.1.d < fuel →
      ∃ s', loadArrSt (fetchWith c rsched) (final.foldl (C08.applyMaint c) x.2) ⟨addr, 1⟩ fuel
          = .ok (some a.1, s') ∧
        Rep c s' a.1 (AList.find? a.2.created) a.2.ctr) := by
  intro x a
  obtain ⟨g0, _, _, _⟩ := good_new c hc T hT addr ty haddr
  have hmap := map_snd_zip sched ops hlen
  obtain ⟨g, hfst, hne⟩ := good_runSM c hc T hT (sched.zip ops) (newS c addr ty) g0
    (fun p hp => hops p.2 (by rw [← hmap]; exact List.mem_map_of_mem hp)) (by rw [hmap]; exact henc)
  rw [hmap] at hfst
  have hxa : x.1 = a := hfst
  obtain ⟨_, _, _, _, _, _, hval, hroot, _⟩ := rep_history c hc T hT addr ty haddr ops hops
  rw [runS_fst] at hval hroot
  refine ⟨hxa, hval, g, ?_⟩
  intro hfuel
  obtain ⟨gf, _⟩ := good_foldl_applyMaint c hc T final x g hne
  have hd : x.1.1.d < fuel := by rw [hxa]; exact hfuel
  obtain ⟨s', h1, h2, _⟩ := load_from_storage c T hT _ x.1.1 _ _ gf.inv gf.rep gf.st
    (fetchWith c rsched) (scheduled_retrieve_is_fetch c rsched) fuel hd
  have hroot' : x.1.1.rootID = ⟨addr, 1⟩ := by rw [hxa]; exact hroot
  rw [hroot', hxa] at h1
  rw [hxa] at h2
  exact ⟨s', h1, h2⟩

/-- … AND THE DECODED LEDGER.  After the history with any maintenance schedule, any further maintenance
    and a final fault-free commit of either kind, the registers of the owner decode to exactly the slabs
    of the array (and nothing where no slab belongs) – the same under all schedules. -/
theorem array_ledger_under_schedules (c : Codec SSlab β) (hc : RoundTrip c) (T : Nat)
    (hT : legalThreshold T = true) (addr ty : Nat) (haddr : addr ≠ 0) (ops : List AOp)
    (hops : ∀ op ∈ ops, op.Ok) (henc : EncAlong c T (newS c addr ty).1 ops)
    (sched : List (List C08.Maint)) (hlen : sched.length = ops.length) (final : List C08.Maint)
    (kind : CommitKind) (mo dlo : List SlabID) :
    let x := runSM c T (newS c addr ty) (sched.zip ops)
    let a := runA T (Arr.new addr ty ⟨0, [], []⟩) ops
    let committed := (St.step c (final.foldl (C08.applyMaint c) x.2) (.commit kind [] mo dlo)).1
    (St.step c (final.foldl (C08.applyMaint c) x.2) (.commit kind [] mo dlo)).2 = .unit ∧
    ∀ id, id.addr = addr → committed.committed c id = stored a.1 (AList.find? a.2.created) id := by
  intro x a committed
  obtain ⟨g0, _, r0, _⟩ := good_new c hc T hT addr ty haddr
  have hmap := map_snd_zip sched ops hlen
  obtain ⟨g, hfst, hne⟩ := good_runSM c hc T hT (sched.zip ops) (newS c addr ty) g0
    (fun p hp => hops p.2 (by rw [← hmap]; exact List.mem_map_of_mem hp)) (by rw [hmap]; exact henc)
  rw [hmap] at hfst
  have hxa : x.1 = a := hfst
  obtain ⟨_, _, _, _, _, _, _, hroot, _⟩ := rep_history c hc T hT addr ty haddr ops hops
  rw [runS_fst] at hroot
  obtain ⟨gf, hnf⟩ := good_foldl_applyMaint c hc T final x g hne
  have hfp : ∀ n, faultPlan [] n = false := fun n => by simp [faultPlan]
  obtain ⟨e1, e2, _⟩ := commitW_complete c hc kind (faultPlan []) hfp mo dlo _ gf.st hnf
  obtain ⟨i1, i2, _⟩ := commitW_spec c hc kind (faultPlan []) mo dlo _ gf.st
  have hcm : committed = (commitW c kind (faultPlan []) mo dlo (final.foldl (C08.applyMaint c) x.2)).st := by
    show (St.step c _ (.commit kind [] mo dlo)).1 = _
    rw [step_commit]
  refine ⟨by rw [step_commit, e1], ?_⟩
  intro id hid
  have haddr' : x.1.1.addr = addr := by
    show x.1.1.rootID.addr = addr
    rw [hxa]
    exact congrArg SlabID.addr hroot
  rw [hcm, i2.committed_eq_view i1 e2 id (isTemp_of_addr hid haddr), ← hxa]
  exact gf.rep.view id (by rw [haddr']; exact hid)

/-! ### the byte codecs: no hypothesis on the codec -/

/-- the allocation counter of the array model never decreases -/
theorem stepS_ctr_le (c : Codec SSlab β) (hc : RoundTrip c) (T : Nat) (hT : legalThreshold T = true)
    (x : (Arr × Ctx) × St SSlab β) (hg : Good c T x) (op : AOp) (hop : op.Ok) :
    x.1.2.ctr ≤ (stepS c T x op).1.2.ctr := by
  obtain ⟨g', _, hr, _⟩ := good_stepS c hc T hT x hg op hop
  have h1 := hg.sync
  have h2 := g'.sync
  unfold AllocSync at h1 h2
  have haddr : (stepS c T x op).1.1.addr = x.1.1.addr := by unfold Arr.addr; rw [hr]
  rw [haddr] at h2
  have h3 := applyEffs_alloc c x.2 (contentOf (stepA T x.1 op)) (newEffs x.1.2 (stepA T x.1 op).2)
    x.1.1.addr hg.addr
  have h4 : (stepS c T x op).2 = applyEffs c x.2 (contentOf (stepA T x.1 op))
    (newEffs x.1.2 (stepA T x.1 op).2) := rfl
  rw [h4, h3, h1] at h2
  omega

theorem runS_ctr_le (c : Codec SSlab β) (hc : RoundTrip c) (T : Nat) (hT : legalThreshold T = true) :
    ∀ (ops : List AOp) (x : (Arr × Ctx) × St SSlab β), Good c T x → (∀ op ∈ ops, op.Ok) →
      x.1.2.ctr ≤ (runS c T x ops).1.2.ctr
  | [], _, _, _ => Nat.le_refl _
  | op :: ops, x, hg, hok => by
    have h1 := stepS_ctr_le c hc T hT x hg op (hok op (by simp))
    have g1 := (good_stepS c hc T hT x hg op (hok op (by simp))).1
    have h2 := runS_ctr_le c hc T hT ops (stepS c T x op) g1 (fun o ho => hok o (by simp [ho]))
    exact Nat.le_trans h1 h2

theorem runS_append (c : Codec SSlab β) (T : Nat) (x : (Arr × Ctx) × St SSlab β) (l1 l2 : List AOp) :
    runS c T x (l1 ++ l2) = runS c T (runS c T x l1) l2 := by
  simp [runS, List.foldl_append]

/-- at every point of a history the counter is below the final one -/
theorem ctr_take_le (c : Codec SSlab β) (hc : RoundTrip c) (T : Nat) (hT : legalThreshold T = true)
    (addr ty : Nat) (haddr : addr ≠ 0) (ops : List AOp) (hops : ∀ op ∈ ops, op.Ok) (k : Nat) :
    (runS c T (newS c addr ty) (ops.take k)).1.2.ctr ≤ (runS c T (newS c addr ty) ops).1.2.ctr := by
  obtain ⟨g0, _⟩ := good_new c hc T hT addr ty haddr
  have hk : ∀ op ∈ ops.take k, op.Ok := fun o ho => hops o (List.mem_of_mem_take ho)
  obtain ⟨g, _⟩ := good_runS c hc T hT (ops.take k) _ g0 hk
  have := runS_ctr_le c hc T hT (ops.drop k) _ g (fun o ho => hops o (List.mem_of_mem_drop ho))
  rw [← runS_append, List.take_append_drop] at this
  exact this

/-- NO ENCODE FAILURE ALONG HISTORIES, byte codec `keyedCodec`: `EncAlong` holds for every history of
    requests whose values the harness can encode, given the 64-bit bounds on address, type info and the
    FINAL allocation counter (the counter never decreases). -/
theorem bytes_encAlong (T : Nat) (hT : legalThreshold T = true) (addr ty : Nat)
    (ops : List AOp) (hops : ∀ op ∈ ops, op.Ok) (henc : ∀ op ∈ ops, op.Enc)
    (hb : Bounds addr ty (runS keyedCodec T (newS keyedCodec addr ty) ops).1.2.ctr) :
    EncAlong keyedCodec T (newS keyedCodec addr ty).1 ops := by
  intro k id v hv
  have hk : ∀ op ∈ ops.take k, op.Ok := fun o ho => hops o (List.mem_of_mem_take ho)
  have hke : ∀ op ∈ ops.take k, op.Enc := fun o ho => henc o (List.mem_of_mem_take ho)
  obtain ⟨g, ha⟩ := runS_addr T hT addr ty hb.addr_pos (ops.take k) hk
  obtain ⟨g0, _⟩ := good_new keyedCodec keyedCodec_roundTrip T hT addr ty hb.addr_pos
  have he := encSt_runS keyedCodec keyedCodec_roundTrip T hT (ops.take k) _ g0
    (encSt_new keyedCodec addr ty hb.ty) hk hke
  have hctr := Nat.lt_of_le_of_lt
    (ctr_take_le keyedCodec keyedCodec_roundTrip T hT addr ty hb.addr_pos ops hops k) hb.ctr
  have hok := encOk_of_good keyedCodec T _ g he (by rw [ha]; exact hb.addr) hctr
  rw [← runS_fst keyedCodec T (ops.take k) (newS keyedCodec addr ty)] at hv
  exact keyedCodec_enc_isSome v (stored_ok hT _ _ _ g.inv hok id v hv).1

/-- SCHEDULE INDEPENDENCE ALONG HISTORIES WITH THE BYTE CODEC (arrays).  `array_history_under_schedules`
    and `array_ledger_under_schedules` for `keyedCodec`, with no hypothesis on the codec: after any
    history of requests with encodable values under ANY maintenance schedule (commits of either kind,
    cache drops, commit-and-reopen before every request), the array model is the maintenance-free one,
    the load through the storage (`DecodeSlab` on whatever the slabs are served from) returns exactly
    it, and after a final commit `DecodeSlab` on the registers of the owner gives exactly its slabs. -/
theorem bytes_array_history_under_schedules (T : Nat) (hT : legalThreshold T = true) (addr ty : Nat)
    (ops : List AOp) (hops : ∀ op ∈ ops, op.Ok) (henc : ∀ op ∈ ops, op.Enc)
    (hb : Bounds addr ty (runS keyedCodec T (newS keyedCodec addr ty) ops).1.2.ctr)
    (sched : List (List C08.Maint)) (hlen : sched.length = ops.length) (final : List C08.Maint)
    (rsched : St SSlab (SlabID × Bytes) → SlabID → List (Op SSlab)) (fuel : Nat)
    (kind : CommitKind) (mo dlo : List SlabID) :
    let x := runSM keyedCodec T (newS keyedCodec addr ty) (sched.zip ops)
    let a := runA T (Arr.new addr ty ⟨0, [], []⟩) ops
    let committed := (St.step keyedCodec (final.foldl (C08.applyMaint keyedCodec) x.2) (.commit kind [] mo dlo)).1
    x.1 = a ∧ values a = specRun [] ops ∧
    (a.1.d < fuel →
      ∃ s', loadArrSt (fetchWith keyedCodec rsched) (final.foldl (C08.applyMaint keyedCodec) x.2) ⟨addr, 1⟩ fuel
        = .ok (some a.1, s')) ∧
    (∀ id, id.addr = addr →
      (AList.find? committed.base id).bind (fun p => decS p.1 p.2)
        = stored a.1 (AList.find? a.2.created) id) := by
  intro x a committed
  have hal := bytes_encAlong T hT addr ty ops hops henc hb
  obtain ⟨h1, h2, _, h4⟩ := array_history_under_schedules keyedCodec keyedCodec_roundTrip T hT addr ty
    hb.addr_pos ops hops hal sched hlen final rsched fuel
  obtain ⟨_, h5⟩ := array_ledger_under_schedules keyedCodec keyedCodec_roundTrip T hT addr ty
    hb.addr_pos ops hops hal sched hlen final kind mo dlo
  refine ⟨h1, h2, fun hf => ?_, fun id hid => ?_⟩
  · obtain ⟨s', e1, _⟩ := h4 hf
    exact ⟨s', e1⟩
  · exact h5 id hid

/-- the same for the byte codec with general large-value slabs (`keyedCodecG I`: wrapped storables) -/
theorem bytesG_encAlong (I : LargeInterp) (T : Nat) (hT : legalThreshold T = true) (addr ty : Nat)
    (ops : List AOp) (hops : ∀ op ∈ ops, op.Ok) (henc : ∀ op ∈ ops, AOp.EncG I T op)
    (hb : Bounds addr ty (runS (keyedCodecG I) T (newS (keyedCodecG I) addr ty) ops).1.2.ctr) :
    EncAlong (keyedCodecG I) T (newS (keyedCodecG I) addr ty).1 ops := by
  intro k id v hv
  have hk : ∀ op ∈ ops.take k, op.Ok := fun o ho => hops o (List.mem_of_mem_take ho)
  have hke : ∀ op ∈ ops.take k, AOp.EncG I T op := fun o ho => henc o (List.mem_of_mem_take ho)
  obtain ⟨g, ha⟩ := runS_addrG I T hT addr ty hb.addr_pos (ops.take k) hk
  obtain ⟨g0, _⟩ := good_new (keyedCodecG I) (keyedCodecG_roundTrip I) T hT addr ty hb.addr_pos
  have he := encStG_runS I (keyedCodecG I) (keyedCodecG_roundTrip I) T hT (ops.take k) _ g0
    (encStG_new I (keyedCodecG I) addr ty hb.ty) hk hke
  have hctr := Nat.lt_of_le_of_lt
    (ctr_take_le (keyedCodecG I) (keyedCodecG_roundTrip I) T hT addr ty hb.addr_pos ops hops k) hb.ctr
  have hok := encOkG_of_good I (keyedCodecG I) T _ g he (by rw [ha]; exact hb.addr) hctr
  rw [← runS_fst (keyedCodecG I) T (ops.take k) (newS (keyedCodecG I) addr ty)] at hv
  exact keyedCodecG_enc_isSome I v (stored_okG I hT _ _ _ g.inv hok id v hv).1

theorem bytesG_array_history_under_schedules (I : LargeInterp) (T : Nat) (hT : legalThreshold T = true)
    (addr ty : Nat) (ops : List AOp) (hops : ∀ op ∈ ops, op.Ok) (henc : ∀ op ∈ ops, AOp.EncG I T op)
    (hb : Bounds addr ty (runS (keyedCodecG I) T (newS (keyedCodecG I) addr ty) ops).1.2.ctr)
    (sched : List (List C08.Maint)) (hlen : sched.length = ops.length) (final : List C08.Maint)
    (rsched : St SSlab (SlabID × Bytes) → SlabID → List (Op SSlab)) (fuel : Nat)
    (kind : CommitKind) (mo dlo : List SlabID) :
    let x := runSM (keyedCodecG I) T (newS (keyedCodecG I) addr ty) (sched.zip ops)
    let a := runA T (Arr.new addr ty ⟨0, [], []⟩) ops
    let committed :=
      (St.step (keyedCodecG I) (final.foldl (C08.applyMaint (keyedCodecG I)) x.2) (.commit kind [] mo dlo)).1
    x.1 = a ∧ values a = specRun [] ops ∧
    (a.1.d < fuel →
      ∃ s', loadArrSt (fetchWith (keyedCodecG I) rsched)
        (final.foldl (C08.applyMaint (keyedCodecG I)) x.2) ⟨addr, 1⟩ fuel = .ok (some a.1, s')) ∧
    (∀ id, id.addr = addr →
      (AList.find? committed.base id).bind (fun p => decG I p.1 p.2)
        = stored a.1 (AList.find? a.2.created) id) := by
  intro x a committed
  have hal := bytesG_encAlong I T hT addr ty ops hops henc hb
  obtain ⟨h1, h2, _, h4⟩ := array_history_under_schedules (keyedCodecG I) (keyedCodecG_roundTrip I) T hT addr ty
    hb.addr_pos ops hops hal sched hlen final rsched fuel
  obtain ⟨_, h5⟩ := array_ledger_under_schedules (keyedCodecG I) (keyedCodecG_roundTrip I) T hT addr ty
    hb.addr_pos ops hops hal sched hlen final kind mo dlo
  refine ⟨h1, h2, fun hf => ?_, fun id hid => ?_⟩
  · obtain ⟨s', e1, _⟩ := h4 hf
    exact ⟨s', e1⟩
  · exact h5 id hid

/-! ### the storage-level theorems of C08 for the real codec -/

/-- "VALUES RESTRICTED TO `OkS`": a storage history all of whose stored slabs meet the encoder's
    preconditions satisfies the hypothesis `C08.StoresEncodable` of
    `C08.schedule_independent_outcomes` / `C08.schedule_independent_ledger` for the byte codec
    `keyedCodec` (whose encoder is partial: `keyedCodec.enc v = none` unless `OkS v`). -/
theorem keyedCodec_storesEncodable (ops : List (Op SSlab))
    (h : ∀ op ∈ ops, ∀ id v, op = .store id v → OkS v) : C08.StoresEncodable keyedCodec ops := by
  intro op hop
  cases op with
  | store id v => exact keyedCodec_enc_isSome v (h _ hop id v rfl)
  | _ => trivial

theorem keyedCodecG_storesEncodable (I : LargeInterp) (ops : List (Op SSlab))
    (h : ∀ op ∈ ops, ∀ id v, op = .store id v → OkG I v) : C08.StoresEncodable (keyedCodecG I) ops := by
  intro op hop
  cases op with
  | store id v => exact keyedCodecG_enc_isSome I v (h _ hop id v rfl)
  | _ => trivial

/-- `C08.schedule_independent_outcomes` and `C08.schedule_independent_ledger` FOR THE BYTE CODEC: for
    every client history (store / remove / retrieve / generate ID, on owned identifiers) that stores
    only slabs meeting the encoder's preconditions, any two maintenance schedules give the same
    observations, the same final view, and – after a final commit – byte-identical registers.  No
    hypothesis on the codec is left. -/
theorem bytes_schedule_independent (ops : List (Op SSlab))
    (hok : ∀ op ∈ ops, ∀ id v, op = .store id v → OkS v)
    (hcl : ∀ op ∈ ops, C08.clientOp op = true) (hnt : C08.NoTemp ops)
    (sched1 sched2 : List (List C08.Maint)) (h1 : sched1.length = ops.length) (h2 : sched2.length = ops.length) :
    let r1 := C08.runWith keyedCodec (St.init : St SSlab (SlabID × Bytes)) (ops.zip sched1)
    let r2 := C08.runWith keyedCodec (St.init : St SSlab (SlabID × Bytes)) (ops.zip sched2)
    r1.2 = r2.2 ∧ (∀ id, r1.1.view keyedCodec id = r2.1.view keyedCodec id) ∧
    ∀ id, AList.find? (r1.1.fastCommit keyedCodec (fun _ => false)).st.base id =
      AList.find? (r2.1.fastCommit keyedCodec (fun _ => false)).st.base id := by
  intro r1 r2
  have he := keyedCodec_storesEncodable ops hok
  obtain ⟨a1, a2⟩ := C08.schedule_independent_outcomes keyedCodec keyedCodec_roundTrip ops he hcl hnt
    sched1 sched2 h1 h2
  exact ⟨a1, a2, C08.schedule_independent_ledger keyedCodec keyedCodec_roundTrip ops he hcl hnt
    sched1 sched2 h1 h2⟩

/-! ### Non-vacuity

The history `histB` of `Props/E2EBytes.lean` (root split, leaf split, a 150-byte value in a large-value
slab, a rejected insert, a merge, `SetType`; 10 requests) with the byte codec, run under a maintenance
schedule that commits (both kinds), drops the cache and reopens from the ledger BEFORE EVERY request. -/
section NonVacuity
open Atree.Example

/-- maintenance before each of the ten requests of `histB` -/
def schedH : List (List C08.Maint) :=
  [[.dropCache], [.commit .det [] []], [.commitAndReopen], [.commit .nondet [⟨1, 2⟩] [], .dropCache],
   [.commitAndReopen, .dropCache], [], [.commit .det [] [], .commitAndReopen], [.dropCache],
   [.commit .nondet [] [⟨1, 4⟩]], [.commitAndReopen]]
/-- … and after the last one -/
def finalH : List C08.Maint := [.commit .nondet [⟨1, 3⟩] [], .dropCache]
def rschedH : St SSlab (SlabID × Bytes) → SlabID → List (Op SSlab) :=
  fun _ id => [.dropCache, .preload [id, ⟨1, 1⟩]]

example : schedH.length = histB.length := rfl

/-- the state after the history under the schedule -/
def xS : (Arr × Ctx) × St SSlab (SlabID × Bytes) := runSM keyedCodec T0 (newS keyedCodec 1 0) (schedH.zip histB)

/-- `good_applyMaint` on the final state of the maintenance-free run (everything pending) -/
example := good_applyMaint keyedCodec keyedCodec_roundTrip T0 xB
  (runS_addr T0 legal 1 0 (by decide) histB histB_ok).1
  (bytes_history_no_encode_failure T0 legal 1 0 histB histB_ok histB_enc xB_bounds) .commitAndReopen

example := bytes_encAlong T0 legal 1 0 histB histB_ok histB_enc xB_bounds
example := bytes_array_history_under_schedules T0 legal 1 0 histB histB_ok histB_enc xB_bounds
  schedH rfl finalH rschedH 2 .det [] []
example := array_history_under_schedules keyedCodec keyedCodec_roundTrip T0 legal 1 0 (by decide) histB histB_ok
  (bytes_encAlong T0 legal 1 0 histB histB_ok histB_enc xB_bounds) schedH rfl finalH rschedH 2

-- by evaluation: the two runs are internally very different – without maintenance nothing is in the
-- ledger and five slabs are pending; under the schedule the write set holds only the slab the
-- last request touched, the ledger holds four registers …
set_option maxRecDepth 100000 in
example : xB.2.base.length = 0 ∧ xB.2.deltas.length = 5 ∧
    xS.2.base.map (·.1) = [⟨1, 2⟩, ⟨1, 1⟩, ⟨1, 5⟩, ⟨1, 3⟩] ∧ xS.2.deltas.map (·.1) = [⟨1, 1⟩] ∧
    xS.2.cache = [] := by decide +kernel
-- … yet the array model is the same and the scheduled load from the maintained storage returns it
set_option maxRecDepth 100000 in
example : summary xS.1.1 = summary xB.1.1 := by decide +kernel
set_option maxRecDepth 100000 in
example : summaryR' (loadArrSt (fetchWith keyedCodec rschedH)
    (finalH.foldl (C08.applyMaint keyedCodec) xS.2) ⟨1, 1⟩ 2) = some (summary xB.1.1) := by decide +kernel

/-- `EncAlong` is not trivially true: for a codec whose encoder refuses everything it fails at once -/
example : ¬ EncAlong ({ keyedCodec with enc := fun _ => none } : Codec SSlab (SlabID × Bytes)) T0
    (newS keyedCodec 1 0).1 histB := by
  intro h
  have := h 0 ⟨1, 1⟩
  revert this
  decide

/-- the wrapped-storable codec: the same schedule -/
example := bytesG_array_history_under_schedules wrapInterp T0 legal 1 0 histB histB_ok histB_encG xG_bounds
  schedH rfl finalH rschedH 2 .nondet [] []

/-- the storage-level theorems with the real codec: the client history stores the three real slabs
    `1.1` (root index slab), `1.2`, `1.3` (leaves) of the array after `histB`, removes one of them again
    and reads; `StoresEncodable keyedCodec` holds although the encoder is partial. -/
def slabOf (id : SlabID) : SSlab := (stored xB.1.1 (AList.find? xB.1.2.created) id).getD (.large (elem 0))
def cliH : List (Op SSlab) :=
  [.genID 1, .store ⟨1, 1⟩ (slabOf ⟨1, 1⟩), .store ⟨1, 2⟩ (slabOf ⟨1, 2⟩), .store ⟨1, 5⟩ (slabOf ⟨1, 5⟩),
   .remove ⟨1, 2⟩, .retrieve ⟨1, 1⟩, .retrieve ⟨1, 5⟩]
theorem cliH_ok : ∀ op ∈ cliH, ∀ id v, op = .store id v → OkS v := by
  intro op hop id v hv
  simp only [cliH, List.mem_cons, List.not_mem_nil, or_false] at hop
  rcases hop with rfl | rfl | rfl | rfl | rfl | rfl | rfl <;> cases hv <;> decide
theorem cliH_noTemp : C08.NoTemp cliH := by
  intro op hop
  simp only [cliH, List.mem_cons, List.not_mem_nil, or_false] at hop
  rcases hop with rfl | rfl | rfl | rfl | rfl | rfl | rfl <;> simp [SlabID.isTemp]
def schedC : List (List C08.Maint) :=
  [[], [.dropCache], [.commit .det [] []], [.commitAndReopen], [.commit .nondet [] []], [.commitAndReopen, .dropCache], []]
example := bytes_schedule_independent cliH cliH_ok (by decide) cliH_noTemp
  (List.replicate 7 []) schedC rfl rfl
example := keyedCodec_storesEncodable cliH cliH_ok
/-- the encoder of the real codec is partial (the hypothesis of the earlier version of the C08 theorems,
    a total encoder, is false for it) -/
example : ¬ (∀ v : SSlab, (keyedCodec.enc v).isSome = true) := fun h => by
  have := h (.large { size := 0, pay := .val 0 }); revert this; decide

end NonVacuity

end Atree.E2E
