import AtreeProofs.E2ESpec
import AtreeProofs.E2E.Writes
import AtreeProofs.E2E.RepStep
import AtreeProofs.E2E.Load
import AtreeProofs.E2E.Created
import AtreeProofs.E2E.History
/-
  E2E — END-TO-END: array model + effect logs + storage state machine + commit / reopen + lazy
  slab loading, tied together (C03 / C08 / C15 at container level, arrays).

  "Every history of array operations, run against the storage state machine, followed by a
   successful commit and a reopen on a fresh storage, yields exactly the same array; without the
   commit, the reopen yields the array as of the last commit."

  PROPERTY THEOREMS.  The codec is abstract (`Codec SSlab β`), with the round-trip law `RoundTrip c`
  as hypothesis, as in C15 / C03 (discharged for the byte codec by C07).  Definitions:
  `AtreeProofs/E2ESpec.lean`; helper lemmas: `AtreeProofs/E2E/*.lean`.
-/
namespace Atree.E2E
open Atree Gen St

variable {β : Type}

/-! ### effect logs on the storage: last write wins -/

/-- The view of the storage after an effect log was run with the FINAL content of every slab:
    determined, identifier by identifier, by the last store/remove event of the identifier. -/
theorem applyEffs_view (c : Codec SSlab β) (s : St SSlab β) (content : SlabID → Option SSlab)
    (E : List Eff) (id : SlabID) (hid : id ≠ SlabID.undef)
    (hwf : lastAction E id = some true → (content id).isSome) :
    (applyEffs c s content E).view c id =
      (match lastAction E id with
       | some true => content id
       | some false => none
       | none => s.view c id) ∧
    (applyEffs c s content E).cache = s.cache ∧ (applyEffs c s content E).base = s.base :=
  ⟨view_applyEffs c s content E id hid hwf, applyEffs_frame c s content E⟩

/-- Storing the final content at every store event yields the same storage state as storing the
    intermediate contents: for ANY assignment of content snapshots to the events (`EC`) whose last
    write of every identifier agrees with the final content, both runs end with the same pending
    entry and the same view for every identifier, the same cache, ledger and allocation counters. -/
theorem intermediate_contents_irrelevant (c : Codec SSlab β) (s : St SSlab β)
    (content : SlabID → Option SSlab) (EC : List (Eff × (SlabID → Option SSlab)))
    (hlast : ∀ id, LastOk content id EC.reverse) :
    (∀ id, id ≠ SlabID.undef →
      AList.find? (applyEffsI c s EC).deltas id =
        AList.find? (applyEffs c s content (EC.map (·.1))).deltas id) ∧
    (∀ id, id ≠ SlabID.undef →
      (applyEffsI c s EC).view c id = (applyEffs c s content (EC.map (·.1))).view c id) ∧
    (applyEffsI c s EC).cache = (applyEffs c s content (EC.map (·.1))).cache ∧
    (applyEffsI c s EC).base = (applyEffs c s content (EC.map (·.1))).base ∧
    (∀ addr, addr ≠ 0 → (AList.find? (applyEffsI c s EC).alloc addr).getD 0 =
      (AList.find? (applyEffs c s content (EC.map (·.1))).alloc addr).getD 0) := by
  apply applyEffsI_eq_applyEffs
  intro id
  have := lastWrite_of_lastOk content id EC.reverse (hlast id)
  rwa [List.reverse_reverse] at this

/-! ### one operation -/

/-- REP STEP.  If the storage represents `a` and the effect log `E` is a complete account (C09) of
    the change from `a` to `a'`, then the storage obtained by running `E` represents `a'`. -/
theorem rep_step (c : Codec SSlab β) (s : St SSlab β) (a a' : Arr)
    (extra : SlabID → Option Elem) (ctr ctr' : Nat) (E : List Eff) (created : List (SlabID × Elem))
    (hrep : Rep c s a extra ctr) (heff : EffectsComplete a a' E (created.map (·.1)))
    (haddr : a'.addr = a.addr) (hne : a.addr ≠ 0) (hle : ctr ≤ ctr')
    (hcr : ∀ p ∈ created, p.1.idx ≤ ctr') :
    Rep c (applyEffs c s (stored a' (AList.find? created)) E) a' (extraStep a' E created extra) ctr' :=
  rep_step_gen c s a a' extra ctr ctr' E created hrep heff haddr hne hle hcr

/-- Large-value slabs created by `Insert` are stored by the operation, never removed or overwritten
    by it, fresh, owned by the array's address, and not slabs of the new tree; the allocation
    counter advances by exactly the number of `GenerateSlabID` calls in the log. -/
theorem insert_created_stored (T : Nat) (hT : legalThreshold T = true) (a : Arr) (c : Ctx) (i : Nat)
    (v : Elem) (hv : ValueOk v) (h : ArrInv T a c.ctr) (a' : Arr) (c' : Ctx)
    (hr : a.insert T i v c = .ok (a', c')) :
    (∀ p ∈ c'.created.drop c.created.length,
      lastAction (newEffs c c') p.1 = some true ∧ (a'.slabAt p.1).isNone ∧ c.ctr < p.1.idx ∧
      p.1.idx ≤ c'.ctr ∧ p.1.addr = a.addr) ∧
    c'.ctr = c.ctr + allocCount a.addr (newEffs c c') := by
  obtain ⟨E, C, hlog, hcr, hal, _⟩ := arr_insert_created hT a c i v hv h a' c' hr
  rw [newEffs_of_log hlog, hlog.created, List.drop_left, allocCount_eq]
  refine ⟨?_, hal⟩
  intro p hp
  obtain ⟨h1, h2, h3, h4, h5⟩ := hcr p.1 (List.mem_map_of_mem hp)
  exact ⟨h1, (slabAt_isNone a' p.1).2 h2, h3, h4, h5⟩

/-- the same for `Set` -/
theorem set_created_stored (T : Nat) (hT : legalThreshold T = true) (a : Arr) (c : Ctx) (i : Nat)
    (v : Elem) (hv : ValueOk v) (h : ArrInv T a c.ctr) (old : Elem) (a' : Arr) (c' : Ctx)
    (hr : a.set T i v c = .ok (old, a', c')) :
    (∀ p ∈ c'.created.drop c.created.length,
      lastAction (newEffs c c') p.1 = some true ∧ (a'.slabAt p.1).isNone ∧ c.ctr < p.1.idx ∧
      p.1.idx ≤ c'.ctr ∧ p.1.addr = a.addr) ∧
    c'.ctr = c.ctr + allocCount a.addr (newEffs c c') := by
  obtain ⟨E, C, hlog, hcr, hal, _⟩ := arr_set_created hT a c i v hv h old a' c' hr
  rw [newEffs_of_log hlog, hlog.created, List.drop_left, allocCount_eq]
  refine ⟨?_, hal⟩
  intro p hp
  obtain ⟨h1, h2, h3, h4, h5⟩ := hcr p.1 (List.mem_map_of_mem hp)
  exact ⟨h1, (slabAt_isNone a' p.1).2 h2, h3, h4, h5⟩

/-! ### histories -/

/-- REP HISTORY.  For every list of requests (insert / append / set / remove / popIterate / setType;
    any positions, out-of-range ones included: they are rejected and change nothing; values of any
    size ≥ 1), starting from `NewArray` on an empty storage, at every point (the statement holds
    for every list, hence for every prefix):
    * the array invariant `ArrInv` (C05) holds,
    * the storage represents the array (`Rep`): on the owner's address the view is exactly the slabs
      of the tree plus the large-value slabs created so far,
    * the storage invariant `Inv` (C15) holds and the storage's allocation counter agrees with the
      array model's (the IDs `Ctx.alloc` hands out are the ones `GenerateSlabID` generates),
    * every reference element points to a live large-value slab,
    * the sequence of values is the `List` semantics of the history (C01), the root ID is the one
      allocated by `NewArray`, the type info is the last one set. -/
theorem rep_history (c : Codec SSlab β) (hc : RoundTrip c) (T : Nat) (hT : legalThreshold T = true)
    (addr ty : Nat) (haddr : addr ≠ 0) (ops : List AOp) (hops : ∀ op ∈ ops, op.Ok) :
    let x := runS c T (newS c addr ty) ops
    let a := x.1.1
    let ctx := x.1.2
    let s := x.2
    x.1 = runA T (Arr.new addr ty ⟨0, [], []⟩) ops ∧
    ArrInv T a ctx.ctr ∧
    Rep c s a (AList.find? ctx.created) ctx.ctr ∧
    Inv c s ∧ AllocSync s addr ctx.ctr ∧
    (∀ e ∈ a.toList, ∀ y, e.pay = .ref y → (AList.find? ctx.created y).isSome) ∧
    values x.1 = specRun [] ops ∧ a.rootID = ⟨addr, 1⟩ ∧ a.ty = specTy ty ops := by
  intro x a ctx s
  obtain ⟨g0, v0, r0, t0⟩ := good_new c hc T hT addr ty haddr
  obtain ⟨g, v, r, t⟩ := good_runS c hc T hT ops (newS c addr ty) g0 hops
  have haddr' : a.addr = addr := by
    show x.1.1.rootID.addr = addr
    rw [r, r0]
  refine ⟨runS_fst c T ops _, g.inv, g.rep, g.st, ?_, g.refs, by rw [v, v0], r.trans r0, by rw [t, t0]⟩
  have := g.sync
  rw [haddr'] at this
  exact this

/-- The same from ANY state satisfying the invariant `Good` (e.g. the state after a commit):
    the invariant is kept and the values follow the `List` semantics. -/
theorem rep_run (c : Codec SSlab β) (hc : RoundTrip c) (T : Nat) (hT : legalThreshold T = true)
    (x : (Arr × Ctx) × St SSlab β) (hg : Good c T x) (ops : List AOp) (hops : ∀ op ∈ ops, op.Ok) :
    Good c T (runS c T x ops) ∧ values (runS c T x ops).1 = specRun (values x.1) ops ∧
    (runS c T x ops).1.1.rootID = x.1.1.rootID ∧ (runS c T x ops).1.1.ty = specTy x.1.1.ty ops :=
  good_runS c hc T hT ops x hg hops

/-! ### loading -/

/-- LOAD SLABS.  The tree is determined by its slabs: loading from the slabs of `a` (plus any
    large-value slabs) by following the child headers from the root ID rebuilds `a`. -/
theorem load_slabs (T : Nat) (hT : legalThreshold T = true) (a : Arr) (ctr : Nat)
    (hinv : ArrInv T a ctr) (extra : SlabID → Option Elem) (fuel : Nat) (hf : a.d < fuel) :
    loadArr (stored a extra) a.rootID fuel = some a :=
  loadArr_of_agree hT a ctr hinv extra (stored a extra) (fun _ _ => rfl) fuel hf

/-- … and so does loading through the storage that represents `a`, with `Retrieve` or any other
    transparent fetch (reads interleaved with cache drops, preloads, …: C08); the storage still
    represents `a` afterwards. -/
theorem load_from_storage (c : Codec SSlab β) (T : Nat) (hT : legalThreshold T = true)
    (s : St SSlab β) (a : Arr) (extra : SlabID → Option Elem) (ctr : Nat)
    (hinv : ArrInv T a ctr) (hrep : Rep c s a extra ctr) (hI : Inv c s)
    (fetch : Fetch (St SSlab β)) (hf : FetchOk c fetch) (fuel : Nat) (hfuel : a.d < fuel) :
    ∃ s', loadArrSt fetch s a.rootID fuel = .ok (some a, s') ∧ Rep c s' a extra ctr ∧ Inv c s' ∧
      s'.deltas = s.deltas ∧ s'.base = s.base := by
  obtain ⟨s', h1, k⟩ := loadArrSt_spec c fetch hf s hI a.rootID fuel
  rw [loadArr_of_agree hT a ctr hinv extra (s.view c) hrep.view fuel hfuel] at h1
  exact ⟨s', h1, ⟨fun id hid => by rw [k.view]; exact hrep.view id hid, hrep.extra_fresh⟩, k.inv,
    k.deltas, k.base⟩

theorem retrieve_is_fetch (c : Codec SSlab β) : FetchOk c (fun s id => s.retrieve c id) :=
  retrieve_fetchOk c

theorem scheduled_retrieve_is_fetch (c : Codec SSlab β)
    (sched : St SSlab β → SlabID → List (Op SSlab)) : FetchOk c (fetchWith c sched) :=
  fetchWith_fetchOk c sched

/-! ### commit and reopen -/

theorem isTemp_of_addr {id : SlabID} {addr : Nat} (h : id.addr = addr) (hne : addr ≠ 0) :
    id.isTemp = false := by
  simp [SlabID.isTemp, h, hne]

/-- any commit attempt (with any faults) keeps the representation and the invariants -/
theorem rep_commit_attempt (c : Codec SSlab β) (hc : RoundTrip c) (s : St SSlab β) (a : Arr)
    (extra : SlabID → Option Elem) (ctr : Nat) (hrep : Rep c s a extra ctr) (hI : Inv c s)
    (kind : CommitKind) (fault : Nat → Bool) (mo dlo : List SlabID) :
    Rep c (commitW c kind fault mo dlo s).st a extra ctr ∧ Inv c (commitW c kind fault mo dlo s).st ∧
    Adv c s (commitW c kind fault mo dlo s).st ∧
    (commitW c kind fault mo dlo s).st.alloc = s.alloc := by
  obtain ⟨h1, h2, _⟩ := commitW_spec c hc kind fault mo dlo s hI
  exact ⟨⟨fun id hid => by rw [h2.view id]; exact hrep.view id hid, hrep.extra_fresh⟩, h1, h2,
    (commitW_aux c kind fault mo dlo s).1⟩

/-- a storage reopened over the ledger of a completely committed state represents the array -/
theorem rep_reopen (c : Codec SSlab β) (s s' : St SSlab β) (a : Arr)
    (extra : SlabID → Option Elem) (ctr : Nat) (hrep : Rep c s a extra ctr) (hne : a.addr ≠ 0)
    (hI' : Inv c s') (hadv : Adv c s s')
    (hall : ∀ id, id.isTemp = false → AList.find? s'.deltas id = none)
    (base : AList SlabID β) (hbase : base = s'.base) (alloc : AList Nat Nat) :
    Rep c (St.fresh base alloc : St SSlab β) a extra ctr ∧ Inv c (St.fresh base alloc : St SSlab β) := by
  subst hbase
  refine ⟨⟨?_, hrep.extra_fresh⟩, ?_⟩
  · intro id hid
    rw [view_fresh, ← hrep.view id hid]
    exact hadv.committed_eq_view hI' hall id (isTemp_of_addr hid hne)
  · have := inv_fresh c s' hI'
    constructor
    · intro id v h; simp [St.fresh] at h
    · simp [St.fresh, AList.keys]
    · simp [St.fresh, AList.keys]
    · exact hI'.baseNodup
    · exact hI'.noTempBase
    · exact hI'.baseDecodes

/-- COMMIT, REOPEN, LOAD = IDENTITY (C03 "commits are durable and complete", C08 "the cache is
    transparent").  If the storage represents `a`, then after a fault-free commit of either kind
    (`FastCommit`, or `NondeterministicFastCommit` with ANY worker orders `mo`, `dlo`) the commit
    reports no error, and a brand-new storage opened over the same ledger (`recreate`: empty write
    set, empty cache) loads – through `Retrieve`, or through any transparent fetch, i.e. with cache
    drops / preloads / other reads interleaved at will – exactly `a`: same depth, same slabs with
    the same headers and links, same elements, same root ID, same type info; the reopened storage
    represents `a` (so the large-value slabs are there as well). -/
theorem commit_reopen_identity (c : Codec SSlab β) (hc : RoundTrip c) (T : Nat)
    (hT : legalThreshold T = true) (s : St SSlab β) (a : Arr) (extra : SlabID → Option Elem)
    (ctr : Nat) (hinv : ArrInv T a ctr) (hne : a.addr ≠ 0) (hrep : Rep c s a extra ctr)
    (hI : Inv c s) (henc : NoEncodeFailure c s)
    (kind : CommitKind) (mo dlo : List SlabID)
    (fetch : Fetch (St SSlab β)) (hf : FetchOk c fetch) (fuel : Nat) (hfuel : a.d < fuel) :
    (St.step c s (.commit kind [] mo dlo)).2 = .unit ∧
    let reopened := St.run c s [.commit kind [] mo dlo, .recreate]
    reopened.deltas = [] ∧ reopened.cache = [] ∧
    Rep c reopened a extra ctr ∧
    ∃ s', loadArrSt fetch reopened a.rootID fuel = .ok (some a, s') ∧ Rep c s' a extra ctr := by
  have hfp : ∀ n, faultPlan [] n = false := fun n => by simp [faultPlan]
  obtain ⟨g1, g2, _⟩ := commitW_complete c hc kind (faultPlan []) hfp mo dlo s hI henc
  obtain ⟨r1, r2, r3, _⟩ := rep_commit_attempt c hc s a extra ctr hrep hI kind (faultPlan []) mo dlo
  have hrun : St.run c s [.commit kind [] mo dlo, .recreate] =
      (St.fresh (commitW c kind (faultPlan []) mo dlo s).st.base
        (commitW c kind (faultPlan []) mo dlo s).st.alloc : St SSlab β) := by
    simp only [St.run, List.foldl_cons, List.foldl_nil, step_commit]
    rfl
  refine ⟨by rw [step_commit, g1], ?_⟩
  intro reopened
  have hre : reopened = _ := hrun
  obtain ⟨p1, p2⟩ := rep_reopen c s _ a extra ctr hrep hne r2 r3 g2 _ rfl
    (commitW c kind (faultPlan []) mo dlo s).st.alloc
  rw [← hre] at p1 p2
  refine ⟨by rw [hre]; rfl, by rw [hre]; rfl, p1, ?_⟩
  obtain ⟨s', h1, h2, _⟩ := load_from_storage c T hT reopened a extra ctr hinv p1 p2 fetch hf fuel hfuel
  exact ⟨s', h1, h2⟩

/-- a commit attempt does not create pending stores -/
theorem pend_commit_attempt (c : Codec SSlab β) (s s' : St SSlab β) (addr : Nat) (hadv : Adv c s s')
    (h : ∀ id v, AList.find? s.deltas id = some (some v) → id.addr = addr) :
    ∀ id v, AList.find? s'.deltas id = some (some v) → id.addr = addr := by
  intro id v hv
  rcases hadv.pending id with h1 | ⟨h1, _, _⟩
  · exact h id v (h1 ▸ hv)
  · rw [h1] at hv; cases hv

/-- the array operations never write to the ledger -/
theorem runS_base (c : Codec SSlab β) (T : Nat) :
    ∀ (ops : List AOp) (x : (Arr × Ctx) × St SSlab β), (runS c T x ops).2.base = x.2.base
  | [], _ => rfl
  | op :: ops, x => by
    show (runS c T (stepS c T x op) ops).2.base = x.2.base
    rw [runS_base c T ops]
    exact (applyEffs_frame c x.2 _ _).2

/-- CRASH BEFORE COMMIT (C03 "uncommitted state never reaches the ledger").  Commit, then ANY
    further history of array operations (which change the in-memory array), then abandon the
    in-memory storage WITHOUT committing: the reopened storage loads the array as of the last
    commit, not the later one. -/
theorem crash_reopen_last_commit (c : Codec SSlab β) (hc : RoundTrip c) (T : Nat)
    (hT : legalThreshold T = true) (x : (Arr × Ctx) × St SSlab β) (hg : Good c T x)
    (henc : NoEncodeFailure c x.2) (kind : CommitKind) (mo dlo : List SlabID)
    (later : List AOp) (hlater : ∀ op ∈ later, op.Ok)
    (fetch : Fetch (St SSlab β)) (hf : FetchOk c fetch) (fuel : Nat) (hfuel : x.1.1.d < fuel) :
    let committed := (St.step c x.2 (.commit kind [] mo dlo)).1
    let y := runS c T (x.1, committed) later
    let reopened := (St.step c y.2 .recreate).1
    -- the in-memory state moved on …
    Good c T y ∧ values y.1 = specRun (values x.1) later ∧
    -- … the ledger did not
    ∃ s', loadArrSt fetch reopened x.1.1.rootID fuel = .ok (some x.1.1, s') ∧
      Rep c s' x.1.1 (AList.find? x.1.2.created) x.1.2.ctr := by
  intro committed y reopened
  have hfp : ∀ n, faultPlan [] n = false := fun n => by simp [faultPlan]
  have hcm : committed = (commitW c kind (faultPlan []) mo dlo x.2).st := by
    show (St.step c x.2 (.commit kind [] mo dlo)).1 = _
    rw [step_commit]
  obtain ⟨_, g2, _⟩ := commitW_complete c hc kind (faultPlan []) hfp mo dlo x.2 hg.st henc
  obtain ⟨r1, r2, r3, r4⟩ := rep_commit_attempt c hc x.2 x.1.1 _ _ hg.rep hg.st kind (faultPlan []) mo dlo
  rw [← hcm] at g2 r1 r2 r3 r4
  have hgc : Good c T (x.1, committed) :=
    ⟨hg.inv, r1, r2, hg.addr, by have := hg.sync; unfold AllocSync at this ⊢; rw [r4]; exact this,
      hg.caddr, hg.refs, pend_commit_attempt c x.2 committed _ r3 hg.pend⟩
  obtain ⟨gy, vy, _, _⟩ := good_runS c hc T hT later (x.1, committed) hgc hlater
  refine ⟨gy, vy, ?_⟩
  have hbase : y.2.base = committed.base := runS_base c T later (x.1, committed)
  obtain ⟨p1, p2⟩ := rep_reopen c x.2 committed x.1.1 _ _ hg.rep hg.addr r2 r3 g2 y.2.base hbase y.2.alloc
  obtain ⟨s', h1, h2, _⟩ := load_from_storage c T hT (St.fresh y.2.base y.2.alloc) x.1.1 _ _ hg.inv p1 p2
    fetch hf fuel hfuel
  exact ⟨s', h1, h2⟩

/-- FAILED COMMIT, THEN RETRY (C14).  After ANY sequence of commit attempts – each of either kind,
    with its own fault plan and worker orders, failing wherever it fails – the in-memory storage
    still represents the array (nothing is lost: `Good` is kept, so every further operation works
    as usual), and a fault-free retry of either kind succeeds and, after a reopen, loads exactly
    the array. -/
theorem failed_commit_then_retry (c : Codec SSlab β) (hc : RoundTrip c) (T : Nat)
    (hT : legalThreshold T = true) (x : (Arr × Ctx) × St SSlab β) (hg : Good c T x)
    (henc : NoEncodeFailure c x.2)
    (attempts : List (CommitKind × List Nat × List SlabID × List SlabID))
    (kind : CommitKind) (mo dlo : List SlabID)
    (fetch : Fetch (St SSlab β)) (hf : FetchOk c fetch) (fuel : Nat) (hfuel : x.1.1.d < fuel) :
    let s' := attempts.foldl (fun s at_ => (St.step c s (.commit at_.1 at_.2.1 at_.2.2.1 at_.2.2.2)).1) x.2
    Good c T (x.1, s') ∧
    (St.step c s' (.commit kind [] mo dlo)).2 = .unit ∧
    let reopened := St.run c s' [.commit kind [] mo dlo, .recreate]
    Rep c reopened x.1.1 (AList.find? x.1.2.created) x.1.2.ctr ∧
    ∃ s'', loadArrSt fetch reopened x.1.1.rootID fuel = .ok (some x.1.1, s'') ∧
      Rep c s'' x.1.1 (AList.find? x.1.2.created) x.1.2.ctr := by
  intro s'
  -- every attempt keeps the invariant, the view and the counters
  have key : ∀ (l : List (CommitKind × List Nat × List SlabID × List SlabID)) (s : St SSlab β),
      Good c T (x.1, s) → NoEncodeFailure c s →
      Good c T (x.1, l.foldl (fun s at_ => (St.step c s (.commit at_.1 at_.2.1 at_.2.2.1 at_.2.2.2)).1) s) ∧
      NoEncodeFailure c (l.foldl (fun s at_ => (St.step c s (.commit at_.1 at_.2.1 at_.2.2.1 at_.2.2.2)).1) s) := by
    intro l
    induction l with
    | nil => intro s h1 h2; exact ⟨h1, h2⟩
    | cons at_ l ih =>
      intro s h1 h2
      simp only [List.foldl_cons]
      apply ih
      · rw [step_commit]
        obtain ⟨r1, r2, r3, r4⟩ := rep_commit_attempt c hc s x.1.1 _ _ h1.rep h1.st at_.1
          (faultPlan at_.2.1) at_.2.2.1 at_.2.2.2
        exact ⟨h1.inv, r1, r2, h1.addr,
          by have := h1.sync; unfold AllocSync at this ⊢; simp only; rw [r4]; exact this,
          h1.caddr, h1.refs, pend_commit_attempt c s _ _ r3 h1.pend⟩
      · rw [step_commit]
        obtain ⟨_, _, r3, _⟩ := rep_commit_attempt c hc s x.1.1 _ _ h1.rep h1.st at_.1
          (faultPlan at_.2.1) at_.2.2.1 at_.2.2.2
        exact r3.noEncodeFailure h2
  obtain ⟨hg', henc'⟩ := key attempts x.2 hg henc
  refine ⟨hg', ?_⟩
  obtain ⟨h1, h2⟩ := commit_reopen_identity c hc T hT s' x.1.1 _ _ hg'.inv hg'.addr hg'.rep hg'.st henc'
    kind mo dlo fetch hf fuel hfuel
  refine ⟨h1, ?_⟩
  intro reopened
  obtain ⟨_, _, h3, h4⟩ := h2
  exact ⟨h3, h4⟩

/-- Every reference element of a represented array resolves, in the storage, to the large value it
    stands for (also after commit + reopen, since `Rep` is kept: `commit_reopen_identity`). -/
theorem large_values_in_storage (c : Codec SSlab β) (T : Nat) (x : (Arr × Ctx) × St SSlab β)
    (hg : Good c T x) (s' : St SSlab β)
    (hrep : Rep c s' x.1.1 (AList.find? x.1.2.created) x.1.2.ctr) :
    ∀ e ∈ x.1.1.toList, ∀ y, e.pay = .ref y →
      ∃ v, AList.find? x.1.2.created y = some v ∧ s'.view c y = some (.large v) ∧
        resolve x.1.2.created e = v := by
  intro e he y hy
  have := hg.refs e he y hy
  cases hf : AList.find? x.1.2.created y with
  | none => rw [hf] at this; cases this
  | some v =>
    refine ⟨v, rfl, ?_, by simp [resolve, hy, hf]⟩
    have hmem := mem_of_find?_some hf
    have haddr := hg.caddr _ hmem
    rw [hrep.view y haddr]
    have hnone := (hrep.extra_fresh y (by rw [hf]; rfl)).1
    cases hs : x.1.1.slabAt y with
    | some p => rw [hs] at hnone; cases hnone
    | none => rw [stored_of_none hs, hf]; rfl

/-! ### Non-vacuity

A concrete history run on the model for `T = 256` against the storage state machine with the
identity codec (`β = σ`, trivially round-tripping).  The history (`hist`) goes through: the split of
the root (4th append: this is `Atree.Example.arr4` of C05/C09), an in-place insert, the split of a
leaf (slab 4 allocated), a value too large to inline (large-value slab 5), a rejected out-of-range
insert, a removal that merges two leaves (slab 4 removed while its store is still pending), and
`SetType`.  The theorems are instantiated on it and compared with direct evaluation (`decide`). -/
section NonVacuity
open Atree.Example

def idCodec : Codec SSlab SSlab := { enc := some, dec := fun _ b => some b, size := fun _ => 0 }

theorem idCodec_roundTrip : RoundTrip idCodec := by
  intro id v b h
  simp only [idCodec, Option.some.injEq] at h
  simp [idCodec, h]

theorem idCodec_noEncodeFailure (s : St SSlab SSlab) : NoEncodeFailure idCodec s := fun _ _ _ => rfl

def hist : List AOp :=
  [.append (elem 0), .append (elem 1), .append (elem 2), .append (elem 3),
   .insert 1 (elem 9), .insert 1 (elem 8), .set 3 ⟨5000, .val 7⟩, .insert 99 (elem 5),
   .remove 0, .setType 42]

theorem hist_ok : ∀ op ∈ hist, op.Ok := by
  intro op hop
  simp only [hist, List.mem_cons, List.not_mem_nil, or_false] at hop
  rcases hop with rfl | rfl | rfl | rfl | rfl | rfl | rfl | rfl | rfl | rfl <;>
    first | exact value_ok _ | exact ⟨by decide, 7, rfl⟩ | trivial

/-- the state after the history: array model, context, storage -/
def xH : (Arr × Ctx) × St SSlab SSlab := runS idCodec T0 (newS idCodec 1 0) hist

/-- decidable summaries of arrays / load results / stored slabs -/
def summary (a : Arr) : Nat × List Elem × Nat × List SlabID :=
  (a.d, a.toList, a.ty, ATree.slabIds a.d a.root)
def summaryR (r : Except StErr (Option Arr × St SSlab SSlab)) :
    Option (Nat × List Elem × Nat × List SlabID) :=
  match r with
  | .ok (some a, _) => some (summary a)
  | _ => none
/-- 0 = nothing / deletion, 1 = data slab, 2 = index slab, 3 = large-value slab -/
def slabKind : Option SSlab → Nat
  | none => 0
  | some (.tree (.data _) _) => 1
  | some (.tree (.index _ _ _ _) _) => 2
  | some (.large _) => 3

/-- the first four appends build `Example.arr4` (the array of the C05 / C09 non-vacuity sections) -/
example : (runA T0 (Arr.new 1 0 ⟨0, [], []⟩) (hist.take 4)).1 = arr4 := by rfl

/-- the array after the history: a root index slab over two leaves; element 2 is a reference to the
    large-value slab 5 -/
example : summary xH.1.1 =
    (1, [elem 8, elem 9, ⟨19, .ref ⟨1, 5⟩⟩, elem 2, elem 3], 42, [⟨1, 1⟩, ⟨1, 2⟩, ⟨1, 3⟩]) := by decide
example : xH.1.2.created = [(⟨1, 5⟩, ⟨5000, .val 7⟩)] ∧ xH.1.2.ctr = 5 := by decide
/-- the multi-slab stage in between (after the sixth request): four slabs -/
example : (summary (runS idCodec T0 (newS idCodec 1 0) (hist.take 6)).1.1).2.2.2
    = [⟨1, 1⟩, ⟨1, 2⟩, ⟨1, 4⟩, ⟨1, 3⟩] := by decide
/-- the write set after the history: index slab 1, pending DELETION of slab 4, leaves 2 and 3,
    large-value slab 5; nothing in the ledger yet -/
example : xH.2.deltas.map (fun p => (p.1, slabKind p.2))
    = [(⟨1, 1⟩, 2), (⟨1, 4⟩, 0), (⟨1, 2⟩, 1), (⟨1, 5⟩, 3), (⟨1, 3⟩, 1)] ∧ xH.2.base = [] := by decide

/-- `rep_history` instantiated: its hypotheses hold for this history. -/
theorem xH_good :
    ArrInv T0 xH.1.1 xH.1.2.ctr ∧ Rep idCodec xH.2 xH.1.1 (AList.find? xH.1.2.created) xH.1.2.ctr ∧
    Inv idCodec xH.2 ∧ AllocSync xH.2 1 xH.1.2.ctr ∧
    values xH.1 = specRun [] hist ∧ xH.1.1.rootID = ⟨1, 1⟩ ∧ xH.1.1.ty = specTy 0 hist := by
  obtain ⟨_, h1, h2, h3, h4, _, h6, h7, h8⟩ :=
    rep_history idCodec idCodec_roundTrip T0 legal 1 0 (by decide) hist hist_ok
  exact ⟨h1, h2, h3, h4, h6, h7, h8⟩
/-- … and what it says, by evaluation: the `List` semantics on the values (the large value itself,
    not the reference), the storage counter -/
example : specRun [] hist = [elem 8, elem 9, ⟨5000, .val 7⟩, elem 2, elem 3] ∧ specTy 0 hist = 42 := by
  decide
example : values xH.1 = [elem 8, elem 9, ⟨5000, .val 7⟩, elem 2, elem 3] := by decide
example : AList.find? xH.2.alloc 1 = some 5 := by decide
theorem xH_Good : Good idCodec T0 xH :=
  (good_runS idCodec idCodec_roundTrip T0 legal hist _
    (good_new idCodec idCodec_roundTrip T0 legal 1 0 (by decide)).1 hist_ok).1

/-- `Rep` is not trivially true: the empty storage does not represent the array. -/
example : ¬ Rep idCodec (St.init : St SSlab SSlab) xH.1.1 (AList.find? xH.1.2.created) xH.1.2.ctr := by
  intro h
  have := h.view ⟨1, 1⟩ (by decide)
  have h2 : slabKind ((St.init : St SSlab SSlab).view idCodec ⟨1, 1⟩) = 0 := by decide
  rw [this] at h2
  revert h2
  decide

/-- `load_slabs` on the array -/
example : loadArr (stored xH.1.1 (AList.find? xH.1.2.created)) xH.1.1.rootID 2 = some xH.1.1 :=
  load_slabs T0 legal xH.1.1 _ xH_good.1 _ 2 (by decide)

/-- `commit_reopen_identity` instantiated (FastCommit, `Retrieve`), and the same by evaluation:
    after commit + reopen the ledger holds slabs 1, 2, 3, 5 (not 4), and loading returns the array. -/
example := commit_reopen_identity idCodec idCodec_roundTrip T0 legal xH.2 xH.1.1 _ _ xH_good.1
  (by decide) xH_good.2.1 xH_good.2.2.1 (idCodec_noEncodeFailure _) .det [] []
  _ (retrieve_is_fetch idCodec) 2 (by decide)
def reopened : St SSlab SSlab := St.run idCodec xH.2 [.commit .det [] [] [], .recreate]
example : reopened.base.map (fun p => (p.1, slabKind (some p.2)))
    = [(⟨1, 5⟩, 3), (⟨1, 3⟩, 1), (⟨1, 2⟩, 1), (⟨1, 1⟩, 2)] ∧ reopened.deltas = [] := by decide
example : summaryR (loadArrSt (fun s id => s.retrieve idCodec id) reopened ⟨1, 1⟩ 2)
    = some (summary xH.1.1) := by decide
/-- the same with `NondeterministicFastCommit` and a worker order that writes slab 3 first, and a
    loader that drops the cache before every `Retrieve` -/
example := commit_reopen_identity idCodec idCodec_roundTrip T0 legal xH.2 xH.1.1 _ _ xH_good.1
  (by decide) xH_good.2.1 xH_good.2.2.1 (idCodec_noEncodeFailure _) .nondet [⟨1, 3⟩, ⟨1, 1⟩] []
  _ (scheduled_retrieve_is_fetch idCodec (fun _ _ => [.dropCache])) 2 (by decide)
def reopenedN : St SSlab SSlab :=
  St.run idCodec xH.2 [.commit .nondet [] [⟨1, 3⟩, ⟨1, 1⟩] [], .recreate]
example : reopenedN.base.map (·.1) = [⟨1, 5⟩, ⟨1, 2⟩, ⟨1, 1⟩, ⟨1, 3⟩] := by decide
example : summaryR (loadArrSt (fetchWith idCodec (fun _ _ => [.dropCache])) reopenedN ⟨1, 1⟩ 2)
    = some (summary xH.1.1) := by decide
/-- the large value is in the reopened storage -/
example : slabKind (reopened.view idCodec ⟨1, 5⟩) = 3 ∧ slabKind (reopened.view idCodec ⟨1, 4⟩) = 0 := by
  decide

/-- `crash_reopen_last_commit`: after the commit the array is emptied and refilled, then the
    storage is abandoned: the reopened storage loads the array of the commit. -/
def laterOps : List AOp := [.popIterate, .append (elem 1)]
example := crash_reopen_last_commit idCodec idCodec_roundTrip T0 legal xH xH_Good
  (idCodec_noEncodeFailure _) .det [] [] laterOps
  (by intro op hop
      simp only [laterOps, List.mem_cons, List.not_mem_nil, or_false] at hop
      rcases hop with rfl | rfl
      · trivial
      · exact value_ok 1)
  _ (retrieve_is_fetch idCodec) 2 (by decide)
def crashed : St SSlab SSlab :=
  (St.step idCodec (runS idCodec T0 (xH.1, (St.step idCodec xH.2 (.commit .det [] [] [])).1) laterOps).2
    .recreate).1
example : (summary (runS idCodec T0 (xH.1, (St.step idCodec xH.2 (.commit .det [] [] [])).1) laterOps).1.1)
    = (0, [elem 1], 42, [⟨1, 1⟩]) := by decide
example : summaryR (loadArrSt (fun s id => s.retrieve idCodec id) crashed ⟨1, 1⟩ 2)
    = some (summary xH.1.1) := by decide

/-- `failed_commit_then_retry`: the first attempt fails at its second write (slab 1 is written,
    the rest stays pending), the retry succeeds. -/
example := failed_commit_then_retry idCodec idCodec_roundTrip T0 legal xH xH_Good
  (idCodec_noEncodeFailure _) [(.det, [1], [], [])] .nondet [] []
  _ (retrieve_is_fetch idCodec) 2 (by decide)
example :
    let r := xH.2.fastCommit idCodec (faultPlan [1])
    r.err = some .external ∧ r.st.base.map (·.1) = [⟨1, 1⟩] ∧
    r.st.deltas.map (·.1) = [⟨1, 4⟩, ⟨1, 2⟩, ⟨1, 5⟩, ⟨1, 3⟩] := by decide
def retried : St SSlab SSlab :=
  St.run idCodec (xH.2.fastCommit idCodec (faultPlan [1])).st [.commit .nondet [] [] [], .recreate]
example : summaryR (loadArrSt (fun s id => s.retrieve idCodec id) retried ⟨1, 1⟩ 2)
    = some (summary xH.1.1) := by decide

/-- `intermediate_contents_irrelevant`: two stores of the same slab, the first with another
    content: same result as storing the final content twice. -/
example :
    let final : SlabID → Option SSlab := fun _ => some (.large (elem 1))
    let EC : List (Eff × (SlabID → Option SSlab)) :=
      [(.store ⟨1, 1⟩, fun _ => some (.large (elem 0))), (.store ⟨1, 1⟩, final)]
    ∀ id, LastOk final id EC.reverse := by
  intro final EC id
  simp only [EC, List.reverse_cons, List.reverse_nil, List.nil_append, List.cons_append, LastOk]
  split
  · simp [final]
  · trivial

end NonVacuity

end Atree.E2E
