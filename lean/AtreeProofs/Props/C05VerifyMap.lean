import AtreeProofs.Verify.MapVerify
import AtreeModel.Verify.MapCorrupt
/-
  C05 (and the oracle of C02 / C10 / C12 / C17) — the library's OWN structural checker `VerifyMap`
  (map_verify.go), transcribed in `AtreeModel/Verify/Map.lean`, related to the proved invariant
  `MapInv`.  PROPERTY-LEVEL THEOREMS.

  * `mapInv_implies_verify_ok`: the checker accepts every state the invariant describes (given what
    the invariant does not talk about: slab IDs pairwise different, of the map's address and
    defined, a non-zero seed — `MapIdsOk`).  As an oracle it never false-alarms on a valid map.
  * `ids_hypotheses_needed`: those extra hypotheses are needed — `MapInv` does not mention the seed,
    and the checker rejects a zero seed.
  * `unchecked_*`: concrete maps the checker ACCEPTS although a conjunct of `MapInv` is false —
    the defects only the invariant can see.  Most notably the slab of an external collision group
    is never looked at (its header may claim any size / first key / ID).

  FULL STATEMENT NOT PROVED (the array side has it, `C05V.verify_ok_iff`): an exact
  characterisation `verifyMap = ok ↔ …`.  What is proved for maps is the direction
  invariant ⟹ accepted, plus the counterexamples to the converse.
-/
namespace Atree.C05V
open Atree Gen Verify

/-- **The library's map checker accepts every state the invariant describes.**  `v` is any
    verifier set up for the threshold in force, the digester of the invariant (`r + 1` levels, the
    digest function `D`) and the map's address. -/
theorem mapInv_implies_verify_ok {r : Nat} (T : Nat) (hT : legalThreshold T = true) (D : DigestFn (r + 1))
    (m : OMap r) (h : MapInv T D m) (v : MVerifier) (hvT : v.T = T) (hvL : v.L = r + 1)
    (hvd : v.dg = D.dg) (hva : v.address = m.addr) (hids : MapIdsOk v m)
    (typeInfo : Option Nat) (hty : ∀ ty, typeInfo = some ty → m.ty = ty) :
    verifyMap v typeInfo m = .ok () :=
  verifyMap_ok_of_mapInv ⟨hT, hvT, hvL, hvd⟩ m h hids hva typeInfo hty

/-! ### a small valid map (one digest level, T = 256)

root data slab 7.1 holding, under the digests 1, 2, 3, 4: an inline collision group of two pairs, a
single pair, an external collision group (slab 7.2) of two pairs with 80-byte values, a single
pair.  It is the map the model builds from six `Set` calls (checked in the scratch evaluation
quoted in INTEGRATION-verifier.md), written out so that the corrupted variants below are readable. -/
section Witnesses

def D1 : DigestFn 1 := ⟨fun p => [p.2 / 10], fun _ => rfl⟩
def wKey (n : Nat) : MKey := ⟨10, n, [n / 10]⟩
/-- key `kn`, value payload `vn` of `vs` bytes -/
def wPair (kn vn vs : Nat) : SElem := ⟨wKey kn, ⟨vs, .val vn⟩, 1 + 10 + vs⟩
def wInlGroup : SingleElems := ⟨[wPair 11 1 10, wPair 12 2 10], 48, 1⟩
def wExtGroup : SingleElems := ⟨[wPair 31 4 80, wPair 32 5 80], 188, 1⟩
def wGroupSlab : GroupSlab SingleElems := ⟨⟨⟨7, 2⟩, 206, 0⟩, wExtGroup⟩
def wTable (g : SingleElems) (gs : GroupSlab SingleElems) (size : Nat) : HkeyElems SingleElems :=
  ⟨[1, 2, 3, 4], [.inl g, .single (wPair 25 3 10), .ext ⟨7, 2⟩ 21 gs, .single (wPair 40 6 10)], size, 0⟩
def wRoot (tbl : HkeyElems SingleElems) (size : Nat) : MDataSlab 0 :=
  ⟨⟨⟨7, 1⟩, size, 1⟩, SlabID.undef, tbl, true, false⟩
def wMap : OMap 0 := ⟨0, wRoot (wTable wInlGroup wGroupSlab 153) 155, 0, 6, 1⟩
def wVerifier : MVerifier := { T := 256, L := 1, inStorage := fun _ => true, address := 7, dg := D1.dg }

/-- the valid map is accepted -/
theorem wMap_ok : verifyMap wVerifier none wMap = .ok () := rfl

/-- **The hypotheses `MapIdsOk` are needed**: `MapInv` does not mention the seed (nor the slab IDs);
    the same tree with seed 0 satisfies exactly the same `MapInv` and is rejected. -/
theorem ids_hypotheses_needed :
    verifyMap wVerifier none { wMap with seed := 0 } = .error .seedUninitialized ∧
    (∀ T D, MapInv T D wMap → MapInv T (r := 0) D { wMap with seed := 0 }) :=
  ⟨rfl, fun _ _ h => ⟨h.tree, h.chain, h.count_eq, h.distinct, h.standalone⟩⟩

/-- (1) THE SLAB OF AN EXTERNAL COLLISION GROUP IS NEVER LOOKED AT.  `VerifyMap` calls
    `e.Elements(storage)` and verifies the elements; the group slab's own header may claim any
    size, any first key and any ID (here: 100000 bytes, first key 77, ID 9.9 of a foreign
    address).  `MapInv` (`ElemsInv`, `.ext` case) requires `s.hdr.id = id`,
    `s.hdr.size = 18 + size of the elements`, `s.hdr.firstKey = …`. -/
def wBadGroupSlab : GroupSlab SingleElems := ⟨⟨⟨9, 9⟩, 100000, 77⟩, wExtGroup⟩
def wMapBadGroupSlab : OMap 0 := ⟨0, wRoot (wTable wInlGroup wBadGroupSlab 153) 155, 0, 6, 1⟩

theorem unchecked_group_slab_header :
    verifyMap wVerifier none wMapBadGroupSlab = .ok () ∧ ∀ T D, ¬ MapInv T (r := 0) D wMapBadGroupSlab := by
  refine ⟨rfl, fun T D h => ?_⟩
  have h1 : MDataInv T D true (wRoot (wTable wInlGroup wBadGroupSlab 153) 155) := h.tree
  have h2 := h1.elems_inv
  simp only [ElemsInv] at h2
  have h3 := h2.2.2.2.2.2 2 3 (.ext ⟨7, 2⟩ 21 wBadGroupSlab) rfl rfl
  exact absurd h3.2.2.1 (by decide)

/-- (2) THE SAME KEY TWICE in a last-level list (a `singleElements`): nothing compares keys. -/
def wDupGroup : SingleElems := ⟨[wPair 11 1 10, wPair 11 2 10], 48, 1⟩
def wMapDupKey : OMap 0 := ⟨0, wRoot (wTable wDupGroup wGroupSlab 153) 155, 0, 6, 1⟩

theorem unchecked_distinct_keys :
    verifyMap wVerifier none wMapDupKey = .ok () ∧ ¬ KeysDistinct wMapDupKey.toList := by
  refine ⟨rfl, ?_⟩
  intro h
  have : wMapDupKey.toList = [(wKey 11, ⟨10, .val 1⟩), (wKey 11, ⟨10, .val 2⟩), (wKey 25, ⟨10, .val 3⟩),
      (wKey 31, ⟨80, .val 4⟩), (wKey 32, ⟨80, .val 5⟩), (wKey 40, ⟨10, .val 6⟩)] := rfl
  rw [this] at h
  have := (List.pairwise_cons.1 h).1 _ (List.mem_cons_self)
  exact absurd this (by decide)

/-- (3) A COLLISION GROUP OF ONE PAIR (the code collapses such a group into a single element;
    `ElemsInv` demands `soleSingle g = none`). -/
def wSoleGroup : SingleElems := ⟨[wPair 11 1 10], 27, 1⟩
def wMapSoleGroup : OMap 0 := ⟨0, wRoot (wTable wSoleGroup wGroupSlab 132) 134, 0, 5, 1⟩

theorem unchecked_group_of_one :
    verifyMap wVerifier none wMapSoleGroup = .ok () ∧ ∀ T D, ¬ MapInv T (r := 0) D wMapSoleGroup := by
  refine ⟨rfl, fun T D h => ?_⟩
  have h1 : MDataInv T D true (wRoot (wTable wSoleGroup wGroupSlab 132) 134) := h.tree
  have h2 := h1.elems_inv
  simp only [ElemsInv] at h2
  have h3 := h2.2.2.2.2.2 0 1 (.inl wSoleGroup) rfl rfl
  exact absurd h3.2.2.1 (by decide)

/-- (4) AN EMPTY VALUE (0 bytes): sizes are only bounded from above. -/
def wMapEmptyValue : OMap 0 :=
  ⟨0, wRoot ⟨[1], [.single (wPair 11 3 0)], 27, 0⟩ 29, 0, 1, 1⟩

theorem unchecked_value_size_pos :
    verifyMap wVerifier none wMapEmptyValue = .ok () ∧ ∀ T D, ¬ MapInv T (r := 0) D wMapEmptyValue := by
  refine ⟨rfl, fun T D h => ?_⟩
  have h1 : MDataInv T D true (wRoot ⟨[1], [.single (wPair 11 3 0)], 27, 0⟩ 29) := h.tree
  have h2 := h1.elems_inv
  simp only [ElemsInv] at h2
  have h3 := h2.2.2.2.2.2 0 1 (.single (wPair 11 3 0)) rfl rfl
  exact absurd h3.1.2.1 (by decide)

/-- (5) AN INLINED ROOT is accepted when it is not in storage (`MapInv` describes standalone maps). -/
def wMapInlined : OMap 0 :=
  ⟨0, ⟨⟨⟨7, 1⟩, 41, 2⟩, SlabID.undef, ⟨[2], [.single (wPair 25 3 0)], 27, 0⟩, true, true⟩, 0, 1, 1⟩

theorem unchecked_standalone_map :
    verifyMap { wVerifier with inStorage := fun _ => false } none wMapInlined = .ok () ∧
    wMapInlined.isInlined = true ∧
    verifyMap wVerifier none wMapInlined = .error .inlinedSlabInStorage := ⟨rfl, rfl, rfl⟩

end Witnesses

/-! ### broken sibling links (the same weakness as for arrays), on the two-level example of C02 -/
section Chain
open MapExample

def exVerifier : MVerifier := { T := 256, L := 2, inStorage := fun _ => true, address := 7, dg := D2.dg }

/-- `MapExample.run` (root index slab 7.1 over the data slabs 7.3 → 7.4) with the links overwritten:
    7.3 has no `next`, 7.4 points to itself.  Accepted; `MLeafChain` is false. -/
def runBrokenChain : Option (OMap 1) :=
  (corruptMap run.1 ⟨7, 3⟩ "next" [] 0 0 0 SlabID.undef).bind
    (fun m => corruptMap m ⟨7, 4⟩ "next" [] 0 0 0 ⟨7, 4⟩)

theorem unchecked_map_leaf_chain :
    ∃ m, runBrokenChain = some m ∧ verifyMap exVerifier (some 0) m = .ok () ∧
      ¬ MLeafChain (MTree.leaves m.d m.root) := by
  refine ⟨_, rfl, rfl, ?_⟩
  intro h
  have h1 := h.1
  exact absurd h1 (by decide)

end Chain

/-! ### Non-vacuity -/
section NonVacuity
open MapExample

theorem run_ids_ok : MapIdsOk exVerifier run.1 := ⟨by decide, by decide, by decide, by decide⟩

/-- the two-level example map of C02 (index-slab root, inline group, external group, last-level
    lists) meets every hypothesis of `mapInv_implies_verify_ok`; the conclusion agrees with plain
    evaluation of the transcription -/
example : verifyMap exVerifier (some 0) run.1 = .ok () :=
  mapInv_implies_verify_ok 256 legal256 D2 run.1 run_good.inv exVerifier rfl rfl rfl rfl run_ids_ok
    (some 0) (fun _ h => by cases h; rfl)
example : verifyMap exVerifier (some 0) run.1 = .ok () := rfl

/-- rejections: wrong type, wrong address, wrong threshold, wrong digester, wrong number of levels,
    wrong count -/
example : verifyMap exVerifier (some 5) run.1 = .error .typeInfoWrong := rfl
example : verifyMap { exVerifier with address := 8 } none run.1 = .error .mapAddress := rfl
example : verifyMap { exVerifier with T := 1024 } none run.1 = .error .underflow := rfl
example : verifyMap { exVerifier with dg := fun _ => [0, 0] } none run.1 = .error .digestWrong := rfl
example : verifyMap { exVerifier with L := 3 } none run.1 = .error .singleDigestLevelWrong := rfl
example : verifyMap exVerifier none { run.1 with count := 3 } = .error .rootCountWrong := rfl

end NonVacuity

end Atree.C05V
