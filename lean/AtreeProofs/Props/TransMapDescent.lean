import AtreeModel.Gen.TransMapDescent
/-
  DESCENT and top level of the maps (WP13): every whitelisted function of the descent unit of the object engine of
  harness/cmd/gotrans (`Gen/TransMapDescent.lean`) was translated on this run (none fell back to `Untranslatable`), the
  whitelist is the pinned one, and no call site relies on the "dead after call" aliasing assumption.  The equivalence
  theorems are in `Props/TransMapDescentGet.lean`, `...Set.lean`, `...Remove.lean`, `...Pop.lean`, `...Full.lean`.
-/
namespace Atree.TransEq
open Atree

/-- every whitelisted function of the map descent was translated -/
theorem all_translated_mapdescent : Gen.TransMapD.untranslatedFunctions = [] := rfl

/-- the whitelist itself (dropping a function from the tables of obj_descent.go is noticed) -/
theorem mapdescent_targets_pinned :
    Gen.TransMapD.translatedTargets =
      ["MapDataSlab_SlabID", "MapDataSlab_Header", "MapDataSlab_IsData", "MapDataSlab_IsFull", "MapDataSlab_IsUnderflow", "MapDataSlab_Inlined", "MapDataSlab_getPrefixSize", "MapMetaDataSlab_SlabID", "MapMetaDataSlab_Header", "MapMetaDataSlab_IsData", "MapMetaDataSlab_IsFull", "MapMetaDataSlab_IsUnderflow", "MapMetaDataSlab_Inlined", "MapSlab_SlabID", "MapSlab_Header", "MapSlab_IsData", "MapSlab_IsFull", "MapSlab_IsUnderflow", "MapSlab_Inlined", "storeSlab", "getMapSlab", "MapDataSlab_Get", "MapDataSlab_getElementAndNextKey", "MapDataSlab_Set", "MapDataSlab_Remove", "MapDataSlab_PopIterate", "MapMetaDataSlab_getChildSlabByDigest", "MapSlab_Get", "MapMetaDataSlab_Get", "MapSlab_getElementAndNextKey", "MapMetaDataSlab_getElementAndNextKey", "MapSlab_Set", "MapMetaDataSlab_Set", "MapSlab_Remove", "MapMetaDataSlab_Remove", "MapSlab_PopIterate", "MapMetaDataSlab_PopIterate", "OrderedMap_Count", "OrderedMap_Inlined", "OrderedMap_get", "OrderedMap_Has", "OrderedMap_Get", "OrderedMap_set", "OrderedMap_Set", "OrderedMap_remove", "OrderedMap_Remove", "OrderedMap_PopIterate"] := rfl

/-- no call site of the descent hands a slice to a helper that clears it without overwriting it -/
theorem mapdescent_deadAfterCall_pinned : Gen.TransMapD.deadAfterCall = [] := rfl

end Atree.TransEq
