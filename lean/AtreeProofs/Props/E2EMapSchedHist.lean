import AtreeProofs.Props.E2EMapSched
import AtreeProofs.Props.E2ESched
/-
  E2EMapSchedHist — C08 at container level, MAPS, ALONG HISTORIES (the map analogue of
  `Props/E2ESched.lean`; audit a3, item F4): maintenance actions of the storage (fault-free commits of
  either kind, cache drops, commit-and-reopen: `C08.Maint`) inserted BEFORE EVERY map request do not
  change anything a client can see.

  * `mgood_applyMaint`             – one maintenance action keeps the history invariant `MGoodF`;
  * `map_history_under_schedules`  – a history run with an arbitrary maintenance list before every
                                     request ends with the same map model as the maintenance-free run,
                                     the storage represents it, the dictionary follows the requests, and
                                     loading the map back through the storage – after further
                                     maintenance, with read-only operations interleaved with the slab
                                     fetches – returns exactly that map;
  * `map_ledger_under_schedules`   – after a final commit the decoded ledger is the same under all
                                     schedules (it is the set of stored slabs of the map);
  * `map_bytes_history_under_schedules` – the same for the byte codec `keyedCodecM D` with NO hypothesis
                                     on the codec.

  The encoder is NOT assumed total: the generic statements assume `MEncAlong` (the slabs of the map
  model can be encoded at every point of the history: a hypothesis on the schedule-independent map
  model); for the byte codec it follows from `op.Enc` and the field-width bounds `MWidths` at every
  point of the history (widths are not monotone: a map can shrink, so the bound on the final state does
  not imply the bounds on the way).
-/
namespace Atree.E2EM
open Atree Atree.Codec Gen St

variable {r : Nat} {β : Type}

/-- ONE MAINTENANCE ACTION KEEPS THE HISTORY INVARIANT (maps).  If the state of a history is `MGoodF`
    and its pending slabs can be encoded, then after a fault-free commit of either kind (any worker
    orders), a cache drop, or a commit followed by reopening the storage from the ledger, the state is
    still `MGoodF` – for the SAME map model – and its pending slabs can still be encoded. -/
theorem mgood_applyMaint (c : Codec (MSSlab r) β) (hc : RoundTrip c) (T : Nat) (D : DigestFn (r + 1))
    (cfg : MCfg) (x : (OMap r × Ctx) × St (MSSlab r) β) (hg : MGoodF c T D cfg x)
    (hne : NoEncodeFailure c x.2) (m : C08.Maint) :
    MGoodF c T D cfg (x.1, C08.applyMaint c x.2 m) ∧ NoEncodeFailure c (C08.applyMaint c x.2 m) := by
  obtain ⟨h1, h2, h3⟩ := applyMaint_keeps_rep c hc x.2 hg.st hne m
  obtain ⟨f1, f2⟩ := E2E.applyMaint_frame c hc x.2 hg.st m
  refine ⟨⟨hg.inv, hg.ids, hg.ctx, hg.cfg, hg.aok, hg.addr, h1, ⟨?_, hg.rep.extra_fresh⟩, ?_, hg.caddr,
    hg.refs, ?_⟩, h2⟩
  · intro id hid
    show (C08.applyMaint c x.2 m).view c id = _
    rw [h3 id (E2E.isTemp_of_addr hid hg.addr)]
    exact hg.rep.view id hid
  · have := hg.sync
    unfold MAllocSync at this ⊢
    show (AList.find? (C08.applyMaint c x.2 m).alloc x.1.1.addr).getD 0 = x.1.2.ctr
    rw [f1]; exact this
  · intro id v hv
    exact hg.pend id v (f2 id v hv)

theorem mgood_foldl_applyMaint (c : Codec (MSSlab r) β) (hc : RoundTrip c) (T : Nat) (D : DigestFn (r + 1))
    (cfg : MCfg) (ms : List C08.Maint) :
    ∀ (x : (OMap r × Ctx) × St (MSSlab r) β), MGoodF c T D cfg x → NoEncodeFailure c x.2 →
    MGoodF c T D cfg (x.1, ms.foldl (C08.applyMaint c) x.2) ∧
    NoEncodeFailure c (ms.foldl (C08.applyMaint c) x.2) := by
  induction ms with
  | nil => intro x hg hne; exact ⟨hg, hne⟩
  | cons m ms ih =>
    intro x hg hne
    obtain ⟨g1, g2⟩ := mgood_applyMaint c hc T D cfg x hg hne m
    exact ih (x.1, C08.applyMaint c x.2 m) g1 g2

/-! ### histories with maintenance before every request -/

/-- One request, preceded by the maintenance actions `p.1` on the storage. -/
def stepSM (c : Codec (MSSlab r) β) (cfg : MCfg) (x : (OMap r × Ctx) × St (MSSlab r) β)
    (p : List C08.Maint × MOp) : (OMap r × Ctx) × St (MSSlab r) β :=
  stepS c cfg (x.1, p.1.foldl (C08.applyMaint c) x.2) p.2

/-- A history of requests, each preceded by its own list of maintenance actions. -/
def runSM (c : Codec (MSSlab r) β) (cfg : MCfg) (x : (OMap r × Ctx) × St (MSSlab r) β)
    (l : List (List C08.Maint × MOp)) : (OMap r × Ctx) × St (MSSlab r) β := l.foldl (stepSM c cfg) x

/-- every slab the map model puts into the storage can be encoded -/
def MStoredEnc (c : Codec (MSSlab r) β) (st : OMap r × Ctx) : Prop :=
  ∀ id v, contentOf st id = some v → (c.enc v).isSome

/-- NO ENCODE FAILURE ALONG THE RUN (maps): a statement about the map model only (`runM`). -/
def MEncAlong (c : Codec (MSSlab r) β) (cfg : MCfg) (st : OMap r × Ctx) (ops : List MOp) : Prop :=
  ∀ k, MStoredEnc c (runM cfg st (ops.take k))

theorem noEncodeFailure_of_mstoredEnc (c : Codec (MSSlab r) β) (T : Nat) (D : DigestFn (r + 1)) (cfg : MCfg)
    (x : (OMap r × Ctx) × St (MSSlab r) β) (hg : MGoodF c T D cfg x) (he : MStoredEnc c x.1) :
    NoEncodeFailure c x.2 := by
  intro id v hv
  have ha := hg.pend id v hv
  have hview : x.2.view c id = some v := view_of_deltas c x.2 id (some v) hv
  rw [hg.rep.view id ha] at hview
  exact he id v hview

/-- ANY HISTORY WITH ANY MAINTENANCE SCHEDULE keeps the invariant; its map model is the one of the
    maintenance-free run (`runM`). -/
theorem mgood_runSM (c : Codec (MSSlab r) β) (hc : RoundTrip c) (T : Nat) (hT : legalThreshold T = true)
    (D : DigestFn (r + 1)) (cfg : MCfg) :
    ∀ (l : List (List C08.Maint × MOp)) (x : (OMap r × Ctx) × St (MSSlab r) β), MGoodF c T D cfg x →
      (∀ p ∈ l, p.2.Ok T D) → MEncAlong c cfg x.1 (l.map (·.2)) →
      MGoodF c T D cfg (runSM c cfg x l) ∧ (runSM c cfg x l).1 = runM cfg x.1 (l.map (·.2)) ∧
      NoEncodeFailure c (runSM c cfg x l).2
  | [], x, hg, _, he => ⟨hg, rfl, noEncodeFailure_of_mstoredEnc c T D cfg x hg (he 0)⟩
  | p :: l, x, hg, hok, he => by
    have hne := noEncodeFailure_of_mstoredEnc c T D cfg x hg (he 0)
    obtain ⟨g1, _⟩ := mgood_foldl_applyMaint c hc T D cfg p.1 x hg hne
    obtain ⟨g2, _⟩ := mgoodF_stepS c hc T hT D cfg _ g1 p.2 (hok p (by simp))
    have hfst : (stepSM c cfg x p).1 = stepM cfg x.1 p.2 := rfl
    have he' : MEncAlong c cfg (stepSM c cfg x p).1 (l.map (·.2)) := by
      rw [hfst]; exact fun k => he (k + 1)
    obtain ⟨r1, r2, r3⟩ := mgood_runSM c hc T hT D cfg l (stepSM c cfg x p) g2
      (fun q hq => hok q (by simp [hq])) he'
    refine ⟨r1, ?_, r3⟩
    show (runSM c cfg (stepSM c cfg x p) l).1 = runM cfg (stepM cfg x.1 p.2) (l.map (·.2))
    rw [r2, hfst]

/-- SCHEDULE INDEPENDENCE ALONG HISTORIES (C08 at container level, maps).  Take any history of map
    requests from `NewMap` and ANY maintenance schedule: before every request an arbitrary list of
    fault-free commits (either kind, any worker orders), cache drops and commit-and-reopen.  If the slabs
    of the map model can be encoded along the run, then
    * the map model at the end is the one of the maintenance-free run (`runM`), whatever the schedule,
      and its dictionary follows the requests (`DictRun`);
    * the state is `MGoodF`: the storage represents that map;
    * after any further maintenance actions `final`, loading the map from its root ID through the
      storage – every slab fetch preceded by arbitrary read-only operations chosen by `rsched` – returns
      exactly that map, and the storage still represents it.
    Since the right-hand sides do not mention the schedule, any two schedules give the same results. -/
theorem map_history_under_schedules (c : Codec (MSSlab r) β) (hc : RoundTrip c) (T : Nat)
    (hT : legalThreshold T = true) (D : DigestFn (r + 1)) (cfg : MCfg) (hcT : cfg.T = T)
    (hcL : cfg.L = r + 1) (haddr : cfg.addr ≠ 0) (ty : Nat) (seedOf : SlabID → Nat)
    (ops : List MOp) (hops : ∀ op ∈ ops, op.Ok T D)
    (henc : MEncAlong c cfg (newS c cfg.addr ty seedOf).1 ops)
    (sched : List (List C08.Maint)) (hlen : sched.length = ops.length) (final : List C08.Maint)
    (rsched : St (MSSlab r) β → SlabID → List (Op (MSSlab r))) (fuel : Nat) :
    let x := runSM c cfg (newS c cfg.addr ty seedOf) (sched.zip ops)
    let m := runM cfg (OMap.new (r := r) cfg.addr ty seedOf ⟨0, [], []⟩) ops
    x.1 = m ∧ DictRun T D (fun _ => none) ops (lookupR m) ∧ MGoodF c T D cfg x ∧
    (m.1.d < fuel →
      ∃ s', loadMapSt (fetchWith c rsched) (final.foldl (C08.applyMaint c) x.2) ⟨cfg.addr, 1⟩ fuel
          = .ok (some m.1, s') ∧
        MRep c s' m.1 (AList.find? m.2.created) m.2.ctr) := by
  intro x m
  obtain ⟨g0, _⟩ := mgoodF_new c hc T hT D cfg hcT hcL haddr ty seedOf
  have hmap := E2E.map_snd_zip sched ops hlen
  obtain ⟨g, hfst, hne⟩ := mgood_runSM c hc T hT D cfg (sched.zip ops) (newS c cfg.addr ty seedOf) g0
    (fun p hp => hops p.2 (by rw [← hmap]; exact List.mem_map_of_mem hp)) (by rw [hmap]; exact henc)
  rw [hmap] at hfst
  have hxm : x.1 = m := hfst
  obtain ⟨hrun, _, _, _, _, _, _, _, _, hdict, hroot, _⟩ :=
    map_rep_history c hc T hT D cfg hcT hcL haddr ty seedOf ops hops
  rw [hrun] at hdict hroot
  refine ⟨hxm, hdict, g, ?_⟩
  intro hfuel
  obtain ⟨gf, _⟩ := mgood_foldl_applyMaint c hc T D cfg final x g hne
  have hd : x.1.1.d < fuel := by rw [hxm]; exact hfuel
  obtain ⟨s', h1, h2, _⟩ := map_load_from_storage c T hT D _ x.1.1 _ _ gf.inv gf.ids gf.aok gf.rep gf.st
    (fetchWith c rsched) (map_scheduled_retrieve_is_fetch c rsched) fuel hd
  have hroot' : x.1.1.rootID = ⟨cfg.addr, 1⟩ := by rw [hxm]; exact hroot
  rw [hroot', hxm] at h1
  rw [hxm] at h2
  exact ⟨s', h1, h2⟩

/-- … AND THE DECODED LEDGER (maps).  After the history with any maintenance schedule, any further
    maintenance and a final fault-free commit of either kind, the registers of the owner decode to
    exactly the stored slabs of the map – the same under all schedules. -/
theorem map_ledger_under_schedules (c : Codec (MSSlab r) β) (hc : RoundTrip c) (T : Nat)
    (hT : legalThreshold T = true) (D : DigestFn (r + 1)) (cfg : MCfg) (hcT : cfg.T = T)
    (hcL : cfg.L = r + 1) (haddr : cfg.addr ≠ 0) (ty : Nat) (seedOf : SlabID → Nat)
    (ops : List MOp) (hops : ∀ op ∈ ops, op.Ok T D)
    (henc : MEncAlong c cfg (newS c cfg.addr ty seedOf).1 ops)
    (sched : List (List C08.Maint)) (hlen : sched.length = ops.length) (final : List C08.Maint)
    (kind : CommitKind) (mo dlo : List SlabID) :
    let x := runSM c cfg (newS c cfg.addr ty seedOf) (sched.zip ops)
    let m := runM cfg (OMap.new (r := r) cfg.addr ty seedOf ⟨0, [], []⟩) ops
    let committed := (St.step c (final.foldl (C08.applyMaint c) x.2) (.commit kind [] mo dlo)).1
    (St.step c (final.foldl (C08.applyMaint c) x.2) (.commit kind [] mo dlo)).2 = .unit ∧
    ∀ id, id.addr = cfg.addr → committed.committed c id = mstored m.1 (AList.find? m.2.created) id := by
  intro x m committed
  obtain ⟨g0, _⟩ := mgoodF_new c hc T hT D cfg hcT hcL haddr ty seedOf
  have hmap := E2E.map_snd_zip sched ops hlen
  obtain ⟨g, hfst, hne⟩ := mgood_runSM c hc T hT D cfg (sched.zip ops) (newS c cfg.addr ty seedOf) g0
    (fun p hp => hops p.2 (by rw [← hmap]; exact List.mem_map_of_mem hp)) (by rw [hmap]; exact henc)
  rw [hmap] at hfst
  have hxm : x.1 = m := hfst
  obtain ⟨hrun, _, _, _, _, _, _, _, _, _, hroot, _⟩ :=
    map_rep_history c hc T hT D cfg hcT hcL haddr ty seedOf ops hops
  rw [hrun] at hroot
  obtain ⟨gf, hnf⟩ := mgood_foldl_applyMaint c hc T D cfg final x g hne
  have hfp : ∀ n, faultPlan [] n = false := fun n => by simp [faultPlan]
  obtain ⟨e1, e2, _⟩ := commitW_complete c hc kind (faultPlan []) hfp mo dlo _ gf.st hnf
  obtain ⟨i1, i2, _⟩ := commitW_spec c hc kind (faultPlan []) mo dlo _ gf.st
  have hcm : committed = (commitW c kind (faultPlan []) mo dlo (final.foldl (C08.applyMaint c) x.2)).st := by
    show (St.step c _ (.commit kind [] mo dlo)).1 = _
    rw [step_commit]
  refine ⟨by rw [step_commit, e1], ?_⟩
  intro id hid
  have haddr' : x.1.1.addr = cfg.addr := by
    show x.1.1.rootID.addr = cfg.addr
    rw [hxm]
    exact congrArg SlabID.addr hroot
  rw [hcm, i2.committed_eq_view i1 e2 id (E2E.isTemp_of_addr hid haddr), ← hxm]
  exact gf.rep.view id (by rw [haddr']; exact hid)

/-! ### the byte codec: no hypothesis on the codec -/

theorem runS_take_fst (c : Codec (MSSlab r) β) (cfg : MCfg) (x : (OMap r × Ctx) × St (MSSlab r) β)
    (ops : List MOp) : (runS c cfg x ops).1 = runM cfg x.1 ops := runS_fst c cfg ops x

/-- NO ENCODE FAILURE ALONG HISTORIES, byte codec `keyedCodecM D`: `MEncAlong` holds for every history
    of requests with encodable keys and values, given the field-width bounds `MWidths` at every point of
    the history. -/
theorem map_bytes_encAlong (T : Nat) (hT : legalThreshold T = true) (D : DigestFn (r + 1))
    (cfg : MCfg) (hcT : cfg.T = T) (hcL : cfg.L = r + 1) (haddr : cfg.addr ≠ 0) (ty : Nat) (hty : ty < 2 ^ 64)
    (seedOf : SlabID → Nat) (ops : List MOp) (hops : ∀ op ∈ ops, op.Ok T D) (henc : ∀ op ∈ ops, op.Enc)
    (hw : ∀ k, MWidths D (runB D cfg ty seedOf (ops.take k)).1) :
    MEncAlong (keyedCodecM D) cfg (newS (keyedCodecM D) cfg.addr ty seedOf).1 ops := by
  intro k id v hv
  have hk : ∀ op ∈ ops.take k, op.Ok T D := fun o ho => hops o (List.mem_of_mem_take ho)
  have hke : ∀ op ∈ ops.take k, op.Enc := fun o ho => henc o (List.mem_of_mem_take ho)
  obtain ⟨g, _⟩ := runB_good T hT D cfg hcT hcL haddr ty seedOf (ops.take k) hk
  obtain ⟨g0, _⟩ := mgoodF_new (keyedCodecM D) (keyedCodecM_roundTrip D) T hT D cfg hcT hcL haddr ty seedOf
  have he := mencSt_runS (keyedCodecM D) (keyedCodecM_roundTrip D) T hT D cfg (ops.take k) _ g0
    (mencSt_new (keyedCodecM D) cfg.addr ty seedOf hty) hk hke
  have hok := mencOk_of_goodF (keyedCodecM D) T D cfg _ g he (hw k)
  rw [← runS_take_fst (keyedCodecM D) cfg (newS (keyedCodecM D) cfg.addr ty seedOf) (ops.take k)] at hv
  exact keyedCodecM_enc_isSome D v
    (mstored_ok hT _ _ _ g.inv g.ids g.aok (keys_le_of_goodF (keyedCodecM D) T D cfg _ g) hok id v hv).1

/-- SCHEDULE INDEPENDENCE ALONG HISTORIES WITH THE BYTE CODEC (maps).  `map_history_under_schedules` and
    `map_ledger_under_schedules` for `keyedCodecM D`, with no hypothesis on the codec: after any history
    of requests with encodable keys and values under ANY maintenance schedule (commits of either kind,
    cache drops, commit-and-reopen before every request), the map model is the maintenance-free one, its
    dictionary follows the requests, the load through the storage (`DecodeSlab` on whatever the slabs
    are served from, keys re-hashed) returns exactly it, and after a final commit `DecodeSlab` on the
    registers of the owner gives exactly its stored slabs. -/
theorem map_bytes_history_under_schedules (T : Nat) (hT : legalThreshold T = true) (D : DigestFn (r + 1))
    (cfg : MCfg) (hcT : cfg.T = T) (hcL : cfg.L = r + 1) (haddr : cfg.addr ≠ 0) (ty : Nat) (hty : ty < 2 ^ 64)
    (seedOf : SlabID → Nat) (ops : List MOp) (hops : ∀ op ∈ ops, op.Ok T D) (henc : ∀ op ∈ ops, op.Enc)
    (hw : ∀ k, MWidths D (runB D cfg ty seedOf (ops.take k)).1)
    (sched : List (List C08.Maint)) (hlen : sched.length = ops.length) (final : List C08.Maint)
    (rsched : St (MSSlab r) (SlabID × Bytes) → SlabID → List (Op (MSSlab r))) (fuel : Nat)
    (kind : CommitKind) (mo dlo : List SlabID) :
    let x := runSM (keyedCodecM D) cfg (newS (keyedCodecM D) cfg.addr ty seedOf) (sched.zip ops)
    let m := runM cfg (OMap.new (r := r) cfg.addr ty seedOf ⟨0, [], []⟩) ops
    let committed :=
      (St.step (keyedCodecM D) (final.foldl (C08.applyMaint (keyedCodecM D)) x.2) (.commit kind [] mo dlo)).1
    x.1 = m ∧ DictRun T D (fun _ => none) ops (lookupR m) ∧
    (m.1.d < fuel →
      ∃ s', loadMapSt (fetchWith (keyedCodecM D) rsched)
        (final.foldl (C08.applyMaint (keyedCodecM D)) x.2) ⟨cfg.addr, 1⟩ fuel = .ok (some m.1, s')) ∧
    (∀ id, id.addr = cfg.addr →
      (AList.find? committed.base id).bind (fun p => decM D p.1 p.2)
        = mstored m.1 (AList.find? m.2.created) id) := by
  intro x m committed
  have hal := map_bytes_encAlong T hT D cfg hcT hcL haddr ty hty seedOf ops hops henc hw
  obtain ⟨h1, h2, _, h4⟩ := map_history_under_schedules (keyedCodecM D) (keyedCodecM_roundTrip D) T hT D cfg
    hcT hcL haddr ty seedOf ops hops hal sched hlen final rsched fuel
  obtain ⟨_, h5⟩ := map_ledger_under_schedules (keyedCodecM D) (keyedCodecM_roundTrip D) T hT D cfg
    hcT hcL haddr ty seedOf ops hops hal sched hlen final kind mo dlo
  refine ⟨h1, h2, fun hf => ?_, fun id hid => ?_⟩
  · obtain ⟨s', e1, _⟩ := h4 hf
    exact ⟨s', e1⟩
  · exact h5 id hid

/-! ### the storage-level theorems of C08 for the real map codec -/

/-- "VALUES RESTRICTED TO `OkM`": a storage history all of whose stored slabs meet the encoder's
    preconditions satisfies the hypothesis `C08.StoresEncodable` of `C08.schedule_independent_outcomes` /
    `C08.schedule_independent_ledger` for the byte codec `keyedCodecM D` (whose encoder is partial). -/
theorem keyedCodecM_storesEncodable (D : DigestFn (r + 1)) (ops : List (Op (MSSlab r)))
    (h : ∀ op ∈ ops, ∀ id v, op = .store id v → OkM D v) : C08.StoresEncodable (keyedCodecM D) ops := by
  intro op hop
  cases op with
  | store id v => exact keyedCodecM_enc_isSome D v (h _ hop id v rfl)
  | _ => trivial

/-- `C08.schedule_independent_outcomes` and `C08.schedule_independent_ledger` FOR THE BYTE CODEC OF MAPS:
    no hypothesis on the codec is left. -/
theorem map_bytes_schedule_independent (D : DigestFn (r + 1)) (ops : List (Op (MSSlab r)))
    (hok : ∀ op ∈ ops, ∀ id v, op = .store id v → OkM D v)
    (hcl : ∀ op ∈ ops, C08.clientOp op = true) (hnt : C08.NoTemp ops)
    (sched1 sched2 : List (List C08.Maint)) (h1 : sched1.length = ops.length) (h2 : sched2.length = ops.length) :
    let r1 := C08.runWith (keyedCodecM D) (St.init : St (MSSlab r) (SlabID × Bytes)) (ops.zip sched1)
    let r2 := C08.runWith (keyedCodecM D) (St.init : St (MSSlab r) (SlabID × Bytes)) (ops.zip sched2)
    r1.2 = r2.2 ∧ (∀ id, r1.1.view (keyedCodecM D) id = r2.1.view (keyedCodecM D) id) ∧
    ∀ id, AList.find? (r1.1.fastCommit (keyedCodecM D) (fun _ => false)).st.base id =
      AList.find? (r2.1.fastCommit (keyedCodecM D) (fun _ => false)).st.base id := by
  intro r1 r2
  have he := keyedCodecM_storesEncodable D ops hok
  obtain ⟨a1, a2⟩ := C08.schedule_independent_outcomes (keyedCodecM D) (keyedCodecM_roundTrip D) ops he hcl hnt
    sched1 sched2 h1 h2
  exact ⟨a1, a2, C08.schedule_independent_ledger (keyedCodecM D) (keyedCodecM_roundTrip D) ops he hcl hnt
    sched1 sched2 h1 h2⟩

/-! ### Non-vacuity

The history `mhistB` of `Props/E2EMapBytes.lean` (23 requests: index-slab root over two data slabs,
inline collision groups, an EXTERNAL collision group, a 300-byte value in a large-value slab, two
removals – one rejected –, `SetType`) with the byte codec, run under a maintenance schedule that
commits (both kinds), drops the cache or reopens from the ledger BEFORE EVERY request. -/
section NonVacuity
open MapExample

/-- the k-independent part of `MWidths` is `xB_widths.levels / .digests`; the rest is decidable -/
def W5 (st : OMap 1 × Ctx) : Prop :=
  st.1.addr < 2 ^ 64 ∧ st.2.ctr < 2 ^ 64 ∧ st.1.count < 2 ^ 64 ∧ st.1.seed < 2 ^ 64 ∧ GroupsFit st.1
instance (st : OMap 1 × Ctx) : Decidable (W5 st) := by unfold W5; infer_instance

set_option maxRecDepth 100000 in
theorem mhistB_w5 : ∀ k ∈ List.range 24, W5 (runB D2 cfg2 0 (fun id => id.idx) (mhistB.take k)).1 := by
  decide +kernel

/-- the field-width bounds hold at EVERY point of the history -/
theorem mhistB_widths : ∀ k, MWidths D2 (runB D2 cfg2 0 (fun id => id.idx) (mhistB.take k)).1 := by
  intro k
  by_cases hk : k < 24
  · obtain ⟨a, b, c, d, e⟩ := mhistB_w5 k (List.mem_range.2 hk)
    exact ⟨by decide, D2_digests, a, b, c, d, e⟩
  · have h23 : mhistB.take k = mhistB.take 23 := by
      rw [List.take_of_length_le (by simp [mhistB]; omega), List.take_of_length_le (by simp [mhistB])]
    rw [h23]
    obtain ⟨a, b, c, d, e⟩ := mhistB_w5 23 (by decide)
    exact ⟨by decide, D2_digests, a, b, c, d, e⟩

/-- maintenance before each of the 23 requests: cycles through five patterns -/
def mschedH : List (List C08.Maint) :=
  (List.range 23).map (fun i =>
    match i % 5 with
    | 0 => [.dropCache]
    | 1 => [.commit .det [] []]
    | 2 => [.commitAndReopen]
    | 3 => [.commit .nondet [⟨7, 3⟩] [], .dropCache]
    | _ => [])
def mfinalH : List C08.Maint := [.commit .nondet [⟨7, 4⟩] [], .commitAndReopen, .dropCache]

example : mschedH.length = mhistB.length := rfl

/-- `mgood_applyMaint` on the final state of the maintenance-free run (everything pending) -/
example := mgood_applyMaint (keyedCodecM D2) (keyedCodecM_roundTrip D2) 256 D2 cfg2 xB
  (runB_good 256 legal256 D2 cfg2 rfl rfl (by decide) 0 (fun id => id.idx) mhistB mhistB_ok).1
  (map_bytes_history_no_encode_failure 256 legal256 D2 cfg2 rfl rfl (by decide) 0 (by decide)
    (fun id => id.idx) mhistB mhistB_ok mhistB_enc xB_widths) .commitAndReopen

example := map_bytes_encAlong 256 legal256 D2 cfg2 rfl rfl (by decide) 0 (by decide)
  (fun id => id.idx) mhistB mhistB_ok mhistB_enc mhistB_widths
example := map_bytes_history_under_schedules 256 legal256 D2 cfg2 rfl rfl (by decide) 0 (by decide)
  (fun id => id.idx) mhistB mhistB_ok mhistB_enc mhistB_widths mschedH rfl mfinalH schedB 2 .det [] []

/-- the state after the history under the schedule -/
def xSM : (OMap 1 × Ctx) × St (MSSlab 1) (SlabID × Bytes) :=
  runSM (keyedCodecM D2) cfg2 (newS (keyedCodecM D2) cfg2.addr 0 (fun id => id.idx)) (mschedH.zip mhistB)

-- by evaluation: without maintenance nothing is in the ledger; under the schedule most slabs are in
-- the ledger and only the slabs touched since the last commit are pending; the map model is the same,
-- and the scheduled load from the maintained storage returns it
set_option maxRecDepth 100000 in
example : xB.2.base.length = 0 ∧ xSM.2.base.length = 5 ∧ xSM.2.deltas.length ≤ 2 := by decide +kernel
set_option maxRecDepth 100000 in
example : msummary xSM.1.1 = msummary xB.1.1 := by decide +kernel
set_option maxRecDepth 100000 in
example : msummaryRB (loadMapSt (fetchWith (keyedCodecM D2) schedB)
    (mfinalH.foldl (C08.applyMaint (keyedCodecM D2)) xSM.2) ⟨7, 1⟩ 2) = some (msummary xB.1.1) := by
  decide +kernel

/-- the storage-level theorems with the real map codec: the client history stores two real slabs of the
    map after `mhistB` (the root index slab `7.1` and the external collision group `7.2`), removes one
    and reads; the encoder is partial, yet `StoresEncodable` holds -/
def mslabOf (id : SlabID) : MSSlab 1 :=
  (mstored xB.1.1 (AList.find? xB.1.2.created) id).getD (.large (val 1))
def mcliH : List (Op (MSSlab 1)) :=
  [.genID 7, .store ⟨7, 1⟩ (mslabOf ⟨7, 1⟩), .store ⟨7, 2⟩ (mslabOf ⟨7, 2⟩), .remove ⟨7, 2⟩, .retrieve ⟨7, 1⟩]
theorem mcliH_ok : ∀ op ∈ mcliH, ∀ id v, op = .store id v → OkM D2 v := by
  intro op hop id v hv
  simp only [mcliH, List.mem_cons, List.not_mem_nil, or_false] at hop
  rcases hop with rfl | rfl | rfl | rfl | rfl <;> cases hv <;> decide
theorem mcliH_noTemp : C08.NoTemp mcliH := by
  intro op hop
  simp only [mcliH, List.mem_cons, List.not_mem_nil, or_false] at hop
  rcases hop with rfl | rfl | rfl | rfl | rfl <;> simp [SlabID.isTemp]
example := map_bytes_schedule_independent D2 mcliH mcliH_ok (by decide) mcliH_noTemp
  (List.replicate 5 []) [[], [.dropCache], [.commit .det [] []], [.commitAndReopen], [.commit .nondet [] [], .dropCache]]
  rfl rfl
example : ¬ (∀ v : MSSlab 1, ((keyedCodecM D2).enc v).isSome = true) := fun h => by
  have := h badKeySlab; revert this; decide

end NonVacuity

end Atree.E2EM
