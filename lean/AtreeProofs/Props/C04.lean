import AtreeModel.Commit
import AtreeModel.Gen.Facts
import AtreeProofs.StorageLemmas
import AtreeProofs.CommitLemmas
import AtreeProofs.StorageLemmas2
import AtreeProofs.PoolLemmas
import AtreeProofs.StorageExample2
/-
  C04 — Ledger state is a deterministic function of the operation history (the part that is
  logic).  Goroutine scheduling, Go map iteration order, sync.Pool reuse and process identity are
  exercised by the harness (multi-run byte comparison), not proved; see DESIGN.md.
-/
namespace Atree.C04
open Atree St

variable {σ β : Type} (c : Codec σ β)

def callID : BaseCall β → SlabID
  | .store id _ => id
  | .remove id => id

/-- `callID` is the helper of the same name in AtreeProofs/StorageLemmas2.lean. -/
theorem callID_eq : (callID : BaseCall β → SlabID) = Atree.callID := by
  funext x; cases x <;> rfl

/-- The deterministic commit issues its register writes and deletions in strictly ascending
    (owner, index) order — for every write set, with or without faults. -/
theorem fastcommit_order_sorted (s : St σ β) (h : Inv c s) (fault : Nat → Bool) :
    ((s.fastCommit c fault).log.map callID).Pairwise (fun a b => SlabID.lt a b = true) := by
  rw [callID_eq]
  exact (pairwise_sortedOwnedDeltaKeys s h.deltasNodup).sublist
    (fastCommit_log_prefix c fault s).sublist

/-- `SlabID.lt` is a strict total order on identifiers (so "ascending" determines the sequence). -/
theorem lt_strict_total (a b d : SlabID) :
    (SlabID.lt a a = false) ∧
    (SlabID.lt a b = true → SlabID.lt b d = true → SlabID.lt a d = true) ∧
    (a ≠ b → (SlabID.lt a b = true ∨ SlabID.lt b a = true)) := by
  exact ⟨SlabID.lt_irrefl a, SlabID.lt_trans, SlabID.lt_total⟩

/-- The result of the deterministic commit does not depend on the number of workers or on the
    goroutine schedule: for every worker count ≥ 1 and every schedule that lets the pool finish,
    the pool-explicit commit equals the sequential one (state, error, call log). -/
theorem fastcommit_schedule_invariant (s : St σ β) (h : Inv c s) (fault : Nat → Bool)
    (workers : Nat) (hw : 1 ≤ workers) (sched : List Nat)
    (hfin : Pool.finished (Pool.runSchedule (encodeJob c s)
              (Pool.initState (sortedOwnedDeltaKeys s) (min workers (sortedOwnedDeltaKeys s).length)) sched) = true) :
    let r := s.fastCommitPool c fault workers sched
    let r0 := s.fastCommit c fault
    r.st = r0.st ∧ r.err = r0.err ∧ r.log = r0.log := by
  intro r r0
  have _ := hw   -- (the worker count is clamped to the job count; `1 ≤ workers` is not needed)
  have : r = r0 := fastCommitPool_eq c fault s h.deltasNodup workers sched hfin
  rw [this]
  exact ⟨rfl, rfl, rfl⟩

/-- Finishing schedules exist for every worker count (the statement above is not vacuous). -/
theorem finishing_schedule_exists {ι ρ : Type} (f : ι → ρ) (jobs : List ι) (workers : Nat) (hw : 1 ≤ workers) :
    Pool.finished (Pool.runSchedule f (Pool.initState jobs workers) (Pool.roundRobin workers jobs.length)) = true := by
  exact Pool.roundRobin_finishes f jobs workers hw

/-- The order-relaxed commit may differ only in order: without faults it leaves the same ledger
    (as a function of the identifier) as the deterministic commit, for every enumeration order of
    the write set and every arrival order of the encoder results. -/
theorem nondet_commit_same_final_ledger (hc : RoundTrip c) (s : St σ β) (h : Inv c s) (hne : NoEncodeFailure c s)
    (mo dlo : List SlabID) :
    let r := s.nondetCommit c (fun _ => false) (normOrder s.modifiedOwned mo) (normOrder s.deletedOwned dlo)
    let r0 := s.fastCommit c (fun _ => false)
    r.err = none ∧ (∀ id, AList.find? r.st.base id = AList.find? r0.st.base id) ∧
    (r.log.map callID).Perm (r0.log.map callID) := by
  intro r r0
  have hr : r = commitW c .nondet (fun _ => false) mo dlo s := rfl
  have hr0 : r0 = commitW c .det (fun _ => false) [] [] s := rfl
  obtain ⟨f1, _, f3⟩ := commitW_complete c hc .nondet (fun _ => false) (fun _ => rfl) mo dlo s h hne
  obtain ⟨g1, _, g3⟩ := commitW_complete c hc .det (fun _ => false) (fun _ => rfl) [] [] s h hne
  rw [← hr] at f1 f3
  rw [← hr0] at g1 g3
  refine ⟨f1, fun id => by rw [f3 id, g3 id], ?_⟩
  -- both logs enumerate the owned pending identifiers exactly once
  have hr' : r = commitKeys c (fun _ => false) s
      (nondetKeys (normOrder s.modifiedOwned mo) (normOrder s.deletedOwned dlo)) :=
    nondetCommit_eq c _ s _ _
  have hr0' : r0 = commitKeys c (fun _ => false) s (sortedOwnedDeltaKeys s) := by
    show fastCommit c (fun _ => false) s = _
    unfold fastCommit
    simp [anyEncodeFails_false c s _ hne]
  rw [callID_eq]
  rw [hr'] at f1 ⊢
  rw [hr0'] at g1 ⊢
  rw [commitKeys_log_full c _ s _ f1, commitKeys_log_full c _ s _ g1]
  exact (ownedKeys_nondet s h.deltasNodup mo dlo).perm (ownedKeys_sorted s h.deltasNodup)

/-- The source-level premises (regenerated on every run): worker closures do not write storage
    state; pooled objects are reset before they are returned to their pool. -/
theorem source_premises :
    Gen.workerClosuresWriteFree = true ∧ Gen.workerClosureCount = 3 ∧ Gen.putResetsBeforePool = true := by
  exact ⟨rfl, rfl, rfl⟩

/-! ### Non-vacuity

`Example.poolSt` (AtreeProofs/StorageExample2.lean) is a reachable state with four owned pending
identifiers `1.1 ↦ 5`, `1.2` (deletion of a committed register), `1.5 ↦ 2`, `2.1 ↦ 4` and a pending
temporary slab `0.1`.  The theorems are instantiated on it and compared with evaluation. -/
section NonVacuity
open Atree.Example

example : RoundTrip natCodec ∧ Inv natCodec poolSt ∧ NoEncodeFailure natCodec poolSt :=
  ⟨roundTrip, poolInv, noEncodeFailure poolSt⟩

/-- The write set is stored in a different order than it is committed. -/
example : AList.keys poolSt.deltas = [⟨0, 1⟩, ⟨1, 1⟩, ⟨1, 2⟩, ⟨1, 5⟩, ⟨2, 1⟩] ∧
    (exSt.fastCommit natCodec (fun _ => false)).log.map callID = [⟨1, 1⟩, ⟨1, 2⟩] := by decide

/-- `fastcommit_order_sorted`: fault-free, and with the third call failing (a proper prefix). -/
example : (poolSt.fastCommit natCodec (fun _ => false)).log.map callRepr =
    [(⟨1, 1⟩, some 5), (⟨1, 2⟩, none), (⟨1, 5⟩, some 2), (⟨2, 1⟩, some 4)] := by decide
example : (poolSt.fastCommit natCodec (faultPlan [2])).log.map callID = [⟨1, 1⟩, ⟨1, 2⟩, ⟨1, 5⟩] ∧
    (poolSt.fastCommit natCodec (faultPlan [2])).err = some .external := by decide
example := fastcommit_order_sorted natCodec poolSt poolInv (faultPlan [2])

/-- `Pairwise lt` is a real constraint: the enumeration order of the write set violates it. -/
example : ¬ ([⟨1, 5⟩, ⟨1, 1⟩] : List SlabID).Pairwise (fun a b => SlabID.lt a b = true) := by decide

/-- `fastcommit_schedule_invariant`: 3 workers, an interleaved schedule that finishes; the encoder
    results arrive in the order `1.5, 1.1, 2.1, 1.2`, yet the commit is the sequential one. -/
example :
    let p := Pool.runSchedule (encodeJob natCodec poolSt)
      (Pool.initState (sortedOwnedDeltaKeys poolSt) (min 3 (sortedOwnedDeltaKeys poolSt).length)) poolSched
    Pool.finished p = true ∧
    p.results.map (·.1) = [⟨1, 5⟩, ⟨1, 1⟩, ⟨2, 1⟩, ⟨1, 2⟩] := by decide
example :
    let r := poolSt.fastCommitPool natCodec (fun _ => false) 3 poolSched
    let r0 := poolSt.fastCommit natCodec (fun _ => false)
    r.st.base = r0.st.base ∧ r.st.deltas = r0.st.deltas ∧ r.st.cache = r0.st.cache ∧
    r.err = r0.err ∧ r.log.map callRepr = r0.log.map callRepr ∧
    r0.st.base = [(⟨2, 1⟩, 4), (⟨1, 5⟩, 2), (⟨1, 1⟩, 5)] := by decide
example := fastcommit_schedule_invariant natCodec poolSt poolInv (faultPlan [1]) 3 (by decide) poolSched
  (by decide)

/-- A schedule that does not let the pool finish is excluded by the hypothesis (and really gives
    a different result: the collected map is incomplete). -/
example :
    Pool.finished (Pool.runSchedule (encodeJob natCodec poolSt)
      (Pool.initState (sortedOwnedDeltaKeys poolSt) 3) [0, 0]) = false ∧
    (poolSt.fastCommitPool natCodec (fun _ => false) 3 [0, 0]).log.map callRepr ≠
      (poolSt.fastCommit natCodec (fun _ => false)).log.map callRepr := by decide

/-- `finishing_schedule_exists` evaluated: 3 workers, 4 jobs. -/
example : Pool.finished (Pool.runSchedule (fun n : Nat => n + 1) (Pool.initState [10, 20, 30, 40] 3)
    (Pool.roundRobin 3 4)) = true := by decide

/-- `nondet_commit_same_final_ledger`: deletions first, then the modified keys in the order
    `2.1, 1.5, 1.1` — a different call order, the same ledger. -/
example :
    let r := poolSt.nondetCommit natCodec (fun _ => false)
      (normOrder poolSt.modifiedOwned [⟨2, 1⟩, ⟨1, 5⟩]) (normOrder poolSt.deletedOwned [])
    let r0 := poolSt.fastCommit natCodec (fun _ => false)
    r.log.map callID = [⟨1, 2⟩, ⟨2, 1⟩, ⟨1, 5⟩, ⟨1, 1⟩] ∧
    r0.log.map callID = [⟨1, 1⟩, ⟨1, 2⟩, ⟨1, 5⟩, ⟨2, 1⟩] ∧
    r.st.base = [(⟨1, 1⟩, 5), (⟨1, 5⟩, 2), (⟨2, 1⟩, 4)] ∧
    r0.st.base = [(⟨2, 1⟩, 4), (⟨1, 5⟩, 2), (⟨1, 1⟩, 5)] := by decide
example := nondet_commit_same_final_ledger natCodec roundTrip poolSt poolInv (noEncodeFailure poolSt)
  [⟨2, 1⟩, ⟨1, 5⟩] []

end NonVacuity

end Atree.C04
