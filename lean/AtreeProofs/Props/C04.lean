import AtreeModel.Commit
import AtreeModel.Gen.Facts
import AtreeProofs.StorageLemmas
import AtreeProofs.CommitLemmas
/-
  C04 — Ledger state is a deterministic function of the operation history (the part that is
  logic).  Goroutine scheduling, Go map iteration order, sync.Pool reuse and process identity are
  exercised by the harness (multi-run byte comparison), not proved; see DESIGN.md.
-/
namespace Atree.C04
open Atree St

variable {σ β : Type} (c : Codec σ β)

def callID : BaseCall β → SlabID
  | .store id _ => id
  | .remove id => id

/-- The deterministic commit issues its register writes and deletions in strictly ascending
    (owner, index) order — for every write set, with or without faults. -/
theorem fastcommit_order_sorted (s : St σ β) (h : Inv c s) (fault : Nat → Bool) :
    ((s.fastCommit c fault).log.map callID).Pairwise (fun a b => SlabID.lt a b = true) := by
  sorry

/-- `SlabID.lt` is a strict total order on identifiers (so "ascending" determines the sequence). -/
theorem lt_strict_total (a b d : SlabID) :
    (SlabID.lt a a = false) ∧
    (SlabID.lt a b = true → SlabID.lt b d = true → SlabID.lt a d = true) ∧
    (a ≠ b → (SlabID.lt a b = true ∨ SlabID.lt b a = true)) := by
  sorry

/-- The result of the deterministic commit does not depend on the number of workers or on the
    goroutine schedule: for every worker count ≥ 1 and every schedule that lets the pool finish,
    the pool-explicit commit equals the sequential one (state, error, call log). -/
theorem fastcommit_schedule_invariant (s : St σ β) (h : Inv c s) (fault : Nat → Bool)
    (workers : Nat) (hw : 1 ≤ workers) (sched : List Nat)
    (hfin : Pool.finished (Pool.runSchedule (encodeJob c s)
              (Pool.initState (sortedOwnedDeltaKeys s) (min workers (sortedOwnedDeltaKeys s).length)) sched) = true) :
    let r := s.fastCommitPool c fault workers sched
    let r0 := s.fastCommit c fault
    r.st = r0.st ∧ r.err = r0.err ∧ r.log = r0.log := by
  sorry

/-- Finishing schedules exist for every worker count (the statement above is not vacuous). -/
theorem finishing_schedule_exists {ι ρ : Type} (f : ι → ρ) (jobs : List ι) (workers : Nat) (hw : 1 ≤ workers) :
    Pool.finished (Pool.runSchedule f (Pool.initState jobs workers) (Pool.roundRobin workers jobs.length)) = true := by
  sorry

/-- The order-relaxed commit may differ only in order: without faults it leaves the same ledger
    (as a function of the identifier) as the deterministic commit, for every enumeration order of
    the write set and every arrival order of the encoder results. -/
theorem nondet_commit_same_final_ledger (hc : RoundTrip c) (s : St σ β) (h : Inv c s) (hne : NoEncodeFailure c s)
    (mo dlo : List SlabID) :
    let r := s.nondetCommit c (fun _ => false) (normOrder s.modifiedOwned mo) (normOrder s.deletedOwned dlo)
    let r0 := s.fastCommit c (fun _ => false)
    r.err = none ∧ (∀ id, AList.find? r.st.base id = AList.find? r0.st.base id) ∧
    (r.log.map callID).Perm (r0.log.map callID) := by
  sorry

/-- The source-level premises (regenerated on every run): worker closures do not write storage
    state; pooled objects are reset before they are returned to their pool. -/
theorem source_premises :
    Gen.workerClosuresWriteFree = true ∧ Gen.workerClosureCount = 3 ∧ Gen.putResetsBeforePool = true := by
  sorry

end Atree.C04
