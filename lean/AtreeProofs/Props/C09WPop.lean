import AtreeProofs.Props.C09W
import AtreeProofs.World.HeapPop
import AtreeProofs.World.HeapPop2
import AtreeProofs.Props.C10Get
/-
  C09 AT WORLD LEVEL, BULK POP AND DISPOSAL ("emptying a container releases every slab it used",
  under the property's premise that the caller disposes of every value it is handed).
  PROPERTY THEOREMS.

  `World.forget` / the `forgetElems` inside `arrPop` make no storage call: in Go the slabs of a value
  handed to the caller are removed BY THE CALLER.  `World.dropLog w1 w2` is that disposal: one
  `remove` for every slab in the heap of `w1` that is not in the heap of `w2`.

  * `forget_effects_complete`: disposing of any container `k` (and everything below it): the caller's
    removes are a complete account; `HeapOk` is kept.
  * `arrPopKeep_effects_complete` / `arrPop_effects_complete`: `Array.PopIterate` through the handle
    of a container at any depth.  The library's log splits as `E1 ++ E2` (emptying the array: every
    slab of its tree but the root is removed, the root rewritten — then the parent notification
    chain); the caller's disposal `Dsp` of the popped values happens in between (inside the
    `PopIterate` callback).  `E1 ++ Dsp ++ E2` is a complete account of the change of the heap;
    every slab the caller removes is indeed no longer in the heap, and every slab of a container
    that was dropped is among the caller's removes: nothing leaks.

  * `mapPopKeep_effects_complete` / `mapPop_effects_complete`: the same for `OrderedMap.PopIterate`
    (standalone: every data / index / external collision-group slab but the root is removed; inlined:
    the external group slabs are removed).  Uses `mtree_pop_log'` (`World/HeapMapPop.lean`): the map
    pop removes EXACTLY the slabs of the tree — below the first level there is no external group.
-/
namespace Atree.C09W
open Atree Gen World
open Atree.C09 (newEffects newCreated newEffects_of_log)

/-- disposal of a container and of everything below it -/
theorem forget_effects_complete (w : World) (ctr : Nat) (Hh : HeapOk w ctr) (k : SlabID) :
    WEffectsComplete w (forget w.fuelOf w k) (dropLog w (forget w.fuelOf w k)) [] ∧
    HeapOk (forget w.fuelOf w k) ctr ∧
    (∀ e ∈ dropLog w (forget w.fuelOf w k), ∃ id, e = Eff.remove id ∧ w.InHeap id ∧
      ¬ (forget w.fuelOf w k).InHeap id) := by
  obtain ⟨h1, h2⟩ := forget_heap Hh k
  refine ⟨h1.effectsComplete Hh h2, h2, ?_⟩
  intro e he
  obtain ⟨i, rfl⟩ := dropLog_removes _ _ e he
  exact ⟨i, rfl, (mem_dropLog _ _ i).1 he⟩

/-- `Array.PopIterate` through a handle, the caller keeping the popped containers `keep` -/
theorem arrPopKeep_effects_complete (D : SlabID → DigestFn 4) (w : World) (h : SlabID) (keep : List SlabID)
    (cx : Ctx) (es : List Elem) (w' : World) (cx' : Ctx) (H : WorldOk' D w cx.ctr) (Hh : HeapOk w cx.ctr)
    (hp : w.arrPopKeep h keep cx = .ok (es, w', cx')) :
    ∃ (a : Arr) (E1 E2 : List Eff), w.cont? h = some (.arr a) ∧ newEffects cx cx' = E1 ++ E2 ∧
      let w1 := (w.setCont h (.arr (a.popIterate cx).2.1)).setIdx h []
      let w2 := w1.forgetElems (disposed keep es)
      let Dsp := dropLog w1 w2
      WEffectsComplete w w' (E1 ++ Dsp ++ E2) (newCreated cx cx') ∧ HeapOk w' cx'.ctr ∧
      (∀ id, Eff.remove id ∈ Dsp → ¬ w'.InHeap id) ∧
      (∀ x c, w1.cont? x = some c → w2.cont? x = none → ∀ id ∈ c.heapIds, Eff.remove id ∈ Dsp) ∧
      (∀ el ∈ disposed keep es, ∀ v x, el.pay = .ref v → Reach w1 v x → w2.cont? x = none) := by
  obtain ⟨rank, H0⟩ := H
  obtain ⟨a, E1, E2, C, hc, hlog, hacct, hheap, g1, g2⟩ := arrPopKeep_heap (HInv.of_pk H0) Hh hp
  obtain ⟨_, k2, k3⟩ := newEffects_of_log hlog
  refine ⟨a, E1, E2, hc, k2, ?_⟩
  intro w1 w2 Dsp
  rw [k3]
  exact ⟨hacct.effectsComplete Hh hheap, hheap, g1, g2, fun el hel v x hpv hr => forgetElems_reach_none hel hpv hr⟩

/-- `Array.PopIterate` through a handle, everything popped being disposed of -/
theorem arrPop_effects_complete (D : SlabID → DigestFn 4) (w : World) (h : SlabID)
    (cx : Ctx) (es : List Elem) (w' : World) (cx' : Ctx) (H : WorldOk' D w cx.ctr) (Hh : HeapOk w cx.ctr)
    (hp : w.arrPop h cx = .ok (es, w', cx')) :
    ∃ (a : Arr) (E1 E2 : List Eff), w.cont? h = some (.arr a) ∧ newEffects cx cx' = E1 ++ E2 ∧
      let w1 := (w.setCont h (.arr (a.popIterate cx).2.1)).setIdx h []
      let w2 := w1.forgetElems (disposed [] es)
      let Dsp := dropLog w1 w2
      WEffectsComplete w w' (E1 ++ Dsp ++ E2) (newCreated cx cx') ∧ HeapOk w' cx'.ctr ∧
      (∀ id, Eff.remove id ∈ Dsp → ¬ w'.InHeap id) ∧
      (∀ x c, w1.cont? x = some c → w2.cont? x = none → ∀ id ∈ c.heapIds, Eff.remove id ∈ Dsp) ∧
      (∀ el ∈ disposed [] es, ∀ v x, el.pay = .ref v → Reach w1 v x → w2.cont? x = none) := by
  rw [← C10Get.arrPopKeep_nil] at hp
  exact arrPopKeep_effects_complete D w h [] cx es w' cx' H Hh hp


/-- `OrderedMap.PopIterate` through a handle, the caller keeping the popped containers `keep` -/
theorem mapPopKeep_effects_complete (D : SlabID → DigestFn 4) (w : World) (h : SlabID) (keep : List SlabID)
    (cx : Ctx) (kvs : List (MKey × Elem)) (w' : World) (cx' : Ctx) (H : WorldOk' D w cx.ctr) (Hh : HeapOk w cx.ctr)
    (hp : w.mapPopKeep h keep cx = .ok (kvs, w', cx')) :
    ∃ (m : OMap 3) (E1 E2 : List Eff), w.cont? h = some (.map m) ∧ newEffects cx cx' = E1 ++ E2 ∧
      let w1 := w.setCont h (.map (m.popIterate cx).2.1)
      let w2 := w1.forgetElems (disposed keep (kvs.map (·.2)))
      let Dsp := dropLog w1 w2
      WEffectsComplete w w' (E1 ++ Dsp ++ E2) (newCreated cx cx') ∧ HeapOk w' cx'.ctr ∧
      (∀ id, Eff.remove id ∈ Dsp → ¬ w'.InHeap id) ∧
      (∀ x c, w1.cont? x = some c → w2.cont? x = none → ∀ id ∈ c.heapIds, Eff.remove id ∈ Dsp) ∧
      (∀ el ∈ disposed keep (kvs.map (·.2)), ∀ v x, el.pay = .ref v → Reach w1 v x → w2.cont? x = none) := by
  obtain ⟨rank, H0⟩ := H
  obtain ⟨m, E1, E2, C, hc, hlog, hacct, hheap, g1, g2⟩ := mapPopKeep_heap (HInv.of_pk H0) Hh hp
  obtain ⟨_, k2, k3⟩ := newEffects_of_log hlog
  refine ⟨m, E1, E2, hc, k2, ?_⟩
  intro w1 w2 Dsp
  rw [k3]
  exact ⟨hacct.effectsComplete Hh hheap, hheap, g1, g2, fun el hel v x hpv hr => forgetElems_reach_none hel hpv hr⟩

/-- `OrderedMap.PopIterate` through a handle, everything popped being disposed of -/
theorem mapPop_effects_complete (D : SlabID → DigestFn 4) (w : World) (h : SlabID)
    (cx : Ctx) (kvs : List (MKey × Elem)) (w' : World) (cx' : Ctx) (H : WorldOk' D w cx.ctr) (Hh : HeapOk w cx.ctr)
    (hp : w.mapPop h cx = .ok (kvs, w', cx')) :
    ∃ (m : OMap 3) (E1 E2 : List Eff), w.cont? h = some (.map m) ∧ newEffects cx cx' = E1 ++ E2 ∧
      let w1 := w.setCont h (.map (m.popIterate cx).2.1)
      let w2 := w1.forgetElems (disposed [] (kvs.map (·.2)))
      let Dsp := dropLog w1 w2
      WEffectsComplete w w' (E1 ++ Dsp ++ E2) (newCreated cx cx') ∧ HeapOk w' cx'.ctr ∧
      (∀ id, Eff.remove id ∈ Dsp → ¬ w'.InHeap id) ∧
      (∀ x c, w1.cont? x = some c → w2.cont? x = none → ∀ id ∈ c.heapIds, Eff.remove id ∈ Dsp) ∧
      (∀ el ∈ disposed [] (kvs.map (·.2)), ∀ v x, el.pay = .ref v → Reach w1 v x → w2.cont? x = none) := by
  rw [← C10Get.mapPopKeep_nil] at hp
  exact mapPopKeep_effects_complete D w h [] cx kvs w' cx' H Hh hp

end Atree.C09W
