import AtreeProofs.Props.C10WAll
import AtreeProofs.Props.C10WPop
import AtreeProofs.Props.C11Slot
/-
  C11 — WHOLE-OPERATION theorems through a handle into a DETACHED container (audit a5, S4).
  PROPERTY THEOREMS.

  Setting: `k` is a detached root (`DetachedRoot w k`: live, referenced by nobody — a container
  removed from / overwritten in its parent, a popped child that was kept) and the operation goes
  through the current handle of `x`, where `x` is `k` itself OR ANY CONTAINER NESTED IN `k`, at any
  depth (`Anc w k x`).  For EVERY mutator — `Array.Insert` / `Set` / `Remove`, `OrderedMap.Set` /
  `Remove`, `SetType`, the bulk pops; values plain or child containers — the operation
  * keeps the global invariant and yields the list-level result in `x` (the operation theorems of
    C10: the detached container behaves as any standalone root),
  * leaves `k` a detached root,
  * and leaves EVERY container outside the subtree of `k` — the former parent, its ancestors, all
    unrelated containers — UNTOUCHED: same entry in the container table (content, element sizes,
    header size, inlined / standalone form), apart from the containers the operation moves (the
    stored child, the child handed back) and, for the pops, what is disposed of.
  No hypothesis about closures (`hself` of `C11.detached_mapSet_writes_only_self`) is needed: the
  statements follow from the strong frame `AncFrame` of `Props/C10WAll.lean` and the fact that in a
  valid world the containers a container below `k` is nested in all lie below `k`.
-/
namespace Atree.C11
open Atree Gen World

/-- In a valid world the reference structure is a forest: if `x` lies below the root `k`, every
    container `x` is nested in lies below `k` too. -/
theorem anc_below_root (D : SlabID → DigestFn 4) (w : World) (ctr : Nat) (H : WorldOk' D w ctr) (k x : SlabID)
    (hk : ∀ q, ¬ Holds w q k) (hkx : Anc w k x) (hx : (w.cont? x).isSome) : ∀ z, Anc w z x → Anc w k z := by
  obtain ⟨rank, H0⟩ := H
  intro z hz
  induction hz with
  | refl => exact hkx
  | @step p' x' _ hpx ih =>
    cases hkx with
    | refl => exact absurd hpx (hk p')
    | @step p'' _ hkp hpx' =>
      obtain ⟨pc', hpc', hm'⟩ := id hpx
      obtain ⟨pc'', hpc'', hm''⟩ := id hpx'
      obtain ⟨i, hi⟩ := List.mem_iff_getElem?.mp hm'
      obtain ⟨j, hj⟩ := List.mem_iff_getElem?.mp hm''
      have := (H0.unique p'' p' pc'' pc' j i x' hpc'' hpc' hj hi hx).1
      subst this
      exact ih hkp (by rw [hpc']; rfl)

/-- THE FRAME for an operation through a handle into the detached subtree of `k`: everything outside
    that subtree, other than the containers the operation moves, is untouched. -/
theorem detached_subtree_untouched (D : SlabID → DigestFn 4) (w w' : World) (ctr : Nat) (H : WorldOk' D w ctr)
    (k x : SlabID) (hk : DetachedRoot w k) (hkx : Anc w k x) (hx : (w.cont? x).isSome) (M : SlabID → Prop)
    (F : AncFrame w w' x M) : ∀ z, ¬ Anc w k z → ¬ M z → w'.cont? z = w.cont? z :=
  fun z hz hM => F.1 z (fun ha => hz (anc_below_root D w ctr H k x hk.2 hkx hx z ha)) hM

/-- what is reachable from a container below `k` lies below `k` -/
theorem anc_of_reach {w : World} {k v z : SlabID} (hkv : Anc w k v) (hr : Reach w v z) : Anc w k z := by
  induction hr with
  | refl _ => exact hkv
  | step hc he' hp _ ih => exact ih (Anc.step hkv ⟨_, hc, mem_pays_iff.mpr ⟨_, he', hp⟩⟩)

private theorem value_not_root {w : World} {k x : SlabID} {lim : Nat} {v : WVal} (hkx : Anc w k x)
    (hv : WValOk w x lim v) : ∀ wr, v ≠ .child k wr := by
  intro wr he
  subst he
  exact hv.2.2.1 hkx

private theorem live_of_handle_target {w : World} {x : SlabID} {a : Cont} (h : w.cont? x = some a) :
    (w.cont? x).isSome := by rw [h]; rfl

/-- `Array.Insert` (plain value or child container) through a handle into a detached subtree -/
theorem detached_arrInsert (D : SlabID → DigestFn 4) (w : World) (k x : SlabID) (i : Nat) (v : WVal) (cx : Ctx)
    (w' : World) (cx' : Ctx) (H : WorldOk' D w cx.ctr) (hk : DetachedRoot w k) (hkx : Anc w k x)
    (hh : HandleOk w x) (hv : WValOk w x (maxInlineArr w.T) v) (h : w.arrInsert x i v cx = .ok (w', cx')) :
    WorldOk' D w' cx'.ctr ∧ InsertedAt w w' x i v ∧ HandlesKept w w' ∧ DetachedRoot w' k ∧
      ∀ z, ¬ Anc w k z → ¬ Moved (some v) none z → w'.cont? z = w.cont? z := by
  obtain ⟨g1, _, g3, _, _, g6, g7⟩ := C10W.worldOk'_arrInsert_all D w x i v cx w' cx' H hh hv h
  obtain ⟨a, _, _, ha, _⟩ := id g3
  exact ⟨g1, g3, g6, detachedRoot_arrInsert D w x i v cx w' cx' k H hh hv h hk (value_not_root hkx hv),
    detached_subtree_untouched D w w' cx.ctr H k x hk hkx (live_of_handle_target ha) _ g7⟩

/-- `Array.Set` -/
theorem detached_arrSet (D : SlabID → DigestFn 4) (w : World) (k x : SlabID) (i : Nat) (v : WVal) (cx : Ctx)
    (old : Elem) (w' : World) (cx' : Ctx) (H : WorldOk' D w cx.ctr) (hk : DetachedRoot w k) (hkx : Anc w k x)
    (hh : HandleOk w x) (hv : WValOk w x (maxInlineArr w.T) v) (h : w.arrSet x i v cx = .ok (old, w', cx')) :
    WorldOk' D w' cx'.ctr ∧ SetAt w w' x i v old ∧ HandlesKept w w' ∧ DetachedRoot w' k ∧
      ∀ z, ¬ Anc w k z → ¬ Moved (some v) (some old) z → w'.cont? z = w.cont? z := by
  obtain ⟨g1, _, g3, _, _, g6, g7⟩ := C10W.worldOk'_arrSet_all D w x i v cx old w' cx' H hh hv h
  obtain ⟨a, _, _, _, ha, _⟩ := id g3
  exact ⟨g1, g3, g6, detachedRoot_arrSet D w x i v cx old w' cx' k H hh hv h hk (value_not_root hkx hv),
    detached_subtree_untouched D w w' cx.ctr H k x hk hkx (live_of_handle_target ha) _ g7⟩

/-- `Array.Remove` -/
theorem detached_arrRemove (D : SlabID → DigestFn 4) (w : World) (k x : SlabID) (i : Nat) (cx : Ctx)
    (old : Elem) (w' : World) (cx' : Ctx) (H : WorldOk' D w cx.ctr) (hk : DetachedRoot w k) (hkx : Anc w k x)
    (hh : HandleOk w x) (h : w.arrRemove x i cx = .ok (old, w', cx')) :
    WorldOk' D w' cx'.ctr ∧ RemovedAt w w' x i old ∧ HandlesKept w w' ∧ DetachedRoot w' k ∧
      ∀ z, ¬ Anc w k z → ¬ Moved none (some old) z → w'.cont? z = w.cont? z := by
  obtain ⟨g1, _, g3, _, _, g6, g7⟩ := C10W.worldOk'_arrRemove_all D w x i cx old w' cx' H hh h
  obtain ⟨a, _, _, ha, _⟩ := id g3
  exact ⟨g1, g3, g6, detachedRoot_arrRemove D w x i cx old w' cx' k H hh h hk,
    detached_subtree_untouched D w w' cx.ctr H k x hk hkx (live_of_handle_target ha) _ g7⟩

/-- `OrderedMap.Set` -/
theorem detached_mapSet (D : SlabID → DigestFn 4) (w : World) (k x : SlabID) (key : MKey) (v : WVal) (cx : Ctx)
    (old : Option Elem) (w' : World) (cx' : Ctx) (H : WorldOk' D w cx.ctr) (hk : DetachedRoot w k)
    (hkx : Anc w k x) (hh : HandleOk w x) (hkey : KeyOk w.T 4 (D x) key)
    (hv : WValOk w x (maxInlineMapValue w.T key.size) v) (h : w.mapSet x key v cx = .ok (old, w', cx')) :
    WorldOk' D w' cx'.ctr ∧ MapSetAt w w' x key v old ∧ HandlesKept w w' ∧ DetachedRoot w' k ∧
      ∀ z, ¬ Anc w k z → ¬ Moved (some v) old z → w'.cont? z = w.cont? z := by
  obtain ⟨g1, _, g3, _, _, g6, g7⟩ := C10W.worldOk'_mapSet_all D w x key v cx old w' cx' H hh hkey hv h
  obtain ⟨m, _, _, _, hm, _⟩ := id g3
  exact ⟨g1, g3, g6, detachedRoot_mapSet D w x key v cx old w' cx' k H hh hkey hv h hk (value_not_root hkx hv),
    detached_subtree_untouched D w w' cx.ctr H k x hk hkx (live_of_handle_target hm) _ g7⟩

/-- `OrderedMap.Remove` -/
theorem detached_mapRemove (D : SlabID → DigestFn 4) (w : World) (k x : SlabID) (key : MKey) (cx : Ctx)
    (rk : MKey) (rv : Elem) (w' : World) (cx' : Ctx) (H : WorldOk' D w cx.ctr) (hk : DetachedRoot w k)
    (hkx : Anc w k x) (hh : HandleOk w x) (hkey : KeyOk w.T 4 (D x) key)
    (h : w.mapRemove x key cx = .ok (rk, rv, w', cx')) :
    WorldOk' D w' cx'.ctr ∧ MapRemovedAt w w' x key rk rv ∧ HandlesKept w w' ∧ DetachedRoot w' k ∧
      ∀ z, ¬ Anc w k z → ¬ Moved none (some rv) z → w'.cont? z = w.cont? z := by
  obtain ⟨g1, _, g3, _, _, g6, g7⟩ := C10W.worldOk'_mapRemove_all D w x key cx rk rv w' cx' H hh hkey h
  obtain ⟨m, _, _, hm, _⟩ := id g3
  exact ⟨g1, g3, g6, detachedRoot_mapRemove D w x key cx rk rv w' cx' k H hh hkey h hk,
    detached_subtree_untouched D w w' cx.ctr H k x hk hkx (live_of_handle_target hm) _ g7⟩

/-- `SetType`: nothing but the containers from `x` up to `k` changes, and only in type info / form -/
theorem detached_setType (D : SlabID → DigestFn 4) (w : World) (k x : SlabID) (ty : Nat) (cx : Ctx)
    (w' : World) (cx' : Ctx) (H : WorldOk' D w cx.ctr) (hk : DetachedRoot w k) (hkx : Anc w k x)
    (hh : HandleOk w x) (h : w.setType x ty cx = .ok (w', cx')) :
    WorldOk' D w' cx'.ctr ∧ ContsSig w w' ∧ HandlesKept w w' ∧ DetachedRoot w' k ∧
      ∀ z, ¬ Anc w k z → w'.cont? z = w.cont? z := by
  obtain ⟨g1, _, ⟨c, _, hc, _⟩, _, g5, g6, g7⟩ := C10W.worldOk'_setType_all D w x ty cx w' cx' H hh h
  refine ⟨g1, g5, g6, detachedRoot_setType D w x ty cx w' cx' k H hh h hk, fun z hz => ?_⟩
  exact detached_subtree_untouched D w w' cx.ctr H k x hk hkx (live_of_handle_target hc) _ g7 z hz
    (by rintro (⟨wr, h⟩ | ⟨o, h, _⟩) <;> cases h)

/-- `Array.PopIterate` through a handle into a detached subtree (the caller keeping the popped
    containers `keep`): what lies outside the subtree of `k` is untouched. -/
theorem detached_arrPopKeep (D : SlabID → DigestFn 4) (w : World) (k x : SlabID) (keep : List SlabID) (cx : Ctx)
    (es : List Elem) (w' : World) (cx' : Ctx) (H : WorldOk' D w cx.ctr) (hk : DetachedRoot w k) (hkx : Anc w k x)
    (hh : HandleOk w x) (hpop : w.arrPopKeep x keep cx = .ok (es, w', cx')) :
    ∀ z, ¬ Anc w k z → w'.cont? z = w.cont? z := by
  obtain ⟨a, ha, F⟩ := C10W.arrPopKeep_strong_frame D w x keep cx es w' cx' H hh hpop
  intro z hz
  refine F z (fun h => hz (anc_below_root D w cx.ctr H k x hk.2 hkx (live_of_handle_target ha) z h)) ?_
  -- what is disposed of lies below `x`, hence below `k`
  intro e he v hv hr
  have hex : e ∈ (Cont.arr a).storedElems := (mem_disposed.mp he).1
  have hxv : Holds w x v := ⟨_, ha, mem_pays_iff.mpr ⟨e, hex, hv⟩⟩
  exact hz (anc_of_reach (Anc.step hkx hxv) hr)

/-- `OrderedMap.PopIterate` through a handle into a detached subtree -/
theorem detached_mapPopKeep (D : SlabID → DigestFn 4) (w : World) (k x : SlabID) (keep : List SlabID) (cx : Ctx)
    (kvs : List (MKey × Elem)) (w' : World) (cx' : Ctx) (H : WorldOk' D w cx.ctr) (hk : DetachedRoot w k)
    (hkx : Anc w k x) (hh : HandleOk w x) (hpop : w.mapPopKeep x keep cx = .ok (kvs, w', cx')) :
    ∀ z, ¬ Anc w k z → w'.cont? z = w.cont? z := by
  obtain ⟨m, hm, F⟩ := C10W.mapPopKeep_strong_frame D w x keep cx kvs w' cx' H hh hpop
  intro z hz
  refine F z (fun h => hz (anc_below_root D w cx.ctr H k x hk.2 hkx (live_of_handle_target hm) z h)) ?_
  intro e he v hv hr
  have hex : e ∈ (Cont.map m).storedElems := (mem_disposed.mp he).1
  have hxv : Holds w x v := ⟨_, hm, mem_pays_iff.mpr ⟨e, hex, hv⟩⟩
  exact hz (anc_of_reach (Anc.step hkx hxv) hr)

/-! ### the former parent

`f` held `k`; an operation through the handle of `f` detached `k` (removal, overwrite).  In the world
`w` after the detachment `k` is a detached root and `f` does NOT lie below `k`: so every `detached_*`
theorem above applies with `z := f` — whatever is done through handles into `k` afterwards leaves
the former parent's content, size bookkeeping and form exactly as they are. -/

/-- acyclicity: after an operation through the handle of `f` that changes no other container's
    references, the former holder `f` of `k` does not lie below `k` -/
theorem former_parent_not_below (D : SlabID → DigestFn 4) (w1 w : World) (ctr : Nat) (H1 : WorldOk' D w1 ctr)
    (f k : SlabID) (hfk : Holds w1 f k) (hk1 : (w1.cont? k).isSome) (hS : SigFrame w1 w f) : ¬ Anc w k f := by
  obtain ⟨rank1, R1⟩ := H1
  have hrfk := R1.rank f k hfk hk1
  have key : ∀ z, Anc w k z → z ≠ f ∧ ((w1.cont? z).isSome → z = k ∨ rank1 k < rank1 z) := by
    intro z hz
    induction hz with
    | refl => exact ⟨fun h => by rw [h] at hrfk; omega, fun _ => Or.inl rfl⟩
    | @step p z' _ hpz ih =>
      obtain ⟨hpf, hp⟩ := ih
      have hp1 : Holds w1 p z' := hS.holds_rev hpf hpz
      have hpl : (w1.cont? p).isSome := by obtain ⟨pc, hpc, _⟩ := hp1; rw [hpc]; rfl
      have hkp : rank1 k ≤ rank1 p := by
        rcases hp hpl with h | h
        · rw [h]; exact Nat.le_refl _
        · omega
      refine ⟨fun h => ?_, fun hl => Or.inr ?_⟩
      · subst h
        have := R1.rank p z' hp1 (by obtain ⟨pc, hpc, _⟩ := hfk; rw [hpc]; rfl)
        omega
      · have := R1.rank p z' hp1 hl
        omega
  exact fun ha => (key f ha).1 rfl

/-- detachment by `Array.Remove` -/
theorem detached_by_arrRemove (D : SlabID → DigestFn 4) (w1 : World) (f : SlabID) (i : Nat) (cx1 : Ctx) (old : Elem)
    (w : World) (cx : Ctx) (k : SlabID) (H1 : WorldOk' D w1 cx1.ctr) (hf : HandleOk w1 f)
    (hrem : w1.arrRemove f i cx1 = .ok (old, w, cx)) (hold : old.pay = .ref k) (hk1 : (w1.cont? k).isSome) :
    WorldOk' D w cx.ctr ∧ DetachedRoot w k ∧ HandleOk w k ∧ ¬ Anc w k f := by
  obtain ⟨g1, _, ⟨a, a', old0, ha, _, hold0, _, hpay, hb⟩, _, g5⟩ := C10W.worldOk'_arrRemove D w1 f i cx1 old w cx H1 hf hrem
  obtain ⟨c, hc⟩ := Option.isSome_iff_exists.mp hk1
  have hd := (hb.detached (by rw [← hpay]; exact hold) hc).1
  exact ⟨g1, hd, HandleOk.root k hd.2,
    former_parent_not_below D w1 w cx1.ctr H1 f k
      (holds_arr_of_mem ha (List.mem_of_getElem? hold0) (by rw [← hpay]; exact hold)) hk1 g5⟩

/-- detachment by `Array.Set` (overwrite by a plain value or by ANOTHER container) -/
theorem detached_by_arrSet (D : SlabID → DigestFn 4) (w1 : World) (f : SlabID) (i : Nat) (v : WVal) (cx1 : Ctx)
    (old : Elem) (w : World) (cx : Ctx) (k : SlabID) (H1 : WorldOk' D w1 cx1.ctr) (hf : HandleOk w1 f)
    (hv : WValOk w1 f (maxInlineArr w1.T) v) (hset : w1.arrSet f i v cx1 = .ok (old, w, cx))
    (hold : old.pay = .ref k) (hk1 : (w1.cont? k).isSome) :
    WorldOk' D w cx.ctr ∧ DetachedRoot w k ∧ HandleOk w k ∧ ¬ Anc w k f := by
  obtain ⟨g1, _, ⟨a, a', old0, e, ha, _, hold0, _, hpay, hb, _⟩, _, g5⟩ :=
    C10W.worldOk'_arrSet D w1 f i v cx1 old w cx H1 hf hv hset
  obtain ⟨c, hc⟩ := Option.isSome_iff_exists.mp hk1
  have hd := (hb.detached (by rw [← hpay]; exact hold) hc).1
  exact ⟨g1, hd, HandleOk.root k hd.2,
    former_parent_not_below D w1 w cx1.ctr H1 f k
      (holds_arr_of_mem ha (List.mem_of_getElem? hold0) (by rw [← hpay]; exact hold)) hk1 g5⟩

/-- detachment by `OrderedMap.Remove` -/
theorem detached_by_mapRemove (D : SlabID → DigestFn 4) (w1 : World) (f : SlabID) (key : MKey) (cx1 : Ctx)
    (rk : MKey) (rv : Elem) (w : World) (cx : Ctx) (k : SlabID) (H1 : WorldOk' D w1 cx1.ctr) (hf : HandleOk w1 f)
    (hkey : KeyOk w1.T 4 (D f) key) (hrem : w1.mapRemove f key cx1 = .ok (rk, rv, w, cx))
    (hold : rv.pay = .ref k) (hk1 : (w1.cont? k).isSome) :
    WorldOk' D w cx.ctr ∧ DetachedRoot w k ∧ HandleOk w k ∧ ¬ Anc w k f := by
  obtain ⟨g1, _, ⟨m, m', rv0, hm, _, _, ⟨A, B, hA, _⟩, hpay, hb⟩, _, g5⟩ :=
    C10W.worldOk'_mapRemove D w1 f key cx1 rk rv w cx H1 hf hkey hrem
  obtain ⟨c, hc⟩ := Option.isSome_iff_exists.mp hk1
  have hd := (hb.detached (by rw [← hpay]; exact hold) hc).1
  exact ⟨g1, hd, HandleOk.root k hd.2,
    former_parent_not_below D w1 w cx1.ctr H1 f k
      (holds_map_of_mem (k := key) (e := rv0) hm (by rw [hA]; simp) (by rw [← hpay]; exact hold)) hk1 g5⟩

/-- detachment by `OrderedMap.Set` (overwrite) -/
theorem detached_by_mapSet (D : SlabID → DigestFn 4) (w1 : World) (f : SlabID) (key : MKey) (v : WVal) (cx1 : Ctx)
    (o : Elem) (w : World) (cx : Ctx) (k : SlabID) (H1 : WorldOk' D w1 cx1.ctr) (hf : HandleOk w1 f)
    (hkey : KeyOk w1.T 4 (D f) key) (hv : WValOk w1 f (maxInlineMapValue w1.T key.size) v)
    (hset : w1.mapSet f key v cx1 = .ok (some o, w, cx)) (hold : o.pay = .ref k) (hk1 : (w1.cont? k).isSome) :
    WorldOk' D w cx.ctr ∧ DetachedRoot w k ∧ HandleOk w k ∧ ¬ Anc w k f := by
  obtain ⟨g1, _, ⟨m, m', e, oldo, hm, _, heff, h4, h5, _⟩, _, g5⟩ :=
    C10W.worldOk'_mapSet D w1 f key v cx1 (some o) w cx H1 hf hkey hv hset
  obtain ⟨c, hc⟩ := Option.isSome_iff_exists.mp hk1
  cases hoo : oldo with
  | none => have := h5 hoo; cases this
  | some o0 =>
    obtain ⟨o', ho', hpay, hb⟩ := h4 o0 hoo
    cases ho'
    have hd := (hb.detached (by rw [← hpay]; exact hold) hc).1
    have hmem : (key, o0) ∈ m.toList := by
      rcases heff with ⟨hn, _⟩ | ⟨v0, A, B, hs, hA, _⟩
      · rw [hoo] at hn; cases hn
      · rw [hoo] at hs; cases hs; rw [hA]; simp
    exact ⟨g1, hd, HandleOk.root k hd.2,
      former_parent_not_below D w1 w cx1.ctr H1 f k
        (holds_map_of_mem hm hmem (by rw [← hpay]; exact hold)) hk1 g5⟩

end Atree.C11
