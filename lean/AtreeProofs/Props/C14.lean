import AtreeModel.StorageOps
import AtreeProofs.StorageLemmas
import AtreeProofs.CommitLemmas
import AtreeProofs.StorageExample
/-
  C14 — A failed commit loses nothing and a retry converges to the fault-free result.
  PROPERTY THEOREMS (statements fixed; helpers in AtreeProofs/StorageLemmas.lean).
-/
namespace Atree.C14
open Atree St

variable {σ β : Type} (c : Codec σ β)

/-- The result of either commit function for given fault plan and orders. -/
def commitWith (kind : CommitKind) (fault : Nat → Bool) (mo dlo : List SlabID) (s : St σ β) : CommitRes σ β :=
  match kind with
  | .det => s.fastCommit c fault
  | .nondet => s.nondetCommit c fault (normOrder s.modifiedOwned mo) (normOrder s.deletedOwned dlo)

/-- `commitWith` is the helper `commitW` of AtreeProofs/CommitLemmas.lean. -/
theorem commitWith_eq (kind : CommitKind) (fault : Nat → Bool) (mo dlo : List SlabID) (s : St σ β) :
    commitWith c kind fault mo dlo s = commitW c kind fault mo dlo s := by
  cases kind <;> rfl

/-- If a write/deletion issued by the commit fails, the commit reports an (external) error. -/
theorem failed_commit_reports_error (kind : CommitKind) (fault : Nat → Bool) (mo dlo : List SlabID)
    (s : St σ β) (hne : NoEncodeFailure c s) :
    let r := commitWith c kind fault mo dlo s
    (∃ n, n < r.n ∧ fault n = true) → r.err = some .external := by
  intro r hf
  have hr : r = commitW c kind fault mo dlo s := commitWith_eq c kind fault mo dlo s
  rw [hr] at hf ⊢
  exact (commitW_err c kind fault mo dlo s hne).external_of_fault hf

/-- Reads through the storage continue to return the latest values, whatever fails. -/
theorem failed_commit_keeps_view (hc : RoundTrip c) (kind : CommitKind) (fault : Nat → Bool)
    (mo dlo : List SlabID) (s : St σ β) (h : Inv c s) :
    let r := commitWith c kind fault mo dlo s
    (∀ id, r.st.view c id = s.view c id) ∧ Inv c r.st := by
  intro r
  have hr : r = commitW c kind fault mo dlo s := commitWith_eq c kind fault mo dlo s
  rw [hr]
  obtain ⟨h1, h2, _⟩ := commitW_spec c hc kind fault mo dlo s h
  exact ⟨h2.view, h1⟩

/-- Every change not yet durably written stays pending: an identifier leaves the write set only
    when the ledger holds its latest value; everything else is still pending, unchanged. -/
theorem failed_commit_pending_is_unwritten (hc : RoundTrip c) (kind : CommitKind) (fault : Nat → Bool)
    (mo dlo : List SlabID) (s : St σ β) (h : Inv c s) :
    let r := commitWith c kind fault mo dlo s
    ∀ id, (AList.find? r.st.deltas id = AList.find? s.deltas id) ∨
          (AList.find? r.st.deltas id = none ∧ id.isTemp = false ∧ r.st.committed c id = s.view c id) := by
  intro r
  have hr : r = commitW c kind fault mo dlo s := commitWith_eq c kind fault mo dlo s
  rw [hr]
  obtain ⟨_, h2, _⟩ := commitW_spec c hc kind fault mo dlo s h
  exact h2.pending

/-- Retrying until a commit succeeds leaves the ledger identical to what one fault-free commit
    would have produced: for ANY sequence of failing attempts (each with its own commit kind, fault
    plan and orders), followed by a successful attempt of either kind. -/
theorem retry_converges (hc : RoundTrip c) (s : St σ β) (h : Inv c s) (hne : NoEncodeFailure c s)
    (attempts : List (CommitKind × List Nat × List SlabID × List SlabID))
    (kind : CommitKind) (mo dlo : List SlabID) :
    let s' := attempts.foldl (fun s a => (commitWith c a.1 (faultPlan a.2.1) a.2.2.1 a.2.2.2 s).st) s
    let final := commitWith c kind (fun _ => false) mo dlo s'
    let ref := s.fastCommit c (fun _ => false)
    final.err = none ∧ ∀ id, AList.find? final.st.base id = AList.find? ref.st.base id := by
  intro s' final ref
  -- every attempt preserves the invariant and the commit target
  obtain ⟨hI', hadv⟩ : Inv c s' ∧ Adv c s s' := by
    apply foldl_adv c _ _ attempts s h
    intro t a hIt
    rw [commitWith_eq]
    obtain ⟨h1, h2, _⟩ := commitW_spec c hc a.1 (faultPlan a.2.1) a.2.2.1 a.2.2.2 t hIt
    exact ⟨h1, h2⟩
  have hne' : NoEncodeFailure c s' := hadv.noEncodeFailure hne
  have hfinal : final = commitW c kind (fun _ => false) mo dlo s' := commitWith_eq c kind _ mo dlo s'
  have href : ref = commitW c .det (fun _ => false) [] [] s := rfl
  obtain ⟨f1, _, f3⟩ := commitW_complete c hc kind (fun _ => false) (fun _ => rfl) mo dlo s' hI' hne'
  obtain ⟨_, _, r3⟩ := commitW_complete c hc .det (fun _ => false) (fun _ => rfl) [] [] s h hne
  rw [hfinal, href]
  refine ⟨f1, fun id => ?_⟩
  rw [f3 id, r3 id, hadv.target id]

/-! ### Non-vacuity

The hypotheses (`RoundTrip`, `Inv`, `NoEncodeFailure`, a faulted base call) are satisfiable on the
concrete state `Example.exSt` (AtreeProofs/StorageExample.lean): pending store `1.1`, pending
deletion `1.2`, pending temporary slab `0.1`, cached `1.3`, committed `1.2`, `1.3`, `1.4`. -/
section NonVacuity
open Atree.Example

example : RoundTrip natCodec ∧ Inv natCodec exSt ∧ NoEncodeFailure natCodec exSt :=
  ⟨roundTrip, inv, noEncodeFailure exSt⟩

/-- The premise of `failed_commit_reports_error` holds when the second base call fails; the commit
    then has written `1.1` and left the deletion of `1.2` pending (both disjuncts of
    `failed_commit_pending_is_unwritten` occur). -/
example :
    let r := commitWith natCodec .det (faultPlan [1]) [] [] exSt
    (∃ n, n < r.n ∧ faultPlan [1] n = true) ∧ r.err = some .external ∧
    AList.find? r.st.deltas ⟨1, 1⟩ = none ∧ AList.find? r.st.base ⟨1, 1⟩ = some 5 ∧
    AList.find? r.st.deltas ⟨1, 2⟩ = some none ∧ AList.find? r.st.base ⟨1, 2⟩ = some 3 ∧
    r.st.view natCodec ⟨1, 2⟩ = none :=
  ⟨⟨1, by decide, by decide⟩, by decide, by decide, by decide, by decide, by decide, by decide⟩

/-- The same for the nondeterministic commit (one modified key, so it is written first). -/
example :
    let r := commitWith natCodec .nondet (faultPlan [1]) [] [] exSt
    (∃ n, n < r.n ∧ faultPlan [1] n = true) ∧ r.err = some .external :=
  ⟨⟨1, by decide, by decide⟩, by decide⟩

example : (commitWith natCodec .det (faultPlan [1]) [] [] exSt).err = some .external :=
  failed_commit_reports_error natCodec .det (faultPlan [1]) [] [] exSt (noEncodeFailure exSt)
    ⟨1, by decide, by decide⟩

/-- `retry_converges` with two attempts that really fail (the first after one write, the second at
    once), followed by a successful nondeterministic commit. -/
example :
    let attempts : List (CommitKind × List Nat × List SlabID × List SlabID) :=
      [(.det, [1], [], []), (.nondet, [0], [], [])]
    let s1 := (commitWith natCodec .det (faultPlan [1]) [] [] exSt).st
    (commitWith natCodec .det (faultPlan [1]) [] [] exSt).err = some .external ∧
    (commitWith natCodec .nondet (faultPlan [0]) [] [] s1).err = some .external ∧
    AList.find? (attempts.foldl
      (fun s a => (commitWith natCodec a.1 (faultPlan a.2.1) a.2.2.1 a.2.2.2 s).st) exSt).deltas ⟨1, 2⟩
      = some none := by decide

example :=
  retry_converges natCodec roundTrip exSt inv (noEncodeFailure exSt)
    [(.det, [1], [], []), (.nondet, [0], [], [])] .nondet [] []

end NonVacuity

end Atree.C14
