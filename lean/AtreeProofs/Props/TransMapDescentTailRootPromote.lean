import AtreeProofs.Props.TransMapDescentTailPromote
import AtreeProofs.Props.TransMapDescentInvR
/-
  MAP DESCENT, round 3 (WP13): the `promote` field of the ROOT tail `MRootTailR` (`TransMapDescentInvR.lean`) for
  `rs := rsOf T`, `QR := MQR T D` - a re-wrapping of `Ob_promote_heap`, `mtp_core`, `mtp_newRoot_zero / _succ`
  (Props/TransMapDescentTailPromote.lean) over the handle-level invariant.
-/
namespace Atree.TransEq
open Atree

section
variable {r : Nat} {T : Nat}

/-- **the `promote` field of `MRootTailR T (rsOf T) (MQR T D)`** (statement copied from the structure) -/
theorem MRootTailR_promote_rsOf (D : DigestFn (r + 1)) (hT : legalThreshold T = true) :
    ∀ (addr d : Nat) (xr : MMetaSlab (MTree r d)) (ty cnt seed : Nat) (h : MHdr) (s1 : MHSt r) (x0 : Option DX),
    xr.childHdrs = [h] → xr.childHdrs = xr.children.map (MTree.hdr d) →
    mds_RootPreR (MQR T D) addr s1 ⟨d + 1, xr, ty, cnt, seed⟩ x0 →
    ∃ s2, (rsOf T).promote (md_map ⟨d + 1, xr, ty, cnt, seed⟩ s1) h.id =
        (none, md_map (OMap.promoteIfSingleChild ⟨d + 1, xr, ty, cnt, seed⟩ s1.ctx).1 s2) ∧
      s2.ctx = (OMap.promoteIfSingleChild ⟨d + 1, xr, ty, cnt, seed⟩ s1.ctx).2 ∧ s2.popped = s1.popped ∧
      mds_RootPreR (MQR T D) addr s2 (OMap.promoteIfSingleChild ⟨d + 1, xr, ty, cnt, seed⟩ s1.ctx).1
        (some (md_extra (OMap.promoteIfSingleChild ⟨d + 1, xr, ty, cnt, seed⟩ s1.ctx).1)) ∧
      mds_Delta s1.heap s2.heap (md_ids (d + 1) xr)
        (md_ids _ (OMap.promoteIfSingleChild ⟨d + 1, xr, ty, cnt, seed⟩ s1.ctx).1.root) := by
  intro addr d xr ty cnt seed h s1 x0 hh hmap hpre
  obtain ⟨mh, mchs, mcs, mroot⟩ := xr
  simp only at hh hmap
  subst hh
  obtain ⟨child, hc, hhd⟩ : ∃ child, mcs = [child] ∧ MTree.hdr d child = h := by
    cases mcs with
    | nil => cases hmap
    | cons c cs =>
      cases cs with
      | nil => exact ⟨c, rfl, by simpa using hmap.symm⟩
      | cons c' cs' => simp at hmap
  subst hc
  have hmq : MQR T D (⟨d + 1, (⟨mh, [h], [child], mroot⟩ : MMetaSlab (MTree r d)), ty, cnt, seed⟩ : OMap r) := hpre.inv
  have hloose : MetaLoose T D d true (⟨mh, [h], [child], mroot⟩ : MMetaSlab (MTree r d)) := hmq.1.1
  have hci : MTreeInv T D d false child := hloose.2.2.2.2.1 child List.mem_cons_self
  have hca : (MTree.hdr d child).id.addr = mh.id.addr := hloose.2.2.2.2.2.1 child List.mem_cons_self
  have hdig : ∀ x ∈ MTree.digests0 d child, x < 2^64 := fun x hx => hmq.2.2.2 x (by
    show x ∈ [child].flatMap (MTree.digests0 d)
    simpa using hx)
  obtain ⟨hsz, hfit⟩ := mtp_child_facts hT d child hci hdig
  have hheldr : MHolds s1.heap (d + 1) (⟨mh, [h], [child], mroot⟩ : MMetaSlab (MTree r d)) x0 := hpre.held
  have hheldc : MHolds s1.heap d child none := hheldr.2 child List.mem_cons_self
  have hheap : s1.heap h.id = some (md_tree d child none) := by rw [← hhd]; exact hheldc.root
  have hrootSome : (s1.heap mh.id).isSome = true := by
    have : s1.heap mh.id = some _ := hheldr.1
    rw [this]; rfl
  have hidsx : md_ids (d + 1) (⟨mh, [h], [child], mroot⟩ : MMetaSlab (MTree r d)) = mh.id :: md_ids d child := by
    show mh.id :: [child].flatMap (md_ids d) = _
    simp
  have hnd : (mh.id :: md_ids d child).Nodup := hidsx ▸ hpre.nodup
  have haddr : ∀ id ∈ mh.id :: md_ids d child, id.addr = addr := fun id hin => hpre.addrOk id (hidsx ▸ hin)
  have ob := Ob_promote_heap T d (⟨mh, [h], [child], mroot⟩ : MMetaSlab (MTree r d)) ty cnt seed s1 h child rfl rfl
    hheap hsz hfit
  refine ⟨_, ob.1, ob.2, rfl, ?_⟩
  rw [hidsx]
  cases d with
  | zero =>
    have hdi : MDataInv T D false (child : MDataSlab r) := (mtreeInv_zero_iff T D false child).mp hci
    have hinl : (child : MDataSlab r).inlined = false := by
      cases hi : (child : MDataSlab r).inlined with
      | false => rfl
      | true => have := hdi.inl_root hi; cases this
    have core := mtp_core addr s1 0 child
      (MTree.setRoot 0 (MTree.setId 0 (({ (child : MDataSlab r) with hdr := { (child : MDataSlab r).hdr with
        size := (child : MDataSlab r).hdr.size - Gen.mapDataSlabPrefixSize + Gen.mapRootDataSlabPrefixSize } } :
        MDataSlab r) : MTree r 0) mh.id) true) mh.id h.id (some (ty, u64 cnt, seed)) rfl rfl (fun _ _ => trivial)
      (congrArg MHdr.id hhd) hheldc hrootSome hnd haddr hpre.ff
    have nr := mtp_newRoot_zero hT (child : MDataSlab r) mh.id hdi hdig
    exact ⟨⟨core.1, core.2.1, core.2.2.1, core.2.2.2.1, ⟨nr.1, hinl, nr.2.1, nr.2.2⟩⟩, core.2.2.2.2⟩
  | succ d =>
    have core := mtp_core addr s1 (d + 1) child
      (MTree.setRoot (d + 1) (MTree.setId (d + 1) child mh.id) true) mh.id h.id (some (ty, u64 cnt, seed)) rfl rfl
      (fun _ hk => hk) (congrArg MHdr.id hhd) hheldc hrootSome hnd haddr hpre.ff
    have nr := mtp_newRoot_succ hT d child mh.id hci hca hdig
    exact ⟨⟨core.1, core.2.1, core.2.2.1, core.2.2.2.1, ⟨nr.1, rfl, nr.2.1, nr.2.2⟩⟩, core.2.2.2.2⟩

/-- the field has exactly the type `MRootTailR` asks for -/
example (D : DigestFn (r + 1)) (hT : legalThreshold T = true)
    (hsplit : ∀ (addr : Nat) (m2 : OMap r) (s2 : MHSt r) (x0 : Option DX),
      mds_RootPreR (MQR T D) addr s2 m2 x0 → MTree.isFull T m2.d m2.root = true →
      match m2.splitRoot s2.ctx with
      | .ok (m3, c3) =>
        ∃ s3, (rsOf T).splitRoot (md_map m2 s2) = (none, md_map m3 s3) ∧ s3.ctx = c3 ∧ s3.popped = s2.popped ∧
          mds_RootPreR (MQR T D) addr s3 m3 (some (md_extra m3)) ∧
          mds_Delta s2.heap s3.heap (md_ids m2.d m2.root) (md_ids m3.d m3.root)
      | .error e => ∃ M', (rsOf T).splitRoot (md_map m2 s2) = (some e, M')) :
    MRootTailR T (rsOf T) (MQR T D) := ⟨MRootTailR_promote_rsOf D hT, hsplit⟩

end

end Atree.TransEq
