import AtreeProofs.Props.TransDescentRemove
import AtreeProofs.Props.TransDescentMor
import AtreeProofs.Props.TransDescentInsertFull
/-
  TRANSLATION EQUIVALENCE, the DESCENT (WP12): the tail hypothesis of the REMOVE descent (`RemTailHyp` / `RemPath` of
  Props/TransDescentRemove.lean: the generated `MergeOrRebalanceChildSlab` at an index slab whose routed child underflows)
  DISCHARGED from `Sl_MergeOrRebalanceChildSlab_heap` (Props/TransDescentMor.lean), and the hypothesis-free final
  theorems.

  1. `rem_rebal_facts`, `rem_merge_facts`: `LendToRight` / `BorrowFromRight` keep both identifiers and the union of the
     descendants; `Merge` keeps the left identifier, its descendants are the union (no hypotheses: by definition).
  2. `rem_rebal_kidsPost`, `rem_merge_kidsPost`: the heap after the three stores of a rebalance / the two stores and the
     `Remove` of a merge satisfies `RemKidsPost` (the stores hit the identifiers of the two slabs and of the parent only;
     these are not identifiers of descendants or of other children by `Nodup` of `IdsOk`).
  3. `rem_rebal_post`, `rem_merge_post` (the four repair actions with `rebalHeap` / `mergeHeap`), `rem_table_post` (every
     cell of the decision table, `morHeap`).
  4. `rem_morPreH`: the preconditions `MorPreH` of `Sl_MergeOrRebalanceChildSlab_heap` from `RemTailPre` (+ `hne`).
  5. `remTail_ok` (the tail at every depth), `RemTailHypNe` / `remTailHyp_all_partial` (= `RemTailHyp` with the extra
     precondition `d ≠ 0 → minThr T ≤ size child' + 14`), `remTailHyp_data` (`d = 0`: no extra precondition),
     `RemPath.of_inv` (the path form from `TreeInv`: nothing extra).
  6. `Sl_ArraySlab_Remove_heap_full`, `Sl_ArrayMetaDataSlab_Remove_heap_full`: NO hypothesis about the tail.
  7. non-vacuity: a removal that rebalances (left sibling lends) and one that merges.
  8. FINDING `remTailHyp_false`: `¬ RemTailHyp 256` (an index slab without children meets `RemTailPre`; Go's `Merge`
     panics on it).
  Core Lean only.
-/
set_option linter.unusedVariables false
namespace Atree.TransEq
open Atree Atree.Gen

/-! ## 1. what a rebalance / a merge does to identifiers and descendants (no hypotheses) -/

section facts
open MetaSlab ATree

theorem rem_rebal_facts (T : Nat) : ∀ (d : Nat) (l r : ATree d) (flag : Bool),
    (hdr d (rebalOp T d l r flag).1).id = (hdr d l).id ∧ (hdr d (rebalOp T d l r flag).2).id = (hdr d r).id ∧
    subIds d (rebalOp T d l r flag).1 ++ subIds d (rebalOp T d l r flag).2 = subIds d l ++ subIds d r ∧
    ∀ h : SlabID → Option GSlab, InsHoldsBelow h d l → InsHoldsBelow h d r →
      InsHoldsBelow h d (rebalOp T d l r flag).1 ∧ InsHoldsBelow h d (rebalOp T d l r flag).2
  | 0, l, r, flag => by
    cases flag
    · exact ⟨rfl, rfl, rfl, fun _ _ _ => ⟨trivial, trivial⟩⟩
    · exact ⟨rfl, rfl, rfl, fun _ _ _ => ⟨trivial, trivial⟩⟩
  | d + 1, l, r, flag => by
    refine forall_ofMeta ?_ l; intro l
    refine forall_ofMeta ?_ r; intro r
    cases flag
    · refine ⟨rfl, rfl, ?_, fun h hl hr => ⟨?_, ?_⟩⟩
      · show (l.children.take _).flatMap _ ++ (l.children.drop _ ++ r.children).flatMap _ = _
        rw [← List.flatMap_append, ← List.append_assoc, List.take_append_drop, List.flatMap_append]
        rfl
      · intro x hx
        exact hl x (List.mem_of_mem_take hx)
      · intro x hx
        rcases List.mem_append.1 hx with hx | hx
        · exact hl x (List.mem_of_mem_drop hx)
        · exact hr x hx
    · refine ⟨rfl, rfl, ?_, fun h hl hr => ⟨?_, ?_⟩⟩
      · show (l.children ++ r.children.take _).flatMap _ ++ (r.children.drop _).flatMap _ = _
        rw [← List.flatMap_append, List.append_assoc, List.take_append_drop, List.flatMap_append]
        rfl
      · intro x hx
        rcases List.mem_append.1 hx with hx | hx
        · exact hl x hx
        · exact hr x (List.mem_of_mem_take hx)
      · intro x hx
        exact hr x (List.mem_of_mem_drop hx)

theorem rem_merge_facts : ∀ (d : Nat) (l r : ATree d),
    (hdr d (ATree.merge d l r)).id = (hdr d l).id ∧
    subIds d (ATree.merge d l r) = subIds d l ++ subIds d r ∧
    ∀ h : SlabID → Option GSlab, InsHoldsBelow h d l → InsHoldsBelow h d r → InsHoldsBelow h d (ATree.merge d l r)
  | 0, l, r => ⟨rfl, rfl, fun _ _ _ => trivial⟩
  | d + 1, l, r => by
    refine forall_ofMeta ?_ l; intro l
    refine forall_ofMeta ?_ r; intro r
    refine ⟨rfl, ?_, fun h hl hr => ?_⟩
    · show (l.children ++ r.children).flatMap _ = _
      rw [List.flatMap_append]; rfl
    · intro x hx
      rcases List.mem_append.1 hx with hx | hx
      · exact hl x hx
      · exact hr x hx

end facts

/-! ## 2. the heap after `rebalanceChildren` / `mergeChildren`: `RemKidsPost` -/

section heap
open MetaSlab ATree
variable {d : Nat}

theorem rem_pair_nodup {α : Type} {r lid rid : α} {Pi L R Qi : List α}
    (h : (r :: (Pi ++ (lid :: L) ++ (rid :: R) ++ Qi)).Nodup) :
    lid ≠ r ∧ rid ≠ r ∧ lid ≠ rid ∧
    (∀ id, id ∈ Pi ∨ id ∈ L ∨ id ∈ R ∨ id ∈ Qi → id ≠ r ∧ id ≠ lid ∧ id ≠ rid) := by
  simp only [List.nodup_cons, List.nodup_append, List.mem_append, List.mem_cons] at h
  grind

/-- membership in the identifiers of an index slab with two adjacent children singled out -/
theorem rem_mem_ids_pair (m1 : MetaSlab (ATree d)) {P Q : List (ATree d)} {l r : ATree d}
    (hch : m1.children = P ++ l :: r :: Q) (id : SlabID) :
    id ∈ slabIds (d + 1) (ofMeta m1) ↔ id = m1.hdr.id ∨ id ∈ P.flatMap (slabIds d) ∨ id = (hdr d l).id ∨
      id ∈ subIds d l ∨ id = (hdr d r).id ∨ id ∈ subIds d r ∨ id ∈ Q.flatMap (slabIds d) := by
  rw [slabIds_succ, hch]
  simp only [List.flatMap_append, List.flatMap_cons, slabIds_eq d l, slabIds_eq d r, List.mem_cons, List.mem_append]
  grind

theorem rem_mem_ids_one (m1 : MetaSlab (ATree d)) {P Q : List (ATree d)} {x : ATree d}
    (hch : m1.children = P ++ x :: Q) (id : SlabID) :
    id ∈ slabIds (d + 1) (ofMeta m1) ↔ id = m1.hdr.id ∨ id ∈ P.flatMap (slabIds d) ∨ id = (hdr d x).id ∨
      id ∈ subIds d x ∨ id ∈ Q.flatMap (slabIds d) := by
  rw [slabIds_succ, hch]
  simp only [List.flatMap_append, List.flatMap_cons, slabIds_eq d x, List.mem_cons, List.mem_append]
  grind

theorem rem_ids_pair (m1 : MetaSlab (ATree d)) {P Q : List (ATree d)} {l r : ATree d}
    (hch : m1.children = P ++ l :: r :: Q) :
    slabIds (d + 1) (ofMeta m1) = m1.hdr.id :: (P.flatMap (slabIds d) ++ ((hdr d l).id :: subIds d l) ++
      ((hdr d r).id :: subIds d r) ++ Q.flatMap (slabIds d)) := by
  rw [slabIds_succ, hch]
  simp only [List.flatMap_append, List.flatMap_cons, slabIds_eq d l, slabIds_eq d r, List.append_assoc]

/-- the heap after a rebalance of the adjacent children `l`, `r` (three stores: left, right, parent) -/
theorem rem_rebal_kidsPost {m1 m2 : MetaSlab (ATree d)} {P Q : List (ATree d)} {l r l' r' : ATree d}
    {h1 h2 : SlabID → Option GSlab} {X : Option GSlab}
    (hch : m1.children = P ++ l :: r :: Q) (hch2 : m2.children = P ++ l' :: r' :: Q) (hid2 : m2.hdr.id = m1.hdr.id)
    (hnd : (slabIds (d + 1) (ofMeta m1)).Nodup)
    (hlid : (hdr d l').id = (hdr d l).id) (hrid : (hdr d r').id = (hdr d r).id)
    (hsub : subIds d l' ++ subIds d r' = subIds d l ++ subIds d r)
    (hbl : InsHoldsBelow h1 d l → InsHoldsBelow h1 d r → InsHoldsBelow h1 d l' ∧ InsHoldsBelow h1 d r')
    (hh : HoldsChildren h1 m1)
    (hheap : ∀ id, h2 id = if id = m1.hdr.id then X
      else if id = (hdr d r').id then some (trTree d r')
      else if id = (hdr d l').id then some (trTree d l') else h1 id) :
    RemKidsPost h1 h2 m1 m2 := by
  rw [rem_ids_pair m1 hch] at hnd
  obtain ⟨n1, n2, n3, n4⟩ := rem_pair_nodup hnd
  have M1 := rem_mem_ids_pair m1 hch
  have M2 := rem_mem_ids_pair m2 hch2
  simp only [hid2, hlid, hrid] at M2
  have hsubm : ∀ id, (id ∈ subIds d l' ∨ id ∈ subIds d r') ↔ (id ∈ subIds d l ∨ id ∈ subIds d r) := by
    intro id; rw [← List.mem_append, ← List.mem_append, hsub]
  have keep : ∀ id, id ≠ m1.hdr.id → id ≠ (hdr d l).id → id ≠ (hdr d r).id → h2 id = h1 id := by
    intro id a b c
    rw [hheap, hlid, hrid]; simp [a, b, c]
  have keepS : ∀ id, id ∈ P.flatMap (slabIds d) ∨ id ∈ subIds d l ∨ id ∈ subIds d r ∨ id ∈ Q.flatMap (slabIds d) →
      h2 id = h1 id := fun id hid => keep id (n4 id hid).1 (n4 id hid).2.1 (n4 id hid).2.2
  have hlmem : l ∈ m1.children := by rw [hch]; simp
  have hrmem : r ∈ m1.children := by rw [hch]; simp
  obtain ⟨hbL, hbR⟩ := hbl (hh l hlmem).insBelow (hh r hrmem).insBelow
  have hl2 : h2 (hdr d l').id = some (trTree d l') := by
    rw [hheap, hrid, hlid]; simp [n1, n3]
  have hr2 : h2 (hdr d r').id = some (trTree d r') := by
    rw [hheap, hrid]; simp [n2]
  refine ⟨?_, ?_, ?_⟩
  · intro c hc
    rw [hch2] at hc
    simp only [List.mem_append, List.mem_cons] at hc
    rcases hc with hc | rfl | rfl | hc
    · refine (hh c (by rw [hch]; simp [hc])).congr (fun id hid => keepS id (Or.inl ?_))
      exact List.mem_flatMap.2 ⟨c, hc, hid⟩
    · refine ins_holds_of_root_below d c hl2 (hbL.congr (fun id hid => keepS id ?_))
      have := (hsubm id).1 (Or.inl hid)
      rcases this with h | h
      · exact Or.inr (Or.inl h)
      · exact Or.inr (Or.inr (Or.inl h))
    · refine ins_holds_of_root_below d c hr2 (hbR.congr (fun id hid => keepS id ?_))
      have := (hsubm id).1 (Or.inr hid)
      rcases this with h | h
      · exact Or.inr (Or.inl h)
      · exact Or.inr (Or.inr (Or.inl h))
    · refine (hh c (by rw [hch]; simp [hc])).congr (fun id hid => keepS id (Or.inr (Or.inr (Or.inr ?_))))
      exact List.mem_flatMap.2 ⟨c, hc, hid⟩
  · intro id a b
    have a' := (M1 id).1 a
    have b' : ¬ _ := fun x => b ((M2 id).2 x)
    have := hsubm id
    grind
  · intro id a b
    have a' : ¬ _ := fun x => a ((M1 id).2 x)
    exact keep id (fun e => a' (Or.inl e)) (fun e => a' (Or.inr (Or.inr (Or.inl e))))
      (fun e => a' (Or.inr (Or.inr (Or.inr (Or.inr (Or.inl e))))))

/-- the heap after a merge of the adjacent children `l`, `r` (store merged, store parent, remove right) -/
theorem rem_merge_kidsPost {m1 m2 : MetaSlab (ATree d)} {P Q : List (ATree d)} {l r mg : ATree d}
    {h1 h2 : SlabID → Option GSlab} {X : Option GSlab}
    (hch : m1.children = P ++ l :: r :: Q) (hch2 : m2.children = P ++ mg :: Q) (hid2 : m2.hdr.id = m1.hdr.id)
    (hnd : (slabIds (d + 1) (ofMeta m1)).Nodup)
    (hmid : (hdr d mg).id = (hdr d l).id) (hsub : subIds d mg = subIds d l ++ subIds d r)
    (hbl : InsHoldsBelow h1 d l → InsHoldsBelow h1 d r → InsHoldsBelow h1 d mg)
    (hh : HoldsChildren h1 m1)
    (hheap : ∀ id, h2 id = if id = (hdr d r).id then none
      else if id = m1.hdr.id then X
      else if id = (hdr d mg).id then some (trTree d mg) else h1 id) :
    RemKidsPost h1 h2 m1 m2 := by
  rw [rem_ids_pair m1 hch] at hnd
  obtain ⟨n1, n2, n3, n4⟩ := rem_pair_nodup hnd
  have M1 := rem_mem_ids_pair m1 hch
  have M2 := rem_mem_ids_one m2 hch2
  simp only [hid2, hmid, hsub, List.mem_append] at M2
  have keep : ∀ id, id ≠ m1.hdr.id → id ≠ (hdr d l).id → id ≠ (hdr d r).id → h2 id = h1 id := by
    intro id a b c
    rw [hheap, hmid]; simp [a, b, c]
  have keepS : ∀ id, id ∈ P.flatMap (slabIds d) ∨ id ∈ subIds d l ∨ id ∈ subIds d r ∨ id ∈ Q.flatMap (slabIds d) →
      h2 id = h1 id := fun id hid => keep id (n4 id hid).1 (n4 id hid).2.1 (n4 id hid).2.2
  have hlmem : l ∈ m1.children := by rw [hch]; simp
  have hrmem : r ∈ m1.children := by rw [hch]; simp
  have hbM := hbl (hh l hlmem).insBelow (hh r hrmem).insBelow
  have hm2 : h2 (hdr d mg).id = some (trTree d mg) := by
    rw [hheap, hmid]; simp [n1, n3]
  refine ⟨?_, ?_, ?_⟩
  · intro c hc
    rw [hch2] at hc
    simp only [List.mem_append, List.mem_cons] at hc
    rcases hc with hc | rfl | hc
    · refine (hh c (by rw [hch]; simp [hc])).congr (fun id hid => keepS id (Or.inl ?_))
      exact List.mem_flatMap.2 ⟨c, hc, hid⟩
    · refine ins_holds_of_root_below d c hm2 (hbM.congr (fun id hid => keepS id ?_))
      rw [hsub] at hid
      rcases List.mem_append.1 hid with h | h
      · exact Or.inr (Or.inl h)
      · exact Or.inr (Or.inr (Or.inl h))
    · refine (hh c (by rw [hch]; simp [hc])).congr (fun id hid => keepS id (Or.inr (Or.inr (Or.inr ?_))))
      exact List.mem_flatMap.2 ⟨c, hc, hid⟩
  · intro id a b
    have a' := (M1 id).1 a
    have b' : ¬ _ := fun x => b ((M2 id).2 x)
    have e : id = (hdr d r).id := by grind
    rw [hheap]; simp [e]
  · intro id a b
    have a' : ¬ _ := fun x => a ((M1 id).2 x)
    exact keep id (fun e => a' (Or.inl e)) (fun e => a' (Or.inr (Or.inr (Or.inl e))))
      (fun e => a' (Or.inr (Or.inr (Or.inr (Or.inr (Or.inl e))))))

end heap

/-! ## 3. the four repair actions on the parent, and the decision table -/

section actions
open MetaSlab ATree
variable {d : Nat}

theorem rem_rebal_children (T : Nat) (m1 : MetaSlab (ATree d)) (P Q : List (ATree d)) (x y : ATree d) (li : Nat)
    (flag : Bool) (c : Ctx) (hch : m1.children = P ++ x :: y :: Q) (hli : P.length = li) :
    (rebalanceChildren T m1 x y li (li + 1) flag c).1.children =
      P ++ (rebalOp T d x y flag).1 :: (rebalOp T d x y flag).2 :: Q ∧
    (rebalanceChildren T m1 x y li (li + 1) flag c).1.hdr = m1.hdr := by
  have hA1 : ∀ (a b : ATree d) (R : List (ATree d)), P ++ a :: b :: R = (P ++ [a]) ++ b :: R := by simp
  have hA1l : ∀ a : ATree d, (P ++ [a]).length = li + 1 := by simp [hli]
  have hp : (if flag = true then ATree.borrowFromRight T d x y else ATree.lendToRight T d x y) =
      ((rebalOp T d x y flag).1, (rebalOp T d x y flag).2) := rfl
  unfold rebalanceChildren
  simp only [hp]
  refine ⟨?_, (by first | rfl | trivial)⟩
  rw [hch, set_mid hli, hA1, set_mid (hA1l _)]
  simp

theorem rem_merge_children (m1 : MetaSlab (ATree d)) (P Q : List (ATree d)) (x y : ATree d) (li : Nat)
    (c : Ctx) (hch : m1.children = P ++ x :: y :: Q) (hli : P.length = li) :
    (mergeChildren m1 x y li (li + 1) c).1.children = P ++ ATree.merge d x y :: Q ∧
    (mergeChildren m1 x y li (li + 1) c).1.hdr.id = m1.hdr.id := by
  unfold mergeChildren
  refine ⟨?_, (by first | rfl | trivial)⟩
  simp only [hch, set_mid hli, eraseIdx_mid_succ hli]

theorem rem_rebal_post (T : Nat) (m1 : MetaSlab (ATree d)) (P Q : List (ATree d)) (x y : ATree d) (li : Nat)
    (flag : Bool) (s : HSt) (hch : m1.children = P ++ x :: y :: Q) (hli : P.length = li)
    (hnd : (slabIds (d + 1) (ofMeta m1)).Nodup) (hh : HoldsChildren s.heap m1) :
    RemKidsPost s.heap (rebalHeap T m1 x y li (li + 1) flag s).heap m1
      (rebalanceChildren T m1 x y li (li + 1) flag s.ctx).1 := by
  obtain ⟨e1, e2⟩ := rem_rebal_children T m1 P Q x y li flag s.ctx hch hli
  obtain ⟨f1, f2, f3, f4⟩ := rem_rebal_facts T d x y flag
  exact rem_rebal_kidsPost hch e1 (by rw [e2]) hnd f1 f2 f3 (f4 s.heap) hh
    (fun id => rebalHeap_heap T m1 x y li (li + 1) flag s id)

theorem rem_merge_post (m1 : MetaSlab (ATree d)) (P Q : List (ATree d)) (x y : ATree d) (li : Nat)
    (s : HSt) (hch : m1.children = P ++ x :: y :: Q) (hli : P.length = li)
    (hnd : (slabIds (d + 1) (ofMeta m1)).Nodup) (hh : HoldsChildren s.heap m1) :
    RemKidsPost s.heap (mergeHeap m1 x y li (li + 1) s).heap m1 (mergeChildren m1 x y li (li + 1) s.ctx).1 := by
  obtain ⟨e1, e2⟩ := rem_merge_children m1 P Q x y li s.ctx hch hli
  obtain ⟨f1, f2, f3⟩ := rem_merge_facts d x y
  exact rem_merge_kidsPost hch e1 e2 hnd f1 f2 (f3 s.heap) hh (fun id => mergeHeap_heap m1 x y li (li + 1) s id)

/-- the decision table: whatever cell is taken, the heap of that cell (`morHeap`) is right -/
theorem rem_table_post (T : Nat) (m : MetaSlab (ATree d)) (child : ATree d) (k u : Nat) (s : HSt)
    (lsib rsib : Option (ATree d))
    (hL : ∀ l, lsib = some l →
      RemKidsPost s.heap (rebalHeap T m l child (k - 1) k false s).heap m
        (m.rebalanceChildren T l child (k - 1) k false s.ctx).1 ∧
      RemKidsPost s.heap (mergeHeap m l child (k - 1) k s).heap m (m.mergeChildren l child (k - 1) k s.ctx).1)
    (hR : ∀ r, rsib = some r →
      RemKidsPost s.heap (rebalHeap T m child r k (k + 1) true s).heap m
        (m.rebalanceChildren T child r k (k + 1) true s.ctx).1 ∧
      RemKidsPost s.heap (mergeHeap m child r k (k + 1) s).heap m (m.mergeChildren child r k (k + 1) s.ctx).1) :
    match morTable T m child k u s.ctx lsib rsib with
    | .ok (m', _) => RemKidsPost s.heap (morHeap T m child k u s lsib rsib).heap m m'
    | .error _ => True := by
  cases lsib with
  | none =>
    cases rsib with
    | none => simp [morTable]
    | some r =>
      obtain ⟨r1, r2⟩ := hR r rfl
      simp only [morTable, morHeap, Bool.false_or]
      cases hc : ATree.canLendToLeft T d r u <;> simp only [Bool.false_eq_true, if_false, if_true]
      · exact r2
      · exact r1
  | some l =>
    obtain ⟨l1, l2⟩ := hL l rfl
    cases rsib with
    | none =>
      simp only [morTable, morHeap, Bool.or_false]
      cases hc : ATree.canLendToRight T d l u <;> simp only [Bool.false_eq_true, if_false, if_true]
      · exact l2
      · exact l1
    | some r =>
      obtain ⟨r1, r2⟩ := hR r rfl
      simp only [morTable, morHeap]
      rcases Bool.eq_false_or_eq_true (ATree.canLendToRight T d l u) with hcl | hcl <;>
        rcases Bool.eq_false_or_eq_true (ATree.canLendToLeft T d r u) with hcr | hcr <;>
        simp only [hcl, hcr, Bool.or_false, Bool.or_true, Bool.false_eq_true, if_false, if_true, Bool.not_false,
          Bool.not_true, Bool.or_self]
      · by_cases h : (ATree.hdr d l).size > (ATree.hdr d r).size <;> simp only [h, if_true, if_false]
        · exact l1
        · exact r1
      · exact l1
      · exact r1
      · by_cases h : (ATree.hdr d l).size < (ATree.hdr d r).size <;> simp only [h, if_true, if_false]
        · exact l2
        · exact r2

end actions

/-! ## 4. the preconditions of `Sl_MergeOrRebalanceChildSlab_heap` from `RemTailPre` -/

section pre
open MetaSlab ATree
variable {d : Nat}

theorem rem_left_sib {m1 : MetaSlab (ATree d)} {A B : List (ATree d)} {child' : ATree d}
    (hk : m1.children = A ++ child' :: B) (l : ATree d) (h : morLeftSib m1 A.length = some l) :
    ∃ A', A = A' ++ [l] := by
  by_cases h0 : A.length > 0
  · rw [morLeftSib, if_pos h0, hk] at h
    rcases List.eq_nil_or_concat A with hA | ⟨A', ls, hA⟩
    · subst hA; simp at h0
    · rw [List.concat_eq_append] at hA; subst hA
      have e : (A' ++ [ls] ++ child' :: B)[(A' ++ [ls]).length - 1]? = some ls := by
        have : A' ++ [ls] ++ child' :: B = A' ++ ls :: child' :: B := by simp
        rw [this]; exact getElem?_mid (by simp)
      rw [e] at h; cases h; exact ⟨A', rfl⟩
  · rw [morLeftSib, if_neg h0] at h; cases h

theorem rem_right_sib {m1 : MetaSlab (ATree d)} {A B : List (ATree d)} {child' : ATree d}
    (hk : m1.children = A ++ child' :: B) (r : ATree d) (h : morRightSib m1 A.length = some r) :
    ∃ B', B = r :: B' := by
  by_cases h1 : A.length + 1 < m1.childHdrs.length
  · rw [morRightSib, if_pos h1, hk, getElem?_mid_succ rfl] at h
    cases B with
    | nil => simp at h
    | cons b B' => simp at h; subst h; exact ⟨B', rfl⟩
  · rw [morRightSib, if_neg h1] at h; cases h

theorem rem_heap_at {m1 : MetaSlab (ATree d)} {h : SlabID → Option GSlab} (hb : Book m1) (hh : HoldsChildren h m1)
    (j : Nat) (hj : j < m1.childHdrs.length) :
    ∃ hd r, m1.childHdrs[j]? = some hd ∧ m1.children[j]? = some r ∧ h hd.id = some (trTree d r) := by
  have hl : j < m1.children.length := by
    have := congrArg List.length hb.hdrs_eq
    simp only [List.length_map] at this; omega
  refine ⟨hdr d m1.children[j], m1.children[j], ?_, List.getElem?_eq_getElem hl, (hh _ (List.getElem_mem hl)).root⟩
  rw [hb.hdrs_eq, List.getElem?_map, List.getElem?_eq_getElem hl]; rfl

/-- the bookkeeping facts `MorPre` needs, from `Book` -/
theorem rem_book_facts {m1 : MetaSlab (ATree d)} {A B : List (ATree d)} {child' : ATree d}
    (hb : Book m1) (hk : m1.children = A ++ child' :: B) :
    A.length < m1.childHdrs.length ∧ m1.countSum.length = m1.childHdrs.length ∧
    (hdr d child').count ≤ m1.countSum.getD A.length 0 ∧
    (∀ l, morLeftSib m1 A.length = some l → 0 < A.length ∧ (hdr d l).count ≤ m1.countSum.getD (A.length - 1) 0) ∧
    (∀ r, morRightSib m1 A.length = some r → A.length + 1 < m1.childHdrs.length) := by
  have hh : m1.childHdrs = A.map (hdr d) ++ hdr d child' :: B.map (hdr d) := by
    rw [hb.hdrs_eq, hk]; simp
  have hcs : m1.countSum = prefixSums (A.map (hdr d)) 0 ++
      (sumCounts (A.map (hdr d)) + (hdr d child').count) ::
        prefixSums (B.map (hdr d)) (sumCounts (A.map (hdr d)) + (hdr d child').count) := by
    rw [hb.sums_eq, hh, prefixSums_mid]
  have hkc : (prefixSums (A.map (hdr d)) 0).length = A.length := by simp [MetaSlab.prefixSums_length]
  refine ⟨by rw [hh]; simp, by rw [hb.sums_eq, MetaSlab.prefixSums_length], by rw [hcs, getD_mid hkc]; omega, ?_, ?_⟩
  · intro l hl
    obtain ⟨A', rfl⟩ := rem_left_sib hk l hl
    refine ⟨by simp, ?_⟩
    have hh' : m1.childHdrs = A'.map (hdr d) ++ hdr d l :: (hdr d child' :: B.map (hdr d)) := by
      rw [hh]; simp
    have hkc' : (prefixSums (A'.map (hdr d)) 0).length = (A' ++ [l]).length - 1 := by
      simp [MetaSlab.prefixSums_length]
    rw [hb.sums_eq, hh', prefixSums_mid, getD_mid hkc']; omega
  · intro r hr
    by_cases h1 : A.length + 1 < m1.childHdrs.length
    · exact h1
    · rw [morRightSib, if_neg h1] at hr; cases hr

theorem rem_dataWork_of_shape {T : Nat} (hT : legalThreshold T = true) {s : DataSlab} (hs : DShape T false s)
    (hu : s.hdr.size ≤ 2 * maxThr T) : DataWork T s :=
  ⟨hs.count_eq, hs.size_eq, fun e he => (hs.elems_ok e he).1, ⟨hs.root_eq, hs.not_inl⟩, hu⟩

/-- **the bundle `MorPreH` at the call of `MergeOrRebalanceChildSlab` in `Remove`**.  `hne`: an index-slab child is at
    most one header (14 bytes) below the minimum - NOT part of `RemTailPre` (its `lower` allows an index slab without
    children, on which Go's `Merge` panics); `remove_gen` gives it. -/
theorem rem_morPreH (T : Nat) (hT : legalThreshold T = true) : ∀ (d : Nat) (m1 : MetaSlab (ATree d))
    (A B : List (ATree d)) (child' : ATree d) (s1 : HSt) (addr : Nat), RemTailPre T m1 A B child' s1 addr →
    (d ≠ 0 → minThr T ≤ (hdr d child').size + 14) →
    MorPreH T m1 child' A.length (minThr T - (hdr d child').size) (morLeftSib m1 A.length) (morRightSib m1 A.length)
  | 0, m1, A, B, child', s1, addr, hpre, _ => by
    have F := thrFacts hT
    have ht := thresholds_fit hT
    obtain ⟨b1, b2, b3, b4, b5⟩ := rem_book_facts hpre.book hpre.kids
    have hkl : m1.children.length = A.length + 1 + B.length := by rw [hpre.kids]; simp; omega
    revert hpre b3 b4
    refine forall_ofData ?_ child'
    intro child' hpre b3 b4
    have hs : DShape T false child' := (shape_zero T false child').1 hpre.shape
    have hu : child'.hdr.size < minThr T := hpre.under
    refine MorPreH.of_MorPre (look := fun _ => none) (MorPre.of_data T _ m1 child' A.length _ _ _ hT ?_
      (rem_dataWork_of_shape hT hs (by rw [F.maxE]; rw [F.minE] at hu; omega)) ?_ ?_ b1 b2 ?_ (fun l h => (b4 l h).1) b5
      (fun _ _ => b3) (fun l h => (b4 l h).2))
    · have := F.minE; have := F.hi
      simp only [Gen.arraySlabHeaderSize]; omega
    · intro l hl
      obtain ⟨A', rfl⟩ := rem_left_sib hpre.kids l hl
      exact DataWork.of_inv ((treeInv_zero T false l).1
        (hpre.invA l (List.mem_append_right _ (List.mem_singleton.2 rfl))))
    · intro r hr
      obtain ⟨B', rfl⟩ := rem_right_sib hpre.kids r hr
      exact DataWork.of_inv ((treeInv_zero T false r).1 (hpre.invB r List.mem_cons_self))
    · rw [hpre.size, F.hsz]; omega
  | d + 1, m1, A, B, child', s1, addr, hpre, hne => by
    have F := thrFacts hT
    have ht := thresholds_fit hT
    obtain ⟨b1, b2, b3, b4, b5⟩ := rem_book_facts hpre.book hpre.kids
    have hkl : m1.children.length = A.length + 1 + B.length := by rw [hpre.kids]; simp; omega
    have hne := hne (Nat.succ_ne_zero d)
    revert hpre b3 b4 hne
    refine forall_ofMeta ?_ child'
    intro child' hpre b3 b4 hne
    have hs : MShape T d false child' := (shape_succ T d false child').1 hpre.shape
    have hu : child'.hdr.size < minThr T := hpre.under
    have hne : minThr T ≤ child'.hdr.size + 14 := hne
    have hsz := hs.kids_of_size
    have hlen := hs.hdrs_length
    have hcs : child'.countSum.length = child'.childHdrs.length := by rw [hs.sums_eq, MetaSlab.prefixSums_length]
    have sibOK : ∀ x : MetaSlab (ATree d), TreeInv T (d + 1) false (ofMeta x) → MetaSibOK child' x := by
      intro x hx
      obtain ⟨xs, xmax, xmin, _⟩ := (treeInv_succ T d false x).1 hx
      have xmin := xmin rfl
      have xsz := xs.kids_of_size
      have xlen := xs.hdrs_length
      have xcs : x.countSum.length = x.childHdrs.length := by rw [xs.sums_eq, MetaSlab.prefixSums_length]
      refine ⟨by omega, by simp only [Gen.arrayMetaDataSlabPrefixSize]; omega, xcs, ?_, by omega⟩
      intro e
      rw [e] at xcs
      simp only [List.length_nil] at xcs
      omega
    refine MorPreH.of_MorPre (look := fun _ => none) (MorPre.of_meta T _ m1 child' A.length _ _ _ ht.2.1 ?_ hcs ?_ ?_
      ?_ ?_ b1 b2 ?_ (fun l h => (b4 l h).1) b5 (fun _ _ => b3) (fun l h => (b4 l h).2))
    · have := F.minE; have := F.hi
      simp only [Gen.arraySlabHeaderSize]; omega
    · intro e
      rw [e] at hcs
      simp only [List.length_nil] at hcs
      omega
    · simp only [Gen.arrayMetaDataSlabPrefixSize]; omega
    · intro l hl
      obtain ⟨A', rfl⟩ := rem_left_sib hpre.kids l hl
      exact sibOK l (hpre.invA l (List.mem_append_right _ (List.mem_singleton.2 rfl)))
    · intro r hr
      obtain ⟨B', rfl⟩ := rem_right_sib hpre.kids r hr
      exact sibOK r (hpre.invB r List.mem_cons_self)
    · rw [hpre.size, F.hsz]; omega

end pre

/-! ## 5. the tail, discharged -/

section tail
open MetaSlab ATree

/-- **the tail of `Remove` agrees with the model** at every depth: under `RemTailPre` and `hne` (an index-slab child
    is at most one header below the minimum size), the generated `MergeOrRebalanceChildSlab` over the heap returns the
    model's index slab, the `Ctx` is the model's, the children of the new index slab are held, the right slab of a merge
    is gone, everything outside the tree is untouched. -/
theorem remTail_ok (T : Nat) (hT : legalThreshold T = true) (d : Nat) (m1 : MetaSlab (ATree d))
    (A B : List (ATree d)) (child' : ATree d) (s1 : HSt) (addr : Nat) (hpre : RemTailPre T m1 A B child' s1 addr)
    (hne : d ≠ 0 → minThr T ≤ (hdr d child').size + 14) :
    RemTailOk T m1 child' A.length (minThr T - (hdr d child').size) s1 := by
  have F := thrFacts hT
  have hkl : m1.children.length = A.length + 1 + B.length := by rw [hpre.kids]; simp; omega
  obtain ⟨b1, b2, b3, b4, b5⟩ := rem_book_facts hpre.book hpre.kids
  obtain ⟨m2, c2, hmr, _, _, _⟩ := mergeOrRebalance_spec hT m1 A B child' A.length s1.ctx addr hpre.book hpre.kids rfl
    hpre.invA hpre.invB hpre.shape hpre.under hpre.sib hpre.addr_eq (by rw [hpre.size, F.hsz]; omega)
  have hP := rem_morPreH T hT d m1 A B child' s1 addr hpre hne
  have hgo := Sl_MergeOrRebalanceChildSlab_heap T m1 child' A.length (minThr T - (hdr d child').size) s1 hP
    (fun h0 => rem_heap_at hpre.book hpre.holds (A.length - 1) (by omega))
    (fun h1 => rem_heap_at hpre.book hpre.holds (A.length + 1) h1)
  unfold RemTailOk
  rw [hmr] at hgo ⊢
  obtain ⟨⟨out, hgo⟩, hctx⟩ := hgo
  refine ⟨_, out, hgo, hctx, ?_⟩
  have ht := rem_table_post T m1 child' A.length (minThr T - (hdr d child').size) s1
    (morLeftSib m1 A.length) (morRightSib m1 A.length) ?_ ?_
  · rw [← mor_eq_table, hmr] at ht
    exact ht
  · intro l hl
    obtain ⟨A', rfl⟩ := rem_left_sib hpre.kids l hl
    have hch : m1.children = A' ++ l :: child' :: B := by rw [hpre.kids]; simp
    have e : (A' ++ [l]).length = A'.length + 1 := by simp
    rw [e, Nat.add_sub_cancel]
    exact ⟨rem_rebal_post T m1 A' B l child' A'.length false s1 hch rfl hpre.ids.1 hpre.holds,
      rem_merge_post m1 A' B l child' A'.length s1 hch rfl hpre.ids.1 hpre.holds⟩
  · intro r hr
    obtain ⟨B', rfl⟩ := rem_right_sib hpre.kids r hr
    exact ⟨rem_rebal_post T m1 A B' child' r A.length true s1 hpre.kids rfl hpre.ids.1 hpre.holds,
      rem_merge_post m1 A B' child' r A.length s1 hpre.kids rfl hpre.ids.1 hpre.holds⟩

/-- the global tail hypothesis `RemTailHyp` of Props/TransDescentRemove.lean WITH the extra precondition `hne`
    (see FINDING below: without it the statement is too strong for index-slab children). -/
def RemTailHypNe (T : Nat) : Prop :=
  ∀ (d : Nat) (m1 : MetaSlab (ATree d)) (A B : List (ATree d)) (child' : ATree d) (s1 : HSt) (addr : Nat),
    RemTailPre T m1 A B child' s1 addr → (d ≠ 0 → minThr T ≤ (hdr d child').size + 14) →
    RemTailOk T m1 child' A.length (minThr T - (hdr d child').size) s1

/-- `RemTailHyp` with the precondition `d ≠ 0 → minThr T ≤ size child' + 14` added -/
theorem remTailHyp_all_partial (T : Nat) (hT : legalThreshold T = true) : RemTailHypNe T :=
  fun d m1 A B child' s1 addr hpre hne => remTail_ok T hT d m1 A B child' s1 addr hpre hne

/-- `RemTailHyp` restricted to data-slab children (`d = 0`): exactly the statement of TransDescentRemove.lean -/
theorem remTailHyp_data (T : Nat) (hT : legalThreshold T = true) (m1 : MetaSlab (ATree 0)) (A B : List (ATree 0))
    (child' : ATree 0) (s1 : HSt) (addr : Nat) (hpre : RemTailPre T m1 A B child' s1 addr) :
    RemTailOk T m1 child' A.length (minThr T - (hdr 0 child').size) s1 :=
  remTail_ok T hT 0 m1 A B child' s1 addr hpre (fun h => absurd rfl h)

/-- a successful removal is in range -/
theorem rem_ok_lt {T : Nat} : ∀ (d : Nat) (t : ATree d) (i : Nat) (c : Ctx) r, TreeInv T d false t →
    ATree.remove T d t i c = .ok r → i < (flatten d t).length
  | 0, t, i, c, r => by
    refine forall_ofData ?_ t; intro s _ h
    have h : s.remove i c = .ok r := h
    unfold DataSlab.remove at h
    simp only [flatten_zero]
    rcases Nat.lt_or_ge i s.elems.length with hl | hl
    · exact hl
    · rw [List.getElem?_eq_none hl] at h; cases h
  | d + 1, t, i, c, r => by
    refine forall_ofMeta ?_ t; intro m hinv h
    rw [← hinv.shape_false.count_eq_length]
    rcases Nat.lt_or_ge i m.hdr.count with hl | hl
    · exact hl
    · rw [remove_succ_err m i c hl] at h; cases h

/-- **the tail hypothesis along the path holds on every valid tree**: `RemPath` (the form the descent theorems of
    TransDescentRemove.lean take) from `TreeInv`; the extra fact `hne` comes from `remove_gen` on the routed child. -/
theorem RemPath.of_inv {T : Nat} (hT : legalThreshold T = true) (addr : Nat) :
    ∀ (d : Nat) (t : ATree d) (top : Bool) (i : Nat) (c : Ctx), TreeInv T d top t → RemPath T addr d t i c
  | 0, _, _, _, _, _ => trivial
  | d + 1, t, top, i, c, hinv => by
    revert hinv
    refine forall_ofMeta ?_ t; intro m hinv
    intro k adj child v child' c1 h1 h2 h3
    obtain ⟨hs, _, _, _⟩ := (treeInv_succ T d top m).1 hinv
    have hc : TreeInv T d false child := hs.kids_inv child (List.mem_of_getElem? h2)
    refine ⟨RemPath.of_inv hT addr d child false adj c hc, ?_⟩
    intro hu A B s1 hk hpre
    subst hk
    have hlt := rem_ok_lt d child adj c _ hc h3
    obtain ⟨t', c', e, _, _, _, _, _, h14⟩ := remove_gen hT d child false adj c hc hc.notInl_of_false hlt
    rw [h3] at e
    simp only [Except.ok.injEq, Prod.mk.injEq] at e
    obtain ⟨_, rfl, _⟩ := e
    refine remTail_ok T hT d _ A B child' s1 addr hpre (fun hd => ?_)
    have := h14 hd
    have := hc.ge_min
    omega

end tail

/-! ## 6. the final theorems, without hypotheses about the tail -/

section final
open MetaSlab ATree

/-- **`ArraySlab.Remove` over a heap**, with no hypothesis about the tail (`Sl_ArraySlab_Remove_heap` of
    Props/TransDescentRemove.lean with `RemPath` discharged): on a heap that holds a valid tree, with a depth argument
    that covers the tree, the generated code returns what the model's `ATree.remove` returns - the removed element, the
    new tree (children that underflow are rebalanced with / merged into a sibling), the model's `Ctx` - and the heap
    holds the new tree, the slab that left the tree in a merge is gone, everything else is untouched.  Past the end:
    `IndexOutOfBoundsError`, nothing touched. -/
theorem Sl_ArraySlab_Remove_heap_full (T : Nat) (hT : legalThreshold T = true) (d : Nat) (t : ATree d) (top : Bool)
    (i : Nat) (s : HSt) (depth addr : Nat) (hd : d ≤ depth) (hinv : TreeInv T d top t) (hni : NotInl d t)
    (hids : IdsOk addr s.ctx.ctr (slabIds d t)) (hcnt : (hdr d t).count < 2^32) (hi : i < 2^64)
    (hh : Holds s.heap d t) :
    match ATree.remove T d t i s.ctx with
    | .ok (v, t', c') => ∃ s',
        TransSl.ArraySlab_Remove (envH T) (TransSl.ArrayMetaDataSlab_Remove (envH T) depth) (trTree d t) s (u64 i) =
          some (some v, none, trTree d t', s') ∧ s'.ctx = c' ∧ HeapPost s.heap s'.heap t t' ∧
        ∀ id ∈ slabIds d t', id ∈ slabIds d t
    | .error e => e = .indexOutOfBounds ∧
        TransSl.ArraySlab_Remove (envH T) (TransSl.ArrayMetaDataSlab_Remove (envH T) depth) (trTree d t) s (u64 i) =
          some (none, some .indexOutOfBounds, trTree d t, s) :=
  Sl_ArraySlab_Remove_heap T hT d t top i s depth addr hd hinv hni hids hcnt hi hh
    (RemPath.of_inv hT addr d t top i s.ctx hinv)

/-- **`ArrayMetaDataSlab.Remove` over a heap**, with no hypothesis about the tail -/
theorem Sl_ArrayMetaDataSlab_Remove_heap_full (T : Nat) (hT : legalThreshold T = true) (d : Nat)
    (m : MetaSlab (ATree d)) (top : Bool) (i : Nat) (s : HSt) (depth addr : Nat) (hd : d ≤ depth)
    (hinv : TreeInv T (d + 1) top (ofMeta m)) (hids : IdsOk addr s.ctx.ctr (slabIds (d + 1) (ofMeta m)))
    (hcnt : m.hdr.count < 2^32) (hi : i < 2^64) (hh : HoldsChildren s.heap m) :
    match ATree.remove T (d + 1) (ofMeta m) i s.ctx with
    | .ok (v, t', c') => ∃ s',
        TransSl.ArrayMetaDataSlab_Remove (envH T) (depth + 1) (trMeta m) s (u64 i) =
          some (some v, none, trMeta (t' : MetaSlab (ATree d)), s') ∧ s'.ctx = c' ∧
        @HeapPost s.heap s'.heap (d + 1) (d + 1) m t' ∧
        ∀ id ∈ slabIds (d + 1) t', id ∈ slabIds (d + 1) (ofMeta m)
    | .error e => e = .indexOutOfBounds ∧
        TransSl.ArrayMetaDataSlab_Remove (envH T) (depth + 1) (trMeta m) s (u64 i) =
          some (none, some .indexOutOfBounds, trMeta m, s) :=
  Sl_ArrayMetaDataSlab_Remove_heap T hT d m top i s depth addr hd hinv hids hcnt hi hh
    (RemPath.of_inv hT addr (d + 1) (ofMeta m) top i s.ctx hinv)

end final

/-! ## 7. non-vacuity: removals whose routed child DOES underflow (T = 256: min 128, max 384) -/

section examples
open MetaSlab ATree

/-- a leaf `(1,id)` of `n` elements of 60 bytes -/
def rfLeaf (id nx n : Nat) : DataSlab :=
  { hdr := ⟨⟨1, id⟩, 21 + 60 * n, n⟩, next := ⟨1, nx⟩,
    elems := (List.range n).map (fun j => ⟨60, .val (10 * id + j)⟩), root := false, inlined := false }

/-- a root index slab `(1,1)` over the given leaves -/
def rfRoot (kids : List DataSlab) : MetaSlab (ATree 0) :=
  { hdr := ⟨⟨1, 1⟩, 12 + 14 * kids.length, sumCounts (kids.map (·.hdr))⟩,
    childHdrs := kids.map (·.hdr), countSum := prefixSums (kids.map (·.hdr)) 0, children := kids, root := true }

theorem rfLeaf_inv (id nx n : Nat) (hsz : (rfLeaf id nx n).hdr.size = (rfLeaf id nx n).prefixSize + sumSizes (rfLeaf id nx n).elems)
    (h1 : 128 ≤ 21 + 60 * n) (h2 : 21 + 60 * n ≤ 384) : DataInv 256 false (rfLeaf id nx n) := by
  refine ⟨by simp [rfLeaf], hsz, ?_, rfl, by simp [rfLeaf], ?_, fun _ => ?_⟩
  · intro e he
    simp only [rfLeaf, List.mem_map] at he
    obtain ⟨a, _, rfl⟩ := he
    exact ⟨by show 1 ≤ 60; decide, by show 60 ≤ maxInlineArr 256; decide⟩
  · show 21 + 60 * n ≤ maxThr 256
    have : maxThr 256 = 384 := by decide
    omega
  · show minThr 256 ≤ 21 + 60 * n
    have : minThr 256 = 128 := by decide
    omega

/-- three leaves of 4, 2, 2 elements: removing index 4 leaves the middle leaf with one element (81 bytes), the left
    sibling (261 bytes) lends -/
def rfA : MetaSlab (ATree 0) := rfRoot [rfLeaf 2 3 4, rfLeaf 3 4 2, rfLeaf 4 0 2]
/-- two leaves of 2 elements: removing index 0 leaves the first leaf with one element, the sibling (141 bytes) cannot
    lend: merge -/
def rfC : MetaSlab (ATree 0) := rfRoot [rfLeaf 2 3 2, rfLeaf 3 0 2]

def rfSt (m : MetaSlab (ATree 0)) : HSt := ⟨heapOf 1 m, ⟨5, [], []⟩⟩

theorem rfA_kids (c : ATree 0) (hc : c ∈ rfA.children) : c = rfLeaf 2 3 4 ∨ c = rfLeaf 3 4 2 ∨ c = rfLeaf 4 0 2 := by
  have e : rfA.children = [rfLeaf 2 3 4, rfLeaf 3 4 2, rfLeaf 4 0 2] := rfl
  rw [e] at hc
  rcases List.mem_cons.mp hc with h | h
  · exact Or.inl h
  · rcases List.mem_cons.mp h with h | h
    · exact Or.inr (Or.inl h)
    · exact Or.inr (Or.inr (List.mem_singleton.mp h))

theorem rfC_kids (c : ATree 0) (hc : c ∈ rfC.children) : c = rfLeaf 2 3 2 ∨ c = rfLeaf 3 0 2 := by
  have e : rfC.children = [rfLeaf 2 3 2, rfLeaf 3 0 2] := rfl
  rw [e] at hc
  rcases List.mem_cons.mp hc with h | h
  · exact Or.inl h
  · exact Or.inr (List.mem_singleton.mp h)

theorem rfA_inv : TreeInv 256 (0 + 1) true (ofMeta rfA) := by
  refine (treeInv_succ 256 0 true rfA).2 ⟨⟨rfl, rfl, rfl, rfl, rfl, ?_, ?_⟩, by decide, fun h => (by cases h),
    fun _ => (by decide)⟩
  · intro c hc
    rcases rfA_kids c hc with rfl | rfl | rfl
    · exact rfLeaf_inv 2 3 4 rfl (by decide) (by decide)
    · exact rfLeaf_inv 3 4 2 rfl (by decide) (by decide)
    · exact rfLeaf_inv 4 0 2 rfl (by decide) (by decide)
  · intro c hc
    rcases rfA_kids c hc with rfl | rfl | rfl <;> rfl

theorem rfC_inv : TreeInv 256 (0 + 1) true (ofMeta rfC) := by
  refine (treeInv_succ 256 0 true rfC).2 ⟨⟨rfl, rfl, rfl, rfl, rfl, ?_, ?_⟩, by decide, fun h => (by cases h),
    fun _ => (by decide)⟩
  · intro c hc
    rcases rfC_kids c hc with rfl | rfl
    · exact rfLeaf_inv 2 3 2 rfl (by decide) (by decide)
    · exact rfLeaf_inv 3 0 2 rfl (by decide) (by decide)
  · intro c hc
    rcases rfC_kids c hc with rfl | rfl <;> rfl

theorem rfA_ids : IdsOk 1 (rfSt rfA).ctx.ctr (slabIds (0 + 1) (ofMeta rfA)) := by
  refine ⟨by decide, ?_⟩
  intro id hid
  have e : slabIds (0 + 1) (ofMeta rfA) = [⟨1, 1⟩, ⟨1, 2⟩, ⟨1, 3⟩, ⟨1, 4⟩] := rfl
  rw [e] at hid
  simp only [List.mem_cons, List.not_mem_nil, or_false] at hid
  rcases hid with rfl | rfl | rfl | rfl <;> decide

theorem rfC_ids : IdsOk 1 (rfSt rfC).ctx.ctr (slabIds (0 + 1) (ofMeta rfC)) := by
  refine ⟨by decide, ?_⟩
  intro id hid
  have e : slabIds (0 + 1) (ofMeta rfC) = [⟨1, 1⟩, ⟨1, 2⟩, ⟨1, 3⟩] := rfl
  rw [e] at hid
  simp only [List.mem_cons, List.not_mem_nil, or_false] at hid
  rcases hid with rfl | rfl | rfl <;> decide

/-- **REBALANCE** (the hypotheses of `Sl_ArrayMetaDataSlab_Remove_heap_full` are satisfiable where the routed child
    underflows): removing index 4 of `rfA`, the left sibling lends one element; the new index slab has the headers
    `(1,2): 201 bytes / 3`, `(1,3): 141 / 2`, `(1,4): 141 / 2`; effects: the child, then left, right, parent of the
    rebalance, then the parent again -/
example : ∃ v t' s', ATree.remove 256 1 (ofMeta rfA) 4 (rfSt rfA).ctx = .ok (v, t', s'.ctx) ∧
    TransSl.ArrayMetaDataSlab_Remove (envH 256) 1 (trMeta rfA) (rfSt rfA) (u64 4) =
      some (some v, none, trMeta (t' : MetaSlab (ATree 0)), s') ∧
    @HeapPost (rfSt rfA).heap s'.heap 1 1 rfA t' ∧
    (t' : MetaSlab (ATree 0)).childHdrs = [⟨⟨1, 2⟩, 201, 3⟩, ⟨⟨1, 3⟩, 141, 2⟩, ⟨⟨1, 4⟩, 141, 2⟩] ∧
    s'.ctx.eff = [.store ⟨1, 3⟩, .store ⟨1, 2⟩, .store ⟨1, 3⟩, .store ⟨1, 1⟩, .store ⟨1, 1⟩] := by
  have h := Sl_ArrayMetaDataSlab_Remove_heap_full 256 (by decide) 0 rfA true 4 (rfSt rfA) 0 1 (Nat.le_refl _) rfA_inv
    rfA_ids (by decide) (by decide) (Holds_heapOf 1 rfA rfA_ids.1).2
  have hev : (ATree.remove 256 1 (ofMeta rfA) 4 (rfSt rfA).ctx).toOption.map
      (fun r => ((r.2.1 : MetaSlab (ATree 0)).childHdrs, r.2.2.eff)) =
      some ([⟨⟨1, 2⟩, 201, 3⟩, ⟨⟨1, 3⟩, 141, 2⟩, ⟨⟨1, 4⟩, 141, 2⟩],
        [.store ⟨1, 3⟩, .store ⟨1, 2⟩, .store ⟨1, 3⟩, .store ⟨1, 1⟩, .store ⟨1, 1⟩]) := by rfl
  cases hr : ATree.remove 256 1 (ofMeta rfA) 4 (rfSt rfA).ctx with
  | error e => rw [hr] at hev; cases hev
  | ok res =>
    obtain ⟨v, t', c'⟩ := res
    rw [hr] at h hev
    obtain ⟨s', h1, h2, h3, _⟩ := h
    simp only [Except.toOption, Option.map_some, Option.some.injEq, Prod.mk.injEq] at hev
    subst h2
    exact ⟨v, t', s', rfl, h1, h3, hev.1, hev.2⟩

/-- **MERGE**: removing index 0 of `rfC`, the sibling cannot lend, the two leaves are merged into `(1,2)` (201 bytes,
    3 elements), `(1,3)` is removed from the heap -/
example : ∃ v t' s', ATree.remove 256 1 (ofMeta rfC) 0 (rfSt rfC).ctx = .ok (v, t', s'.ctx) ∧
    TransSl.ArrayMetaDataSlab_Remove (envH 256) 1 (trMeta rfC) (rfSt rfC) (u64 0) =
      some (some v, none, trMeta (t' : MetaSlab (ATree 0)), s') ∧
    @HeapPost (rfSt rfC).heap s'.heap 1 1 rfC t' ∧
    (t' : MetaSlab (ATree 0)).childHdrs = [⟨⟨1, 2⟩, 201, 3⟩] ∧ s'.heap ⟨1, 3⟩ = none ∧
    s'.ctx.eff = [.store ⟨1, 2⟩, .store ⟨1, 2⟩, .store ⟨1, 1⟩, .remove ⟨1, 3⟩, .store ⟨1, 1⟩] := by
  have h := Sl_ArrayMetaDataSlab_Remove_heap_full 256 (by decide) 0 rfC true 0 (rfSt rfC) 0 1 (Nat.le_refl _) rfC_inv
    rfC_ids (by decide) (by decide) (Holds_heapOf 1 rfC rfC_ids.1).2
  have hev : (ATree.remove 256 1 (ofMeta rfC) 0 (rfSt rfC).ctx).toOption.map
      (fun r => ((r.2.1 : MetaSlab (ATree 0)).childHdrs, slabIds 1 r.2.1, r.2.2.eff)) =
      some ([⟨⟨1, 2⟩, 201, 3⟩], [⟨1, 1⟩, ⟨1, 2⟩],
        [.store ⟨1, 2⟩, .store ⟨1, 2⟩, .store ⟨1, 1⟩, .remove ⟨1, 3⟩, .store ⟨1, 1⟩]) := by rfl
  cases hr : ATree.remove 256 1 (ofMeta rfC) 0 (rfSt rfC).ctx with
  | error e => rw [hr] at hev; cases hev
  | ok res =>
    obtain ⟨v, t', c'⟩ := res
    rw [hr] at h hev
    obtain ⟨s', h1, h2, h3, _⟩ := h
    simp only [Except.toOption, Option.map_some, Option.some.injEq, Prod.mk.injEq] at hev
    subst h2
    refine ⟨v, t', s', rfl, h1, h3, hev.1, ?_, hev.2.2⟩
    refine h3.gone ⟨1, 3⟩ (by decide) ?_
    rw [hev.2.1]; decide

end examples

/-! ## 8. FINDING: `RemTailHyp` as stated is too strong -/

section finding
open MetaSlab ATree
/-- an index slab without children -/
def rfEmpty : MetaSlab (ATree 0) :=
  { hdr := ⟨⟨1, 2⟩, 12, 0⟩, childHdrs := [], countSum := [], children := [], root := false }
def rfNine : List DataSlab := (List.range 9).map (fun j => rfLeaf (4 + j) (5 + j) 2)
/-- a valid index slab of 9 leaves (138 bytes): it cannot lend 116 bytes -/
def rfSib : MetaSlab (ATree 0) :=
  { hdr := ⟨⟨1, 3⟩, 12 + 14 * 9, 18⟩, childHdrs := rfNine.map (·.hdr), countSum := prefixSums (rfNine.map (·.hdr)) 0,
    children := rfNine, root := false }
def rfTop : MetaSlab (ATree 1) :=
  { hdr := ⟨⟨1, 1⟩, 40, 18⟩, childHdrs := [rfEmpty.hdr, rfSib.hdr], countSum := [0, 18],
    children := [rfEmpty, rfSib], root := true }
def rfTopSt : HSt := ⟨heapOf 2 rfTop, ⟨20, [], []⟩⟩

theorem rfSib_inv : TreeInv 256 (0 + 1) false (ofMeta rfSib) := by
  refine (treeInv_succ 256 0 false rfSib).2 ⟨⟨rfl, rfl, rfl, rfl, rfl, ?_, ?_⟩, by decide, fun _ => (by decide),
    fun h => (by cases h)⟩
  · intro c hc
    have hc : c ∈ (List.range 9).map (fun j => rfLeaf (4 + j) (5 + j) 2) := hc
    obtain ⟨j, _, rfl⟩ := List.mem_map.1 hc
    exact rfLeaf_inv _ _ 2 rfl (by decide) (by decide)
  · intro c hc
    have hc : c ∈ (List.range 9).map (fun j => rfLeaf (4 + j) (5 + j) 2) := hc
    obtain ⟨j, _, rfl⟩ := List.mem_map.1 hc
    rfl

set_option maxRecDepth 4000 in
theorem rfTop_ids : IdsOk 1 20 (slabIds (1 + 1) (ofMeta rfTop)) := by
  refine ⟨by decide, ?_⟩
  have e : slabIds (1 + 1) (ofMeta rfTop) = [⟨1, 1⟩, ⟨1, 2⟩, ⟨1, 3⟩, ⟨1, 4⟩, ⟨1, 5⟩, ⟨1, 6⟩, ⟨1, 7⟩, ⟨1, 8⟩, ⟨1, 9⟩,
    ⟨1, 10⟩, ⟨1, 11⟩, ⟨1, 12⟩] := by rfl
  rw [e]
  decide

theorem rfTop_pre : RemTailPre 256 rfTop [] [rfSib] rfEmpty rfTopSt 1 where
  book := ⟨rfl, rfl⟩
  kids := rfl
  invA := fun t ht => by cases ht
  invB := fun t ht => by
    rcases List.mem_singleton.1 ht with rfl
    exact rfSib_inv
  shape := (shape_succ 256 0 false rfEmpty).2 ⟨rfl, rfl, rfl, rfl, rfl, fun c hc => (by cases hc), fun c hc => (by cases hc)⟩
  under := by decide
  lower := by decide
  sib := by decide
  addr_eq := fun t ht => by
    have e : rfTop.children = [rfEmpty, rfSib] := rfl
    rw [e] at ht
    rcases List.mem_cons.mp ht with h | h
    · rw [h]; rfl
    · rw [List.mem_singleton.mp h]; rfl
  size := rfl
  count := by decide
  count_lt := by decide
  holds := (Holds_heapOf 2 rfTop rfTop_ids.1).2
  ids := rfTop_ids

set_option maxRecDepth 8000 in
theorem rfTop_go : TransSl.ArrayMetaDataSlab_MergeOrRebalanceChildSlab (envH 256) (trMeta rfTop) rfTopSt
    (some (trTree 1 rfEmpty)) (Int.ofNat 0) (u32 116) = none := by rfl

/-- **FINDING: the global tail hypothesis `RemTailHyp T` of Props/TransDescentRemove.lean is FALSE** (T = 256, children
    of depth 1).  `RemTailPre` bounds the child from below only by `lower : minThr T ≤ size + maxInlineArr T`, the bound
    of a DATA slab that lost one element; for an INDEX slab this allows 12 bytes, i.e. an index slab WITHOUT children
    (`rfEmpty`).  With a right sibling that cannot lend (`rfSib`: 9 leaves, 138 bytes) the model merges the two, while
    Go's `ArrayMetaDataSlab.Merge` reads `a.childrenCountSum[len(a.childrenCountSum)-1]` of the empty left slab and
    panics (`rfTop_go`: the generated function returns `none`).  No valid tree reaches that state: `Remove` on a
    valid index-slab child shrinks it by at most one header (`remove_gen`: `size child ≤ size child' + 14`), which is
    the extra precondition `hne` of `remTail_ok` / `RemTailHypNe`; `RemPath.of_inv` supplies it, so the final theorems
    need nothing.  `remMeta_of_disp` has the fact at hand (the last component of `remove_gen`, which it discards). -/
theorem remTailHyp_false : ¬ RemTailHyp 256 := by
  intro h
  have h1 := h 1 rfTop [] [rfSib] rfEmpty rfTopSt 1 rfTop_pre
  obtain ⟨m2, c2, hmr, _⟩ := mergeOrRebalance_spec (T := 256) (by decide) rfTop [] [rfSib] rfEmpty 0 rfTopSt.ctx 1
    rfTop_pre.book rfTop_pre.kids rfl rfTop_pre.invA rfTop_pre.invB rfTop_pre.shape rfTop_pre.under rfTop_pre.sib
    rfTop_pre.addr_eq (by decide)
  unfold RemTailOk at h1
  have e : minThr 256 - (hdr 1 rfEmpty).size = 116 := by decide
  simp only [List.length_nil] at h1
  rw [e] at h1 hmr
  rw [hmr] at h1
  obtain ⟨s2, out, hgo, _⟩ := h1
  rw [rfTop_go] at hgo
  cases hgo
end finding

end Atree.TransEq
