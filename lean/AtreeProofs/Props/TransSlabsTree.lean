import AtreeProofs.Trans.Slabs
/-
  The restructuring of an index slab and the root changes of `Array`, regenerated from array_metadata_slab.go /
  array.go (`Gen/TransSlabs.lean`: `ArrayMetaDataSlab_SplitChildSlab`, `_rebalanceChildren`, `_mergeChildren`,
  `_MergeOrRebalanceChildSlab`, `Array_splitRoot`, `Array_promoteChildAsNewRoot`) against the model
  (`AtreeModel/Array/Tree.lean`).

  The child slabs are reached through DYNAMIC DISPATCH (`TransSl.ArraySlab_Split`, `_Merge`, `_LendToRight`,
  `_BorrowFromRight`, ..).  The theorems here take the agreement of the dispatched child operation with the model as
  a hypothesis (`hsplit`, `hop`, ..: "the generated operation on the translation of the child is the translation of the
  model's result"); `Props/TransSlabsGlue.lean` discharges it from the slab-level theorems (`TransSlabsData`,
  `TransSlabsMeta`) for data-slab and index-slab children.  So the statements are about the index slab itself:
  `childrenHeaders`, `childrenCountSum`, `header`, the store / remove effects and their order, the out-state of the
  child, and the error exits.
-/
namespace Atree.TransEq
open Atree Atree.Gen

/-! ### helpers -/

theorem disp_Header (T : Nat) (look) (d : Nat) (t : ATree d) :
    TransSl.ArraySlab_Header (envA T look) (trTree d t) = trHdr (ATree.hdr d t) := by
  cases d <;> rfl

theorem disp_ByteSize (T : Nat) (look) (d : Nat) (t : ATree d) :
    TransSl.ArraySlab_ByteSize (envA T look) (trTree d t) = u32 (ATree.hdr d t).size := by
  cases d <;> rfl

theorem goIdx_map {α β : Type} (f : α → β) (l : List α) (i : Nat) :
    TransSl.goIdx (l.map f) (Int.ofNat i) = (l[i]?).map f := by
  rw [goIdx_ofNat]; simp

theorem goSet_map {α β : Type} (f : α → β) (l : List α) (i : Nat) (v : α) :
    TransSl.goSet (l.map f) (Int.ofNat i) (f v) = if i < l.length then some ((l.set i v).map f) else none := by
  rw [goSet_ofNat]; simp [List.map_set]

theorem insertIdx_map {α β : Type} (f : α → β) (l : List α) (i : Nat) (v : α) :
    (l.map f).insertIdx i (f v) = (l.insertIdx i v).map f := by
  induction l generalizing i with
  | nil => cases i <;> simp
  | cons a t ih => cases i with
    | zero => simp
    | succ i => simp [ih i]

theorem eraseIdx_map {α β : Type} (f : α → β) (l : List α) (i : Nat) :
    (l.map f).eraseIdx i = (l.eraseIdx i).map f := by
  induction l generalizing i with
  | nil => simp
  | cons a t ih => cases i with
    | zero => simp
    | succ i => simp [ih i]

theorem goInsert_map_one {α β : Type} (f : α → β) (l : List α) (i : Nat) (v : α) :
    TransSl.goInsert (l.map f) (Int.ofNat i) [f v] = if i ≤ l.length then some ((l.insertIdx i v).map f) else none := by
  rw [goInsert_ofNat]
  by_cases h : i ≤ l.length
  · simp only [List.length_map, h, if_true]
    rw [take_cons_drop_eq_insertIdx _ _ _ (by simpa using h), insertIdx_map]
  · simp [h]

theorem goDelete_map_one {α β : Type} (f : α → β) (l : List α) (i : Nat) :
    TransSl.goDelete (l.map f) (Int.ofNat i) (Int.ofNat (i + 1)) =
      if i + 1 ≤ l.length then some ((l.eraseIdx i).map f) else none := by
  rw [goDelete_ofNat]
  by_cases h : i + 1 ≤ l.length
  · simp only [List.length_map, h, and_true, Nat.le_add_right, if_true]
    rw [take_drop_succ_eq_eraseIdx, eraseIdx_map]
  · simp [h]

theorem ofNat_succ' (k : Nat) : Int.ofNat k + (1 : Int) = Int.ofNat (k + 1) := rfl

/-- what the generated `ArraySlab.Split` must return on the translation of a model slab -/
def SplitAgrees (T : Nat) (look : SlabID → Option GSlab) (d : Nat) (child : ATree d) (c : Ctx) : Prop :=
  TransSl.ArraySlab_Split (envA T look) (trTree d child) c =
    match ATree.split d child c with
    | .error e => some (none, none, some e, trTree d child, c)
    | .ok (l, r, c') => some (some (trTree d l), some (trTree d r), none, trTree d l, c')

theorem Sl_SplitChildSlab_eq_model (T : Nat) (look) {d : Nat} (m : MetaSlab (ATree d)) (child : ATree d) (k : Nat)
    (c : Ctx) (hsplit : SplitAgrees T look d child c)
    (hk : k < m.countSum.length) (hk' : k < m.childHdrs.length)
    (hbase : (ATree.hdr d child).count ≤ m.countSum.getD k 0) :
    TransSl.ArrayMetaDataSlab_SplitChildSlab (envA T look) (trMeta m) c (some (trTree d child)) (Int.ofNat k) =
      match ATree.split d child c, m.splitChildSlab child k c with
      | .error e, _ => some (some e, trMeta m, c, some (trTree d child))
      | .ok (l, _, _), .ok (m', c') => some (none, trMeta m', c', some (trTree d l))
      | .ok _, .error _ => none := by
  unfold SplitAgrees at hsplit
  have hget : m.countSum[k]? = some (m.countSum.getD k 0) := by
    simp [List.getD_eq_getElem?_getD, List.getElem?_eq_getElem hk]
  simp only [TransSl.ArrayMetaDataSlab_SplitChildSlab, trMeta_childrenCountSum, goIdx_map, hget, Option.map_some,
    hsplit, MetaSlab.splitChildSlab]
  cases hs : ATree.split d child c with
  | error e => simp
  | ok res =>
    obtain ⟨l, r, c1⟩ := res
    simp only [bind, Except.bind, Option.isSome_none, Bool.false_eq_true, if_false, disp_Header, trHdr_count,
      trMeta_childrenHeaders, goSet_map, hk', if_true, ofNat_succ', goInsert_map_one, List.length_set,
      show k + 1 ≤ m.childHdrs.length from hk', storeSlab_envA, slabID_trTree]
    have hb : (ATree.hdr d child).count ≤ m.countSum.getD k 0 := hbase
    rw [u32_sub' hb, u32_add', u32_add', goSet_map]
    simp only [hk, if_true, goInsert_map_one, List.length_set, show k + 1 ≤ m.countSum.length from hk]
    simp [trMeta, trHdr, pure, Except.pure, TransSl.ArraySlab_SlabID, TransSl.ArrayMetaDataSlab_SlabID]

/-! ### rebalanceChildren -/

/-- the model's `BorrowFromRight` / `LendToRight` on a pair of sibling slabs -/
def rebalOp (T : Nat) (d : Nat) (l r : ATree d) (leftBorrowFromRight : Bool) : ATree d × ATree d :=
  if leftBorrowFromRight then ATree.borrowFromRight T d l r else ATree.lendToRight T d l r

/-- what the dispatched `BorrowFromRight` / `LendToRight` must return on the translations of two model slabs -/
def RebalAgrees (T : Nat) (look : SlabID → Option GSlab) (d : Nat) (l r : ATree d) (flag : Bool) : Prop :=
  (if flag then TransSl.ArraySlab_BorrowFromRight (envA T look) (trTree d l) (some (trTree d r))
   else TransSl.ArraySlab_LendToRight (envA T look) (trTree d l) (some (trTree d r))) =
    some (none, trTree d (rebalOp T d l r flag).1, some (trTree d (rebalOp T d l r flag).2))

theorem Sl_rebalanceChildren_eq_model (T : Nat) (look) {d : Nat} (m : MetaSlab (ATree d)) (left right : ATree d)
    (li ri : Nat) (flag : Bool) (c : Ctx) (hop : RebalAgrees T look d left right flag)
    (hli : li < m.countSum.length) (hli' : li < m.childHdrs.length) (hri : ri < m.childHdrs.length)
    (hbase : (ATree.hdr d left).count ≤ m.countSum.getD li 0) :
    TransSl.ArrayMetaDataSlab_rebalanceChildren (envA T look) (trMeta m) c (some (trTree d left)) (some (trTree d right))
        (Int.ofNat li) (Int.ofNat ri) flag =
      some (none, trMeta (m.rebalanceChildren T left right li ri flag c).1, (m.rebalanceChildren T left right li ri flag c).2,
            some (trTree d (rebalOp T d left right flag).1), some (trTree d (rebalOp T d left right flag).2)) := by
  unfold RebalAgrees at hop
  have hget : m.countSum[li]? = some (m.countSum.getD li 0) := by
    simp [List.getD_eq_getElem?_getD, List.getElem?_eq_getElem hli]
  cases flag
  all_goals
    simp only [Bool.false_eq_true, if_false, if_true] at hop
    simp only [TransSl.ArrayMetaDataSlab_rebalanceChildren, TransSl.ArrayMetaDataSlab_rebalanceChildren.k1, trMeta_childrenCountSum, goIdx_map, hget, Option.map_some,
      hop, Bool.false_eq_true, if_false, if_true, Option.isSome_none, disp_Header, trHdr_count, trMeta_childrenHeaders,
      goSet_map, hli', List.length_set, hri, u32_sub' hbase, u32_add', hli, storeSlab_envA, slabID_trTree,
      MetaSlab.rebalanceChildren]
    simp [trMeta, trHdr, TransSl.ArraySlab_SlabID, TransSl.ArrayMetaDataSlab_SlabID, rebalOp]

/-! ### mergeChildren -/

/-- `updateChildrenHeadersAfterMerge(h, li, ri)`: header `li` replaced by the merged header, header `ri` deleted; count sum
    `li` takes the value of count sum `ri`, which is deleted.  Out-of-range indexes are a Go panic. -/
theorem Sl_updateChildrenHeadersAfterMerge_spec (T : Nat) (look) {α : Type} (m : MetaSlab α) (h : Hdr) (li ri : Nat)
    (hli : li < m.childHdrs.length) (hri : ri < m.childHdrs.length)
    (hli' : li < m.countSum.length) (hri' : ri < m.countSum.length) :
    TransSl.ArrayMetaDataSlab_updateChildrenHeadersAfterMerge (envA T look) (trMeta m) (trHdr h) (Int.ofNat li) (Int.ofNat ri) =
      some { trMeta m with childrenHeaders := ((m.childHdrs.set li h).eraseIdx ri).map trHdr,
                           childrenCountSum := ((m.countSum.set li (m.countSum.getD ri 0)).eraseIdx ri).map u32 } := by
  have hget : m.countSum[ri]? = some (m.countSum.getD ri 0) := by
    simp [List.getD_eq_getElem?_getD, List.getElem?_eq_getElem hri']
  simp only [TransSl.ArrayMetaDataSlab_updateChildrenHeadersAfterMerge, trMeta_childrenHeaders, goSet_map, hli, if_true,
    ofNat_succ', goDelete_map_one, List.length_set, show ri + 1 ≤ m.childHdrs.length from hri, trMeta_childrenCountSum,
    goIdx_map, hget, Option.map_some, hli', show ri + 1 ≤ m.countSum.length from hri']

/-- what the dispatched `Merge` must return: the merged left slab, and SOME right slab that still has its identifier
    (Go's `merge` clears the right slice and leaves the rest of the right slab alone) -/
def MergeAgrees (T : Nat) (look : SlabID → Option GSlab) (d : Nat) (l r : ATree d) : Prop :=
  ∃ r' : GSlab, TransSl.ArraySlab_SlabID (envA T look) r' = (ATree.hdr d r).id ∧
    TransSl.ArraySlab_Merge (envA T look) (trTree d l) (some (trTree d r)) =
      some (none, trTree d (ATree.merge d l r), some r')

theorem Sl_mergeChildren_eq_model (T : Nat) (look) {d : Nat} (m : MetaSlab (ATree d)) (left right : ATree d)
    (li ri : Nat) (c : Ctx) (hop : MergeAgrees T look d left right)
    (hli : li < m.childHdrs.length) (hri : ri < m.childHdrs.length)
    (hli' : li < m.countSum.length) (hri' : ri < m.countSum.length)
    (hsz : arraySlabHeaderSize ≤ m.hdr.size) :
    ∃ r' : GSlab, TransSl.ArraySlab_SlabID (envA T look) r' = (ATree.hdr d right).id ∧
    TransSl.ArrayMetaDataSlab_mergeChildren (envA T look) (trMeta m) c (some (trTree d left)) (some (trTree d right))
        (Int.ofNat li) (Int.ofNat ri) =
      some (none, trMeta (m.mergeChildren left right li ri c).1, (m.mergeChildren left right li ri c).2,
            some (trTree d (ATree.merge d left right)), some r') := by
  obtain ⟨r', hid, hop⟩ := hop
  refine ⟨r', hid, ?_⟩
  have hupd := Sl_updateChildrenHeadersAfterMerge_spec T look m (ATree.hdr d (ATree.merge d left right)) li ri hli hri hli' hri'
  simp only [TransSl.ArrayMetaDataSlab_mergeChildren, hop, Option.isSome_none, Bool.false_eq_true, if_false, disp_Header,
    hupd, storeSlab_envA, slabID_trTree, hid, envA_remove, envA_wrap, MetaSlab.mergeChildren]
  have e14 : UInt32.ofNat arraySlabHeaderSize = u32 arraySlabHeaderSize := rfl
  rw [trMeta_header, trHdr_size, e14, u32_sub' hsz]
  simp [trMeta, trHdr, TransSl.ArraySlab_SlabID, TransSl.ArrayMetaDataSlab_SlabID]

end Atree.TransEq
