import AtreeProofs.Trans.Slabs
/-
  The restructuring of an index slab and the root changes of `Array`, regenerated from array_metadata_slab.go /
  array.go (`Gen/TransSlabs.lean`: `ArrayMetaDataSlab_SplitChildSlab`, `_rebalanceChildren`, `_mergeChildren`,
  `_MergeOrRebalanceChildSlab`, `Array_splitRoot`, `Array_promoteChildAsNewRoot`) against the model
  (`AtreeModel/Array/Tree.lean`).

  The child slabs are reached through DYNAMIC DISPATCH (`TransSl.ArraySlab_Split`, `_Merge`, `_LendToRight`,
  `_BorrowFromRight`, ..).  The theorems here take the agreement of the dispatched child operation with the model as
  a hypothesis (`hsplit`, `hop`, ..: "the generated operation on the translation of the child is the translation of the
  model's result"); `Props/TransSlabsGlue.lean` discharges it from the slab-level theorems (`TransSlabsData`,
  `TransSlabsMeta`) for data-slab and index-slab children.  So the statements are about the index slab itself:
  `childrenHeaders`, `childrenCountSum`, `header`, the store / remove effects and their order, the out-state of the
  child, and the error exits.
-/
set_option linter.unusedSimpArgs false
namespace Atree.TransEq
open Atree Atree.Gen

/-! ### helpers -/

theorem disp_Header (T : Nat) (look) (d : Nat) (t : ATree d) :
    TransSl.ArraySlab_Header (envA T look) (trTree d t) = trHdr (ATree.hdr d t) := by
  cases d <;> rfl

theorem disp_ByteSize (T : Nat) (look) (d : Nat) (t : ATree d) :
    TransSl.ArraySlab_ByteSize (envA T look) (trTree d t) = u32 (ATree.hdr d t).size := by
  cases d <;> rfl

theorem goIdx_map {α β : Type} (f : α → β) (l : List α) (i : Nat) :
    TransSl.goIdx (l.map f) (Int.ofNat i) = (l[i]?).map f := by
  rw [goIdx_ofNat]; simp

theorem goSet_map {α β : Type} (f : α → β) (l : List α) (i : Nat) (v : α) :
    TransSl.goSet (l.map f) (Int.ofNat i) (f v) = if i < l.length then some ((l.set i v).map f) else none := by
  rw [goSet_ofNat]; simp [List.map_set]

theorem insertIdx_map {α β : Type} (f : α → β) (l : List α) (i : Nat) (v : α) :
    (l.map f).insertIdx i (f v) = (l.insertIdx i v).map f := by
  induction l generalizing i with
  | nil => cases i <;> simp
  | cons a t ih => cases i with
    | zero => simp
    | succ i => simp [ih i]

theorem eraseIdx_map {α β : Type} (f : α → β) (l : List α) (i : Nat) :
    (l.map f).eraseIdx i = (l.eraseIdx i).map f := by
  induction l generalizing i with
  | nil => simp
  | cons a t ih => cases i with
    | zero => simp
    | succ i => simp [ih i]

theorem goInsert_map_one {α β : Type} (f : α → β) (l : List α) (i : Nat) (v : α) :
    TransSl.goInsert (l.map f) (Int.ofNat i) [f v] = if i ≤ l.length then some ((l.insertIdx i v).map f) else none := by
  rw [goInsert_ofNat]
  by_cases h : i ≤ l.length
  · simp only [List.length_map, h, if_true]
    rw [take_cons_drop_eq_insertIdx _ _ _ (by simpa using h), insertIdx_map]
  · simp [h]

theorem goDelete_map_one {α β : Type} (f : α → β) (l : List α) (i : Nat) :
    TransSl.goDelete (l.map f) (Int.ofNat i) (Int.ofNat (i + 1)) =
      if i + 1 ≤ l.length then some ((l.eraseIdx i).map f) else none := by
  rw [goDelete_ofNat]
  by_cases h : i + 1 ≤ l.length
  · simp only [List.length_map, h, and_true, Nat.le_add_right, if_true]
    rw [take_drop_succ_eq_eraseIdx, eraseIdx_map]
  · simp [h]

theorem ofNat_succ' (k : Nat) : Int.ofNat k + (1 : Int) = Int.ofNat (k + 1) := rfl

/-- what the generated `ArraySlab.Split` must return on the translation of a model slab -/
def SplitAgrees (T : Nat) (look : SlabID → Option GSlab) (d : Nat) (child : ATree d) (c : Ctx) : Prop :=
  TransSl.ArraySlab_Split (envA T look) (trTree d child) c =
    match ATree.split d child c with
    | .error e => some (none, none, some e, trTree d child, c)
    | .ok (l, r, c') => some (some (trTree d l), some (trTree d r), none, trTree d l, c')

theorem Sl_SplitChildSlab_eq_model (T : Nat) (look) {d : Nat} (m : MetaSlab (ATree d)) (child : ATree d) (k : Nat)
    (c : Ctx) (hsplit : SplitAgrees T look d child c)
    (hk : k < m.countSum.length) (hk' : k < m.childHdrs.length)
    (hbase : (ATree.hdr d child).count ≤ m.countSum.getD k 0) :
    TransSl.ArrayMetaDataSlab_SplitChildSlab (envA T look) (trMeta m) c (some (trTree d child)) (Int.ofNat k) =
      match ATree.split d child c, m.splitChildSlab child k c with
      | .error e, _ => some (some e, trMeta m, c, some (trTree d child))
      | .ok (l, _, _), .ok (m', c') => some (none, trMeta m', c', some (trTree d l))
      | .ok _, .error _ => none := by
  unfold SplitAgrees at hsplit
  have hget : m.countSum[k]? = some (m.countSum.getD k 0) := by
    simp [List.getD_eq_getElem?_getD, List.getElem?_eq_getElem hk]
  simp only [TransSl.ArrayMetaDataSlab_SplitChildSlab, trMeta_childrenCountSum, goIdx_map, hget, Option.map_some,
    hsplit, MetaSlab.splitChildSlab]
  cases hs : ATree.split d child c with
  | error e => simp
  | ok res =>
    obtain ⟨l, r, c1⟩ := res
    simp only [bind, Except.bind, Option.isSome_none, Bool.false_eq_true, if_false, disp_Header, trHdr_count,
      trMeta_childrenHeaders, goSet_map, hk', if_true, ofNat_succ', goInsert_map_one, List.length_set,
      show k + 1 ≤ m.childHdrs.length from hk', storeSlab_envA, slabID_trTree]
    have hb : (ATree.hdr d child).count ≤ m.countSum.getD k 0 := hbase
    rw [u32_sub' hb, u32_add', u32_add', goSet_map]
    simp only [hk, if_true, goInsert_map_one, List.length_set, show k + 1 ≤ m.countSum.length from hk]
    simp [trMeta, trHdr, pure, Except.pure, TransSl.ArraySlab_SlabID, TransSl.ArrayMetaDataSlab_SlabID]

/-! ### rebalanceChildren -/

/-- the model's `BorrowFromRight` / `LendToRight` on a pair of sibling slabs -/
def rebalOp (T : Nat) (d : Nat) (l r : ATree d) (leftBorrowFromRight : Bool) : ATree d × ATree d :=
  if leftBorrowFromRight then ATree.borrowFromRight T d l r else ATree.lendToRight T d l r

/-- what the dispatched `BorrowFromRight` / `LendToRight` must return on the translations of two model slabs -/
def RebalAgrees (T : Nat) (look : SlabID → Option GSlab) (d : Nat) (l r : ATree d) (flag : Bool) : Prop :=
  (if flag then TransSl.ArraySlab_BorrowFromRight (envA T look) (trTree d l) (some (trTree d r))
   else TransSl.ArraySlab_LendToRight (envA T look) (trTree d l) (some (trTree d r))) =
    some (none, trTree d (rebalOp T d l r flag).1, some (trTree d (rebalOp T d l r flag).2))

theorem Sl_rebalanceChildren_eq_model (T : Nat) (look) {d : Nat} (m : MetaSlab (ATree d)) (left right : ATree d)
    (li ri : Nat) (flag : Bool) (c : Ctx) (hop : RebalAgrees T look d left right flag)
    (hli : li < m.countSum.length) (hli' : li < m.childHdrs.length) (hri : ri < m.childHdrs.length)
    (hbase : (ATree.hdr d left).count ≤ m.countSum.getD li 0) :
    TransSl.ArrayMetaDataSlab_rebalanceChildren (envA T look) (trMeta m) c (some (trTree d left)) (some (trTree d right))
        (Int.ofNat li) (Int.ofNat ri) flag =
      some (none, trMeta (m.rebalanceChildren T left right li ri flag c).1, (m.rebalanceChildren T left right li ri flag c).2,
            some (trTree d (rebalOp T d left right flag).1), some (trTree d (rebalOp T d left right flag).2)) := by
  unfold RebalAgrees at hop
  have hget : m.countSum[li]? = some (m.countSum.getD li 0) := by
    simp [List.getD_eq_getElem?_getD, List.getElem?_eq_getElem hli]
  cases flag
  all_goals
    simp only [Bool.false_eq_true, if_false, if_true] at hop
    simp only [TransSl.ArrayMetaDataSlab_rebalanceChildren, TransSl.ArrayMetaDataSlab_rebalanceChildren.k1, trMeta_childrenCountSum, goIdx_map, hget, Option.map_some,
      hop, Bool.false_eq_true, if_false, if_true, Option.isSome_none, disp_Header, trHdr_count, trMeta_childrenHeaders,
      goSet_map, hli', List.length_set, hri, u32_sub' hbase, u32_add', hli, storeSlab_envA, slabID_trTree,
      MetaSlab.rebalanceChildren]
    simp [trMeta, trHdr, TransSl.ArraySlab_SlabID, TransSl.ArrayMetaDataSlab_SlabID, rebalOp]

/-! ### mergeChildren -/

/-- `updateChildrenHeadersAfterMerge(h, li, ri)`: header `li` replaced by the merged header, header `ri` deleted; count sum
    `li` takes the value of count sum `ri`, which is deleted.  Out-of-range indexes are a Go panic. -/
theorem Sl_updateChildrenHeadersAfterMerge_spec (T : Nat) (look) {α : Type} (m : MetaSlab α) (h : Hdr) (li ri : Nat)
    (hli : li < m.childHdrs.length) (hri : ri < m.childHdrs.length)
    (hli' : li < m.countSum.length) (hri' : ri < m.countSum.length) :
    TransSl.ArrayMetaDataSlab_updateChildrenHeadersAfterMerge (envA T look) (trMeta m) (trHdr h) (Int.ofNat li) (Int.ofNat ri) =
      some { trMeta m with childrenHeaders := ((m.childHdrs.set li h).eraseIdx ri).map trHdr,
                           childrenCountSum := ((m.countSum.set li (m.countSum.getD ri 0)).eraseIdx ri).map u32 } := by
  have hget : m.countSum[ri]? = some (m.countSum.getD ri 0) := by
    simp [List.getD_eq_getElem?_getD, List.getElem?_eq_getElem hri']
  simp only [TransSl.ArrayMetaDataSlab_updateChildrenHeadersAfterMerge, trMeta_childrenHeaders, goSet_map, hli, if_true,
    ofNat_succ', goDelete_map_one, List.length_set, show ri + 1 ≤ m.childHdrs.length from hri, trMeta_childrenCountSum,
    goIdx_map, hget, Option.map_some, hli', show ri + 1 ≤ m.countSum.length from hri']

/-- what the dispatched `Merge` must return: the merged left slab, and SOME right slab that still has its identifier
    (Go's `merge` clears the right slice and leaves the rest of the right slab alone) -/
def MergeAgrees (T : Nat) (look : SlabID → Option GSlab) (d : Nat) (l r : ATree d) : Prop :=
  ∃ r' : GSlab, TransSl.ArraySlab_SlabID (envA T look) r' = (ATree.hdr d r).id ∧
    TransSl.ArraySlab_Merge (envA T look) (trTree d l) (some (trTree d r)) =
      some (none, trTree d (ATree.merge d l r), some r')

theorem Sl_mergeChildren_eq_model (T : Nat) (look) {d : Nat} (m : MetaSlab (ATree d)) (left right : ATree d)
    (li ri : Nat) (c : Ctx) (hop : MergeAgrees T look d left right)
    (hli : li < m.childHdrs.length) (hri : ri < m.childHdrs.length)
    (hli' : li < m.countSum.length) (hri' : ri < m.countSum.length)
    (hsz : arraySlabHeaderSize ≤ m.hdr.size) :
    ∃ r' : GSlab, TransSl.ArraySlab_SlabID (envA T look) r' = (ATree.hdr d right).id ∧
    TransSl.ArrayMetaDataSlab_mergeChildren (envA T look) (trMeta m) c (some (trTree d left)) (some (trTree d right))
        (Int.ofNat li) (Int.ofNat ri) =
      some (none, trMeta (m.mergeChildren left right li ri c).1, (m.mergeChildren left right li ri c).2,
            some (trTree d (ATree.merge d left right)), some r') := by
  obtain ⟨r', hid, hop⟩ := hop
  refine ⟨r', hid, ?_⟩
  have hupd := Sl_updateChildrenHeadersAfterMerge_spec T look m (ATree.hdr d (ATree.merge d left right)) li ri hli hri hli' hri'
  simp only [TransSl.ArrayMetaDataSlab_mergeChildren, hop, Option.isSome_none, Bool.false_eq_true, if_false, disp_Header,
    hupd, storeSlab_envA, slabID_trTree, hid, envA_remove, envA_wrap, MetaSlab.mergeChildren]
  have e14 : UInt32.ofNat arraySlabHeaderSize = u32 arraySlabHeaderSize := rfl
  rw [trMeta_header, trHdr_size, e14, u32_sub' hsz]
  simp [trMeta, trHdr, TransSl.ArraySlab_SlabID, TransSl.ArrayMetaDataSlab_SlabID]


/-! ### MergeOrRebalanceChildSlab -/

/-- the decision table of the model's `mergeOrRebalanceChildSlab`, as a function of the two siblings -/
def morTable (T : Nat) {d : Nat} (m : MetaSlab (ATree d)) (child : ATree d) (k underflow : Nat) (c : Ctx)
    (leftSib rightSib : Option (ATree d)) : Except AErr (MetaSlab (ATree d) × Ctx) :=
  let leftCanLend := match leftSib with | some l => ATree.canLendToRight T d l underflow | none => false
  let rightCanLend := match rightSib with | some r => ATree.canLendToLeft T d r underflow | none => false
  if leftCanLend || rightCanLend then
    match leftSib, rightSib with
    | some l, some r =>
      if !leftCanLend then .ok (m.rebalanceChildren T child r k (k + 1) true c)
      else if !rightCanLend then .ok (m.rebalanceChildren T l child (k - 1) k false c)
      else if (ATree.hdr d l).size > (ATree.hdr d r).size then .ok (m.rebalanceChildren T l child (k - 1) k false c)
      else .ok (m.rebalanceChildren T child r k (k + 1) true c)
    | some l, none => .ok (m.rebalanceChildren T l child (k - 1) k false c)
    | none, some r => .ok (m.rebalanceChildren T child r k (k + 1) true c)
    | none, none => .error .goPanic
  else
    match leftSib, rightSib with
    | none, some r => .ok (m.mergeChildren child r k (k + 1) c)
    | some l, none => .ok (m.mergeChildren l child (k - 1) k c)
    | some l, some r =>
      if (ATree.hdr d l).size < (ATree.hdr d r).size then .ok (m.mergeChildren l child (k - 1) k c)
      else .ok (m.mergeChildren child r k (k + 1) c)
    | none, none => .error .goPanic

theorem mor_eq_table (T : Nat) {d : Nat} (m : MetaSlab (ATree d)) (child : ATree d) (k u : Nat) (c : Ctx) :
    m.mergeOrRebalanceChildSlab T child k u c =
      morTable T m child k u c (if k > 0 then m.children[k - 1]? else none)
        (if k + 1 < m.childHdrs.length then m.children[k + 1]? else none) := rfl

/-- what `MergeOrRebalanceChildSlab` needs from its children: the dispatched operations on the siblings it can select agree
    with the model, and the index slab's bookkeeping is in range -/
structure MorPre (T : Nat) (look : SlabID → Option GSlab) {d : Nat} (m : MetaSlab (ATree d)) (child : ATree d)
    (k u : Nat) (lsib rsib : Option (ATree d)) : Prop where
  hk : k < m.childHdrs.length
  hlen : m.countSum.length = m.childHdrs.length
  hsz : arraySlabHeaderSize ≤ m.hdr.size
  posL : ∀ l, lsib = some l → 0 < k
  posR : ∀ r, rsib = some r → k + 1 < m.childHdrs.length
  lendL : ∀ l, lsib = some l →
    TransSl.ArraySlab_CanLendToRight (envA T look) (trTree d l) (u32 u) = some (ATree.canLendToRight T d l u)
  lendR : ∀ r, rsib = some r →
    TransSl.ArraySlab_CanLendToLeft (envA T look) (trTree d r) (u32 u) = some (ATree.canLendToLeft T d r u)
  szL : ∀ l, lsib = some l → (ATree.hdr d l).size < 2^32
  szR : ∀ r, rsib = some r → (ATree.hdr d r).size < 2^32
  rebR : ∀ r, rsib = some r → RebalAgrees T look d child r true ∧ (ATree.hdr d child).count ≤ m.countSum.getD k 0
  rebL : ∀ l, lsib = some l → RebalAgrees T look d l child false ∧ (ATree.hdr d l).count ≤ m.countSum.getD (k - 1) 0
  mrgR : ∀ r, rsib = some r → MergeAgrees T look d child r
  mrgL : ∀ l, lsib = some l → MergeAgrees T look d l child

theorem ofNat_pred' (k : Nat) (h : 0 < k) : Int.ofNat k - (1 : Int) = Int.ofNat (k - 1) := by
  cases k with
  | zero => omega
  | succ n => simp



/-- `x.Merge(nil)`: the type assertion on the nil interface panics -/
theorem disp_Merge_nil (T : Nat) (look) (v : GSlab) : TransSl.ArraySlab_Merge (envA T look) v none = none := by
  cases v with
  | dataSlab a => simp [TransSl.ArraySlab_Merge, TransSl.ArrayDataSlab_Merge]
  | metaSlab a =>
    have h : TransSl.ArrayMetaDataSlab_Merge (envA T look) a none = none := by
      simp only [TransSl.ArrayMetaDataSlab_Merge]
      split <;> rfl
    simp [TransSl.ArraySlab_Merge, h]

theorem Sl_mor_k1 (T : Nat) (look) {d : Nat} (m : MetaSlab (ATree d)) (child : ATree d) (k u : Nat) (c : Ctx)
    (lsib rsib : Option (ATree d)) (hp : MorPre T look m child k u lsib rsib) :
    match morTable T m child k u c lsib rsib with
    | .ok (m', c') => ∃ child', TransSl.ArrayMetaDataSlab_MergeOrRebalanceChildSlab.k1 (envA T look) (trMeta m) c
        (some (trTree d child)) (Int.ofNat k) (u32 u) (lsib.map (trTree d)) (rsib.map (trTree d)) =
          some (none, trMeta m', c', child')
    | .error _ => TransSl.ArrayMetaDataSlab_MergeOrRebalanceChildSlab.k1 (envA T look) (trMeta m) c
        (some (trTree d child)) (Int.ofNat k) (u32 u) (lsib.map (trTree d)) (rsib.map (trTree d)) = none := by
  have hkc : k < m.countSum.length := by rw [hp.hlen]; exact hp.hk
  cases lsib with
  | none =>
    cases rsib with
    | none =>
      simp [morTable, TransSl.ArrayMetaDataSlab_MergeOrRebalanceChildSlab.k1, TransSl.ArrayMetaDataSlab_mergeChildren,
        disp_Merge_nil]
    | some r =>
      obtain ⟨hreb, hbase⟩ := hp.rebR r rfl
      have hr1 := hp.posR r rfl
      have hrc : k + 1 < m.countSum.length := by rw [hp.hlen]; exact hr1
      have hR := Sl_rebalanceChildren_eq_model T look m child r k (k + 1) true c hreb hkc hp.hk hr1 hbase
      obtain ⟨r', hid, hM⟩ := Sl_mergeChildren_eq_model T look m child r k (k + 1) c (hp.mrgR r rfl) hp.hk hr1 hkc hrc hp.hsz
      simp only [morTable, TransSl.ArrayMetaDataSlab_MergeOrRebalanceChildSlab.k1, Option.map_none, Option.map_some,
        Option.isSome_none, Option.isSome_some, Option.isNone_none, Bool.false_eq_true, if_false, if_true, hp.lendR r rfl,
        Bool.false_or, ofNat_succ', hR, hM]
      cases hc : ATree.canLendToLeft T d r u <;> simp
  | some l =>
    obtain ⟨hrebL, hbaseL⟩ := hp.rebL l rfl
    have hl0 := hp.posL l rfl
    have hl1 : k - 1 < m.childHdrs.length := by have := hp.hk; omega
    have hlc : k - 1 < m.countSum.length := by rw [hp.hlen]; exact hl1
    have hRL := Sl_rebalanceChildren_eq_model T look m l child (k - 1) k false c hrebL hlc hl1 hp.hk hbaseL
    obtain ⟨l', hidL, hML⟩ := Sl_mergeChildren_eq_model T look m l child (k - 1) k c (hp.mrgL l rfl) hl1 hp.hk hlc hkc hp.hsz
    cases rsib with
    | none =>
      simp only [morTable, TransSl.ArrayMetaDataSlab_MergeOrRebalanceChildSlab.k1, Option.map_none, Option.map_some,
        Option.isSome_none, Option.isSome_some, Option.isNone_none, Option.isNone_some, Bool.false_eq_true, if_false, if_true,
        hp.lendL l rfl, Bool.or_false, ofNat_pred' k hl0, hRL, hML]
      cases hc : ATree.canLendToRight T d l u <;> simp
    | some r =>
      obtain ⟨hreb, hbase⟩ := hp.rebR r rfl
      have hr1 := hp.posR r rfl
      have hrc : k + 1 < m.countSum.length := by rw [hp.hlen]; exact hr1
      have hR := Sl_rebalanceChildren_eq_model T look m child r k (k + 1) true c hreb hkc hp.hk hr1 hbase
      obtain ⟨r', hid, hM⟩ := Sl_mergeChildren_eq_model T look m child r k (k + 1) c (hp.mrgR r rfl) hp.hk hr1 hkc hrc hp.hsz
      have hgt : decide (u32 (ATree.hdr d l).size > u32 (ATree.hdr d r).size) =
          decide ((ATree.hdr d l).size > (ATree.hdr d r).size) := u32_dgt (hp.szL l rfl) (hp.szR r rfl)
      have hlt : decide (u32 (ATree.hdr d l).size < u32 (ATree.hdr d r).size) =
          decide ((ATree.hdr d l).size < (ATree.hdr d r).size) := u32_dlt (hp.szL l rfl) (hp.szR r rfl)
      cases hcl : ATree.canLendToRight T d l u <;> cases hcr : ATree.canLendToLeft T d r u <;>
        simp only [morTable, TransSl.ArrayMetaDataSlab_MergeOrRebalanceChildSlab.k1, Option.map_none, Option.map_some,
          Option.isSome_none, Option.isSome_some, Option.isNone_none, Option.isNone_some, Bool.false_eq_true, if_false,
          if_true, hp.lendL l rfl, hp.lendR r rfl, ofNat_pred' k hl0, ofNat_succ', hRL, hML, hR, hM, disp_ByteSize,
          hgt, hlt, hcl, hcr, Bool.or_false, Bool.or_true, Bool.not_false, Bool.not_true, decide_eq_true_eq]
      · by_cases h : (ATree.hdr d l).size < (ATree.hdr d r).size <;> simp [h]
      · simp
      · simp
      · by_cases h : (ATree.hdr d l).size > (ATree.hdr d r).size <;> simp [h]

/-- `MergeOrRebalanceChildSlab(storage, child, k, underflowSize)`: the siblings are fetched by the identifiers in
    `childrenHeaders[k∓1]` (`hlookL`, `hlookR`: the storage returns the model's children - sibling slabs exist), then the
    3 x 3 table: the result is the model's index slab, the model's store / remove effects in the model's order, no error;
    with no sibling at all both sides panic.  `child'` is the Go state of the child afterwards. -/
theorem Sl_MergeOrRebalanceChildSlab_eq_model (T : Nat) (look) {d : Nat} (m : MetaSlab (ATree d)) (child : ATree d)
    (k u : Nat) (c : Ctx)
    (hp : MorPre T look m child k u (if k > 0 then m.children[k - 1]? else none)
      (if k + 1 < m.childHdrs.length then m.children[k + 1]? else none))
    (hlookL : k > 0 → ∃ h l, m.childHdrs[k - 1]? = some h ∧ m.children[k - 1]? = some l ∧ look h.id = some (trTree d l))
    (hlookR : k + 1 < m.childHdrs.length →
      ∃ h r, m.childHdrs[k + 1]? = some h ∧ m.children[k + 1]? = some r ∧ look h.id = some (trTree d r)) :
    match m.mergeOrRebalanceChildSlab T child k u c with
    | .ok (m', c') => ∃ child', TransSl.ArrayMetaDataSlab_MergeOrRebalanceChildSlab (envA T look) (trMeta m) c
        (some (trTree d child)) (Int.ofNat k) (u32 u) = some (none, trMeta m', c', child')
    | .error _ => TransSl.ArrayMetaDataSlab_MergeOrRebalanceChildSlab (envA T look) (trMeta m) c
        (some (trTree d child)) (Int.ofNat k) (u32 u) = none := by
  rw [mor_eq_table]
  have hk1 := Sl_mor_k1 T look m child k u c _ _ hp
  have hd0 : decide (Int.ofNat k > (0 : Int)) = decide (k > 0) := by
    have : (Int.ofNat k > (0 : Int)) ↔ k > 0 := by simp
    exact decide_eq_decide.mpr this
  have hd1 : decide (Int.ofNat k < Int.ofNat (trMeta m).childrenHeaders.length - 1) = decide (k + 1 < m.childHdrs.length) := by
    have : (Int.ofNat k < Int.ofNat (trMeta m).childrenHeaders.length - 1) ↔ k + 1 < m.childHdrs.length := by
      simp only [trMeta_childrenHeaders, List.length_map, Int.ofNat_eq_natCast]
      constructor <;> intro hh <;> omega
    exact decide_eq_decide.mpr this
  -- the generated function is `k1` on the translated siblings
  have hgen : TransSl.ArrayMetaDataSlab_MergeOrRebalanceChildSlab (envA T look) (trMeta m) c
        (some (trTree d child)) (Int.ofNat k) (u32 u) =
      TransSl.ArrayMetaDataSlab_MergeOrRebalanceChildSlab.k1 (envA T look) (trMeta m) c
        (some (trTree d child)) (Int.ofNat k) (u32 u)
        ((if k > 0 then m.children[k - 1]? else none).map (trTree d))
        ((if k + 1 < m.childHdrs.length then m.children[k + 1]? else none).map (trTree d)) := by
    have hk2 : ∀ ls : Option GSlab,
        TransSl.ArrayMetaDataSlab_MergeOrRebalanceChildSlab.k2 (envA T look) (trMeta m) c (some (trTree d child))
          (Int.ofNat k) (u32 u) ls none =
        TransSl.ArrayMetaDataSlab_MergeOrRebalanceChildSlab.k1 (envA T look) (trMeta m) c (some (trTree d child))
          (Int.ofNat k) (u32 u) ls ((if k + 1 < m.childHdrs.length then m.children[k + 1]? else none).map (trTree d)) := by
      intro ls
      simp only [TransSl.ArrayMetaDataSlab_MergeOrRebalanceChildSlab.k2]
      rw [hd1]
      simp only [trMeta_childrenHeaders]
      by_cases h1 : k + 1 < m.childHdrs.length
      · obtain ⟨h, r, hh, hr, hl⟩ := hlookR h1
        simp only [h1, decide_true, if_true, ofNat_succ', goIdx_map, hh, Option.map_some, envA_getArraySlab,
          trHdr_slabID, hl, Option.isSome_none, Bool.false_eq_true, if_false, hr]
      · simp only [h1, decide_false, Bool.false_eq_true, if_false, Option.map_none]
    simp only [TransSl.ArrayMetaDataSlab_MergeOrRebalanceChildSlab]
    rw [hd0]
    simp only [trMeta_childrenHeaders]
    by_cases h0 : k > 0
    · obtain ⟨h, l, hh, hl, hlk⟩ := hlookL h0
      simp only [h0, decide_true, if_true, ofNat_pred' k h0, goIdx_map, hh, Option.map_some, envA_getArraySlab,
        trHdr_slabID, hlk, Option.isSome_none, Bool.false_eq_true, if_false, hl, hk2]
    · simp only [h0, decide_false, Bool.false_eq_true, if_false, Option.map_none, hk2]
  rw [hgen]
  exact hk1

end Atree.TransEq
