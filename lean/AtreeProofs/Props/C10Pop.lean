import AtreeProofs.World.PopThm
import AtreeProofs.World.PopLog
import AtreeProofs.World.PopMapParent
import AtreeProofs.World.PopScenario
import AtreeProofs.Array.EffectsTop
import AtreeProofs.Array.Iter
import AtreeProofs.Map.EffectsTop
import AtreeProofs.Map.Empty
/-
  C10 (continued) — `Array.PopIterate` / `OrderedMap.PopIterate` called THROUGH THE HANDLE of a
  (possibly nested) container `h`: `World.arrPop` / `World.mapPop`.
  PROPERTY THEOREMS about the World model (value-level, one current handle per container).

  The model of the pop is: empty `h` in place (`Arr.popIterate` / `OMap.popIterate`), reset the
  index table of `h` (arrays), dispose of everything that was handed out (`forgetElems`: the
  popped child containers and everything nested below them vanish from all tables), then the
  ordinary parent notification.  Two defects of the Go code were repaired to match it:
  F3 (PopIterate did not notify the parent: the theorems `…_updates_array_parent` /
  `…_updates_map_parent` are what it violated),
  F4 (Array.PopIterate kept stale `mutableElementIndex` entries: `arrPop_clears_index`).

  Contents: A `…_result`, B `arrPop_clears_index` / `…_mutIdxOk`, C `…_updates_array_parent` /
  `…_updates_map_parent`, D `…_forgets_exactly_the_subtree` / `…_releases_own_slabs`,
  E `…_of_detached_leaves_former_parent_unchanged`; then counterexamples showing that the two
  hypotheses `hfree` and `hsync` cannot be dropped, and non-vacuity on concrete runs of the model.

  Helper lemmas, `AtreeProofs/World/`: `Pop` (`forget` / `forgetElems` drop exactly the reachable
  containers), `PopFrame` (index-table frame and log growth of a notification), `PopOps` (shape of
  a pop), `PopThm` (the statements, generically for arrays and maps), `PopMapParent` (map-parent
  analogue of `C10.notify_updates_array_parent`), `PopLog` (array / map `set` only append to the
  effect log, for every tree), `PopEval` / `PopScenario` (evaluable copies, concrete runs).

  Vocabulary (`AtreeProofs/World/Pop*.lean`):
  * `Reach w v x`      — `x` is the known container `v` or is nested, at any depth, below it
  * `NotBelow w es x`  — `x` is not nested below (and is not) any container referenced by `es`
  * `RefRankOk rank w` — element references strictly increase `rank` (acyclic nesting)
  * `Detached w h hi`  — the callback `hi` of `h` finds nothing in the recorded parent
  * `arrPopMid` / `mapPopMid` — the state at the call of `notifyParent` inside the pop
  * `LogExt c c'`      — the effect log of `c'` extends the one of `c`
  The hypothesis "`h` is not nested below its own elements" (`NotBelow w a.toList h`) follows from
  a rank function on references: `not_below_of_ref_rank`.
-/
namespace Atree.C10Pop
open Atree Gen World

/-! ### the shape of a pop -/

/-- `arrPop` is: the container-level pop, then exactly ONE ordinary parent notification from the
    emptied container (fuel `conts.length + 2`) in the state `arrPopMid` where the popped subtree
    has been disposed of.  Hence whether the emptied container ends up inline is decided by
    `notifyParent` as for any other mutation (`C10.notify_updates_array_parent`,
    `C10.storable_inline_decision`). -/
theorem arrPop_is_notification (w : World) (h : SlabID) (cx : Ctx) (a : Arr)
    (hc : w.cont? h = some (.arr a))
    (es : List Elem) (w' : World) (cx' : Ctx) (hpop : w.arrPop h cx = .ok (es, w', cx')) :
    es = (a.popIterate cx).1 ∧
    notifyParent (arrPopMid w h a cx).fuelOf (arrPopMid w h a cx) h (a.popIterate cx).2.2 = .ok (w', cx') :=
  arrPop_ok hc hpop

/-- the same for `mapPop` -/
theorem mapPop_is_notification (w : World) (h : SlabID) (cx : Ctx) (m : OMap 3)
    (hc : w.cont? h = some (.map m))
    (kvs : List (MKey × Elem)) (w' : World) (cx' : Ctx) (hpop : w.mapPop h cx = .ok (kvs, w', cx')) :
    kvs = (m.popIterate cx).1 ∧
    notifyParent (mapPopMid w h m cx).fuelOf (mapPopMid w h m cx) h (m.popIterate cx).2.2 = .ok (w', cx') :=
  mapPop_ok hc hpop

/-- A pop succeeds only through the handle of a container of the right kind. -/
theorem pop_needs_container (w : World) (h : SlabID) (cx : Ctx) :
    (∀ es w' cx', w.arrPop h cx = .ok (es, w', cx') → ∃ a, w.cont? h = some (.arr a)) ∧
    (∀ kvs w' cx', w.mapPop h cx = .ok (kvs, w', cx') → ∃ m, w.cont? h = some (.map m)) :=
  ⟨fun _ _ _ hp => arrPop_isArr hp, fun _ _ _ hp => mapPop_isMap hp⟩

/-- "`x` is not nested below the elements `es`" follows from a rank function on references:
    if every reference goes up in rank and every container referenced by `es` ranks above `x`,
    then `x` is below none of them.  (For `x = h` and `es` the elements of `h`, the second
    hypothesis is an instance of the first.) -/
theorem not_below_of_ref_rank (rank : SlabID → Nat) (w : World) (hrr : RefRankOk rank w)
    (es : List Elem) (x : SlabID)
    (hx : ∀ e ∈ es, ∀ v, e.pay = .ref v → (w.cont? v).isSome → rank x < rank v) :
    NotBelow w es x :=
  notBelow_of_rank hrr hx

/-- … in particular a container is not nested below its own elements, nor is anything that
    ranks at most as high as it (its parent, its ancestors). -/
theorem not_below_own_elements (rank : SlabID → Nat) (w : World) (hrr : RefRankOk rank w)
    (h : SlabID) (c : Cont) (hc : w.cont? h = some c) (x : SlabID) (hx : rank x ≤ rank h) :
    NotBelow w c.storedElems x :=
  notBelow_of_rank hrr (fun e he v hp hv => by have := hrr h c hc e he v hp hv; omega)

private theorem notBelow_reverse {w : World} {es : List Elem} {x : SlabID} (h : NotBelow w es x) :
    NotBelow w es.reverse x :=
  fun e he => h e (List.mem_reverse.mp he)

private theorem notBelow_map_reverse {w : World} {kvs : List (MKey × Elem)} {x : SlabID}
    (h : NotBelow w (kvs.map (·.2)) x) : NotBelow w (kvs.reverse.map (·.2)) x := by
  intro e he
  apply h e
  rw [List.map_reverse] at he
  exact List.mem_reverse.mp he

private theorem arr_pop_fst (a : Arr) (cx : Ctx) : (a.popIterate cx).1 = a.toList.reverse :=
  (arr_popIterate_refines a cx).1

private theorem map_pop_fst (m : OMap 3) (cx : Ctx) : (m.popIterate cx).1 = m.toList.reverse :=
  MTree.popIterate_fst m.d m.root cx

/-! ### A. what a pop returns and leaves behind -/

/-- `Array.PopIterate` through the handle `h`: hands out every element, last to first; `h` is
    still an array filed under the same value ID (root slab ID unchanged), now empty; every
    container keeps being filed under its value ID; and if `h` has no parent callback, nothing
    else happens: the final state is `arrPopMid`, the inline flag of `h` is unchanged and the
    only storage effects are the ones of the container-level pop.
    (With a callback, the inline status is decided by the notification: `arrPop_is_notification`,
    `arrPop_updates_array_parent`.)
    Hypotheses: the parent pointers are acyclic (`rank`, as in `C10.notify_updates_array_parent`;
    otherwise the notification could come back to `h`), and `h` is not nested below its own
    elements (otherwise the disposal of the popped elements would dispose of `h` itself;
    `not_below_own_elements` derives it from a rank on references). -/
theorem arrPop_result (w : World) (h : SlabID) (cx : Ctx) (a : Arr)
    (hc : w.cont? h = some (.arr a)) (hids : World.IdsOk w)
    (rank : SlabID → Nat)
    (hacyc : ∀ y hi, AList.find? w.hinfo y = some hi → rank hi.parent < rank y)
    (hfree : NotBelow w a.toList h)
    (es : List Elem) (w' : World) (cx' : Ctx) (hpop : w.arrPop h cx = .ok (es, w', cx')) :
    es = a.toList.reverse ∧
    ∃ a', w'.cont? h = some (.arr a') ∧ a'.toList = [] ∧ a'.rootID = h ∧
      (Cont.arr a').storedElems = [] ∧ (Cont.arr a').vid = h ∧ World.IdsOk w' ∧
      (AList.find? w.hinfo h = none →
        w' = arrPopMid w h a cx ∧ cx' = (a.popIterate cx).2.2 ∧ a'.isInlined = a.isInlined) := by
  obtain ⟨he, hn⟩ := arrPop_ok hc hpop
  have hid : a.rootID = h := hids h _ hc
  have E := emptied_arr hc cx
  have hfree' : NotBelow w (a.popIterate cx).1 h := by rw [arr_pop_fst]; exact notBelow_reverse hfree
  obtain ⟨⟨c', hc', hs⟩, _, hno, hids'⟩ := pop_result_g E hacyc hfree' hn
  obtain ⟨a', rfl, h1, h2, _⟩ := hs.arr
  refine ⟨he.trans (arr_pop_fst a cx), a', hc', h1, h2.trans hid, h1, h2.trans hid, hids' hids hid, ?_⟩
  intro hnone
  obtain ⟨e1, e2⟩ := hno hnone
  refine ⟨e1, e2, ?_⟩
  subst e1
  have := (E.mid_h hfree').1
  rw [this] at hc'
  cases hc'
  rfl

/-- `OrderedMap.PopIterate` through the handle `h`: the same (`kvs = m.toList.reverse`). -/
theorem mapPop_result (w : World) (h : SlabID) (cx : Ctx) (m : OMap 3)
    (hc : w.cont? h = some (.map m)) (hids : World.IdsOk w)
    (rank : SlabID → Nat)
    (hacyc : ∀ y hi, AList.find? w.hinfo y = some hi → rank hi.parent < rank y)
    (hfree : NotBelow w (m.toList.map (·.2)) h)
    (kvs : List (MKey × Elem)) (w' : World) (cx' : Ctx) (hpop : w.mapPop h cx = .ok (kvs, w', cx')) :
    kvs = m.toList.reverse ∧
    ∃ m', w'.cont? h = some (.map m') ∧ m'.toList = [] ∧ m'.rootID = h ∧
      (Cont.map m').storedElems = [] ∧ (Cont.map m').vid = h ∧ World.IdsOk w' ∧
      (AList.find? w.hinfo h = none →
        w' = mapPopMid w h m cx ∧ cx' = (m.popIterate cx).2.2 ∧ m'.isInlined = m.isInlined) := by
  obtain ⟨he, hn⟩ := mapPop_ok hc hpop
  have hid : m.rootID = h := hids h _ hc
  have E := emptied_map hc cx
  have hfree' : NotBelow w ((m.popIterate cx).1.map (·.2)) h := by
    rw [map_pop_fst]; exact notBelow_map_reverse hfree
  obtain ⟨⟨c', hc', hs⟩, _, hno, hids'⟩ := pop_result_g E hacyc hfree' hn
  obtain ⟨m', rfl, h1, h2, _⟩ := hs.map
  refine ⟨he.trans (map_pop_fst m cx), m', hc', h1, h2.trans hid, by show m'.toList.map (·.2) = []; rw [h1]; rfl,
    h2.trans hid, hids' hids hid, ?_⟩
  intro hnone
  obtain ⟨e1, e2⟩ := hno hnone
  refine ⟨e1, e2, ?_⟩
  subst e1
  have := (E.mid_h hfree').1
  rw [this] at hc'
  cases hc'
  rfl

/-! ### B. (F4) the emptied array tracks no child index -/

/-- After `Array.PopIterate` through `h`, the `mutableElementIndex` of `h` is empty: no stale
    index of a removed child survives (the unrepaired Go code kept them all, so that a later
    `Insert(0, child)` shifted stale entries beyond the new element count). -/
theorem arrPop_clears_index (w : World) (h : SlabID) (cx : Ctx) (a : Arr)
    (hc : w.cont? h = some (.arr a))
    (rank : SlabID → Nat)
    (hacyc : ∀ y hi, AList.find? w.hinfo y = some hi → rank hi.parent < rank y)
    (hfree : NotBelow w a.toList h)
    (es : List Elem) (w' : World) (cx' : Ctx) (hpop : w.arrPop h cx = .ok (es, w', cx')) :
    w'.idxOf h = [] ∧ ∀ x, AList.find? (w'.idxOf h) x = none := by
  obtain ⟨_, hn⟩ := arrPop_ok hc hpop
  have E := emptied_arr hc cx
  have hfree' : NotBelow w (a.popIterate cx).1 h := by rw [arr_pop_fst]; exact notBelow_reverse hfree
  obtain ⟨_, hidx, _, _⟩ := pop_result_g E hacyc hfree' hn
  have : w'.idxOf h = [] := by
    rw [hidx]; simp [World.setIdx, AList.find?_insert]
  exact ⟨this, fun x => by rw [this]; rfl⟩

/-- `mutableElementIndex` stays correct through `Array.PopIterate`: every recorded index of every
    array still holds a reference to its child afterwards.  As in `C10.mutIdx_ok_arrInsert`, the
    list-level behaviour of the array operations is taken as hypotheses relative to an invariant
    `I` of arrays; `hpopI`: the emptied array satisfies `I`. -/
theorem arrPop_mutIdxOk (w : World) (h : SlabID) (cx : Ctx)
    (es : List Elem) (w' : World) (cx' : Ctx) (hpop : w.arrPop h cx = .ok (es, w', cx'))
    (hmi : MutIdxOk w)
    (I : Arr → Prop) (hI : ∀ q a, w.cont? q = some (.arr a) → I a)
    (hpopI : ∀ (a : Arr) (c : Ctx), I a → I (a.popIterate c).2.1)
    (hsetL : ∀ (a a' : Arr) (c c' : Ctx) (j : Nat) (e old : Elem), I a → a.set w.T j e c = .ok (old, a', c') →
      (∃ r, e.pay = .ref r) → I a' ∧ a'.toList = a.toList.set j e)
    (hinsL : ∀ (a a' : Arr) (c c' : Ctx) (j : Nat) (e : Elem), I a → a.insert w.T j e c = .ok (a', c') →
      I a' ∧ j ≤ a.toList.length ∧ ∃ e', a'.toList = a.toList.insertIdx j e' ∧ (∀ r, e.pay = .ref r → e' = e))
    (hgetL : ∀ (a : Arr) (j : Nat) (el : Elem), I a → a.get j = .ok el → a.toList[j]? = some el)
    (hform : ∀ (a a' : Arr), a'.toList = a.toList → a'.rootID = a.rootID → (∀ i, a'.get i = a.get i) → I a → I a') :
    MutIdxOk w' ∧ ∀ q a, w'.cont? q = some (.arr a) → I a := by
  obtain ⟨a, hc⟩ := arrPop_isArr hpop
  obtain ⟨_, hn⟩ := arrPop_ok hc hpop
  have F : ArrFacts w.T I := ⟨hsetL, hinsL, hgetL, hform⟩
  have := pop_mInv_g (emptied_arr hc cx) F ⟨hI, hmi⟩
    (fun a0 h0 => by cases h0; exact ⟨hpopI a cx (hI h a hc), by simp⟩) hn
  exact ⟨this.2, this.1⟩

/-- the same for `OrderedMap.PopIterate` (no array is written except by the notification) -/
theorem mapPop_mutIdxOk (w : World) (h : SlabID) (cx : Ctx)
    (kvs : List (MKey × Elem)) (w' : World) (cx' : Ctx) (hpop : w.mapPop h cx = .ok (kvs, w', cx'))
    (hmi : MutIdxOk w)
    (I : Arr → Prop) (hI : ∀ q a, w.cont? q = some (.arr a) → I a)
    (hsetL : ∀ (a a' : Arr) (c c' : Ctx) (j : Nat) (e old : Elem), I a → a.set w.T j e c = .ok (old, a', c') →
      (∃ r, e.pay = .ref r) → I a' ∧ a'.toList = a.toList.set j e)
    (hinsL : ∀ (a a' : Arr) (c c' : Ctx) (j : Nat) (e : Elem), I a → a.insert w.T j e c = .ok (a', c') →
      I a' ∧ j ≤ a.toList.length ∧ ∃ e', a'.toList = a.toList.insertIdx j e' ∧ (∀ r, e.pay = .ref r → e' = e))
    (hgetL : ∀ (a : Arr) (j : Nat) (el : Elem), I a → a.get j = .ok el → a.toList[j]? = some el)
    (hform : ∀ (a a' : Arr), a'.toList = a.toList → a'.rootID = a.rootID → (∀ i, a'.get i = a.get i) → I a → I a') :
    MutIdxOk w' ∧ ∀ q a, w'.cont? q = some (.arr a) → I a := by
  obtain ⟨m, hc⟩ := mapPop_isMap hpop
  obtain ⟨_, hn⟩ := mapPop_ok hc hpop
  have F : ArrFacts w.T I := ⟨hsetL, hinsL, hgetL, hform⟩
  have := pop_mInv_g (emptied_map hc cx) F ⟨hI, hmi⟩ (fun a0 h0 => by cases h0) hn
  exact ⟨this.2, this.1⟩

/-! ### C. (F3) the pop reaches the parent -/

/-- The analogue of `C10.notify_updates_array_parent` for `Array.PopIterate` through the handle of
    a child `h` that sits in slot `idx` of an ARRAY parent `p`: if the parent's element was in sync
    with the child before (`hsync`), it is in sync with the EMPTIED child afterwards — slot `idx`
    still refers to `h` and its size is `World.slotSize c' hi.wrap` for the final form `c'` of the
    child — and the child is inline exactly when the emptied container fits the slot's budget.
    This is what the unrepaired Go code violated (F3): it left the parent's element (e.g. the
    94-byte inlined child of the example below) untouched while the child had shrunk to 17 bytes.
    Hypotheses `hmax`, `rank`/`hacyc`, `hset` as in `C10.notify_updates_array_parent`; `hfree`,
    `hpfree`: neither `h` nor its parent is nested below the popped elements (both follow from
    a common rank for references and parent pointers: `not_below_own_elements`). -/
theorem arrPop_updates_array_parent (w : World) (h p : SlabID) (hi : HInfo) (cx : Ctx)
    (a : Arr) (pa : Arr) (idx : Nat) (el : Elem)
    (hh : AList.find? w.hinfo h = some hi) (hp : hi.parent = p)
    (hc : w.cont? h = some (.arr a)) (hid : a.rootID = h)
    (hpa : w.cont? p = some (.arr pa)) (hidx : AList.find? (w.idxOf p) h = some idx)
    (hget : pa.get idx = .ok el) (hel : el.pay = .ref h)
    (hsync : el.size = World.slotSize (.arr a) hi.wrap)
    (hmax : hi.maxInline = maxInlineArr w.T - 2 * hi.wrap)
    (rank : SlabID → Nat)
    (hacyc : ∀ y hi, AList.find? w.hinfo y = some hi → rank hi.parent < rank y)
    (hset : ∀ (e : Elem) (c0 : Ctx) (old : Elem) (a' : Arr) (c1 : Ctx), e.pay = .ref h →
        pa.set w.T idx e c0 = .ok (old, a', c1) → a'.get idx = .ok e)
    (hfree : NotBelow w a.toList h) (hpfree : NotBelow w a.toList p)
    (es : List Elem) (w' : World) (cx' : Ctx) (hpop : w.arrPop h cx = .ok (es, w', cx')) :
    ∃ c' pa' el', w'.cont? h = some c' ∧ c'.vid = h ∧ c'.storedElems = [] ∧
      w'.cont? p = some (.arr pa') ∧
      pa'.get idx = .ok el' ∧ el'.pay = .ref h ∧ el'.size = World.slotSize c' hi.wrap ∧
      -- the emptied child stays a separate slab: nothing else happens
      (a.isInlined = false ∧ (Cont.arr (a.popIterate cx).2.1).inlinable hi.maxInline = false →
        w' = arrPopMid w h a cx ∧ cx' = (a.popIterate cx).2.2) ∧
      (¬ (a.isInlined = false ∧ (Cont.arr (a.popIterate cx).2.1).inlinable hi.maxInline = false) →
        c'.isInlined = (Cont.arr (a.popIterate cx).2.1).inlinable hi.maxInline) := by
  obtain ⟨_, hn⟩ := arrPop_ok hc hpop
  have E := emptied_arr hc cx
  have hf1 : NotBelow w (a.popIterate cx).1 h := by rw [arr_pop_fst]; exact notBelow_reverse hfree
  have hf2 : NotBelow w (a.popIterate cx).1 p := by rw [arr_pop_fst]; exact notBelow_reverse hpfree
  exact pop_updates_array_parent_g E hh hp ((arr_popIterate_refines a cx).2.2.1.trans hid) hpa hidx hget hel
    (fun hinl => by
      have hinl' : a.isInlined = false := hinl
      have h2 : (a.popIterate cx).2.1.isInlined = false := hinl
      rw [hsync]; simp [World.slotSize, Cont.isInlined, hinl', h2])
    hmax rank hacyc hset hf1 hf2 hn

/-- The same for `OrderedMap.PopIterate` through the handle of a MAP child `h` that sits in slot
    `idx` of an array parent `p`. -/
theorem mapPop_updates_array_parent (w : World) (h p : SlabID) (hi : HInfo) (cx : Ctx)
    (m : OMap 3) (pa : Arr) (idx : Nat) (el : Elem)
    (hh : AList.find? w.hinfo h = some hi) (hp : hi.parent = p)
    (hc : w.cont? h = some (.map m)) (hid : m.rootID = h)
    (hpa : w.cont? p = some (.arr pa)) (hidx : AList.find? (w.idxOf p) h = some idx)
    (hget : pa.get idx = .ok el) (hel : el.pay = .ref h)
    (hsync : el.size = World.slotSize (.map m) hi.wrap)
    (hmax : hi.maxInline = maxInlineArr w.T - 2 * hi.wrap)
    (rank : SlabID → Nat)
    (hacyc : ∀ y hi, AList.find? w.hinfo y = some hi → rank hi.parent < rank y)
    (hset : ∀ (e : Elem) (c0 : Ctx) (old : Elem) (a' : Arr) (c1 : Ctx), e.pay = .ref h →
        pa.set w.T idx e c0 = .ok (old, a', c1) → a'.get idx = .ok e)
    (hfree : NotBelow w (m.toList.map (·.2)) h) (hpfree : NotBelow w (m.toList.map (·.2)) p)
    (kvs : List (MKey × Elem)) (w' : World) (cx' : Ctx) (hpop : w.mapPop h cx = .ok (kvs, w', cx')) :
    ∃ c' pa' el', w'.cont? h = some c' ∧ c'.vid = h ∧ c'.storedElems = [] ∧
      w'.cont? p = some (.arr pa') ∧
      pa'.get idx = .ok el' ∧ el'.pay = .ref h ∧ el'.size = World.slotSize c' hi.wrap ∧
      (m.isInlined = false ∧ (Cont.map (m.popIterate cx).2.1).inlinable hi.maxInline = false →
        w' = mapPopMid w h m cx ∧ cx' = (m.popIterate cx).2.2) ∧
      (¬ (m.isInlined = false ∧ (Cont.map (m.popIterate cx).2.1).inlinable hi.maxInline = false) →
        c'.isInlined = (Cont.map (m.popIterate cx).2.1).inlinable hi.maxInline) := by
  obtain ⟨_, hn⟩ := mapPop_ok hc hpop
  have E := emptied_map hc cx
  have hf1 : NotBelow w ((m.popIterate cx).1.map (·.2)) h := by
    rw [map_pop_fst]; exact notBelow_map_reverse hfree
  have hf2 : NotBelow w ((m.popIterate cx).1.map (·.2)) p := by
    rw [map_pop_fst]; exact notBelow_map_reverse hpfree
  exact pop_updates_array_parent_g E hh hp hid hpa hidx hget hel
    (fun hinl => by
      have hinl' : m.isInlined = false := hinl
      have h2 : (m.popIterate cx).2.1.isInlined = false := hinl
      rw [hsync]; simp [World.slotSize, Cont.isInlined, hinl', h2])
    hmax rank hacyc hset hf1 hf2 hn

/-- The MAP-parent analogue: `Array.PopIterate` through the handle of a child `h` that sits under
    key `k` of a map parent `p`.  If the parent's value under `k` was in sync with the child before,
    it is in sync with the emptied child afterwards, and the child is inline exactly when the
    emptied container fits the budget of a map value under `k`.  Hypotheses as in
    `World.notify_updates_map_parent` (the map-parent analogue of
    `C10.notify_updates_array_parent`, `AtreeProofs/World/PopMapParent.lean`). -/
theorem arrPop_updates_map_parent (w : World) (h p : SlabID) (hi : HInfo) (cx : Ctx)
    (a : Arr) (pm : OMap 3) (k k0 : MKey) (el : Elem)
    (hh : AList.find? w.hinfo h = some hi) (hp : hi.parent = p) (hk : hi.key = some k)
    (hc : w.cont? h = some (.arr a)) (hid : a.rootID = h)
    (hpm : w.cont? p = some (.map pm)) (hget : pm.get w.mcfg k = .ok (k0, el)) (hel : el.pay = .ref h)
    (hsync : el.size = World.slotSize (.arr a) hi.wrap)
    (hmax : hi.maxInline = maxInlineMapValue w.T k.size - 2 * hi.wrap)
    (rank : SlabID → Nat)
    (hacyc : ∀ y hi, AList.find? w.hinfo y = some hi → rank hi.parent < rank y)
    (hset : ∀ (e : Elem) (c0 : Ctx) (old : Option Elem) (m' : OMap 3) (c1 : Ctx), e.pay = .ref h →
        pm.set w.mcfg k e c0 = .ok (old, m', c1) → ∃ k1, m'.get w.mcfg k = .ok (k1, e))
    (hfree : NotBelow w a.toList h) (hpfree : NotBelow w a.toList p)
    (es : List Elem) (w' : World) (cx' : Ctx) (hpop : w.arrPop h cx = .ok (es, w', cx')) :
    ∃ c' pm' k1 el', w'.cont? h = some c' ∧ c'.vid = h ∧ c'.storedElems = [] ∧
      w'.cont? p = some (.map pm') ∧
      pm'.get w.mcfg k = .ok (k1, el') ∧ el'.pay = .ref h ∧ el'.size = World.slotSize c' hi.wrap ∧
      (a.isInlined = false ∧ (Cont.arr (a.popIterate cx).2.1).inlinable hi.maxInline = false →
        w' = arrPopMid w h a cx ∧ cx' = (a.popIterate cx).2.2) ∧
      (¬ (a.isInlined = false ∧ (Cont.arr (a.popIterate cx).2.1).inlinable hi.maxInline = false) →
        c'.isInlined = (Cont.arr (a.popIterate cx).2.1).inlinable hi.maxInline) := by
  obtain ⟨_, hn⟩ := arrPop_ok hc hpop
  have E := emptied_arr hc cx
  have hf1 : NotBelow w (a.popIterate cx).1 h := by rw [arr_pop_fst]; exact notBelow_reverse hfree
  have hf2 : NotBelow w (a.popIterate cx).1 p := by rw [arr_pop_fst]; exact notBelow_reverse hpfree
  exact pop_updates_map_parent_g E hh hp hk ((arr_popIterate_refines a cx).2.2.1.trans hid) hpm hget hel
    (fun hinl => by
      have hinl' : a.isInlined = false := hinl
      have h2 : (a.popIterate cx).2.1.isInlined = false := hinl
      rw [hsync]; simp [World.slotSize, Cont.isInlined, hinl', h2])
    hmax rank hacyc hset hf1 hf2 hn

/-- … and `OrderedMap.PopIterate` through the handle of a MAP child under key `k` of a map parent. -/
theorem mapPop_updates_map_parent (w : World) (h p : SlabID) (hi : HInfo) (cx : Ctx)
    (m : OMap 3) (pm : OMap 3) (k k0 : MKey) (el : Elem)
    (hh : AList.find? w.hinfo h = some hi) (hp : hi.parent = p) (hk : hi.key = some k)
    (hc : w.cont? h = some (.map m)) (hid : m.rootID = h)
    (hpm : w.cont? p = some (.map pm)) (hget : pm.get w.mcfg k = .ok (k0, el)) (hel : el.pay = .ref h)
    (hsync : el.size = World.slotSize (.map m) hi.wrap)
    (hmax : hi.maxInline = maxInlineMapValue w.T k.size - 2 * hi.wrap)
    (rank : SlabID → Nat)
    (hacyc : ∀ y hi, AList.find? w.hinfo y = some hi → rank hi.parent < rank y)
    (hset : ∀ (e : Elem) (c0 : Ctx) (old : Option Elem) (m' : OMap 3) (c1 : Ctx), e.pay = .ref h →
        pm.set w.mcfg k e c0 = .ok (old, m', c1) → ∃ k1, m'.get w.mcfg k = .ok (k1, e))
    (hfree : NotBelow w (m.toList.map (·.2)) h) (hpfree : NotBelow w (m.toList.map (·.2)) p)
    (kvs : List (MKey × Elem)) (w' : World) (cx' : Ctx) (hpop : w.mapPop h cx = .ok (kvs, w', cx')) :
    ∃ c' pm' k1 el', w'.cont? h = some c' ∧ c'.vid = h ∧ c'.storedElems = [] ∧
      w'.cont? p = some (.map pm') ∧
      pm'.get w.mcfg k = .ok (k1, el') ∧ el'.pay = .ref h ∧ el'.size = World.slotSize c' hi.wrap ∧
      (m.isInlined = false ∧ (Cont.map (m.popIterate cx).2.1).inlinable hi.maxInline = false →
        w' = mapPopMid w h m cx ∧ cx' = (m.popIterate cx).2.2) ∧
      (¬ (m.isInlined = false ∧ (Cont.map (m.popIterate cx).2.1).inlinable hi.maxInline = false) →
        c'.isInlined = (Cont.map (m.popIterate cx).2.1).inlinable hi.maxInline) := by
  obtain ⟨_, hn⟩ := mapPop_ok hc hpop
  have E := emptied_map hc cx
  have hf1 : NotBelow w ((m.popIterate cx).1.map (·.2)) h := by
    rw [map_pop_fst]; exact notBelow_map_reverse hfree
  have hf2 : NotBelow w ((m.popIterate cx).1.map (·.2)) p := by
    rw [map_pop_fst]; exact notBelow_map_reverse hpfree
  exact pop_updates_map_parent_g E hh hp hk hid hpm hget hel
    (fun hinl => by
      have hinl' : m.isInlined = false := hinl
      have h2 : (m.popIterate cx).2.1.isInlined = false := hinl
      rw [hsync]; simp [World.slotSize, Cont.isInlined, hinl', h2])
    hmax rank hacyc hset hf1 hf2 hn

/-! ### D. (C09) exactly the popped subtree is forgotten, and `h`'s own slabs are released -/

/-- After `Array.PopIterate` through `h`: every container referenced by a popped element, and
    everything nested below it at any depth, is gone from the container table; every container
    NOT nested below the popped elements is still there (`h` itself, its parent, its siblings,
    unrelated containers) — and nothing new appears.  No acyclicity of parent pointers needed. -/
theorem arrPop_forgets_exactly_the_subtree (w : World) (h : SlabID) (cx : Ctx) (a : Arr)
    (hc : w.cont? h = some (.arr a)) (hfree : NotBelow w a.toList h)
    (es : List Elem) (w' : World) (cx' : Ctx) (hpop : w.arrPop h cx = .ok (es, w', cx')) :
    (∀ e ∈ a.toList, ∀ v x, e.pay = .ref v → Reach w v x → w'.cont? x = none) ∧
    (∀ x, NotBelow w a.toList x → (w'.cont? x).isSome = (w.cont? x).isSome) := by
  obtain ⟨_, hn⟩ := arrPop_ok hc hpop
  have hfree' : NotBelow w (a.popIterate cx).1 h := by rw [arr_pop_fst]; exact notBelow_reverse hfree
  obtain ⟨g1, g2⟩ := pop_forgets_g (emptied_arr hc cx) hfree' hn
  refine ⟨fun e he v x hp hr => g1 e (by rw [arr_pop_fst]; exact List.mem_reverse.mpr he) v x hp hr,
    fun x hx => g2 x (by rw [arr_pop_fst]; exact notBelow_reverse hx)⟩

/-- the same for `OrderedMap.PopIterate` (the popped elements are the VALUES of the map) -/
theorem mapPop_forgets_exactly_the_subtree (w : World) (h : SlabID) (cx : Ctx) (m : OMap 3)
    (hc : w.cont? h = some (.map m)) (hfree : NotBelow w (m.toList.map (·.2)) h)
    (kvs : List (MKey × Elem)) (w' : World) (cx' : Ctx) (hpop : w.mapPop h cx = .ok (kvs, w', cx')) :
    (∀ e ∈ m.toList.map (·.2), ∀ v x, e.pay = .ref v → Reach w v x → w'.cont? x = none) ∧
    (∀ x, NotBelow w (m.toList.map (·.2)) x → (w'.cont? x).isSome = (w.cont? x).isSome) := by
  obtain ⟨_, hn⟩ := mapPop_ok hc hpop
  have hfree' : NotBelow w ((m.popIterate cx).1.map (·.2)) h := by
    rw [map_pop_fst]; exact notBelow_map_reverse hfree
  obtain ⟨g1, g2⟩ := pop_forgets_g (emptied_map hc cx) hfree' hn
  refine ⟨fun e he v x hp hr => g1 e ?_ v x hp hr, fun x hx => g2 x (by rw [map_pop_fst]; exact notBelow_map_reverse hx)⟩
  rw [map_pop_fst, List.map_reverse]
  exact List.mem_reverse.mpr he

/-- Storage effects of `Array.PopIterate` through `h` (lift of `C09.pop_releases_all`, for inlined
    `h` too): among the effects appended to the log (`C09.newEffects cx cx'`) there is a
    `remove id` for every slab of `h`'s own tree other than its root, and — if `h` is not inlined —
the `store` of the emptied root; and the log has only been extended (`LogExt cx cx'`).
    The notification only appends to the log, after the effects of the container-level pop
    (`pop_log_grows`; array / map `set` only append to the log, for every tree:
    `AtreeProofs/World/PopLog.lean`). -/
theorem arrPop_releases_own_slabs (w : World) (h : SlabID) (cx : Ctx) (a : Arr)
    (hc : w.cont? h = some (.arr a))
    (es : List Elem) (w' : World) (cx' : Ctx) (hpop : w.arrPop h cx = .ok (es, w', cx')) :
    (∀ id ∈ ATree.slabIds a.d a.root, id ≠ a.rootID → Eff.remove id ∈ cx'.eff.drop cx.eff.length) ∧
    (a.isInlined = false → Eff.store a.rootID ∈ cx'.eff.drop cx.eff.length) ∧
    LogExt cx cx' := by
  have hlog : LogExt (a.popIterate cx).2.2 cx' :=
    notifyParent_logExt (setAppends _ _) (arrPop_ok hc hpop).2
  obtain ⟨E, h1, _, h3⟩ := popIterate_log a.d a.root cx
  have hmid : (a.popIterate cx).2.2.eff = cx.eff ++ (E ++ if a.isInlined then [] else [.store a.rootID]) := by
    show (if a.isInlined = true then (ATree.popIterate a.d a.root cx).2.2
          else (ATree.popIterate a.d a.root cx).2.2.emit _).eff = _
    cases a.isInlined <;> simp [Ctx.emit, h1]
  refine ⟨fun id hid hne => ?_, fun hinl => ?_, LogExt.trans ⟨_, hmid⟩ hlog⟩
  · rw [slabIds_eq] at hid
    rcases List.mem_cons.1 hid with h0 | h0
    · exact absurd h0 hne
    · exact LogExt.mem_new hmid hlog (List.mem_append.mpr (Or.inl (h3 id h0)))
  · exact LogExt.mem_new hmid hlog (List.mem_append.mpr (Or.inr (by simp [hinl])))

/-- the same for `OrderedMap.PopIterate` (children of index slabs and external collision groups) -/
theorem mapPop_releases_own_slabs (w : World) (h : SlabID) (cx : Ctx) (m : OMap 3)
    (hc : w.cont? h = some (.map m))
    (kvs : List (MKey × Elem)) (w' : World) (cx' : Ctx) (hpop : w.mapPop h cx = .ok (kvs, w', cx')) :
    (∀ id ∈ (MTree.slabs m.d m.root).map (·.1), id ≠ m.rootID → Eff.remove id ∈ cx'.eff.drop cx.eff.length) ∧
    (m.isInlined = false → Eff.store m.rootID ∈ cx'.eff.drop cx.eff.length) ∧
    LogExt cx cx' := by
  have hlog : LogExt (m.popIterate cx).2.2 cx' :=
    notifyParent_logExt (setAppends _ _) (mapPop_ok hc hpop).2
  obtain ⟨E, h1, _, h3⟩ := mtree_pop_log m.d m.root cx
  have hmid : (m.popIterate cx).2.2.eff = cx.eff ++ (E ++ if m.isInlined then [] else [.store m.rootID]) := by
    show (if m.isInlined = true then (MTree.popIterate m.d m.root cx).2.2
          else (MTree.popIterate m.d m.root cx).2.2.emit _).eff = _
    cases m.isInlined <;> simp [Ctx.emit, h1]
  refine ⟨fun id hid hne => ?_, fun hinl => ?_, LogExt.trans ⟨_, hmid⟩ hlog⟩
  · rw [mslabs_eq] at hid
    rcases List.mem_cons.1 hid with h0 | h0
    · exact absurd h0 hne
    · exact LogExt.mem_new hmid hlog (List.mem_append.mpr (Or.inl (h3 id h0)))
  · exact LogExt.mem_new hmid hlog (List.mem_append.mpr (Or.inr (by simp [hinl])))

/-- The notification inside a pop only appends to the effect log (after the effects of the
    container-level pop): nothing the pop logged is lost or reordered. -/
theorem pop_log_grows (w : World) (h : SlabID) (cx : Ctx) :
    (∀ a es w' cx', w.cont? h = some (.arr a) → w.arrPop h cx = .ok (es, w', cx') →
        LogExt (a.popIterate cx).2.2 cx') ∧
    (∀ m kvs w' cx', w.cont? h = some (.map m) → w.mapPop h cx = .ok (kvs, w', cx') →
        LogExt (m.popIterate cx).2.2 cx') :=
  ⟨fun _ _ _ _ hc hpop => notifyParent_logExt (setAppends _ _) (arrPop_ok hc hpop).2,
   fun _ _ _ _ hc hpop => notifyParent_logExt (setAppends _ _) (mapPop_ok hc hpop).2⟩

/-! ### E. (C11) popping a detached container leaves the former parent alone -/

/-- If the callback of `h` finds nothing in the recorded parent (`Detached w h hi`: the parent is
    gone; or it is an array whose index table does not know `h`, or knows a slot that now holds
    something else; or it is a map where the recorded key is absent or holds something else — the
    hypotheses of `C11.detached_array_child_leaves_parent_unchanged`,
    `C11.replaced_slot_leaves_parent_unchanged`, `C11.detached_map_child_leaves_parent_unchanged`),
    then `Array.PopIterate` through `h` writes nothing but `h`: the former parent's container and
    index table are unchanged, so is every other container outside the popped subtree, and the
    only storage effects are those of the container-level pop.
    `hpfree`: the former parent is not itself nested below the popped elements (a stale parent
    pointer does not exclude it); `hne`: `h` is not its own recorded parent. -/
theorem arrPop_of_detached_leaves_former_parent_unchanged (w : World) (h : SlabID) (cx : Ctx) (a : Arr)
    (hi : HInfo) (hc : w.cont? h = some (.arr a)) (hh : AList.find? w.hinfo h = some hi)
    (hd : Detached w h hi) (hne : hi.parent ≠ h)
    (hfree : NotBelow w a.toList h) (hpfree : NotBelow w a.toList hi.parent)
    (es : List Elem) (w' : World) (cx' : Ctx) (hpop : w.arrPop h cx = .ok (es, w', cx')) :
    w'.cont? hi.parent = w.cont? hi.parent ∧ w'.idxOf hi.parent = w.idxOf hi.parent ∧
    cx' = (a.popIterate cx).2.2 ∧ w'.cont? h = some (.arr (a.popIterate cx).2.1) ∧
    (∀ x, x ≠ h → NotBelow w a.toList x → w'.cont? x = w.cont? x ∧ w'.idxOf x = w.idxOf x) := by
  obtain ⟨_, hn⟩ := arrPop_ok hc hpop
  have hf1 : NotBelow w (a.popIterate cx).1 h := by rw [arr_pop_fst]; exact notBelow_reverse hfree
  have hf2 : NotBelow w (a.popIterate cx).1 hi.parent := by rw [arr_pop_fst]; exact notBelow_reverse hpfree
  obtain ⟨g1, g2, g3, g4, g5⟩ := pop_detached_g (emptied_arr hc cx) hh hd hne hf1 hf2 hn
  exact ⟨g3, g4, g1, g2, fun x hx hnb => g5 x hx (by rw [arr_pop_fst]; exact notBelow_reverse hnb)⟩

/-- the same for `OrderedMap.PopIterate` -/
theorem mapPop_of_detached_leaves_former_parent_unchanged (w : World) (h : SlabID) (cx : Ctx) (m : OMap 3)
    (hi : HInfo) (hc : w.cont? h = some (.map m)) (hh : AList.find? w.hinfo h = some hi)
    (hd : Detached w h hi) (hne : hi.parent ≠ h)
    (hfree : NotBelow w (m.toList.map (·.2)) h) (hpfree : NotBelow w (m.toList.map (·.2)) hi.parent)
    (kvs : List (MKey × Elem)) (w' : World) (cx' : Ctx) (hpop : w.mapPop h cx = .ok (kvs, w', cx')) :
    w'.cont? hi.parent = w.cont? hi.parent ∧ w'.idxOf hi.parent = w.idxOf hi.parent ∧
    cx' = (m.popIterate cx).2.2 ∧ w'.cont? h = some (.map (m.popIterate cx).2.1) ∧
    (∀ x, x ≠ h → NotBelow w (m.toList.map (·.2)) x → w'.cont? x = w.cont? x ∧ w'.idxOf x = w.idxOf x) := by
  obtain ⟨_, hn⟩ := mapPop_ok hc hpop
  have hf1 : NotBelow w ((m.popIterate cx).1.map (·.2)) h := by
    rw [map_pop_fst]; exact notBelow_map_reverse hfree
  have hf2 : NotBelow w ((m.popIterate cx).1.map (·.2)) hi.parent := by
    rw [map_pop_fst]; exact notBelow_map_reverse hpfree
  obtain ⟨g1, g2, g3, g4, g5⟩ := pop_detached_g (emptied_map hc cx) hh hd hne hf1 hf2 hn
  exact ⟨g3, g4, g1, g2, fun x hx hnb => g5 x hx (by rw [map_pop_fst]; exact notBelow_map_reverse hnb)⟩

section Counterexamples
/-! Two hypotheses are needed beyond those of `C10.notify_updates_array_parent`: `hfree` (the
    container is not nested below its own elements) and, for C, `hsync` (the parent's element was
    in sync before the pop).  Each is shown necessary on a concrete (hand-built) World: the
    statement without it is refuted. -/
open Atree.C10 (mkArr cxA)
open Atree.PopScenario (okL eq_okL)

/-- CE 1 (for A, B, C, D, E): an array `X` that holds a reference to ITSELF (element references
    are cyclic: `NotBelow wSelf [ref X] X` fails).  The caller disposes of what was popped, hence
    of `X`: after the pop `X` is not a container any more. -/
def wSelf : World :=
  { T := 256, addr := 1, conts := [(C10.X, .arr (mkArr C10.X false [⟨19, .ref C10.X⟩]))] }
def rSelf : List Elem × World × Ctx := okL (wSelf.arrPopS C10.X cxA)

/-- `arrPop_result` without `hfree` -/
def ResultWithoutFree : Prop :=
  ∀ (w : World) (h : SlabID) (cx : Ctx) (a : Arr), w.cont? h = some (.arr a) → World.IdsOk w →
    ∀ (rank : SlabID → Nat), (∀ y hi, AList.find? w.hinfo y = some hi → rank hi.parent < rank y) →
    ∀ (es : List Elem) (w' : World) (cx' : Ctx), w.arrPop h cx = .ok (es, w', cx') →
    ∃ a', w'.cont? h = some (.arr a')

theorem resultWithoutFree_false : ¬ ResultWithoutFree := by
  intro H
  have hr : wSelf.arrPop C10.X cxA = .ok (rSelf.1, rSelf.2.1, rSelf.2.2) := by
    rw [arrPop_eq_S]; exact eq_okL _ (by decide)
  obtain ⟨a', ha'⟩ := H wSelf C10.X cxA _ rfl (idsOk_of_B (by decide)) (fun _ => 0)
    (fun y hi hy => by cases hy) rSelf.1 rSelf.2.1 rSelf.2.2 hr
  have : (rSelf.2.1.cont? C10.X).isSome = false := by decide
  rw [ha'] at this
  cases this

/-- CE 2 (for C): the child `X` sits, standalone, in slot 0 of `P` behind 59 wrappers, so that
    its inline budget is 0: the emptied `X` (17 bytes when inlined) stays a separate slab and the
    notification writes nothing.  The parent's element had the WRONG size 27 before the pop (instead
    of `19 + 2 * 59`), and still has it afterwards: without `hsync` ("in sync before") the
    conclusion "in sync after" fails. -/
def wSync : World :=
  { T := 256, addr := 1,
    conts := [(C10.P, .arr (mkArr C10.P false [⟨27, .ref C10.X⟩])), (C10.X, .arr (mkArr C10.X false [⟨10, .val 0⟩]))],
    hinfo := [(C10.X, ⟨C10.P, none, 0, 59⟩)],
    mutIdx := [(C10.P, [(C10.X, 0)])] }
def rSync : List Elem × World × Ctx := okL (wSync.arrPopS C10.X cxA)

/-- `arrPop_updates_array_parent` without `hsync` -/
def UpdatesWithoutSync : Prop :=
  ∀ (w : World) (h p : SlabID) (hi : HInfo) (cx : Ctx) (a : Arr) (pa : Arr) (idx : Nat) (el : Elem),
    AList.find? w.hinfo h = some hi → hi.parent = p → w.cont? h = some (.arr a) → a.rootID = h →
    w.cont? p = some (.arr pa) → AList.find? (w.idxOf p) h = some idx → pa.get idx = .ok el → el.pay = .ref h →
    hi.maxInline = maxInlineArr w.T - 2 * hi.wrap →
    ∀ (rank : SlabID → Nat), (∀ y hi, AList.find? w.hinfo y = some hi → rank hi.parent < rank y) →
    (∀ (e : Elem) (c0 : Ctx) (old : Elem) (a' : Arr) (c1 : Ctx), e.pay = .ref h →
        pa.set w.T idx e c0 = .ok (old, a', c1) → a'.get idx = .ok e) →
    NotBelow w a.toList h → NotBelow w a.toList p →
    ∀ (es : List Elem) (w' : World) (cx' : Ctx), w.arrPop h cx = .ok (es, w', cx') →
    ∃ c' pa' el', w'.cont? h = some c' ∧ w'.cont? p = some (.arr pa') ∧
      pa'.get idx = .ok el' ∧ el'.pay = .ref h ∧ el'.size = World.slotSize c' hi.wrap

theorem updatesWithoutSync_false : ¬ UpdatesWithoutSync := by
  intro H
  have hr : wSync.arrPop C10.X cxA = .ok (rSync.1, rSync.2.1, rSync.2.2) := by
    rw [arrPop_eq_S]; exact eq_okL _ (by decide)
  have hacyc : ∀ y hi, AList.find? wSync.hinfo y = some hi → C10.rankA hi.parent < C10.rankA y := by
    intro y hi hy
    simp only [wSync, AList.find?] at hy
    split at hy
    · rename_i hxy; cases hy; subst hxy; decide
    · cases hy
  have hnb : ∀ x, NotBelow wSync (mkArr C10.X false [⟨10, .val 0⟩]).toList x := by
    intro x e he v hv
    have : e = ⟨10, .val 0⟩ := by simpa [mkArr, Arr.toList, ATree.flatten] using he
    subst this; cases hv
  obtain ⟨c', pa', el', hc', hpa', hg, _, hsz⟩ := H wSync C10.X C10.P ⟨C10.P, none, 0, 59⟩ cxA
    (mkArr C10.X false [⟨10, .val 0⟩]) (mkArr C10.P false [⟨27, .ref C10.X⟩]) 0 ⟨27, .ref C10.X⟩
    rfl rfl rfl rfl rfl rfl rfl rfl (by decide) C10.rankA hacyc
    (fun e c0 old a' c1 he hs => Arr.set_get_single 256 0 _ _ rfl e C10.X he c0 old a' c1 hs)
    (hnb _) (hnb _) rSync.1 rSync.2.1 rSync.2.2 hr
  have h1 : (rSync.2.1.cont? C10.X).map (fun c => World.slotSize c 59) = some 137 := by decide
  have h2 : (rSync.2.1.cont? C10.P).map (fun c => match c with
      | .arr a => (match a.get 0 with | .ok e => some e.size | .error _ => none)
      | .map _ => none) = some (some 27) := by decide
  rw [hc'] at h1
  rw [hpa'] at h2
  simp only [Option.map_some, Option.some.injEq, hg] at h1 h2
  have hsz' : el'.size = World.slotSize c' 59 := hsz
  omega

end Counterexamples

section NonVacuity
/-! Concrete runs of the model (`AtreeProofs/World/PopScenario.lean`, T = 256).
    Run A: root array `R` ∋ inlined child array `X` ∋ [value, inlined grandchild array `Y` ∋ [value],
    value]; state `a8`; `aP` = result of `arrPop X`.  `a9`: `X` removed from `R`; `aD` = result of
    `arrPop X` on the detached `X`.  Run B: the same with a standalone two-level `X` (slabs
    `X`, ⟨1,4⟩, ⟨1,5⟩); `bP`.  Run M: `R` ∋ inlined child map `M` ∋ {k1 ↦ value, k2 ↦ inlined array
    `Y`}; `mP` = result of `mapPop M`; `m8`/`mD`: the detached variant.  Run N: root MAP `M0` ∋
    {k1 ↦ inlined array `X` ∋ [value, `Y`]}; `nP` = result of `arrPop X`.  Run Q: `M0` ∋ {k1 ↦ standalone
    map `M` ∋ {k2 ↦ value, k1 ↦ `Y`}}; `qP` = result of `mapPop M`. -/
open Atree.Scenario (R X arrOf)
open Atree.PopScenario

/-- `R` < `X` = `M` < everything else (`Y`, the data slabs of `X`) -/
def rk : SlabID → Nat := fun z => if z = R then 0 else if z = X then 1 else 2

/-- what the runs look like -/
theorem run_facts :
    -- before the pop: `X` is inline in `R` (94 bytes), `Y` inline in `X` (37 bytes)
    (a8.1.cont? R).map Cont.storedElems = some [⟨94, .ref X⟩] ∧
    (a8.1.cont? X).map Cont.storedElems = some [⟨20, .val 1⟩, ⟨37, .ref Y⟩, ⟨20, .val 3⟩] ∧
    (a8.1.cont? X).map Cont.isInlined = some true ∧ (a8.1.cont? Y).map Cont.isInlined = some true ∧
    a8.1.idxOf X = [(Y, 1)] ∧
    -- after `arrPop X`: all elements handed out, `Y` gone, `X` empty and inline (17 bytes) in `R`,
    -- whose element has been rewritten (F3) and stored; `X` tracks no index (F4)
    aP.1 = [⟨20, .val 3⟩, ⟨37, .ref Y⟩, ⟨20, .val 1⟩] ∧
    (aP.2.1.cont? Y).isSome = false ∧
    (aP.2.1.cont? X).map Cont.storedElems = some [] ∧ (aP.2.1.cont? X).map Cont.isInlined = some true ∧
    (aP.2.1.cont? R).map Cont.storedElems = some [⟨17, .ref X⟩] ∧
    aP.2.1.idxOf X = [] ∧ AList.find? aP.2.1.hinfo Y = none ∧
    aP.2.2.eff = a8.2.eff ++ [.store R] ∧
    -- run B: the standalone two-level `X` releases its two data slabs, is stored empty, and is
    -- then inlined into `R` by the notification
    (b10.1.cont? X).map Cont.isInlined = some false ∧
    (b10.1.cont? R).map Cont.storedElems = some [⟨19, .ref X⟩] ∧
    ATree.slabIds (arrOf b10.1 X).d (arrOf b10.1 X).root = [X, ⟨1, 4⟩, ⟨1, 5⟩] ∧
    bP.2.2.eff = b10.2.eff ++ [.remove ⟨1, 5⟩, .remove ⟨1, 4⟩, .store X, .remove X, .store R] ∧
    (bP.2.1.cont? R).map Cont.storedElems = some [⟨17, .ref X⟩] ∧
    -- run M: the same through a map child
    (m7.1.cont? R).map Cont.storedElems = some [⟨117, .ref M⟩] ∧
    (m7.1.cont? M).map Cont.storedElems = some [⟨20, .val 1⟩, ⟨37, .ref Y⟩] ∧
    mP.1 = [(k2, ⟨37, .ref Y⟩), (k1, ⟨20, .val 1⟩)] ∧
    (mP.2.1.cont? Y).isSome = false ∧ (mP.2.1.cont? M).map Cont.storedElems = some [] ∧
    (mP.2.1.cont? R).map Cont.storedElems = some [⟨22, .ref M⟩] ∧
    -- the index tables are correct before and after (executable check of `MutIdxOk`)
    Scenario.mutIdxOkB a8.1 = true ∧ Scenario.mutIdxOkB aP.2.1 = true ∧
    Scenario.mutIdxOkB b10.1 = true ∧ Scenario.mutIdxOkB bP.2.1 = true ∧
    Scenario.mutIdxOkB m7.1 = true ∧ Scenario.mutIdxOkB mP.2.1 = true := by
  decide

/-- the invariants used as hypotheses hold in the states where the pops are performed -/
theorem invariants_hold :
    World.IdsOk a8.1 ∧ RankOk rk a8.1 ∧ RefRankOk rk a8.1 ∧
    World.IdsOk a9.2.1 ∧ RankOk rk a9.2.1 ∧ RefRankOk rk a9.2.1 ∧
    World.IdsOk b10.1 ∧ RankOk rk b10.1 ∧ RefRankOk rk b10.1 ∧
    World.IdsOk m7.1 ∧ RankOk rk m7.1 ∧ RefRankOk rk m7.1 ∧
    World.IdsOk m8.2.1 ∧ RankOk rk m8.2.1 ∧ RefRankOk rk m8.2.1 :=
  ⟨idsOk_of_B (by decide), rankOk_of_B (by decide), refRankOk_of_B (by decide),
   idsOk_of_B (by decide), rankOk_of_B (by decide), refRankOk_of_B (by decide),
   idsOk_of_B (by decide), rankOk_of_B (by decide), refRankOk_of_B (by decide),
   idsOk_of_B (by decide), rankOk_of_B (by decide), refRankOk_of_B (by decide),
   idsOk_of_B (by decide), rankOk_of_B (by decide), refRankOk_of_B (by decide)⟩

/-- `X` and `R` are not nested below the elements of `X` (derived from the ranks) -/
theorem free_a8 : NotBelow a8.1 (arrOf a8.1 X).toList X ∧ NotBelow a8.1 (arrOf a8.1 X).toList R :=
  ⟨not_below_own_elements rk a8.1 invariants_hold.2.2.1 X (.arr (arrOf a8.1 X)) rfl X (by decide),
   not_below_own_elements rk a8.1 invariants_hold.2.2.1 X (.arr (arrOf a8.1 X)) rfl R (by decide)⟩

/-- A / B: `arrPop_result`, `arrPop_clears_index` apply to `arrPop X` in state `a8` -/
example : aP.1 = (arrOf a8.1 X).toList.reverse ∧
    ∃ a', aP.2.1.cont? X = some (.arr a') ∧ a'.toList = [] ∧ a'.rootID = X ∧
      (Cont.arr a').storedElems = [] ∧ (Cont.arr a').vid = X ∧ World.IdsOk aP.2.1 := by
  obtain ⟨h1, a', h2, h3, h4, h5, h6, h7, _⟩ :=
    arrPop_result a8.1 X a8.2 (arrOf a8.1 X) rfl invariants_hold.1 rk invariants_hold.2.1 free_a8.1
      aP.1 aP.2.1 aP.2.2 runA_ok.2.2.2.2.2.2.2.2.1
  exact ⟨h1, a', h2, h3, h4, h5, h6, h7⟩

example : aP.2.1.idxOf X = [] ∧ ∀ x, AList.find? (aP.2.1.idxOf X) x = none :=
  arrPop_clears_index a8.1 X a8.2 (arrOf a8.1 X) rfl rk invariants_hold.2.1 free_a8.1
    aP.1 aP.2.1 aP.2.2 runA_ok.2.2.2.2.2.2.2.2.1

/-- the `no callback` clause of `arrPop_result` is exercised by popping the ROOT `R` in state `a8`
    (it forgets `X` and `Y`) -/
example : AList.find? a8.1.hinfo R = none ∧ (a8.1.arrPop R a8.2).toBool = true := by
  constructor
  · decide
  · rw [arrPop_eq_S]; decide

/-- C: all hypotheses of `arrPop_updates_array_parent` are met in state `a8` (child `X` in slot 0 of
    `R`, the 94-byte element in sync with the inlined child) … -/
theorem updates_hyps_met :
    ∃ (pa : Arr) (el : Elem),
      AList.find? a8.1.hinfo X = some ⟨R, none, 117, 0⟩ ∧
      a8.1.cont? X = some (.arr (arrOf a8.1 X)) ∧ (arrOf a8.1 X).rootID = X ∧
      a8.1.cont? R = some (.arr pa) ∧ AList.find? (a8.1.idxOf R) X = some 0 ∧
      pa.get 0 = .ok el ∧ el.pay = .ref X ∧ el.size = World.slotSize (.arr (arrOf a8.1 X)) 0 ∧
      (117 : Nat) = maxInlineArr a8.1.T - 2 * 0 ∧
      (∀ y hi, AList.find? a8.1.hinfo y = some hi → rk hi.parent < rk y) ∧
      (∀ (e : Elem) (c0 : Ctx) (old : Elem) (a' : Arr) (c1 : Ctx), e.pay = .ref X →
          pa.set a8.1.T 0 e c0 = .ok (old, a', c1) → a'.get 0 = .ok e) ∧
      NotBelow a8.1 (arrOf a8.1 X).toList X ∧ NotBelow a8.1 (arrOf a8.1 X).toList R ∧
      a8.1.arrPop X a8.2 = .ok aP ∧
      ¬ ((arrOf a8.1 X).isInlined = false ∧
          (Cont.arr ((arrOf a8.1 X).popIterate a8.2).2.1).inlinable 117 = false) := by
  refine ⟨arrOf a8.1 R, ⟨94, .ref X⟩, by decide, rfl, by decide, rfl, by decide, rfl, rfl, by decide, by decide,
    invariants_hold.2.1, ?_, free_a8.1, free_a8.2, runA_ok.2.2.2.2.2.2.2.2.1, by decide⟩
  intro e c0 old a' c1 he hs
  exact Arr.set_get_single 256 7 _ _ rfl e X he c0 old a' c1 hs

/-- … hence its conclusion: after the pop, slot 0 of `R` holds the 17-byte inlined empty `X`. -/
theorem updates_conclusion_at_a8 :
    ∃ c' pa', aP.2.1.cont? X = some c' ∧ c'.storedElems = [] ∧ c'.isInlined = true ∧
      aP.2.1.cont? R = some (.arr pa') ∧ pa'.get 0 = .ok ⟨17, .ref X⟩ := by
  obtain ⟨pa, el, hh, hc, hid, hpa, hidx, hget, hel, hsync, hmax, hacyc, hset, hf1, hf2, hpop, hn⟩ := updates_hyps_met
  obtain ⟨c', pa', el', hc', _, hse, hpa', hg, hp', hs', _, hgo⟩ :=
    arrPop_updates_array_parent a8.1 X R ⟨R, none, 117, 0⟩ a8.2 (arrOf a8.1 X) pa 0 el hh rfl hc hid hpa hidx
      hget hel hsync hmax rk hacyc hset hf1 hf2 aP.1 aP.2.1 aP.2.2 hpop
  have hinl : c'.isInlined = true := by rw [hgo hn]; decide
  have hrs : (aP.2.1.cont? X).map Cont.rootSize = some 17 := by decide
  rw [hc'] at hrs
  simp only [Option.map_some, Option.some.injEq] at hrs
  refine ⟨c', pa', hc', hse, hinl, hpa', ?_⟩
  rw [hg]
  cases el' with
  | mk sz py =>
    simp only at hp' hs'
    simp only [World.slotSize, hinl, hrs] at hs'
    subst hp'; subst hs'; rfl

/-- C for a map child: `mapPop_updates_array_parent` applies to `mapPop M` in state `m7` -/
example : ∃ c' pa' el', mP.2.1.cont? M = some c' ∧ c'.vid = M ∧ c'.storedElems = [] ∧
      mP.2.1.cont? R = some (.arr pa') ∧ pa'.get 0 = .ok el' ∧ el'.pay = .ref M ∧
      el'.size = World.slotSize c' 0 := by
  obtain ⟨c', pa', el', h1, h2, h3, h4, h5, h6, h7, _⟩ := mapPop_updates_array_parent m7.1 M R ⟨R, none, 117, 0⟩ m7.2 (mapOf m7.1 M) (arrOf m7.1 R) 0 ⟨117, .ref M⟩
    (by decide) rfl rfl (by decide) rfl (by decide) rfl rfl (by decide) (by decide) rk invariants_hold.2.2.2.2.2.2.2.2.2.2.1
    (fun e c0 old a' c1 he hs => Arr.set_get_single 256 7 _ _ rfl e M he c0 old a' c1 hs)
    (not_below_own_elements rk m7.1 invariants_hold.2.2.2.2.2.2.2.2.2.2.2.1 M (.map (mapOf m7.1 M)) rfl M (by decide))
    (not_below_own_elements rk m7.1 invariants_hold.2.2.2.2.2.2.2.2.2.2.2.1 M (.map (mapOf m7.1 M)) rfl R (by decide))
    mP.1 mP.2.1 mP.2.2 runM_ok.2.2.2.2.2.2.1
  exact ⟨c', pa', el', h1, h2, h3, h4, h5, h6, h7⟩

/-- C for a map PARENT: all hypotheses of `arrPop_updates_map_parent` are met in state `n7` of run N
    (array `X` under key `k1` of the root map `M0`; the 74-byte value in sync with the inlined
    child), and after the pop the key holds the 17-byte inlined empty `X`. -/
theorem map_parent_updates_at_n7 :
    ∃ c' pm' k1' el', nP.2.1.cont? X = some c' ∧ c'.storedElems = [] ∧ c'.isInlined = true ∧
      nP.2.1.cont? M0 = some (.map pm') ∧ pm'.get n7.1.mcfg k1 = .ok (k1', el') ∧ el'.pay = .ref X ∧
      el'.size = 17 := by
  have hrr : RefRankOk rk n7.1 := refRankOk_of_B (by decide)
  obtain ⟨c', pm', k1', el', hc', _, hse, hpm', hg, hp', hs', _, hgo⟩ :=
    arrPop_updates_map_parent n7.1 X M0 ⟨M0, some k1, 96, 0⟩ n7.2 (arrOf n7.1 X) (mapOf n7.1 M0) k1 k1 ⟨74, .ref X⟩
      (by decide) rfl rfl rfl (by decide) rfl rfl rfl (by decide) (by decide) rk (rankOk_of_B (by decide))
      (fun e c0 old m' c1 he hs =>
        ⟨_, OMap.set_get_single n7.1.mcfg (by decide) (by decide) _ 7 1 5 _ k1 rfl rfl rfl (by decide)
          e X he c0 old m' c1 hs⟩)
      (not_below_own_elements rk n7.1 hrr X (.arr (arrOf n7.1 X)) rfl X (by decide))
      (not_below_own_elements rk n7.1 hrr X (.arr (arrOf n7.1 X)) rfl M0 (by decide))
      nP.1 nP.2.1 nP.2.2 runN_ok.2.2.2.2.2.2.2
  have hinl : c'.isInlined = true := by rw [hgo (by decide)]; decide
  have hrs : (nP.2.1.cont? X).map Cont.rootSize = some 17 := by decide
  rw [hc'] at hrs
  simp only [Option.map_some, Option.some.injEq] at hrs
  refine ⟨c', pm', k1', el', hc', hse, hinl, hpm', hg, hp', ?_⟩
  simpa [World.slotSize, hinl, hrs] using hs'

/-- C for a map child under a map parent: `mapPop_updates_map_parent` in state `q7` of run Q (the
    standalone 105-byte map `M` under key `k1` of `M0`, 19-byte reference): after the pop the key
    holds the 22-byte inlined empty `M`. -/
theorem map_in_map_updates_at_q7 :
    ∃ c' pm' k1' el', qP.2.1.cont? M = some c' ∧ c'.storedElems = [] ∧ c'.isInlined = true ∧
      qP.2.1.cont? M0 = some (.map pm') ∧ pm'.get q7.1.mcfg k1 = .ok (k1', el') ∧ el'.pay = .ref M ∧
      el'.size = 22 := by
  have hrr : RefRankOk rk q7.1 := refRankOk_of_B (by decide)
  obtain ⟨c', pm', k1', el', hc', _, hse, hpm', hg, hp', hs', _, hgo⟩ :=
    mapPop_updates_map_parent q7.1 M M0 ⟨M0, some k1, 96, 0⟩ q7.2 (mapOf q7.1 M) (mapOf q7.1 M0) k1 k1 ⟨19, .ref M⟩
      (by decide) rfl rfl rfl (by decide) rfl rfl rfl (by decide) (by decide) rk (rankOk_of_B (by decide))
      (fun e c0 old m' c1 he hs =>
        ⟨_, OMap.set_get_single q7.1.mcfg (by decide) (by decide) _ 7 1 5 _ k1 rfl rfl rfl (by decide)
          e M he c0 old m' c1 hs⟩)
      (not_below_own_elements rk q7.1 hrr M (.map (mapOf q7.1 M)) rfl M (by decide))
      (not_below_own_elements rk q7.1 hrr M (.map (mapOf q7.1 M)) rfl M0 (by decide))
      qP.1 qP.2.1 qP.2.2 runQ_ok.2.2.2.2.2.2
  have hinl : c'.isInlined = true := by rw [hgo (by decide)]; decide
  have hrs : (qP.2.1.cont? M).map Cont.rootSize = some 22 := by decide
  rw [hc'] at hrs
  simp only [Option.map_some, Option.some.injEq] at hrs
  refine ⟨c', pm', k1', el', hc', hse, hinl, hpm', hg, hp', ?_⟩
  simpa [World.slotSize, hinl, hrs] using hs'

/-- what runs N and Q look like -/
theorem run_facts_map_parent :
    (n7.1.cont? M0).map Cont.storedElems = some [⟨74, .ref X⟩] ∧
    (n7.1.cont? X).map Cont.isInlined = some true ∧
    (nP.2.1.cont? M0).map Cont.storedElems = some [⟨17, .ref X⟩] ∧ (nP.2.1.cont? Y).isSome = false ∧
    nP.2.2.eff = n7.2.eff ++ [.store M0] ∧
    (q7.1.cont? M0).map Cont.storedElems = some [⟨19, .ref M⟩] ∧
    (q7.1.cont? M).map Cont.isInlined = some false ∧ (q7.1.cont? M).map Cont.rootSize = some 105 ∧
    (qP.2.1.cont? M0).map Cont.storedElems = some [⟨22, .ref M⟩] ∧ (qP.2.1.cont? Y).isSome = false ∧
    qP.2.2.eff = q7.2.eff ++ [.store M, .remove M, .store M0] := by
  decide

/-- A for maps -/
example : mP.1 = (mapOf m7.1 M).toList.reverse :=
  And.left <| mapPop_result m7.1 M m7.2 (mapOf m7.1 M) rfl invariants_hold.2.2.2.2.2.2.2.2.2.1 rk
    invariants_hold.2.2.2.2.2.2.2.2.2.2.1
    (not_below_own_elements rk m7.1 invariants_hold.2.2.2.2.2.2.2.2.2.2.2.1 M (.map (mapOf m7.1 M)) rfl M (by decide))
    mP.1 mP.2.1 mP.2.2 runM_ok.2.2.2.2.2.2.1

/-- D: `Y` is nested below the popped element `⟨37, ref Y⟩` of `X`, so it is forgotten; `R` and `X`
    are not, so they stay. -/
example : aP.2.1.cont? Y = none ∧ (aP.2.1.cont? R).isSome = (a8.1.cont? R).isSome ∧
    (aP.2.1.cont? X).isSome = (a8.1.cont? X).isSome := by
  obtain ⟨g1, g2⟩ := arrPop_forgets_exactly_the_subtree a8.1 X a8.2 (arrOf a8.1 X) rfl free_a8.1
    aP.1 aP.2.1 aP.2.2 runA_ok.2.2.2.2.2.2.2.2.1
  exact ⟨g1 ⟨37, .ref Y⟩ (by decide) Y Y rfl (Reach.refl (by decide)), g2 R free_a8.2, g2 X free_a8.1⟩

example : mP.2.1.cont? Y = none := by
  obtain ⟨g1, _⟩ := mapPop_forgets_exactly_the_subtree m7.1 M m7.2 (mapOf m7.1 M) rfl
    (not_below_own_elements rk m7.1 invariants_hold.2.2.2.2.2.2.2.2.2.2.2.1 M (.map (mapOf m7.1 M)) rfl M (by decide))
    mP.1 mP.2.1 mP.2.2 runM_ok.2.2.2.2.2.2.1
  exact g1 ⟨37, .ref Y⟩ (by decide) Y Y rfl (Reach.refl (by decide))

/-- D, effects: in run B the two data slabs of `X` are removed (and the emptied root stored); the
    notification then appended `[remove X, store R]` (see `run_facts`). -/
example : Eff.remove ⟨1, 4⟩ ∈ bP.2.2.eff.drop b10.2.eff.length ∧
    Eff.remove ⟨1, 5⟩ ∈ bP.2.2.eff.drop b10.2.eff.length ∧
    Eff.store X ∈ bP.2.2.eff.drop b10.2.eff.length := by
  obtain ⟨g1, g2, _⟩ := arrPop_releases_own_slabs b10.1 X b10.2 (arrOf b10.1 X) rfl bP.1 bP.2.1 bP.2.2
    runB_ok.2.2.2.2.2.2
  exact ⟨g1 ⟨1, 4⟩ (by decide) (by decide), g1 ⟨1, 5⟩ (by decide) (by decide), g2 (by decide)⟩

example : LogExt m7.2 mP.2.2 :=
  (mapPop_releases_own_slabs m7.1 M m7.2 (mapOf m7.1 M) rfl mP.1 mP.2.1 mP.2.2 runM_ok.2.2.2.2.2.2.1).2.2

/-- E: in state `a9` the child `X` has been removed from `R` but still has its callback; `arrPop X`
    leaves `R` alone. -/
theorem detached_hyps_met :
    AList.find? a9.2.1.hinfo X = some ⟨R, none, 117, 0⟩ ∧ Detached a9.2.1 X ⟨R, none, 117, 0⟩ ∧
    a9.2.1.cont? X = some (.arr (arrOf a9.2.1 X)) ∧
    NotBelow a9.2.1 (arrOf a9.2.1 X).toList X ∧ NotBelow a9.2.1 (arrOf a9.2.1 X).toList R ∧
    a9.2.1.arrPop X a9.2.2 = .ok aD :=
  ⟨by decide, Or.inr (Or.inl ⟨arrOf a9.2.1 R, rfl, Or.inl (by decide)⟩), rfl,
   not_below_own_elements rk a9.2.1 invariants_hold.2.2.2.2.2.1 X (.arr (arrOf a9.2.1 X)) rfl X (by decide),
   not_below_own_elements rk a9.2.1 invariants_hold.2.2.2.2.2.1 X (.arr (arrOf a9.2.1 X)) rfl R (by decide),
   runA_ok.2.2.2.2.2.2.2.2.2.2⟩

example : aD.2.1.cont? R = a9.2.1.cont? R ∧ aD.2.1.idxOf R = a9.2.1.idxOf R := by
  obtain ⟨hh, hd, hc, hf1, hf2, hpop⟩ := detached_hyps_met
  have := arrPop_of_detached_leaves_former_parent_unchanged a9.2.1 X a9.2.2 (arrOf a9.2.1 X) ⟨R, none, 117, 0⟩
    hc hh hd (by decide) hf1 hf2 aD.1 aD.2.1 aD.2.2 hpop
  exact ⟨this.1, this.2.1⟩

/-- E for maps: the detached map `M` of state `m8` -/
example : mD.2.1.cont? R = m8.2.1.cont? R ∧ mD.2.1.idxOf R = m8.2.1.idxOf R := by
  have := mapPop_of_detached_leaves_former_parent_unchanged m8.2.1 M m8.2.2 (mapOf m8.2.1 M) ⟨R, none, 117, 0⟩
    rfl (by decide) (Or.inr (Or.inl ⟨arrOf m8.2.1 R, rfl, Or.inl (by decide)⟩)) (by decide)
    (not_below_own_elements rk m8.2.1 invariants_hold.2.2.2.2.2.2.2.2.2.2.2.2.2.2 M (.map (mapOf m8.2.1 M)) rfl M (by decide))
    (not_below_own_elements rk m8.2.1 invariants_hold.2.2.2.2.2.2.2.2.2.2.2.2.2.2 M (.map (mapOf m8.2.1 M)) rfl R (by decide))
    mD.1 mD.2.1 mD.2.2 runM_ok.2.2.2.2.2.2.2.2
  exact ⟨this.1, this.2.1⟩

/-- what happened in the detached runs: only `X` (resp. `M`) was stored, the stale callbacks are gone -/
theorem detached_run_facts :
    aD.2.2.eff = a9.2.2.eff ++ [.store X] ∧ aD.2.1.hinfo = [] ∧ (aD.2.1.cont? Y).isSome = false ∧
    (aD.2.1.cont? R).map Cont.storedElems = some [] ∧
    mD.2.2.eff = m8.2.2.eff ++ [.store M] ∧ mD.2.1.hinfo = [] ∧ (mD.2.1.cont? Y).isSome = false := by
  decide

end NonVacuity

end Atree.C10Pop
