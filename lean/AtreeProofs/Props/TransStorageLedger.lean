import AtreeModel.SlabIdStorages
import AtreeModel.Gen.TransStorage
/-
  C15: `LedgerBaseStorage` (storage.go), REGENERATED from the Go source on every run (`Gen/TransStorage.lean`,
  harness/cmd/gotrans/stateful*.go), computes what the hand-written model `SlabIdB.LBS`
  (`AtreeModel/SlabIdStorages.lean`) computes, on the translation `ofL` of EVERY model state: results, the
  wrapped error, the ledger state and the two byte counters (which move BEFORE the error check / the ledger
  call).  The `Ledger` is a parameter on both sides: `envL` turns the model's `Ledger Λ` (error = a flag) into the
  generated environment (error = a value: `raw`, which `wrapErrorfAsExternalErrorIfNeeded` turns into `external`).
  Go's `int` counters are `Int` (overflow after 2^63 bytes is not modelled).
-/
namespace Atree.TransEq
open Atree Atree.SlabIdB Atree.Gen.TransSt

/-- error values on the ledger side -/
inductive LErr where
  | raw        -- the ledger's own (uncategorised) error
  | external   -- NewExternalError(raw, msg)
deriving DecidableEq, Repr

variable {Λ : Type} (L : Ledger Λ)

def errIf (b : Bool) : Option LErr := if b then some .raw else none

/-- the generated environment of a model ledger -/
def envL : LedgerBaseStorage_Env Λ LErr where
  Ledger_GetValue l o k := ((( L.getValue l o k).2.1, errIf (L.getValue l o k).2.2), (L.getValue l o k).1)
  Ledger_SetValue l o k v := (errIf (L.setValue l o k v).2, (L.setValue l o k v).1)
  Ledger_AllocateSlabIndex l o :=
    (((L.allocateSlabIndex l o).2.1, errIf (L.allocateSlabIndex l o).2.2), (L.allocateSlabIndex l o).1)
  wrapErrorfAsExternalErrorIfNeeded
    | none => none
    | some .raw => some .external
    | some .external => some .external

/-- the generated state of a model state -/
def ofL (m : LBS Λ) : LedgerBaseStorage Λ :=
  { ledger := m.ledger, bytesRetrieved := Int.ofNat m.bytesRetrieved, bytesStored := Int.ofNat m.bytesStored }

/-- `Retrieve(id)`: `bytesRetrieved += len(v)` before the error check; `found = len(v) > 0`; the ledger's error
    comes back wrapped as External with `nil, false` -/
theorem Ledger_retrieve_eq_model (m : LBS Λ) (id : SlabIDB) :
    LedgerBaseStorage_Retrieve (envL L) (ofL m) id =
      match m.retrieve L id with
      | (m', .ok (v, found)) => ((v, found, none), ofL m')
      | (m', .error _) => (([], false, some .external), ofL m') := by
  unfold LedgerBaseStorage_Retrieve LBS.retrieve
  cases h : (L.getValue m.ledger id.address.val (slabIndexToLedgerKey id.index)).2.2 <;>
    simp [envL, ofL, errIf, h]

/-- `Store(id, data)`: `bytesStored += len(data)` before the ledger call -/
theorem Ledger_store_eq_model (m : LBS Λ) (id : SlabIDB) (data : Bytes) :
    LedgerBaseStorage_Store (envL L) (ofL m) id data =
      match m.store L id data with
      | (m', .ok _) => (none, ofL m')
      | (m', .error _) => (some .external, ofL m') := by
  unfold LedgerBaseStorage_Store LBS.store
  cases h : (L.setValue m.ledger id.address.val (slabIndexToLedgerKey id.index) data).2 <;>
    simp [envL, ofL, errIf, h]

/-- `Remove(id)` = `SetValue(owner, key, nil)` -/
theorem Ledger_remove_eq_model (m : LBS Λ) (id : SlabIDB) :
    LedgerBaseStorage_Remove (envL L) (ofL m) id =
      match m.remove L id with
      | (m', .ok _) => (none, ofL m')
      | (m', .error _) => (some .external, ofL m') := by
  unfold LedgerBaseStorage_Remove LBS.remove
  cases h : (L.setValue m.ledger id.address.val (slabIndexToLedgerKey id.index) []).2 <;>
    simp [envL, ofL, errIf, h]

/-- `GenerateSlabID(address)` = the index the ledger allocated, under that address -/
theorem Ledger_generateSlabID_eq_model (m : LBS Λ) (a : Address) :
    LedgerBaseStorage_GenerateSlabID (envL L) (ofL m) a =
      match m.generateSlabID L a with
      | (m', .ok i) => ((i, none), ofL m')
      | (m', .error _) => ((SlabIDUndefined, some .external), ofL m') := by
  unfold LedgerBaseStorage_GenerateSlabID LBS.generateSlabID
  cases h : (L.allocateSlabIndex m.ledger a.val).2.2 <;>
    simp [envL, ofL, errIf, h]

/-- the reporters: the two counters, `ResetReporter`, and the five `// TODO return 0` -/
theorem Ledger_reporters_eq_model (m : LBS Λ) :
    LedgerBaseStorage_BytesRetrieved (envL L) (ofL m) = Int.ofNat m.bytesRetrieved ∧
    LedgerBaseStorage_BytesStored (envL L) (ofL m) = Int.ofNat m.bytesStored ∧
    LedgerBaseStorage_ResetReporter (envL L) (ofL m) = ofL m.resetReporter ∧
    LedgerBaseStorage_SegmentCounts (envL L) (ofL m) = Int.ofNat m.zeroReporter ∧
    LedgerBaseStorage_Size (envL L) (ofL m) = Int.ofNat m.zeroReporter ∧
    LedgerBaseStorage_SegmentsReturned (envL L) (ofL m) = Int.ofNat m.zeroReporter ∧
    LedgerBaseStorage_SegmentsUpdated (envL L) (ofL m) = Int.ofNat m.zeroReporter ∧
    LedgerBaseStorage_SegmentsTouched (envL L) (ofL m) = Int.ofNat m.zeroReporter :=
  ⟨rfl, rfl, rfl, rfl, rfl, rfl, rfl, rfl⟩

/-- non-vacuity on the ledger of the `slabid` stream: a store, a failing read (the bytes of the junk value ARE
    counted), a successful read -/
example :
    let L := MapLedger.iface
    let a : Address := ⟨[0, 0, 0, 0, 0, 0, 0, 1], rfl⟩
    let id : SlabIDB := ⟨a, ⟨[0, 0, 0, 0, 0, 0, 0, 2], rfl⟩⟩
    let s0 := ofL (LBS.new ({ fail := [1], junk := [9, 9, 9] } : MapLedger))
    let s1 := (LedgerBaseStorage_Store (envL L) s0 id [1, 2]).2
    let r2 := LedgerBaseStorage_Retrieve (envL L) s1 id
    let r3 := LedgerBaseStorage_Retrieve (envL L) r2.2 id
    s1.bytesStored = 2 ∧ r2.1 = ([], false, some .external) ∧ r2.2.bytesRetrieved = 3 ∧
    r3.1 = ([1, 2], true, none) ∧ r3.2.bytesRetrieved = 5 := by decide

end Atree.TransEq
