import AtreeProofs.HeapSpec
import AtreeProofs.ArrayInv
import AtreeProofs.ArrayLemmas
import AtreeProofs.Array.EffectsTop
/-
  C09 — No leaked, dangling or doubly-owned slabs (container level, arrays).
  PROPERTY THEOREMS: the storage calls an array operation makes are a COMPLETE account of how its
  slab tree changed; emptying an array releases every auxiliary slab; no slab is owned twice and
  every child reference resolves inside the tree.  (Graph-level statement for whole storages: C20.
  Nested containers / inline <-> standalone transitions: World model, C10/C11.  Maps: see DESIGN.md.)

  Proofs: `AtreeProofs/Array/Effects*.lean` (generic accounting `Acct`, the repair steps of an index
  slab, induction over the depth, top level).
-/
namespace Atree.C09
open Atree Gen

/-- the effects emitted by an operation: what was appended to the log -/
def newEffects (c c' : Ctx) : List Eff := c'.eff.drop c.eff.length
def newCreated (c c' : Ctx) : List SlabID := (c'.created.drop c.created.length).map (·.1)

/-- `newEffects` / `newCreated` are what a run appended (`Log`) -/
theorem newEffects_of_log {c c' : Ctx} {E : List Eff} {C : List (SlabID × Elem)} (h : Log c c' E C) :
    c'.eff = c.eff ++ newEffects c c' ∧ newEffects c c' = E ∧ newCreated c c' = C.map (·.1) := by
  have h1 : newEffects c c' = E := by
    unfold newEffects; rw [h.eff]; exact List.drop_left
  have h2 : newCreated c c' = C.map (·.1) := by
    unfold newCreated; rw [h.created, List.drop_left]
  exact ⟨by rw [h1]; exact h.eff, h1, h2⟩

/-- existential form: the log is extended by some `E` that is a complete account -/
theorem effects_of_acct {a a' : Arr} {c c' : Ctx} {E : List Eff} {C : List (SlabID × Elem)}
    (hlog : Log c c' E C)
    (hacct : Acct c.ctr (ATree.slabs a.d a.root) (ATree.slabs a'.d a'.root) E (C.map (·.1)))
    (hnd : (ATree.slabIds a.d a.root).Nodup) (hid : a'.rootID = a.rootID) (hty : a'.ty = a.ty) :
    c'.eff = c.eff ++ newEffects c c' ∧ EffectsComplete a a' (newEffects c c') (newCreated c c') := by
  obtain ⟨h1, h2, h3⟩ := newEffects_of_log hlog
  refine ⟨h1, ?_⟩
  rw [h2, h3]
  exact effectsComplete_of_acct hacct hnd hid hty

theorem insert_effects_complete (T : Nat) (hT : legalThreshold T = true) (a : Arr) (c : Ctx) (i : Nat) (v : Elem)
    (hv : ValueOk v) (h : ArrInv T a c.ctr) (a' : Arr) (c' : Ctx) (hr : a.insert T i v c = .ok (a', c')) :
    c'.eff = c.eff ++ newEffects c c' ∧ EffectsComplete a a' (newEffects c c') (newCreated c c') := by
  obtain ⟨E, C, hlog, hacct⟩ := arr_insert_acct hT a c i v hv h a' c' hr
  have hne : a.count ≠ maxArrayElementCount := by
    intro heq
    unfold Arr.insert at hr
    rw [if_pos heq] at hr
    cases hr
  have hlt : a.count < maxArrayElementCount := by have := h.count_lt; omega
  rcases Nat.lt_or_ge a.toList.length i with hi | hi
  · rw [arr_insert_err a c i v h hne hi] at hr; cases hr
  · obtain ⟨a2, c2, heq, _, _, hid, hty⟩ := arr_insert_ok hT a c i v hv h hlt hi
    rw [heq] at hr
    cases hr
    exact effects_of_acct hlog hacct h.ids.1 hid hty

theorem set_effects_complete (T : Nat) (hT : legalThreshold T = true) (a : Arr) (c : Ctx) (i : Nat) (v : Elem)
    (hv : ValueOk v) (h : ArrInv T a c.ctr) (old : Elem) (a' : Arr) (c' : Ctx) (hr : a.set T i v c = .ok (old, a', c')) :
    c'.eff = c.eff ++ newEffects c c' ∧ EffectsComplete a a' (newEffects c c') (newCreated c c') := by
  obtain ⟨E, C, hlog, hacct⟩ := arr_set_acct hT a c i v hv h old a' c' hr
  rcases Nat.lt_or_ge i a.toList.length with hi | hi
  · obtain ⟨a2, c2, heq, _, _, hid, hty⟩ := arr_set_ok hT a c i v hv h hi
    rw [heq] at hr
    cases hr
    exact effects_of_acct hlog hacct h.ids.1 hid hty
  · rw [arr_set_err a c i v h hi] at hr; cases hr

theorem remove_effects_complete (T : Nat) (hT : legalThreshold T = true) (a : Arr) (c : Ctx) (i : Nat)
    (h : ArrInv T a c.ctr) (old : Elem) (a' : Arr) (c' : Ctx) (hr : a.remove T i c = .ok (old, a', c')) :
    c'.eff = c.eff ++ newEffects c c' ∧ EffectsComplete a a' (newEffects c c') (newCreated c c') := by
  obtain ⟨E, C, hlog, hacct⟩ := arr_remove_acct hT a c i h old a' c' hr
  rcases Nat.lt_or_ge i a.toList.length with hi | hi
  · obtain ⟨a2, c2, heq, _, _, hid, hty⟩ := arr_remove_ok hT a c i h hi
    rw [heq] at hr
    cases hr
    exact effects_of_acct hlog hacct h.ids.1 hid hty
  · rw [arr_remove_err a c i h hi] at hr; cases hr

/-- Emptying an array releases every slab except the root, which is rewritten. -/
theorem pop_releases_all (T : Nat) (hT : legalThreshold T = true) (a : Arr) (c : Ctx) (h : ArrInv T a c.ctr) :
    let r := a.popIterate c
    EffectsComplete a r.2.1 (newEffects c r.2.2) [] ∧
    ATree.slabIds r.2.1.d r.2.1.root = [a.rootID] ∧
    ∀ id ∈ ATree.slabIds a.d a.root, id ≠ a.rootID → lastAction (newEffects c r.2.2) id = some false := by
  intro r
  have _ := hT
  obtain ⟨E, heff, hE1, hE2⟩ := arr_popIterate_eff a c h.standalone
  have hnew : newEffects c r.2.2 = E ++ [.store a.rootID] := by
    unfold newEffects
    show (a.popIterate c).2.2.eff.drop _ = _
    rw [heff]; exact List.drop_left
  have hids' : ATree.slabIds r.2.1.d r.2.1.root = [a.rootID] := rfl
  have hrem : ∀ e ∈ E, ∃ i, e = Eff.remove i := fun e he => by
    obtain ⟨id, _, rfl⟩ := hE1 e he; exact ⟨id, rfl⟩
  have hla : ∀ id, lastAction (newEffects c r.2.2) id
      = if a.rootID = id then some true else lastAction E id := by
    intro id; rw [hnew]; exact lastAction_concat_store E a.rootID id
  have hsub : ∀ id ∈ ATree.slabIds a.d a.root, id ≠ a.rootID → id ∈ subIds a.d a.root := by
    intro id hid hne
    rw [slabIds_eq] at hid
    rcases List.mem_cons.1 hid with h1 | h1
    · exact absurd h1 hne
    · exact h1
  have hgone : ∀ id ∈ ATree.slabIds a.d a.root, id ≠ a.rootID →
      lastAction (newEffects c r.2.2) id = some false := by
    intro id hid hne
    rw [hla, if_neg (fun h => hne h.symm)]
    exact (lastAction_only_removes E hrem id).1.2 (hE2 id (hsub id hid hne))
  refine ⟨⟨?_, ?_, ?_, ?_⟩, hids', hgone⟩
  · intro id hsome _
    rw [slabAt_isSome, hids', List.mem_singleton] at hsome
    rw [hla, if_pos hsome.symm]
  · intro id h1 h2
    rw [slabAt_isSome] at h1
    rw [slabAt_isNone, hids', List.mem_singleton] at h2
    exact hgone id h1 h2
  · intro id h1
    left
    rw [slabAt_isSome, hids', List.mem_singleton]
    rw [hla] at h1
    split at h1
    · rename_i heq; exact heq.symm
    · exact absurd h1 (lastAction_only_removes E hrem id).2
  · intro id h1
    rw [slabAt_isNone, hids', List.mem_singleton]
    rw [hla] at h1
    split at h1
    · cases h1
    · rename_i hne; exact fun h => hne h.symm

/-- Inside a valid tree no slab is owned twice, every child header refers to a slab of the tree
    owned by the same address, and every slab except the root is referenced by exactly one header. -/
theorem tree_ownership (T : Nat) (hT : legalThreshold T = true) (a : Arr) (ctr : Nat) (h : ArrInv T a ctr) :
    (ATree.slabIds a.d a.root).Nodup ∧
    (∀ id ∈ ATree.slabIds a.d a.root, id.addr = a.addr) ∧
    (AList.keys (ATree.slabs a.d a.root) = ATree.slabIds a.d a.root) := by
  have _ := hT
  exact ⟨h.ids.1, fun id hid => (h.ids.2 id hid).1, keys_slabs a.d a.root⟩

/-- Slab IDs handed out during an operation are fresh: they were not in the tree before. -/
theorem allocated_ids_fresh (T : Nat) (hT : legalThreshold T = true) (a : Arr) (c : Ctx) (i : Nat) (v : Elem)
    (hv : ValueOk v) (h : ArrInv T a c.ctr) (a' : Arr) (c' : Ctx) (hr : a.insert T i v c = .ok (a', c')) :
    ∀ addr id, Eff.alloc addr id ∈ newEffects c c' → id ∉ ATree.slabIds a.d a.root ∧ c.ctr < id.idx ∧ id.idx ≤ c'.ctr := by
  obtain ⟨E, C, hlog, _⟩ := arr_insert_acct hT a c i v hv h a' c' hr
  obtain ⟨_, h2, _⟩ := newEffects_of_log hlog
  rw [h2]
  intro addr id hmem
  obtain ⟨h3, h4⟩ := hlog.allocs addr id hmem
  refine ⟨fun hin => ?_, h3, h4⟩
  have := (h.ids.2 id hin).2.2
  omega

/-! ### Non-vacuity

Concrete runs of the model on `Atree.Example.arr4` (T = 256; a root index slab 1 over the data
slabs 2 and 3): what `newEffects` is (by `decide`), and `EffectsComplete` for these runs, obtained
from the theorems above (their hypotheses are satisfiable: `arr4_inv`). -/
section NonVacuity
open Atree.Example

/-- the context after building `arr4` (three IDs allocated), with an empty log -/
def c3 : Ctx := ⟨3, [], []⟩

def okArr (r : Except AErr (Arr × Ctx)) : Arr := match r with | .ok (a, _) => a | .error _ => arr4
def okCtx (r : Except AErr (Arr × Ctx)) : Ctx := match r with | .ok (_, c) => c | .error _ => c3
def okArr' (r : Except AErr (Elem × Arr × Ctx)) : Arr := match r with | .ok (_, a, _) => a | .error _ => arr4
def okCtx' (r : Except AErr (Elem × Arr × Ctx)) : Ctx := match r with | .ok (_, _, c) => c | .error _ => c3

/-- a fifth 100-byte element: the left leaf grows to 321 bytes, no restructuring -/
def arr5 : Arr := okArr (arr4.insert T0 1 (elem 9) c3)
def c5 : Ctx := okCtx (arr4.insert T0 1 (elem 9) c3)
theorem step5 : arr4.insert T0 1 (elem 9) c3 = .ok (arr5, c5) := by rfl
theorem arr5_inv : ArrInv T0 arr5 c5.ctr := by
  obtain ⟨a', c', h1, h2, _⟩ := arr_insert_ok legal arr4 c3 1 (elem 9) (value_ok 9) arr4_inv
    (by decide) (by decide)
  rw [step5] at h1; cases h1; exact h2

example : newEffects c3 c5 = [.store ⟨1, 2⟩, .store ⟨1, 1⟩] := by decide
example : EffectsComplete arr4 arr5 (newEffects c3 c5) (newCreated c3 c5) :=
  (insert_effects_complete T0 legal arr4 c3 1 (elem 9) (value_ok 9) arr4_inv arr5 c5 step5).2

/-- a sixth element makes the left leaf (421 > 384 bytes) split: slab 4 is allocated, the two
    halves and the root index slab are stored -/
def arr6 : Arr := okArr (arr5.insert T0 1 (elem 8) c5)
def c6 : Ctx := okCtx (arr5.insert T0 1 (elem 8) c5)
theorem step6 : arr5.insert T0 1 (elem 8) c5 = .ok (arr6, c6) := by rfl

example : ATree.slabIds arr5.d arr5.root = [⟨1, 1⟩, ⟨1, 2⟩, ⟨1, 3⟩] := by decide
example : ATree.slabIds arr6.d arr6.root = [⟨1, 1⟩, ⟨1, 2⟩, ⟨1, 4⟩, ⟨1, 3⟩] := by decide
example : newEffects c5 c6
    = [.store ⟨1, 2⟩, .alloc 1 ⟨1, 4⟩, .store ⟨1, 2⟩, .store ⟨1, 4⟩, .store ⟨1, 1⟩] := by decide
example : newCreated c5 c6 = [] := by decide
example : EffectsComplete arr5 arr6 (newEffects c5 c6) (newCreated c5 c6) :=
  (insert_effects_complete T0 legal arr5 c5 1 (elem 8) (value_ok 8) arr5_inv arr6 c6 step6).2
example : ∀ addr id, Eff.alloc addr id ∈ newEffects c5 c6 →
    id ∉ ATree.slabIds arr5.d arr5.root ∧ c5.ctr < id.idx ∧ id.idx ≤ c6.ctr :=
  allocated_ids_fresh T0 legal arr5 c5 1 (elem 8) (value_ok 8) arr5_inv arr6 c6 step6
/-- the net effect, slab by slab -/
example : [⟨1, 1⟩, ⟨1, 2⟩, ⟨1, 3⟩, ⟨1, 4⟩].map (lastAction (newEffects c5 c6))
    = [some true, some true, none, some true] := by decide

/-- removing the first element of `arr4` makes the left leaf underflow (121 < 128 bytes): it is
    merged with its right sibling (slab 3 removed), and the root index slab, left with a single
    child, is replaced by that child (slab 2 removed, the root ID 1 now holds the data slab) -/
def arr3 : Arr := okArr' (arr4.remove T0 0 c3)
def c3' : Ctx := okCtx' (arr4.remove T0 0 c3)
theorem stepR : arr4.remove T0 0 c3 = .ok (elem 0, arr3, c3') := by rfl

example : arr3.d = 0 ∧ ATree.slabIds arr3.d arr3.root = [⟨1, 1⟩] := by decide
example : newEffects c3 c3'
    = [.store ⟨1, 2⟩, .store ⟨1, 2⟩, .store ⟨1, 1⟩, .remove ⟨1, 3⟩, .store ⟨1, 1⟩, .store ⟨1, 1⟩,
       .remove ⟨1, 2⟩] := by decide
example : EffectsComplete arr4 arr3 (newEffects c3 c3') (newCreated c3 c3') :=
  (remove_effects_complete T0 legal arr4 c3 0 arr4_inv (elem 0) arr3 c3' stepR).2
example : [⟨1, 1⟩, ⟨1, 2⟩, ⟨1, 3⟩].map (lastAction (newEffects c3 c3'))
    = [some true, some false, some false] := by decide

/-- overwriting with a value too large to inline creates a large-value slab (ID 4): it is stored,
    is not a slab of the tree, and is accounted for by `newCreated` -/
def arrS : Arr := okArr' (arr4.set T0 3 ⟨5000, .val 7⟩ c3)
def cS : Ctx := okCtx' (arr4.set T0 3 ⟨5000, .val 7⟩ c3)
theorem stepS : arr4.set T0 3 ⟨5000, .val 7⟩ c3 = .ok (elem 3, arrS, cS) := by rfl
example : newEffects c3 cS = [.alloc 1 ⟨1, 4⟩, .store ⟨1, 4⟩, .store ⟨1, 3⟩, .store ⟨1, 1⟩] := by decide
example : newCreated c3 cS = [⟨1, 4⟩] := by decide
example : EffectsComplete arr4 arrS (newEffects c3 cS) (newCreated c3 cS) :=
  (set_effects_complete T0 legal arr4 c3 3 ⟨5000, .val 7⟩ ⟨by decide, 7, rfl⟩ arr4_inv (elem 3) arrS cS stepS).2

/-- emptying `arr4`: both leaves are removed, the root is rewritten -/
example : newEffects c3 (arr4.popIterate c3).2.2 = [.remove ⟨1, 3⟩, .remove ⟨1, 2⟩, .store ⟨1, 1⟩] := by
  decide
example : EffectsComplete arr4 (arr4.popIterate c3).2.1 (newEffects c3 (arr4.popIterate c3).2.2) [] :=
  (pop_releases_all T0 legal arr4 c3 arr4_inv).1

example : (ATree.slabIds arr4.d arr4.root).Nodup := (tree_ownership T0 legal arr4 3 arr4_inv).1

end NonVacuity

end Atree.C09
