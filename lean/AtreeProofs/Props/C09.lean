import AtreeProofs.HeapSpec
import AtreeProofs.ArrayInv
import AtreeProofs.ArrayLemmas
/-
  C09 — No leaked, dangling or doubly-owned slabs (container level, arrays).
  PROPERTY THEOREMS: the storage calls an array operation makes are a COMPLETE account of how its
  slab tree changed; emptying an array releases every auxiliary slab; no slab is owned twice and
  every child reference resolves inside the tree.  (Graph-level statement for whole storages: C20.
  Nested containers / inline <-> standalone transitions: World model, C10/C11.  Maps: see DESIGN.md.)
-/
namespace Atree.C09
open Atree Gen

/-- the effects emitted by an operation: what was appended to the log -/
def newEffects (c c' : Ctx) : List Eff := c'.eff.drop c.eff.length
def newCreated (c c' : Ctx) : List SlabID := (c'.created.drop c.created.length).map (·.1)

theorem insert_effects_complete (T : Nat) (hT : legalThreshold T = true) (a : Arr) (c : Ctx) (i : Nat) (v : Elem)
    (hv : ValueOk v) (h : ArrInv T a c.ctr) (a' : Arr) (c' : Ctx) (hr : a.insert T i v c = .ok (a', c')) :
    c'.eff = c.eff ++ newEffects c c' ∧ EffectsComplete a a' (newEffects c c') (newCreated c c') := by
  sorry

theorem set_effects_complete (T : Nat) (hT : legalThreshold T = true) (a : Arr) (c : Ctx) (i : Nat) (v : Elem)
    (hv : ValueOk v) (h : ArrInv T a c.ctr) (old : Elem) (a' : Arr) (c' : Ctx) (hr : a.set T i v c = .ok (old, a', c')) :
    c'.eff = c.eff ++ newEffects c c' ∧ EffectsComplete a a' (newEffects c c') (newCreated c c') := by
  sorry

theorem remove_effects_complete (T : Nat) (hT : legalThreshold T = true) (a : Arr) (c : Ctx) (i : Nat)
    (h : ArrInv T a c.ctr) (old : Elem) (a' : Arr) (c' : Ctx) (hr : a.remove T i c = .ok (old, a', c')) :
    c'.eff = c.eff ++ newEffects c c' ∧ EffectsComplete a a' (newEffects c c') (newCreated c c') := by
  sorry

/-- Emptying an array releases every slab except the root, which is rewritten. -/
theorem pop_releases_all (T : Nat) (hT : legalThreshold T = true) (a : Arr) (c : Ctx) (h : ArrInv T a c.ctr) :
    let r := a.popIterate c
    EffectsComplete a r.2.1 (newEffects c r.2.2) [] ∧
    ATree.slabIds r.2.1.d r.2.1.root = [a.rootID] ∧
    ∀ id ∈ ATree.slabIds a.d a.root, id ≠ a.rootID → lastAction (newEffects c r.2.2) id = some false := by
  sorry

/-- Inside a valid tree no slab is owned twice, every child header refers to a slab of the tree
    owned by the same address, and every slab except the root is referenced by exactly one header. -/
theorem tree_ownership (T : Nat) (hT : legalThreshold T = true) (a : Arr) (ctr : Nat) (h : ArrInv T a ctr) :
    (ATree.slabIds a.d a.root).Nodup ∧
    (∀ id ∈ ATree.slabIds a.d a.root, id.addr = a.addr) ∧
    (AList.keys (ATree.slabs a.d a.root) = ATree.slabIds a.d a.root) := by
  sorry

/-- Slab IDs handed out during an operation are fresh: they were not in the tree before. -/
theorem allocated_ids_fresh (T : Nat) (hT : legalThreshold T = true) (a : Arr) (c : Ctx) (i : Nat) (v : Elem)
    (hv : ValueOk v) (h : ArrInv T a c.ctr) (a' : Arr) (c' : Ctx) (hr : a.insert T i v c = .ok (a', c')) :
    ∀ addr id, Eff.alloc addr id ∈ newEffects c c' → id ∉ ATree.slabIds a.d a.root ∧ c.ctr < id.idx ∧ id.idx ≤ c'.ctr := by
  sorry

end Atree.C09
