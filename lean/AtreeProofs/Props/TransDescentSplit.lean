import AtreeProofs.Trans.Descent
import AtreeProofs.Props.TransSlabsGlue
import AtreeProofs.Props.TransSlabsRoot
/-
  TRANSLATION EQUIVALENCE, the DESCENT (WP12): the SPLIT side of the index-slab restructuring and the root changes of
  `Array` over the HEAP environment `envH T` (Trans/Descent.lean; storage `s : HSt`).  The heap after the call is given
  EXPLICITLY as a chain of `.withCtx / .store / .remove` on the heap before the call.

  1. `ArrayDataSlab.Split` / `ArrayMetaDataSlab.Split` only call `GenerateSlabID` on the storage: over `envH T` they are
     the functions over `envA T look` (WP9) on the `ctx` component, the heap component is unchanged
     (`Sl_ArrayDataSlab_Split_HA`, `Sl_ArrayMetaDataSlab_Split_HA`).  Hence `SplitAgreesH` (the dispatched `Split` on the
     translation of a model slab is the translation of the model's result) from the WP9 slab-level theorems:
     `SplitAgreesH_data`, `SplitAgreesH_data_safe`, `SplitAgreesH_meta`.
  2. `Sl_SplitChildSlab_heap` (+ `_heap_ctx`, `_data_heap`, `_meta_heap`): `ArrayMetaDataSlab.SplitChildSlab`; the heap
     afterwards holds the two halves and the updated index slab (three stores, in the model's order).
  3. `Sl_Array_splitRoot_heap`, `Sl_Array_promoteChildAsNewRoot_heap` (+ `_notFound_heap`): ports of
     Props/TransSlabsRoot.lean; `promoteChildAsNewRoot` READS the child from the heap.
  Core Lean only.
-/
set_option linter.unusedSimpArgs false
set_option linter.unusedVariables false
namespace Atree.TransEq
open Atree Atree.Gen

/-! ## 1. `Split` over the heap environment = `Split` over `envA` on the `ctx` component -/

/-- `split` of slice_utils does not use the environment -/
theorem split_env_HA {E : Type} [Inhabited E] (T : Nat) (look) (l : List E) (n : Int) :
    TransSl.split (envH T) l n = TransSl.split (envA T look) l n := rfl

/-- the loop of `ArrayDataSlab.Split` does not touch the storage: same result over both environments (`.ret` is only
    ever `.ret none`, a Go panic) -/
theorem dataSplit_loop1_HA (T : Nat) (look) (ds mp : UInt32) :
    ∀ (l : List (Option Elem)) (i : Int) (ls : UInt32) (lc : Int),
      (TransSl.ArrayDataSlab_Split.loop1 (ξ := Unit) (envA T look) ds mp l i ls lc = .ret none ∧
       TransSl.ArrayDataSlab_Split.loop1 (ξ := Unit) (envH T) ds mp l i ls lc = .ret none) ∨
      ∃ x, TransSl.ArrayDataSlab_Split.loop1 (ξ := Unit) (envA T look) ds mp l i ls lc = .done x ∧
           TransSl.ArrayDataSlab_Split.loop1 (ξ := Unit) (envH T) ds mp l i ls lc = .done x := by
  intro l
  induction l with
  | nil => intro i ls lc; exact .inr ⟨_, rfl, rfl⟩
  | cons e rest ih =>
    intro i ls lc
    cases e with
    | none => exact .inl ⟨rfl, rfl⟩
    | some p =>
      simp only [TransSl.ArrayDataSlab_Split.loop1, envA_byteSize, envH_byteSize]
      by_cases h1 : ls + u32 p.size ≥ mp
      · by_cases h2 : ls ≤ ds - ls - u32 p.size
        · simp only [h1, h2, decide_true, if_true]; exact .inr ⟨_, rfl, rfl⟩
        · simp only [h1, h2, decide_true, decide_false, if_true, Bool.false_eq_true, if_false]; exact .inr ⟨_, rfl, rfl⟩
      · simp only [h1, decide_false, Bool.false_eq_true, if_false]; exact ih _ _ _

/-- **`ArrayDataSlab.Split` over the heap** is `ArrayDataSlab.Split` over `envA` (any `look`) on the `ctx` component;
    the heap component is unchanged -/
theorem Sl_ArrayDataSlab_Split_HA (T : Nat) (look) (a : GData) (s : HSt) :
    TransSl.ArrayDataSlab_Split (envH T) a s =
      (TransSl.ArrayDataSlab_Split (envA T look) a s.ctx).map
        (fun r => (r.1, r.2.1, r.2.2.1, r.2.2.2.1, s.withCtx r.2.2.2.2)) := by
  simp only [TransSl.ArrayDataSlab_Split]
  split
  · rfl
  · rcases dataSplit_loop1_HA T look (a.header.size - UInt32.ofNat Gen.arrayDataSlabPrefixSize)
      (((a.header.size - UInt32.ofNat Gen.arrayDataSlabPrefixSize) + 1) >>> 1) a.elements 0 0 0 with ⟨h1, h2⟩ | ⟨x, h1, h2⟩
    · rw [h1, h2]; rfl
    · rw [h1, h2]
      obtain ⟨ls, lc⟩ := x
      simp only [split_env_HA T look]
      cases TransSl.split (envA T look) a.elements lc with
      | none => rfl
      | some r => rfl

theorem metaSplit_loop1_HA (T : Nat) (look) (a : GMeta) :
    ∀ (fuel : Nat) (i : Int) (lc : UInt32),
      (TransSl.ArrayMetaDataSlab_Split.loop1 (σ := Elem) (envA T look) a fuel i lc = .ret none ∧
       TransSl.ArrayMetaDataSlab_Split.loop1 (σ := Elem) (envH T) a fuel i lc = .ret none) ∨
      ∃ x, TransSl.ArrayMetaDataSlab_Split.loop1 (σ := Elem) (envA T look) a fuel i lc = .done x ∧
           TransSl.ArrayMetaDataSlab_Split.loop1 (σ := Elem) (envH T) a fuel i lc = .done x := by
  intro fuel
  induction fuel with
  | zero => intro i lc; exact .inr ⟨_, rfl, rfl⟩
  | succ n ih =>
    intro i lc
    simp only [TransSl.ArrayMetaDataSlab_Split.loop1]
    cases TransSl.goIdx a.childrenHeaders i with
    | none => exact .inl ⟨rfl, rfl⟩
    | some e => exact ih _ _

theorem metaSplit_loop2_HA (T : Nat) (look) :
    ∀ (fuel : Nat) (i : Int) (r : GMeta) (cs : UInt32),
      (TransSl.ArrayMetaDataSlab_Split.loop2 (σ := Elem) (envA T look) fuel i r cs = .ret none ∧
       TransSl.ArrayMetaDataSlab_Split.loop2 (σ := Elem) (envH T) fuel i r cs = .ret none) ∨
      ∃ x, TransSl.ArrayMetaDataSlab_Split.loop2 (σ := Elem) (envA T look) fuel i r cs = .done x ∧
           TransSl.ArrayMetaDataSlab_Split.loop2 (σ := Elem) (envH T) fuel i r cs = .done x := by
  intro fuel
  induction fuel with
  | zero => intro i r cs; exact .inr ⟨_, rfl, rfl⟩
  | succ n ih =>
    intro i r cs
    simp only [TransSl.ArrayMetaDataSlab_Split.loop2]
    cases TransSl.goIdx r.childrenHeaders i with
    | none => exact .inl ⟨rfl, rfl⟩
    | some e =>
      dsimp only
      cases TransSl.goSet r.childrenCountSum i (cs + e.count) with
      | none => exact .inl ⟨rfl, rfl⟩
      | some l => exact ih _ _ _

/-- **`ArrayMetaDataSlab.Split` over the heap** is `ArrayMetaDataSlab.Split` over `envA` on the `ctx` component -/
theorem Sl_ArrayMetaDataSlab_Split_HA (T : Nat) (look) (a : GMeta) (s : HSt) :
    TransSl.ArrayMetaDataSlab_Split (σ := Elem) (envH T) a s =
      (TransSl.ArrayMetaDataSlab_Split (σ := Elem) (envA T look) a s.ctx).map
        (fun r => (r.1, r.2.1, r.2.2.1, r.2.2.2.1, s.withCtx r.2.2.2.2)) := by
  simp only [TransSl.ArrayMetaDataSlab_Split]
  split
  · rfl
  · rcases metaSplit_loop1_HA T look a (TransSl.goCeilDivInt (Int.ofNat a.childrenHeaders.length) 2).toNat 0 0
      with ⟨h1, h2⟩ | ⟨x, h1, h2⟩
    · rw [h1, h2]; rfl
    · rw [h1, h2]
      simp only [split_env_HA T look]
      cases TransSl.split (envA T look) a.childrenHeaders (TransSl.goCeilDivInt (Int.ofNat a.childrenHeaders.length) 2) with
      | none => rfl
      | some r =>
        simp only [envH_gen, envA_gen, Option.isSome_none, Bool.false_eq_true, if_false]
        rcases metaSplit_loop2_HA T look (List.replicate (Int.ofNat r.snd.length).toNat (0 : UInt32)).length 0
          { header :=
              { slabID := (s.ctx.alloc a.header.slabID.addr).fst,
                size := a.header.size - UInt32.ofInt
                  (TransSl.goCeilDivInt (Int.ofNat a.childrenHeaders.length) 2 * Int.ofNat arraySlabHeaderSize),
                count := a.header.count - x },
            childrenHeaders := r.snd, childrenCountSum := List.replicate (Int.ofNat r.snd.length).toNat 0,
            extraData := none } 0 with ⟨h3, h4⟩ | ⟨y, h3, h4⟩
        · rw [h3, h4]; rfl
        · rw [h3, h4]
          obtain ⟨rs, cs⟩ := y
          dsimp only
          cases TransSl.goSlice a.childrenCountSum 0 (TransSl.goCeilDivInt (Int.ofNat a.childrenHeaders.length) 2) with
          | none => rfl
          | some l => rfl

/-- what the generated `ArraySlab.Split` over the heap must return on the translation of a model slab: the model's
    halves, the heap untouched, the model's `Ctx` (the allocation of the right half) -/
def SplitAgreesH (T : Nat) (d : Nat) (child : ATree d) (s : HSt) : Prop :=
  TransSl.ArraySlab_Split (envH T) (trTree d child) s =
    match ATree.split d child s.ctx with
    | .error e => some (none, none, some e, trTree d child, s)
    | .ok (l, r, c') => some (some (trTree d l), some (trTree d r), none, trTree d l, s.withCtx c')

/-- a data-slab child (hypotheses of `SplitAgrees_data`) -/
theorem SplitAgreesH_data (T : Nat) (s : DataSlab) (st : HSt) (hs : s.hdr.size < 2^32)
    (hpre : Gen.arrayDataSlabPrefixSize + sumSizes s.elems ≤ s.hdr.size) : SplitAgreesH T 0 s st := by
  have h := Sl_ArrayDataSlab_Split_eq_model T (fun _ => none) s st.ctx hs hpre
  unfold SplitAgreesH
  simp only [trTree, ATree.split, TransSl.ArraySlab_Split, Sl_ArrayDataSlab_Split_HA T (fun _ => none), h]
  cases DataSlab.split s st.ctx with
  | error e => rfl
  | ok res => rfl

/-- … on the slabs `Split` is called on (`DataWork`): no numeric side condition -/
theorem SplitAgreesH_data_safe (T : Nat) (s : DataSlab) (st : HSt) (hT : legalThreshold T = true)
    (hw : DataWork T s) : SplitAgreesH T 0 s st := by
  have := dataWork_fits hT hw
  exact SplitAgreesH_data T s st (by omega) (by omega)

/-- an index-slab child (hypotheses of `SplitAgrees_meta`) -/
theorem SplitAgreesH_meta (T : Nat) {d : Nat} (m : MetaSlab (ATree d)) (st : HSt)
    (hcs : (m.childHdrs.length + 1) / 2 ≤ m.countSum.length)
    (hcov : (m.childHdrs.length + 1) / 2 * arraySlabHeaderSize ≤ m.hdr.size)
    (hcnt : MetaSlab.sumCounts (m.childHdrs.take ((m.childHdrs.length + 1) / 2)) ≤ m.hdr.count) :
    SplitAgreesH T (d + 1) m st := by
  have h := Sl_ArrayMetaDataSlab_Split_eq_model T (fun _ => none) m st.ctx hcs hcov hcnt
  unfold SplitAgreesH
  simp only [trTree, ATree.split, TransSl.ArraySlab_Split, Sl_ArrayMetaDataSlab_Split_HA T (fun _ => none), h]
  cases MetaSlab.split m st.ctx with
  | error e => rfl
  | ok res => rfl

/-! ## 2. `SplitChildSlab` -/

theorem dispH_Header (T : Nat) (d : Nat) (t : ATree d) :
    TransSl.ArraySlab_Header (envH T) (trTree d t) = trHdr (ATree.hdr d t) := by
  cases d <;> rfl

/-- **`ArrayMetaDataSlab.SplitChildSlab` over the heap**: if `Split` of the child fails, the error is returned and
    nothing has changed; else the index slab is the model's and the heap is the heap before with the `Ctx` after `Split`,
    the left half stored under its identifier, then the right half, then the updated index slab; the child's out-state
    is the left half.  (`.ok _, .error _` cannot happen in the model; it is there to make the match total.) -/
theorem Sl_SplitChildSlab_heap (T : Nat) {d : Nat} (m : MetaSlab (ATree d)) (child : ATree d) (k : Nat)
    (s : HSt) (hsplit : SplitAgreesH T d child s)
    (hk : k < m.countSum.length) (hk' : k < m.childHdrs.length)
    (hbase : (ATree.hdr d child).count ≤ m.countSum.getD k 0) :
    TransSl.ArrayMetaDataSlab_SplitChildSlab (envH T) (trMeta m) s (some (trTree d child)) (Int.ofNat k) =
      match ATree.split d child s.ctx, m.splitChildSlab child k s.ctx with
      | .error e, _ => some (some e, trMeta m, s, some (trTree d child))
      | .ok (l, r, c1), .ok (m', _) =>
        some (none, trMeta m',
          (((s.withCtx c1).store (ATree.hdr d l).id (some (trTree d l))).store (ATree.hdr d r).id
            (some (trTree d r))).store m.hdr.id (some (.metaSlab (trMeta m'))),
          some (trTree d l))
      | .ok _, .error _ => none := by
  unfold SplitAgreesH at hsplit
  have hget : m.countSum[k]? = some (m.countSum.getD k 0) := by
    simp [List.getD_eq_getElem?_getD, List.getElem?_eq_getElem hk]
  simp only [TransSl.ArrayMetaDataSlab_SplitChildSlab, trMeta_childrenCountSum, goIdx_map, hget, Option.map_some,
    hsplit, MetaSlab.splitChildSlab]
  cases hs : ATree.split d child s.ctx with
  | error e => simp
  | ok res =>
    obtain ⟨l, r, c1⟩ := res
    simp only [bind, Except.bind, Option.isSome_none, Bool.false_eq_true, if_false, dispH_Header, trHdr_count,
      trMeta_childrenHeaders, goSet_map, hk', if_true, ofNat_succ', goInsert_map_one, List.length_set,
      show k + 1 ≤ m.childHdrs.length from hk', storeSlab_envH_tree]
    have hb : (ATree.hdr d child).count ≤ m.countSum.getD k 0 := hbase
    rw [u32_sub' hb, u32_add', u32_add', goSet_map]
    simp only [hk, if_true, goInsert_map_one, List.length_set, show k + 1 ≤ m.countSum.length from hk]
    simp [trMeta, trHdr, pure, Except.pure, storeSlab_envH, TransSl.ArraySlab_SlabID, TransSl.ArrayMetaDataSlab_SlabID]

/-- the `ctx` of the final state of `Sl_SplitChildSlab_heap` is the model's -/
theorem Sl_SplitChildSlab_heap_ctx {d : Nat} (m : MetaSlab (ATree d)) (child : ATree d) (k : Nat) (s : HSt)
    (l r : ATree d) (c1 : Ctx) (m' : MetaSlab (ATree d)) (c' : Ctx)
    (hs : ATree.split d child s.ctx = .ok (l, r, c1)) (hm : m.splitChildSlab child k s.ctx = .ok (m', c'))
    (v1 v2 v3 : Option GSlab) :
    ((((s.withCtx c1).store (ATree.hdr d l).id v1).store (ATree.hdr d r).id v2).store m.hdr.id v3).ctx = c' := by
  simp only [MetaSlab.splitChildSlab, hs, bind, Except.bind, pure, Except.pure, Except.ok.injEq, Prod.mk.injEq] at hm
  simp only [HSt.store_ctx, HSt.withCtx_ctx]
  exact hm.2

/-- `SplitChildSlab` of a DATA-slab child over the heap: no hypothesis on generated code -/
theorem Sl_SplitChildSlab_data_heap (T : Nat) (m : MetaSlab (ATree 0)) (child : DataSlab) (k : Nat)
    (s : HSt) (hT : legalThreshold T = true) (hw : DataWork T child)
    (hk : k < m.countSum.length) (hk' : k < m.childHdrs.length)
    (hbase : child.hdr.count ≤ m.countSum.getD k 0) :
    TransSl.ArrayMetaDataSlab_SplitChildSlab (envH T) (trMeta m) s (some (.dataSlab (trData child))) (Int.ofNat k) =
      match DataSlab.split child s.ctx, m.splitChildSlab child k s.ctx with
      | .error e, _ => some (some e, trMeta m, s, some (.dataSlab (trData child)))
      | .ok (l, r, c1), .ok (m', _) =>
        some (none, trMeta m',
          (((s.withCtx c1).store l.hdr.id (some (.dataSlab (trData l)))).store r.hdr.id
            (some (.dataSlab (trData r)))).store m.hdr.id (some (.metaSlab (trMeta m'))),
          some (.dataSlab (trData l)))
      | .ok _, .error _ => none := by
  have h := Sl_SplitChildSlab_heap T m child k s (SplitAgreesH_data_safe T child s hT hw) hk hk' hbase
  rw [show ATree.split 0 child s.ctx = DataSlab.split child s.ctx from rfl] at h
  simp only [trTree] at h
  cases hs : DataSlab.split child s.ctx with
  | error e => rw [hs] at h; exact h
  | ok res =>
    rw [hs] at h
    obtain ⟨l, r, c1⟩ := res
    cases hm : m.splitChildSlab child k s.ctx with
    | error e => rw [hm] at h; exact h
    | ok res2 => rw [hm] at h; obtain ⟨m', c'⟩ := res2; exact h

/-- `SplitChildSlab` of an INDEX-slab child over the heap: no hypothesis on generated code -/
theorem Sl_SplitChildSlab_meta_heap (T : Nat) {d : Nat} (m : MetaSlab (ATree (d + 1)))
    (child : MetaSlab (ATree d)) (k : Nat) (s : HSt)
    (hcs : (child.childHdrs.length + 1) / 2 ≤ child.countSum.length)
    (hcov : (child.childHdrs.length + 1) / 2 * arraySlabHeaderSize ≤ child.hdr.size)
    (hcnt : MetaSlab.sumCounts (child.childHdrs.take ((child.childHdrs.length + 1) / 2)) ≤ child.hdr.count)
    (hk : k < m.countSum.length) (hk' : k < m.childHdrs.length)
    (hbase : child.hdr.count ≤ m.countSum.getD k 0) :
    TransSl.ArrayMetaDataSlab_SplitChildSlab (envH T) (trMeta m) s (some (.metaSlab (trMeta child))) (Int.ofNat k) =
      match MetaSlab.split child s.ctx, m.splitChildSlab child k s.ctx with
      | .error e, _ => some (some e, trMeta m, s, some (.metaSlab (trMeta child)))
      | .ok (l, r, c1), .ok (m', _) =>
        some (none, trMeta m',
          (((s.withCtx c1).store l.hdr.id (some (.metaSlab (trMeta l)))).store r.hdr.id
            (some (.metaSlab (trMeta r)))).store m.hdr.id (some (.metaSlab (trMeta m'))),
          some (.metaSlab (trMeta l)))
      | .ok _, .error _ => none := by
  have h := Sl_SplitChildSlab_heap T m child k s (SplitAgreesH_meta T child s hcs hcov hcnt) hk hk' hbase
  rw [show ATree.split (d + 1) child s.ctx = MetaSlab.split child s.ctx from rfl] at h
  simp only [trTree] at h
  cases hs : MetaSlab.split child s.ctx with
  | error e => rw [hs] at h; exact h
  | ok res =>
    rw [hs] at h
    obtain ⟨l, r, c1⟩ := res
    cases hm : m.splitChildSlab child k s.ctx with
    | error e => rw [hm] at h; exact h
    | ok res2 => rw [hm] at h; obtain ⟨m', c'⟩ := res2; exact h

/-! ## 3. the root changes of `Array` -/

section dispH
variable (T : Nat)
theorem dispH_SlabID (d : Nat) (t : ATree d) :
    TransSl.ArraySlab_SlabID (envH T) (trTree d t) = (ATree.hdr d t).id := by
  cases d <;> rfl
theorem dispH_IsData (d : Nat) (t : ATree d) :
    TransSl.ArraySlab_IsData (envH T) (trTree d t) = decide (d = 0) := by
  cases d <;> rfl
theorem dispH_SetSlabID (d : Nat) (t : ATree d) (id : SlabID) :
    TransSl.ArraySlab_SetSlabID (envH T) (trTree d t) id = trTree d (ATree.setId d t id) := by
  cases d <;> rfl
theorem dispH_RemoveExtraData (d : Nat) (t : ATree d) :
    TransSl.ArraySlab_RemoveExtraData (envH T) (trTree d t) =
      (trExtra (ATree.isRoot d t), trTree d (ATree.setRoot d t false)) := by
  cases d <;> rfl
theorem dispH_SetExtraData (d : Nat) (t : ATree d) (b : Bool) :
    TransSl.ArraySlab_SetExtraData (envH T) (trTree d t) (trExtra b) = trTree d (ATree.setRoot d t b) := by
  cases d <;> rfl
end dispH

theorem storeSlab_envH_meta (T : Nat) (s : HSt) (a : GMeta) :
    TransSl.storeSlab (envH T) s (some (.metaSlab a)) = some (none, s.store a.header.slabID (some (.metaSlab a))) := by
  rw [storeSlab_envH]; rfl

/-- the join point of `splitRoot` on ANY root slab `t` over the heap -/
theorem Sl_Array_splitRoot_k1_heap (T : Nat) (d : Nat) (t : ATree d) (s : HSt)
    (hroot : ATree.isRoot d t = true)
    (hsplit : SplitAgreesH T d
      (ATree.setId d (ATree.setRoot d t false) (s.ctx.alloc (ATree.hdr d t).id.addr).1)
      (s.withCtx (s.ctx.alloc (ATree.hdr d t).id.addr).2)) :
    TransSl.Array_splitRoot.k1 (envH T) ({ Storage := s, root := some (trTree d t) } : HArray) =
      match ATree.split d (ATree.setId d (ATree.setRoot d t false) (s.ctx.alloc (ATree.hdr d t).id.addr).1)
          (s.ctx.alloc (ATree.hdr d t).id.addr).2 with
      | .error e => some (some e,
          { Storage := s.withCtx (s.ctx.alloc (ATree.hdr d t).id.addr).2,
            root := some (trTree d (ATree.setId d (ATree.setRoot d t false) (s.ctx.alloc (ATree.hdr d t).id.addr).1)) })
      | .ok (l, r, c') =>
        let newRoot : MetaSlab (ATree d) :=
          { hdr := { id := (ATree.hdr d t).id, count := (ATree.hdr d l).count + (ATree.hdr d r).count,
                     size := arrayMetaDataSlabPrefixSize + arraySlabHeaderSize * 2 },
            childHdrs := [ATree.hdr d l, ATree.hdr d r],
            countSum := [(ATree.hdr d l).count, (ATree.hdr d l).count + (ATree.hdr d r).count],
            children := [l, r], root := true }
        some (none,
          { Storage := (((s.withCtx c').store (ATree.hdr d l).id (some (trTree d l))).store (ATree.hdr d r).id
              (some (trTree d r))).store (ATree.hdr d t).id (some (.metaSlab (trMeta newRoot))),
            root := some (.metaSlab (trMeta newRoot)) }) := by
  unfold SplitAgreesH at hsplit
  simp only [HSt.withCtx_ctx, HSt.withCtx_withCtx] at hsplit
  simp only [TransSl.Array_splitRoot.k1, dispH_RemoveExtraData, dispH_SlabID, TransSl.Array_Address, slR_hdr_setRoot,
    envH_gen, Option.isSome_none, Bool.false_eq_true, if_false, dispH_SetSlabID, hsplit]
  cases hs : ATree.split d (ATree.setId d (ATree.setRoot d t false) (s.ctx.alloc (ATree.hdr d t).id.addr).1)
      (s.ctx.alloc (ATree.hdr d t).id.addr).2 with
  | error e => simp
  | ok res =>
    obtain ⟨l, r, c1⟩ := res
    simp only [Option.isSome_none, Bool.false_eq_true, if_false, dispH_Header, trHdr_count, storeSlab_envH_tree,
      dispH_SlabID, storeSlab_envH_meta, hroot]
    rw [u32_add']
    simp [trMeta, trHdr, trExtra, TransSl.ArraySlab_SlabID, TransSl.ArrayMetaDataSlab_SlabID]

theorem Sl_Array_splitRoot_enter_data_heap (T : Nat) (sl : DataSlab) (ty : Nat) (s : HSt)
    (h5 : arrayRootDataSlabPrefixSize ≤ sl.hdr.size) :
    TransSl.Array_splitRoot (envH T) (trArrH ⟨0, sl, ty⟩ s) =
      TransSl.Array_splitRoot.k1 (envH T) ({ Storage := s, root := some (.dataSlab (trData
        { sl with hdr := { sl.hdr with size := sl.hdr.size - arrayRootDataSlabPrefixSize + arrayDataSlabPrefixSize } })) } :
        HArray) := by
  have e5 : UInt32.ofNat arrayRootDataSlabPrefixSize = u32 arrayRootDataSlabPrefixSize := rfl
  have e21 : UInt32.ofNat arrayDataSlabPrefixSize = u32 arrayDataSlabPrefixSize := rfl
  have hd : TransSl.ArraySlab_IsData (envH T) (trTree 0 sl) = true := rfl
  simp only [TransSl.Array_splitRoot, trArrH_root, hd, if_true]
  show TransSl.Array_splitRoot.k1 _ _ = _
  congr 1
  rw [trData_header, trHdr_size, e5, e21, u32_sub' h5, u32_add']
  rfl

theorem Sl_Array_splitRoot_enter_heap (T : Nat) (a : Arr) (s : HSt)
    (hsz : a.d = 0 → arrayRootDataSlabPrefixSize ≤ (ATree.hdr a.d a.root).size) :
    TransSl.Array_splitRoot (envH T) (trArrH a s) =
      TransSl.Array_splitRoot.k1 (envH T) ({ Storage := s, root := some (trTree a.d (splitRoot0 a)) } : HArray) := by
  obtain ⟨d, root, ty⟩ := a
  cases d with
  | zero => exact Sl_Array_splitRoot_enter_data_heap T root ty s (hsz rfl)
  | succ d =>
    simp only [TransSl.Array_splitRoot, trArrH_root, dispH_IsData]
    rfl

/-- **`Array.splitRoot()` over the heap**.  On success: the model's new root (`splitRootNew`), the heap before with the
    `Ctx` after `Split` and three stores (left half, right half - under the freshly allocated identifiers - and the new
    root under the old root identifier).  If `Split` fails Go returns the error and leaves the array with the ALREADY
    MODIFIED old root and the storage after the allocation; the heap is untouched.  NOTE: the old root slab was stored
    under the root identifier before; that entry is overwritten by the new root, nothing is removed. -/
theorem Sl_Array_splitRoot_heap (T : Nat) (a : Arr) (s : HSt)
    (hroot : ATree.isRoot a.d a.root = true)
    (hsz : a.d = 0 → arrayRootDataSlabPrefixSize ≤ (ATree.hdr a.d a.root).size)
    (hsplit : SplitAgreesH T a.d (splitRootOld a s.ctx) (s.withCtx (splitRootCtx a s.ctx))) :
    TransSl.Array_splitRoot (envH T) (trArrH a s) =
      match ATree.split a.d (splitRootOld a s.ctx) (splitRootCtx a s.ctx) with
      | .error e => some (some e, trArrH ⟨a.d, splitRootOld a s.ctx, a.ty⟩ (s.withCtx (splitRootCtx a s.ctx)))
      | .ok (l, r, c1) =>
        some (none, trArrH ⟨a.d + 1, splitRootNew a l r, a.ty⟩
          ((((s.withCtx c1).store (ATree.hdr a.d l).id (some (trTree a.d l))).store (ATree.hdr a.d r).id
            (some (trTree a.d r))).store (ATree.hdr a.d (splitRoot0 a)).id
            (some (.metaSlab (trMeta (splitRootNew a l r)))))) := by
  have hroot0 : ATree.isRoot a.d (splitRoot0 a) = true := by
    obtain ⟨d, root, ty⟩ := a
    cases d <;> exact hroot
  rw [Sl_Array_splitRoot_enter_heap T a s hsz,
    Sl_Array_splitRoot_k1_heap T a.d (splitRoot0 a) s hroot0 hsplit]
  simp only [splitRootOld, splitRootCtx]
  generalize ATree.split a.d (ATree.setId a.d (ATree.setRoot a.d (splitRoot0 a) false)
    (s.ctx.alloc (ATree.hdr a.d (splitRoot0 a)).id.addr).1) (s.ctx.alloc (ATree.hdr a.d (splitRoot0 a)).id.addr).2 = res
  cases res with
  | error e => rfl
  | ok res => rfl

/-- the link to the model's `Arr.splitRoot` -/
theorem Sl_Array_splitRoot_heap_model (a : Arr) (s : HSt) :
    a.splitRoot s.ctx =
      match ATree.split a.d (splitRootOld a s.ctx) (splitRootCtx a s.ctx) with
      | .error e => .error e
      | .ok (l, r, c1) =>
        .ok (⟨a.d + 1, splitRootNew a l r, a.ty⟩,
          ((((s.withCtx c1).store (ATree.hdr a.d l).id (some (trTree a.d l))).store (ATree.hdr a.d r).id
            (some (trTree a.d r))).store (ATree.hdr a.d (splitRoot0 a)).id
            (some (.metaSlab (trMeta (splitRootNew a l r))))).ctx) :=
  splitRoot_unfold a s.ctx

/-! ### promote -/

/-- the join point of `promoteChildAsNewRoot` over the heap: the new root is stored under the root identifier, the
    child's old identifier is removed -/
theorem Sl_Array_promoteChildAsNewRoot_k1_heap (T : Nat) (d : Nat) (m : MetaSlab (ATree d)) (s : HSt) (id : SlabID)
    (child1 : ATree d) (err : Option AErr) :
    TransSl.Array_promoteChildAsNewRoot.k1 (envH T)
        ({ Storage := s, root := some (trTree (d + 1) m) } : HArray) id (some (trTree d child1)) err =
      some (none, { Storage := (s.store m.hdr.id
                      (some (trTree d (ATree.setRoot d (ATree.setId d child1 m.hdr.id) m.root)))).remove id,
                    root := some (trTree d (ATree.setRoot d (ATree.setId d child1 m.hdr.id) m.root)) }) := by
  have hrm : TransSl.ArraySlab_RemoveExtraData (envH T) (trTree (d + 1) m) =
      (trExtra m.root, TransSl.ArraySlabV.metaSlab (trMeta ({ m with root := false } : MetaSlab (ATree d)))) := rfl
  have hid : TransSl.ArraySlab_SlabID (envH T)
      (TransSl.ArraySlabV.metaSlab (trMeta ({ m with root := false } : MetaSlab (ATree d)))) = m.hdr.id := rfl
  simp only [TransSl.Array_promoteChildAsNewRoot.k1, hrm, hid, dispH_SlabID, dispH_SetSlabID,
    dispH_SetExtraData, slR_hdr_setRoot, storeSlab_envH_tree, Option.isSome_none, Bool.false_eq_true, if_false, envH_remove,
    slR_hdr_setId, envH_wrap]

theorem Sl_Array_promoteChildAsNewRoot_enter_data_heap (T : Nat) (g : HArray) (id : SlabID) (sl : DataSlab)
    (hlook : g.Storage.heap id = some (.dataSlab (trData sl))) (h21 : arrayDataSlabPrefixSize ≤ sl.hdr.size) :
    TransSl.Array_promoteChildAsNewRoot (envH T) g id =
      TransSl.Array_promoteChildAsNewRoot.k1 (envH T) g id (some (.dataSlab (trData
        { sl with hdr := { sl.hdr with size := sl.hdr.size - arrayDataSlabPrefixSize + arrayRootDataSlabPrefixSize } })))
        none := by
  have e5 : UInt32.ofNat arrayRootDataSlabPrefixSize = u32 arrayRootDataSlabPrefixSize := rfl
  have e21 : UInt32.ofNat arrayDataSlabPrefixSize = u32 arrayDataSlabPrefixSize := rfl
  have hd : TransSl.ArraySlab_IsData (envH T) (.dataSlab (trData sl)) = true := rfl
  simp only [TransSl.Array_promoteChildAsNewRoot, envH_getArraySlab, hlook, Option.isSome_none, Bool.false_eq_true,
    if_false, hd, if_true]
  show TransSl.Array_promoteChildAsNewRoot.k1 _ _ _ _ _ = _
  congr 2
  rw [trData_header, trHdr_size, e5, e21, u32_sub' h21, u32_add']
  rfl

theorem Sl_Array_promoteChildAsNewRoot_enter_heap (T : Nat) {d : Nat} (g : HArray) (id : SlabID) (child : ATree d)
    (hlook : g.Storage.heap id = some (trTree d child))
    (hsz : d = 0 → arrayDataSlabPrefixSize ≤ (ATree.hdr d child).size) :
    TransSl.Array_promoteChildAsNewRoot (envH T) g id =
      TransSl.Array_promoteChildAsNewRoot.k1 (envH T) g id (some (trTree d (promoteChild1 d child))) none := by
  obtain ⟨st, root⟩ := g
  cases d with
  | zero =>
    exact Sl_Array_promoteChildAsNewRoot_enter_data_heap T _ id child hlook (hsz rfl)
  | succ d =>
    simp only at hlook
    simp only [TransSl.Array_promoteChildAsNewRoot, envH_getArraySlab, hlook, Option.isSome_none, Bool.false_eq_true,
      if_false, dispH_IsData]
    rfl

/-- **`Array.promoteChildAsNewRoot(childID)` over the heap**: on a root index slab with exactly one child that the
    heap returns under the identifier in the header copy: the model's `promoteIfSingleChild`; the heap is the heap before
    with the new root stored under the root identifier and the child's identifier removed. -/
theorem Sl_Array_promoteChildAsNewRoot_heap (T : Nat) {d : Nat} (m : MetaSlab (ATree d)) (ty : Nat) (s : HSt)
    (h : Hdr) (child : ATree d) (hch : m.childHdrs = [h]) (hcs : m.children = [child])
    (hlook : s.heap h.id = some (trTree d child)) (hroot : m.root = true)
    (hsz : d = 0 → arrayDataSlabPrefixSize ≤ (ATree.hdr d child).size) :
    TransSl.Array_promoteChildAsNewRoot (envH T) (trArrH ⟨d + 1, m, ty⟩ s) h.id =
      some (none, trArrH ((⟨d + 1, m, ty⟩ : Arr).promoteIfSingleChild s.ctx).1
        ((s.store m.hdr.id (some (trTree d (ATree.setRoot d (ATree.setId d (promoteChild1 d child) m.hdr.id) true)))).remove
          h.id)) := by
  rw [Sl_Array_promoteChildAsNewRoot_enter_heap T _ h.id child hlook hsz, promote_unfold m ty s.ctx h child hch hcs]
  show TransSl.Array_promoteChildAsNewRoot.k1 (envH T)
    ({ Storage := s, root := some (trTree (d + 1) m) } : HArray) _ _ _ = _
  rw [Sl_Array_promoteChildAsNewRoot_k1_heap, hroot]
  rfl

/-- the `ctx` of the final state of `Sl_Array_promoteChildAsNewRoot_heap` is the model's -/
theorem Sl_Array_promoteChildAsNewRoot_heap_ctx {d : Nat} (m : MetaSlab (ATree d)) (ty : Nat) (s : HSt)
    (h : Hdr) (child : ATree d) (hch : m.childHdrs = [h]) (hcs : m.children = [child]) (v : Option GSlab) :
    ((s.store m.hdr.id v).remove h.id).ctx = ((⟨d + 1, m, ty⟩ : Arr).promoteIfSingleChild s.ctx).2 := by
  rw [promote_unfold m ty s.ctx h child hch hcs]; rfl

/-- the child is not in the heap: `SlabNotFoundError`, nothing has changed -/
theorem Sl_Array_promoteChildAsNewRoot_notFound_heap (T : Nat) (a : Arr) (s : HSt) (id : SlabID)
    (hlook : s.heap id = none) :
    TransSl.Array_promoteChildAsNewRoot (envH T) (trArrH a s) id = some (some .slabNotFound, trArrH a s) := by
  simp only [TransSl.Array_promoteChildAsNewRoot, envH_getArraySlab, trArrH_Storage, hlook, Option.isSome_some, if_true]
  rfl

/-! ### non-vacuity -/
section examplesH

def exH0 : HSt := ⟨fun _ => none, ⟨5, [], []⟩⟩

example :
    (TransSl.ArrayMetaDataSlab_SplitChildSlab (envH 256) (trMeta exIdx) exH0
      (some (.dataSlab (trData (exData 2 3 [100, 150, 200])))) (Int.ofNat 0)).map
      (fun r => (r.1, r.2.1.header, r.2.1.childrenCountSum, r.2.2.1.ctx,
        (r.2.2.1.heap ⟨1, 2⟩).map (TransSl.ArraySlab_Header (envH 256)),
        (r.2.2.1.heap ⟨1, 6⟩).map (TransSl.ArraySlab_Header (envH 256)),
        (r.2.2.1.heap ⟨1, 1⟩).map (TransSl.ArraySlab_Header (envH 256)),
        (r.2.2.1.heap ⟨1, 3⟩).isSome)) =
    some (none, { slabID := ⟨1, 1⟩, size := 54, count := 5 }, [2, 3, 5],
      ⟨6, [.alloc 1 ⟨1, 6⟩, .store ⟨1, 2⟩, .store ⟨1, 6⟩, .store ⟨1, 1⟩], []⟩,
      some { slabID := ⟨1, 2⟩, size := 271, count := 2 }, some { slabID := ⟨1, 6⟩, size := 221, count := 1 },
      some { slabID := ⟨1, 1⟩, size := 54, count := 5 }, false) := by
  rw [Sl_SplitChildSlab_data_heap 256 exIdx (exData 2 3 [100, 150, 200]) 0 exH0 (by decide) exBig_work
    (by decide) (by decide) (by decide)]
  rfl


/-- the same by direct evaluation of the generated function -/
example :
    (TransSl.ArrayMetaDataSlab_SplitChildSlab (envH 256) (trMeta exIdx) exH0
      (some (.dataSlab (trData (exData 2 3 [100, 150, 200])))) (Int.ofNat 0)).map
      (fun r => (r.1, r.2.2.1.ctx,
        (r.2.2.1.heap ⟨1, 6⟩).map (TransSl.ArraySlab_Header (envH 256)))) =
    some (none, ⟨6, [.alloc 1 ⟨1, 6⟩, .store ⟨1, 2⟩, .store ⟨1, 6⟩, .store ⟨1, 1⟩], []⟩,
      some { slabID := ⟨1, 6⟩, size := 221, count := 1 }) := by rfl

/-- an index-slab child -/
example :
    (TransSl.ArrayMetaDataSlab_SplitChildSlab (envH 256) (trMeta exTop) ⟨fun _ => none, ⟨7, [], []⟩⟩
      (some (.metaSlab (trMeta exMid))) (Int.ofNat 0)).map
      (fun r => (r.1, r.2.1.childrenCountSum, r.2.2.1.ctx,
        (r.2.2.1.heap ⟨1, 2⟩).map (TransSl.ArraySlab_Header (envH 256)),
        (r.2.2.1.heap ⟨1, 8⟩).map (TransSl.ArraySlab_Header (envH 256)),
        (r.2.2.1.heap ⟨1, 1⟩).map (TransSl.ArraySlab_Header (envH 256)))) =
    some (none, [30, 100], ⟨8, [.alloc 1 ⟨1, 8⟩, .store ⟨1, 2⟩, .store ⟨1, 8⟩, .store ⟨1, 1⟩], []⟩,
      some { slabID := ⟨1, 2⟩, size := 40, count := 30 }, some { slabID := ⟨1, 8⟩, size := 40, count := 70 },
      some { slabID := ⟨1, 1⟩, size := 40, count := 100 }) := by
  rw [Sl_SplitChildSlab_meta_heap 256 exTop exMid 0 _ (by decide) (by decide) (by decide)
    (by decide) (by decide) (by decide)]
  rfl

/-- `splitRoot` of a data root with three 50-byte elements on an empty heap -/
example :
    (TransSl.Array_splitRoot (envH 256) (trArrH slRArr ⟨fun _ => none, slRCtx⟩)).map
      (fun r => (r.1, r.2.root.map (TransSl.ArraySlab_Header (envH 256)), r.2.Storage.ctx,
        (r.2.Storage.heap ⟨1, 1⟩).map (TransSl.ArraySlab_Header (envH 256)),
        (r.2.Storage.heap ⟨1, 2⟩).map (TransSl.ArraySlab_Header (envH 256)),
        (r.2.Storage.heap ⟨1, 3⟩).map (TransSl.ArraySlab_Header (envH 256)))) =
    some (none, some { slabID := ⟨1, 1⟩, size := 40, count := 3 },
      { ctr := 3, eff := [.alloc 1 ⟨1, 2⟩, .alloc 1 ⟨1, 3⟩, .store ⟨1, 2⟩, .store ⟨1, 3⟩, .store ⟨1, 1⟩] },
      some { slabID := ⟨1, 1⟩, size := 40, count := 3 }, some { slabID := ⟨1, 2⟩, size := 121, count := 2 },
      some { slabID := ⟨1, 3⟩, size := 71, count := 1 }) := by
  rw [Sl_Array_splitRoot_heap 256 slRArr ⟨fun _ => none, slRCtx⟩ rfl (fun _ => by decide)
    (SplitAgreesH_data 256 _ _ (by decide) (by decide))]
  rfl

/-- `promoteChildAsNewRoot`: the heap holds the single child `⟨1, 2⟩` -/
example :
    (TransSl.Array_promoteChildAsNewRoot (envH 256) (trArrH ⟨1, slRSingle, 7⟩ ⟨slRLook, slRCtx⟩) ⟨1, 2⟩).map
      (fun r => (r.1, r.2.root.map (TransSl.ArraySlab_Header (envH 256)), r.2.Storage.ctx,
        (r.2.Storage.heap ⟨1, 1⟩).map (TransSl.ArraySlab_Header (envH 256)),
        (r.2.Storage.heap ⟨1, 2⟩).isSome)) =
    some (none, some { slabID := ⟨1, 1⟩, size := 155, count := 3 },
      { ctr := 1, eff := [.store ⟨1, 1⟩, .remove ⟨1, 2⟩] },
      some { slabID := ⟨1, 1⟩, size := 155, count := 3 }, false) := by
  rw [show (⟨1, 2⟩ : SlabID) = (⟨⟨1, 2⟩, 171, 3⟩ : Hdr).id from rfl,
    Sl_Array_promoteChildAsNewRoot_heap 256 slRSingle 7 ⟨slRLook, slRCtx⟩ ⟨⟨1, 2⟩, 171, 3⟩ slRChild rfl rfl rfl rfl
      (fun _ => by decide)]
  rfl

example : TransSl.Array_promoteChildAsNewRoot (envH 256) (trArrH ⟨1, slRSingle, 7⟩ ⟨fun _ => none, slRCtx⟩) ⟨1, 2⟩ =
    some (some .slabNotFound, trArrH ⟨1, slRSingle, 7⟩ ⟨fun _ => none, slRCtx⟩) :=
  Sl_Array_promoteChildAsNewRoot_notFound_heap 256 _ _ _ rfl

end examplesH
end Atree.TransEq
