import AtreeProofs.Props.TransMapDescentSetModel
import AtreeProofs.Props.TransMapDescentTopSet
/-
  WP13 (map descent, `Set`, the WHOLE `MTree.set` / `OMap.set`): the generated descent over the heap equals the model's
  `MTree.set` on every branch of `MMetaSlab.afterChild` (split / merge-or-rebalance / store), with the behaviour of the
  restructuring calls as explicit TAIL hypotheses (`MSplitTail`, `MMorTail`, `MRootTail`) about ANY `rs : DRestruct r`
  (to be discharged for `rsOf T` by Props/TransMapRestruct*.lean).
  Helper names carry the prefix `mds_`.
-/
namespace Atree.TransEq
open Atree Atree.Gen.TransMapD

section
variable {r : Nat}

/-- identifiers of the owner address above the allocation counter are not in the heap -/
def mds_FreshFree (addr : Nat) (s : MHSt r) : Prop :=
  ∀ id : SlabID, id.addr = addr → s.ctx.ctr < id.idx → s.heap id = none

/-- the state after an operation that turns the subtree `t` into `t'` (storage `s` into `s'`): the new identifiers are
    pairwise distinct and belong to the owner, the heap holds `t'`, identifiers that entered the tree were free before,
    identifiers that left it are gone, everything else is untouched, fresh identifiers are still free -/
structure mds_Post (addr : Nat) (s s' : MHSt r) (d : Nat) (t t' : MTree r d) (x : Option DX) : Prop where
  nodup : (md_ids d t').Nodup
  addrOk : ∀ id ∈ md_ids d t', id.addr = addr
  holds : MHolds s'.heap d t' x
  fresh : ∀ id ∈ md_ids d t', id ∉ md_ids d t → s.heap id = none
  gone : ∀ id ∈ md_ids d t, id ∉ md_ids d t' → s'.heap id = none
  frame : ∀ id, id ∉ md_ids d t → id ∉ md_ids d t' → s'.heap id = s.heap id
  ff : mds_FreshFree addr s'

theorem mds_Post.post {addr : Nat} {s s' : MHSt r} {d : Nat} {t t' : MTree r d} {x : Option DX}
    (hp : mds_Post addr s s' d t t' x) : MHeapPost s.heap s'.heap t t' x :=
  ⟨hp.holds, hp.gone, hp.frame⟩

/-- what a restructuring call of an index slab may assume: the receiver `m1` is passed BY VALUE (the heap still has its
    old version under `m1.hdr.id`), every child subtree is held by the heap (the modified child included: its own `Set` /
    restructuring stored it), header list and children agree, identifiers pairwise distinct and the owner's, fresh
    identifiers free, every child satisfies the provider's invariant `Q` -/
structure mds_Pre (Q : (d : Nat) → MTree r d → Prop) (addr : Nat) (s1 : MHSt r) (d : Nat)
    (m1 : MMetaSlab (MTree r d)) : Prop where
  held : ∀ c ∈ m1.children, MHolds s1.heap d c none
  hdrs : m1.childHdrs = m1.children.map (MTree.hdr d)
  nodup : (md_ids (d + 1) m1).Nodup
  addrOk : ∀ id ∈ md_ids (d + 1) m1, id.addr = addr
  rootSome : (s1.heap m1.hdr.id).isSome = true
  ff : mds_FreshFree addr s1
  inv : ∀ c ∈ m1.children, Q d c

/-- TAIL hypothesis on `rs.splitChild` (`MapMetaDataSlab.SplitChildSlab`): on a receiver `m1` in a state satisfying
    `mds_Pre`, whose child `k` is `child'` (full), it returns the model's `splitChildSlab` as generated records, with the
    model's `Ctx`, and the heap afterwards is as `mds_Post` says; a model error comes back as the error value -/
def MSplitTail (T : Nat) (rs : DRestruct r) (Q : (d : Nat) → MTree r d → Prop) : Prop :=
  ∀ (addr d : Nat) (m1 : MMetaSlab (MTree r d)) (x : Option DX) (child' : MTree r d) (k : Nat) (s1 : MHSt r),
    mds_Pre Q addr s1 d m1 → m1.children[k]? = some child' → MTree.isFull T d child' = true →
    match m1.splitChildSlab child' k s1.ctx with
    | .ok (m', c') =>
      ∃ s' w, rs.splitChild (md_meta m1 x) s1 (md_tree d child' none) (Int.ofNat k) = (none, md_meta m' x, s', w) ∧
        s'.ctx = c' ∧ s'.popped = s1.popped ∧ mds_Post addr s1 s' (d + 1) m1 m' x
    | .error e =>
      ∃ a s' w, rs.splitChild (md_meta m1 x) s1 (md_tree d child' none) (Int.ofNat k) = (some e, a, s', w)

/-- TAIL hypothesis on `rs.mergeOrRebalance` (`MapMetaDataSlab.MergeOrRebalanceChildSlab`), same shape; `u` is the
    model's underflow size of the child (the identifier of a merged-away sibling is gone: `mds_Post.gone`) -/
def MMorTail (T : Nat) (rs : DRestruct r) (Q : (d : Nat) → MTree r d → Prop) : Prop :=
  ∀ (addr d : Nat) (m1 : MMetaSlab (MTree r d)) (x : Option DX) (child' : MTree r d) (k u : Nat) (s1 : MHSt r),
    mds_Pre Q addr s1 d m1 → m1.children[k]? = some child' → MTree.isFull T d child' = false →
    MTree.isUnderflow T d child' = some u →
    match m1.mergeOrRebalanceChildSlab T child' k u s1.ctx with
    | .ok (m', c') =>
      ∃ s' w, rs.mergeOrRebalance (md_meta m1 x) s1 (md_tree d child' none) (Int.ofNat k) (u32 u) =
          (none, md_meta m' x, s', w) ∧
        s'.ctx = c' ∧ s'.popped = s1.popped ∧ mds_Post addr s1 s' (d + 1) m1 m' x
    | .error e =>
      ∃ a s' w, rs.mergeOrRebalance (md_meta m1 x) s1 (md_tree d child' none) (Int.ofNat k) (u32 u) = (some e, a, s', w)

/-! ### list-level composition of an inner (child) step with an outer (index slab) step -/

/-- `fresh / gone / frame` of the composition: `I` / `I1` / `I'` = identifiers of the index-slab subtree before / after the
    child step / after the outer step; `J` / `J'` = identifiers of the child subtree before / after -/
theorem mds_compose {h h1 h' : SlabID → Option (DSlab r)} {I I1 I' J J' : List SlabID}
    (hJ : ∀ id ∈ J, id ∈ I) (hJ' : ∀ id ∈ J', id ∈ I1) (hI1 : ∀ id ∈ I1, id ∈ I ∨ id ∈ J')
    (hI : ∀ id ∈ I, id ∈ I1 ∨ id ∈ J)
    (fi : ∀ id ∈ J', id ∉ J → h id = none) (gi : ∀ id ∈ J, id ∉ J' → h1 id = none)
    (ri : ∀ id, id ∉ J → id ∉ J' → h1 id = h id)
    (fo : ∀ id ∈ I', id ∉ I1 → h1 id = none) (go : ∀ id ∈ I1, id ∉ I' → h' id = none)
    (ro : ∀ id, id ∉ I1 → id ∉ I' → h' id = h1 id) :
    (∀ id ∈ I', id ∉ I → h id = none) ∧ (∀ id ∈ I, id ∉ I' → h' id = none) ∧
    (∀ id, id ∉ I → id ∉ I' → h' id = h id) := by
  refine ⟨fun id hi' hi => ?_, fun id hi hi' => ?_, fun id hi hi' => ?_⟩
  · by_cases h1m : id ∈ I1
    · rcases hI1 id h1m with hh | hh
      · exact absurd hh hi
      · exact fi id hh (fun hj => hi (hJ id hj))
    · rw [← ri id (fun hj => hi (hJ id hj)) (fun hj => h1m (hJ' id hj))]
      exact fo id hi' h1m
  · by_cases h1m : id ∈ I1
    · exact go id h1m hi'
    · rcases hI id hi with hh | hh
      · exact absurd hh h1m
      · rw [ro id h1m hi']
        exact gi id hh (fun hj => h1m (hJ' id hj))
  · by_cases h1m : id ∈ I1
    · rcases hI1 id h1m with hh | hh
      · exact absurd hh hi
      · rw [go id h1m hi', fi id hh (fun hj => hi (hJ id hj))]
    · rw [ro id h1m hi']
      exact ri id (fun hj => hi (hJ id hj)) (fun hj => h1m (hJ' id hj))

/-- a held tree's identifiers are in the heap -/
theorem mds_MHolds_some : ∀ (d : Nat) (t : MTree r d) (x : Option DX) (h : SlabID → Option (DSlab r)),
    MHolds h d t x → ∀ id ∈ md_ids d t, (h id).isSome = true
  | 0, t, x, h, hh, id, hid => by
    have e : id = (MTree.hdr 0 t).id := List.mem_singleton.mp hid
    have hh' : h (MTree.hdr 0 t).id = some _ := hh
    rw [e, hh']; rfl
  | d + 1, t, x, h, hh, id, hid => by
    rcases List.mem_cons.mp hid with e | hm
    · have hh' : h (MTree.hdr (d + 1) t).id = some _ := hh.1
      have e' : id = (MTree.hdr (d + 1) t).id := e
      rw [e', hh']; rfl
    · obtain ⟨c, hc, hic⟩ := List.mem_flatMap.mp hm
      exact mds_MHolds_some d c none h (hh.2 c hc) id hic

/-- a step that keeps the identifiers (`mds_HeapRel`) and does not lower the counter satisfies `mds_Post` -/
theorem mds_Post_of_HeapRel {addr : Nat} {s s' : MHSt r} {d : Nat} {t t' : MTree r d} {x x0 : Option DX}
    (hrel : mds_HeapRel s.heap s'.heap d t t' x) (hnd : (md_ids d t).Nodup) (haddr : ∀ id ∈ md_ids d t, id.addr = addr)
    (hh : MHolds s.heap d t x0) (ffs : mds_FreshFree addr s) (hctr : s.ctx.ctr ≤ s'.ctx.ctr) :
    mds_Post addr s s' d t t' x where
  nodup := hrel.ids ▸ hnd
  addrOk := fun id hid => haddr id (hrel.ids ▸ hid)
  holds := hrel.holds
  fresh := fun id hid hn => absurd (hrel.ids ▸ hid) hn
  gone := fun id hid hn => absurd (hrel.ids.symm ▸ hid) hn
  frame := fun id hn _ => hrel.frame id hn
  ff := fun id ha hlt => by
    have hnone : s.heap id = none := ffs id ha (Nat.lt_of_le_of_lt hctr hlt)
    have hn : id ∉ md_ids d t := fun hid => by
      have := mds_MHolds_some d t x0 s.heap hh id hid
      rw [hnone] at this; cases this
    rw [hrel.frame id hn]; exact hnone

/-- `storeSlab` of the index slab itself (no restructuring) as an outer step -/
theorem mds_Post_store {Q : (d : Nat) → MTree r d → Prop} {addr : Nat} {s1 : MHSt r} {d : Nat}
    {m1 : MMetaSlab (MTree r d)} (x : Option DX) (hp : mds_Pre Q addr s1 d m1) :
    mds_Post addr s1 (s1.store m1.hdr.id (.metaSlab (md_meta m1 x))) (d + 1) m1 m1 x := by
  have hstore : ∀ id, id ≠ m1.hdr.id → (s1.store m1.hdr.id (.metaSlab (md_meta m1 x))).heap id = s1.heap id :=
    fun id hne => by show (if id = m1.hdr.id then _ else _) = _; rw [if_neg hne]
  have hids : md_ids (d + 1) m1 = m1.hdr.id :: m1.children.flatMap (md_ids d) := rfl
  have hnd := hp.nodup
  rw [hids] at hnd
  have hhead := (List.nodup_cons.mp hnd).1
  refine ⟨hp.nodup, hp.addrOk, ⟨?_, fun c hc => ?_⟩, fun id hid hn => absurd hid hn, fun id hid hn => absurd hid hn,
    fun id hn _ => ?_, fun id ha hlt => ?_⟩
  · show (if m1.hdr.id = m1.hdr.id then _ else _) = _
    rw [if_pos rfl]
  · refine mds_MHolds_congr d c none s1.heap _ (fun id hid => ?_) (hp.held c hc)
    exact hstore id (fun e => hhead (e ▸ List.mem_flatMap.mpr ⟨c, hc, hid⟩))
  · exact hstore id (fun e => hn (e ▸ (hids ▸ List.mem_cons_self)))
  · have hnone : s1.heap id = none := hp.ff id ha hlt
    have hne : id ≠ m1.hdr.id := fun e => by
      have := hp.rootSome; rw [← e, hnone] at this; cases this
    rw [hstore id hne]; exact hnone

/-- after the child step: the index slab `m1` (header / child `i` replaced) in the state `s1` satisfies `mds_Pre`, and
    the identifier lists decompose as the composition lemma needs -/
theorem mds_Pre_after_child {Q : (d : Nat) → MTree r d → Prop} {addr : Nat} {s s1 : MHSt r} {d : Nat}
    (m : MMetaSlab (MTree r d)) (x0 : Option DX) (child child' : MTree r d) (i : Nat)
    (hci : m.children[i]? = some child) (hh : MHolds s.heap (d + 1) m x0) (hnd : (md_ids (d + 1) m).Nodup)
    (haddr : ∀ id ∈ md_ids (d + 1) m, id.addr = addr) (hhdrs : m.childHdrs = m.children.map (MTree.hdr d))
    (hQ : ∀ c ∈ m.children, Q d c) (hQ' : Q d child') (hpost : mds_Post addr s s1 d child child' none) :
    mds_Pre Q addr s1 d (mds_metaAfter m child' i) ∧
    (mds_metaAfter m child' i).children[i]? = some child' ∧
    ∃ As Bs : List SlabID,
      md_ids (d + 1) m = m.hdr.id :: (As ++ (md_ids d child ++ Bs)) ∧
      md_ids (d + 1) (mds_metaAfter m child' i) = m.hdr.id :: (As ++ (md_ids d child' ++ Bs)) := by
  obtain ⟨A, B, hAB, hAl⟩ := mds_split_at m.children i child hci
  have hidsm : md_ids (d + 1) m = m.hdr.id :: (A.flatMap (md_ids d) ++ (md_ids d child ++ B.flatMap (md_ids d))) := by
    show m.hdr.id :: m.children.flatMap (md_ids d) = _
    rw [hAB]; simp
  have hch1 : (mds_metaAfter m child' i).children = A ++ child' :: B := by
    show m.children.set i child' = _
    rw [hAB, ← hAl, mds_set_at]
  have hidsm1 : md_ids (d + 1) (mds_metaAfter m child' i) =
      m.hdr.id :: (A.flatMap (md_ids d) ++ (md_ids d child' ++ B.flatMap (md_ids d))) := by
    show m.hdr.id :: (mds_metaAfter m child' i).children.flatMap (md_ids d) = _
    rw [hch1]; simp
  rw [hidsm] at hnd haddr
  obtain ⟨hhead, htail⟩ := List.nodup_cons.mp hnd
  obtain ⟨hAnd, hcB, hdisjA⟩ := List.nodup_append.mp htail
  obtain ⟨_, hBnd, hdisjB⟩ := List.nodup_append.mp hcB
  have hAheld : ∀ c ∈ A, MHolds s.heap d c none := fun c hc => hh.2 c (by rw [hAB]; exact List.mem_append_left _ hc)
  have hBheld : ∀ c ∈ B, MHolds s.heap d c none :=
    fun c hc => hh.2 c (by rw [hAB]; exact List.mem_append_right _ (List.mem_cons_of_mem _ hc))
  -- identifiers outside the child: in the old heap, not in the old child
  have hout : ∀ id, (s.heap id).isSome = true → id ∉ md_ids d child → id ∉ md_ids d child' := fun id hs hn hin => by
    have := hpost.fresh id hin hn
    rw [this] at hs; cases hs
  have hrootS : (s.heap m.hdr.id).isSome = true := by
    have h1 : s.heap m.hdr.id = some _ := hh.1
    rw [h1]; rfl
  have hrootJ : m.hdr.id ∉ md_ids d child := fun hc =>
    hhead (List.mem_append_right _ (List.mem_append_left _ hc))
  have hrootJ' : m.hdr.id ∉ md_ids d child' := hout _ hrootS hrootJ
  have hAJ : ∀ id ∈ A.flatMap (md_ids d), id ∉ md_ids d child ∧ id ∉ md_ids d child' := fun id hid => by
    obtain ⟨c, hc, hic⟩ := List.mem_flatMap.mp hid
    have hn : id ∉ md_ids d child := fun hc' => hdisjA id hid id (List.mem_append_left _ hc') rfl
    exact ⟨hn, hout id (mds_MHolds_some d c none s.heap (hAheld c hc) id hic) hn⟩
  have hBJ : ∀ id ∈ B.flatMap (md_ids d), id ∉ md_ids d child ∧ id ∉ md_ids d child' := fun id hid => by
    obtain ⟨c, hc, hic⟩ := List.mem_flatMap.mp hid
    have hn : id ∉ md_ids d child := fun hc' => hdisjB id hc' id hid rfl
    exact ⟨hn, hout id (mds_MHolds_some d c none s.heap (hBheld c hc) id hic) hn⟩
  refine ⟨⟨?_, ?_, ?_, ?_, ?_, hpost.ff, ?_⟩, by rw [hch1, ← hAl]; simp, _, _, hidsm, hidsm1⟩
  · intro c hc
    rw [hch1] at hc
    rcases List.mem_append.mp hc with hcA | hcB'
    · refine mds_MHolds_congr d c none s.heap _ (fun id hid => ?_) (hAheld c hcA)
      have := hAJ id (List.mem_flatMap.mpr ⟨c, hcA, hid⟩)
      exact hpost.frame id this.1 this.2
    · rcases List.mem_cons.mp hcB' with rfl | hcB''
      · exact hpost.holds
      · refine mds_MHolds_congr d c none s.heap _ (fun id hid => ?_) (hBheld c hcB'')
        have := hBJ id (List.mem_flatMap.mpr ⟨c, hcB'', hid⟩)
        exact hpost.frame id this.1 this.2
  · show m.childHdrs.set i (MTree.hdr d child') = (m.children.set i child').map (MTree.hdr d)
    rw [hhdrs, List.map_set]
  · rw [hidsm1]
    refine List.nodup_cons.mpr ⟨fun hin => ?_, List.nodup_append.mpr ⟨hAnd, List.nodup_append.mpr
      ⟨hpost.nodup, hBnd, fun a ha b hb e => (hBJ b hb).2 (e ▸ ha)⟩, fun a ha b hb e => ?_⟩⟩
    · rcases List.mem_append.mp hin with h1 | h1
      · exact hhead (List.mem_append_left _ h1)
      · rcases List.mem_append.mp h1 with h2 | h2
        · exact hrootJ' h2
        · exact hhead (List.mem_append_right _ (List.mem_append_right _ h2))
    · rcases List.mem_append.mp hb with h2 | h2
      · exact (hAJ a ha).2 (e ▸ h2)
      · exact hdisjA a ha b (List.mem_append_right _ h2) e
  · intro id hid
    rw [hidsm1] at hid
    rcases List.mem_cons.mp hid with e | h1
    · exact haddr id (e ▸ List.mem_cons_self)
    · rcases List.mem_append.mp h1 with h2 | h2
      · exact haddr id (List.mem_cons_of_mem _ (List.mem_append_left _ h2))
      · rcases List.mem_append.mp h2 with h3 | h3
        · exact hpost.addrOk id h3
        · exact haddr id (List.mem_cons_of_mem _ (List.mem_append_right _ (List.mem_append_right _ h3)))
  · show (s1.heap m.hdr.id).isSome = true
    rw [hpost.frame _ hrootJ hrootJ']; exact hrootS
  · intro c hc
    rw [hch1] at hc
    rcases List.mem_append.mp hc with hcA | hcB'
    · exact hQ c (by rw [hAB]; exact List.mem_append_left _ hcA)
    · rcases List.mem_cons.mp hcB' with rfl | hcB''
      · exact hQ'
      · exact hQ c (by rw [hAB]; exact List.mem_append_right _ (List.mem_cons_of_mem _ hcB''))

theorem mds_compose_post {addr : Nat} {s s1 s' : MHSt r} {d : Nat} {m m1 m' : MTree r (d + 1)} {child child' : MTree r d}
    {x : Option DX} {h : SlabID} {As Bs : List SlabID}
    (e1 : md_ids (d + 1) m = h :: (As ++ (md_ids d child ++ Bs)))
    (e2 : md_ids (d + 1) m1 = h :: (As ++ (md_ids d child' ++ Bs)))
    (inner : mds_Post addr s s1 d child child' none) (outer : mds_Post addr s1 s' (d + 1) m1 m' x) :
    mds_Post addr s s' (d + 1) m m' x := by
  obtain ⟨f, g, fr⟩ := mds_compose (h := s.heap) (h1 := s1.heap) (h' := s'.heap) (I := md_ids (d + 1) m)
    (I1 := md_ids (d + 1) m1) (I' := md_ids (d + 1) m') (J := md_ids d child) (J' := md_ids d child')
    (fun id hid => e1 ▸ List.mem_cons_of_mem _ (List.mem_append_right _ (List.mem_append_left _ hid)))
    (fun id hid => e2 ▸ List.mem_cons_of_mem _ (List.mem_append_right _ (List.mem_append_left _ hid)))
    (fun id hid => by
      rw [e2] at hid; rw [e1]
      simp only [List.mem_cons, List.mem_append] at hid ⊢
      rcases hid with h | h | h | h
      · exact Or.inl (Or.inl h)
      · exact Or.inl (Or.inr (Or.inl h))
      · exact Or.inr h
      · exact Or.inl (Or.inr (Or.inr (Or.inr h))))
    (fun id hid => by
      rw [e1] at hid; rw [e2]
      simp only [List.mem_cons, List.mem_append] at hid ⊢
      rcases hid with h | h | h | h
      · exact Or.inl (Or.inl h)
      · exact Or.inl (Or.inr (Or.inl h))
      · exact Or.inr h
      · exact Or.inl (Or.inr (Or.inr (Or.inr h))))
    inner.fresh inner.gone inner.frame outer.fresh outer.gone outer.frame
  exact ⟨outer.nodup, outer.addrOk, outer.holds, f, g, fr, outer.ff⟩

section
variable (T : Nat) (eb : DEnvB r) (rs : DRestruct r)

theorem mds_isUnderflow_tree_some (d : Nat) (t : MTree r d) (x : Option DX) (u : Nat)
    (hs : (MTree.hdr d t).size < 2^32) (hT : minThr T < 2^32) (hu : MTree.isUnderflow T d t = some u) :
    MapSlab_IsUnderflow (envD T eb rs) (md_tree d t x) = some (u32 u, true) := by
  have hmodel : MTree.isUnderflow T d t =
      if minThr T > (MTree.hdr d t).size then some (minThr T - (MTree.hdr d t).size) else none := by
    cases d <;> rfl
  rw [hmodel] at hu
  by_cases hc : minThr T > (MTree.hdr d t).size
  · rw [if_pos hc] at hu
    have hu' : minThr T - (MTree.hdr d t).size = u := Option.some.inj hu
    have hdec : decide (u32 (minThr T) > u32 (MTree.hdr d t).size) = true := by
      rw [u32_dgt hT hs]; exact decide_eq_true hc
    have hsub : u32 (minThr T) - u32 (MTree.hdr d t).size = u32 u := by
      rw [u32_sub (Nat.le_of_lt hc) hT, hu']
    cases d with
    | zero =>
      have e : MapDataSlab_IsUnderflow (envD T eb rs) (md_data t x) = (u32 u, true) := by
        show (if false then ((0 : UInt32), false) else
          if decide (u32 (minThr T) > u32 (MTree.hdr 0 t).size) then (u32 (minThr T) - u32 (MTree.hdr 0 t).size, true)
          else ((0 : UInt32), false)) = _
        rw [hdec, hsub]; rfl
      show some ((MapDataSlab_IsUnderflow (envD T eb rs) (md_data t x)).1,
        (MapDataSlab_IsUnderflow (envD T eb rs) (md_data t x)).2) = _
      rw [e]
    | succ d =>
      have e : MapMetaDataSlab_IsUnderflow (envD T eb rs) (md_meta t x) = (u32 u, true) := by
        show (if decide (u32 (minThr T) > u32 (MTree.hdr (d + 1) t).size) then
          (u32 (minThr T) - u32 (MTree.hdr (d + 1) t).size, true) else ((0 : UInt32), false)) = _
        rw [hdec, hsub]; rfl
      show some ((MapMetaDataSlab_IsUnderflow (envD T eb rs) (md_meta t x)).1,
        (MapMetaDataSlab_IsUnderflow (envD T eb rs) (md_meta t x)).2) = _
      rw [e]
  · rw [if_neg hc] at hu; cases hu

end

/-- the model's `afterChild` with `m1` named -/
theorem mds_afterChild_eq {d : Nat} (T : Nat) (m : MMetaSlab (MTree r d)) (child' : MTree r d) (i : Nat) (c : Ctx) :
    m.afterChild T child' i c =
      if MTree.isFull T d child' then (mds_metaAfter m child' i).splitChildSlab child' i c
      else match MTree.isUnderflow T d child' with
        | some u => (mds_metaAfter m child' i).mergeOrRebalanceChildSlab T child' i u c
        | none => .ok (mds_metaAfter m child' i, c.emit (.store m.hdr.id)) := rfl

section
variable (eb : DEnvB r) (rs : DRestruct r)

/-- what the full theorem assumes ALONG THE PATH of the key (no "neither full nor underflowing" clause): digests /
    lengths / new child sizes in machine range, header list = headers of the embedded children, every child satisfies the
    provider's invariant `Q`, the data slab's elements satisfy `P`, belong to the owner address, and it is not inlined -/
def mds_PathF (cfg : MCfg) (k : MKey) (v : Elem) (P : DG r → Prop) (Q : (d : Nat) → MTree r d → Prop) :
    (d : Nat) → MTree r d → Ctx → Prop
  | 0, (sl : MDataSlab r), _ => P sl.elems ∧ sl.hdr.id.addr = cfg.addr ∧ sl.inlined = false
  | d + 1, (m : MMetaSlab (MTree r d)), c =>
    (∀ h ∈ m.childHdrs, h.firstKey < 2^64) ∧ m.childHdrs.length < 2^62 ∧
    m.childHdrs = m.children.map (MTree.hdr d) ∧ (∀ c' ∈ m.children, Q d c') ∧
    ∃ child : MTree r d, m.children[mds_idx m.childHdrs (k.dig 0)]? = some child ∧
      mds_rootFlag d child = false ∧
      mds_PathF cfg k v P Q d child c ∧
      ∀ ks old child' c1, MTree.set cfg d child k v c = .ok (ks, old, child', c1) → (MTree.hdr d child').size < 2^32

/-- the generated descent on a subtree against the model's `MTree.set`, every branch -/
def mds_setRelF (cfg : MCfg) (k : MKey) (v : Elem) (depth d : Nat) (t : MTree r d) (x : Option DX) (s : MHSt r) : Prop :=
  match MTree.set cfg d t k v s.ctx with
  | .ok (ks, old, t', c') =>
    ∃ s', MapSlab_Set (envD cfg.T eb rs) (MapMetaDataSlab_Set (envD cfg.T eb rs) depth) (md_tree d t x) s () k (u64 0)
        (u64 (k.dig 0)) (.key k) (.val v) = some (some (.key ks), old.map .val, none, md_tree d t' x, s') ∧
      s'.ctx = c' ∧ s'.popped = s.popped ∧ mds_Post cfg.addr s s' d t t' x
  | .error e =>
    ∃ root' s', MapSlab_Set (envD cfg.T eb rs) (MapMetaDataSlab_Set (envD cfg.T eb rs) depth) (md_tree d t x) s () k
        (u64 0) (u64 (k.dig 0)) (.key k) (.val v) = some (none, none, some e, root', s')

/-- one level: from the relation on the child to the relation on the index slab, all three tails -/
theorem mds_set_meta_full (cfg : MCfg) (k : MKey) (v : Elem) (Q : (d : Nat) → MTree r d → Prop)
    (hS : MSplitTail cfg.T rs Q) (hM : MMorTail cfg.T rs Q)
    (hQset : ∀ d (t t' : MTree r d) ks old c c', Q d t → MTree.set cfg d t k v c = .ok (ks, old, t', c') → Q d t')
    (hT1 : maxThr cfg.T < 2^32) (hT2 : minThr cfg.T < 2^32) (hhk : k.dig 0 < 2^64)
    (d depth : Nat) (m : MMetaSlab (MTree r d)) (x x0 : Option DX) (s : MHSt r)
    (hfk : ∀ h ∈ m.childHdrs, h.firstKey < 2^64) (hlen : m.childHdrs.length < 2^62)
    (hhdrs : m.childHdrs = m.children.map (MTree.hdr d)) (hQ : ∀ c ∈ m.children, Q d c)
    (child : MTree r d) (hci : m.children[mds_idx m.childHdrs (k.dig 0)]? = some child)
    (hh : MHolds s.heap (d + 1) m x0) (hnd : (md_ids (d + 1) m).Nodup)
    (haddr : ∀ id ∈ md_ids (d + 1) m, id.addr = cfg.addr)
    (hsz : ∀ ks old child' c1, MTree.set cfg d child k v s.ctx = .ok (ks, old, child', c1) →
      (MTree.hdr d child').size < 2^32)
    (ihc : mds_setRelF eb rs cfg k v depth d child none s) :
    mds_setRelF eb rs cfg k v (depth + 1) (d + 1) m x s := by
  have hheap : s.heap (MTree.hdr d child).id = some (md_tree d child none) :=
    (hh.2 child (List.mem_of_getElem? hci)).root
  have hhi : m.childHdrs[mds_idx m.childHdrs (k.dig 0)]? = some (MTree.hdr d child) := by
    have : (m.children.map (MTree.hdr d))[mds_idx m.childHdrs (k.dig 0)]? = some (MTree.hdr d child) := by
      rw [List.getElem?_map, hci]; rfl
    rw [← hhdrs] at this; exact this
  unfold mds_setRelF at ihc ⊢
  rw [mds_model_set_succ cfg d m k v s.ctx child hci]
  have hil : mds_idx m.childHdrs (k.dig 0) < m.childHdrs.length := (List.getElem?_eq_some_iff.mp hhi).1
  have hgetD : m.childHdrs.getD (mds_idx m.childHdrs (k.dig 0)) default = MTree.hdr d child := by
    simp [List.getD, hhi]
  have hheap' : s.heap (m.childHdrs.getD (mds_idx m.childHdrs (k.dig 0)) default).id = some (md_tree d child none) := by
    rw [hgetD]; exact hheap
  rcases hq : MTree.set cfg d child k v s.ctx with e | ⟨ks, old, child', c1⟩
  · rw [hq] at ihc
    obtain ⟨root', s1, h1⟩ := ihc
    refine ⟨.metaSlab (md_meta m x), s1, ?_⟩
    show MapSlab_Set _ _ (.metaSlab (md_meta m x)) _ _ _ _ _ _ _ = _
    simp only [MapSlab_Set]
    rw [Ob_MapMetaDataSlab_Set_step_childErr cfg.T eb rs m x s s1 k v depth hhk hfk hlen hil (md_tree d child none)
      root' none none e hheap' h1]
  · rw [hq] at ihc
    obtain ⟨s1, h1, h2, h3, hpost⟩ := ihc
    subst h2
    have hsz' := hsz ks old child' s1.ctx hq
    obtain ⟨hpre, hk1, As, Bs, e1, e2⟩ := mds_Pre_after_child (Q := Q) m x0 child child' _ hci hh hnd haddr hhdrs hQ
      (hQset d child child' ks old _ _ (hQ child (List.mem_of_getElem? hci)) hq) hpost
    have hgen : MapSlab_Set (envD cfg.T eb rs) (MapMetaDataSlab_Set (envD cfg.T eb rs) (depth + 1))
        (md_tree (d + 1) m x) s () k (u64 0) (u64 (k.dig 0)) (.key k) (.val v) =
        (mds_stepSpec cfg.T eb rs (md_meta m x) (mds_idx m.childHdrs (k.dig 0)) (some (.key ks)) (old.map .val)
          (md_tree d child' none) s1).map
          (fun r_ => (r_.1, r_.2.1, r_.2.2.1, MapSlab.metaSlab r_.2.2.2.1, r_.2.2.2.2)) := by
      show MapSlab_Set _ _ (.metaSlab (md_meta m x)) _ _ _ _ _ _ _ = _
      simp only [MapSlab_Set]
      rw [Ob_MapMetaDataSlab_Set_step cfg.T eb rs m x s s1 k v depth hhk hfk hlen hil (md_tree d child none)
        (md_tree d child' none) _ _ hheap' h1]
      generalize mds_stepSpec _ _ _ _ _ _ _ _ _ = q
      cases q <;> rfl
    simp only [mds_afterChild_eq]
    have hm1 : mds_refresh (md_meta m x) (mds_idx m.childHdrs (k.dig 0)) (md_hdr (MTree.hdr d child')) =
        md_meta (mds_metaAfter m child' (mds_idx m.childHdrs (k.dig 0))) x :=
      mds_refresh_md_meta m x _ (MTree.hdr d child') (m.children.set (mds_idx m.childHdrs (k.dig 0)) child')
    cases hf : MTree.isFull cfg.T d child' with
    | true =>
      have ht := hS cfg.addr d _ x child' _ s1 hpre hk1 hf
      have hss : mds_stepSpec cfg.T eb rs (md_meta m x) (mds_idx m.childHdrs (k.dig 0)) (some (.key ks))
          (old.map .val) (md_tree d child' none) s1 =
          mds_tail (some (.key ks)) (old.map .val)
            (rs.splitChild (md_meta (mds_metaAfter m child' (mds_idx m.childHdrs (k.dig 0))) x) s1
              (md_tree d child' none) (Int.ofNat (mds_idx m.childHdrs (k.dig 0)))) := by
        simp only [mds_stepSpec, mds_hdr_tree, mds_isFull_tree cfg.T eb rs d child' none hsz' hT1, hf,
          Option.getD_some, if_true, hm1]
      simp only [if_true]
      rcases hsp : MMetaSlab.splitChildSlab (mds_metaAfter m child' (mds_idx m.childHdrs (k.dig 0))) child'
        (mds_idx m.childHdrs (k.dig 0)) s1.ctx with e | ⟨m', c'⟩
      · rw [hsp] at ht
        obtain ⟨a, s', w, hr⟩ := ht
        refine ⟨.metaSlab a, s', ?_⟩
        rw [hgen, hss, hr]; rfl
      · rw [hsp] at ht
        obtain ⟨s', w, hr, hc, hpp, hpo⟩ := ht
        refine ⟨s', ?_, hc, by rw [hpp, h3], mds_compose_post e1 e2 hpost hpo⟩
        rw [hgen, hss, hr]; rfl
    | false =>
      simp only [Bool.false_eq_true, if_false]
      cases hu : MTree.isUnderflow cfg.T d child' with
      | some u =>
        have ht := hM cfg.addr d _ x child' _ u s1 hpre hk1 hf hu
        have hss : mds_stepSpec cfg.T eb rs (md_meta m x) (mds_idx m.childHdrs (k.dig 0)) (some (.key ks))
            (old.map .val) (md_tree d child' none) s1 =
            mds_tail (some (.key ks)) (old.map .val)
              (rs.mergeOrRebalance (md_meta (mds_metaAfter m child' (mds_idx m.childHdrs (k.dig 0))) x) s1
                (md_tree d child' none) (Int.ofNat (mds_idx m.childHdrs (k.dig 0))) (u32 u)) := by
          simp only [mds_stepSpec, mds_hdr_tree, mds_isFull_tree cfg.T eb rs d child' none hsz' hT1, hf,
            mds_isUnderflow_tree_some cfg.T eb rs d child' none u hsz' hT2 hu, Option.getD_some,
            Bool.false_eq_true, if_false, if_true, hm1]
        simp only []
        rcases hsp : MMetaSlab.mergeOrRebalanceChildSlab cfg.T (mds_metaAfter m child' (mds_idx m.childHdrs (k.dig 0)))
          child' (mds_idx m.childHdrs (k.dig 0)) u s1.ctx with e | ⟨m', c'⟩
        · rw [hsp] at ht
          obtain ⟨a, s', w, hr⟩ := ht
          refine ⟨.metaSlab a, s', ?_⟩
          rw [hgen, hss, hr]; rfl
        · rw [hsp] at ht
          obtain ⟨s', w, hr, hc, hpp, hpo⟩ := ht
          refine ⟨s', ?_, hc, by rw [hpp, h3], mds_compose_post e1 e2 hpost hpo⟩
          rw [hgen, hss, hr]; rfl
      | none =>
        have hss : mds_stepSpec cfg.T eb rs (md_meta m x) (mds_idx m.childHdrs (k.dig 0)) (some (.key ks))
            (old.map .val) (md_tree d child' none) s1 =
            some (some (.key ks), old.map .val, none, md_meta (mds_metaAfter m child' (mds_idx m.childHdrs (k.dig 0))) x,
              s1.store m.hdr.id (.metaSlab (md_meta (mds_metaAfter m child' (mds_idx m.childHdrs (k.dig 0))) x))) := by
          simp only [mds_stepSpec, mds_hdr_tree, mds_isFull_tree cfg.T eb rs d child' none hsz' hT1, hf,
            mds_isUnderflow_tree cfg.T eb rs d child' none hsz' hT2 hu, Option.getD_some,
            Bool.false_eq_true, if_false, hm1]
          rfl
        simp only []
        refine ⟨s1.store m.hdr.id (.metaSlab (md_meta (mds_metaAfter m child' (mds_idx m.childHdrs (k.dig 0))) x)),
          ?_, rfl, h3, mds_compose_post e1 e2 hpost (mds_Post_store x hpre)⟩
        rw [hgen, hss]; rfl

/-- THE WHOLE `MTree.set` OVER THE HEAP, given the tails: for a tree `t` held by the heap (identifiers pairwise distinct,
    the owner's, fresh identifiers free), under the tail hypotheses on `rs.splitChild` / `rs.mergeOrRebalance` and the
    path conditions `mds_PathF`, the generated `MapSlab.Set` dispatch returns the translation of the model's
    `MTree.set cfg d t k v s.ctx` on EVERY branch of `afterChild`: stored key, old value, no error, `md_tree d t' x`, a
    storage with the model's `Ctx` whose heap holds `t'`, with the frame relative to `md_ids d t ∪ md_ids d t'`
    (`mds_Post`, which gives `MHeapPost`); a model error comes back as that error value.
    `hQset`: the provider's invariant `Q` is preserved by the model's `set`; `hmono`: the model's `MDataSlab.set` does
    not lower the allocation counter. -/
theorem Ob_MapSlab_Set_heap_of_tails (cfg : MCfg) (k : MKey) (v : Elem) (P : DG r → Prop)
    (Q : (d : Nat) → MTree r d → Prop) (hE : ElemsSpec cfg k v P eb)
    (hS : MSplitTail cfg.T rs Q) (hM : MMorTail cfg.T rs Q)
    (hQset : ∀ d (t t' : MTree r d) ks old c c', Q d t → MTree.set cfg d t k v c = .ok (ks, old, t', c') → Q d t')
    (hmono : ∀ (sl : MDataSlab r) c ks old sl' c', MDataSlab.set cfg sl k v c = .ok (ks, old, sl', c') → c.ctr ≤ c'.ctr)
    (hT1 : maxThr cfg.T < 2^32) (hT2 : minThr cfg.T < 2^32) (hhk : k.dig 0 < 2^64) :
    ∀ (d depth : Nat) (t : MTree r d) (x x0 : Option DX) (s : MHSt r), d ≤ depth → MHolds s.heap d t x0 →
      x.isSome = mds_rootFlag d t → (md_ids d t).Nodup → (∀ id ∈ md_ids d t, id.addr = cfg.addr) →
      mds_FreshFree cfg.addr s → mds_PathF cfg k v P Q d t s.ctx →
      match MTree.set cfg d t k v s.ctx with
      | .ok (ks, old, t', c') =>
        ∃ s', MapSlab_Set (envD cfg.T eb rs) (MapMetaDataSlab_Set (envD cfg.T eb rs) depth) (md_tree d t x) s () k
            (u64 0) (u64 (k.dig 0)) (.key k) (.val v) =
              some (some (.key ks), old.map .val, none, md_tree d t' x, s') ∧
          s'.ctx = c' ∧ s'.popped = s.popped ∧ mds_Post cfg.addr s s' d t t' x
      | .error e =>
        ∃ root' s', MapSlab_Set (envD cfg.T eb rs) (MapMetaDataSlab_Set (envD cfg.T eb rs) depth) (md_tree d t x) s () k
            (u64 0) (u64 (k.dig 0)) (.key k) (.val v) = some (none, none, some e, root', s') := by
  intro d
  induction d with
  | zero =>
    intro depth t x x0 s _ hh hx hnd haddr ffs hp
    have h := mds_set_data eb rs cfg k v P hE t x hx hp.1 s hp.2.1 hp.2.2 depth
    unfold mds_setRel at h
    rcases hq : MTree.set cfg 0 t k v s.ctx with e | ⟨ks, old, t', c'⟩
    · rw [hq] at h
      exact ⟨_, _, h⟩
    · rw [hq] at h
      obtain ⟨s', h1, h2, h3, hrel⟩ := h
      exact ⟨s', h1, h2, h3, mds_Post_of_HeapRel hrel hnd haddr hh ffs (by rw [h2]; exact hmono t s.ctx ks old t' c' hq)⟩
  | succ d ih =>
    intro depth t x x0 s hd hh _ hnd haddr ffs hp
    obtain ⟨hfk, hlen, hhdrs, hQ, child, hci, hroot, hpc, hsz⟩ := hp
    cases depth with
    | zero => omega
    | succ depth' =>
      have hmem : child ∈ MMetaSlab.children t := List.mem_of_getElem? hci
      have hhc : MHolds s.heap d child none := hh.2 child hmem
      have hsub : ∀ id ∈ md_ids d child, id ∈ md_ids (d + 1) t :=
        fun id hid => List.mem_cons_of_mem _ (List.mem_flatMap.mpr ⟨child, hmem, hid⟩)
      have hndc : (md_ids d child).Nodup := by
        obtain ⟨A, B, hAB, _⟩ := mds_split_at (MMetaSlab.children t) _ child hci
        have hids : md_ids (d + 1) t =
            (MMetaSlab.hdr t).id :: (A.flatMap (md_ids d) ++ (md_ids d child ++ B.flatMap (md_ids d))) := by
          show (MMetaSlab.hdr t).id :: (MMetaSlab.children t).flatMap (md_ids d) = _
          rw [hAB]; simp
        rw [hids] at hnd
        exact (List.nodup_append.mp (List.nodup_append.mp (List.nodup_cons.mp hnd).2).2.1).1
      exact mds_set_meta_full eb rs cfg k v Q hS hM hQset hT1 hT2 hhk d depth' t x x0 s hfk hlen hhdrs hQ child hci hh
        hnd haddr hsz
        (ih depth' child none none s (by omega) hhc (by rw [hroot]; rfl) hndc (fun id hid => haddr id (hsub id hid)) ffs hpc)

end

end

end Atree.TransEq
