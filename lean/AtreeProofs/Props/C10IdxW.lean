import AtreeProofs.Props.C10
import AtreeProofs.Props.C10Idx
import AtreeProofs.Props.C10WPop
import AtreeProofs.World.IdxNodup
/-
  C10 / C01 — the fatal branches of `incrementIndexFrom` / `decrementIndexFrom` (array.go:732,748)
  are unreachable: the `Nodup` hypothesis of `C10Idx.recorded_index_in_range`,
  `C10Idx.increment_never_fails` and `C10.index_shift_order_independent` DISCHARGED (audit a5, S6).
  PROPERTY THEOREMS.

  Go's `mutableElementIndex` is a Go map (`map[ValueID]uint64`): a value ID occurs in it at most
  once, and `incrementIndexFrom` / `decrementIndexFrom` range over ALL its entries.  The World model
  keeps the table of each array as an association list (`World.mutIdx`), read with `AList.find?`,
  which sees only the FIRST entry of a key.  `MutIdxOk` (a clause of `WorldOk` / `WorldOk'`) speaks
  through `find?`, so by itself it says nothing about a shadowed second entry of a key, while
  `C10Idx.incrementFails` ranges over all entries as Go does: the older theorems therefore carried
  the hypothesis `(AList.keys (w.idxOf p)).Nodup`, which no theorem discharged.

  `World.IdxNodup w` ("no table of `w.mutIdx` lists a key twice") is the statement that the
  association lists ARE Go maps.  It holds in the empty world and is preserved by EVERY operation
  of the World model UNCONDITIONALLY — from any world, for any arguments, without `WorldOk`
  (`idxNodup_new`, `idxNodup_<op>` below; proofs in `AtreeProofs/World/IdxNodup.lean`): the
  operations write a table only through `AList.insert` (= cons ∘ erase: `setCallbackWithChild`),
  `AList.erase` (`Array.Set` / `Array.Remove` dropping the entry of the child handed back), a map
  over the values (`shiftIdx`), the empty table (`PopIterate`), or drop whole tables (`forget`,
  `reopen`).  Hence every world built by the operations satisfies `IdxNodup`, and in every such
  world that satisfies the global invariant `WorldOk'` (itself preserved by every operation:
  `C10W.worldOk'_<op>`, `C10W.worldOk_arrPop`, …)

    * every recorded index is a valid position of its array (`recorded_index_in_range'`),
    * the condition under which `incrementIndexFrom` returns its fatal error "new index exceeds
      array count" is false (`increment_never_fails'`; array.go:732),
    * the condition under which `decrementIndexFrom` returns its fatal error is false in every
      world whatsoever (`C10Idx.decrement_never_fails`; array.go:748),

  which is why the model's `shiftIdx` is total and has no such branches.  The result of the shift
  does not depend on the order in which Go ranges over its map (`index_shift_order_independent'`).
  No operation was found that breaks `IdxNodup`.
-/
namespace Atree.C10Idx
open Atree Gen World

/-! ### 1. `IdxNodup` is an unconditional invariant of every operation -/

/-- the empty world -/
theorem idxNodup_new (T addr : Nat) : IdxNodup { T := T, addr := addr } := idxNodup_empty T addr

/-- `NewArray` -/
theorem idxNodup_newArr (w : World) (ty : Nat) (cx : Ctx) (h : IdxNodup w) : IdxNodup (w.newArr ty cx).2.1 :=
  h.newArr ty cx

/-- `NewMap` -/
theorem idxNodup_newMap (w : World) (ty seed : Nat) (cx : Ctx) (h : IdxNodup w) :
    IdxNodup (w.newMap ty seed cx).2.1 :=
  h.newMap ty seed cx

/-- `Array.Insert` -/
theorem idxNodup_arrInsert (w : World) (p : SlabID) (i : Nat) (v : WVal) (cx : Ctx) (w' : World) (cx' : Ctx)
    (h : IdxNodup w) (run : w.arrInsert p i v cx = .ok (w', cx')) : IdxNodup w' :=
  h.arrInsert run

/-- `Array.Set` -/
theorem idxNodup_arrSet (w : World) (p : SlabID) (i : Nat) (v : WVal) (cx : Ctx) (old : Elem) (w' : World)
    (cx' : Ctx) (h : IdxNodup w) (run : w.arrSet p i v cx = .ok (old, w', cx')) : IdxNodup w' :=
  h.arrSet run

/-- `Array.Remove` -/
theorem idxNodup_arrRemove (w : World) (p : SlabID) (i : Nat) (cx : Ctx) (old : Elem) (w' : World) (cx' : Ctx)
    (h : IdxNodup w) (run : w.arrRemove p i cx = .ok (old, w', cx')) : IdxNodup w' :=
  h.arrRemove run

/-- `OrderedMap.Set` -/
theorem idxNodup_mapSet (w : World) (p : SlabID) (k : MKey) (v : WVal) (cx : Ctx) (old : Option Elem)
    (w' : World) (cx' : Ctx) (h : IdxNodup w) (run : w.mapSet p k v cx = .ok (old, w', cx')) : IdxNodup w' :=
  h.mapSet run

/-- `OrderedMap.Remove` -/
theorem idxNodup_mapRemove (w : World) (p : SlabID) (k : MKey) (cx : Ctx) (rk : MKey) (rv : Elem)
    (w' : World) (cx' : Ctx) (h : IdxNodup w) (run : w.mapRemove p k cx = .ok (rk, rv, w', cx')) : IdxNodup w' :=
  h.mapRemove run

/-- `Array.Get` / the mutable array iterator -/
theorem idxNodup_arrGet (w : World) (p : SlabID) (i : Nat) (el : Elem) (w' : World)
    (h : IdxNodup w) (run : w.arrGet p i = .ok (el, w')) : IdxNodup w' :=
  h.arrGet run

/-- `OrderedMap.Get` / the mutable map iterator -/
theorem idxNodup_mapGet (w : World) (p : SlabID) (k : MKey) (el : Elem) (w' : World)
    (h : IdxNodup w) (run : w.mapGet p k = .ok (el, w')) : IdxNodup w' :=
  h.mapGet run

/-- reopening on a fresh storage (no hypothesis at all: every table is gone) -/
theorem idxNodup_reopen (w : World) : IdxNodup w.reopen := World.idxNodup_reopen w

/-- `SetType` -/
theorem idxNodup_setType (w : World) (x : SlabID) (ty : Nat) (cx : Ctx) (w' : World) (cx' : Ctx)
    (h : IdxNodup w) (run : w.setType x ty cx = .ok (w', cx')) : IdxNodup w' :=
  h.setType run

/-- `Array.PopIterate` -/
theorem idxNodup_arrPop (w : World) (x : SlabID) (cx : Ctx) (es : List Elem) (w' : World) (cx' : Ctx)
    (h : IdxNodup w) (run : w.arrPop x cx = .ok (es, w', cx')) : IdxNodup w' :=
  h.arrPop run

/-- `OrderedMap.PopIterate` -/
theorem idxNodup_mapPop (w : World) (x : SlabID) (cx : Ctx) (kvs : List (MKey × Elem)) (w' : World) (cx' : Ctx)
    (h : IdxNodup w) (run : w.mapPop x cx = .ok (kvs, w', cx')) : IdxNodup w' :=
  h.mapPop run

/-- `Array.PopIterate`, the caller keeping some popped containers -/
theorem idxNodup_arrPopKeep (w : World) (x : SlabID) (keep : List SlabID) (cx : Ctx) (es : List Elem)
    (w' : World) (cx' : Ctx) (h : IdxNodup w) (run : w.arrPopKeep x keep cx = .ok (es, w', cx')) : IdxNodup w' :=
  h.arrPopKeep run

/-- `OrderedMap.PopIterate`, the caller keeping some popped containers -/
theorem idxNodup_mapPopKeep (w : World) (x : SlabID) (keep : List SlabID) (cx : Ctx) (kvs : List (MKey × Elem))
    (w' : World) (cx' : Ctx) (h : IdxNodup w) (run : w.mapPopKeep x keep cx = .ok (kvs, w', cx')) : IdxNodup w' :=
  h.mapPopKeep run

/-- disposal of a container and everything nested in it (any fuel) -/
theorem idxNodup_forget (fuel : Nat) (w : World) (vid : SlabID) (h : IdxNodup w) :
    IdxNodup (World.forget fuel w vid) :=
  h.forget fuel vid

/-- disposal of the containers among popped elements -/
theorem idxNodup_forgetElems (w : World) (es : List Elem) (h : IdxNodup w) : IdxNodup (w.forgetElems es) :=
  h.forgetElems es

/-- `notifyParentIfNeeded` (any fuel) -/
theorem idxNodup_notifyParent (fuel : Nat) (w : World) (x : SlabID) (cx : Ctx) (w' : World) (cx' : Ctx)
    (h : IdxNodup w) (run : notifyParent fuel w x cx = .ok (w', cx')) : IdxNodup w' :=
  h.notifyParent run

/-- the private `Array.set` (any fuel) -/
theorem idxNodup_arrSetRaw (fuel : Nat) (w : World) (p : SlabID) (i : Nat) (v : WVal) (cx : Ctx) (old : Elem)
    (w' : World) (cx' : Ctx) (h : IdxNodup w) (run : arrSetRaw fuel w p i v cx = .ok (old, w', cx')) :
    IdxNodup w' :=
  h.arrSetRaw run

/-- the private `OrderedMap.set` (any fuel) -/
theorem idxNodup_mapSetRaw (fuel : Nat) (w : World) (p : SlabID) (k : MKey) (v : WVal) (cx : Ctx)
    (old : Option Elem) (w' : World) (cx' : Ctx) (h : IdxNodup w)
    (run : mapSetRaw fuel w p k v cx = .ok (old, w', cx')) : IdxNodup w' :=
  h.mapSetRaw run

/-! ### 2. the `Nodup` hypotheses discharged -/

/-- the array behind a live array handle satisfies `count = length of the element list` -/
theorem count_eq_of_worldOk' {D : SlabID → DigestFn 4} {w : World} {ctr : Nat} (H : WorldOk' D w ctr)
    {p : SlabID} {a : Arr} (hp : w.cont? p = some (.arr a)) : a.count = a.toList.length :=
  ArrOk.count_eq (T := w.T) (ctr := ctr) (C10W.worldOk'_contOk H p (.arr a) hp).1

/-- Every entry of `mutableElementIndex` — every entry, not only those `find?` sees — records a
    valid position of the parent array. -/
theorem recorded_index_in_range' (D : SlabID → DigestFn 4) (w : World) (ctr : Nat) (H : WorldOk' D w ctr)
    (hnd : IdxNodup w) (p : SlabID) (a : Arr) (hp : w.cont? p = some (.arr a))
    (x : SlabID) (j : Nat) (hmem : (x, j) ∈ w.idxOf p) : j < a.toList.length :=
  recorded_index_in_range w (C10W.worldOk'_mutIdxOk H) p a hp (hnd p) x j hmem

/-- … and it records the position of the element that refers to `x` -/
theorem recorded_index_points_at_child (D : SlabID → DigestFn 4) (w : World) (ctr : Nat) (H : WorldOk' D w ctr)
    (hnd : IdxNodup w) (p : SlabID) (a : Arr) (hp : w.cont? p = some (.arr a))
    (x : SlabID) (j : Nat) (hmem : (x, j) ∈ w.idxOf p) : ∃ e, a.toList[j]? = some e ∧ e.pay = .ref x :=
  C10W.worldOk'_mutIdxOk H p a hp x j ((AList.mem_iff_find? _ (hnd p) x j).mp hmem)

/-- `incrementIndexFrom` cannot take its fatal branch (array.go:732) in `Array.Insert`: in a world
    that satisfies the global invariant and `IdxNodup`, every shifted index stays below the new
    element count.  No other hypothesis. -/
theorem increment_never_fails' (D : SlabID → DigestFn 4) (w : World) (ctr : Nat) (H : WorldOk' D w ctr)
    (hnd : IdxNodup w) (p : SlabID) (a : Arr) (hp : w.cont? p = some (.arr a)) (i : Nat) :
    incrementFails w p i (a.count + 1) = false :=
  increment_never_fails w (C10W.worldOk'_mutIdxOk H) p a hp (hnd p) (count_eq_of_worldOk' H hp) i

/-- the failure conditions read `mutIdx` only: `Array.Insert` evaluates `incrementIndexFrom` after
    `Storable()` (which may inline / un-inline the inserted child) and after the element has been
    inserted; neither touches an index table -/
theorem incrementFails_congr {w w' : World} (hm : w'.mutIdx = w.mutIdx) (p : SlabID) (i n : Nat) :
    incrementFails w' p i n = incrementFails w p i n := by
  unfold incrementFails idxOf; rw [hm]

/-- `incrementIndexFrom` / `decrementIndexFrom` range over a Go map in random order: the result
    does not depend on the order (C04).  `C10.index_shift_order_independent` with its `Nodup`
    hypothesis replaced by the invariant `IdxNodup` (`WorldOk'` is not needed for this one). -/
theorem index_shift_order_independent' (w : World) (hnd : IdxNodup w) (p : SlabID) (f : Nat → Nat)
    (perm : AList SlabID Nat) (hperm : perm.Perm (w.idxOf p)) (x : SlabID) :
    AList.find? (perm.map (fun e => (e.1, f e.2))) x = AList.find? ((w.shiftIdx p f).idxOf p) x :=
  C10.index_shift_order_independent w p f perm hperm x (hnd p)

/-! ### 3. non-vacuity: a world built by the operations, with a non-empty index table -/

open Atree.OkScenario in
/-- `IdxNodup` of the three-level scenario world, obtained by chaining the preservation theorems
    along the run that built it (4 `New…`, 9 `Array.Insert`, 1 `OrderedMap.Set`) -/
theorem scenario_idxNodup : IdxNodup t14.1 := by
  have h0 : IdxNodup Scenario.w0 := idxNodup_new 256 1
  have h1 : IdxNodup t1.2.1 := idxNodup_newArr _ 7 _ h0
  have h2 : IdxNodup t2.2.1 := idxNodup_newMap _ 8 5 _ h1
  have h3 : IdxNodup t3.2.1 := idxNodup_newArr _ 9 _ h2
  have h4 : IdxNodup t4.2.1 := idxNodup_newArr _ 10 _ h3
  have h5 := idxNodup_arrInsert _ _ _ _ _ _ _ h4 run5
  have h6 := idxNodup_mapSet _ _ _ _ _ _ _ _ h5 run6
  have h7 := idxNodup_arrInsert _ _ _ _ _ _ _ h6 run7
  have h8 := idxNodup_arrInsert _ _ _ _ _ _ _ h7 run8
  have h9 := idxNodup_arrInsert _ _ _ _ _ _ _ h8 run9
  have h10 := idxNodup_arrInsert _ _ _ _ _ _ _ h9 run10
  have h11 := idxNodup_arrInsert _ _ _ _ _ _ _ h10 run11
  have h12 := idxNodup_arrInsert _ _ _ _ _ _ _ h11 run12
  have h13 := idxNodup_arrInsert _ _ _ _ _ _ _ h12 run13
  exact idxNodup_arrInsert _ _ _ _ _ _ _ h13 run14

open Atree.OkScenario in
/-- the index table of the root array `R` of the scenario world: two children, in slots 1 and 0 -/
theorem scenario_idx : t14.1.idxOf R = [(B, 1), (M, 0)] := by decide

open Atree.OkScenario in
/-- The hypotheses of `recorded_index_in_range'` / `increment_never_fails'` are met by a world with
    a NON-EMPTY index table: the scenario world satisfies `WorldOk'` and `IdxNodup`, `R` is an array
    with two tracked children, and the conclusions hold there. -/
theorem scenario_increment_never_fails :
    WorldOk' D t14.1 t14.2.ctr ∧ IdxNodup t14.1 ∧ t14.1.idxOf R = [(B, 1), (M, 0)] ∧
    ∃ a, t14.1.cont? R = some (.arr a) ∧ a.toList.length = 2 ∧
      (∀ x j, (x, j) ∈ t14.1.idxOf R → j < a.toList.length) ∧
      ∀ i, incrementFails t14.1 R i (a.count + 1) = false := by
  have H : WorldOk' D t14.1 t14.2.ctr := C10W.worldOk'_of_worldOk C10W.scenario_worldOk.1
  have hk : (t14.1.cont? R).map (fun c => (c.isArr, c.pays.length)) = some (true, 2) := by decide
  refine ⟨H, scenario_idxNodup, scenario_idx, ?_⟩
  cases hc : t14.1.cont? R with
  | none => rw [hc] at hk; cases hk
  | some c =>
    rw [hc] at hk
    cases c with
    | map m => simp [Cont.isArr] at hk
    | arr a =>
      have hlen : a.toList.length = 2 := by
        simpa [Cont.isArr, Cont.pays, Cont.storedElems] using hk
      exact ⟨a, rfl, hlen,
        fun x j hm => recorded_index_in_range' D _ _ H scenario_idxNodup R a hc x j hm,
        fun i => increment_never_fails' D _ _ H scenario_idxNodup R a hc i⟩

/-- `IdxNodup` is not vacuous either: a table listing a key twice violates it (and this is the
    kind of table for which `MutIdxOk` alone would not bound the shadowed entry). -/
example : ¬ IdxNodup { T := 256, addr := 1, mutIdx := [(⟨1, 1⟩, [(⟨1, 2⟩, 0), (⟨1, 2⟩, 7)])] } := by
  intro h
  have := h ⟨1, 1⟩
  revert this
  decide

end Atree.C10Idx
