import AtreeProofs.Props.TransMapDescentInvR
/-
  MAP DESCENT, round 3 (WP13): THE FINAL ASSEMBLY FOR `Set`.
  Part A/B: `Ob_MapSlab_Set_heap_of_tails'`, `Ob_OrderedMap_set_heap_of_tails'` - the `_of_tails` theorems of
  TransMapDescentSetFull / TopSetFull with the provider invariant split in two: `Qin` (TIGHT: what the children of the path
  nodes satisfy before the operation) and `Q` (LOOSE: what the tails may assume), closure only `Qin t → set t = ok t' → Q t'`;
  root level over a handle predicate `QR` (`MRootTailR`).
  Part C: the model-side hypotheses from `MapInv`; Part D: `Ob_OrderedMap_Set_heap_full_of_three`.
-/
namespace Atree.TransEq
open Atree Atree.Gen.TransMapD

section
variable {r : Nat}

section
variable (eb : DEnvB r) (rs : DRestruct r)

/-- what the full theorem assumes ALONG THE PATH of the key (no "neither full nor underflowing" clause): digests /
    lengths / new child sizes in machine range, header list = headers of the embedded children, every child satisfies the
    provider's invariant `Q`, the data slab's elements satisfy `P`, belong to the owner address, and it is not inlined -/
def mds_PathG (cfg : MCfg) (k : MKey) (v : Elem) (P : DG r → Prop) (Qin : (d : Nat) → MTree r d → Prop) :
    (d : Nat) → MTree r d → Ctx → Prop
  | 0, (sl : MDataSlab r), _ => P sl.elems ∧ sl.hdr.id.addr = cfg.addr ∧ sl.inlined = false
  | d + 1, (m : MMetaSlab (MTree r d)), c =>
    (∀ h ∈ m.childHdrs, h.firstKey < 2^64) ∧ m.childHdrs.length < 2^62 ∧
    m.childHdrs = m.children.map (MTree.hdr d) ∧ (∀ c' ∈ m.children, Qin d c') ∧
    ∃ child : MTree r d, m.children[mds_idx m.childHdrs (k.dig 0)]? = some child ∧
      mds_rootFlag d child = false ∧
      mds_PathG cfg k v P Qin d child c ∧
      ∀ ks old child' c1, MTree.set cfg d child k v c = .ok (ks, old, child', c1) → (MTree.hdr d child').size < 2^32

/-- one level: from the relation on the child to the relation on the index slab, all three tails -/
theorem mds_set_meta_full' (cfg : MCfg) (k : MKey) (v : Elem) (Q Qin : (d : Nat) → MTree r d → Prop)
    (hS : MSplitTail cfg.T rs Q) (hM : MMorTail cfg.T rs Q)
    (hQin : ∀ d (t : MTree r d), Qin d t → Q d t)
    (hQset : ∀ d (t t' : MTree r d) ks old c c', Qin d t → MTree.set cfg d t k v c = .ok (ks, old, t', c') → Q d t')
    (hT1 : maxThr cfg.T < 2^32) (hT2 : minThr cfg.T < 2^32) (hhk : k.dig 0 < 2^64)
    (d depth : Nat) (m : MMetaSlab (MTree r d)) (x x0 : Option DX) (s : MHSt r)
    (hfk : ∀ h ∈ m.childHdrs, h.firstKey < 2^64) (hlen : m.childHdrs.length < 2^62)
    (hhdrs : m.childHdrs = m.children.map (MTree.hdr d)) (hQ : ∀ c ∈ m.children, Qin d c)
    (child : MTree r d) (hci : m.children[mds_idx m.childHdrs (k.dig 0)]? = some child)
    (hh : MHolds s.heap (d + 1) m x0) (hnd : (md_ids (d + 1) m).Nodup)
    (haddr : ∀ id ∈ md_ids (d + 1) m, id.addr = cfg.addr)
    (hsz : ∀ ks old child' c1, MTree.set cfg d child k v s.ctx = .ok (ks, old, child', c1) →
      (MTree.hdr d child').size < 2^32)
    (ihc : mds_setRelF eb rs cfg k v depth d child none s) :
    mds_setRelF eb rs cfg k v (depth + 1) (d + 1) m x s := by
  have hheap : s.heap (MTree.hdr d child).id = some (md_tree d child none) :=
    (hh.2 child (List.mem_of_getElem? hci)).root
  have hhi : m.childHdrs[mds_idx m.childHdrs (k.dig 0)]? = some (MTree.hdr d child) := by
    have : (m.children.map (MTree.hdr d))[mds_idx m.childHdrs (k.dig 0)]? = some (MTree.hdr d child) := by
      rw [List.getElem?_map, hci]; rfl
    rw [← hhdrs] at this; exact this
  unfold mds_setRelF at ihc ⊢
  rw [mds_model_set_succ cfg d m k v s.ctx child hci]
  have hil : mds_idx m.childHdrs (k.dig 0) < m.childHdrs.length := (List.getElem?_eq_some_iff.mp hhi).1
  have hgetD : m.childHdrs.getD (mds_idx m.childHdrs (k.dig 0)) default = MTree.hdr d child := by
    simp [List.getD, hhi]
  have hheap' : s.heap (m.childHdrs.getD (mds_idx m.childHdrs (k.dig 0)) default).id = some (md_tree d child none) := by
    rw [hgetD]; exact hheap
  rcases hq : MTree.set cfg d child k v s.ctx with e | ⟨ks, old, child', c1⟩
  · rw [hq] at ihc
    obtain ⟨root', s1, h1⟩ := ihc
    refine ⟨.metaSlab (md_meta m x), s1, ?_⟩
    show MapSlab_Set _ _ (.metaSlab (md_meta m x)) _ _ _ _ _ _ _ = _
    simp only [MapSlab_Set]
    rw [Ob_MapMetaDataSlab_Set_step_childErr cfg.T eb rs m x s s1 k v depth hhk hfk hlen hil (md_tree d child none)
      root' none none e hheap' h1]
  · rw [hq] at ihc
    obtain ⟨s1, h1, h2, h3, hpost⟩ := ihc
    subst h2
    have hsz' := hsz ks old child' s1.ctx hq
    obtain ⟨hpre, hk1, As, Bs, e1, e2⟩ := mds_Pre_after_child (Q := Q) m x0 child child' _ hci hh hnd haddr hhdrs (fun c hc => hQin d c (hQ c hc))
      (hQset d child child' ks old _ _ (hQ child (List.mem_of_getElem? hci)) hq) hpost
    have hgen : MapSlab_Set (envD cfg.T eb rs) (MapMetaDataSlab_Set (envD cfg.T eb rs) (depth + 1))
        (md_tree (d + 1) m x) s () k (u64 0) (u64 (k.dig 0)) (.key k) (.val v) =
        (mds_stepSpec cfg.T eb rs (md_meta m x) (mds_idx m.childHdrs (k.dig 0)) (some (.key ks)) (old.map .val)
          (md_tree d child' none) s1).map
          (fun r_ => (r_.1, r_.2.1, r_.2.2.1, MapSlab.metaSlab r_.2.2.2.1, r_.2.2.2.2)) := by
      show MapSlab_Set _ _ (.metaSlab (md_meta m x)) _ _ _ _ _ _ _ = _
      simp only [MapSlab_Set]
      rw [Ob_MapMetaDataSlab_Set_step cfg.T eb rs m x s s1 k v depth hhk hfk hlen hil (md_tree d child none)
        (md_tree d child' none) _ _ hheap' h1]
      generalize mds_stepSpec _ _ _ _ _ _ _ _ _ = q
      cases q <;> rfl
    simp only [mds_afterChild_eq]
    have hm1 : mds_refresh (md_meta m x) (mds_idx m.childHdrs (k.dig 0)) (md_hdr (MTree.hdr d child')) =
        md_meta (mds_metaAfter m child' (mds_idx m.childHdrs (k.dig 0))) x :=
      mds_refresh_md_meta m x _ (MTree.hdr d child') (m.children.set (mds_idx m.childHdrs (k.dig 0)) child')
    cases hf : MTree.isFull cfg.T d child' with
    | true =>
      have ht := hS cfg.addr d _ x child' _ s1 hpre hk1 hf
      have hss : mds_stepSpec cfg.T eb rs (md_meta m x) (mds_idx m.childHdrs (k.dig 0)) (some (.key ks))
          (old.map .val) (md_tree d child' none) s1 =
          mds_tail (some (.key ks)) (old.map .val)
            (rs.splitChild (md_meta (mds_metaAfter m child' (mds_idx m.childHdrs (k.dig 0))) x) s1
              (md_tree d child' none) (Int.ofNat (mds_idx m.childHdrs (k.dig 0)))) := by
        simp only [mds_stepSpec, mds_hdr_tree, mds_isFull_tree cfg.T eb rs d child' none hsz' hT1, hf,
          Option.getD_some, if_true, hm1]
      simp only [if_true]
      rcases hsp : MMetaSlab.splitChildSlab (mds_metaAfter m child' (mds_idx m.childHdrs (k.dig 0))) child'
        (mds_idx m.childHdrs (k.dig 0)) s1.ctx with e | ⟨m', c'⟩
      · rw [hsp] at ht
        obtain ⟨a, s', w, hr⟩ := ht
        refine ⟨.metaSlab a, s', ?_⟩
        rw [hgen, hss, hr]; rfl
      · rw [hsp] at ht
        obtain ⟨s', w, hr, hc, hpp, hpo⟩ := ht
        refine ⟨s', ?_, hc, by rw [hpp, h3], mds_compose_post e1 e2 hpost hpo⟩
        rw [hgen, hss, hr]; rfl
    | false =>
      simp only [Bool.false_eq_true, if_false]
      cases hu : MTree.isUnderflow cfg.T d child' with
      | some u =>
        have ht := hM cfg.addr d _ x child' _ u s1 hpre hk1 hf hu
        have hss : mds_stepSpec cfg.T eb rs (md_meta m x) (mds_idx m.childHdrs (k.dig 0)) (some (.key ks))
            (old.map .val) (md_tree d child' none) s1 =
            mds_tail (some (.key ks)) (old.map .val)
              (rs.mergeOrRebalance (md_meta (mds_metaAfter m child' (mds_idx m.childHdrs (k.dig 0))) x) s1
                (md_tree d child' none) (Int.ofNat (mds_idx m.childHdrs (k.dig 0))) (u32 u)) := by
          simp only [mds_stepSpec, mds_hdr_tree, mds_isFull_tree cfg.T eb rs d child' none hsz' hT1, hf,
            mds_isUnderflow_tree_some cfg.T eb rs d child' none u hsz' hT2 hu, Option.getD_some,
            Bool.false_eq_true, if_false, if_true, hm1]
        simp only []
        rcases hsp : MMetaSlab.mergeOrRebalanceChildSlab cfg.T (mds_metaAfter m child' (mds_idx m.childHdrs (k.dig 0)))
          child' (mds_idx m.childHdrs (k.dig 0)) u s1.ctx with e | ⟨m', c'⟩
        · rw [hsp] at ht
          obtain ⟨a, s', w, hr⟩ := ht
          refine ⟨.metaSlab a, s', ?_⟩
          rw [hgen, hss, hr]; rfl
        · rw [hsp] at ht
          obtain ⟨s', w, hr, hc, hpp, hpo⟩ := ht
          refine ⟨s', ?_, hc, by rw [hpp, h3], mds_compose_post e1 e2 hpost hpo⟩
          rw [hgen, hss, hr]; rfl
      | none =>
        have hss : mds_stepSpec cfg.T eb rs (md_meta m x) (mds_idx m.childHdrs (k.dig 0)) (some (.key ks))
            (old.map .val) (md_tree d child' none) s1 =
            some (some (.key ks), old.map .val, none, md_meta (mds_metaAfter m child' (mds_idx m.childHdrs (k.dig 0))) x,
              s1.store m.hdr.id (.metaSlab (md_meta (mds_metaAfter m child' (mds_idx m.childHdrs (k.dig 0))) x))) := by
          simp only [mds_stepSpec, mds_hdr_tree, mds_isFull_tree cfg.T eb rs d child' none hsz' hT1, hf,
            mds_isUnderflow_tree cfg.T eb rs d child' none hsz' hT2 hu, Option.getD_some,
            Bool.false_eq_true, if_false, hm1]
          rfl
        simp only []
        refine ⟨s1.store m.hdr.id (.metaSlab (md_meta (mds_metaAfter m child' (mds_idx m.childHdrs (k.dig 0))) x)),
          ?_, rfl, h3, mds_compose_post e1 e2 hpost (mds_Post_store x hpre)⟩
        rw [hgen, hss]; rfl

/-- THE WHOLE `MTree.set` OVER THE HEAP, given the tails: for a tree `t` held by the heap (identifiers pairwise distinct,
    the owner's, fresh identifiers free), under the tail hypotheses on `rs.splitChild` / `rs.mergeOrRebalance` and the
    path conditions `mds_PathG`, the generated `MapSlab.Set` dispatch returns the translation of the model's
    `MTree.set cfg d t k v s.ctx` on EVERY branch of `afterChild`: stored key, old value, no error, `md_tree d t' x`, a
    storage with the model's `Ctx` whose heap holds `t'`, with the frame relative to `md_ids d t ∪ md_ids d t'`
    (`mds_Post`, which gives `MHeapPost`); a model error comes back as that error value.
    `hQset`: the provider's invariant `Q` is preserved by the model's `set`; `hmono`: the model's `MDataSlab.set` does
    not lower the allocation counter. -/
theorem Ob_MapSlab_Set_heap_of_tails' (cfg : MCfg) (k : MKey) (v : Elem) (P : DG r → Prop)
    (Q Qin : (d : Nat) → MTree r d → Prop) (hE : ElemsSpec cfg k v P eb)
    (hS : MSplitTail cfg.T rs Q) (hM : MMorTail cfg.T rs Q)
    (hQin : ∀ d (t : MTree r d), Qin d t → Q d t)
    (hQset : ∀ d (t t' : MTree r d) ks old c c', Qin d t → MTree.set cfg d t k v c = .ok (ks, old, t', c') → Q d t')
    (hmono : ∀ (sl : MDataSlab r) c ks old sl' c', MDataSlab.set cfg sl k v c = .ok (ks, old, sl', c') → c.ctr ≤ c'.ctr)
    (hT1 : maxThr cfg.T < 2^32) (hT2 : minThr cfg.T < 2^32) (hhk : k.dig 0 < 2^64) :
    ∀ (d depth : Nat) (t : MTree r d) (x x0 : Option DX) (s : MHSt r), d ≤ depth → MHolds s.heap d t x0 →
      x.isSome = mds_rootFlag d t → (md_ids d t).Nodup → (∀ id ∈ md_ids d t, id.addr = cfg.addr) →
      mds_FreshFree cfg.addr s → mds_PathG cfg k v P Qin d t s.ctx →
      match MTree.set cfg d t k v s.ctx with
      | .ok (ks, old, t', c') =>
        ∃ s', MapSlab_Set (envD cfg.T eb rs) (MapMetaDataSlab_Set (envD cfg.T eb rs) depth) (md_tree d t x) s () k
            (u64 0) (u64 (k.dig 0)) (.key k) (.val v) =
              some (some (.key ks), old.map .val, none, md_tree d t' x, s') ∧
          s'.ctx = c' ∧ s'.popped = s.popped ∧ mds_Post cfg.addr s s' d t t' x
      | .error e =>
        ∃ root' s', MapSlab_Set (envD cfg.T eb rs) (MapMetaDataSlab_Set (envD cfg.T eb rs) depth) (md_tree d t x) s () k
            (u64 0) (u64 (k.dig 0)) (.key k) (.val v) = some (none, none, some e, root', s') := by
  intro d
  induction d with
  | zero =>
    intro depth t x x0 s _ hh hx hnd haddr ffs hp
    have h := mds_set_data eb rs cfg k v P hE t x hx hp.1 s hp.2.1 hp.2.2 depth
    unfold mds_setRel at h
    rcases hq : MTree.set cfg 0 t k v s.ctx with e | ⟨ks, old, t', c'⟩
    · rw [hq] at h
      exact ⟨_, _, h⟩
    · rw [hq] at h
      obtain ⟨s', h1, h2, h3, hrel⟩ := h
      exact ⟨s', h1, h2, h3, mds_Post_of_HeapRel hrel hnd haddr hh ffs (by rw [h2]; exact hmono t s.ctx ks old t' c' hq)⟩
  | succ d ih =>
    intro depth t x x0 s hd hh _ hnd haddr ffs hp
    obtain ⟨hfk, hlen, hhdrs, hQ, child, hci, hroot, hpc, hsz⟩ := hp
    cases depth with
    | zero => omega
    | succ depth' =>
      have hmem : child ∈ MMetaSlab.children t := List.mem_of_getElem? hci
      have hhc : MHolds s.heap d child none := hh.2 child hmem
      have hsub : ∀ id ∈ md_ids d child, id ∈ md_ids (d + 1) t :=
        fun id hid => List.mem_cons_of_mem _ (List.mem_flatMap.mpr ⟨child, hmem, hid⟩)
      have hndc : (md_ids d child).Nodup := by
        obtain ⟨A, B, hAB, _⟩ := mds_split_at (MMetaSlab.children t) _ child hci
        have hids : md_ids (d + 1) t =
            (MMetaSlab.hdr t).id :: (A.flatMap (md_ids d) ++ (md_ids d child ++ B.flatMap (md_ids d))) := by
          show (MMetaSlab.hdr t).id :: (MMetaSlab.children t).flatMap (md_ids d) = _
          rw [hAB]; simp
        rw [hids] at hnd
        exact (List.nodup_append.mp (List.nodup_append.mp (List.nodup_cons.mp hnd).2).2.1).1
      exact mds_set_meta_full' eb rs cfg k v Q Qin hS hM hQin hQset hT1 hT2 hhk d depth' t x x0 s hfk hlen hhdrs hQ child hci hh
        hnd haddr hsz
        (ih depth' child none none s (by omega) hhc (by rw [hroot]; rfl) hndc (fun id hid => haddr id (hsub id hid)) ffs hpc)

end

end

end Atree.TransEq
