import AtreeProofs.Props.TransMapDescentInvR
import AtreeProofs.Map.MapOps
import AtreeProofs.Props.TransMapDescentClosed
/-
  MAP DESCENT, round 3 (WP13): THE FINAL ASSEMBLY FOR `Set`.
  Part A/B: `Ob_MapSlab_Set_heap_of_tails'`, `Ob_OrderedMap_set_heap_of_tails'` - the `_of_tails` theorems of
  TransMapDescentSetFull / TopSetFull with the provider invariant split in two: `Qin` (TIGHT: what the children of the path
  nodes satisfy before the operation) and `Q` (LOOSE: what the tails may assume), closure only `Qin t → set t = ok t' → Q t'`;
  root level over a handle predicate `QR` (`MRootTailR`).
  Part C: the model-side hypotheses from `MapInv`; Part D: `Ob_OrderedMap_Set_heap_full_of_three`.
-/
namespace Atree.TransEq
open Atree Atree.Gen.TransMapD

section
variable {r : Nat}

section
variable (eb : DEnvB r) (rs : DRestruct r)

/-- what the full theorem assumes ALONG THE PATH of the key (no "neither full nor underflowing" clause): digests /
    lengths / new child sizes in machine range, header list = headers of the embedded children, every child satisfies the
    provider's invariant `Q`, the data slab's elements satisfy `P`, belong to the owner address, and it is not inlined -/
def mds_PathG (cfg : MCfg) (k : MKey) (v : Elem) (P : DG r → Prop) (L : MDataSlab r → Prop)
    (Qin : (d : Nat) → MTree r d → Prop) :
    (d : Nat) → MTree r d → Ctx → Prop
  | 0, (sl : MDataSlab r), _ => P sl.elems ∧ sl.hdr.id.addr = cfg.addr ∧ sl.inlined = false ∧ L sl
  | d + 1, (m : MMetaSlab (MTree r d)), c =>
    (∀ h ∈ m.childHdrs, h.firstKey < 2^64) ∧ m.childHdrs.length < 2^62 ∧
    m.childHdrs = m.children.map (MTree.hdr d) ∧ (∀ c' ∈ m.children, Qin d c') ∧
    ∃ child : MTree r d, m.children[mds_idx m.childHdrs (k.dig 0)]? = some child ∧
      mds_rootFlag d child = false ∧
      mds_PathG cfg k v P L Qin d child c ∧
      ∀ ks old child' c1, MTree.set cfg d child k v c = .ok (ks, old, child', c1) → (MTree.hdr d child').size < 2^32

/-- one level: from the relation on the child to the relation on the index slab, all three tails -/
theorem mds_set_meta_full' (cfg : MCfg) (k : MKey) (v : Elem) (Q Qin : (d : Nat) → MTree r d → Prop)
    (hS : MSplitTail cfg.T rs Q) (hM : MMorTail cfg.T rs Q)
    (hQin : ∀ d (t : MTree r d), Qin d t → Q d t)
    (hQset : ∀ d (t t' : MTree r d) ks old c c', Qin d t → MTree.set cfg d t k v c = .ok (ks, old, t', c') → Q d t')
    (hT1 : maxThr cfg.T < 2^32) (hT2 : minThr cfg.T < 2^32) (hhk : k.dig 0 < 2^64)
    (d depth : Nat) (m : MMetaSlab (MTree r d)) (x x0 : Option DX) (s : MHSt r)
    (hfk : ∀ h ∈ m.childHdrs, h.firstKey < 2^64) (hlen : m.childHdrs.length < 2^62)
    (hhdrs : m.childHdrs = m.children.map (MTree.hdr d)) (hQ : ∀ c ∈ m.children, Qin d c)
    (child : MTree r d) (hci : m.children[mds_idx m.childHdrs (k.dig 0)]? = some child)
    (hh : MHolds s.heap (d + 1) m x0) (hnd : (md_ids (d + 1) m).Nodup)
    (haddr : ∀ id ∈ md_ids (d + 1) m, id.addr = cfg.addr)
    (hsz : ∀ ks old child' c1, MTree.set cfg d child k v s.ctx = .ok (ks, old, child', c1) →
      (MTree.hdr d child').size < 2^32)
    (ihc : mds_setRelF eb rs cfg k v depth d child none s) :
    mds_setRelF eb rs cfg k v (depth + 1) (d + 1) m x s := by
  have hheap : s.heap (MTree.hdr d child).id = some (md_tree d child none) :=
    (hh.2 child (List.mem_of_getElem? hci)).root
  have hhi : m.childHdrs[mds_idx m.childHdrs (k.dig 0)]? = some (MTree.hdr d child) := by
    have : (m.children.map (MTree.hdr d))[mds_idx m.childHdrs (k.dig 0)]? = some (MTree.hdr d child) := by
      rw [List.getElem?_map, hci]; rfl
    rw [← hhdrs] at this; exact this
  unfold mds_setRelF at ihc ⊢
  rw [mds_model_set_succ cfg d m k v s.ctx child hci]
  have hil : mds_idx m.childHdrs (k.dig 0) < m.childHdrs.length := (List.getElem?_eq_some_iff.mp hhi).1
  have hgetD : m.childHdrs.getD (mds_idx m.childHdrs (k.dig 0)) default = MTree.hdr d child := by
    simp [List.getD, hhi]
  have hheap' : s.heap (m.childHdrs.getD (mds_idx m.childHdrs (k.dig 0)) default).id = some (md_tree d child none) := by
    rw [hgetD]; exact hheap
  rcases hq : MTree.set cfg d child k v s.ctx with e | ⟨ks, old, child', c1⟩
  · rw [hq] at ihc
    obtain ⟨root', s1, h1⟩ := ihc
    refine ⟨.metaSlab (md_meta m x), s1, ?_⟩
    show MapSlab_Set _ _ (.metaSlab (md_meta m x)) _ _ _ _ _ _ _ = _
    simp only [MapSlab_Set]
    rw [Ob_MapMetaDataSlab_Set_step_childErr cfg.T eb rs m x s s1 k v depth hhk hfk hlen hil (md_tree d child none)
      root' none none e hheap' h1]
  · rw [hq] at ihc
    obtain ⟨s1, h1, h2, h3, hpost⟩ := ihc
    subst h2
    have hsz' := hsz ks old child' s1.ctx hq
    obtain ⟨hpre, hk1, As, Bs, e1, e2⟩ := mds_Pre_after_child (Q := Q) m x0 child child' _ hci hh hnd haddr hhdrs (fun c hc => hQin d c (hQ c hc))
      (hQset d child child' ks old _ _ (hQ child (List.mem_of_getElem? hci)) hq) hpost
    have hgen : MapSlab_Set (envD cfg.T eb rs) (MapMetaDataSlab_Set (envD cfg.T eb rs) (depth + 1))
        (md_tree (d + 1) m x) s () k (u64 0) (u64 (k.dig 0)) (.key k) (.val v) =
        (mds_stepSpec cfg.T eb rs (md_meta m x) (mds_idx m.childHdrs (k.dig 0)) (some (.key ks)) (old.map .val)
          (md_tree d child' none) s1).map
          (fun r_ => (r_.1, r_.2.1, r_.2.2.1, MapSlab.metaSlab r_.2.2.2.1, r_.2.2.2.2)) := by
      show MapSlab_Set _ _ (.metaSlab (md_meta m x)) _ _ _ _ _ _ _ = _
      simp only [MapSlab_Set]
      rw [Ob_MapMetaDataSlab_Set_step cfg.T eb rs m x s s1 k v depth hhk hfk hlen hil (md_tree d child none)
        (md_tree d child' none) _ _ hheap' h1]
      generalize mds_stepSpec _ _ _ _ _ _ _ _ _ = q
      cases q <;> rfl
    simp only [mds_afterChild_eq]
    have hm1 : mds_refresh (md_meta m x) (mds_idx m.childHdrs (k.dig 0)) (md_hdr (MTree.hdr d child')) =
        md_meta (mds_metaAfter m child' (mds_idx m.childHdrs (k.dig 0))) x :=
      mds_refresh_md_meta m x _ (MTree.hdr d child') (m.children.set (mds_idx m.childHdrs (k.dig 0)) child')
    cases hf : MTree.isFull cfg.T d child' with
    | true =>
      have ht := hS cfg.addr d _ x child' _ s1 hpre hk1 hf
      have hss : mds_stepSpec cfg.T eb rs (md_meta m x) (mds_idx m.childHdrs (k.dig 0)) (some (.key ks))
          (old.map .val) (md_tree d child' none) s1 =
          mds_tail (some (.key ks)) (old.map .val)
            (rs.splitChild (md_meta (mds_metaAfter m child' (mds_idx m.childHdrs (k.dig 0))) x) s1
              (md_tree d child' none) (Int.ofNat (mds_idx m.childHdrs (k.dig 0)))) := by
        simp only [mds_stepSpec, mds_hdr_tree, mds_isFull_tree cfg.T eb rs d child' none hsz' hT1, hf,
          Option.getD_some, if_true, hm1]
      simp only [if_true]
      rcases hsp : MMetaSlab.splitChildSlab (mds_metaAfter m child' (mds_idx m.childHdrs (k.dig 0))) child'
        (mds_idx m.childHdrs (k.dig 0)) s1.ctx with e | ⟨m', c'⟩
      · rw [hsp] at ht
        obtain ⟨a, s', w, hr⟩ := ht
        refine ⟨.metaSlab a, s', ?_⟩
        rw [hgen, hss, hr]; rfl
      · rw [hsp] at ht
        obtain ⟨s', w, hr, hc, hpp, hpo⟩ := ht
        refine ⟨s', ?_, hc, by rw [hpp, h3], mds_compose_post e1 e2 hpost hpo⟩
        rw [hgen, hss, hr]; rfl
    | false =>
      simp only [Bool.false_eq_true, if_false]
      cases hu : MTree.isUnderflow cfg.T d child' with
      | some u =>
        have ht := hM cfg.addr d _ x child' _ u s1 hpre hk1 hf hu
        have hss : mds_stepSpec cfg.T eb rs (md_meta m x) (mds_idx m.childHdrs (k.dig 0)) (some (.key ks))
            (old.map .val) (md_tree d child' none) s1 =
            mds_tail (some (.key ks)) (old.map .val)
              (rs.mergeOrRebalance (md_meta (mds_metaAfter m child' (mds_idx m.childHdrs (k.dig 0))) x) s1
                (md_tree d child' none) (Int.ofNat (mds_idx m.childHdrs (k.dig 0))) (u32 u)) := by
          simp only [mds_stepSpec, mds_hdr_tree, mds_isFull_tree cfg.T eb rs d child' none hsz' hT1, hf,
            mds_isUnderflow_tree_some cfg.T eb rs d child' none u hsz' hT2 hu, Option.getD_some,
            Bool.false_eq_true, if_false, if_true, hm1]
        simp only []
        rcases hsp : MMetaSlab.mergeOrRebalanceChildSlab cfg.T (mds_metaAfter m child' (mds_idx m.childHdrs (k.dig 0)))
          child' (mds_idx m.childHdrs (k.dig 0)) u s1.ctx with e | ⟨m', c'⟩
        · rw [hsp] at ht
          obtain ⟨a, s', w, hr⟩ := ht
          refine ⟨.metaSlab a, s', ?_⟩
          rw [hgen, hss, hr]; rfl
        · rw [hsp] at ht
          obtain ⟨s', w, hr, hc, hpp, hpo⟩ := ht
          refine ⟨s', ?_, hc, by rw [hpp, h3], mds_compose_post e1 e2 hpost hpo⟩
          rw [hgen, hss, hr]; rfl
      | none =>
        have hss : mds_stepSpec cfg.T eb rs (md_meta m x) (mds_idx m.childHdrs (k.dig 0)) (some (.key ks))
            (old.map .val) (md_tree d child' none) s1 =
            some (some (.key ks), old.map .val, none, md_meta (mds_metaAfter m child' (mds_idx m.childHdrs (k.dig 0))) x,
              s1.store m.hdr.id (.metaSlab (md_meta (mds_metaAfter m child' (mds_idx m.childHdrs (k.dig 0))) x))) := by
          simp only [mds_stepSpec, mds_hdr_tree, mds_isFull_tree cfg.T eb rs d child' none hsz' hT1, hf,
            mds_isUnderflow_tree cfg.T eb rs d child' none hsz' hT2 hu, Option.getD_some,
            Bool.false_eq_true, if_false, hm1]
          rfl
        simp only []
        refine ⟨s1.store m.hdr.id (.metaSlab (md_meta (mds_metaAfter m child' (mds_idx m.childHdrs (k.dig 0))) x)),
          ?_, rfl, h3, mds_compose_post e1 e2 hpost (mds_Post_store x hpre)⟩
        rw [hgen, hss]; rfl

/-- THE WHOLE `MTree.set` OVER THE HEAP, given the tails: for a tree `t` held by the heap (identifiers pairwise distinct,
    the owner's, fresh identifiers free), under the tail hypotheses on `rs.splitChild` / `rs.mergeOrRebalance` and the
    path conditions `mds_PathG`, the generated `MapSlab.Set` dispatch returns the translation of the model's
    `MTree.set cfg d t k v s.ctx` on EVERY branch of `afterChild`: stored key, old value, no error, `md_tree d t' x`, a
    storage with the model's `Ctx` whose heap holds `t'`, with the frame relative to `md_ids d t ∪ md_ids d t'`
    (`mds_Post`, which gives `MHeapPost`); a model error comes back as that error value.
    `hQset`: the provider's invariant `Q` is preserved by the model's `set`; `hmono`: the model's `MDataSlab.set` does
    not lower the allocation counter. -/
theorem Ob_MapSlab_Set_heap_of_tails' (cfg : MCfg) (k : MKey) (v : Elem) (P : DG r → Prop) (L : MDataSlab r → Prop)
    (Q Qin : (d : Nat) → MTree r d → Prop) (hE : ElemsSpec cfg k v P eb)
    (hS : MSplitTail cfg.T rs Q) (hM : MMorTail cfg.T rs Q)
    (hQin : ∀ d (t : MTree r d), Qin d t → Q d t)
    (hQset : ∀ d (t t' : MTree r d) ks old c c', Qin d t → MTree.set cfg d t k v c = .ok (ks, old, t', c') → Q d t')
    (hmono : ∀ (sl : MDataSlab r) c ks old sl' c', L sl → MDataSlab.set cfg sl k v c = .ok (ks, old, sl', c') → c.ctr ≤ c'.ctr)
    (hT1 : maxThr cfg.T < 2^32) (hT2 : minThr cfg.T < 2^32) (hhk : k.dig 0 < 2^64) :
    ∀ (d depth : Nat) (t : MTree r d) (x x0 : Option DX) (s : MHSt r), d ≤ depth → MHolds s.heap d t x0 →
      x.isSome = mds_rootFlag d t → (md_ids d t).Nodup → (∀ id ∈ md_ids d t, id.addr = cfg.addr) →
      mds_FreshFree cfg.addr s → mds_PathG cfg k v P L Qin d t s.ctx →
      match MTree.set cfg d t k v s.ctx with
      | .ok (ks, old, t', c') =>
        ∃ s', MapSlab_Set (envD cfg.T eb rs) (MapMetaDataSlab_Set (envD cfg.T eb rs) depth) (md_tree d t x) s () k
            (u64 0) (u64 (k.dig 0)) (.key k) (.val v) =
              some (some (.key ks), old.map .val, none, md_tree d t' x, s') ∧
          s'.ctx = c' ∧ s'.popped = s.popped ∧ mds_Post cfg.addr s s' d t t' x
      | .error e =>
        ∃ root' s', MapSlab_Set (envD cfg.T eb rs) (MapMetaDataSlab_Set (envD cfg.T eb rs) depth) (md_tree d t x) s () k
            (u64 0) (u64 (k.dig 0)) (.key k) (.val v) = some (none, none, some e, root', s') := by
  intro d
  induction d with
  | zero =>
    intro depth t x x0 s _ hh hx hnd haddr ffs hp
    have h := mds_set_data eb rs cfg k v P hE t x hx hp.1 s hp.2.1 hp.2.2.1 depth
    unfold mds_setRel at h
    rcases hq : MTree.set cfg 0 t k v s.ctx with e | ⟨ks, old, t', c'⟩
    · rw [hq] at h
      exact ⟨_, _, h⟩
    · rw [hq] at h
      obtain ⟨s', h1, h2, h3, hrel⟩ := h
      exact ⟨s', h1, h2, h3, mds_Post_of_HeapRel hrel hnd haddr hh ffs (by rw [h2]; exact hmono t s.ctx ks old t' c' hp.2.2.2 hq)⟩
  | succ d ih =>
    intro depth t x x0 s hd hh _ hnd haddr ffs hp
    obtain ⟨hfk, hlen, hhdrs, hQ, child, hci, hroot, hpc, hsz⟩ := hp
    cases depth with
    | zero => omega
    | succ depth' =>
      have hmem : child ∈ MMetaSlab.children t := List.mem_of_getElem? hci
      have hhc : MHolds s.heap d child none := hh.2 child hmem
      have hsub : ∀ id ∈ md_ids d child, id ∈ md_ids (d + 1) t :=
        fun id hid => List.mem_cons_of_mem _ (List.mem_flatMap.mpr ⟨child, hmem, hid⟩)
      have hndc : (md_ids d child).Nodup := by
        obtain ⟨A, B, hAB, _⟩ := mds_split_at (MMetaSlab.children t) _ child hci
        have hids : md_ids (d + 1) t =
            (MMetaSlab.hdr t).id :: (A.flatMap (md_ids d) ++ (md_ids d child ++ B.flatMap (md_ids d))) := by
          show (MMetaSlab.hdr t).id :: (MMetaSlab.children t).flatMap (md_ids d) = _
          rw [hAB]; simp
        rw [hids] at hnd
        exact (List.nodup_append.mp (List.nodup_append.mp (List.nodup_cons.mp hnd).2).2.1).1
      exact mds_set_meta_full' eb rs cfg k v Q Qin hS hM hQin hQset hT1 hT2 hhk d depth' t x x0 s hfk hlen hhdrs hQ child hci hh
        hnd haddr hsz
        (ih depth' child none none s (by omega) hhc (by rw [hroot]; rfl) hndc (fun id hid => haddr id (hsub id hid)) ffs hpc)

end

section
variable (T : Nat) (eb : DEnvB r) (rs : DRestruct r) (Q : (d : Nat) → MTree r d → Prop) (QR : OMap r → Prop)

/-- `if m.root.IsFull() { m.splitRoot() }` against the model's `splitRootIfFull` -/
theorem mds_topFinish_modelR (hR : MRootTailR T rs QR) (hT1 : maxThr T < 2^32) (addr : Nat) (m2 : OMap r) (s2 : MHSt r)
    (x2 : Option DX) (o : Option SV) (hpre : mds_RootPreR QR addr s2 m2 x2)
    (hsz : (MTree.hdr m2.d m2.root).size < 2^32) :
    match m2.splitRootIfFull T s2.ctx with
    | .ok (m3, c3) =>
      ∃ s3 x3, mds_topFinish (envD T eb rs) (md_map m2 s2) o = some (o, none, md_map m3 s3) ∧ s3.ctx = c3 ∧
        s3.popped = s2.popped ∧ mds_RootPreR QR addr s3 m3 x3 ∧
        mds_Delta s2.heap s3.heap (md_ids m2.d m2.root) (md_ids m3.d m3.root)
    | .error e => ∃ M', mds_topFinish (envD T eb rs) (md_map m2 s2) o = some (none, some e, M') := by
  have hfull : MapSlab_IsFull (envD T eb rs) (md_map m2 s2).root = some (MTree.isFull T m2.d m2.root) :=
    mds_isFull_tree T eb rs m2.d m2.root _ hsz hT1
  rw [mds_topFinish_envD, hfull]
  unfold OMap.splitRootIfFull
  cases hf : MTree.isFull T m2.d m2.root with
  | false =>
    simp only [Bool.false_eq_true, if_false]
    exact ⟨s2, x2, rfl, rfl, rfl, hpre, mds_Delta.refl _ _⟩
  | true =>
    simp only [if_true]
    have ht := hR.splitRoot addr m2 s2 x2 hpre hf
    rcases hsp : m2.splitRoot s2.ctx with e | ⟨m3, c3⟩
    · rw [hsp] at ht
      obtain ⟨M', hr⟩ := ht
      exact ⟨M', by rw [hr]; rfl⟩
    · rw [hsp] at ht
      obtain ⟨s3, hr, hc, hpp, hpre3, hdl⟩ := ht
      exact ⟨s3, _, by rw [hr]; rfl, hc, hpp, hpre3, hdl⟩

/-- the promotion of a single child against the model's `promoteIfSingleChild` -/
theorem mds_topPromote_modelR (hR : MRootTailR T rs QR)
    (hQRhdrs : ∀ d (xr : MMetaSlab (MTree r d)) ty cnt seed, QR ⟨d + 1, xr, ty, cnt, seed⟩ →
      xr.childHdrs = xr.children.map (MTree.hdr d))
    (addr : Nat) (m1 : OMap r) (s1 : MHSt r) (x1 : Option DX) (o : Option SV) (hpre : mds_RootPreR QR addr s1 m1 x1) :
    ∃ s2 x2, mds_topPromote (envD T eb rs) (md_map m1 s1) o =
        mds_topFinish (envD T eb rs) (md_map (m1.promoteIfSingleChild s1.ctx).1 s2) o ∧
      s2.ctx = (m1.promoteIfSingleChild s1.ctx).2 ∧ s2.popped = s1.popped ∧
      mds_RootPreR QR addr s2 (m1.promoteIfSingleChild s1.ctx).1 x2 ∧
      mds_Delta s1.heap s2.heap (md_ids m1.d m1.root) (md_ids _ (m1.promoteIfSingleChild s1.ctx).1.root) := by
  obtain ⟨d, root, ty, cnt, seed⟩ := m1
  cases d with
  | zero => exact ⟨s1, x1, rfl, rfl, rfl, hpre, mds_Delta.refl _ _⟩
  | succ d =>
    have hc : MMetaSlab.childHdrs root = (MMetaSlab.children root).map (MTree.hdr d) := hQRhdrs d root ty cnt seed hpre.inv
    rw [mds_topPromote_envD]
    rcases hch : MMetaSlab.childHdrs root with _ | ⟨h, _ | ⟨h2, tl⟩⟩
    · have hm : OMap.promoteIfSingleChild ⟨d + 1, root, ty, cnt, seed⟩ s1.ctx = (⟨d + 1, root, ty, cnt, seed⟩, s1.ctx) := by
        simp only [OMap.promoteIfSingleChild, hch]
      rw [hm]
      refine ⟨s1, x1, ?_, rfl, rfl, hpre, mds_Delta.refl _ _⟩
      simp only [md_map, md_tree, md_meta, hch, List.map_nil]
    · have ht := hR.promote addr d root ty cnt seed h s1 x1 hch hc hpre
      obtain ⟨s2, hr, hc2, hpp, hpre2, hdl⟩ := ht
      refine ⟨s2, _, ?_, hc2, hpp, hpre2, hdl⟩
      have hroot : (md_map (⟨d + 1, root, ty, cnt, seed⟩ : OMap r) s1).root =
          .metaSlab (md_meta root (some (md_extra (⟨d + 1, root, ty, cnt, seed⟩ : OMap r)))) := rfl
      simp only [hroot, md_meta, hch, List.map_cons, List.map_nil, md_hdr]
      rw [hr]
      rfl
    · have hm : OMap.promoteIfSingleChild ⟨d + 1, root, ty, cnt, seed⟩ s1.ctx = (⟨d + 1, root, ty, cnt, seed⟩, s1.ctx) := by
        simp only [OMap.promoteIfSingleChild, hch]
      rw [hm]
      refine ⟨s1, x1, ?_, rfl, rfl, hpre, mds_Delta.refl _ _⟩
      simp only [md_map, md_tree, md_meta, hch, List.map_cons]


/-- THE WHOLE `OMap.set` OVER THE HEAP, given the tails, with the provider invariants split: `Qin` (tight children of the
    path nodes), `Q` (what the child tails may assume), `QR` (handle-level, what the root tails may assume and
    re-establish).  `hQRset`: the handle after the tree-level `set` (new root, new count) satisfies `QR`. -/
theorem Ob_OrderedMap_set_heap_of_tails' (Qin : (d : Nat) → MTree r d → Prop) (cfg : MCfg) (k : MKey) (v : Elem)
    (P : DG r → Prop) (L : MDataSlab r → Prop) (hE : ElemsSpec cfg k v P eb) (hS : MSplitTail cfg.T rs Q) (hM : MMorTail cfg.T rs Q)
    (hR : MRootTailR cfg.T rs QR)
    (hQin : ∀ d (t : MTree r d), Qin d t → Q d t)
    (hQset : ∀ d (t t' : MTree r d) ks old c c', Qin d t → MTree.set cfg d t k v c = .ok (ks, old, t', c') → Q d t')
    (hQRhdrs : ∀ d (xr : MMetaSlab (MTree r d)) ty cnt seed, QR ⟨d + 1, xr, ty, cnt, seed⟩ →
      xr.childHdrs = xr.children.map (MTree.hdr d))
    (hmono : ∀ (sl : MDataSlab r) c ks old sl' c', L sl → MDataSlab.set cfg sl k v c = .ok (ks, old, sl', c') → c.ctr ≤ c'.ctr)
    (hT1 : maxThr cfg.T < 2^32) (hT2 : minThr cfg.T < 2^32) (hhk : k.dig 0 < 2^64)
    (m : OMap r) (s : MHSt r) (x0 : Option DX) (depth : Nat) (hd : m.d ≤ depth)
    (hheld : MHolds s.heap m.d m.root x0) (hnd : (md_ids m.d m.root).Nodup)
    (haddr : ∀ id ∈ md_ids m.d m.root, id.addr = cfg.addr) (hff : mds_FreshFree cfg.addr s)
    (hroot : mds_rootFlag m.d m.root = true)
    (hp : mds_PathG cfg k v P L Qin m.d m.root s.ctx)
    (hQRset : ∀ ks old root' c1, MTree.set cfg m.d m.root k v s.ctx = .ok (ks, old, root', c1) →
      QR ({ m with root := root', count := if old.isNone then m.count + 1 else m.count } : OMap r))
    (hszR : ∀ ks old root' c1, MTree.set cfg m.d m.root k v s.ctx = .ok (ks, old, root', c1) →
      (MTree.hdr _ (OMap.promoteIfSingleChild
        ({ m with root := root', count := if old.isNone then m.count + 1 else m.count } : OMap r) c1).1.root).size < 2^32) :
    match OMap.set cfg m k v s.ctx with
    | .ok (old, m', c') =>
      ∃ s' x', OrderedMap_set (envD cfg.T eb rs) depth (md_map m s) (.key k) (.val v) =
          some (old.map .val, none, md_map m' s') ∧
        s'.ctx = c' ∧ s'.popped = s.popped ∧ mds_RootPreR QR cfg.addr s' m' x' ∧
        mds_Delta s.heap s'.heap (md_ids m.d m.root) (md_ids m'.d m'.root)
    | .error e => ∃ M', OrderedMap_set (envD cfg.T eb rs) depth (md_map m s) (.key k) (.val v) = some (none, some e, M') := by
  have hT := Ob_MapSlab_Set_heap_of_tails' eb rs cfg k v P L Q Qin hE hS hM hQin hQset hmono hT1 hT2 hhk m.d depth m.root
    (some (md_extra m)) x0 s hd hheld (by rw [hroot]; rfl) hnd haddr hff hp
  rw [mds_OMap_set_eq]
  rcases hq : MTree.set cfg m.d m.root k v s.ctx with e | ⟨ks, old, root', c1⟩
  · rw [hq] at hT
    obtain ⟨root'', s'', hg⟩ := hT
    exact ⟨_, Ob_OrderedMap_set_step_err cfg.T eb rs (md_map m s) k (.val v) depth none none e root'' s'' hg⟩
  · rw [hq] at hT
    obtain ⟨s1, h1, h2, h3, hpost⟩ := hT
    subst h2
    simp only []
    have hszR' := hszR ks old root' s1.ctx hq
    have hQR1 := hQRset ks old root' s1.ctx hq
    generalize hm1 : ({ m with root := root', count := if old.isNone then m.count + 1 else m.count } : OMap r) = m1
      at hszR' hQR1
    have hcount : mds_topCount ({ Storage := s1, root := md_tree m.d root' (some (md_extra m)), digesterBuilder := () } :
        DMap r) (old.map .val) = some (md_map m1 s1) := by
      subst hm1
      unfold mds_topCount
      cases old with
      | none =>
        simp only [Option.map_none, Option.isNone_none, if_true, mds_tree_extra, mds_tree_withExtra]
        show some _ = some _
        congr 1
        show _ = md_map _ s1
        have e : u64 m.count + 1 = u64 (m.count + 1) := (UInt64.ofNat_add m.count 1).symm
        unfold md_map md_extra
        simp only [if_true, e]
      | some ov =>
        simp only [Option.map_some, Option.isNone_some, Bool.false_eq_true, if_false]
        rfl
    have hpre1 : mds_RootPreR QR cfg.addr s1 m1 (some (md_extra m)) := by
      subst hm1
      exact ⟨hpost.holds, hpost.nodup, hpost.addrOk, hpost.ff, hQR1⟩
    have hids1 : md_ids m1.d m1.root = md_ids m.d root' := by subst hm1; rfl
    obtain ⟨s2, x2, hg2, hc2, hp2, hpre2, hdl2⟩ :=
      mds_topPromote_modelR cfg.T eb rs QR hR hQRhdrs cfg.addr m1 s1 _ (old.map .val) hpre1
    have hfin := mds_topFinish_modelR cfg.T eb rs QR hR hT1 cfg.addr (m1.promoteIfSingleChild s1.ctx).1 s2 x2
      (old.map .val) hpre2 hszR'
    rw [hc2] at hfin
    have hgen : OrderedMap_set (envD cfg.T eb rs) depth (md_map m s) (.key k) (.val v) =
        mds_topFinish (envD cfg.T eb rs) (md_map (m1.promoteIfSingleChild s1.ctx).1 s2) (old.map .val) := by
      rw [Ob_OrderedMap_set_step_map cfg.T eb rs m s k v depth (.key ks) (old.map .val) _ s1 h1]
      unfold mds_topSpec
      rw [hcount]
      exact hg2
    rcases hsp : OMap.splitRootIfFull cfg.T (m1.promoteIfSingleChild s1.ctx).1 (m1.promoteIfSingleChild s1.ctx).2
      with e | ⟨m3, c3⟩
    · rw [hsp] at hfin
      obtain ⟨M', hr⟩ := hfin
      exact ⟨M', by rw [hgen, hr]⟩
    · rw [hsp] at hfin
      obtain ⟨s3, x3, hr, hc3, hp3, hpre3, hdl3⟩ := hfin
      refine ⟨s3, x3, by rw [hgen, hr], hc3, by rw [hp3, hp2, h3], hpre3, ?_⟩
      exact (hpost.delta.trans (hids1 ▸ hdl2)).trans hdl3

end

/-! ### Part C: the model-side hypotheses from the map invariant -/

section
variable {T : Nat} {D : DigestFn (r + 1)} {cfg : MCfg}

/-- the TIGHT invariant of the children of the path nodes (what `MetaLoose` says of the children of an index slab) plus
    the `uint64` range of the first-level digests -/
def mfi_Qin (T : Nat) (D : DigestFn (r + 1)) (d : Nat) (t : MTree r d) : Prop :=
  MTreeInv T D d false t ∧ ∀ x ∈ MTree.digests0 d t, x < 2^64

/-- the leaf on the path satisfies the loose data slab invariant (root or not) -/
def mfi_L (T : Nat) (D : DigestFn (r + 1)) (sl : MDataSlab r) : Prop := ∃ top, MDataLoose T D top sl

theorem mfi_Qin_MQ (hT : legalThreshold T = true) (d : Nat) (t : MTree r d) (h : mfi_Qin T D d t) : MQ T D d t := by
  obtain ⟨hs, _, hle⟩ := (mtreeInv_false_iff hT d t).mp h.1
  exact ⟨hs, Nat.le_trans hle (Nat.le_add_right _ _), h.2⟩

/-- `hQset` for tight inputs, from `MTree.set_spec` -/
theorem mfi_set_MQ (hT : legalThreshold T = true) (hc : CfgFor cfg T (r + 1)) {k : MKey} (hk : KeyOk T (r + 1) D k)
    {v : Elem} (hv : ValueOkM v) (hhk : k.dig 0 < 2^64) (d : Nat) (t t' : MTree r d) (ks : MKey) (old : Option Elem)
    (c c' : Ctx) (h : mfi_Qin T D d t) (hq : MTree.set cfg d t k v c = .ok (ks, old, t', c')) : MQ T D d t' := by
  obtain ⟨h1, h2⟩ := MTree.set_spec hT hc hk hv d false t c h.1
  by_cases hl : TLimited cfg d t k
  · rw [h1 hl] at hq; cases hq
  · obtain ⟨old', t'', c'', heq, hp⟩ := h2 hl
    rw [heq] at hq
    cases hq
    refine ⟨hp.sinv, ?_, fun x hx => ?_⟩
    · have := hp.size_le; have := slack1_le T d; have := MTreeInv.le_max d false t h.1; omega
    · rcases hp.digs x hx with h' | h'
      · exact h.2 x h'
      · rw [h']; exact hhk

/-- `hQRhdrs`: projection of `MetaLoose` -/
theorem mfi_QRhdrs (d : Nat) (xr : MMetaSlab (MTree r d)) (ty cnt seed : Nat)
    (h : MQR T D (⟨d + 1, xr, ty, cnt, seed⟩ : OMap r)) : xr.childHdrs = xr.children.map (MTree.hdr d) := by
  have hs : SInv T D (d + 1) true xr := h.1
  exact hs.1.2.1

/-- `hmono` on a leaf satisfying the loose invariant, from `set_spec_zero` -/
theorem mfi_mono (hT : legalThreshold T = true) (hc : CfgFor cfg T (r + 1)) {k : MKey} (hk : KeyOk T (r + 1) D k)
    {v : Elem} (hv : ValueOkM v) (sl : MDataSlab r) (c : Ctx) (ks : MKey) (old : Option Elem) (sl' : MDataSlab r)
    (c' : Ctx) (hL : mfi_L T D sl) (hq : MDataSlab.set cfg sl k v c = .ok (ks, old, sl', c')) : c.ctr ≤ c'.ctr := by
  obtain ⟨top, hl⟩ := hL
  obtain ⟨h1, h2⟩ := set_spec_zero hT hc sl hl hk hv c
  have hq' : MTree.set cfg 0 sl k v c = .ok (ks, old, sl', c') := hq
  by_cases hlim : TLimited cfg 0 sl k
  · rw [h1 hlim] at hq'; cases hq'
  · obtain ⟨old', t'', c'', heq, hp⟩ := h2 hlim
    rw [heq] at hq'
    cases hq'
    exact hp.ctr

theorem mfi_bound (hT : legalThreshold T = true) (d : Nat) : maxThr T + slack T d < 2^32 := by
  have hb := map_legal_bounds hT
  cases d with
  | zero =>
    simp only [slack, maxEntry, maxInlineMapElem_eq, Gen.digestSize, map_maxThr_eq]
    omega
  | succ d =>
    simp only [slack, Gen.mapSlabHeaderSize, map_maxThr_eq]
    omega

theorem MQ.size_lt (hT : legalThreshold T = true) {d : Nat} {t : MTree r d} (h : MQ T D d t) :
    (MTree.hdr d t).size < 2^32 := Nat.lt_of_le_of_lt h.size_le (mfi_bound hT d)

theorem mfi_rootFlag_false : ∀ (d : Nat) (t : MTree r d), MTreeInv T D d false t → mds_rootFlag d t = false
  | 0, _, h => ((mtreeInv_zero_iff T D _ _).mp h).root_eq
  | _ + 1, _, h => ((mtreeInv_succ_iff T D _ _ _).mp h).1.1

theorem mfi_inl_false : ∀ (d : Nat) (t : MTree r d), MTreeInv T D d false t → treeInl d t = false
  | 0, s, h => by
    show MDataSlab.inlined s = false
    cases hi : MDataSlab.inlined s with
    | false => rfl
    | true => have := ((mtreeInv_zero_iff T D _ _).mp h).inl_root hi; cases this
  | _ + 1, _, _ => rfl

theorem mfi_headD_lt (l : List Nat) (h : ∀ x ∈ l, x < 2^64) : l.headD 0 < 2^64 := by
  cases l with
  | nil => decide
  | cons a l => exact h a List.mem_cons_self

/-- `mds_PathG` (tight children, loose leaf) from the tree invariant, the `uint64` range of the digests, the owner
    address of the root, `P` of the leaves -/
theorem mfi_path (hT : legalThreshold T = true) (hc : CfgFor cfg T (r + 1)) {k : MKey} (hk : KeyOk T (r + 1) D k)
    {v : Elem} (hv : ValueOkM v) (hhk : k.dig 0 < 2^64) (P : DG r → Prop) :
    ∀ (d : Nat) (top : Bool) (t : MTree r d) (c : Ctx), MTreeInv T D d top t →
      (∀ x ∈ MTree.digests0 d t, x < 2^64) → (MTree.hdr d t).id.addr = cfg.addr → treeInl d t = false →
      (∀ sl ∈ MTree.leaves d t, P sl.elems) →
      mds_PathG cfg k v P (mfi_L T D) (mfi_Qin T D) d t c
  | 0, top, s, c, h, _, haddr, hinl, hP =>
    ⟨hP s (List.mem_singleton.mpr rfl), haddr, hinl, ⟨top, ((mtreeInv_zero_iff T D _ _).mp h).loose⟩⟩
  | d + 1, top, (m : MMetaSlab (MTree r d)), c, h, hdig, haddr, _, hP => by
    obtain ⟨hm, h2, hle⟩ := MTreeInv.two_children hT h
    have hroute := route hT hm (by omega) (k.dig 0)
    have hidx : (MMetaSlab.findChild m.childHdrs (k.dig 0) 0 m.childHdrs.length (some 0) (m.childHdrs.length + 1)).getD 0
        = (MMetaSlab.findChild m.childHdrs (k.dig 0) 0 m.childHdrs.length none (m.childHdrs.length + 1)).getD 0 := by
      rw [MMetaSlab.findChild_some0]; rfl
    obtain ⟨i, A, child, B, hi, hrt⟩ : ∃ i A child B,
        (MMetaSlab.findChild m.childHdrs (k.dig 0) 0 m.childHdrs.length none (m.childHdrs.length + 1)).getD 0 = i ∧
        Routed d m (k.dig 0) i A child B := by
      cases hr : MMetaSlab.findChild m.childHdrs (k.dig 0) 0 m.childHdrs.length none (m.childHdrs.length + 1) with
      | none =>
        rw [hr] at hroute
        obtain ⟨_, child, B, hrt⟩ := hroute
        exact ⟨0, [], child, B, rfl, hrt⟩
      | some i =>
        rw [hr] at hroute
        obtain ⟨A, child, B, hrt, _⟩ := hroute
        exact ⟨i, A, child, B, rfl, hrt⟩
    have hci : m.children[mds_idx m.childHdrs (k.dig 0)]? = some child := by
      unfold mds_idx
      rw [hidx, hi, hrt.ch]; exact zip_get' hrt.len
    have hmem : child ∈ m.children := List.mem_of_getElem? hci
    have hsubd : ∀ (c' : MTree r d), c' ∈ m.children → ∀ x ∈ MTree.digests0 d c', x ∈ MTree.digests0 (d + 1) m :=
      fun c' hc' x hx => List.mem_flatMap.mpr ⟨c', hc', hx⟩
    have hQinC : ∀ c' ∈ m.children, mfi_Qin T D d c' :=
      fun c' hc' => ⟨hm.2.2.2.2.1 c' hc', fun x hx => hdig x (hsubd c' hc' x hx)⟩
    refine ⟨?_, ?_, hm.2.1, hQinC, child, hci, mfi_rootFlag_false d child (hQinC child hmem).1, ?_, ?_⟩
    · intro hd hhd
      rw [hm.2.1] at hhd
      obtain ⟨c', hc', rfl⟩ := List.mem_map.mp hhd
      rw [hm.2.2.2.2.2.2.1 c' hc']
      exact mfi_headD_lt _ (hQinC c' hc').2
    · have hsz : m.hdr.size = 12 + 18 * m.children.length := hm.2.2.1
      have hl : m.childHdrs.length = m.children.length := by rw [hm.2.1, List.length_map]
      have hb := map_legal_bounds hT
      rw [hl]
      rw [map_maxThr_eq] at hle
      omega
    · exact mfi_path hT hc hk hv hhk P d false child c (hQinC child hmem).1 (hQinC child hmem).2
        (by rw [hm.2.2.2.2.2.1 child hmem]; exact haddr) (mfi_inl_false d child (hQinC child hmem).1)
        (fun sl hsl => hP sl (List.mem_flatMap.mpr ⟨child, hmem, hsl⟩))
    · intro ks old child' c1 hq
      exact (mfi_set_MQ hT hc hk hv hhk d child child' ks old c c1 (hQinC child hmem) hq).size_lt hT

/-- `hQRset`: the handle after the tree-level `set` satisfies the loose root invariant -/
theorem mfi_QRset (hT : legalThreshold T = true) (hc : CfgFor cfg T (r + 1)) {k : MKey} (hk : KeyOk T (r + 1) D k)
    {v : Elem} (hv : ValueOkM v) (hhk : k.dig 0 < 2^64) (m : OMap r) (hinv : MapInv T D m)
    (hdig : ∀ x ∈ MTree.digests0 m.d m.root, x < 2^64) (c : Ctx) (ks : MKey) (old : Option Elem) (root' : MTree r m.d)
    (c1 : Ctx) (hq : MTree.set cfg m.d m.root k v c = .ok (ks, old, root', c1)) :
    MQR T D ({ m with root := root', count := if old.isNone then m.count + 1 else m.count } : OMap r) := by
  obtain ⟨d, root, ty, cnt, seed⟩ := m
  obtain ⟨h1, h2⟩ := MTree.set_spec hT hc hk hv d true root c hinv.tree
  by_cases hl : TLimited cfg d root k
  · have hq' : MTree.set cfg d root k v c = .ok (ks, old, root', c1) := hq
    rw [h1 hl] at hq'; cases hq'
  · obtain ⟨old', t'', c'', heq, hp⟩ := h2 hl
    have hq' : MTree.set cfg d root k v c = .ok (ks, old, root', c1) := hq
    rw [heq] at hq'
    cases hq'
    refine ⟨hp.sinv, ?_, ?_, fun x hx => ?_⟩
    · show treeInl d root' = false
      rw [hp.inl, ← isInlined_eq d root ty cnt seed]; exact hinv.standalone
    · show (MTree.hdr d root').size ≤ maxThr T + slack T d
      have := hp.size_le; have := slack1_le T d; have := MTreeInv.le_max d true root hinv.tree; omega
    · rcases hp.digs x hx with h' | h'
      · exact hdig x h'
      · rw [h']; exact hhk

/-- `hszR`: the size of the (possibly promoted) root fits `uint32` -/
theorem mfi_promote_size_lt (hT : legalThreshold T = true) (m1 : OMap r) (c : Ctx) (h : MQR T D m1) :
    (MTree.hdr _ (m1.promoteIfSingleChild c).1.root).size < 2^32 := by
  obtain ⟨d, root, ty, cnt, seed⟩ := m1
  cases d with
  | zero => exact Nat.lt_of_le_of_lt h.2.2.1 (mfi_bound hT 0)
  | succ d =>
    have hs : SInv T D (d + 1) true root := h.1
    obtain ⟨hml, hlen⟩ := hs
    have hh : MMetaSlab.childHdrs root = (MMetaSlab.children root).map (MTree.hdr d) := hml.2.1
    rcases hc : MMetaSlab.children root with _ | ⟨a, _ | ⟨b, rest⟩⟩
    · rw [hc] at hlen; simp at hlen
    · have hh1 : MMetaSlab.childHdrs root = [MTree.hdr d a] := by rw [hh, hc]; rfl
      rw [promote_eq d root ty cnt seed c hh1 hc]
      have ha : MTreeInv T D d false a := hml.2.2.2.2.1 a (by rw [hc]; exact List.mem_cons_self)
      have hle := MTreeInv.le_max d false a ha
      have hb := mfi_bound hT d
      cases d with
      | zero =>
        show (MDataSlab.hdr a).size - Gen.mapDataSlabPrefixSize + Gen.mapRootDataSlabPrefixSize < 2^32
        have hle' : (MDataSlab.hdr a).size ≤ maxThr T := hle
        simp only [Gen.mapDataSlabPrefixSize, Gen.mapRootDataSlabPrefixSize]
        omega
      | succ d =>
        show (MMetaSlab.hdr a).size < 2^32
        have hle' : (MMetaSlab.hdr a).size ≤ maxThr T := hle
        omega
    · rw [promote_id d root ty cnt seed c hh (by rw [hc]; simp)]
      exact Nat.lt_of_le_of_lt h.2.2.1 (mfi_bound hT (d + 1))

theorem mfi_rootFlag_true : ∀ (d : Nat) (t : MTree r d), MTreeInv T D d true t → mds_rootFlag d t = true
  | 0, _, h => ((mtreeInv_zero_iff T D _ _).mp h).root_eq
  | _ + 1, _, h => ((mtreeInv_succ_iff T D _ _ _).mp h).1.1

theorem mfi_inl_root (m : OMap r) (h : m.isInlined = false) : treeInl m.d m.root = false := by
  obtain ⟨d, root, ty, cnt, seed⟩ := m
  rw [← isInlined_eq d root ty cnt seed]; exact h

theorem mfi_root_id_mem (d : Nat) (t : MTree r d) : (MTree.hdr d t).id ∈ md_ids d t := by
  cases d with
  | zero => exact List.mem_singleton.mpr rfl
  | succ d => exact List.mem_cons_self

end

/-! ### Part D: the final assembly for `Set` -/

/-- **`OrderedMap.Set` OVER THE HEAP, WITH THE GENERATED RESTRUCTURING CODE (`rsOf cfg.T`)**: given ONLY the three tail
    facts about `rsOf` (`hS`, `hM`, `hR`), for a map satisfying `MapInv` whose tree the heap holds, the generated
    `OrderedMap.set` returns `(old value, nil, md_map m' s')` for the model's `OMap.set cfg m k v s.ctx = .ok (old, m', c')`
    with `s'.ctx = c'`, the handle invariant over the heap re-established (`mds_RootPreR (MQR ..)`) and the heap changed as
    `mds_Delta` says; a model error comes back as that error value.
    Remaining hypotheses: the element layer (`ElemsSpec`, `P` of the leaves), the `uint64` range of the digests
    (the model's digests are unbounded naturals), and the heap / identifier facts (`MHolds`, `Nodup`, owner address,
    `mds_FreshFree`). -/
theorem Ob_OrderedMap_Set_heap_full_of_three (cfg : MCfg) (D : DigestFn (r + 1)) (k : MKey) (v : Elem)
    (P : DG r → Prop) (eb : DEnvB r)
    (hLT : legalThreshold cfg.T = true) (hL : cfg.L = r + 1) (hk : KeyOk cfg.T (r + 1) D k) (hv : ValueOkM v)
    (hhk : k.dig 0 < 2^64) (hE : ElemsSpec cfg k v P eb)
    (hS : MSplitTail cfg.T (rsOf (r := r) cfg.T) (MQ cfg.T D)) (hM : MMorTail cfg.T (rsOf (r := r) cfg.T) (MQ cfg.T D))
    (hR : MRootTailR cfg.T (rsOf (r := r) cfg.T) (MQR cfg.T D))
    (m : OMap r) (hinv : MapInv cfg.T D m) (hdig : ∀ x ∈ MTree.digests0 m.d m.root, x < 2^64)
    (hPl : ∀ sl ∈ MTree.leaves m.d m.root, P sl.elems)
    (s : MHSt r) (x0 : Option DX) (depth : Nat) (hd : m.d ≤ depth)
    (hheld : MHolds s.heap m.d m.root x0) (hnd : (md_ids m.d m.root).Nodup)
    (haddr : ∀ id ∈ md_ids m.d m.root, id.addr = cfg.addr) (hff : mds_FreshFree cfg.addr s) :
    match OMap.set cfg m k v s.ctx with
    | .ok (old, m', c') =>
      ∃ s' x', OrderedMap_set (envD cfg.T eb (rsOf cfg.T)) depth (md_map m s) (.key k) (.val v) =
          some (old.map .val, none, md_map m' s') ∧
        s'.ctx = c' ∧ s'.popped = s.popped ∧ mds_RootPreR (MQR cfg.T D) cfg.addr s' m' x' ∧
        mds_Delta s.heap s'.heap (md_ids m.d m.root) (md_ids m'.d m'.root)
    | .error e =>
      ∃ M', OrderedMap_set (envD cfg.T eb (rsOf cfg.T)) depth (md_map m s) (.key k) (.val v) = some (none, some e, M') := by
  have hc : CfgFor cfg cfg.T (r + 1) := ⟨rfl, hL⟩
  have hb := map_legal_bounds hLT
  have hT1 : maxThr cfg.T < 2^32 := by rw [map_maxThr_eq]; omega
  have hT2 : minThr cfg.T < 2^32 := by simp only [minThr]; omega
  exact Ob_OrderedMap_set_heap_of_tails' eb (rsOf cfg.T) (MQ cfg.T D) (MQR cfg.T D) (mfi_Qin cfg.T D) cfg k v P
    (mfi_L cfg.T D) hE hS hM hR (mfi_Qin_MQ hLT) (mfi_set_MQ hLT hc hk hv hhk) mfi_QRhdrs
    (fun sl c ks old sl' c' hl hq => mfi_mono hLT hc hk hv sl c ks old sl' c' hl hq) hT1 hT2 hhk m s x0 depth hd hheld
    hnd haddr hff (mfi_rootFlag_true m.d m.root hinv.tree)
    (mfi_path hLT hc hk hv hhk P m.d true m.root s.ctx hinv.tree hdig
      (haddr _ (mfi_root_id_mem m.d m.root)) (mfi_inl_root m hinv.standalone) hPl)
    (fun ks old root' c1 hq => mfi_QRset hLT hc hk hv hhk m hinv hdig s.ctx ks old root' c1 hq)
    (fun ks old root' c1 hq => mfi_promote_size_lt hLT _ c1 (mfi_QRset hLT hc hk hv hhk m hinv hdig s.ctx ks old root' c1 hq))

/-- the same with the CLOSED element layer `clEnvB cfg retr (r + 1)` (`clEnvB_elemsSpec`): no `ElemsSpec` hypothesis; the
    leaves satisfy `mcl_PLeaf` (element invariant - which `MapInv` gives -, `uint` ranges of the closed theorems, the
    storage returns the slabs of the external groups) -/
theorem Ob_OrderedMap_Set_heap_full_of_three_closed (cfg : MCfg) (D : DigestFn (r + 1)) (k : MKey) (v : Elem)
    (retr : mcl_Retrs DX)
    (hLT : legalThreshold cfg.T = true) (hL : cfg.L = r + 1) (hL64 : cfg.L < 2^64) (hT32 : cfg.T < 2^32)
    (hTe : maxInlineMapElem cfg.T < 2^32) (hcl : cfg.climit < 2^32) (hkd : ∀ lvl, k.dig lvl < 2^64)
    (hk : KeyOk cfg.T (r + 1) D k) (hv : ValueOkM v)
    (hS : MSplitTail cfg.T (rsOf (r := r) cfg.T) (MQ cfg.T D)) (hM : MMorTail cfg.T (rsOf (r := r) cfg.T) (MQ cfg.T D))
    (hR : MRootTailR cfg.T (rsOf (r := r) cfg.T) (MQR cfg.T D))
    (m : OMap r) (hinv : MapInv cfg.T D m) (hdig : ∀ x ∈ MTree.digests0 m.d m.root, x < 2^64)
    (hPl : ∀ sl ∈ MTree.leaves m.d m.root, mcl_PLeaf cfg k v retr D sl.elems)
    (s : MHSt r) (x0 : Option DX) (depth : Nat) (hd : m.d ≤ depth)
    (hheld : MHolds s.heap m.d m.root x0) (hnd : (md_ids m.d m.root).Nodup)
    (haddr : ∀ id ∈ md_ids m.d m.root, id.addr = cfg.addr) (hff : mds_FreshFree cfg.addr s) :
    match OMap.set cfg m k v s.ctx with
    | .ok (old, m', c') =>
      ∃ s' x', OrderedMap_set (envD cfg.T (clEnvB cfg retr (r + 1)) (rsOf cfg.T)) depth (md_map m s) (.key k) (.val v) =
          some (old.map .val, none, md_map m' s') ∧
        s'.ctx = c' ∧ s'.popped = s.popped ∧ mds_RootPreR (MQR cfg.T D) cfg.addr s' m' x' ∧
        mds_Delta s.heap s'.heap (md_ids m.d m.root) (md_ids m'.d m'.root)
    | .error e =>
      ∃ M', OrderedMap_set (envD cfg.T (clEnvB cfg retr (r + 1)) (rsOf cfg.T)) depth (md_map m s) (.key k) (.val v) =
        some (none, some e, M') :=
  Ob_OrderedMap_Set_heap_full_of_three cfg D k v (mcl_PLeaf cfg k v retr D) (clEnvB cfg retr (r + 1)) hLT hL hk hv (hkd 0)
    (clEnvB_elemsSpec cfg k v retr D hL hL64 hT32 hTe hcl hkd hLT) hS hM hR m hinv hdig hPl s x0 depth hd hheld hnd haddr hff

end

end Atree.TransEq
