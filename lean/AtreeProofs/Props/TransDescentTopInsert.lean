import AtreeProofs.Props.TransDescentInsert
import AtreeProofs.Props.TransDescentSplit
import AtreeProofs.Props.TransDescentRoute
import AtreeProofs.Array.Top
import AtreeProofs.Props.TransDescentExDefs
/-
  TRANSLATION EQUIVALENCE, the DESCENT (WP12): `Array.Insert` and `Array.Append` at the TOP LEVEL over the heap
  environment `envH T` (Trans/Descent.lean).  The nesting machinery (`incrementIndexFrom`, `notifyParentIfNeeded`,
  `setCallbackWithChild`) is the identity in `envH`, so the join point `Array_Insert.k1` returns `(nil, a)` (`arrIns_k1`).

  1. `arrIns_max` (the count check: `Count() == maxArrayElementCount`), `arrIns_descent` (`Array.Insert` in terms of the
     result of `ArraySlab.Insert` on the root: error / root full -> `splitRoot` / plain).
  2. heaps: `TopInsBelow`, `topIns_split_struct` (what `ATree.split` does to identifiers and to the slabs below the root),
     `splitRoot_heapPost` (the three stores of `splitRoot` after a descent whose heap condition is `HeapPost h0 h1 t t'`
     give `HeapPost h0 h2 t newRoot`: the old root identifier is re-used by the new index root, the left half gets the
     identifier allocated by `splitRoot`, the right half the one allocated by `Split`; the slabs below `t'` are untouched).
  3. `Sl_Array_splitRoot_heap_full`: `splitRoot` on the handle whose root became full (its `SplitAgreesH` hypothesis
     discharged from the shape of the re-labelled old root: `topIns_splitAgreesH`).
  4. `Sl_Array_Insert_heap` (MAIN; the tail hypothesis `InsTailHyp` of the descent is carried), `_inv` (under `ArrInv`),
     `_noSplit` (`InsNoSplit`), `_room` (`InsRoom`: unconditional).
  5. `Sl_Array_Append_eq_Insert`, `Sl_Array_Append_heap`, `_ok`, `_room`.
  6. non-vacuity: a root split at depth 0 (`exD`), an append at depth 1 (`exA`) - instances of the theorems.
  With `insSplitTail_all` (Props/TransDescentInsertFull.lean, not imported here) the tail hypothesis is
  `Or.inl (fun d' _ => insSplitTail_all T hT d')`.
  Core Lean only.
-/
set_option linter.unusedSimpArgs false
set_option linter.unusedVariables false
namespace Atree.TransEq
open Atree Atree.Gen

theorem arrIns_k1 (T : Nat) (g : HArray) (i : UInt64) (v : Option Elem) (err : Option AErr) :
    TransSl.Array_Insert.k1 (envH T) g i v err = some (none, g) := rfl

theorem arrIns_maxE : UInt64.ofNat Gen.maxArrayElementCount = u64 Gen.maxArrayElementCount := rfl

/-- `Array.Insert` up to the end of the descent -/
theorem arrIns_max (T : Nat) (a : Arr) (s : HSt) (depth : Nat) (i : UInt64) (v : Option Elem)
    (hmax : a.count = maxArrayElementCount) :
    TransSl.Array_Insert (envH T) depth (trArrH a s) i v = some (some .maxElementCount, trArrH a s) := by
  have hc : a.count < 2^32 := by rw [hmax]; decide
  simp only [TransSl.Array_Insert, Sl_Array_Count_heap_u64 T a s hc, hmax, arrIns_maxE, decide_true, if_true,
    envH_maxCount]

theorem arrIns_descent (T : Nat) (a : Arr) (s : HSt) (depth : Nat) (i : UInt64) (v : Option Elem)
    (hc : a.count < 2^32) (hne : a.count ≠ maxArrayElementCount)
    (r : Option AErr × GSlab × HSt)
    (hgen : TransSl.ArraySlab_Insert (envH T) (TransSl.ArrayMetaDataSlab_Insert (envH T) depth) (trTree a.d a.root) s
      a.addr i v = some r) :
    TransSl.Array_Insert (envH T) depth (trArrH a s) i v =
      if r.1.isSome then some (r.1, ({ Storage := r.2.2, root := some r.2.1 } : HArray))
      else if TransSl.ArraySlab_IsFull (envH T) r.2.1 then
        match TransSl.Array_splitRoot (envH T) ({ Storage := r.2.2, root := some r.2.1 } : HArray) with
        | some r6 => if r6.1.isSome then some (r6.1, r6.2) else some (none, r6.2)
        | none => none
      else some (none, ({ Storage := r.2.2, root := some r.2.1 } : HArray)) := by
  have hd : decide (u64 a.count = u64 maxArrayElementCount) = false := by
    rw [ins_u64_deq (by omega) (by decide)]; simp [hne]
  simp only [TransSl.Array_Insert, Sl_Array_Count_heap_u64 T a s hc, arrIns_maxE, hd, Bool.false_eq_true, if_false,
    trArrH_root, Sl_Array_Address_heap, trArrH_Storage, hgen, arrIns_k1]
  by_cases h1 : r.1.isSome = true
  · simp only [h1, if_true]
  · simp only [h1, Bool.false_eq_true, if_false]
    by_cases h2 : TransSl.ArraySlab_IsFull (envH T) r.2.1 = true
    · simp only [h2, if_true]
      cases TransSl.Array_splitRoot (envH T) ({ Storage := r.2.2, root := some r.2.1 } : HArray) <;> rfl
    · simp only [h2, Bool.false_eq_true, if_false]

/-! ## heaps -/
section heapTop
open ATree MetaSlab

/-- the heap holds every slab strictly below the root of `t` -/
def TopInsBelow (h : SlabID → Option GSlab) : (d : Nat) → ATree d → Prop
  | 0, _ => True
  | d + 1, (m : MetaSlab (ATree d)) => ∀ c ∈ m.children, Holds h d c

theorem holds_iff_topInsBelow (h : SlabID → Option GSlab) : ∀ (d : Nat) (t : ATree d),
    Holds h d t ↔ h (hdr d t).id = some (trTree d t) ∧ TopInsBelow h d t
  | 0, t => ⟨fun h => ⟨h, trivial⟩, fun h => h.1⟩
  | d + 1, t => Iff.rfl

theorem topIns_slabIds_eq_cons : ∀ (d : Nat) (t : ATree d), slabIds d t = (hdr d t).id :: (slabIds d t).tail
  | 0, _ => rfl
  | _ + 1, _ => rfl

theorem TopInsBelow.congr {h h' : SlabID → Option GSlab} : ∀ {d : Nat} {t : ATree d}, TopInsBelow h d t →
    (∀ id ∈ (slabIds d t).tail, h' id = h id) → TopInsBelow h' d t
  | 0, _, _, _ => trivial
  | d + 1, t, hb, heq => by
    intro c hc
    refine (hb c hc).congr (fun id hid => heq id ?_)
    show id ∈ (t : MetaSlab (ATree d)).children.flatMap (slabIds d)
    exact List.mem_flatMap.2 ⟨c, hc, hid⟩

/-- what `ATree.split` does to identifiers and to the slabs below the root -/
theorem topIns_split_struct : ∀ (d : Nat) (old l r : ATree d) (c c' : Ctx), ATree.split d old c = .ok (l, r, c') →
    (hdr d l).id = (hdr d old).id ∧ (hdr d r).id = ⟨(hdr d old).id.addr, c.ctr + 1⟩ ∧
    (slabIds d l).tail ++ (slabIds d r).tail = (slabIds d old).tail ∧
    ∀ h, TopInsBelow h d old → TopInsBelow h d l ∧ TopInsBelow h d r
  | 0, old, l, r, c, c', hsp => by
    have hsp : DataSlab.split (old : DataSlab) c = .ok (l, r, c') := hsp
    unfold DataSlab.split at hsp
    split at hsp
    · cases hsp
    · simp only [Except.ok.injEq, Prod.mk.injEq] at hsp
      obtain ⟨rfl, rfl, rfl⟩ := hsp
      exact ⟨rfl, rfl, rfl, fun _ _ => ⟨trivial, trivial⟩⟩
  | d + 1, old, l, r, c, c', hsp => by
    have hsp : MetaSlab.split (old : MetaSlab (ATree d)) c = .ok (l, r, c') := hsp
    unfold MetaSlab.split at hsp
    split at hsp
    · cases hsp
    · simp only [Except.ok.injEq, Prod.mk.injEq] at hsp
      obtain ⟨rfl, rfl, rfl⟩ := hsp
      refine ⟨rfl, rfl, ?_, fun h hb => ⟨fun c hc => hb c (List.mem_of_mem_take hc),
        fun c hc => hb c (List.mem_of_mem_drop hc)⟩⟩
      show List.flatMap (slabIds d) (List.take _ _) ++ List.flatMap (slabIds d) (List.drop _ _) = _
      rw [← List.flatMap_append, List.take_append_drop]
      rfl

/-- the heap condition of `splitRoot` composed with that of the descent -/
theorem splitRoot_heapPost {d0 d : Nat} (t : ATree d0) (t' l r : ATree d) (new : MetaSlab (ATree d))
    (h0 h1 h2 : SlabID → Option GSlab) (ctr addr : Nat)
    (hnew_id : new.hdr.id = (hdr d t').id) (hnew_ch : new.children = [l, r])
    (hlid : (hdr d l).id = ⟨addr, ctr + 1⟩) (hrid : (hdr d r).id = ⟨addr, ctr + 2⟩)
    (htail : (slabIds d l).tail ++ (slabIds d r).tail = (slabIds d t').tail)
    (hbelow : ∀ h, TopInsBelow h d t' → TopInsBelow h d l ∧ TopInsBelow h d r)
    (hids : IdsOk addr ctr (slabIds d t'))
    (hh2 : ∀ id, h2 id = if id = (hdr d t').id then some (.metaSlab (trMeta new))
      else if id = (hdr d r).id then some (trTree d r) else if id = (hdr d l).id then some (trTree d l) else h1 id)
    (hP : HeapPost h0 h1 t t') : HeapPost h0 h2 t (ofMeta new) := by
  have hroot := hids.2 _ (hdr_id_mem_slabIds d t')
  have hnd := hids.1
  rw [topIns_slabIds_eq_cons d t'] at hnd
  have hnd1 := (List.nodup_cons.1 hnd).1
  have htl : ∀ id ∈ (slabIds d t').tail, id ≠ (hdr d t').id ∧ id ≠ (hdr d l).id ∧ id ≠ (hdr d r).id := by
    intro id hid
    have h1 := (hids.2 id (List.mem_of_mem_tail hid)).2.2
    refine ⟨fun e => hnd1 (e ▸ hid), fun e => ?_, fun e => ?_⟩
    · rw [e, hlid] at h1; simp only at h1; omega
    · rw [e, hrid] at h1; simp only at h1; omega
  have hlr : (hdr d l).id ≠ (hdr d t').id ∧ (hdr d l).id ≠ (hdr d r).id ∧ (hdr d r).id ≠ (hdr d t').id := by
    have h1 := hroot.2.2
    refine ⟨fun e => ?_, fun e => ?_, fun e => ?_⟩
    · rw [← e, hlid] at h1; simp only at h1; omega
    · rw [hlid, hrid] at e; simp only [SlabID.mk.injEq] at e; omega
    · rw [← e, hrid] at h1; simp only at h1; omega
  have hmem_new : ∀ id, id ∈ slabIds (d + 1) (ofMeta new) ↔
      id = (hdr d t').id ∨ id = (hdr d l).id ∨ id = (hdr d r).id ∨ id ∈ (slabIds d t').tail := by
    intro id
    rw [slabIds_succ, hnew_ch, hnew_id, ← htail]
    simp only [List.flatMap_cons, List.flatMap_nil, List.append_nil, List.mem_cons, List.mem_append]
    rw [topIns_slabIds_eq_cons d l, topIns_slabIds_eq_cons d r]
    simp only [List.mem_cons, List.tail_cons]
    constructor
    · rintro (h | (h | h) | (h | h))
      · exact Or.inl h
      · exact Or.inr (Or.inl h)
      · exact Or.inr (Or.inr (Or.inr (Or.inl h)))
      · exact Or.inr (Or.inr (Or.inl h))
      · exact Or.inr (Or.inr (Or.inr (Or.inr h)))
    · rintro (h | h | h | h | h)
      · exact Or.inl h
      · exact Or.inr (Or.inl (Or.inl h))
      · exact Or.inr (Or.inr (Or.inl h))
      · exact Or.inr (Or.inl (Or.inr h))
      · exact Or.inr (Or.inr (Or.inr h))
  have hmem_t' : ∀ id, id ∈ slabIds d t' → id ∈ slabIds (d + 1) (ofMeta new) := by
    intro id hid
    rw [hmem_new]
    rw [topIns_slabIds_eq_cons d t'] at hid
    rcases List.mem_cons.1 hid with h | h
    · exact Or.inl h
    · exact Or.inr (Or.inr (Or.inr h))
  have hout : ∀ id, id ∉ slabIds (d + 1) (ofMeta new) → h2 id = h1 id := by
    intro id hid
    rw [hmem_new] at hid
    simp only [not_or] at hid
    rw [hh2]; simp [hid.1, hid.2.1, hid.2.2.1]
  have hb1 : TopInsBelow h1 d t' := ((holds_iff_topInsBelow h1 d t').1 hP.holds).2
  have hb2 : TopInsBelow h2 d t' := hb1.congr (fun id hid => by
    obtain ⟨a, b, c⟩ := htl id hid
    rw [hh2]; simp [a, b, c])
  obtain ⟨hbl, hbr⟩ := hbelow h2 hb2
  refine ⟨⟨?_, ?_⟩, ?_, ?_⟩
  · show h2 new.hdr.id = some (.metaSlab (trMeta new))
    rw [hh2, hnew_id]; simp
  · intro c hc
    have hc : c ∈ new.children := hc
    rw [hnew_ch] at hc
    simp only [List.mem_cons, List.not_mem_nil, or_false] at hc
    rcases hc with rfl | rfl
    · refine (holds_iff_topInsBelow h2 d c).2 ⟨?_, hbl⟩
      rw [hh2]; simp [hlr.1, hlr.2.1]
    · refine (holds_iff_topInsBelow h2 d c).2 ⟨?_, hbr⟩
      rw [hh2]; simp [hlr.2.2]
  · intro id hid hn
    rw [hout id hn]
    exact hP.gone id hid (fun h => hn (hmem_t' id h))
  · intro id hid hn
    rw [hout id hn]
    exact hP.frame id hid (fun h => hn (hmem_t' id h))

end heapTop

/-! ## the root split after the descent -/
section rootSplit
open ATree MetaSlab

/-- the dispatched `Split` over the heap agrees with the model on the re-labelled old root (a valid shape, at most one
    element and the 16 bytes of the prefix change over the band) -/
theorem topIns_splitAgreesH (T : Nat) (hT : legalThreshold T = true) : ∀ (d : Nat) (t : ATree d) (s : HSt),
    Shape T d false t → (hdr d t).size ≤ maxThr T + maxInlineArr T + 16 → SplitAgreesH T d t s
  | 0, t, s => by
    refine forall_ofData ?_ t
    intro t hs hsz
    have hs := (shape_zero T false t).1 hs
    have F := thrFacts hT
    refine SplitAgreesH_data_safe T t s hT ⟨hs.count_eq, hs.size_eq, fun e he => (hs.elems_ok e he).1,
      ⟨hs.root_eq, hs.not_inl⟩, ?_⟩
    have : t.hdr.size ≤ maxThr T + maxInlineArr T + 16 := hsz
    have := F.lo; rw [F.maxE, F.inlE] at *
    omega
  | d + 1, t, s => by
    refine forall_ofMeta ?_ t
    intro m hs _
    have hs := (shape_succ T d false m).1 hs
    have F := thrFacts hT
    have hlen : m.childHdrs.length = m.children.length := by rw [hs.hdrs_eq]; simp
    refine SplitAgreesH_meta T m s ?_ ?_ ?_
    · rw [hs.sums_eq, MetaSlab.prefixSums_length]; omega
    · rw [hs.size_eq, hlen, F.hsz]; omega
    · rw [hs.count_eq]; exact sumCounts_take_le _ _

theorem topIns_old_eq (d : Nat) (t : ATree d) (ty : Nat) (c : Ctx) :
    splitRootOld ⟨d, t, ty⟩ c = setId d (setRoot d (adjSplit d t) false) ⟨(hdr d t).id.addr, c.ctr + 1⟩ ∧
    splitRootCtx ⟨d, t, ty⟩ c = (c.alloc (hdr d t).id.addr).2 ∧
    (hdr d (splitRoot0 ⟨d, t, ty⟩)).id = (hdr d t).id := by
  cases d with
  | zero => exact ⟨rfl, rfl, rfl⟩
  | succ d => exact ⟨rfl, rfl, rfl⟩

theorem topIns_isRoot {T : Nat} : ∀ (d : Nat) (t : ATree d), Shape T d true t → isRoot d t = true
  | 0, t, h => by
    revert h; refine forall_ofData ?_ t; intro s h
    exact ((shape_zero T true s).1 h).root_eq
  | d + 1, t, h => by
    revert h; refine forall_ofMeta ?_ t; intro m h
    exact ((shape_succ T d true m).1 h).root_eq

/-- **`Array.splitRoot` after the descent**: on the handle whose root `t'` became full, over the storage `s1` that
    holds it: the generated `splitRoot` returns the model's handle, the `Ctx` is the model's, and the heap condition of
    the descent extends to the new index root -/
theorem Sl_Array_splitRoot_heap_full (T : Nat) (hT : legalThreshold T = true) (d : Nat) (t' : ATree d) (ty : Nat)
    (s1 : HSt) (addr : Nat) (hs : Shape T d true t') (hlo : maxThr T < (hdr d t').size)
    (hhi : (hdr d t').size ≤ maxThr T + maxInlineArr T) (hids : IdsOk addr s1.ctx.ctr (slabIds d t')) :
    ∃ (new : MetaSlab (ATree d)) (s' : HSt),
      Arr.splitRoot ⟨d, t', ty⟩ s1.ctx = .ok (⟨d + 1, ofMeta new, ty⟩, s'.ctx) ∧
      TransSl.Array_splitRoot (envH T) (trArrH ⟨d, t', ty⟩ s1) = some (none, trArrH ⟨d + 1, ofMeta new, ty⟩ s') ∧
      ∀ {d0 : Nat} (t : ATree d0) (h0 : SlabID → Option GSlab), HeapPost h0 s1.heap t t' →
        HeapPost h0 s'.heap t (ofMeta new) := by
  have F := thrFacts hT
  obtain ⟨e1, e2, e3⟩ := topIns_old_eq d t' ty s1.ctx
  have ho := oldRoot_spec hT d t' ⟨(hdr d t').id.addr, s1.ctx.ctr + 1⟩ s1.ctx.ctr hs rfl
  obtain ⟨l, r, c2, hsp, hc2, hl, hr, hflat, hlid, hcounts, hrepl⟩ :=
    split_ok hT d _ (s1.ctx.alloc (hdr d t').id.addr).2 ho.shape (by have := ho.size_ge; omega)
      (by have := ho.size_le; omega)
  rw [← e1, ← e2] at hsp
  have hagree : SplitAgreesH T d (splitRootOld ⟨d, t', ty⟩ s1.ctx) (s1.withCtx (splitRootCtx ⟨d, t', ty⟩ s1.ctx)) := by
    rw [e1]
    exact topIns_splitAgreesH T hT d _ _ ho.shape (by have := ho.size_le; omega)
  have hgen := Sl_Array_splitRoot_heap T ⟨d, t', ty⟩ s1 (topIns_isRoot d t' hs)
    (fun _ => by have := F.rpfx; have := F.lo; have := F.maxE; show arrayRootDataSlabPrefixSize ≤ (hdr d t').size; omega)
    hagree
  have hmod := Sl_Array_splitRoot_heap_model ⟨d, t', ty⟩ s1
  rw [hsp] at hgen hmod
  refine ⟨splitRootNew ⟨d, t', ty⟩ l r, _, hmod, hgen, ?_⟩
  intro d0 t h0 hP
  obtain ⟨f1, f2, f3, f4⟩ := topIns_split_struct d _ l r _ c2 hsp
  have haddr : (hdr d t').id.addr = addr := (hids.2 _ (hdr_id_mem_slabIds d t')).1
  rw [e1, ho.id_eq] at f1 f2
  rw [e2] at f2
  rw [e1, ho.ids] at f3
  refine splitRoot_heapPost t t' l r _ h0 s1.heap _ s1.ctx.ctr addr e3 rfl (by rw [f1, haddr])
    (by rw [f2, haddr]; rfl) f3 ?_ hids ?_ hP
  · intro h hb
    refine f4 h ?_
    rw [e1]
    revert hb
    cases d with
    | zero => exact id
    | succ d => exact id
  · intro id
    simp only [HSt.store_heap, HSt.withCtx_heap, e3]
end rootSplit

/-! ## `Array.Insert` -/
section top
open ATree MetaSlab

theorem topIns_arr_insert_unfold (T : Nat) (a : Arr) (i : Nat) (v : Elem) (c : Ctx) (hne : a.count ≠ maxArrayElementCount) :
    a.insert T i v c =
      match ATree.insert T a.d a.root i v c with
      | .error e => .error e
      | .ok (t', c1) =>
        if ATree.isFull T a.d t' = true then Arr.splitRoot ⟨a.d, t', a.ty⟩ c1 else .ok (⟨a.d, t', a.ty⟩, c1) := by
  unfold Arr.insert
  rw [if_neg hne]
  cases ATree.insert T a.d a.root i v c with
  | error e => rfl
  | ok res => rfl

theorem Sl_Array_Insert_heap (T : Nat) (hT : legalThreshold T = true) (a : Arr) (i : Nat) (v : Elem) (s : HSt)
    (depth : Nat) (hd : a.d ≤ depth) (hinv : TreeInv T a.d true a.root) (hni : NotInl a.d a.root)
    (hids : IdsOk a.addr s.ctx.ctr (slabIds a.d a.root)) (hcnt : a.count < maxArrayElementCount + 1)
    (hv : ValueOk v) (hh : Holds s.heap a.d a.root) (hi : i < 2^64) (htl : InsTailHyp T a.d a.root i v s.ctx) :
    match a.insert T i v s.ctx with
    | .ok (a', c') => ∃ s', TransSl.Array_Insert (envH T) depth (trArrH a s) (u64 i) (some v) =
          some (none, trArrH a' s') ∧ s'.ctx = c' ∧ HeapPost s.heap s'.heap a.root a'.root
    | .error .indexOutOfBounds =>
        TransSl.Array_Insert (envH T) depth (trArrH a s) (u64 i) (some v) = some (some .indexOutOfBounds, trArrH a s)
    | .error .maxElementCount =>
        TransSl.Array_Insert (envH T) depth (trArrH a s) (u64 i) (some v) = some (some .maxElementCount, trArrH a s)
    | .error _ => True := by
  have F := thrFacts hT
  have ht := thresholds_fit hT
  by_cases hmax : a.count = maxArrayElementCount
  · have hm : a.insert T i v s.ctx = .error .maxElementCount := by unfold Arr.insert; rw [if_pos hmax]
    rw [hm]
    exact arrIns_max T a s depth (u64 i) (some v) hmax
  · have hc : a.count < 2^32 := by simp only [maxArrayElementCount] at hcnt; omega
    have hc1 : (hdr a.d a.root).count + 1 < 2^32 := by
      have : a.count + 1 < 2^32 := by simp only [maxArrayElementCount] at hcnt hmax; omega
      exact this
    have hD := Sl_ArraySlab_Insert_heap T hT a.d true a.root i v s depth a.addr hd hinv hni hv hids hh hc1 hi htl
    rw [topIns_arr_insert_unfold T a i v s.ctx hmax]
    by_cases hle : i ≤ (flatten a.d a.root).length
    · obtain ⟨t', c1, hins, hstep, _, _, hsz1, hsz2⟩ := insert_gen hT a.d a.root true i v s.ctx hinv hni hv hle
      rw [hins] at hD ⊢
      obtain ⟨s1, hg, hctx, hP⟩ := hD
      have hmaxsz := hinv.le_max
      have hszlt : (hdr a.d t').size < 2^32 := by
        have := F.hi; have := F.maxE; have := F.inlE; omega
      have hgen := arrIns_descent T a s depth (u64 i) (some v) hc hmax _ hg
      simp only [Option.isSome_none, Bool.false_eq_true, if_false, insH_IsFull T a.d t' hszlt ht.2.2.1] at hgen
      by_cases hfull : ATree.isFull T a.d t' = true
      · have hlo := (isFull_iff T a.d t').1 hfull
        have hids' : IdsOk a.addr s1.ctx.ctr (slabIds a.d t') := by
          rw [hctx]; exact repl_single_ids hstep.repl _ hids
        obtain ⟨new, s', hmod, hsr, hpost⟩ := Sl_Array_splitRoot_heap_full T hT a.d t' a.ty s1 a.addr hstep.shape hlo
          (by omega) hids'
        simp only [hfull, if_true]
        rw [← hctx, hmod]
        refine ⟨s', ?_, rfl, hpost a.root s.heap hP⟩
        rw [hgen]
        simp only [hfull, if_true]
        have : ({ Storage := s1, root := some (trTree a.d t') } : HArray) = trArrH ⟨a.d, t', a.ty⟩ s1 := rfl
        rw [this, hsr]
        rfl
      · simp only [hfull, Bool.false_eq_true, if_false]
        refine ⟨s1, ?_, hctx, hP⟩
        rw [hgen]
        simp only [hfull, Bool.false_eq_true, if_false]
        rfl
    · have hins := insert_err_gen (T := T) a.d a.root true i v s.ctx (hinv.shape hni) (by omega)
      rw [hins] at hD ⊢
      have hgen := arrIns_descent T a s depth (u64 i) (some v) hc hmax _ hD
      rw [hgen]
      rfl


/-- `Array.Insert` under the array invariant `ArrInv` -/
theorem Sl_Array_Insert_heap_inv (T : Nat) (hT : legalThreshold T = true) (a : Arr) (i : Nat) (v : Elem) (s : HSt)
    (depth : Nat) (hd : a.d ≤ depth) (hinv : ArrInv T a s.ctx.ctr) (hv : ValueOk v) (hh : Holds s.heap a.d a.root)
    (hi : i < 2^64) (htl : InsTailHyp T a.d a.root i v s.ctx) :
    match a.insert T i v s.ctx with
    | .ok (a', c') => ∃ s', TransSl.Array_Insert (envH T) depth (trArrH a s) (u64 i) (some v) =
          some (none, trArrH a' s') ∧ s'.ctx = c' ∧ HeapPost s.heap s'.heap a.root a'.root
    | .error .indexOutOfBounds =>
        TransSl.Array_Insert (envH T) depth (trArrH a s) (u64 i) (some v) = some (some .indexOutOfBounds, trArrH a s)
    | .error .maxElementCount =>
        TransSl.Array_Insert (envH T) depth (trArrH a s) (u64 i) (some v) = some (some .maxElementCount, trArrH a s)
    | .error _ => True :=
  Sl_Array_Insert_heap T hT a i v s depth hd hinv.tree
    (by obtain ⟨d, t, ty⟩ := a; exact hinv.notInl) hinv.ids hinv.count_lt hv hh hi htl

/-- no hypothesis about the tail: no child on the path of the insertion becomes full (`InsNoSplit`; the ROOT may
    become full and be split) -/
theorem Sl_Array_Insert_heap_noSplit (T : Nat) (hT : legalThreshold T = true) (a : Arr) (i : Nat) (v : Elem) (s : HSt)
    (depth : Nat) (hd : a.d ≤ depth) (hinv : ArrInv T a s.ctx.ctr) (hv : ValueOk v) (hh : Holds s.heap a.d a.root)
    (hi : i < 2^64) (hns : InsNoSplit T a.d a.root i v s.ctx) :
    match a.insert T i v s.ctx with
    | .ok (a', c') => ∃ s', TransSl.Array_Insert (envH T) depth (trArrH a s) (u64 i) (some v) =
          some (none, trArrH a' s') ∧ s'.ctx = c' ∧ HeapPost s.heap s'.heap a.root a'.root
    | .error .indexOutOfBounds =>
        TransSl.Array_Insert (envH T) depth (trArrH a s) (u64 i) (some v) = some (some .indexOutOfBounds, trArrH a s)
    | .error .maxElementCount =>
        TransSl.Array_Insert (envH T) depth (trArrH a s) (u64 i) (some v) = some (some .maxElementCount, trArrH a s)
    | .error _ => True :=
  Sl_Array_Insert_heap_inv T hT a i v s depth hd hinv hv hh hi (Or.inr hns)

/-- **unconditional**: every slab strictly below the root has room for one more element (`InsRoom`) -/
theorem Sl_Array_Insert_heap_room (T : Nat) (hT : legalThreshold T = true) (a : Arr) (i : Nat) (v : Elem) (s : HSt)
    (depth : Nat) (hd : a.d ≤ depth) (hinv : ArrInv T a s.ctx.ctr) (hv : ValueOk v) (hh : Holds s.heap a.d a.root)
    (hi : i < 2^64) (hroom : InsRoom T a.d a.root) :
    match a.insert T i v s.ctx with
    | .ok (a', c') => ∃ s', TransSl.Array_Insert (envH T) depth (trArrH a s) (u64 i) (some v) =
          some (none, trArrH a' s') ∧ s'.ctx = c' ∧ HeapPost s.heap s'.heap a.root a'.root
    | .error .indexOutOfBounds =>
        TransSl.Array_Insert (envH T) depth (trArrH a s) (u64 i) (some v) = some (some .indexOutOfBounds, trArrH a s)
    | .error .maxElementCount =>
        TransSl.Array_Insert (envH T) depth (trArrH a s) (u64 i) (some v) = some (some .maxElementCount, trArrH a s)
    | .error _ => True :=
  Sl_Array_Insert_heap_noSplit T hT a i v s depth hd hinv hv hh hi
    (InsNoSplit.of_room hT a.d a.root true i v s.ctx hinv.tree hv hroom)

/-! ## `Array.Append` -/

/-- `Array.Append(v)` is `Array.Insert(Count(), v)` -/
theorem Sl_Array_Append_eq_Insert (T : Nat) (a : Arr) (s : HSt) (depth : Nat) (v : Option Elem) (hc : a.count < 2^32) :
    TransSl.Array_Append (envH T) depth (trArrH a s) v =
      TransSl.Array_Insert (envH T) depth (trArrH a s) (u64 a.count) v := by
  simp only [TransSl.Array_Append, Sl_Array_Count_heap_u64 T a s hc]
  cases TransSl.Array_Insert (envH T) depth (trArrH a s) (u64 a.count) v <;> rfl

/-- **`Array.Append` over a heap** -/
theorem Sl_Array_Append_heap (T : Nat) (hT : legalThreshold T = true) (a : Arr) (v : Elem) (s : HSt)
    (depth : Nat) (hd : a.d ≤ depth) (hinv : TreeInv T a.d true a.root) (hni : NotInl a.d a.root)
    (hids : IdsOk a.addr s.ctx.ctr (slabIds a.d a.root)) (hcnt : a.count < maxArrayElementCount + 1)
    (hv : ValueOk v) (hh : Holds s.heap a.d a.root) (htl : InsTailHyp T a.d a.root a.count v s.ctx) :
    match a.append T v s.ctx with
    | .ok (a', c') => ∃ s', TransSl.Array_Append (envH T) depth (trArrH a s) (some v) =
          some (none, trArrH a' s') ∧ s'.ctx = c' ∧ HeapPost s.heap s'.heap a.root a'.root
    | .error .indexOutOfBounds =>
        TransSl.Array_Append (envH T) depth (trArrH a s) (some v) = some (some .indexOutOfBounds, trArrH a s)
    | .error .maxElementCount =>
        TransSl.Array_Append (envH T) depth (trArrH a s) (some v) = some (some .maxElementCount, trArrH a s)
    | .error _ => True := by
  have hc : a.count < 2^32 := by simp only [maxArrayElementCount] at hcnt; omega
  rw [Sl_Array_Append_eq_Insert T a s depth (some v) hc]
  exact Sl_Array_Insert_heap T hT a a.count v s depth hd hinv hni hids hcnt hv hh (by omega) htl

/-- the model's `append` on a valid array that is not at the element limit succeeds (the index is the count) -/
theorem Sl_Array_Append_heap_ok (T : Nat) (hT : legalThreshold T = true) (a : Arr) (v : Elem) (s : HSt)
    (depth : Nat) (hd : a.d ≤ depth) (hinv : ArrInv T a s.ctx.ctr) (hlt : a.count < maxArrayElementCount)
    (hv : ValueOk v) (hh : Holds s.heap a.d a.root) (htl : InsTailHyp T a.d a.root a.count v s.ctx) :
    ∃ a' c' s', a.append T v s.ctx = .ok (a', c') ∧
      TransSl.Array_Append (envH T) depth (trArrH a s) (some v) = some (none, trArrH a' s') ∧ s'.ctx = c' ∧
      HeapPost s.heap s'.heap a.root a'.root := by
  have hlen : a.count = a.toList.length := by
    obtain ⟨d, t, ty⟩ := a
    exact Shape.count_eq_length hinv.shape
  obtain ⟨a', c', hok, _⟩ := arr_insert_ok hT a s.ctx a.count v hv hinv hlt (by omega)
  have h := Sl_Array_Append_heap T hT a v s depth hd hinv.tree (by obtain ⟨d, t, ty⟩ := a; exact hinv.notInl)
    hinv.ids hinv.count_lt hv hh htl
  have hok' : a.append T v s.ctx = .ok (a', c') := hok
  rw [hok'] at h
  obtain ⟨s', h1, h2, h3⟩ := h
  exact ⟨a', c', s', hok', h1, h2, h3⟩

/-- `Array.Append`, unconditional: every slab strictly below the root has room for one more element -/
theorem Sl_Array_Append_heap_room (T : Nat) (hT : legalThreshold T = true) (a : Arr) (v : Elem) (s : HSt)
    (depth : Nat) (hd : a.d ≤ depth) (hinv : ArrInv T a s.ctx.ctr) (hlt : a.count < maxArrayElementCount)
    (hv : ValueOk v) (hh : Holds s.heap a.d a.root) (hroom : InsRoom T a.d a.root) :
    ∃ a' c' s', a.append T v s.ctx = .ok (a', c') ∧
      TransSl.Array_Append (envH T) depth (trArrH a s) (some v) = some (none, trArrH a' s') ∧ s'.ctx = c' ∧
      HeapPost s.heap s'.heap a.root a'.root :=
  Sl_Array_Append_heap_ok T hT a v s depth hd hinv hlt hv hh
    (Or.inr (InsNoSplit.of_room hT a.d a.root true a.count v s.ctx hinv.tree hv hroom))

end top

/-! ## non-vacuity -/
section exTop

theorem exTopIns_D_inv : TreeInv 256 0 true exD.root := by
  refine ⟨rfl, rfl, ?_, rfl, fun h => rfl, by decide, fun h => by cases h⟩
  intro e he
  have h : (exD.root : DataSlab).elems = [⟨100, .val 0⟩, ⟨100, .val 1⟩, ⟨100, .val 2⟩, ⟨60, .val 3⟩] := rfl
  rw [h] at he
  simp only [List.mem_cons, List.not_mem_nil, or_false] at he
  rcases he with rfl | rfl | rfl | rfl <;> exact ⟨by decide, by decide⟩

/-- the hypotheses of `Sl_Array_Insert_heap` are satisfiable on a ROOT SPLIT: the root data slab `exD` (365 bytes,
    T = 256) becomes full by a 100-byte element and is split (`splitRoot`, depth 0 -> 1); depth argument 0; no tail
    hypothesis is needed at depth 0 -/
example :
    match exD.insert 256 2 ⟨100, .val 99⟩ (exSt exD).ctx with
    | .ok (a', c') => ∃ s', TransSl.Array_Insert (envH 256) 0 (trArrH exD (exSt exD)) (u64 2) (some ⟨100, .val 99⟩) =
          some (none, trArrH a' s') ∧ s'.ctx = c' ∧ HeapPost (exSt exD).heap s'.heap exD.root a'.root
    | .error .indexOutOfBounds =>
        TransSl.Array_Insert (envH 256) 0 (trArrH exD (exSt exD)) (u64 2) (some ⟨100, .val 99⟩) =
          some (some .indexOutOfBounds, trArrH exD (exSt exD))
    | .error .maxElementCount =>
        TransSl.Array_Insert (envH 256) 0 (trArrH exD (exSt exD)) (u64 2) (some ⟨100, .val 99⟩) =
          some (some .maxElementCount, trArrH exD (exSt exD))
    | .error _ => True :=
  Sl_Array_Insert_heap 256 (by decide) exD 2 ⟨100, .val 99⟩ (exSt exD) 0 (Nat.le_refl _) exTopIns_D_inv rfl
    ⟨by decide, by
      intro id hid
      have h : ATree.slabIds exD.d exD.root = [⟨1, 1⟩] := rfl
      rw [h] at hid
      simp only [List.mem_cons, List.not_mem_nil, or_false] at hid
      subst hid; decide⟩
    (by decide) ⟨by decide, 99, rfl⟩ (Holds_heapOf 0 exD.root (by decide)) (by decide) (Or.inr trivial)

/-- … and the model takes the `.ok` branch with a root split (depth 1, three stores after two allocations) -/
example : (exD.insert 256 2 ⟨100, .val 99⟩ (exSt exD).ctx).toOption.map (fun r => (r.1.d, r.2.eff)) =
    some (1, [.store ⟨1, 1⟩, .alloc 1 ⟨1, 6⟩, .alloc 1 ⟨1, 7⟩, .store ⟨1, 6⟩, .store ⟨1, 7⟩, .store ⟨1, 1⟩]) := by rfl


theorem exTopIns_elemsOk (l : List Elem)
    (h : l.all (fun e => decide (1 ≤ e.size) && decide (e.size ≤ maxInlineArr 256)) = true) :
    ∀ e ∈ l, ElemOk 256 e := by
  intro e he
  have := List.all_eq_true.1 h e he
  simp only [Bool.and_eq_true, decide_eq_true_eq] at this
  exact this

theorem exTopIns_leafInv (id next base : Nat) (sizes : List Nat)
    (h1 : (exLeaf id next base sizes).elems.all
      (fun e => decide (1 ≤ e.size) && decide (e.size ≤ maxInlineArr 256)) = true)
    (h2 : (exLeaf id next base sizes).hdr.size = 21 + sumSizes (exLeaf id next base sizes).elems)
    (h3 : (exLeaf id next base sizes).hdr.size ≤ maxThr 256) (h4 : minThr 256 ≤ (exLeaf id next base sizes).hdr.size) :
    DataInv 256 false (exLeaf id next base sizes) :=
  ⟨by simp [exLeaf], h2, exTopIns_elemsOk _ h1, rfl, (fun h => by cases h), h3, fun _ => h4⟩

theorem exTopIns_A_kids (c : ATree 0) (hc : c ∈ (exA.root : MetaSlab (ATree 0)).children) :
    c = exLeaf 2 3 0 [60, 60, 60, 60] ∨ c = exLeaf 3 4 10 [60, 60] ∨ c = exLeaf 4 0 20 [60, 60] := by
  have h : (exA.root : MetaSlab (ATree 0)).children =
      [exLeaf 2 3 0 [60, 60, 60, 60], exLeaf 3 4 10 [60, 60], exLeaf 4 0 20 [60, 60]] := rfl
  rw [h] at hc
  rcases List.mem_cons.mp hc with h | hc
  · exact Or.inl h
  · rcases List.mem_cons.mp hc with h | hc
    · exact Or.inr (Or.inl h)
    · exact Or.inr (Or.inr (List.mem_singleton.mp hc))

theorem exTopIns_A_inv : TreeInv 256 1 true exA.root := by
  refine ⟨rfl, rfl, rfl, rfl, rfl, ?_, ?_, by decide, by simp, fun _ => by decide⟩
  · intro c hc
    rcases exTopIns_A_kids c hc with rfl | rfl | rfl
    · exact exTopIns_leafInv _ _ _ _ rfl rfl (by decide) (by decide)
    · exact exTopIns_leafInv _ _ _ _ rfl rfl (by decide) (by decide)
    · exact exTopIns_leafInv _ _ _ _ rfl rfl (by decide) (by decide)
  · intro c hc
    rcases exTopIns_A_kids c hc with rfl | rfl | rfl <;> rfl

/-- the hypotheses of `Sl_Array_Append_heap` are satisfiable at depth 1 with NO tail hypothesis: the three leaves of
    `exA` have room (`InsRoom`), the append goes to the last leaf -/
example :
    match exA.append 256 ⟨70, .val 99⟩ (exSt exA).ctx with
    | .ok (a', c') => ∃ s', TransSl.Array_Append (envH 256) 1 (trArrH exA (exSt exA)) (some ⟨70, .val 99⟩) =
          some (none, trArrH a' s') ∧ s'.ctx = c' ∧ HeapPost (exSt exA).heap s'.heap exA.root a'.root
    | .error .indexOutOfBounds =>
        TransSl.Array_Append (envH 256) 1 (trArrH exA (exSt exA)) (some ⟨70, .val 99⟩) =
          some (some .indexOutOfBounds, trArrH exA (exSt exA))
    | .error .maxElementCount =>
        TransSl.Array_Append (envH 256) 1 (trArrH exA (exSt exA)) (some ⟨70, .val 99⟩) =
          some (some .maxElementCount, trArrH exA (exSt exA))
    | .error _ => True :=
  Sl_Array_Append_heap 256 (by decide) exA ⟨70, .val 99⟩ (exSt exA) 1 (Nat.le_refl _) exTopIns_A_inv trivial
    ⟨by decide, by
      intro id hid
      have h : ATree.slabIds exA.d exA.root = [⟨1, 1⟩, ⟨1, 2⟩, ⟨1, 3⟩, ⟨1, 4⟩] := rfl
      rw [h] at hid
      simp only [List.mem_cons, List.not_mem_nil, or_false] at hid
      rcases hid with rfl | rfl | rfl | rfl <;> decide⟩
    (by decide) ⟨by decide, 99, rfl⟩ (Holds_heapOf 1 exA.root (by decide))
    (Or.inr (InsNoSplit.of_room (by decide) 1 exA.root true _ _ _ exTopIns_A_inv ⟨by decide, 99, rfl⟩
      (by intro c hc
          rcases exTopIns_A_kids c hc with rfl | rfl | rfl <;> exact ⟨by decide, trivial⟩)))

example : (exA.append 256 ⟨70, .val 99⟩ (exSt exA).ctx).toOption.map (fun r => (r.1.d, r.1.count, r.2.eff)) =
    some (1, 9, [.store ⟨1, 4⟩, .store ⟨1, 1⟩]) := by rfl

end exTop
end Atree.TransEq
