import AtreeProofs.Trans.Loops
/-
  TRANSLATION EQUIVALENCE, part 3: routing in map index slabs (the binary search of `getChildSlabByDigest`, `Set`,
  `Remove`) and the size arithmetic of `Split` / `LendToRight` / `BorrowFromRight` of the index slabs.
-/
namespace Atree.TransEq
open Atree Atree.Gen.Trans

/-! ## MapMetaDataSlab: routing of a digest to a child -/

/-- `getChildSlabByDigest`: the child index Go finds (int / uint arithmetic, `ans = -1` for "no child") is what the
    model's `findChild` finds; KeyNotFoundError in the same case. -/
theorem MapMetaDataSlab_getChildSlabByDigest_eq_model (hdrs : List MHdr) (hkey : Nat)
    (hfk : ∀ x ∈ firstKeysOf hdrs, x < 2^64) (hk : hkey < 2^64) (hlen : hdrs.length < 2^63) :
    MapMetaDataSlab_getChildSlabByDigest (u64s (firstKeysOf hdrs)) (u64 hkey) =
      (MMetaSlab.findChild hdrs hkey 0 hdrs.length none (hdrs.length + 1)).map Int.ofNat := by
  have hl : (u64s (firstKeysOf hdrs)).length = hdrs.length := by simp [u64s, firstKeysOf]
  have hfuel : (Int.ofNat hdrs.length - 0).toNat = hdrs.length := by simp
  have hloop : (MapMetaDataSlab_getChildSlabByDigest.loop1 (u64s (firstKeysOf hdrs)) (u64 hkey) hdrs.length
      (-1, 0, Int.ofNat hdrs.length)).1 = _ :=
    findChild_loop_get hdrs hfk hkey hk hdrs.length 0 hdrs.length none (by omega) hlen
  rw [findChild_fuel hdrs hkey 0 hdrs.length none hdrs.length (hdrs.length + 1) (by omega) (by omega)] at hloop
  simp only [MapMetaDataSlab_getChildSlabByDigest, hl, hfuel]
  rw [hloop]
  cases MMetaSlab.findChild hdrs hkey 0 hdrs.length none (hdrs.length + 1) with
  | none => simp [ansInt]
  | some k =>
    have : ¬ (Int.ofNat k = -1) := by simp only [Int.ofNat_eq_natCast]; omega
    simp [ansInt, this]

/-- the search at the top of `MapMetaDataSlab.Remove` -/
theorem MapMetaDataSlab_Remove_search_eq_model (hdrs : List MHdr) (hkey : Nat)
    (hfk : ∀ x ∈ firstKeysOf hdrs, x < 2^64) (hk : hkey < 2^64) (hlen : hdrs.length < 2^63) :
    MapMetaDataSlab_Remove_search (u64s (firstKeysOf hdrs)) (u64 hkey) =
      (MMetaSlab.findChild hdrs hkey 0 hdrs.length none (hdrs.length + 1)).map Int.ofNat := by
  have hl : (u64s (firstKeysOf hdrs)).length = hdrs.length := by simp [u64s, firstKeysOf]
  have hfuel : (Int.ofNat hdrs.length - 0).toNat = hdrs.length := by simp
  have hloop : (MapMetaDataSlab_Remove_search.loop1 (u64s (firstKeysOf hdrs)) (u64 hkey) hdrs.length
      (-1, 0, Int.ofNat hdrs.length)).1 = _ :=
    findChild_loop_remove hdrs hfk hkey hk hdrs.length 0 hdrs.length none (by omega) hlen
  rw [findChild_fuel hdrs hkey 0 hdrs.length none hdrs.length (hdrs.length + 1) (by omega) (by omega)] at hloop
  simp only [MapMetaDataSlab_Remove_search, hl, hfuel]
  rw [hloop]
  cases MMetaSlab.findChild hdrs hkey 0 hdrs.length none (hdrs.length + 1) with
  | none => simp [ansInt]
  | some k =>
    have : ¬ (Int.ofNat k = -1) := by simp only [Int.ofNat_eq_natCast]; omega
    simp [ansInt, this]

/-- the search at the top of `MapMetaDataSlab.Set` (starts from `ans = 0`: a smaller key goes to the first child) -/
theorem MapMetaDataSlab_Set_search_eq_model (hdrs : List MHdr) (hkey : Nat)
    (hfk : ∀ x ∈ firstKeysOf hdrs, x < 2^64) (hk : hkey < 2^64) (hlen : hdrs.length < 2^63) :
    MapMetaDataSlab_Set_search (u64s (firstKeysOf hdrs)) (u64 hkey) =
      Int.ofNat ((MMetaSlab.findChild hdrs hkey 0 hdrs.length (some 0) (hdrs.length + 1)).getD 0) := by
  have hl : (u64s (firstKeysOf hdrs)).length = hdrs.length := by simp [u64s, firstKeysOf]
  have hfuel : (Int.ofNat hdrs.length - 0).toNat = hdrs.length := by simp
  have hloop : (MapMetaDataSlab_Set_search.loop1 (u64s (firstKeysOf hdrs)) (u64 hkey) hdrs.length
      (0, 0, Int.ofNat hdrs.length)).1 = _ :=
    findChild_loop_set hdrs hfk hkey hk hdrs.length 0 hdrs.length (some 0) (by omega) hlen
  rw [findChild_fuel hdrs hkey 0 hdrs.length (some 0) hdrs.length (hdrs.length + 1) (by omega) (by omega)] at hloop
  simp only [MapMetaDataSlab_Set_search, hl, hfuel]
  rw [hloop]
  -- starting from `some 0` the search never returns `none`
  have hsome : ∀ (f i j : Nat) (o : Option Nat), o.isSome → (MMetaSlab.findChild hdrs hkey i j o f).isSome := by
    intro f
    induction f with
    | zero => intro i j o h; simpa [MMetaSlab.findChild] using h
    | succ f ih =>
      intro i j o h
      simp only [MMetaSlab.findChild]
      split
      · split
        · exact ih _ _ _ h
        · exact ih _ _ _ rfl
      · exact h
  have := hsome (hdrs.length + 1) 0 hdrs.length (some 0) rfl
  cases hh : MMetaSlab.findChild hdrs hkey 0 hdrs.length (some 0) (hdrs.length + 1) with
  | none => rw [hh] at this; simp at this
  | some k => simp [ansInt]

/-- non-vacuity: four children with first keys 10, 20, 30, 40 -/
example : MapMetaDataSlab_getChildSlabByDigest (u64s [10, 20, 30, 40]) (u64 25) = some 1 ∧
    MapMetaDataSlab_getChildSlabByDigest (u64s [10, 20, 30, 40]) (u64 5) = none ∧
    MapMetaDataSlab_Set_search (u64s [10, 20, 30, 40]) (u64 5) = 0 := by
  refine ⟨by rfl, by rfl, by rfl⟩

/-! ## Split / LendToRight / BorrowFromRight of the index slabs: size arithmetic -/

theorem ceilHalf (n : Nat) : goCeilDivInt (Int.ofNat n) 2 = Int.ofNat ((n + 1) / 2) := by
  simp [goCeilDivInt]

/-- `MapMetaDataSlab.Split`: number of children that stay left and the two new sizes.  Needs: the header size
    covers the child headers that stay (no wrap-around in `m.header.size - uint32(leftSize)`). -/
theorem MapMetaDataSlab_Split_eq_model {α : Type} (m : MMetaSlab α) (c : Ctx) (hs : m.hdr.size < 2^32)
    (hn : m.childHdrs.length < 2^24)
    (hcov : (m.childHdrs.length + 1) / 2 * Gen.mapSlabHeaderSize ≤ m.hdr.size) :
    MapMetaDataSlab_Split (u32 m.hdr.size) (Int.ofNat m.childHdrs.length) =
      match m.split c with
      | .error _ => none
      | .ok (l, r, _) => some (Int.ofNat l.childHdrs.length, u32 r.hdr.size, u32 l.hdr.size) := by
  simp only [MapMetaDataSlab_Split, MMetaSlab.split, int_dlt_two, ceilHalf]
  by_cases hl : m.childHdrs.length < 2
  · simp [hl]
  · simp only [hl, decide_false, if_false, Bool.false_eq_true]
    have emul : Int.ofNat ((m.childHdrs.length + 1) / 2) * Int.ofNat Gen.mapSlabHeaderSize =
        Int.ofNat ((m.childHdrs.length + 1) / 2 * Gen.mapSlabHeaderSize) := by simp
    rw [emul, u32_ofInt]
    simp only [Gen.mapSlabHeaderSize, Gen.mapMetaDataSlabPrefixSize] at hcov ⊢
    have e12 : UInt32.ofNat 12 = u32 12 := rfl
    rw [e12, u32_sub hcov hs, u32_add (by omega)]
    simp only [Option.some.injEq, Prod.mk.injEq, List.length_take, and_true]
    congr 1; omega

/-- `MapMetaDataSlab.LendToRight` / `BorrowFromRight`: how many child headers end up left, how many move, and the
    two new header sizes -/
theorem MapMetaDataSlab_LendToRight_eq_model {α : Type} (l r : MMetaSlab α)
    (hn : l.childHdrs.length + r.childHdrs.length < 2^24) :
    MapMetaDataSlab_LendToRight (Int.ofNat l.childHdrs.length) (Int.ofNat r.childHdrs.length) =
      some (Int.ofNat ((l.childHdrs.length + r.childHdrs.length) / 2),
            Int.ofNat l.childHdrs.length - Int.ofNat ((l.childHdrs.length + r.childHdrs.length) / 2),
            u32 (l.lendToRight r).1.hdr.size, u32 (l.lendToRight r).2.hdr.size) := by
  simp only [MapMetaDataSlab_LendToRight, MMetaSlab.lendToRight]
  have eadd : Int.ofNat l.childHdrs.length + Int.ofNat r.childHdrs.length =
      Int.ofNat (l.childHdrs.length + r.childHdrs.length) := by simp
  have ediv : Int.tdiv (Int.ofNat (l.childHdrs.length + r.childHdrs.length)) 2 =
      Int.ofNat ((l.childHdrs.length + r.childHdrs.length) / 2) := by simp [Int.tdiv]
  have esub : Int.ofNat (l.childHdrs.length + r.childHdrs.length) -
      Int.ofNat ((l.childHdrs.length + r.childHdrs.length) / 2) =
      Int.ofNat (l.childHdrs.length + r.childHdrs.length - (l.childHdrs.length + r.childHdrs.length) / 2) := by
    simp only [Int.ofNat_eq_natCast]; omega
  rw [eadd, ediv, esub, u32_ofInt, u32_ofInt]
  simp only [Gen.mapSlabHeaderSize, Gen.mapMetaDataSlabPrefixSize]
  generalize l.childHdrs.length + r.childHdrs.length = t at *
  have e12 : UInt32.ofNat 12 = u32 12 := rfl
  have e18 : UInt32.ofNat 18 = u32 18 := rfl
  have hmul : ∀ a : Nat, a < 2^24 → u32 a * u32 18 = u32 (a * 18) := by
    intro a ha
    apply UInt32.toNat_inj.mp
    rw [UInt32.toNat_mul, u32_toNat (by omega), u32_toNat (by omega), u32_toNat (by omega)]; omega
  rw [e12, e18, hmul _ (by omega), hmul _ (by omega), u32_add (by omega), u32_add (by omega)]

theorem MapMetaDataSlab_BorrowFromRight_eq_model {α : Type} (l r : MMetaSlab α)
    (hn : l.childHdrs.length + r.childHdrs.length < 2^24) :
    MapMetaDataSlab_BorrowFromRight (Int.ofNat l.childHdrs.length) (Int.ofNat r.childHdrs.length) =
      some (Int.ofNat ((l.childHdrs.length + r.childHdrs.length) / 2),
            Int.ofNat ((l.childHdrs.length + r.childHdrs.length) / 2) - Int.ofNat l.childHdrs.length,
            u32 (l.borrowFromRight r).1.hdr.size, u32 (l.borrowFromRight r).2.hdr.size) := by
  simp only [MapMetaDataSlab_BorrowFromRight, MMetaSlab.borrowFromRight]
  have eadd : Int.ofNat l.childHdrs.length + Int.ofNat r.childHdrs.length =
      Int.ofNat (l.childHdrs.length + r.childHdrs.length) := by simp
  have ediv : Int.tdiv (Int.ofNat (l.childHdrs.length + r.childHdrs.length)) 2 =
      Int.ofNat ((l.childHdrs.length + r.childHdrs.length) / 2) := by simp [Int.tdiv]
  have esub : Int.ofNat (l.childHdrs.length + r.childHdrs.length) -
      Int.ofNat ((l.childHdrs.length + r.childHdrs.length) / 2) =
      Int.ofNat (l.childHdrs.length + r.childHdrs.length - (l.childHdrs.length + r.childHdrs.length) / 2) := by
    simp only [Int.ofNat_eq_natCast]; omega
  rw [eadd, ediv, esub, u32_ofInt, u32_ofInt]
  simp only [Gen.mapSlabHeaderSize, Gen.mapMetaDataSlabPrefixSize]
  generalize l.childHdrs.length + r.childHdrs.length = t at *
  have e12 : UInt32.ofNat 12 = u32 12 := rfl
  have e18 : UInt32.ofNat 18 = u32 18 := rfl
  have hmul : ∀ a : Nat, a < 2^24 → u32 a * u32 18 = u32 (a * 18) := by
    intro a ha
    apply UInt32.toNat_inj.mp
    rw [UInt32.toNat_mul, u32_toNat (by omega), u32_toNat (by omega), u32_toNat (by omega)]; omega
  rw [e12, e18, hmul _ (by omega), hmul _ (by omega), u32_add (by omega), u32_add (by omega)]

/-- `ArrayMetaDataSlab.Split`: how many children stay left, their element count (the `uint32` sum loop), and the
    new size / count of both slabs.  Needs: the header size covers the child headers that stay, the header count
    covers the counts that stay, and their sum is below 2^32. -/
theorem ArrayMetaDataSlab_Split_eq_model {α : Type} (m : MetaSlab α) (c : Ctx) (hs : m.hdr.size < 2^32)
    (hc : m.hdr.count < 2^32) (hn : m.childHdrs.length < 2^24)
    (hcov : (m.childHdrs.length + 1) / 2 * Gen.arraySlabHeaderSize ≤ m.hdr.size)
    (hcnt : MetaSlab.sumCounts (m.childHdrs.take ((m.childHdrs.length + 1) / 2)) ≤ m.hdr.count) :
    ArrayMetaDataSlab_Split (u32 m.hdr.size) (u32 m.hdr.count) (u32s (m.childHdrs.map (·.count))) =
      match m.split c with
      | .error _ => none
      | .ok (l, r, _) =>
        some (Int.ofNat l.childHdrs.length, u32 l.hdr.count, u32 r.hdr.size, u32 r.hdr.count, u32 l.hdr.size,
              u32 l.hdr.count) := by
  have hlen : (u32s (m.childHdrs.map (·.count))).length = m.childHdrs.length := by simp [u32s]
  have hlen' : (m.childHdrs.map (·.count)).length = m.childHdrs.length := by simp
  simp only [ArrayMetaDataSlab_Split, MetaSlab.split, hlen, int_dlt_two, ceilHalf]
  by_cases hl : m.childHdrs.length < 2
  · simp [hl]
  · simp only [hl, decide_false, if_false, Bool.false_eq_true]
    have emul : Int.ofNat ((m.childHdrs.length + 1) / 2) * Int.ofNat Gen.arraySlabHeaderSize =
        Int.ofNat ((m.childHdrs.length + 1) / 2 * Gen.arraySlabHeaderSize) := by simp
    have efuel : (Int.ofNat ((m.childHdrs.length + 1) / 2) - 0).toNat = (m.childHdrs.length + 1) / 2 := by
      rw [Int.sub_zero]; exact Int.toNat_natCast _
    have esum : MetaSlab.sumCounts (m.childHdrs.take ((m.childHdrs.length + 1) / 2)) =
        ((m.childHdrs.map (·.count)).take ((m.childHdrs.length + 1) / 2)).sum := by
      simp [MetaSlab.sumCounts, List.map_take]
    rw [esum] at hcnt ⊢
    have hloop : ArrayMetaDataSlab_Split.loop1 _ _ _ (u32 0, 0) = _ :=
      arrMetaSplit_loop (m.childHdrs.map (·.count)) ((m.childHdrs.length + 1) / 2) (by rw [hlen']; omega)
        ((m.childHdrs.length + 1) / 2) 0 0 (by omega) (by omega) (by simp only [List.drop_zero]; omega)
    simp only [List.drop_zero, Nat.zero_add] at hloop
    have e0 : (0 : UInt32) = u32 0 := rfl
    rw [emul, efuel, u32_ofInt, e0, hloop]
    simp only [Gen.arraySlabHeaderSize, Gen.arrayMetaDataSlabPrefixSize] at hcov ⊢
    have e12 : UInt32.ofNat 12 = u32 12 := rfl
    rw [e12, u32_sub hcov hs, u32_sub hcnt hc, u32_add (by omega)]
    simp only [Option.some.injEq, Prod.mk.injEq, List.length_take, and_true, true_and]
    congr 1; omega

/-- non-vacuity: five children with 10, 20, 30, 40, 50 elements: three stay (60 elements), 82 - 42 = 40 bytes and
    90 elements go right -/
example : ArrayMetaDataSlab_Split (u32 82) (u32 150) (u32s [10, 20, 30, 40, 50]) = some (3, 60, 40, 90, 54, 60) := by
  rfl

end Atree.TransEq
