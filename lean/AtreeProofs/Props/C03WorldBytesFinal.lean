import AtreeProofs.Props.C03WorldBytes
import AtreeProofs.Props.C10Deep
/-
  C03 / C10 FOR NESTED CONTAINERS AT BYTE LEVEL, WITHOUT THE HYPOTHESIS `DeepSteps`: the deep account
  of every request (`Props/C10Deep.lean`: a slab whose embedded child changed was stored — carried along
  the whole parent-callback chain from the core lemmas "`Array.set` / `OrderedMap.set` store the slab
  that holds the slot they write", `World/StoreHolderArr.lean`, `World/StoreHolderMap.lean`) plugged
  into `Props/C03WorldBytes.lean`.  PROPERTY THEOREMS.
-/
namespace Atree.C03WBF
open Atree Atree.Codec Gen World St C10Persist WC C07W

/-- THE DEEP ACCOUNT OF EVERY REQUEST -/
theorem deepSteps (D : SlabID → DigestFn 4) : DeepSteps D := by
  intro w w' cx cx' h r
  cases r with
  | newArr ty => exact C10Deep.newArr_deepStored D ty h
  | newMap ty seed => exact C10Deep.newMap_deepStored D ty seed h
  | arrInsert hh hv hr => exact C10Deep.arrInsert_deepStored D h hh hv hr
  | arrSet hh hv hr => exact C10Deep.arrSet_deepStored D h hh hv hr
  | arrRemove hh hr => exact C10Deep.arrRemove_deepStored D h hh hr
  | mapSet hh hk hv hr => exact C10Deep.mapSet_deepStored D h hh hk hv hr
  | mapRemove hh hk hr => exact C10Deep.mapRemove_deepStored D h hh hk hr
  | setType hh hr => exact C10Deep.setType_deepStored D h hh hr
  | arrGet hh hr => exact C10Deep.arrGet_deepStored D h hh hr _
  | mapGet hh hk hr => exact C10Deep.mapGet_deepStored D h hh hk hr _
  | reopen => exact C10Deep.reopen_deepStored w _

/-- ALONG EVERY HISTORY run against the storage with the byte codec (commits, failing or not,
    anywhere): the storage shows — through write set, cache and ledger — exactly the codec-level
    content `World.toCodec` of the world, i.e. every stored slab WITH the full content of every
    inlined container embedded in it.  No hypothesis. -/
theorem history_rep (D : SlabID → DigestFn 4) {w : World} {cx : Ctx} {s : St Slab (SlabID × Bytes)}
    (h : HistB D w cx s) : Rep worldCodec s w.toCodec ∧ Inv worldCodec s :=
  ⟨(histB_rep (deepSteps D) h).1, (histB_rep (deepSteps D) h).2.1⟩

/-- every pending slab encodes (under the side conditions of the current world) -/
theorem no_encode_failure (D : SlabID → DigestFn 4) {w : World} {cx : Ctx} {s : St Slab (SlabID × Bytes)}
    (h : HistB D w cx s) (L : LeafOk w cx.ctr) (hside : ∀ id, SideAt w id) : NoEncodeFailure worldCodec s :=
  C03WB.no_encode_failure (deepSteps D) h L hside

/-- THE BYTE-LEVEL COMMIT / REOPEN THEOREM FOR NESTED CONTAINERS (C03, C10 "persisted by the next
    commit", deep content, real byte codec).  After ANY history of requests through current handles
    — arrays and maps nested in arrays and maps at any depth, children inlined and un-inlined as they
    grow and shrink, mutations at any depth propagated by the parent callbacks — run against the
    storage state machine with commits of either kind (failing or not) anywhere: if the final world
    meets the decidable side conditions (`LeafOk`, `SideAt`: harness values, 64-bit fields, CBOR
    nesting ≤ 32, ≤ 256 shared extra-data entries, group slabs within their field widths), then a
    fault-free commit SUCCEEDS and a BRAND-NEW storage over the same ledger (empty write set, empty
    cache) shows, by `DecodeSlab` on the registers alone, for every slab ID exactly `World.toCodec`
    of the reopened world: every standalone slab with every inlined container embedded in it at
    every depth; a register exists exactly for the slabs of the heap, each filed under its ID. -/
theorem world_bytes_commit_reopen (D : SlabID → DigestFn 4) {w : World} {cx : Ctx}
    {s : St Slab (SlabID × Bytes)} (h : HistB D w cx s)
    (L : LeafOk w cx.ctr) (hside : ∀ id, SideAt w id) (kind : CommitKind) (mo dlo : List SlabID) :
    (St.step worldCodec s (.commit kind [] mo dlo)).2 = .unit ∧
    let reopened := St.run worldCodec s [.commit kind [] mo dlo, .recreate]
    reopened.deltas = [] ∧ reopened.cache = [] ∧
    (∀ id, id.isTemp = false → reopened.view worldCodec id = w.reopen.toCodec id) ∧
    (∀ id, id.isTemp = false → ((AList.find? reopened.base id).isSome ↔ (w.slabAt id).isSome)) ∧
    (∀ id sl, id.isTemp = false → w.toCodec id = some sl →
      ∃ bytes k, AList.find? reopened.base id = some (id, bytes) ∧ decodeSlab id bytes 0 = .ok sl k) := by
  obtain ⟨h1, h2⟩ := C03WB.world_bytes_commit_reopen (deepSteps D) h L hside kind mo dlo
  exact ⟨h1, h2.1, h2.2.1, h2.2.2.1, h2.2.2.2.2.1, h2.2.2.2.2.2⟩

end Atree.C03WBF
