import AtreeProofs.Props.TransMapDescentTopSetFull
import AtreeProofs.Props.TransMapDescentRemoveFull
import AtreeProofs.Props.TransMapRestructSplit
import AtreeProofs.Props.TransMapRestructRoot
import AtreeProofs.Props.TransMapRestructMorHeap
import AtreeProofs.Props.TransMapRestructPromote
import AtreeProofs.Props.TransMapSlabsSafe
import AtreeProofs.Map.TreeSet
import AtreeProofs.Map.AfterChild2
/-
  MAP DESCENT, round 3 (WP13): THE PROVIDER INVARIANT of the tail predicates (`MSplitTail / MMorTail / MRootTail` of
  `TransMapDescentSetFull.lean` / `TransMapDescentTopSetFull.lean`), shared by the modules that discharge the tails for
  `rs := rsOf T` (`TransMapDescentTail*.lean`) and by the final assembly (`TransMapDescentSetFinal.lean`).

  `MQ T D d t`: the subtree `t` is what the descent hands to / gets back from the restructuring calls - the LOOSE tree
  invariant of `Map/TreeInv2.lean` (`SInv .. false`: every slab below the subtree root is a valid non-root slab, the
  subtree root has exact size bookkeeping but may be over- / under-full), the subtree root is at most one entry / header
  over the band (`slack`), and every first-level digest is a `uint64` value (the model's digests are unbounded naturals;
  `ElemsInv` does not bound them).  DEFINITION ONLY.
-/
namespace Atree.TransEq
open Atree

/-- the provider invariant of the tails -/
def MQ {r : Nat} (T : Nat) (D : DigestFn (r + 1)) (d : Nat) (t : MTree r d) : Prop :=
  SInv T D d false t ∧ (MTree.hdr d t).size ≤ maxThr T + slack T d ∧ ∀ x ∈ MTree.digests0 d t, x < 2^64

theorem MQ.sinv {r T : Nat} {D : DigestFn (r + 1)} {d : Nat} {t : MTree r d} (h : MQ T D d t) : SInv T D d false t := h.1
theorem MQ.size_le {r T : Nat} {D : DigestFn (r + 1)} {d : Nat} {t : MTree r d} (h : MQ T D d t) :
    (MTree.hdr d t).size ≤ maxThr T + slack T d := h.2.1
theorem MQ.dig {r T : Nat} {D : DigestFn (r + 1)} {d : Nat} {t : MTree r d} (h : MQ T D d t) :
    ∀ x ∈ MTree.digests0 d t, x < 2^64 := h.2.2

end Atree.TransEq
