import AtreeProofs.Props.SlabAll
import AtreeProofs.Props.C06
import AtreeProofs.Props.C07
import AtreeProofs.Props.C07Depth
/-
  C06 / C07 — non-vacuity of the GENERAL theorems at the exact nesting bound.

  `SlabOKG` (Codec/SlabAll.lean) asks of array / map data slabs with general elements the EXACT nesting
  clause `Slab.vdepth ≤ maxNestedLevels` (`MapDataOKX`, `ArrDataOKX`, `ArrDataOKWX`), no longer the
  over-approximation `vneedI ≤ maxNestedLevels` of `MapDataOKC` / `ArrDataOKC` / `ArrDataOKW`.  The
  slabs below are deeper than the old clause allowed — 15 nested inlined arrays (`vneedI + 1 = 47`),
  7 nested inlined maps (`vneedI = 39`), a value under 32 wrappers (`vneedI + 1 = 34`) — and the general
  theorems `C07.decode_encode`, `C07.reencode_fixpoint`, `C06.decoded_size_eq`, `C06.enc_len` now apply
  to them; one level more and the register does not decode (`ad16_rejected`, `md8_rejected`), so the
  clause cannot be weakened.
-/
namespace Atree.C07
open Atree Atree.Codec Atree.Gen

/-- 15 nested inlined arrays: in the domain of the general theorems … -/
theorem slabOKG_ad15 : SlabOKG (.adata (ad 15)) := Or.inl arrDataOKX_ad15

/-- … 7 nested inlined maps too -/
theorem slabOKG_md7 : SlabOKG (.mdata (md 7)) := mapDataOKX_md7

/-- … although neither meets the older hypotheses (`ArrDataOKC` / `ArrDataOKW`, `MapDataOKC`) -/
theorem ad15_md7_not_okc : ¬ ArrDataOKC (ad 15) ∧ ¬ ArrDataOKW (ad 15) ∧ ¬ MapDataOKC (md 7) := by
  refine ⟨not_arrDataOKC_ad15, fun ok => ?_, not_mapDataOKC_md7⟩
  have := ok.nest
  have h : vneedISts (ad 15).elems = 1 + 3 * 15 := vneedISts_arrNest 15
  rw [h] at this
  simp only [maxNestedLevels] at this
  omega

/-- the general round trip on them -/
example (n : Nat) :
    decodeSlab (Slab.adata (ad 15)).id (encodeSlab (.adata (ad 15))) n
      = .ok (normSlab (.adata (ad 15))) (n + (Slab.adata (ad 15)).decodeAllocsG) :=
  decode_encode (.adata (ad 15)) slabOKG_ad15 n

example (n : Nat) :
    decodeSlab (Slab.mdata (md 7)).id (encodeSlab (.mdata (md 7))) n
      = .ok (normSlab (.mdata (md 7))) (n + (Slab.mdata (md 7)).decodeAllocsG) :=
  decode_encode (.mdata (md 7)) slabOKG_md7 n

/-- … the re-encoding fixpoint and the size law -/
example (n : Nat) (s' : Slab) (k : Nat)
    (h : decodeSlab (Slab.mdata (md 7)).id (encodeSlab (.mdata (md 7))) n = .ok s' k) :
    encodeSlab s' = encodeSlab (.mdata (md 7)) :=
  reencode_fixpoint (.mdata (md 7)) slabOKG_md7 n s' k h

example (n : Nat) :
    ∃ s' k, decodeSlab (Slab.adata (ad 15)).id (encodeSlab (.adata (ad 15))) n = .ok s' k ∧
      s'.byteSize = (Slab.adata (ad 15)).byteSize :=
  C06.decoded_size_eq (.adata (ad 15)) slabOKG_ad15 n

example :
    (encodeSlab (.adata (ad 15))).length + (Slab.adata (ad 15)).omittedNext + (Slab.adata (ad 15)).hoisted
      = (Slab.adata (ad 15)).byteSize + (Slab.adata (ad 15)).extraDataLen :=
  C06.enc_len (.adata (ad 15)) slabOKG_ad15 (fun _ => rfl)

/-! ### wrapped elements at the exact bound -/

/-- `k` wrappers around a small value -/
def wrapN : Nat → Stor
  | 0 => .val 2 1
  | k + 1 => .some (wrapN k)

/-- an array data slab (root, no inlined child) whose one element is a value under 32 wrappers:
    tag numbers 32 deep below the element array's head = validator depth 32 -/
def aw32 : ArrData := { id := ⟨1, 1⟩, next := SlabID.undef, ty := some (.plain 1), elems := [wrapN 32] }

theorem rti_wrapN : ∀ k, (wrapN k).RTI
  | 0 => by simp only [wrapN, Stor.RTI]; decide
  | k + 1 => by simp only [wrapN, Stor.RTI]; exact rti_wrapN k

theorem noInl_wrapN : ∀ k, (wrapN k).noInl
  | 0 => trivial
  | k + 1 => noInl_wrapN k

theorem vneedI_wrapN : ∀ k, (wrapN k).vneedI = k + 1
  | 0 => rfl
  | k + 1 => by simp only [wrapN, Stor.vneedI, vneedI_wrapN k]

theorem arrDataOKWX_aw32 : ArrDataOKWX aw32 where
  rt := ⟨rti_wrapN 32, trivial⟩
  noInl := ⟨noInl_wrapN 32, trivial⟩
  wrapped := ⟨wrapN 32, by simp [aw32], rfl⟩
  nest := by decide
  count := by decide
  next := by decide
  ty := fun t h => by cases h; decide
  size := by decide

/-- it is outside the older `ArrDataOKW` (`vneedISts + 1 = 34 > 32`) -/
theorem not_arrDataOKW_aw32 : ¬ ArrDataOKW aw32 := by
  intro ok
  have := ok.nest
  have h : vneedISts aw32.elems = 33 := by
    simp only [aw32, vneedISts, vneedI_wrapN]; decide
  rw [h] at this
  simp only [maxNestedLevels] at this
  omega

theorem slabOKG_aw32 : SlabOKG (.adata aw32) := Or.inr arrDataOKWX_aw32

/-- the general round trip gives the slab itself back (no compact map) -/
example (n : Nat) : ∃ k, decodeSlab aw32.id (encodeSlab (.adata aw32)) n = .ok (.adata aw32) k := by
  have h := decode_encode (.adata aw32) slabOKG_aw32 n
  rw [normSlab_noCompact (.adata aw32) (noCompactSts_of_noInl _ arrDataOKWX_aw32.noInl)] at h
  exact ⟨_, h⟩

/-- … and 33 wrappers are one too many: the validator rejects the element array -/
example (extra : Bytes) :
    wfNext (arrayHead16 1 ++ ((encSts [wrapN 33] []).1 ++ extra)) = none :=
  wfNext_arrElements_tooDeep { aw32 with elems := [wrapN 33] } ⟨rti_wrapN 33, trivial⟩
    (nodupKeysSts_of_noCompact _ (noCompactSts_of_noInl _ ⟨noInl_wrapN 33, trivial⟩))
    (by decide) (by decide) extra

end Atree.C07
