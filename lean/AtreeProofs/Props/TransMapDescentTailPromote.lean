import AtreeProofs.Props.TransMapDescentTailMor
/-
  MAP DESCENT, round 3 (WP13): the `promote` field of the root tail `MRootTail` (`TransMapDescentTopSetFull.lean`) for
  `rs := rsOf T`, from `Ob_promote_heap` (Props/TransMapRestructPromote.lean).  Helper names carry the prefix `mtp_`.
-/
namespace Atree.TransEq
open Atree

section core
variable {r : Nat}

theorem mtp_MHolds_intro (h : SlabID → Option (DSlab r)) (d : Nat) (t : MTree r d) (x : Option DX)
    (h1 : h (MTree.hdr d t).id = some (md_tree d t x)) (h2 : mrm_KidsHeld h d t) : MHolds h d t x := by
  cases d with
  | zero => exact h1
  | succ d => exact ⟨h1, h2⟩

/-- re-rooting: the slab `child` (held, identifier `cid`) is stored as `nr` - same slabs below - under the identifier
    `rootId` (occupied before) with extra data `x`, then `cid` is removed -/
theorem mtp_core (addr : Nat) (s1 : MHSt r) (d : Nat) (child nr : MTree r d) (rootId cid : SlabID) (x : Option DX)
    (hid : (MTree.hdr d nr).id = rootId) (hkid : mrm_kidIds d nr = mrm_kidIds d child)
    (hkh : ∀ h, mrm_KidsHeld h d child → mrm_KidsHeld h d nr)
    (hcid : (MTree.hdr d child).id = cid)
    (hheld : MHolds s1.heap d child none) (hroot : (s1.heap rootId).isSome = true)
    (hnd : (rootId :: md_ids d child).Nodup) (haddr : ∀ id ∈ rootId :: md_ids d child, id.addr = addr)
    (hff : mds_FreshFree addr s1) :
    MHolds ((s1.store rootId (md_tree d nr x)).remove cid).heap d nr x ∧ (md_ids d nr).Nodup ∧
    (∀ id ∈ md_ids d nr, id.addr = addr) ∧ mds_FreshFree addr ((s1.store rootId (md_tree d nr x)).remove cid) ∧
    mds_Delta s1.heap ((s1.store rootId (md_tree d nr x)).remove cid).heap (rootId :: md_ids d child) (md_ids d nr) := by
  have eI' : md_ids d nr = rootId :: mrm_kidIds d child := by rw [mrm_md_ids_eq, hid, hkid]
  have eI : md_ids d child = cid :: mrm_kidIds d child := by rw [mrm_md_ids_eq, hcid]
  rw [eI] at hnd haddr
  rw [eI', eI]
  have hn := List.nodup_cons.mp hnd
  have hn2 := List.nodup_cons.mp hn.2
  have hrc : rootId ≠ cid := fun e => hn.1 (e ▸ List.mem_cons_self)
  have hrK : rootId ∉ mrm_kidIds d child := fun hin => hn.1 (List.mem_cons_of_mem _ hin)
  have hheap : ∀ id, ((s1.store rootId (md_tree d nr x)).remove cid).heap id =
      if id = cid then none else if id = rootId then some (md_tree d nr x) else s1.heap id := fun id => rfl
  have hfr : ∀ id, id ≠ cid → id ≠ rootId → ((s1.store rootId (md_tree d nr x)).remove cid).heap id = s1.heap id := by
    intro id h1 h2; rw [hheap, if_neg h1, if_neg h2]
  refine ⟨?_, List.nodup_cons.mpr ⟨hrK, hn2.2⟩, fun id hin => ?_, fun id ha hlt => ?_, ⟨fun id hin hn' => ?_,
    fun id hin hn' => ?_, fun id hn1 _ => ?_⟩⟩
  · refine mtp_MHolds_intro _ d nr x ?_ (hkh _ (mrm_KidsHeld_congr d child s1.heap _ (fun id hin => ?_)
      (mrm_MHolds_kids _ d child none hheld)))
    · rw [hid, hheap, if_neg hrc, if_pos rfl]
    · exact hfr id (fun e => hn2.1 (e ▸ hin)) (fun e => hrK (e ▸ hin))
  · rcases List.mem_cons.mp hin with e | h'
    · exact haddr id (e ▸ List.mem_cons_self)
    · exact haddr id (List.mem_cons_of_mem _ (List.mem_cons_of_mem _ h'))
  · have hnone : s1.heap id = none := hff id ha hlt
    rw [hheap]
    by_cases e1 : id = cid
    · rw [if_pos e1]
    · rw [if_neg e1]
      by_cases e2 : id = rootId
      · rw [e2] at hnone; rw [hnone] at hroot; cases hroot
      · rw [if_neg e2]; exact hnone
  · exfalso
    rcases List.mem_cons.mp hin with e | h'
    · exact hn' (e ▸ List.mem_cons_self)
    · exact hn' (List.mem_cons_of_mem _ (List.mem_cons_of_mem _ h'))
  · have e : id = cid := by
      rcases List.mem_cons.mp hin with e | h'
      · exact absurd (e ▸ List.mem_cons_self) hn'
      · rcases List.mem_cons.mp h' with e | h''
        · exact e
        · exact absurd (List.mem_cons_of_mem _ h'') hn'
    rw [e, hheap, if_pos rfl]
  · exact hfr id (fun e => hn1 (e ▸ List.mem_cons_of_mem _ List.mem_cons_self)) (fun e => hn1 (e ▸ List.mem_cons_self))

end core

end Atree.TransEq
