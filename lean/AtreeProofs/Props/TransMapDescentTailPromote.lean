import AtreeProofs.Props.TransMapDescentTailMor
/-
  MAP DESCENT, round 3 (WP13): the `promote` field of the root tail `MRootTail` (`TransMapDescentTopSetFull.lean`) for
  `rs := rsOf T`, from `Ob_promote_heap` (Props/TransMapRestructPromote.lean).  Helper names carry the prefix `mtp_`.
-/
namespace Atree.TransEq
open Atree

section core
variable {r : Nat}

theorem mtp_MHolds_intro (h : SlabID → Option (DSlab r)) (d : Nat) (t : MTree r d) (x : Option DX)
    (h1 : h (MTree.hdr d t).id = some (md_tree d t x)) (h2 : mrm_KidsHeld h d t) : MHolds h d t x := by
  cases d with
  | zero => exact h1
  | succ d => exact ⟨h1, h2⟩

/-- re-rooting: the slab `child` (held, identifier `cid`) is stored as `nr` - same slabs below - under the identifier
    `rootId` (occupied before) with extra data `x`, then `cid` is removed -/
theorem mtp_core (addr : Nat) (s1 : MHSt r) (d : Nat) (child nr : MTree r d) (rootId cid : SlabID) (x : Option DX)
    (hid : (MTree.hdr d nr).id = rootId) (hkid : mrm_kidIds d nr = mrm_kidIds d child)
    (hkh : ∀ h, mrm_KidsHeld h d child → mrm_KidsHeld h d nr)
    (hcid : (MTree.hdr d child).id = cid)
    (hheld : MHolds s1.heap d child none) (hroot : (s1.heap rootId).isSome = true)
    (hnd : (rootId :: md_ids d child).Nodup) (haddr : ∀ id ∈ rootId :: md_ids d child, id.addr = addr)
    (hff : mds_FreshFree addr s1) :
    MHolds ((s1.store rootId (md_tree d nr x)).remove cid).heap d nr x ∧ (md_ids d nr).Nodup ∧
    (∀ id ∈ md_ids d nr, id.addr = addr) ∧ mds_FreshFree addr ((s1.store rootId (md_tree d nr x)).remove cid) ∧
    mds_Delta s1.heap ((s1.store rootId (md_tree d nr x)).remove cid).heap (rootId :: md_ids d child) (md_ids d nr) := by
  have eI' : md_ids d nr = rootId :: mrm_kidIds d child := by rw [mrm_md_ids_eq, hid, hkid]
  have eI : md_ids d child = cid :: mrm_kidIds d child := by rw [mrm_md_ids_eq, hcid]
  rw [eI] at hnd haddr
  rw [eI', eI]
  have hn := List.nodup_cons.mp hnd
  have hn2 := List.nodup_cons.mp hn.2
  have hrc : rootId ≠ cid := fun e => hn.1 (e ▸ List.mem_cons_self)
  have hrK : rootId ∉ mrm_kidIds d child := fun hin => hn.1 (List.mem_cons_of_mem _ hin)
  have hheap : ∀ id, ((s1.store rootId (md_tree d nr x)).remove cid).heap id =
      if id = cid then none else if id = rootId then some (md_tree d nr x) else s1.heap id := fun id => rfl
  have hfr : ∀ id, id ≠ cid → id ≠ rootId → ((s1.store rootId (md_tree d nr x)).remove cid).heap id = s1.heap id := by
    intro id h1 h2; rw [hheap, if_neg h1, if_neg h2]
  refine ⟨?_, List.nodup_cons.mpr ⟨hrK, hn2.2⟩, fun id hin => ?_, fun id ha hlt => ?_, ⟨fun id hin hn' => ?_,
    fun id hin hn' => ?_, fun id hn1 _ => ?_⟩⟩
  · refine mtp_MHolds_intro _ d nr x ?_ (hkh _ (mrm_KidsHeld_congr d child s1.heap _ (fun id hin => ?_)
      (mrm_MHolds_kids _ d child none hheld)))
    · rw [hid, hheap, if_neg hrc, if_pos rfl]
    · exact hfr id (fun e => hn2.1 (e ▸ hin)) (fun e => hrK (e ▸ hin))
  · rcases List.mem_cons.mp hin with e | h'
    · exact haddr id (e ▸ List.mem_cons_self)
    · exact haddr id (List.mem_cons_of_mem _ (List.mem_cons_of_mem _ h'))
  · have hnone : s1.heap id = none := hff id ha hlt
    rw [hheap]
    by_cases e1 : id = cid
    · rw [if_pos e1]
    · rw [if_neg e1]
      by_cases e2 : id = rootId
      · rw [e2] at hnone; rw [hnone] at hroot; cases hroot
      · rw [if_neg e2]; exact hnone
  · exfalso
    rcases List.mem_cons.mp hin with e | h'
    · exact hn' (e ▸ List.mem_cons_self)
    · exact hn' (List.mem_cons_of_mem _ (List.mem_cons_of_mem _ h'))
  · have e : id = cid := by
      rcases List.mem_cons.mp hin with e | h'
      · exact absurd (e ▸ List.mem_cons_self) hn'
      · rcases List.mem_cons.mp h' with e | h''
        · exact e
        · exact absurd (List.mem_cons_of_mem _ h'') hn'
    rw [e, hheap, if_pos rfl]
  · exact hfr id (fun e => hn1 (e ▸ List.mem_cons_of_mem _ List.mem_cons_self)) (fun e => hn1 (e ▸ List.mem_cons_self))

end core

section promote
variable {r : Nat} {T : Nat} {D : DigestFn (r + 1)}

/-- what `Ob_promote_heap` needs of the single child, from the tree invariant of a non-root slab -/
theorem mtp_child_facts (hT : legalThreshold T = true) : ∀ (d : Nat) (child : MTree r d),
    MTreeInv T D d false child → (∀ x ∈ MTree.digests0 d child, x < 2^64) →
    (d = 0 → Gen.mapDataSlabPrefixSize ≤ (MTree.hdr d child).size) ∧ mr_RootFit d child
  | 0, child, hinv, hdig => by
    have h : MDataInv T D false (child : MDataSlab r) := (mtreeInv_zero_iff T D false child).mp hinv
    have w := MDataWork.of_inv hT h
    have f := msafe_work_fits hT w
    have hlv := (msafe_elemsInv_top h).1
    have hmin := h.ge_min rfl
    have ht := thresholds_fit hT
    refine ⟨fun _ => ?_, ⟨by omega, by rw [hlv]; decide, hdig⟩⟩
    show Gen.mapDataSlabPrefixSize ≤ (MDataSlab.hdr child).size
    simp only [Gen.mapDataSlabPrefixSize]; omega
  | d + 1, _, _, _ => ⟨fun e => (by cases e), trivial⟩

/-- **the `promote` field of `MRootTail T (rsOf T) (MQ T D)`**, with the invariant of the RESULT handle as an explicit
    hypothesis about the model value (`hQ'`, for an arbitrary `Q'`): as stated in `MRootTail` the field asks for
    `MQ T D` of the new root, which is FALSE (`MQ` contains `SInv T D d false`, i.e. `.root = false`, but
    `promoteIfSingleChild` sets the root flag of the new root).  Everything else of the field is proved: the equation
    for `(rsOf T).promote`, the model's `Ctx`, `popped`, the handle invariant of the result (held WITH the handle's
    extra data, identifiers distinct / the owner's, fresh identifiers free) and `mds_Delta`. -/
theorem MRootTail_promote_rsOf_partial (hT : legalThreshold T = true) (Q' : (d : Nat) → MTree r d → Prop) :
    ∀ (addr d : Nat) (xr : MMetaSlab (MTree r d)) (ty cnt seed : Nat) (h : MHdr) (s1 : MHSt r) (x0 : Option DX),
    xr.childHdrs = [h] → xr.childHdrs = xr.children.map (MTree.hdr d) →
    mds_RootPre (MQ T D) addr s1 ⟨d + 1, xr, ty, cnt, seed⟩ x0 →
    Q' (OMap.promoteIfSingleChild ⟨d + 1, xr, ty, cnt, seed⟩ s1.ctx).1.d
      (OMap.promoteIfSingleChild ⟨d + 1, xr, ty, cnt, seed⟩ s1.ctx).1.root →
    ∃ s2, (rsOf T).promote (md_map ⟨d + 1, xr, ty, cnt, seed⟩ s1) h.id =
        (none, md_map (OMap.promoteIfSingleChild ⟨d + 1, xr, ty, cnt, seed⟩ s1.ctx).1 s2) ∧
      s2.ctx = (OMap.promoteIfSingleChild ⟨d + 1, xr, ty, cnt, seed⟩ s1.ctx).2 ∧ s2.popped = s1.popped ∧
      mds_RootPre Q' addr s2 (OMap.promoteIfSingleChild ⟨d + 1, xr, ty, cnt, seed⟩ s1.ctx).1
        (some (md_extra (OMap.promoteIfSingleChild ⟨d + 1, xr, ty, cnt, seed⟩ s1.ctx).1)) ∧
      mds_Delta s1.heap s2.heap (md_ids (d + 1) xr)
        (md_ids _ (OMap.promoteIfSingleChild ⟨d + 1, xr, ty, cnt, seed⟩ s1.ctx).1.root) := by
  intro addr d xr ty cnt seed h s1 x0 hh hmap hpre hQ'
  obtain ⟨mh, mchs, mcs, mroot⟩ := xr
  simp only at hh hmap
  subst hh
  obtain ⟨child, hc, hhd⟩ : ∃ child, mcs = [child] ∧ MTree.hdr d child = h := by
    cases mcs with
    | nil => cases hmap
    | cons c cs =>
      cases cs with
      | nil => exact ⟨c, rfl, by simpa using hmap.symm⟩
      | cons c' cs' => simp at hmap
  subst hc
  have hmq : MQ T D (d + 1) (⟨mh, [h], [child], mroot⟩ : MMetaSlab (MTree r d)) := hpre.inv
  have hloose : MetaLoose T D d false (⟨mh, [h], [child], mroot⟩ : MMetaSlab (MTree r d)) := hmq.1.1
  have hci : MTreeInv T D d false child := hloose.2.2.2.2.1 child List.mem_cons_self
  have hdig : ∀ x ∈ MTree.digests0 d child, x < 2^64 := fun x hx => hmq.2.2 x (by
    show x ∈ [child].flatMap (MTree.digests0 d)
    simpa using hx)
  obtain ⟨hsz, hfit⟩ := mtp_child_facts hT d child hci hdig
  have hheldr : MHolds s1.heap (d + 1) (⟨mh, [h], [child], mroot⟩ : MMetaSlab (MTree r d)) x0 := hpre.held
  have hheldc : MHolds s1.heap d child none := hheldr.2 child List.mem_cons_self
  have hheap : s1.heap h.id = some (md_tree d child none) := by rw [← hhd]; exact hheldc.root
  have hrootSome : (s1.heap mh.id).isSome = true := by
    have : s1.heap mh.id = some _ := hheldr.1
    rw [this]; rfl
  have hidsx : md_ids (d + 1) (⟨mh, [h], [child], mroot⟩ : MMetaSlab (MTree r d)) = mh.id :: md_ids d child := by
    show mh.id :: [child].flatMap (md_ids d) = _
    simp
  have hnd : (mh.id :: md_ids d child).Nodup := hidsx ▸ hpre.nodup
  have haddr : ∀ id ∈ mh.id :: md_ids d child, id.addr = addr := fun id hin => hpre.addrOk id (hidsx ▸ hin)
  have ob := Ob_promote_heap T d (⟨mh, [h], [child], mroot⟩ : MMetaSlab (MTree r d)) ty cnt seed s1 h child rfl rfl
    hheap hsz hfit
  refine ⟨_, ob.1, ob.2, rfl, ?_⟩
  rw [hidsx]
  cases d with
  | zero =>
    have core := mtp_core addr s1 0 child
      (MTree.setRoot 0 (MTree.setId 0 (({ (child : MDataSlab r) with hdr := { (child : MDataSlab r).hdr with
        size := (child : MDataSlab r).hdr.size - Gen.mapDataSlabPrefixSize + Gen.mapRootDataSlabPrefixSize } } :
        MDataSlab r) : MTree r 0) mh.id) true) mh.id h.id (some (ty, u64 cnt, seed)) rfl rfl (fun _ _ => trivial) (congrArg MHdr.id hhd)
      hheldc hrootSome hnd haddr hpre.ff
    exact ⟨⟨core.1, core.2.1, core.2.2.1, core.2.2.2.1, hQ'⟩, core.2.2.2.2⟩
  | succ d =>
    have core := mtp_core addr s1 (d + 1) child
      (MTree.setRoot (d + 1) (MTree.setId (d + 1) child mh.id) true) mh.id h.id (some (ty, u64 cnt, seed)) rfl rfl
      (fun _ hk => hk) (congrArg MHdr.id hhd) hheldc hrootSome hnd haddr hpre.ff
    exact ⟨⟨core.1, core.2.1, core.2.2.1, core.2.2.2.1, hQ'⟩, core.2.2.2.2⟩

end promote

/-! ### the invariant of the new root (model values only): `MQ` with the root flag SET -/

section newRoot
variable {r : Nat} {T : Nat} {D : DigestFn (r + 1)}

/-- `MQ` for a handle root: as `MQ`, with `SInv .. true` (the root flag is set) -/
def MQtop (T : Nat) (D : DigestFn (r + 1)) (d : Nat) (t : MTree r d) : Prop :=
  SInv T D d true t ∧ (MTree.hdr d t).size ≤ maxThr T + slack T d ∧ ∀ x ∈ MTree.digests0 d t, x < 2^64

/-- the new root of `promoteIfSingleChild`, a data slab child -/
theorem mtp_newRoot_zero (hT : legalThreshold T = true) (child : MDataSlab r) (rid : SlabID)
    (hinv : MDataInv T D false child) (hdig : ∀ x ∈ child.elems.hkeys, x < 2^64) :
    MQtop (r := r) T D 0 (MTree.setRoot 0 (MTree.setId 0 (({ child with hdr := { child.hdr with
      size := child.hdr.size - Gen.mapDataSlabPrefixSize + Gen.mapRootDataSlabPrefixSize } } : MDataSlab r) :
      MTree r 0) rid) true) := by
  have hl := hinv.loose
  have hpre := hl.prefix_nontop
  have hse := hl.size_eq
  have hinl : child.inlined = false := by
    cases hi : child.inlined with
    | false => rfl
    | true => have := hl.inl_root hi; cases this
  have hmax := hinv.le_max
  rw [hpre] at hse
  refine ⟨⟨hl.elems_inv, ?_, hl.first_eq, rfl, fun _ => rfl⟩, ?_, hdig⟩
  · show child.hdr.size - Gen.mapDataSlabPrefixSize + Gen.mapRootDataSlabPrefixSize = _ + child.elems.size
    simp only [MDataSlab.prefixSize, MTree.setRoot, MTree.setId, hinl, Bool.false_eq_true, if_false, if_true]
    simp only [Gen.mapDataSlabPrefixSize, Gen.mapRootDataSlabPrefixSize] at hse ⊢
    omega
  · show child.hdr.size - Gen.mapDataSlabPrefixSize + Gen.mapRootDataSlabPrefixSize ≤ _
    simp only [Gen.mapDataSlabPrefixSize, Gen.mapRootDataSlabPrefixSize] at hse ⊢
    omega

/-- the new root of `promoteIfSingleChild`, an index slab child whose identifier's address is the new identifier's -/
theorem mtp_newRoot_succ (hT : legalThreshold T = true) (d : Nat) (child : MMetaSlab (MTree r d)) (rid : SlabID)
    (hinv : MTreeInv T D (d + 1) false child) (haddr : child.hdr.id.addr = rid.addr)
    (hdig : ∀ x ∈ MTree.digests0 (d + 1) child, x < 2^64) :
    MQtop (r := r) T D (d + 1) (MTree.setRoot (d + 1) (MTree.setId (d + 1) child rid) true) := by
  obtain ⟨hl, hmax, hmin, _⟩ := (mtreeInv_succ_iff T D d false child).mp hinv
  obtain ⟨_, h2, h3, h4, h5, h6, h7, h8⟩ := hl
  have hm := hmin rfl
  have ht := thresholds_fit hT
  refine ⟨⟨⟨rfl, h2, h3, h4, h5, fun c hc => (h6 c hc).trans haddr, h7, h8⟩, ?_⟩, ?_, hdig⟩
  · show 1 ≤ child.children.length
    simp only [Gen.mapMetaDataSlabPrefixSize, Gen.mapSlabHeaderSize] at h3
    omega
  · show child.hdr.size ≤ _
    omega

/-- **the `promote` field for `rs := rsOf T`**: premise `mds_RootPre (MQ T D)` as in `MRootTail`, conclusion with the
    root-flag-SET invariant `MQtop T D` of the new root - no hypothesis left -/
theorem MRootTail_promote_rsOf_top (hT : legalThreshold T = true) :
    ∀ (addr d : Nat) (xr : MMetaSlab (MTree r d)) (ty cnt seed : Nat) (h : MHdr) (s1 : MHSt r) (x0 : Option DX),
    xr.childHdrs = [h] → xr.childHdrs = xr.children.map (MTree.hdr d) →
    mds_RootPre (MQ T D) addr s1 ⟨d + 1, xr, ty, cnt, seed⟩ x0 →
    ∃ s2, (rsOf T).promote (md_map ⟨d + 1, xr, ty, cnt, seed⟩ s1) h.id =
        (none, md_map (OMap.promoteIfSingleChild ⟨d + 1, xr, ty, cnt, seed⟩ s1.ctx).1 s2) ∧
      s2.ctx = (OMap.promoteIfSingleChild ⟨d + 1, xr, ty, cnt, seed⟩ s1.ctx).2 ∧ s2.popped = s1.popped ∧
      mds_RootPre (MQtop T D) addr s2 (OMap.promoteIfSingleChild ⟨d + 1, xr, ty, cnt, seed⟩ s1.ctx).1
        (some (md_extra (OMap.promoteIfSingleChild ⟨d + 1, xr, ty, cnt, seed⟩ s1.ctx).1)) ∧
      mds_Delta s1.heap s2.heap (md_ids (d + 1) xr)
        (md_ids _ (OMap.promoteIfSingleChild ⟨d + 1, xr, ty, cnt, seed⟩ s1.ctx).1.root) := by
  intro addr d xr ty cnt seed h s1 x0 hh hmap hpre
  refine MRootTail_promote_rsOf_partial hT (MQtop T D) addr d xr ty cnt seed h s1 x0 hh hmap hpre ?_
  obtain ⟨mh, mchs, mcs, mroot⟩ := xr
  simp only at hh hmap
  subst hh
  obtain ⟨child, hc, hhd⟩ : ∃ child, mcs = [child] ∧ MTree.hdr d child = h := by
    cases mcs with
    | nil => cases hmap
    | cons c cs =>
      cases cs with
      | nil => exact ⟨c, rfl, by simpa using hmap.symm⟩
      | cons c' cs' => simp at hmap
  subst hc
  have hmq : MQ T D (d + 1) (⟨mh, [h], [child], mroot⟩ : MMetaSlab (MTree r d)) := hpre.inv
  have hloose : MetaLoose T D d false (⟨mh, [h], [child], mroot⟩ : MMetaSlab (MTree r d)) := hmq.1.1
  have hci : MTreeInv T D d false child := hloose.2.2.2.2.1 child List.mem_cons_self
  have hca : (MTree.hdr d child).id.addr = mh.id.addr := hloose.2.2.2.2.2.1 child List.mem_cons_self
  have hdig : ∀ x ∈ MTree.digests0 d child, x < 2^64 := fun x hx => hmq.2.2 x (by
    show x ∈ [child].flatMap (MTree.digests0 d)
    simpa using hx)
  cases d with
  | zero => exact mtp_newRoot_zero hT child mh.id ((mtreeInv_zero_iff T D false child).mp hci) hdig
  | succ d => exact mtp_newRoot_succ hT d child mh.id hci hca hdig

end newRoot

end Atree.TransEq
