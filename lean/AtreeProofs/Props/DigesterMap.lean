import AtreeProofs.Props.Digester
import AtreeProofs.MapInv
import AtreeProofs.Props.C02
import AtreeProofs.Props.C12
/-
  (e) The map theorems' hypothesis "digests are a function of the key" (`DigestFn`, MapInv.lean) is
  INSTANTIATED by the real digester.

  The C02 / C12 theorems are stated "for every `D : DigestFn (r+1)`" and ask of every key record
  `k : MKey` that `k.digs = D.dg (k.size, k.pay)` (`KeyOk`).  Up to now "the digests the library
  computes for a key are such a function" was an assumption about hash.go.  Here it is a theorem:
  given only the caller's `HashInputProvider` contract (`HipContract`), the digests the pooled,
  caching `basicDigester` returns for a key — from ANY pool state satisfying the pool invariant, with
  ANY pool choice, after ANY earlier calls on the object — are the entries of
  `(digestFnOf H hip val k0).dg key`, a `DigestFn 4`.  Hence every C02 / C12 theorem applies to maps
  that use `NewDefaultDigesterBuilder()` (see the `example`s at the end).

  Go digests are `uint64`, the map model's are `Nat`; `UInt64.toNat` is injective and monotone
  (`toNat_faithful`), so equality and order of digests (all the map code looks at) are preserved.
-/
namespace Atree.Dig

variable {V : Type}

/-- the message the provider returns for `v` (`[]` if it fails) -/
def hipMsg (hip : HIP V) (v : V) : Bytes :=
  match (hip v BasicDigester.fresh.scratch).1 with
  | .ok m => m
  | .error _ => []

/-- **The caller's contract** for a `HashInputProvider` used with keys compared by `eqv`: it does
    not read the scratch buffer, it succeeds on every key, and keys the comparator calls equal get
    the same message. -/
structure HipContract (eqv : V → V → Prop) (hip : HIP V) : Prop where
  indep : ScratchIndep hip
  total : ∀ v, ∃ m, (hip v BasicDigester.fresh.scratch).1 = .ok m
  respects : ∀ a b, eqv a b → hipMsg hip a = hipMsg hip b

/-- the digest vector (as the map model's `Nat`s) of message `m` under seed `k0` -/
def digestVec (H : Hashes) (k0 : UInt64) (m : Bytes) : List Nat :=
  (List.range levels).map (fun l => ((specOf H k0 m).value H l).toNat)

theorem digestVec_length (H : Hashes) (k0 : UInt64) (m : Bytes) : (digestVec H k0 m).length = 4 := by
  simp [digestVec, levels]

/-- **The instance.**  `val` names the caller's key value for the model key `(size, pay)`. -/
def digestFnOf (H : Hashes) (hip : HIP V) (val : Nat × Nat → V) (k0 : UInt64) : DigestFn 4 where
  dg p := digestVec H k0 (hipMsg hip (val p))
  len _ := digestVec_length H k0 _

/-- Keys equal under the caller's equality have equal digests at every level. -/
theorem digests_respect_equality (H : Hashes) (eqv : V → V → Prop) (hip : HIP V) (hc : HipContract eqv hip)
    (k0 : UInt64) (a b : V) (hab : eqv a b) :
    digestVec H k0 (hipMsg hip a) = digestVec H k0 (hipMsg hip b) := by
  rw [hc.respects a b hab]

theorem toNat_faithful (a b : UInt64) :
    (a.toNat = b.toNat ↔ a = b) ∧ (a < b ↔ a.toNat < b.toNat) ∧ (a ≤ b ↔ a.toNat ≤ b.toNat) :=
  ⟨UInt64.toNat_inj, UInt64.lt_iff_toNat_lt, UInt64.le_iff_toNat_le⟩

/-- the object after a sequence of calls -/
def afterCalls (H : Hashes) : BasicDigester → List Call → BasicDigester
  | d, [] => d
  | d, .digest l :: cs => afterCalls H (d.digest H l).2 cs
  | d, .pref l :: cs => afterCalls H (d.digestPrefix H l).2 cs

theorem afterCalls_rep (H : Hashes) (s : SpecDigester) (cs : List Call) :
    ∀ d, Rep H d s → Rep H (afterCalls H d cs) s := by
  induction cs with
  | nil => intro d h; exact h
  | cons c cs ih =>
    intro d h
    cases c with
    | digest l => exact ih _ (h.digest l).2
    | pref l => exact ih _ (h.digestPrefix l).2

theorem digestVec_getElem? (H : Hashes) (k0 : UInt64) (m : Bytes) (l : Nat) (hl : l < 4) :
    (digestVec H k0 m)[l]? = some ((specOf H k0 m).value H l).toNat := by
  simp [digestVec, levels, hl]

/-- **The real digester instantiates `DigestFn`.**  For a provider honouring `HipContract`, a
    non-zero seed, a pool satisfying the invariant and any pool choice, `Digest(hip, val key)`
    succeeds and, after ANY sequence of earlier calls on the object,
      * `Digest(l)` for `l < 4` returns the `l`-th entry of `(digestFnOf …).dg key`,
      * `DigestPrefix(4)` returns the whole vector, so the key record built from what the library
        computed satisfies the digest clause of `KeyOk`. -/
theorem real_digester_instantiates_digestFn (H : Hashes) (eqv : V → V → Prop) (hip : HIP V)
    (hc : HipContract eqv hip) (val : Nat × Nat → V) (k0 k1 : UInt64) (hk : k0 ≠ 0)
    (p : Pool) (hp : PoolReset p) (c : Option Nat) (key : Nat × Nat) :
    ∃ d p', (Builder.new.setSeed k0 k1).digest H hip (val key) p c = (.ok d, p') ∧ PoolReset p' ∧
      ∀ calls : List Call,
        (∀ l, l < 4 → ∃ x, ((afterCalls H d calls).digest H l).1 = .ok x ∧
            ((digestFnOf H hip val k0).dg key)[l]? = some x.toNat) ∧
        (∃ ws, ((afterCalls H d calls).digestPrefix H 4).1 = .ok ws ∧
            (⟨key.1, key.2, ws.map (·.toNat)⟩ : MKey).digs = (digestFnOf H hip val k0).dg (key.1, key.2)) := by
  obtain ⟨m, hm⟩ := hc.total (val key)
  have hm' : (hip (val key) (p.get c).1.scratch).1 = .ok m := by rw [hc.indep _ _ BasicDigester.fresh.scratch, hm]
  have hmsg : hipMsg hip (val key) = m := by simp [hipMsg, hm]
  obtain ⟨hr, hp'⟩ := poolReset_get hp c
  refine ⟨_, _, build_ok H hip k0 k1 hk (val key) p c m hm', hp', ?_⟩
  intro calls
  have hrep := afterCalls_rep H (specOf H k0 m) calls _ (rep_of_build H _ hr (hip (val key) (p.get c).1.scratch).2 m k0)
  constructor
  · intro l hl
    refine ⟨(specOf H k0 m).value H l, ?_, ?_⟩
    · rw [(hrep.digest l).1]
      simp [SpecDigester.digest, levels]; omega
    · show (digestVec H k0 (hipMsg hip (val key)))[l]? = _
      rw [hmsg, digestVec_getElem? H k0 m l hl]
  · refine ⟨(List.range 4).map ((specOf H k0 m).value H), ?_, ?_⟩
    · rw [(hrep.digestPrefix 4).1]
      simp [SpecDigester.digestPrefix, levels]
    · show List.map _ _ = digestVec H k0 (hipMsg hip (val (key.1, key.2)))
      rw [show ((key.1, key.2) : Nat × Nat) = key from rfl, hmsg]
      simp [digestVec, levels, List.map_map]

/-- Whole histories: in ANY pooled history (any users, any interleaving of builds, digests,
    prefixes, resets, puts, pool choices and drops) every successful `Digest(l)` observation on an
    object built for `val key` with seed `k0` is the `l`-th entry of `(digestFnOf …).dg key` — by
    `pooled_history_refines_spec` the observations are those of the cache-free world, where a slot
    built for `val key` is `specOf H k0 (hipMsg hip (val key))`. -/
theorem specDigester_value_is_digestFn (H : Hashes) (hip : HIP V) (val : Nat × Nat → V) (k0 : UInt64)
    (key : Nat × Nat) (l : Nat) (hl : l < 4) :
    (specOf H k0 (hipMsg hip (val key))).digest H l =
      .ok (UInt64.ofNat (((digestFnOf H hip val k0).dg key).getD l 0)) := by
  have h1 : ((digestFnOf H hip val k0).dg key)[l]? = some ((specOf H k0 (hipMsg hip (val key))).value H l).toNat :=
    digestVec_getElem? H k0 _ l hl
  have h2 : ((digestFnOf H hip val k0).dg key).getD l 0 = ((specOf H k0 (hipMsg hip (val key))).value H l).toNat := by
    rw [List.getD_eq_getElem?_getD, h1]; rfl
  rw [h2]
  simp [SpecDigester.digest, levels]
  omega

/-! ### The C02 / C12 theorems apply to the real digester -/
section Apply
open Atree

variable (H : Hashes) (eqv : V → V → Prop) (hip : HIP V) (val : Nat × Nat → V) (k0 : UInt64)

/-- C02 lookup refinement, for the digest function of the real digester. -/
example (T : Nat) (hT : legalThreshold T = true) (cfg : MCfg) (m : OMap 3) (hcfg : CfgOk cfg T m)
    (h : MapInv T (digestFnOf H hip val k0) m) (k : MKey) (hk : KeyOk T 4 (digestFnOf H hip val k0) k) :=
  C02.get_refines T hT (digestFnOf H hip val k0) cfg m hcfg h k hk

/-- C02 insert refinement. -/
example (T : Nat) (hT : legalThreshold T = true) (cfg : MCfg) (m : OMap 3) (hcfg : CfgOk cfg T m)
    (h : MapInv T (digestFnOf H hip val k0) m) (k : MKey) (hk : KeyOk T 4 (digestFnOf H hip val k0) k)
    (v : Elem) (hv : ValueOkM v) (c : Ctx) (hc : CtxOk m c) :=
  C02.set_refines T hT (digestFnOf H hip val k0) cfg m hcfg h k hk v hv c hc

/-- C12: the collision limit refuses a new key, for the digest function of the real digester. -/
example (T : Nat) (hT : legalThreshold T = true) :=
  C12.limit_refuses_new_key (r := 3) T hT (digestFnOf H hip val k0)

/-- the empty map of `NewMap` satisfies the invariant for this digest function -/
example (T : Nat) (hT : legalThreshold T = true) (addr ty : Nat) (seedOf : SlabID → Nat) (c : Ctx) :=
  C02.inv_new (r := 3) T hT (digestFnOf H hip val k0) addr ty seedOf c

end Apply

/-! ### Non-vacuity: the harness's provider satisfies the contract -/
section NonVacuity

/-- model of `hx.HashInput`: 4 bytes of size, 8 bytes of payload (big-endian), newly allocated,
    buffer untouched -/
def harnessHip : HIP (Nat × Nat) := fun v buf =>
  (.ok ((List.range 4).reverse.map (fun i => (v.1 >>> (8 * i)).toUInt8) ++
        (List.range 8).reverse.map (fun i => (v.2 >>> (8 * i)).toUInt8)), buf)

theorem harnessHip_contract : HipContract (· = ·) harnessHip :=
  ⟨fun _ _ _ => rfl, fun _ => ⟨_, rfl⟩, fun _ _ h => by rw [h]⟩

example := real_digester_instantiates_digestFn toyH (· = ·) harnessHip harnessHip_contract id 77 1 (by decide)
  { free := [{ BasicDigester.fresh with scratch := [9, 9] }] } (by
    intro d hd
    simp only [List.mem_cons, List.not_mem_nil, or_false] at hd
    rw [hd]; exact ⟨rfl, rfl, rfl⟩) (some 0) (3, 513)

example : (digestFnOf toyH harnessHip id 77).dg (3, 513) ≠ (digestFnOf toyH harnessHip id 77).dg (3, 514) := by
  decide

/-- the bucket provider of the harness (`hx.HashInputBucket`): non-injective, still a function of
    the key — colliding keys collide on every level -/
def bucketHip : HIP (Nat × Nat) := fun v buf => (.ok [(v.2 % 7).toUInt8, 0xAB], buf)

theorem bucketHip_contract : HipContract (· = ·) bucketHip :=
  ⟨fun _ _ _ => rfl, fun _ => ⟨_, rfl⟩, fun _ _ h => by rw [h]⟩

example : (digestFnOf toyH bucketHip id 77).dg (3, 1) = (digestFnOf toyH bucketHip id 77).dg (3, 8) ∧
    (digestFnOf toyH bucketHip id 77).dg (3, 1) ≠ (digestFnOf toyH bucketHip id 77).dg (3, 2) := by decide

end NonVacuity

end Atree.Dig
