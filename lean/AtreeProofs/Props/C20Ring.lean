import AtreeProofs.Props.C20
/-
  C20 — detached reference rings.

  A set of slabs in which every member is referenced by a member (a reference cycle A=[ref B],
  B=[ref A], a slab that refers to itself, a longer ring, several rings) is never accepted by the
  model of `CheckStorageHealth`, whatever else the heap holds; and when none of the earlier checks
  of the function fires (no slab has two parents, every reference resolves, every walk from a leaf
  ends at a root with matching owners) the error is exactly "slab was not reachable from leaves",
  before the root count is looked at.

  This is the clause "reachability" of the property's mechanism: the health stream builds such
  rings beside healthy containers on every run (`detached-ring*`), the replayer compares the error
  kind the model gives with the one `CheckStorageHealth` returns.
-/
namespace Atree.C20
open Atree Health

/-- A nonempty set of slabs of the heap, each of which is referenced by a member of the set, makes
    the check fail (whatever root count is expected): no member hangs under a root. -/
theorem detached_ring_fails (h : Heap) (hk : (AList.keys h).Nodup) (S : List SlabID) (x0 : SlabID)
    (hx0 : x0 ∈ S) (hin : ∀ x ∈ S, AList.contains h x = true)
    (hclosed : ∀ x ∈ S, ∃ p ∈ S, (p, x) ∈ edges h) (expected : Option Nat) :
    ∀ R', check h expected ≠ .ok R' := by
  intro R' hok
  have hh := (health_sound h hk expected R' hok).1
  obtain ⟨r, hr, hreach⟩ := hh.reach x0 (hin x0 hx0)
  -- walking a path backwards from a member of S stays in S: the parent of a member is unique
  have key : ∀ y, Reach h r y → y ∈ S → r ∈ S := by
    intro y hy
    induction hy with
    | refl => exact id
    | @step b c _ hbc ih =>
      intro hc
      obtain ⟨p, hp, hpc⟩ := hclosed c hc
      have : b = p := parent_unique h hh.single hbc hpc
      exact ih (this ▸ hp)
  have hrS := key x0 hreach hx0
  obtain ⟨p, _, hpr⟩ := hclosed r hrS
  exact ((hh.roots_iff r).mp hr).2 ((mem_targets h r).mpr ⟨p, hpr⟩)

/-- The error KIND: when the first two loops of `CheckStorageHealth` and the reference-resolution
    test pass on a heap that holds such a set, the function fails with `unreachable`
    ("slab was not reachable from leaves"), whatever root count is expected: the reachability test
    precedes the root-count test. -/
theorem detached_ring_unreachable (h : Heap) (hk : (AList.keys h).Nodup) (S : List SlabID) (x0 : SlabID)
    (hx0 : x0 ∈ S) (hin : ∀ x ∈ S, AList.contains h x = true)
    (hclosed : ∀ x ∈ S, ∃ p ∈ S, (p, x) ∈ edges h)
    (po : AList SlabID SlabID) (leaves visited roots : List SlabID)
    (hscan : scan h [] [] = .ok (po, leaves)) (hres : allResolve h po = true)
    (hclimb : climbAll h po leaves [] [] = .ok (visited, roots)) (expected : Option Nat) :
    check h expected = .error .unreachable := by
  have hne : visited.length ≠ h.length := by
    intro heq
    have hno := detached_ring_fails h hk S x0 hx0 hin hclosed none roots
    apply hno
    simp [check, hscan, hres, hclimb, heq]
  simp [check, hscan, hres, hclimb, hne]

/-! Non-vacuity: a healthy array (root 1.1 over the leaves 1.2, 1.3) beside the ring
    1.4 = [ref 1.5], 1.5 = [ref 1.4]; a slab that refers to itself; a ring under two owners. -/

def ringHeap : Heap :=
  [(⟨1, 1⟩, { self := ⟨1, 1⟩, refs := [⟨1, 2⟩, ⟨1, 3⟩] }), (⟨1, 2⟩, { self := ⟨1, 2⟩, refs := [] }),
   (⟨1, 3⟩, { self := ⟨1, 3⟩, refs := [] }),
   (⟨1, 4⟩, { self := ⟨1, 4⟩, refs := [⟨1, 5⟩] }), (⟨1, 5⟩, { self := ⟨1, 5⟩, refs := [⟨1, 4⟩] })]

example : check ringHeap (some 1) = .error .unreachable := by decide
example : check ringHeap none = .error .unreachable := by decide
example : check ringHeap (some 2) = .error .unreachable := by decide
/-- the hypotheses of `detached_ring_unreachable` are met by `ringHeap` with `S = [1.4, 1.5]`: the
    two loops and the resolution test pass ... -/
example : (match scan ringHeap [] [] with
    | .ok (po, leaves) => allResolve ringHeap po &&
        (match climbAll ringHeap po leaves [] [] with | .ok _ => true | .error _ => false)
    | .error _ => false) = true := by decide
/-- ... and every member of the ring is referenced by a member -/
example : ∀ x ∈ [(⟨1, 4⟩ : SlabID), ⟨1, 5⟩], ∃ p ∈ [(⟨1, 4⟩ : SlabID), ⟨1, 5⟩], (p, x) ∈ edges ringHeap := by
  decide
/-- the healthy part alone is accepted -/
example : check (ringHeap.take 3) (some 1) = .ok [⟨1, 1⟩] := by decide
/-- a slab that refers to itself, alone in the heap -/
example : check [(⟨1, 1⟩, { self := ⟨1, 1⟩, refs := [⟨1, 1⟩] })] none = .error .unreachable := by decide
/-- a ring under two owners: the owner test is never reached -/
example : check [(⟨1, 1⟩, { self := ⟨1, 1⟩, refs := [⟨3, 1⟩] }), (⟨3, 1⟩, { self := ⟨3, 1⟩, refs := [⟨1, 1⟩] })] none
    = .error .unreachable := by decide

end Atree.C20
